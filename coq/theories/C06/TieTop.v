(* C06 — tie, part 3: the statements before the context window, on the encoding of the model's inputs; assembly. *)
From Coq Require Import List ZArith QArith Bool Arith Lia ZifyBool ZifyNat.
From PV Require Import C06.Model C06.Spec C06.Proofs MiniTorch.OpsC06 MiniTorch.LemmasC06 C06.SrcRun C06.TieRun C06.TieSrc.
Import ListNotations.
Local Open Scope Z_scope.

Lemma map_repeat' {A C} (f : A -> C) (x : A) n : map f (repeat x n) = repeat (f x) n.
Proof. induction n as [|n IH]; [reflexivity|]. cbn. rewrite IH. reflexivity. Qed.

(* ---- rectangular histories as tensors ---- *)
Lemma concat_rect_length (rows : list (list Z)) B : rect rows B -> length (concat rows) = (length rows * B)%nat.
Proof.
  induction 1 as [|r rows Hr _ IH]; [reflexivity|]. cbn [concat length]. rewrite app_length, IH, Hr. lia.
Qed.

Lemma skipn_concat_rect (rows : list (list Z)) B : rect rows B -> forall a,
  skipn (a * B) (concat rows) = concat (skipn a rows).
Proof.
  induction 1 as [|r rows Hr _ IH]; intros a.
  - rewrite !skipn_nil. reflexivity.
  - destruct a as [|a]; [reflexivity|]. cbn [concat skipn]. replace (S a * B)%nat with (B + a * B)%nat by lia.
    rewrite skipn_app, skipn_all2 by lia. rewrite Hr. cbn [app]. replace (B + a * B - B)%nat with (a * B)%nat by lia. apply IH.
Qed.

Lemma firstn_concat_rect (rows : list (list Z)) B : rect rows B -> forall a,
  firstn (a * B) (concat rows) = concat (firstn a rows).
Proof.
  induction 1 as [|r rows Hr _ IH]; intros a.
  - rewrite !firstn_nil. reflexivity.
  - destruct a as [|a]; [reflexivity|]. cbn [concat firstn]. replace (S a * B)%nat with (B + a * B)%nat by lia.
    rewrite firstn_app, firstn_all2 by lia. rewrite Hr. replace (B + a * B - B)%nat with (a * B)%nat by lia. rewrite IH. reflexivity.
Qed.

Lemma rect_firstn rows B a : rect rows B -> rect (firstn a rows) B.
Proof. intros H. apply Forall_forall. intros r Hr. apply (proj1 (Forall_forall _ _) H). apply (In_firstn_in _ _ _ Hr). Qed.

Lemma rect_skipn rows B a : rect rows B -> rect (skipn a rows) B.
Proof. intros H. apply Forall_forall. intros r Hr. apply (proj1 (Forall_forall _ _) H). apply (In_skipn_in _ _ _ Hr). Qed.

(* x[a:c] of a (T, B) history *)
Lemma slice0_hist (rows : list (list Z)) B (a c : Z) : rect rows B -> 0 <= a <= c -> c <= zlen rows ->
  slice0 (hist_tensor rows B) (Some a) (Some c) =
  Some (hist_tensor (firstn (Z.to_nat (c - a)) (skipn (Z.to_nat a) rows)) B).
Proof.
  intros Hr Ha Hc. unfold zlen in Hc. unfold slice0, hist_tensor. cbn [sh6 dt6 clip prodn fold_right].
  replace (a <? 0) with false by lia. replace (c <? 0) with false by lia.
  rewrite (Z.min_r _ a), (Z.min_r _ c) by lia. rewrite !Z.max_r by lia.
  rewrite Nat.mul_1_r. f_equal.
  rewrite firstn_length, skipn_length. replace (Nat.min (Z.to_nat (c - a)) (length rows - Z.to_nat a)) with (Z.to_nat (c - a)) by lia.
  f_equal. rewrite skipn_map, firstn_map. f_equal.
  rewrite (skipn_concat_rect rows B Hr), (firstn_concat_rect _ B (rect_skipn _ _ _ Hr)). reflexivity.
Qed.

(* a rectangular block of rows, column by column *)
Lemma concat_rect_tab (rows : list (list Z)) B : rect rows B ->
  map CI (concat rows) = flat_map (fun i => map (fun bi => CI (nth bi (nth i rows []) 0)) (seq 0 B)) (seq 0 (length rows)).
Proof.
  induction 1 as [|r rows Hr _ IH]; [reflexivity|].
  cbn [concat length seq flat_map]. rewrite map_app, IH. f_equal.
  - cbn [nth]. rewrite <- Hr. rewrite <- (firstn_all r) at 1. rewrite <- (map_nth_seq0 0 r (length r)) by lia.
    rewrite map_map. reflexivity.
  - symmetry. rewrite <- seq_shift, flat_map_concat_map, map_map, <- flat_map_concat_map. reflexivity.
Qed.

Lemma hist_tensor_wt sh (rows : list (list Z)) B : rect rows B -> length rows = (order sh - 1)%nat ->
  hist_tensor rows B = wt sh B (map (column rows) (seq 0 B)).
Proof.
  intros Hr Hl. unfold hist_tensor, wt, T2. rewrite !seq_length, Hl. f_equal.
  rewrite (concat_rect_tab rows B Hr), Hl.
  assert (Hfe : forall (l : list nat) (f g : nat -> list cell), (forall i, In i l -> f i = g i) -> flat_map f l = flat_map g l).
  { induction l as [|x l IH]; intros f g H; [reflexivity|]. cbn [flat_map]. rewrite (H x) by (left; reflexivity).
    rewrite (IH f g) by (intros; apply H; right; assumption). reflexivity. }
  apply Hfe. intros i _. apply map_ext_in. intros bi Hbi. apply in_seq in Hbi. unfold win.
  rewrite (nth_indep (map (column rows) (seq 0 B)) [] (column rows 0)) by (rewrite map_length, seq_length; lia).
  rewrite (map_nth (column rows) (seq 0 B) 0%nat), seq_nth by lia. cbn [Nat.add]. rewrite nth_column. reflexivity.
Qed.



(* ---- the statements before the window ---- *)
Section Top.
  Variable b : bufs.
  Variable sh : shape.
  Variable hist : list (list Z).
  Variable B : nat.

  Let Vn := Z.to_nat (vocab sh).
  Let N := Z.of_nat (order sh).

  Lemma size_hist rows : size (hist_tensor rows B) 1 = Some B.
  Proof. reflexivity. Qed.

  Lemma numel_ivec l : Z.of_nat (numel (ivec l)) = zlen l.
  Proof. unfold numel, ivec, zlen. cbn [sh6 prodn fold_right]. lia. Qed.

  Lemma numel_fvec l : Z.of_nat (numel (fvec l)) = zlen l.
  Proof. unfold numel, fvec, zlen. cbn [sh6 prodn fold_right]. lia. Qed.

  Lemma usize_eq : (1 <= order sh)%nat ->
    vocab sh + (if (0 <=? sos sh) && (sos sh <? vocab sh) then 0 else 1) + 1 mod N = usize sh.
  Proof.
    intros Ho. unfold usize, shiftz, shiftb. destruct ((0 <=? sos sh) && (sos sh <? vocab sh)); cbn [negb];
      (destruct (Nat.eqb_spec (order sh) 1) as [E|E];
       [unfold N; rewrite E; reflexivity | rewrite Z.mod_small by (unfold N; lia); reflexivity]).
  Qed.

  Lemma shift_eq : (if (0 <=? sos sh) && (sos sh <? vocab sh) then 0 else 1) = shiftz (vocab sh) (sos sh).
  Proof. unfold shiftz, shiftb. destruct ((0 <=? sos sh) && (sos sh <? vocab sh)); reflexivity. Qed.

  Lemma slice_logps : vocab sh <= zlen (logps b) -> 0 <= vocab sh ->
    slice0 (fvec (logps b)) None (Some (vocab sh)) =
    Some (T1 (seq 0 Vn) (fun v => CF (fl_of (zget (logps b) (Z.of_nat v) NaN)))).
  Proof.
    intros H H0. unfold zlen in H. unfold slice0, fvec, T1. cbn [sh6 dt6 clip prodn fold_right].
    replace (vocab sh <? 0) with false by lia. rewrite Z.min_r, Z.max_r by lia. rewrite Z.sub_0_r, Nat.mul_1_r.
    cbn [Z.to_nat Nat.mul skipn]. fold Vn. rewrite seq_length. f_equal. f_equal.
    rewrite firstn_map. rewrite (firstn_map_nth (logps b) NaN Vn) by (unfold Vn; lia). rewrite map_map.
    apply map_ext. intros v. unfold zget. replace (Z.of_nat v <? 0) with false by lia. rewrite Nat2Z.id. reflexivity.
  Qed.

  (* the rows of the result, lane by lane *)
  Lemma rows_nl (g : nat -> Z -> val) :
    map (fun v => CF (fl_of v)) (concat (map (fun bi => map (g bi) (zrange (vocab sh))) (seq 0 B)))
    = map (fun e => CF (fl_of (g (fst e) (Z.of_nat (vof e))))) (nl B Vn).
  Proof.
    unfold nl. rewrite !flat_map_concat_map, !concat_map, !map_map. f_equal. apply map_ext. intros bi.
    unfold zrange. fold Vn. rewrite !map_map. reflexivity.
  Qed.
End Top.

Section Scalar.
  Variable b : bufs.
  Variable sh : shape.
  Variable hist : list (list Z).
  Variable B : nat.

  Let Vn := Z.to_nat (vocab sh).
  Local Notation N := (Z.of_nat (order sh)).

  Definition ctx_of (i : nat) (bi : nat) : list Z := context (order sh) (sos sh) (firstn i (column hist bi)).

  Definition padT (k : nat) : tens6 := T6 [k; B] (repeat (CI (sos sh)) (k * (B * 1))).

  Lemma full_pad (k : nat) : full [Z.of_nat k; Z.of_nat B] (CI (sos sh)) = Some (padT k).
  Proof.
    unfold full, padT. cbn [nats_of]. replace (0 <=? Z.of_nat k) with true by lia. replace (0 <=? Z.of_nat B) with true by lia.
    cbn [option_map]. rewrite !Nat2Z.id. reflexivity.
  Qed.

  Lemma cat_pad (k : nat) : cat0 [padT k; hist_tensor hist B] = Some (hist_tensor (repeat (repeat (sos sh) B) k ++ hist) B).
  Proof.
    unfold cat0, padT, hist_tensor. cbn [sh6 dt6 cat_rows shape_eqb option_map fst snd prodn fold_right].
    rewrite Nat.eqb_refl. cbn [andb option_map fst snd]. f_equal. f_equal.
    - rewrite app_length, repeat_length. f_equal. lia.
    - rewrite app_nil_r, concat_app, map_app. f_equal. rewrite Nat.mul_1_r.
      induction k as [|k IH]; [reflexivity|]. cbn [repeat concat Nat.mul]. rewrite map_app, <- IH, repeat_app. f_equal.
      symmetry. apply map_repeat'.
  Qed.

  Lemma expand_scalar (h : Z) :
    (do hi <- as_int (T6 [] [CI h]); expand hi [Z.of_nat B]) = Some (T1 (seq 0 B) (fun bi => CI (hx (repeat h B) bi))).
  Proof.
    unfold as_int, map_cells. cbn [dt6 sh6 map sequence option_map bo]. unfold expand. cbn [nats_of].
    replace (0 <=? Z.of_nat B) with true by lia. cbn [option_map sh6 dt6]. rewrite Nat2Z.id. unfold T1. rewrite seq_length.
    f_equal. f_equal. unfold hx. rewrite repeat_as_map. apply map_ext_in. intros bi Hbi. apply in_seq in Hbi.
    rewrite nth_repeat_lt by lia. reflexivity.
  Qed.

  Theorem lookup_fn_scalar (i : nat) :
    lens_ok b sh = true -> (1 <= order sh)%nat -> 1 <= vocab sh -> vocab sh <= zlen (logps b) ->
    Z.of_nat (maxdesc sh) <= vocab sh + 1 -> rect hist B -> (i <= length hist)%nat ->
    ((2 <= order sh)%nat -> forall bi v h, (bi < B)%nat -> (v < Vn)%nat -> N - 1 <= h ->
        lookup1_safe b sh h (mapwin sh (ctx_of i bi)) (Z.of_nat v)) ->
    lookup_fn (hist_tensor hist B) (idx_tensor (Scalar (Z.of_nat i))) (ivec (offsets b)) (ivec (ids b))
      (fvec (logps b)) (fvec (logbs b)) (sos sh) (vocab sh) N (gnodes sh) (Z.of_nat (maxdesc sh))
    = Some (rows_tensor B Vn (batch_rows b sh hist B (repeat i B))).
  Proof.
    intros Hlens Ho HV HVP HS Hrect Hi Hsafe.
    unfold lookup_fn. rewrite size_hist. cbn [bo]. cbv zeta.
    rewrite !(numel_ivec sh), !(numel_fvec sh). rewrite (usize_eq sh Ho). rewrite shift_eq.
    replace (N =? 0) with false by lia.
    assert (H1 : (zlen (ids b) =? zlen (offsets b) + gnodes sh - usize sh) = true)
      by (unfold lens_ok, psize, osize in Hlens; lia).
    assert (H2 : (zlen (logps b) =? zlen (offsets b) + gnodes sh) = true) by (unfold lens_ok, psize, osize in Hlens; lia).
    assert (H3 : (zlen (logbs b) =? zlen (offsets b)) = true) by (unfold lens_ok, psize, osize in Hlens; lia).
    rewrite H1, H2, H3. cbn [andb].
    change (zlen (offsets b) + gnodes sh) with (psize b sh). change (zlen (offsets b)) with (osize b).
    unfold idx_tensor at 1. cbn [numel sh6 prodn fold_right Z.of_nat Pos.of_succ_nat Z.eqb].
    rewrite (slice_logps b sh HVP) by lia. cbn [bo]. fold Vn.
    rewrite batch_rows_repeat. unfold rows_tensor.
    destruct (Nat.eqb_spec (order sh) 1) as [E1|E1].
    - (* unigram model *)
      replace (N =? 1) with true by lia. unfold expand. cbn [nats_of]. replace (0 <=? Z.of_nat B) with true by lia.
      replace (0 <=? vocab sh) with true by lia. cbn [option_map sh6 dt6 T1]. rewrite !Nat2Z.id. fold Vn. rewrite seq_length, Nat.eqb_refl.
      f_equal. f_equal. unfold elem_row. rewrite E1. cbn [Nat.eqb]. fold Vn.
      rewrite (firstn_map_nth (logps b) NaN Vn) by (unfold Vn, zlen in *; lia).
      rewrite repeat_as_map, concat_map, !map_map. f_equal. apply map_ext. intros _.
      apply map_ext. intros v. unfold zget. replace (Z.of_nat v <? 0) with false by lia. rewrite Nat2Z.id. reflexivity.
    - assert (HN2 : (2 <= order sh)%nat) by lia.
      replace (N =? 1) with false by lia.
      unfold idx_tensor, tmin. cbn [dt6 map int_of sequence option_map fold_right bo]. unfold item.
      cbn [dt6 numel sh6 prodn fold_right Nat.eqb bo].
      set (ws0 := map (ctx_of i) (seq 0 B)).
      assert (Hlw : length ws0 = B) by (unfold ws0; rewrite map_length, seq_length; reflexivity).
      assert (Hnw : forall bi, (bi < B)%nat -> nth bi ws0 [] = ctx_of i bi).
      { intros bi Hb. unfold ws0. rewrite (nth_indep _ [] (ctx_of i 0)) by (rewrite map_length, seq_length; lia).
        rewrite (map_nth (ctx_of i) (seq 0 B) 0%nat), seq_nth by lia. reflexivity. }
      assert (Hlen : forall bi, (bi < B)%nat -> length (nth bi ws0 []) = (order sh - 1)%nat).
      { intros bi Hb. rewrite Hnw by exact Hb. apply context_length. }
      assert (Hwm : forall bi, (bi < B)%nat -> win (map (mapwin sh) ws0) bi = mapwin sh (ctx_of i bi)).
      { intros bi Hb. unfold win. rewrite (nth_indep _ [] (mapwin sh [])) by (rewrite map_length; lia).
        rewrite map_nth, Hnw by exact Hb. reflexivity. }
      (* the result of main_tab is the model's rows *)
      assert (Hres : forall hexp, (forall bi, (bi < B)%nat -> N - 1 <= hx hexp bi) ->
                T6 [B; Vn] (map (fun e => CF (fl_of (lookup1 b sh (hx hexp (fst e)) (win (map (mapwin sh) ws0) (fst e)) (Z.of_nat (vof e))))) (nl B Vn))
                = T6 [B; Vn] (map (fun v => CF (fl_of v)) (concat (map (fun bi => elem_row b sh (column hist bi) i) (seq 0 B))))).
      { intros hexp Hh. f_equal. unfold elem_row. replace (order sh =? 1)%nat with false by lia.
        rewrite rows_nl.
        apply map_ext_in. intros e He. apply nl_in in He as (bi & v & -> & Hb & Hv). cbn [fst snd vof].
        rewrite Hwm by exact Hb. f_equal. f_equal.
        specialize (Hh bi Hb). apply lookup1_hidx; rewrite mapwin_length; unfold ctx_of; rewrite context_length; lia. }
      destruct (0 <? N - 1 - Z.of_nat i) eqn:Epad.
      + (* short history: left-padded with sos *)
        set (k := (order sh - 1 - i)%nat).
        replace (N - 1 - Z.of_nat i) with (Z.of_nat k) by (unfold k; lia).
        rewrite full_pad. cbn [bo]. rewrite cat_pad. cbn [bo].
        unfold add_s, map_cells. cbn [dt6 sh6 map sequence option_map bo].
        rewrite <- (Hres (repeat (Z.of_nat i + Z.of_nat k) B)).
        2:{ intros bi Hb. unfold hx. rewrite nth_repeat_lt by exact Hb. unfold k. lia. }
        apply (main_tab b sh B ws0 (repeat (Z.of_nat i + Z.of_nat k) B)); try assumption; try lia.
        * (* the window *)
          unfold window_fn. cbn [numel sh6 prodn fold_right Z.of_nat Pos.of_succ_nat Z.eqb Pos.eqb].
          change (- 0) with 0.
          rewrite slice0_hist.
          -- f_equal. rewrite Z.sub_0_r. cbn [Z.to_nat skipn].
             replace (Z.to_nat (Z.of_nat i + Z.of_nat k)) with (k + i)%nat by lia.
             rewrite firstn_app_len by (apply repeat_length).
             rewrite (hist_tensor_wt sh).
             ++ f_equal. unfold ws0. apply map_ext_in. intros bi Hbi. apply in_seq in Hbi.
                rewrite column_app, column_repeat, column_firstn by lia. unfold ctx_of.
                rewrite context_short by (rewrite firstn_length, column_length; lia).
                rewrite firstn_length, column_length. f_equal. f_equal. unfold k. lia.
             ++ apply Forall_app. split; [apply Forall_forall; intros r Hr; apply repeat_spec in Hr; subst r; apply repeat_length|].
                apply rect_firstn. exact Hrect.
             ++ rewrite app_length, repeat_length, firstn_length. unfold k. lia.
          -- apply Forall_app. split; [apply Forall_forall; intros r Hr; apply repeat_spec in Hr; subst r; apply repeat_length|exact Hrect].
          -- lia.
          -- unfold zlen. rewrite app_length, repeat_length. unfold k. lia.
        * apply expand_scalar.
        * intros bi v Hb Hv. rewrite Hwm by exact Hb. apply Hsafe; try assumption.
          unfold hx. rewrite nth_repeat_lt by exact Hb. unfold k. lia.
      + (* long enough *)
        rewrite <- (Hres (repeat (Z.of_nat i) B)).
        2:{ intros bi Hb. unfold hx. rewrite nth_repeat_lt by exact Hb. lia. }
        apply (main_tab b sh B ws0 (repeat (Z.of_nat i) B)); try assumption; try lia.
        * unfold window_fn. cbn [numel sh6 prodn fold_right Z.of_nat Pos.of_succ_nat Z.eqb Pos.eqb].
          rewrite slice0_hist by (try exact Hrect; unfold zlen; lia).
          f_equal.
          replace (Z.to_nat (Z.of_nat i - - (N - 1 - Z.of_nat i))) with (order sh - 1)%nat by lia.
          replace (Z.to_nat (- (N - 1 - Z.of_nat i))) with (i - (order sh - 1))%nat by lia.
          rewrite (hist_tensor_wt sh).
          -- f_equal. unfold ws0. apply map_ext_in. intros bi Hbi. apply in_seq in Hbi. unfold ctx_of.
             rewrite context_long by (rewrite firstn_length, column_length; lia).
             rewrite firstn_length, column_length, column_firstn, column_skipn.
             rewrite skipn_firstn_comm. replace (Init.Nat.min i (length hist)) with i by lia. f_equal. lia.
          -- apply rect_firstn, rect_skipn. exact Hrect.
          -- rewrite firstn_length, skipn_length. lia.
        * apply expand_scalar.
        * intros bi v Hb Hv. rewrite Hwm by exact Hb. apply Hsafe; try assumption.
          unfold hx. rewrite nth_repeat_lt by exact Hb. lia.
  Qed.
End Scalar.
