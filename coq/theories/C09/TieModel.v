(* C09 — the list functions of TieSrc.v (what the interpreted source computes on tabulated tensors, element by element)
   are PV.C09.Model's functions (which work on whole CELLS: a cell = the F flattened trailing features): the flat buffers
   and the padded tensor of the source are the concatenation of the model's cells, errors coincide.  Pure list reasoning;
   no interpreter here. *)
From Coq Require Import List ZArith Bool Arith Lia ZifyBool ZifyNat.
From PV Require Import MiniPy.Syntax MiniTorch.OpsC09 MiniTorch.LemmasC09.
From PV Require Import C09.Model C09.Proofs C09.TieSrc.
Import ListNotations.
Local Open Scope nat_scope.

(* the two copies of masked_select / masked_scatter on flat lists are the same functions *)
Lemma mselect_eq {X} (m : list bool) (x : list X) : OpsC09.mselect m x = Model.mselect m x.
Proof. revert x. induction m as [|b m IH]; intros [|a x]; cbn; try reflexivity. now rewrite IH. Qed.

Lemma mscatter_eq {X} (m : list bool) (d s : list X) : OpsC09.mscatter m d s = Model.mscatter m d s.
Proof.
  revert d s. induction m as [|b m IH]; intros [|a d] s; cbn; try reflexivity.
  destruct b; [destruct s as [|s0 s]; [reflexivity|]|]; now rewrite IH.
Qed.

(* ---- lists of cells ---------------------------------------------------------------------------------- *)
Section Cells.
  Context {X : Type}.
  Variable F : nat.
  Definition cellsF (l : list (list X)) : Prop := Forall (fun c => length c = F) l.

  (* a mask over cells, repeated over the F elements of each cell *)
  Definition xpand (m : list bool) : list bool := flat_map (fun b => repeat b F) m.

  Lemma mselect_repeat_app b (c : list X) m x :
    length c = F -> Model.mselect (repeat b F ++ m) (c ++ x) = (if b then c else []) ++ Model.mselect m x.
  Proof.
    intros H. rewrite mselect_app by now rewrite repeat_length.
    destruct b; [rewrite mselect_true by assumption|rewrite mselect_false]; reflexivity.
  Qed.

  Lemma mselect_nil_r (m : list bool) : Model.mselect m (@nil X) = [].
  Proof. destruct m; reflexivity. Qed.

  Lemma mselect_cells m (cells : list (list X)) :
    cellsF cells -> Model.mselect (xpand m) (concat cells) = concat (Model.mselect m cells).
  Proof.
    revert cells. induction m as [|b m IH]; intros cells H; [reflexivity|].
    destruct cells as [|c cells]; [cbn; apply mselect_nil_r|].
    inversion H as [|? ? Hc Hr]; subst. cbn [xpand flat_map concat]. fold (xpand m).
    rewrite mselect_repeat_app by assumption. rewrite IH by assumption. destruct b; reflexivity.
  Qed.

  Lemma cellsF_mselect m (cells : list (list X)) : cellsF cells -> cellsF (Model.mselect m cells).
  Proof.
    revert cells. induction m as [|b m IH]; intros [|c cells] H; cbn; try constructor.
    inversion H; subst. destruct b; [constructor; [assumption|]|]; now apply IH.
  Qed.

  Lemma mscatter_true_app (c s : list X) m d src :
    length c = F -> length s = F ->
    Model.mscatter (repeat true F ++ m) (c ++ d) (s ++ src) = option_map (app s) (Model.mscatter m d src).
  Proof.
    intros Hc Hs. rewrite mscatter_app_exact by (rewrite ?repeat_length, ?count_true_repeat; lia).
    rewrite place_true by assumption. reflexivity.
  Qed.

  Lemma mscatter_false_app (c : list X) m d src :
    length c = F -> Model.mscatter (repeat false F ++ m) (c ++ d) src = option_map (app c) (Model.mscatter m d src).
  Proof.
    intros Hc. change src with ([] ++ src) at 1.
    rewrite mscatter_app_exact by (rewrite ?repeat_length, ?count_true_repeat; cbn; lia).
    rewrite place_false by assumption. reflexivity.
  Qed.

  Lemma mscatter_cells m (dst src : list (list X)) :
    0 < F -> cellsF dst -> cellsF src ->
    Model.mscatter (xpand m) (concat dst) (concat src) = option_map (@concat X) (Model.mscatter m dst src).
  Proof.
    intros HF. revert dst src. induction m as [|b m IH]; intros dst src Hd Hs; [reflexivity|].
    destruct dst as [|c dst]; [cbn [concat Model.mscatter option_map]; now destruct (xpand (b :: m))|].
    inversion Hd as [|? ? Hc Hr]; subst. cbn [xpand flat_map concat]. fold (xpand m).
    destruct b.
    - destruct src as [|s src].
      + cbn [concat Model.mscatter]. destruct F as [|F']; [lia|]. destruct c; [discriminate|]. reflexivity.
      + inversion Hs as [|? ? Hs1 Hs2]; subst. cbn [concat]. rewrite mscatter_true_app by assumption.
        rewrite IH by assumption. cbn [Model.mscatter]. destruct (Model.mscatter m dst src); reflexivity.
    - rewrite mscatter_false_app by assumption. rewrite IH by assumption. cbn [Model.mscatter].
      destruct (Model.mscatter m dst src); reflexivity.
  Qed.

  Lemma cellsF_mscatter m (dst src l : list (list X)) :
    Model.mscatter m dst src = Some l -> cellsF dst -> cellsF src -> cellsF l.
  Proof.
    revert dst src l. induction m as [|b m IH]; intros dst src l E Hd Hs.
    - cbn in E. injection E as <-. constructor.
    - destruct dst as [|c dst]; [cbn in E; injection E as <-; constructor|].
      inversion Hd; subst. cbn in E. destruct b.
      + destruct src as [|s src]; [discriminate|]. inversion Hs; subst.
        destruct (Model.mscatter m dst src) as [l'|] eqn:E'; [|discriminate]. injection E as <-.
        constructor; [assumption|]. eapply IH; eassumption.
      + destruct (Model.mscatter m dst src) as [l'|] eqn:E'; [|discriminate]. injection E as <-.
        constructor; [assumption|]. eapply IH; eassumption.
  Qed.

  Lemma mscatter_length {Y} m (dst src l : list Y) :
    Model.mscatter m dst src = Some l -> length l = Nat.min (length m) (length dst).
  Proof.
    revert dst src l. induction m as [|b m IH]; intros dst src l E; [cbn in E; injection E as <-; reflexivity|].
    destruct dst as [|c dst]; [cbn in E; injection E as <-; reflexivity|]. cbn in E. destruct b.
    - destruct src as [|s src]; [discriminate|].
      destruct (Model.mscatter m dst src) as [l'|] eqn:E'; [|discriminate]. injection E as <-. cbn. now rewrite (IH _ _ _ E').
    - destruct (Model.mscatter m dst src) as [l'|] eqn:E'; [|discriminate]. injection E as <-. cbn. now rewrite (IH _ _ _ E').
  Qed.
End Cells.

Lemma concat_unflatten {Y} n t (l : list Y) : length l = n * t -> concat (unflatten n t l) = l.
Proof.
  revert l. induction n as [|n IH]; intros l H; cbn [unflatten concat].
  - destruct l; [reflexivity|discriminate].
  - rewrite IH by (rewrite skipn_length; lia). apply firstn_skipn.
Qed.

Lemma unflatten_length {Y} n t (l : list Y) : length (unflatten n t l) = n.
Proof. revert l. induction n as [|n IH]; intros l; cbn; [reflexivity|]. now rewrite IH. Qed.

Lemma cellsF_firstn {Y} F k (l : list (list Y)) : cellsF F l -> cellsF F (firstn k l).
Proof.
  revert k. induction l as [|a l IH]; intros k H; [now rewrite firstn_nil|]. destruct k; [constructor|].
  inversion H as [|? ? Ha Hl]. cbn. constructor; [assumption|]. now apply IH.
Qed.

Lemma cellsF_skipn {Y} F k (l : list (list Y)) : cellsF F l -> cellsF F (skipn k l).
Proof.
  revert k. induction l as [|a l IH]; intros k H; [now rewrite skipn_nil|]. destruct k; [assumption|].
  inversion H as [|? ? Ha Hl]. cbn. now apply IH.
Qed.

(* the rows of a reshaped flat list of cells: t cells each, every cell whole *)
Lemma unflatten_wf {Y} F n t (l : list (list Y)) :
  length l = n * t -> cellsF F l -> Forall (fun row => length row = t /\ cellsF F row) (unflatten n t l).
Proof.
  revert l. induction n as [|n IH]; intros l HL HC; cbn [unflatten]; constructor.
  - split; [rewrite firstn_length; lia|now apply cellsF_firstn].
  - apply IH; [rewrite skipn_length; lia|now apply cellsF_skipn].
Qed.

Lemma concat_concat_map {Y} (l : list (list (list Y))) : concat (concat l) = concat (map (@concat Y) l).
Proof. induction l as [|a l IH]; [reflexivity|]. cbn. now rewrite concat_app, IH. Qed.

(* ---- tabulations as concatenations -------------------------------------------------------------------- *)
Lemma tab2_concat {Y} n m (f : nat -> nat -> Y) : tab2 n m f = concat (map (fun i => tab1 m (f i)) (seq 0 n)).
Proof. unfold tab2. apply flat_map_concat_map. Qed.

Lemma concat_flat_map {Y Z0} (g : Z0 -> list (list Y)) l : concat (flat_map g l) = flat_map (fun i => concat (g i)) l.
Proof. induction l as [|a l IH]; [reflexivity|]. cbn. now rewrite concat_app, IH. Qed.

(* the (n, m, k) block = the concatenation of its n*m cells *)
Lemma tab3_cells {Y} n m k (f : nat -> nat -> nat -> Y) :
  tab3 n m k f = concat (tab2 n m (fun i j => tab1 k (f i j))).
Proof.
  unfold tab3, tab2 at 2. rewrite concat_flat_map. apply flat_map_ext. intros i.
  unfold tab2, tab1 at 2. now rewrite <- flat_map_concat_map.
Qed.

Lemma xpand_flat_map F (g : nat -> list bool) l : xpand F (flat_map g l) = flat_map (fun i => xpand F (g i)) l.
Proof. unfold xpand. induction l as [|a l IH]; [reflexivity|]. cbn. now rewrite flat_map_app, IH. Qed.

(* a cell mask expanded over the F features *)
Lemma tab3_xpand n m F (g : nat -> nat -> bool) : tab3 n m F (fun i j _ => g i j) = xpand F (tab2 n m g).
Proof.
  unfold tab3, tab2 at 2. rewrite xpand_flat_map. apply flat_map_ext. intros i.
  unfold tab2, tab1 at 2, xpand. rewrite flat_map_concat_map, flat_map_concat_map, map_map. f_equal.
  apply map_ext. intros j. symmetry. apply repeat_tab1.
Qed.

Lemma cellsF_tab2 {Y} F n m (f : nat -> nat -> list Y) :
  (forall i j, i < n -> j < m -> length (f i j) = F) -> cellsF F (tab2 n m f).
Proof.
  intros H. apply Forall_forall. intros c Hc. unfold tab2 in Hc. apply in_flat_map in Hc as (i & Hi & Hc).
  unfold tab1 in Hc. apply in_map_iff in Hc as (j & <- & Hj). apply in_seq in Hi, Hj. apply H; lia.
Qed.

Lemma firstn_seq k s n : firstn k (seq s n) = seq s (Nat.min k n).
Proof.
  revert s k. induction n as [|n IH]; intros s k; [now rewrite Nat.min_0_r, firstn_nil|].
  destruct k; [reflexivity|]. cbn. now rewrite IH.
Qed.

Lemma existsb_orb {Y} (f g : Y -> bool) l : existsb (fun x => f x || g x) l = existsb f l || existsb g l.
Proof.
  induction l as [|a l IH]; [reflexivity|]. cbn. rewrite IH.
  destruct (f a), (g a), (existsb f l), (existsb g l); reflexivity.
Qed.

Lemma existsb_map {Y Z0} (f : Z0 -> bool) (g : Y -> Z0) l : existsb f (map g l) = existsb (fun x => f (g x)) l.
Proof. induction l as [|a l IH]; [reflexivity|]. cbn. now rewrite IH. Qed.

Lemma existsb_ext_in {Y} (f g : Y -> bool) l : (forall x, List.In x l -> f x = g x) -> existsb f l = existsb g l.
Proof.
  induction l as [|a l IH]; intros H; [reflexivity|]. cbn. rewrite H by now left. rewrite IH; [reflexivity|].
  intros x Hx. apply H. now right.
Qed.

Lemma existsb_false_in {A} (f : A -> bool) l : existsb f l = false -> forall x, List.In x l -> f x = false.
Proof.
  intros H x Hx. destruct (f x) eqn:E; [|reflexivity].
  assert (existsb f l = true) by (apply existsb_exists; eauto). congruence.
Qed.

Lemma match_map_seq {Y W} (g : nat -> Y) n (a b : W) :
  match map g (seq 0 n) with [] => a | _ :: _ => b end = match n with 0 => a | S _ => b end.
Proof. destruct n; reflexivity. Qed.

(* ---- the model's batch, tabulated --------------------------------------------------------------------------- *)
Section Mod.
  Variables (N T F : nat) (xf : nat -> nat -> nat -> val) (lf pf qf : nat -> nat).

  Definition cell (i j : nat) : list val := tab1 F (xf i j).
  Definition cellsR (i : nat) : list (list val) := tab1 T (cell i).
  Definition mk (i : nat) : prow (list val) := mkProw (cellsR i) (lf i) (pf i) (qf i).
  Definition rowsM : list (prow (list val)) := map mk (seq 0 N).

  Hypothesis HT : forall i, i < N -> lf i <= T.

  Lemma cell_length i j : length (cell i j) = F. Proof. apply tab1_length. Qed.

  Lemma nth_cellsR i k d : k < T -> nth k (cellsR i) d = cell i k.
  Proof. intros H. unfold cellsR. now rewrite nth_tab1. Qed.

  Lemma concat_rows {Y} (g : prow (list val) -> list Y) W (h : nat -> nat -> Y) :
    (forall i, i < N -> g (mk i) = tab1 W (h i)) -> concat (map g rowsM) = tab2 N W h.
  Proof.
    intros H. unfold rowsM. rewrite map_map, tab2_concat. f_equal. apply map_ext_in. intros i Hi. apply in_seq in Hi.
    apply H. lia.
  Qed.

  Lemma cells_rows : concat (map p_cells rowsM) = tab2 N T cell.
  Proof. apply concat_rows. reflexivity. Qed.

  Lemma lt_mask_rows (f : prow (list val) -> nat) W :
    concat (lt_mask f W rowsM) = tab2 N W (fun i j => j <? f (mk i)).
  Proof. unfold lt_mask. apply concat_rows. reflexivity. Qed.

  Lemma between_mask_rows (lo hi : prow (list val) -> nat) W :
    concat (between_mask lo hi W rowsM) = tab2 N W (fun i j => (j <? hi (mk i)) && negb (j <? lo (mk i))).
  Proof. unfold between_mask. apply concat_rows. reflexivity. Qed.

  Lemma lmax_rows : list_max (map p_l rowsM) = lmaxS N pf.
  Proof. unfold rowsM, lmaxS. now rewrite map_map. Qed.
  Lemma rmax_rows : list_max (map p_r rowsM) = rmaxS N qf.
  Proof. unfold rowsM, rmaxS. now rewrite map_map. Qed.

  Lemma list_max_map_le (f : nat -> nat) l b : (forall i, List.In i l -> f i <= b) -> list_max (map f l) <= b.
  Proof.
    intros H. apply list_max_le. apply Forall_forall. intros x Hx. apply in_map_iff in Hx as (i & <- & Hi). now apply H.
  Qed.

  Lemma le_list_max_map (f : nat -> nat) l i : List.In i l -> f i <= list_max (map f l).
  Proof.
    intros Hi. assert (H : list_max (map f l) <= list_max (map f l)) by lia.
    apply list_max_le in H. rewrite Forall_forall in H. apply H. now apply in_map.
  Qed.

  (* one flat selection of the source = the concatenated cells of the model's selection *)
  Lemma select_lift_eq W (mb : nat -> nat -> bool) (ef : nat -> nat -> nat -> val)
        (gM : prow (list val) -> list bool) (gG : prow (list val) -> list (list val))
        (mb' : nat -> nat -> bool) (cf : nat -> nat -> list val) :
    (forall i, i < N -> gM (mk i) = tab1 W (mb' i)) -> (forall i, i < N -> gG (mk i) = tab1 W (cf i)) ->
    (forall i j, i < N -> j < W -> mb i j = mb' i j) ->
    (forall i j, i < N -> j < W -> tab1 F (ef i j) = cf i j) ->
    OpsC09.mselect (tab3 N W F (fun i j _ => mb i j)) (tab3 N W F ef) = concat (select2 (map gM rowsM) (map gG rowsM)).
  Proof.
    intros HM HG Hm He. unfold select2. rewrite (concat_rows gM W mb' HM), (concat_rows gG W cf HG).
    assert (HC : cellsF F (tab2 N W cf)).
    { apply cellsF_tab2. intros i j Hi Hj. rewrite <- He by assumption. apply tab1_length. }
    rewrite tab3_xpand, tab3_cells, mselect_eq. rewrite (tab2_ext N W mb mb' Hm).
    rewrite (tab2_ext N W (fun i j => tab1 F (ef i j)) cf He). now apply mselect_cells.
  Qed.

  Lemma select_lift_cells W (gM : prow (list val) -> list bool) (gG : prow (list val) -> list (list val))
        (cf : nat -> nat -> list val) :
    (forall i, i < N -> gG (mk i) = tab1 W (cf i)) -> (forall i j, i < N -> j < W -> length (cf i j) = F) ->
    cellsF F (select2 (map gM rowsM) (map gG rowsM)).
  Proof.
    intros HG Hc. unfold select2. rewrite (concat_rows gG W cf HG). apply cellsF_mselect. now apply cellsF_tab2.
  Qed.

  Lemma refl_bad_model :
    existsb (fun r : prow (list val) => (p_len r <=? p_l r) || (p_len r <=? p_r r)) rowsM = refl_bad N lf pf qf.
  Proof.
    unfold rowsM, refl_bad. rewrite existsb_map. cbn [mk p_len p_l p_r]. rewrite existsb_orb. f_equal;
      apply existsb_ext_in; intros i _; unfold ZI; lia.
  Qed.

  Lemma repl_bad_model : existsb (fun r : prow (list val) => p_len r <? 1) rowsM = repl_bad N lf.
  Proof.
    unfold rowsM, repl_bad. rewrite existsb_map. cbn [mk p_len]. apply existsb_ext_in; intros i _; unfold ZI; lia.
  Qed.

  Lemma refl_ok_of : refl_bad N lf pf qf = false -> forall i, i < N -> pf i < lf i /\ qf i < lf i.
  Proof.
    unfold refl_bad. intros H i Hi. apply orb_false_iff in H as [H1 H2].
    assert (Hin : List.In i (seq 0 N)) by (apply in_seq; lia).
    pose proof (existsb_false_in _ _ H1 i Hin) as A1. pose proof (existsb_false_in _ _ H2 i Hin) as A2.
    cbv beta in A1, A2. unfold ZI in A1, A2. lia.
  Qed.

  Lemma repl_ok_of : repl_bad N lf = false -> forall i, i < N -> 1 <= lf i.
  Proof.
    unfold repl_bad. intros H i Hi. assert (Hin : List.In i (seq 0 N)) by (apply in_seq; lia).
    pose proof (existsb_false_in _ _ H i Hin) as A1. cbv beta in A1. unfold ZI in A1. lia.
  Qed.

  (* the tensor a buffer stands for: x itself in constant mode (never looked at), else the 1-dimensional tensor that
     masked_select returns *)
  Definition bufT (md : mode) (d : list val) : tn val :=
    match md with Constant => mkTn [N; T; F] d | _ => buf d end.

  Lemma dat_bufT md d : dat (bufT md d) = d.
  Proof. destruct md; reflexivity. Qed.

  Definition gpb_rel (md : mode) (m : res (list (list val) * list (list val))) (s : res (tn val * tn val)) : Prop :=
    match m with
    | Ok (l, r) => s = Ok (bufT md (concat l), bufT md (concat r)) /\ cellsF F l /\ cellsF F r
    | ErrValue => s = ErrValue
    | ErrRuntime => s = ErrRuntime
    | ErrNotImpl => s = ErrNotImpl
    end.

  Theorem src_gpb_model d md :
    gpb_rel md (get_padding_buffers p_cells p_len p_l p_r T d md rowsM) (src_gpb N T F xf lf pf qf md).
  Proof.
    destruct md; cbn [get_padding_buffers src_gpb].
    - (* constant *)
      assert (cellsF F (concat (map p_cells rowsM))) by (rewrite cells_rows; apply cellsF_tab2; intros; apply cell_length).
      split; [|split; assumption]. unfold xT, bufT. now rewrite cells_rows, tab3_cells.
    - (* reflect *)
      rewrite refl_bad_model. destruct (refl_bad N lf pf qf) eqn:E; [reflexivity|].
      unfold rowsM at 1. rewrite match_map_seq. destruct N as [|N'] eqn:EN; [reflexivity|]. rewrite <- EN in *.
      pose proof (refl_ok_of E) as Hok. rewrite lmax_rows, rmax_rows.
      assert (Hl : lmaxS N pf <= T).
      { apply list_max_map_le. intros i Hi. apply in_seq in Hi. destruct (Hok i); [lia|]. specialize (HT i). lia. }
      assert (Hr : rmaxS N qf <= T).
      { apply list_max_map_le. intros i Hi. apply in_seq in Hi. destruct (Hok i); [lia|]. specialize (HT i). lia. }
      rewrite !firstn_seq, !Nat.min_l by assumption.
      cbn [gpb_rel]. unfold refl_left, refl_right, gt_mask, bufT.
      assert (GM1 : forall i, i < N -> firstn (lmaxS N pf) (map (fun t => t <? p_l (mk i)) (seq 0 T)) = tab1 (lmaxS N pf) (fun j => j <? pf i)).
      { intros i Hi. cbn [mk p_l]. change (map (fun t => t <? pf i) (seq 0 T)) with (tab1 T (fun t => t <? pf i)).
        now rewrite firstn_tab1, Nat.min_l by assumption. }
      assert (GG1 : forall i, i < N -> map (fun j => nth (p_l (mk i) - j) (p_cells (mk i)) d) (seq 0 (lmaxS N pf))
                                       = tab1 (lmaxS N pf) (fun j => cell i (pf i - j))).
      { intros i Hi. cbn [mk p_l p_cells]. apply map_ext_in. intros j Hj. apply in_seq in Hj. apply nth_cellsR.
        destruct (Hok i Hi). specialize (HT i Hi). lia. }
      assert (GG2 : forall i, i < N -> map (fun j => nth (p_len (mk i) - j - 2) (p_cells (mk i)) d) (seq 0 (rmaxS N qf))
                                       = tab1 (rmaxS N qf) (fun j => cell i (lf i - j - 2))).
      { intros i Hi. cbn [mk p_len p_cells]. apply map_ext_in. intros j Hj. apply in_seq in Hj. apply nth_cellsR.
        destruct (Hok i Hi). specialize (HT i Hi). lia. }
      split; [f_equal; f_equal; f_equal|split].
      + apply (select_lift_eq _ _ _ _ _ (fun i j => j <? pf i) (fun i j => cell i (pf i - j)) GM1 GG1).
        * intros i j Hi Hj. unfold ZI. lia.
        * intros i j Hi Hj. unfold cell. apply tab1_ext. intros l Hl0. f_equal. unfold ZI. lia.
      + apply (select_lift_eq _ _ _ _ _ (fun i j => j <? qf i) (fun i j => cell i (lf i - j - 2)) (fun i _ => eq_refl) GG2).
        * intros i j Hi Hj. unfold ZI. lia.
        * intros i j Hi Hj. unfold cell. apply tab1_ext. intros l Hl0. f_equal. unfold ZI. lia.
      + apply (select_lift_cells _ _ _ _ GG1). intros. apply cell_length.
      + apply (select_lift_cells _ _ _ _ GG2). intros. apply cell_length.
    - (* replicate *)
      rewrite repl_bad_model. destruct (repl_bad N lf) eqn:E; [reflexivity|].
      unfold rowsM at 1. rewrite match_map_seq. destruct N as [|N'] eqn:EN; [reflexivity|]. rewrite <- EN in *.
      pose proof (repl_ok_of E) as Hok. rewrite lmax_rows, rmax_rows.
      assert (HT1 : 1 <= T) by (specialize (Hok 0); specialize (HT 0); lia).
      rewrite !firstn_seq. rewrite !Nat.min_l by lia.
      cbn [gpb_rel]. unfold repl_left, repl_right, gt_mask, bufT.
      assert (GG1 : forall i, i < N -> repeat (nth 0 (p_cells (mk i)) d) (lmaxS N pf) = tab1 (lmaxS N pf) (fun _ => cell i 0)).
      { intros i Hi. cbn [mk p_cells]. rewrite nth_cellsR by lia. apply repeat_tab1. }
      assert (GG2 : forall i, i < N -> repeat (nth (p_len (mk i) - 1) (p_cells (mk i)) d) (rmaxS N qf)
                                       = tab1 (rmaxS N qf) (fun _ => cell i (lf i - 1))).
      { intros i Hi. cbn [mk p_len p_cells]. rewrite nth_cellsR by (specialize (Hok i Hi); specialize (HT i Hi); lia).
        apply repeat_tab1. }
      split; [f_equal; f_equal; f_equal|split].
      + apply (select_lift_eq _ _ _ _ _ (fun i j => j <? pf i) (fun i _ => cell i 0) (fun i _ => eq_refl) GG1).
        * intros i j Hi Hj. unfold ZI. lia.
        * intros i j Hi Hj. reflexivity.
      + apply (select_lift_eq _ _ _ _ _ (fun i j => j <? qf i) (fun i _ => cell i (lf i - 1)) (fun i _ => eq_refl) GG2).
        * intros i j Hi Hj. unfold ZI. lia.
        * intros i j Hi Hj. unfold cell. apply tab1_ext. intros l Hl0. f_equal. unfold ZI. specialize (Hok i Hi). lia.
      + apply (select_lift_cells _ _ _ _ GG1). intros. apply cell_length.
      + apply (select_lift_cells _ _ _ _ GG2). intros. apply cell_length.
    - reflexivity.
  Qed.

  (* ---- pad_variable after the shape checks ---- *)
  Lemma len_rows : length rowsM = N.
  Proof. unfold rowsM. now rewrite map_length, seq_length. Qed.

  Lemma tp_rows : list_max (map p_new rowsM) = TpS N lf pf qf.
  Proof. unfold rowsM, TpS. now rewrite map_map. Qed.

  Lemma padded_rows (fill : list val) W : concat (repeat (repeat fill W) N) = tab2 N W (fun _ _ => fill).
  Proof.
    rewrite tab2_concat, (repeat_tab1 (repeat fill W) N). unfold tab1 at 1. f_equal. apply map_ext. intros _. apply repeat_tab1.
  Qed.

  (* one flat scatter of the source = the concatenated cells of the model's scatter, failing together *)
  Lemma scatter_lift W (mb mb' : nat -> nat -> bool) (gM : prow (list val) -> list bool) (D S : list (list val)) :
    0 < F -> (forall i, i < N -> gM (mk i) = tab1 W (mb' i)) ->
    (forall i j, i < N -> j < W -> mb i j = mb' i j) -> cellsF F D -> cellsF F S ->
    OpsC09.mscatter (tab3 N W F (fun i j _ => mb i j)) (concat D) (concat S)
    = option_map (@concat val) (Model.mscatter (concat (map gM rowsM)) D S).
  Proof.
    intros HF HM Hm HD HS. rewrite (concat_rows gM W mb' HM), tab3_xpand, mscatter_eq, (tab2_ext N W mb mb' Hm).
    now apply mscatter_cells.
  Qed.

  Lemma mask_rows_length (gM : prow (list val) -> list bool) W (mb' : nat -> nat -> bool) :
    (forall i, i < N -> gM (mk i) = tab1 W (mb' i)) -> length (concat (map gM rowsM)) = N * W.
  Proof. intros HM. rewrite (concat_rows gM W mb' HM). apply tab2_length. Qed.

  Definition pad_rel (m : res (list (list (list val)))) (s : res (list val)) : Prop :=
    match m with
    | Ok out => s = Ok (concat (map (@concat val) out)) /\ length out = N
                /\ Forall (fun row => length row = TpS N lf pf qf /\ cellsF F row) out
    | ErrValue => s = ErrValue
    | ErrRuntime => s = ErrRuntime
    | ErrNotImpl => s = ErrNotImpl
    end.

  Theorem src_pad_model d value md :
    0 < F -> pad_rel (pad_variable_rows T d (repeat value F) md rowsM) (src_pad N T F xf lf pf qf value md).
  Proof.
    intros HF. unfold pad_variable_rows, src_pad.
    pose proof (src_gpb_model d md) as G.
    destruct (get_padding_buffers p_cells p_len p_l p_r T d md rowsM) as [[l r]| | |] eqn:EG; cbn [gpb_rel] in G;
      [|rewrite G; reflexivity ..].
    destruct G as (-> & Cl & Cr). cbn [Model.bind fst snd]. rewrite !dat_bufT.
    unfold rowsM at 1. rewrite match_map_seq.
    destruct N as [|N'] eqn:EN; [reflexivity|]. rewrite <- EN in *.
    rewrite len_rows, tp_rows. set (Tp := TpS N lf pf qf).
    assert (Exs : OpsC09.mselect (tab3 N T F (fun i j _ => zmask (ZI lf) T i j)) (tab3 N T F xf)
                  = concat (select2 (lt_mask p_len T rowsM) (map p_cells rowsM))).
    { unfold lt_mask. apply (select_lift_eq T _ _ _ _ (fun i j => j <? lf i) cell (fun i _ => eq_refl) (fun i _ => eq_refl)).
      - intros i j Hi Hj. unfold zmask, ZI. lia.
      - intros i j Hi Hj. reflexivity. }
    assert (Cxs : cellsF F (select2 (lt_mask p_len T rowsM) (map p_cells rowsM))).
    { unfold lt_mask. apply (select_lift_cells T _ _ cell (fun i _ => eq_refl)). intros. apply cell_length. }
    rewrite Exs. set (xs := select2 _ _) in *.
    unfold scatter2.
    assert (ED0 : tab3 N Tp F (fun _ _ _ => value) = concat (concat (repeat (repeat (repeat value F) Tp) N))).
    { rewrite padded_rows, tab3_cells. f_equal. apply tab2_ext. intros. symmetry. apply repeat_tab1. }
    assert (CD0 : cellsF F (concat (repeat (repeat (repeat value F) Tp) N))).
    { rewrite padded_rows. apply cellsF_tab2. intros. apply repeat_length. }
    assert (LD0 : length (concat (repeat (repeat (repeat value F) Tp) N)) = N * Tp).
    { rewrite padded_rows. apply tab2_length. }
    rewrite ED0. set (D0 := concat (repeat _ N)) in *.
    unfold between_mask, lt_mask.
    (* first scatter: the valid part *)
    match goal with |- context [Model.mscatter (concat (map ?g rowsM)) D0 xs] =>
      rewrite (scatter_lift Tp _ (fun i j => (j <? pf i + lf i) && negb (j <? pf i)) g D0 xs HF (fun i _ => eq_refl))
        by (assumption || (intros i j Hi Hj; unfold zmask, midZ, ZI; lia));
      pose proof (mask_rows_length g Tp _ (fun i _ => eq_refl)) as LM1;
      destruct (Model.mscatter (concat (map g rowsM)) D0 xs) as [l1|] eqn:E1
    end; cbn [option_map Model.bind]; [|destruct md; reflexivity].
    pose proof (cellsF_mscatter F _ _ _ _ E1 CD0 Cxs) as C1.
    assert (L1 : length l1 = N * Tp) by (rewrite (mscatter_length _ _ _ _ E1), LM1, LD0; lia).
    destruct md; [| | |discriminate EG].
    - (* constant *)
      split; [now rewrite <- concat_concat_map, concat_unflatten by assumption|split; [apply unflatten_length|now apply unflatten_wf]].
    - (* reflect *)
      rewrite concat_unflatten by assumption.
      match goal with |- context [Model.mscatter (concat (map ?g rowsM)) l1 l] =>
        rewrite (scatter_lift Tp _ (fun i j => j <? pf i) g l1 l HF (fun i _ => eq_refl))
          by (assumption || (intros i j Hi Hj; unfold zmask, ZI; lia));
        pose proof (mask_rows_length g Tp _ (fun i _ => eq_refl)) as LM2;
        destruct (Model.mscatter (concat (map g rowsM)) l1 l) as [l2|] eqn:E2
      end; cbn [option_map Model.bind]; [|reflexivity].
      pose proof (cellsF_mscatter F _ _ _ _ E2 C1 Cl) as C2.
      assert (L2 : length l2 = N * Tp) by (rewrite (mscatter_length _ _ _ _ E2), LM2, L1; lia).
      rewrite concat_unflatten by assumption.
      match goal with |- context [Model.mscatter (concat (map ?g rowsM)) l2 r] =>
        rewrite (scatter_lift Tp _ (fun i j => (j <? lf i + (pf i + qf i)) && negb (j <? pf i + lf i)) g l2 r HF (fun i _ => eq_refl))
          by (assumption || (intros i j Hi Hj; unfold zmask, midZ, newZ, ZI; lia));
        pose proof (mask_rows_length g Tp _ (fun i _ => eq_refl)) as LM3;
        destruct (Model.mscatter (concat (map g rowsM)) l2 r) as [l3|] eqn:E3
      end; cbn [option_map Model.bind]; [|reflexivity].
      assert (L3 : length l3 = N * Tp) by (rewrite (mscatter_length _ _ _ _ E3), LM3, L2; lia).
      pose proof (cellsF_mscatter F _ _ _ _ E3 C2 Cr) as C3.
      split; [now rewrite <- concat_concat_map, concat_unflatten by assumption|split; [apply unflatten_length|now apply unflatten_wf]].
    - (* replicate *)
      rewrite concat_unflatten by assumption.
      match goal with |- context [Model.mscatter (concat (map ?g rowsM)) l1 l] =>
        rewrite (scatter_lift Tp _ (fun i j => j <? pf i) g l1 l HF (fun i _ => eq_refl))
          by (assumption || (intros i j Hi Hj; unfold zmask, ZI; lia));
        pose proof (mask_rows_length g Tp _ (fun i _ => eq_refl)) as LM2;
        destruct (Model.mscatter (concat (map g rowsM)) l1 l) as [l2|] eqn:E2
      end; cbn [option_map Model.bind]; [|reflexivity].
      pose proof (cellsF_mscatter F _ _ _ _ E2 C1 Cl) as C2.
      assert (L2 : length l2 = N * Tp) by (rewrite (mscatter_length _ _ _ _ E2), LM2, L1; lia).
      rewrite concat_unflatten by assumption.
      match goal with |- context [Model.mscatter (concat (map ?g rowsM)) l2 r] =>
        rewrite (scatter_lift Tp _ (fun i j => (j <? lf i + (pf i + qf i)) && negb (j <? pf i + lf i)) g l2 r HF (fun i _ => eq_refl))
          by (assumption || (intros i j Hi Hj; unfold zmask, midZ, newZ, ZI; lia));
        pose proof (mask_rows_length g Tp _ (fun i _ => eq_refl)) as LM3;
        destruct (Model.mscatter (concat (map g rowsM)) l2 r) as [l3|] eqn:E3
      end; cbn [option_map Model.bind]; [|reflexivity].
      assert (L3 : length l3 = N * Tp) by (rewrite (mscatter_length _ _ _ _ E3), LM3, L2; lia).
      pose proof (cellsF_mscatter F _ _ _ _ E3 C2 Cr) as C3.
      split; [now rewrite <- concat_concat_map, concat_unflatten by assumption|split; [apply unflatten_length|now apply unflatten_wf]].
  Qed.
End Mod.
