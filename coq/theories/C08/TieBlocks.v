(* C08 tie - symbolic runs of the blocks of `spec_augment_draw_parameters`.

   The body is cut by statement markers (harness/py2coq/units/C08Src.json) into
     draw_head   argument check, N, T, F, device, eps, omeps, lengths (None / given)
     draw_twarp  `if max_time_warp:` ... W, w_0, w
     draw_fwarp  `if max_freq_warp:` ... V, v_0, v
     draw_tmask  `if max_time_mask and ...:` max_, nums_, t, t_0
     draw_fmask  `if max_freq_mask and num_freq_mask:` max_, f, f_0
     draw_ret    `return w_0, w, v_0, v, t_0, t, f_0, f`
   Each lemma below runs one block with [Interp.exec] from an ARBITRARY state in which the variables the
   block reads hold the stated values, and gives the final state in closed form: the variables the block
   assigns hold tensors in canonical form whose entries are the per-element functions [s_*] (the float32
   formulas exactly as the MiniTorch operations compute them), the other variables are untouched, and
   each torch.rand call has appended one event.  TieModel.v relates [s_*] to PV.C08.Model, Tie.v composes
   the blocks into the whole body. *)
From Coq Require Import ZArith QArith Qround List String Bool Arith Lia.
From PV Require Import MiniPy.Syntax MiniPy.Interp MiniTorch.Ops MiniTorch.OpsC08 MiniTorch.LemmasC08.
From PV Require Import Gen.C08Src C08.SrcRun C08.TieLib.
From PV Require C08.Model.
Import ListNotations.
Local Open Scope string_scope.

#[local] Arguments Qred : simpl never.
#[local] Arguments Qdiv : simpl never.
#[local] Arguments Qmult : simpl never.
#[local] Arguments Qplus : simpl never.
#[local] Arguments Qminus : simpl never.
#[local] Arguments Qcompare : simpl never.
#[local] Arguments Qeq_bool : simpl never.
#[local] Arguments inject_Z : simpl never.
#[local] Arguments Z.of_nat : simpl never.
#[local] Arguments Z.add : simpl never.
#[local] Arguments Z.sub : simpl never.
#[local] Arguments Z.mul : simpl never.
#[local] Arguments Z.eqb : simpl never.

(* ---- the per-element formulas the operations compute -------------------------------------------- *)
Section Src.
  Variable a : Model.arith.
  Notation r32 := (Model.r32 a).
  Notation sc := (OpsC08.sc a).
  Local Open Scope Q_scope.

  (* W = (lengths / 2 - eps).clamp(0, max_time_warp) on the float32 length l *)
  Definition s_W (eps Wt l : Q) : Q :=
    Model.qmin (Model.qmax (r32 (r32 (l / sc (inject_Z 2)) - sc eps)) (sc (inject_Z 0))) (sc Wt).
  (* w_0 = rand * (lengths - 2 * W) + W;  w = rand * (2 * W) - W *)
  Definition s_w0 (W l u : Q) : Q := r32 (r32 (u * r32 (l - r32 (W * sc (inject_Z 2)))) + W).
  Definition s_w (W u : Q) : Q := r32 (r32 (u * r32 (W * sc (inject_Z 2))) - W).
  (* v_0 = rand * s1 + s2;  v = rand * s3 - s2  with the Python numbers s1 = F - 2 * V, s2 = V, s3 = 2 * V *)
  Definition s_v0 (s1 s2 u : Q) : Q := r32 (r32 (u * sc s1) + sc s2).
  Definition s_v (s3 s2 u : Q) : Q := r32 (r32 (u * sc s3) - sc s2).
  (* torch.clamp(lengths * p, max=M).floor() *)
  Definition s_cap (p : Q) (M : Z) (l : Q) : Q :=
    Model.z2q (Qfloor (Model.qmin (r32 (l * sc p)) (sc (inject_Z M)))).
  (* t = (rand * (max_ + omeps).unsqueeze(1)).long().masked_fill(nums_.unsqueeze(1) <= arange, 0) *)
  Definition s_t (om mx nm : Q) (m : nat) (u : Q) : Z :=
    if Qle_bool nm (Model.z2q (Z.of_nat m)) then 0%Z else Model.qtrunc (r32 (u * r32 (mx + sc om))).
  (* t_0 = (rand * (lengths.unsqueeze(1) - t + omeps)).long() *)
  Definition s_t0 (om l : Q) (t : Z) (u : Q) : Z :=
    Model.qtrunc (r32 (u * r32 (r32 (l - Model.z2q t) + sc om))).
  (* f = (rand * s).long() with the Python number s = max_ + omeps;  f_0 = (rand * (F - f + omeps)).long() *)
  Definition s_f (s u : Q) : Z := Model.qtrunc (r32 (u * sc s)).
  Definition s_f0 (om : Q) (F f : Z) (u : Q) : Z :=
    Model.qtrunc (r32 (u * r32 (r32 (Model.z2q (F - f)) + sc om))).
End Src.

(* ---- the symbolic run ---------------------------------------------------------------------------- *)
Lemma of_nat_eqb0 n : (Z.of_nat n =? 0)%Z = Nat.eqb n 0.
Proof. destruct n; [reflexivity|]. cbn [Nat.eqb]. apply Z.eqb_neq. lia. Qed.

Lemma shp_T2 {X} n m (f : nat -> nat -> X) : shp (T2 n m f) = [n; m].  Proof. reflexivity. Qed.
Lemma shp_T1 {X} n (f : nat -> X) : shp (T1 n f) = [n].  Proof. reflexivity. Qed.
Lemma nats_eqb_refl l : nats_eqb l l = true.
Proof. induction l as [|x l IH]; [reflexivity|]. cbn [nats_eqb]. now rewrite Nat.eqb_refl. Qed.

Lemma min_val x y :
  (if match Qcompare (inject_Z x) (inject_Z y) with Datatypes.Lt => true | _ => false end then VInt x else VInt y) = VInt (Z.min y x).
Proof.
  unfold Qcompare, inject_Z. cbn [Qnum Qden]. rewrite !Z.mul_1_r. unfold Z.min. rewrite (Z.compare_antisym x y).
  destruct (x ?= y)%Z eqn:E; cbn [CompOpp]; reflexivity.
Qed.

Lemma q2_nz : Qeq_bool (inject_Z 2) 0 = false.  Proof. reflexivity. Qed.

Ltac look := match goal with H : lookup ?x ?vs = Some _ |- context [lookup ?x ?vs] => rewrite H end.
Ltac ext_rw := progress rewrite ?ext_div_i, ?ext_sub_q, ?ext_sub_i, ?ext_sub_t, ?ext_sub_fl, ?ext_rsub_l, ?ext_mul_iq, ?ext_mul_q,
  ?ext_mul_i, ?ext_mul_t, ?ext_add_q, ?ext_add_i, ?ext_add_t, ?ext_add_ls, ?ext_clamp, ?ext_clamp_max, ?ext_unsqueeze,
  ?ext_masked_fill, ?ext_le, ?ext_rand_tuple1, ?ext_rand_list1, ?ext_rand_list2, ?ext_float, ?ext_long, ?ext_floor, ?ext_dtype,
  ?ext_empty, ?ext_arange, ?ext_to_l, ?ext_to_f, ?ext_full, ?ext_shape, ?ext_device, ?ext_eps.
Ltac ops_rw := progress (unfold div_s, sub_s, mul_s, add_s, sub_t, mul_t, add_t, sub_fl, add_ls, clamp, floor, long_of_float,
    float_of_long, le_t, masked_fill_l, rsub_l, arange_f, full1;
  rewrite ?shp_T2, ?shp_T1, ?nats_eqb_refl, ?rand_1, ?rand_2, ?tmap_T1, ?tmap_T2, ?bc2_T1_T1, ?bc2_T2_col, ?bc2_col_T2, ?bc2_T2_T2, ?bc2_col_T1, ?unsqueeze_T1_1;
  cbn [ret_f ret_l ret_b shp nats_eqb Nat.eqb andb]).
Ltac zero_rw := match goal with H : Qeq_bool _ 0 = false |- _ => rewrite H end.
Ltac run1 := first [ look | bin_step | ext_rw | zero_rw | rewrite q2_nz | ops_rw | progress istep ].
Ltac run := repeat run1.

(* statement by statement: the rest of the program stays folded while one statement runs *)
Lemma exec_seq_ok ext s1 s2 st st' : exec ext s1 st = Ok CNormal st' -> exec ext (SSeq s1 s2) st = exec ext s2 st'.
Proof. intros H. cbn [exec]. now rewrite H. Qed.

Lemma exec_if_val ext c t f st v st' : eval ext c st = Ok v st' ->
  exec ext (SIf c t f) st = if truthy v then exec ext t st' else exec ext f st'.
Proof. intros H. cbn [exec]. now rewrite H. Qed.

Ltac stmt := erewrite exec_seq_ok; [ | solve [run; reflexivity] ].
Ltac close_state := unfold set_var, emit; cbn [vars events]; rewrite ?app_length; cbn [List.length]; rewrite ?Nat.add_1_r;
  rewrite <- ?app_assoc; cbn [app]; rewrite ?app_nil_r; try reflexivity.

Section Blocks.
  Variable a : Model.arith.
  Variable rnd : nat -> nat -> Q.
  Notation ext := (ext08 a rnd).
  Notation zn := (fun n : nat => VInt (Z.of_nat n)).

  Definition ev_tuple1 (N : nat) : event := ("torch.rand", [VTuple [VInt (Z.of_nat N)]]).
  Definition ev_list1 (N : nat) : event := ("torch.rand", [VList [VInt (Z.of_nat N)]]).
  Definition ev_list2 (N M : nat) : event := ("torch.rand", [VList [VInt (Z.of_nat N); VInt (Z.of_nat M)]]).

  (* ---- time warp ---------------------------------------------------------------------------------- *)
  Definition W_of (eps Wt : Q) (L : nat -> Q) (n : nat) : Q := s_W a eps Wt (L n).

  Definition vars_twarp (k N : nat) (L : nat -> Q) (eps Wt : Q) (vs : list (string * val)) : list (string * val) :=
    if Model.nonzero Wt
    then update "w" (enc_f (T1 N (fun n => s_w a (W_of eps Wt L n) (rnd (S k) n))))
           (update "w_0" (enc_f (T1 N (fun n => s_w0 a (W_of eps Wt L n) (L n) (rnd k n))))
              (update "W" (enc_f (T1 N (W_of eps Wt L))) vs))
    else update "w" (enc_f empty0) (update "w_0" (enc_f empty0) vs).

  Definition events_twarp (N : nat) (Wt : Q) : list event :=
    if Model.nonzero Wt then [ev_tuple1 N; ev_list1 N] else [].

  Lemma twarp_run vs ev N L eps Wt :
    lookup "max_time_warp" vs = Some (VQ Wt) ->
    lookup "lengths" vs = Some (enc_f (T1 N L)) -> lookup "eps" vs = Some (VQ eps) ->
    lookup "N" vs = Some (VInt (Z.of_nat N)) -> lookup "device" vs = Some device_token ->
    Qeq_bool (sc a (inject_Z 2)) 0 = false ->
    exec ext draw_twarp (mkState vs ev)
    = Ok CNormal (mkState (vars_twarp (List.length ev) N L eps Wt vs) (ev ++ events_twarp N Wt)).
  Proof.
    intros HW HL He HN Hd H2. unfold draw_twarp, vars_twarp, events_twarp.
    erewrite exec_if_val by (cbn; rewrite HW; reflexivity).
    change (truthy (VQ Wt)) with (Model.nonzero Wt).
    destruct (Model.nonzero Wt).
    - stmt. stmt. run. close_state.
    - run. close_state.
  Qed.

  (* ---- time masks --------------------------------------------------------------------------------- *)
  Definition tmask_on (Mt : Z) (pt : Q) (nt : nat) (npt : Q) : bool :=
    negb (Mt =? 0)%Z && Model.nonzero pt && negb (Nat.eqb nt 0) && Model.nonzero npt.

  Definition t_of (om : Q) (Mt : Z) (pt : Q) (nt : nat) (npt : Q) (k : nat) (L : nat -> Q) (n m : nat) : Z :=
    s_t a om (s_cap a pt Mt (L n)) (s_cap a npt (Z.of_nat nt) (L n)) m (rnd k (n * nt + m)%nat).

  Definition vars_tmask (k N : nat) (L : nat -> Q) (om : Q) (Mt : Z) (pt : Q) (nt : nat) (npt : Q)
    (vs : list (string * val)) : list (string * val) :=
    if tmask_on Mt pt nt npt
    then update "t_0" (enc_l (T2 N nt (fun n m => s_t0 a om (L n) (t_of om Mt pt nt npt k L n m) (rnd (S k) (n * nt + m)%nat))))
           (update "t" (enc_l (T2 N nt (t_of om Mt pt nt npt k L)))
              (update "nums_" (enc_f (T1 N (fun n => s_cap a npt (Z.of_nat nt) (L n))))
                 (update "max_" (enc_f (T1 N (fun n => s_cap a pt Mt (L n)))) vs)))
    else update "t_0" (enc_f empty0) (update "t" (enc_f empty0) vs).

  Definition events_tmask (N : nat) (Mt : Z) (pt : Q) (nt : nat) (npt : Q) : list event :=
    if tmask_on Mt pt nt npt then [ev_list2 N nt; ev_list2 N nt] else [].

  Lemma tmask_cond vs ev Mt pt nt npt :
    lookup "max_time_mask" vs = Some (VInt Mt) -> lookup "max_time_mask_proportion" vs = Some (VQ pt) ->
    lookup "num_time_mask" vs = Some (VInt (Z.of_nat nt)) -> lookup "num_time_mask_proportion" vs = Some (VQ npt) ->
    exists v, eval ext (EAnd (EName "max_time_mask") (EAnd (EName "max_time_mask_proportion")
                          (EAnd (EName "num_time_mask") (EName "num_time_mask_proportion")))) (mkState vs ev)
              = Ok v (mkState vs ev) /\ truthy v = tmask_on Mt pt nt npt.
  Proof.
    intros HMt Hpt Hnt Hnpt. unfold tmask_on, Model.nonzero. rewrite <- (of_nat_eqb0 nt).
    cbn. rewrite HMt. cbn. destruct (Mt =? 0)%Z eqn:E1; cbn [negb andb].
    { eexists; split; [reflexivity|]. cbn. now rewrite E1. }
    rewrite Hpt. cbn. destruct (Qeq_bool pt 0) eqn:E2; cbn [negb andb].
    { eexists; split; [reflexivity|]. cbn. now rewrite E2. }
    rewrite Hnt. cbn. destruct (Z.of_nat nt =? 0)%Z eqn:E3; cbn [negb andb].
    { eexists; split; [reflexivity|]. cbn. now rewrite E3. }
    rewrite Hnpt. cbn. eexists; split; reflexivity.
  Qed.

  Lemma tmask_run vs ev N L om Mt pt nt npt :
    lookup "max_time_mask" vs = Some (VInt Mt) -> lookup "max_time_mask_proportion" vs = Some (VQ pt) ->
    lookup "num_time_mask" vs = Some (VInt (Z.of_nat nt)) -> lookup "num_time_mask_proportion" vs = Some (VQ npt) ->
    lookup "lengths" vs = Some (enc_f (T1 N L)) -> lookup "omeps" vs = Some (VQ om) ->
    lookup "N" vs = Some (VInt (Z.of_nat N)) -> lookup "device" vs = Some device_token ->
    exec ext draw_tmask (mkState vs ev)
    = Ok CNormal (mkState (vars_tmask (List.length ev) N L om Mt pt nt npt vs) (ev ++ events_tmask N Mt pt nt npt)).
  Proof.
    intros HMt Hpt Hnt Hnpt HL Hom HN Hd. unfold draw_tmask, vars_tmask, events_tmask.
    destruct (tmask_cond vs ev Mt pt nt npt HMt Hpt Hnt Hnpt) as [v [Hv Ht]].
    erewrite exec_if_val by exact Hv. rewrite Ht.
    destruct (tmask_on Mt pt nt npt).
    - stmt. stmt. stmt. run. close_state.
    - run. close_state.
  Qed.

  (* ---- frequency masks ------------------------------------------------------------------------------ *)
  Definition fmask_on (Mf : Z) (nf : nat) : bool := negb (Mf =? 0)%Z && negb (Nat.eqb nf 0).

  Definition f_of (om : Q) (Mf F : Z) (nf k n m : nat) : Z :=
    s_f a (Qred (inject_Z (Z.min Mf F) + om)) (rnd k (n * nf + m)%nat).

  Definition vars_fmask (k N : nat) (om : Q) (Mf F : Z) (nf : nat) (vs : list (string * val)) : list (string * val) :=
    if fmask_on Mf nf
    then update "f_0" (enc_l (T2 N nf (fun n m => s_f0 a om F (f_of om Mf F nf k n m) (rnd (S k) (n * nf + m)%nat))))
           (update "f" (enc_l (T2 N nf (f_of om Mf F nf k)))
              (update "max_" (VInt (Z.min Mf F)) vs))
    else update "f_0" (enc_f empty0) (update "f" (enc_f empty0) vs).

  Definition events_fmask (N : nat) (Mf : Z) (nf : nat) : list event :=
    if fmask_on Mf nf then [ev_list2 N nf; ev_list2 N nf] else [].

  Lemma fmask_cond vs ev Mf nf :
    lookup "max_freq_mask" vs = Some (VInt Mf) -> lookup "num_freq_mask" vs = Some (VInt (Z.of_nat nf)) ->
    exists v, eval ext (EAnd (EName "max_freq_mask") (EName "num_freq_mask")) (mkState vs ev)
              = Ok v (mkState vs ev) /\ truthy v = fmask_on Mf nf.
  Proof.
    intros HMf Hnf. unfold fmask_on. rewrite <- (of_nat_eqb0 nf).
    cbn. rewrite HMf. cbn. destruct (Mf =? 0)%Z eqn:E1; cbn [negb andb].
    { eexists; split; [reflexivity|]. cbn. now rewrite E1. }
    rewrite Hnf. cbn. eexists; split; reflexivity.
  Qed.

  Lemma fmask_run vs ev N om Mf F nf :
    lookup "max_freq_mask" vs = Some (VInt Mf) -> lookup "num_freq_mask" vs = Some (VInt (Z.of_nat nf)) ->
    lookup "F" vs = Some (VInt F) -> lookup "omeps" vs = Some (VQ om) ->
    lookup "N" vs = Some (VInt (Z.of_nat N)) -> lookup "device" vs = Some device_token ->
    exec ext draw_fmask (mkState vs ev)
    = Ok CNormal (mkState (vars_fmask (List.length ev) N om Mf F nf vs) (ev ++ events_fmask N Mf nf)).
  Proof.
    intros HMf Hnf HF Hom HN Hd. unfold draw_fmask, vars_fmask, events_fmask.
    destruct (fmask_cond vs ev Mf nf HMf Hnf) as [v [Hv Ht]].
    erewrite exec_if_val by exact Hv. rewrite Ht.
    destruct (fmask_on Mf nf).
    - erewrite exec_seq_ok; [ | run; rewrite min_val; reflexivity ].
      stmt. run. close_state.
    - run. close_state.
  Qed.

End Blocks.
