(* C14 — tie lemmas for BucketBatchSampler.__iter__: interpreting the regenerated source term
   (PV.Gen.C14Src.bbs_iter) yields exactly the batches of Model.bucket_iter, in the same order,
   and raises RuntimeError exactly when the model returns None - for every sampler order, every
   bucket map and size map, both drop settings.  The loop is handled by an invariant over
   MiniPy.Lemmas.for_loop. *)
From Coq Require Import ZArith QArith List String Bool Arith Lia ZifyBool ZifyNat.
From PV Require Import C14.Model MiniPy.Syntax MiniPy.Interp MiniPy.Lemmas Gen.C14Src C14.SrcRun.
From PV Require C14.Proofs C14.ProofsSampler.
Import ListNotations.
Local Open Scope string_scope.

#[local] Arguments Z.of_nat : simpl never.
#[local] Arguments Z.eqb : simpl never.
#[local] Arguments Z.leb : simpl never.
#[local] Arguments Z.ltb : simpl never.
#[local] Arguments Nat.ltb : simpl never.
#[local] Arguments Nat.eqb : simpl never.

(* ---- encoded dictionaries ------------------------------------------------------------- *)
Lemma val_eqb_zn a b : val_eqb (zn a) (zn b) = Nat.eqb a b.
Proof. unfold zn. cbn. destruct (Nat.eqb_spec a b); lia. Qed.

Lemma enc_get (d : dict) h :
  dict_get (map (fun kv => (zn (fst kv), vnats (snd kv))) d) (zn h) =
  (fix get (d : dict) := match d with
                         | [] => None
                         | (k, v) :: t => if Nat.eqb k h then Some (vnats v) else get t
                         end) d.
Proof.
  induction d as [|[k v] t IH]; [reflexivity|]. cbn [map dict_get fst snd].
  rewrite val_eqb_zn, Nat.eqb_sym. destruct (Nat.eqb k h); [reflexivity|exact IH].
Qed.

Fixpoint dmem (h : nat) (d : dict) : bool :=
  match d with [] => false | (k, _) :: t => Nat.eqb k h || dmem h t end.

Lemma enc_get_some d h : dmem h d = true ->
  dict_get (map (fun kv => (zn (fst kv), vnats (snd kv))) d) (zn h) = Some (vnats (dget h d)).
Proof.
  rewrite enc_get. induction d as [|[k v] t IH]; cbn [dmem dget]; [discriminate|].
  destruct (Nat.eqb k h); cbn [orb]; [reflexivity|exact IH].
Qed.

Lemma enc_get_none d h : dmem h d = false ->
  dict_get (map (fun kv => (zn (fst kv), vnats (snd kv))) d) (zn h) = None /\ dget h d = [].
Proof.
  rewrite enc_get. induction d as [|[k v] t IH]; cbn [dmem dget]; [split; reflexivity|].
  destruct (Nat.eqb k h); cbn [orb]; [discriminate|exact IH].
Qed.

Lemma enc_set d h v :
  dict_set (map (fun kv => (zn (fst kv), vnats (snd kv))) d) (zn h) (vnats v) =
  map (fun kv => (zn (fst kv), vnats (snd kv))) (dset h v d).
Proof.
  induction d as [|[k w] t IH]; [reflexivity|]. cbn [map dict_set dset fst snd].
  rewrite val_eqb_zn, Nat.eqb_sym. destruct (Nat.eqb k h); cbn [map fst snd]; [reflexivity|].
  rewrite IH. reflexivity.
Qed.

Lemma enc_del d h :
  dict_del (map (fun kv => (zn (fst kv), vnats (snd kv))) d) (zn h) =
  map (fun kv => (zn (fst kv), vnats (snd kv))) (ddel h d).
Proof.
  induction d as [|[k w] t IH]; [reflexivity|]. cbn [map dict_del ddel fst snd].
  rewrite val_eqb_zn, Nat.eqb_sym. destruct (Nat.eqb k h); cbn [map fst snd]; [reflexivity|].
  rewrite IH. reflexivity.
Qed.

Lemma dset_mem h v d : dmem h (dset h v d) = true.
Proof.
  induction d as [|[k w] t IH]; cbn [dset dmem]; [rewrite Nat.eqb_refl; reflexivity|].
  destruct (Nat.eqb k h) eqn:E; cbn [dmem]; rewrite E; cbn [orb]; [reflexivity|exact IH].
Qed.

Lemma dget_dset h v d : dget h (dset h v d) = v.
Proof.
  induction d as [|[k w] t IH]; cbn [dset dget]; [rewrite Nat.eqb_refl; reflexivity|].
  destruct (Nat.eqb k h) eqn:E; cbn [dget]; rewrite E; [reflexivity|exact IH].
Qed.

Lemma dset_dset h v w d : dset h v (dset h w d) = dset h v d.
Proof.
  induction d as [|[k u] t IH]; cbn [dset]; [rewrite Nat.eqb_refl; reflexivity|].
  destruct (Nat.eqb k h) eqn:E; cbn [dset]; rewrite E; [reflexivity|rewrite IH; reflexivity].
Qed.

Lemma ddel_dset h v d : ddel h (dset h v d) = ddel h d.
Proof.
  induction d as [|[k u] t IH]; cbn [dset ddel]; [rewrite Nat.eqb_refl; reflexivity|].
  destruct (Nat.eqb k h) eqn:E; cbn [ddel]; rewrite E; [reflexivity|rewrite IH; reflexivity].
Qed.

Lemma dset_absent_app h v d : dmem h d = false -> dset h v d = (d ++ [(h, v)])%list.
Proof.
  induction d as [|[k u] t IH]; cbn [dset dmem app]; [reflexivity|].
  destruct (Nat.eqb k h); cbn [orb]; [discriminate|]. intros H. rewrite (IH H). reflexivity.
Qed.

Lemma length_map_zn (l : list nat) : List.length (map zn l) = List.length l.
Proof. apply map_length. Qed.

Lemma vnats_snoc l i : VList (map zn l ++ [zn i])%list = vnats (l ++ [i])%list.
Proof. unfold vnats. rewrite map_app. reflexivity. Qed.

Lemma cmp_lt_zn a b : cmp_eval Lt (zn a) (zn b) = Some (Nat.ltb a b).
Proof.
  unfold zn. cbn. unfold Qcompare. cbn [Qnum Qden inject_Z].
  rewrite !Z.mul_1_r. destruct (Z.compare_spec (Z.of_nat a) (Z.of_nat b)); f_equal; symmetry;
    [apply Nat.ltb_ge|apply Nat.ltb_lt|apply Nat.ltb_ge]; lia.
Qed.

Lemma qlt_nat a b :
  match (inject_Z (Z.of_nat a) ?= inject_Z (Z.of_nat b))%Q with Datatypes.Lt => true | _ => false end
  = Nat.ltb a b.
Proof.
  unfold Qcompare. cbn [Qnum Qden inject_Z]. rewrite !Z.mul_1_r.
  destruct (Z.compare_spec (Z.of_nat a) (Z.of_nat b)); symmetry;
    [apply Nat.ltb_ge|apply Nat.ltb_lt|apply Nat.ltb_ge]; lia.
Qed.

Lemma enc_get_dset h v d :
  dict_get (map (fun kv => (zn (fst kv), vnats (snd kv))) (dset h v d)) (zn h) = Some (vnats v).
Proof. rewrite enc_get_some by apply dset_mem. rewrite dget_dset. reflexivity. Qed.

(* ---- one iteration of the loop body ----------------------------------------------------- *)
Definition loop_body : stmt :=
  match bbs_iter with SSeq _ (SSeq (SFor _ _ b) _) => b | _ => SPass end.

Definition tail_stmt : stmt :=
  match bbs_iter with SSeq _ (SSeq _ t) => t | _ => SPass end.

Definition mk_vars (self : val) (open : dict) (rest : list (string * val)) : list (string * val) :=
  ("self", self) :: ("batches", enc_open open) :: rest.

Definition rest_of (idx h b : val) : list (string * val) := [("idx", idx); ("hash_", h); ("batch_size", b)].

Definition shape_ok (rest : list (string * val)) : Prop :=
  rest = [] \/ exists a b c, rest = rest_of a b c.

Section Step.
  Variables (bk sz : nat -> nat) (s : list nat) (d1 d2 : list (val * val)) (drop : bool).
  Let self := self_of s (VDict d1) (VDict d2) drop.

  Lemma step_tie idx open rest evs :
    shape_ok rest ->
    dict_get d1 (zn idx) = Some (zn (bk idx)) ->
    dict_get d2 (zn (bk idx)) = Some (zn (sz (bk idx))) ->
    let h := bk idx in
    let batch := (dget h open ++ [idx])%list in
    let st := mkState (mk_vars self open rest) evs in
    let rest' := rest_of (zn idx) (zn h) (zn (sz h)) in
    exec ext_none loop_body (set_var "idx" (zn idx) st) =
      if Nat.eqb (sz h) (List.length batch)
      then Ok CNormal (mkState (mk_vars self (ddel h open) rest') (evs ++ [yield_ev batch])%list)
      else if Nat.ltb (sz h) (List.length batch)
      then Exc "RuntimeError" (mkState (mk_vars self (dset h batch open) rest') evs)
      else Ok CNormal (mkState (mk_vars self (dset h batch open) rest') evs).
  Proof.
    intros Hs H1 H2 h batch st rest'.
    unfold loop_body, bbs_iter, st, mk_vars, self, self_of, enc_open.
    destruct Hs as [->|[a [b [c ->]]]]; unfold rest_of; cbn.
    all: rewrite H1; cbn; rewrite H2; cbn.
    all: fold h.
    all: destruct (dmem h open) eqn:Em;
      [ rewrite (enc_get_some open h Em); cbn; rewrite (enc_get_some open h Em); cbn
      | destruct (enc_get_none open h Em) as [Eg Ed]; rewrite Eg; cbn;
        change (VList []) with (vnats []); rewrite enc_set, enc_get_dset; cbn;
        change (VList [zn idx]) with (vnats [idx]); rewrite enc_set, dset_dset ].
    all: rewrite ?vnats_snoc, ?enc_set, ?enc_get_dset; cbn.
    all: unfold batch; try (rewrite Ed; cbn [app]).
    all: rewrite ?map_length; cbn [Datatypes.length].
    all: rewrite ?map_length;
      match goal with |- context [(Z.of_nat ?a =? Z.of_nat ?b)%Z] =>
        replace (Z.of_nat a =? Z.of_nat b)%Z with (Nat.eqb a b) by (destruct (Nat.eqb_spec a b); lia) end.
    all: match goal with |- context [Nat.eqb ?a ?b] => destruct (Nat.eqb a b) eqn:Eeq end.
    all: rewrite ?enc_get_dset; cbn; rewrite ?enc_get_dset; cbn; rewrite ?enc_del, ?ddel_dset.
    all: rewrite ?map_length, ?qlt_nat.
    all: try match goal with |- context [Nat.ltb ?a ?b] => destruct (Nat.ltb a b) end.
    all: unfold set_var, emit, yield_ev, rest', rest_of; cbn; reflexivity.
  Qed.
End Step.

(* ---- the main loop: invariant over for_loop -------------------------------------------- *)
Section Loop.
  Variables (bk sz : nat -> nat) (s : list nat) (d1 d2 : list (val * val)) (drop : bool).
  Let self := self_of s (VDict d1) (VDict d2) drop.

  Definition tables_ok (l : list nat) : Prop :=
    forall idx, List.In idx l ->
      dict_get d1 (zn idx) = Some (zn (bk idx)) /\ dict_get d2 (zn (bk idx)) = Some (zn (sz (bk idx))).

  Lemma loop_tie l : forall open rest evs,
    shape_ok rest -> tables_ok l ->
    match iter_loop bk sz open l with
    | Some (ys, open') =>
        exists rest', shape_ok rest' /\
          for_loop ext_none "idx" loop_body (map zn l) (mkState (mk_vars self open rest) evs)
          = Ok CNormal (mkState (mk_vars self open' rest') (evs ++ map yield_ev ys)%list)
    | None =>
        exists st', for_loop ext_none "idx" loop_body (map zn l) (mkState (mk_vars self open rest) evs)
                    = Exc "RuntimeError" st'
    end.
  Proof.
    induction l as [|idx l IH]; intros open rest evs Hs Ht.
    - cbn. exists rest. split; [exact Hs|]. rewrite app_nil_r. reflexivity.
    - assert (Ht' : tables_ok l) by (intros i Hi; apply Ht; right; exact Hi).
      destruct (Ht idx (or_introl eq_refl)) as [H1 H2].
      pose proof (step_tie bk sz s d1 d2 drop idx open rest evs Hs H1 H2) as Hstep.
      cbn zeta in Hstep. fold self in Hstep.
      cbn [map iter_loop].
      set (h := bk idx) in *. set (batch := (dget h open ++ [idx])%list) in *.
      assert (Hs' : shape_ok (rest_of (zn idx) (zn h) (zn (sz h)))) by (right; eauto).
      destruct (Nat.eqb (sz h) (List.length batch)) eqn:Eeq.
      + specialize (IH (ddel h open) _ (evs ++ [yield_ev batch])%list Hs' Ht').
        destruct (iter_loop bk sz (ddel h open) l) as [[ys o]|].
        * destruct IH as [rest' [Hr Hf]]. exists rest'. split; [exact Hr|].
          cbn [for_loop]. rewrite Hstep. cbn [bind].
          rewrite Hf. cbn [map]. rewrite <- app_assoc. reflexivity.
        * destruct IH as [st' Hf]. exists st'.
          cbn [for_loop]. rewrite Hstep. cbn [bind]. exact Hf.
      + destruct (Nat.ltb (sz h) (List.length batch)) eqn:Elt.
        * eexists. cbn [for_loop]. rewrite Hstep. cbn [bind]. reflexivity.
        * specialize (IH (dset h batch open) _ evs Hs' Ht').
          destruct (iter_loop bk sz (dset h batch open) l) as [[ys o]|].
          -- destruct IH as [rest' [Hr Hf]]. exists rest'. split; [exact Hr|].
             cbn [for_loop]. rewrite Hstep. cbn [bind]. exact Hf.
          -- destruct IH as [st' Hf]. exists st'.
             cbn [for_loop]. rewrite Hstep. cbn [bind]. exact Hf.
  Qed.
End Loop.

(* ---- the final flush: sorted(batches.items(), key=lambda x: x[0]) ------------------------ *)
Lemma lookup_update_eq x v l : lookup x (update x v l) = Some v.
Proof.
  induction l as [|[y w] t IH]; cbn [update lookup]; [rewrite String.eqb_refl; reflexivity|].
  destruct (String.eqb x y) eqn:E; cbn [lookup]; rewrite E; [reflexivity|exact IH].
Qed.

Lemma lookup_update_neq x y v l : String.eqb x y = false -> lookup x (update y v l) = lookup x l.
Proof.
  intros Hn. induction l as [|[z w] t IH]; cbn [update lookup].
  - rewrite Hn. reflexivity.
  - destruct (String.eqb y z) eqn:E; cbn [lookup].
    + apply String.eqb_eq in E. subst z. rewrite Hn. reflexivity.
    + destruct (String.eqb x z); [reflexivity|exact IH].
Qed.

Definition item_of (kv : nat * list nat) : val := VTuple [zn (fst kv); vnats (snd kv)].

Lemma keys_tie (d : dict) : forall st,
  exists st', sorted_keys ext_none "x" (ESub (EName "x") (EConst (VInt 0))) (map item_of d) st
              = Ok (map (fun kv => (zn (fst kv), item_of kv)) d) st' /\
              events st' = events st /\
              (forall y, String.eqb y "x" = false -> lookup y (vars st') = lookup y (vars st)).
Proof.
  induction d as [|kv d IH]; intros st.
  - exists st. cbn. auto.
  - cbn [map sorted_keys]. cbn [eval].
    unfold set_var at 1. cbn [vars]. rewrite lookup_update_eq. cbn [bind].
    change (subscript (item_of kv) (VInt 0) (set_var "x" (item_of kv) st))
      with (Ok (zn (fst kv)) (set_var "x" (item_of kv) st)).
    cbn [bind].
    destruct (IH (set_var "x" (item_of kv) st)) as [st' [Hk [He Hl]]].
    exists st'. rewrite Hk. cbn [bind]. split; [reflexivity|]. split.
    + rewrite He. reflexivity.
    + intros y Hy. rewrite (Hl y Hy). unfold set_var. cbn [vars]. apply lookup_update_neq. exact Hy.
Qed.

(* MiniPy's sorted is stable (Interp.insert_keyed puts an item in front of the first one whose key is not smaller);
   Model.insert_item puts it in front of the first one whose key is greater.  The two agree when the key is new -
   the keys of a dict are distinct. *)
Lemma insert_tie e (l : dict) : ~ List.In (fst e) (map fst l) ->
  insert_keyed (zn (fst e), item_of e) (map (fun kv => (zn (fst kv), item_of kv)) l)
  = Some (map (fun kv => (zn (fst kv), item_of kv)) (insert_item e l)).
Proof.
  induction l as [|y t IH]; intros Hn; [reflexivity|].
  cbn [map insert_keyed insert_item fst]. rewrite cmp_lt_zn.
  assert (Hne : fst e <> fst y) by (intros E; apply Hn; left; symmetry; exact E).
  destruct (Nat.ltb (fst y) (fst e)) eqn:E1; destruct (Nat.ltb (fst e) (fst y)) eqn:E2.
  - apply Nat.ltb_lt in E1. apply Nat.ltb_lt in E2. lia.
  - rewrite IH by (intros H; apply Hn; right; exact H). reflexivity.
  - reflexivity.
  - apply Nat.ltb_ge in E1. apply Nat.ltb_ge in E2. lia.
Qed.

Lemma sort_tie (d : dict) : NoDup (map fst d) ->
  sort_keyed (map (fun kv => (zn (fst kv), item_of kv)) d) = Some (map item_of (sort_items d)).
Proof.
  intros Hnd. unfold sort_keyed.
  assert (H : sort_keyed_aux (map (fun kv => (zn (fst kv), item_of kv)) d)
              = Some (map (fun kv => (zn (fst kv), item_of kv)) (sort_items d))).
  { induction d as [|e d IH]; [reflexivity|].
    cbn [map] in Hnd. inversion Hnd as [|? ? Hnot Hnd']; subst.
    cbn [map sort_keyed_aux]. rewrite (IH Hnd'). unfold sort_items. cbn [fold_right]. apply insert_tie.
    fold (sort_items d). intros Hin. apply Hnot.
    apply in_map_iff in Hin. destruct Hin as [x [Hx Hin]].
    apply (proj1 (C14.ProofsSampler.in_sort_items (fun n => n) (fun n => n) d x)) in Hin.
    apply in_map_iff. exists x. split; [exact Hx|exact Hin]. }
  rewrite H. cbn [option_map]. rewrite map_map. reflexivity.
Qed.

Definition flush_body : stmt :=
  match tail_stmt with SIf _ (SFor _ _ b) _ => b | _ => SPass end.

Ltac closed_if :=
  match goal with
  | |- context [if ?c then _ else _] =>
      let v := eval compute in c in
      first [constr_eq v true | constr_eq v false]; change c with v; cbn iota
  end.

Ltac closed_match :=
  match goal with
  | |- context [match Z.to_nat ?c with _ => _ end] =>
      let v := eval compute in (Z.to_nat c) in change (Z.to_nat c) with v; cbn iota
  end.

Lemma flush_step kv st :
  exec ext_none flush_body (set_var "$t1" (item_of kv) st) =
  Ok CNormal (emit (yield_ev (snd kv))
               (set_var "batch" (vnats (snd kv)) (set_var "_" (zn (fst kv)) (set_var "$t1" (item_of kv) st)))).
Proof.
  unfold flush_body, tail_stmt, bbs_iter. cbn.
  rewrite lookup_update_eq. cbn.
  repeat closed_if. repeat closed_match. cbn.
  rewrite lookup_update_neq by reflexivity. rewrite lookup_update_eq. cbn.
  repeat closed_if. repeat closed_match. cbn.
  rewrite lookup_update_eq. cbn. reflexivity.
Qed.

Lemma flush_loop_tie (l : dict) : forall st,
  exists st', for_loop ext_none "$t1" flush_body (map item_of l) st = Ok CNormal st' /\
              events st' = (events st ++ map yield_ev (map snd l))%list.
Proof.
  induction l as [|kv l IH]; intros st.
  - exists st. cbn. rewrite app_nil_r. auto.
  - cbn [map for_loop]. rewrite flush_step. cbn [bind].
    destruct (IH (emit (yield_ev (snd kv))
               (set_var "batch" (vnats (snd kv)) (set_var "_" (zn (fst kv)) (set_var "$t1" (item_of kv) st)))))
      as [st' [Hf He]].
    exists st'. split; [exact Hf|]. rewrite He. cbn. rewrite <- app_assoc. reflexivity.
Qed.

(* ---- the whole method ---------------------------------------------------------------------- *)
Lemma items_enc (d : dict) :
  map (fun kv : val * val => VTuple [fst kv; snd kv]) (map (fun kv : nat * list nat => (zn (fst kv), vnats (snd kv))) d)
  = map item_of d.
Proof. rewrite map_map. reflexivity. Qed.

Theorem bbs_iter_tie bk sz s d1 d2 drop :
  tables_ok bk sz d1 d2 s ->
  match bucket_iter bk sz drop s with
  | Some ys =>
      exists st', Interp.run ext_none bbs_iter [("self", self_of s (VDict d1) (VDict d2) drop)] = Ok VNone st' /\
                  events st' = map yield_ev ys
  | None =>
      exists st', Interp.run ext_none bbs_iter [("self", self_of s (VDict d1) (VDict d2) drop)]
                  = Exc "RuntimeError" st'
  end.
Proof.
  intros Ht. unfold bucket_iter, Interp.run.
  pose proof (loop_tie bk sz s d1 d2 drop s [] [] [] (or_introl eq_refl) Ht) as Hl.
  change bbs_iter with (SSeq (SAssign [TName "batches"] (ECall "dict" [] []))
                         (SSeq (SFor "idx" (EAttr (EName "self") "sampler") loop_body) tail_stmt)).
  rewrite exec_seq.
  change (exec ext_none (SAssign [TName "batches"] (ECall "dict" [] []))
            (mkState [("self", self_of s (VDict d1) (VDict d2) drop)] []))
    with (Ok CNormal (mkState [("self", self_of s (VDict d1) (VDict d2) drop); ("batches", VDict [])] [])).
  cbn [bind].
  rewrite exec_seq, exec_for. cbn -[loop_body tail_stmt exec for_loop].
  change (VDict []) with (enc_open []).
  change (mkState [("self", self_of s (VDict d1) (VDict d2) drop); ("batches", enc_open [])] [])
    with (mkState (mk_vars (self_of s (VDict d1) (VDict d2) drop) [] []) []).
  destruct (iter_loop bk sz [] s) as [[ys open']|] eqn:Eit.
  - assert (Hnd : NoDup (map fst open'))
      by exact (proj1 (proj1 (C14.ProofsSampler.iter_loop_spec bk sz s [] ys open' Eit (C14.ProofsSampler.good_nil bk sz)))).
    destruct Hl as [rest' [Hr Hf]]. rewrite Hf. cbn [bind app].
    unfold tail_stmt, bbs_iter. rewrite exec_if.
    cbn -[exec for_loop]. 
    destruct drop; cbn -[exec for_loop].
    + eexists. split; [reflexivity|]. cbn. rewrite app_nil_r. reflexivity.
    + rewrite exec_for, eval_sorted. cbn -[for_loop sorted_keys sort_keyed].
      rewrite items_enc.
      destruct (keys_tie open' (mkState (mk_vars (self_of s (VDict d1) (VDict d2) false) open' rest') (map yield_ev ys)))
        as [stk [Hk [Hek _]]].
      rewrite Hk. cbn [bind]. rewrite (sort_tie open' Hnd). cbn [bind iter_items container_items].
      destruct (flush_loop_tie (sort_items open') stk) as [stf [Hfl Hef]].
      change (SSeq (SAssign [TName "_"] (ESub (EName "$t1") (EConst (VInt 0))))
                (SSeq (SAssign [TName "batch"] (ESub (EName "$t1") (EConst (VInt 1)))) (SYield (EName "batch"))))
        with flush_body.
      rewrite Hfl. eexists. split; [reflexivity|]. rewrite Hef, Hek. rewrite map_app. reflexivity.
  - destruct Hl as [st' Hf]. rewrite Hf. cbn [bind]. eexists. reflexivity.
Qed.

(* composed with the model theorem: a statement purely about the translated source - without
   dropping, the batches the source's generator yields contain every sampled index exactly as
   often as the sampler produced it *)
Theorem source_every_index_once bk sz s d1 d2 out :
  tables_ok bk sz d1 d2 s -> bucket_iter bk sz false s = Some out ->
  exists st', Interp.run ext_none bbs_iter [("self", self_of s (VDict d1) (VDict d2) false)] = Ok VNone st' /\
              events st' = map yield_ev out /\
              forall x, count_occ Nat.eq_dec (List.concat out) x = count_occ Nat.eq_dec s x.
Proof.
  intros Ht Hb. pose proof (bbs_iter_tie bk sz s d1 d2 false Ht) as H. rewrite Hb in H.
  destruct H as [st' [Hr He]]. exists st'. repeat split; try assumption.
  apply (C14.Proofs.every_index_once bk sz s out Hb).
Qed.
