(* C02 - the blocks of `_string_matching` around the loop (PV.Gen.C02Src.er_row0, er_main, er_fin), in both
   configurations the preamble of an `error_rate` call can leave: return_mistakes still True (costs not all equal
   and positive: the `mistakes` table) or cleared by the uniform-cost shortcut (costs reset to 1: the cost table
   with del_mat, C01's path).  Each lemma: from a description of the state ([known st l]) the interpreted block
   runs to a state described by the next list. *)
From Coq Require Import ZArith QArith List String Bool Arith Lia ZifyBool ZifyNat.
From PV Require Import MiniPy.Syntax MiniPy.Interp MiniPy.Lemmas MiniTorch.Ops MiniTorch.Lemmas MiniTorch.OpsC07 MiniTorch.LemmasC07
  MiniTorch.OpsC01 MiniTorch.LemmasC01 MiniTorch.OpsC02 MiniTorch.LemmasC02.
From PV Require Import Gen.C02Src C01.SrcRun C01.TieLib C01.TieMath C02.SrcRun C02.TieLib C02.TieMath C02.TieInner C02.TieLoop C02.TieLoopU.
From PV Require C01.Model C01.Proofs C02.Model.
Import ListNotations.
Local Open Scope string_scope.

#[local] Arguments dec01 : simpl never.
#[local] Arguments enc_b : simpl never.
#[local] Arguments enc_i : simpl never.
#[local] Arguments enc_x : simpl never.
#[local] Arguments tab2 : simpl never.
#[local] Arguments tab3 : simpl never.
#[local] Arguments qz : simpl never.
#[local] Arguments Z.add : simpl never.
#[local] Arguments Z.sub : simpl never.
#[local] Arguments Z.of_nat : simpl never.
#[local] Arguments select0 : simpl never.
#[local] Arguments set_select0 : simpl never.
#[local] Arguments slice0 : simpl never.
#[local] Arguments set_slice0 : simpl never.
#[local] Arguments broadcast : simpl never.
#[local] Arguments where_f : simpl never.
#[local] Arguments min_dim : simpl never.
#[local] Arguments gather0 : simpl never.
#[local] Arguments unsqueeze : simpl never.
#[local] Arguments squeeze_dim : simpl never.
#[local] Arguments expand2 : simpl never.
#[local] Arguments triu_f : simpl never.
#[local] Arguments transpose2 : simpl never.
#[local] Arguments arange_f : simpl never.
#[local] Arguments full : simpl never.
#[local] Arguments fadd : simpl never.
#[local] Arguments fsub : simpl never.
#[local] Arguments fmul : simpl never.
#[local] Arguments fdiv : simpl never.
#[local] Arguments fmin : simpl never.
#[local] Arguments fge : simpl never.
#[local] Arguments b2f : simpl never.
#[local] Arguments z2f : simpl never.
#[local] Arguments ext01 : simpl never.
#[local] Arguments ext02 : simpl never.
#[local] Arguments zf : simpl never.
#[local] Arguments ofx : simpl never.
#[local] Arguments argmin_3 : simpl never.
#[local] Arguments seq : simpl never.
#[local] Arguments fmin_list : simpl never.
#[local] Arguments zrange : simpl never.
#[local] Arguments sw : simpl never.
#[local] Arguments swp : simpl never.

Definition torch_module : val := VDict [(VStr "long", long_token); (VStr "float", float_token); (VStr "bool", bool_token)].

Definition lens_tensor (N : nat) (l : nat -> nat) : val := enc_i (mkTn [N] (map (fun n => Z.of_nat (l n)) (seq 0 N))).

(* after the preamble: flags ([rm] = return_mistakes as the shortcut left it), time-major tensors, sizes, the costs
   in force over the denominator s, mult, the lengths *)
Definition stageA (rm : bool) (s : positive) (ci cd cs : Z) (mult : Q) (R N H : nat) (rf hf : nat -> nat -> Z) (rl hl : nat -> nat)
  (nm w : bool) : list (string * val) :=
  [("exclude_last", VBool false); ("return_mistakes", VBool rm); ("return_mask", VBool false);
   ("return_prf_dsts", VBool false); ("norm", VBool nm); ("warn", VBool w);
   ("ref", enc_i (mkTn [R; N] (tab2 R N rf))); ("hyp", enc_i (mkTn [H; N] (tab2 H N hf)));
   ("max_ref_steps", VInt (Z.of_nat R)); ("batch_size", VInt (Z.of_nat N)); ("max_hyp_steps", VInt (Z.of_nat H));
   ("device", device_token); ("torch", torch_module);
   ("ins_cost", VQ (qz s ci)); ("del_cost", VQ (qz s cd)); ("sub_cost", VQ (qz s cs)); ("mult", VQ mult);
   ("ref_lens", lens_tensor N rl); ("hyp_lens", lens_tensor N hl)].

(* after row 0: the mistakes path / the cost-only path *)
Definition stageBm (s : positive) (cd : Z) (R N : nat) : list (string * val) :=
  [("mistakes", enc_x (mkTn [S R; N] (tab2 (S R) N (fun i _ => zf 1 (Z.of_nat i)))));
   ("row", enc_x (mkTn [S R; N] (tab2 (S R) N (fun i _ => zf s (Z.of_nat i * cd)))))].

Definition stageBu (s : positive) (cd : Z) (R N : nat) : list (string * val) :=
  [("del_mat", enc_x (mkTn [S R; S R; 1%nat] (tab2 (S R) (S R) (fun i j => ofx s (C01.Model.del_entry cd i j)))));
   ("row", enc_x (mkTn [S R; N] (tab2 (S R) N (fun i _ => zf s (Z.of_nat i * cd)))))].

(* after the gather: er[n] = g n / sg *)
Definition stageC (sg : positive) (g : nat -> Z) (mult : Q) (N : nat) (rl hl : nat -> nat) (nm w : bool) : list (string * val) :=
  [("er", enc_x (mkTn [N] (map (fun n => zf sg (g n)) (seq 0 N))));
   ("mult", VQ mult); ("norm", VBool nm); ("warn", VBool w);
   ("ref_lens", lens_tensor N rl); ("hyp_lens", lens_tensor N hl)].

Lemma z2f_zf1 : forall z, z2f z = zf 1 z.
Proof. intros. unfold z2f, zf. now rewrite qz_1. Qed.

Definition main_flags : stmt := match er_main with SSeq a _ => a | _ => SPass end.
Definition main_rest : stmt := match er_main with SSeq _ (SSeq _ r) => r | _ => SPass end.
Lemma er_main_eq : er_main = SSeq main_flags (SSeq er_loop main_rest).
Proof. reflexivity. Qed.

Section Blocks.
  Variables (s : positive) (ci cd cs : Z) (mult : Q) (R N H : nat) (rf hf : nat -> nat -> Z) (rl hl : nat -> nat) (nm w : bool).
  Notation A rm := (stageA rm s ci cd cs mult R N H rf hf rl hl nm w).

  (* ---- er_row0 ------------------------------------------------------------------------------------------------ *)
  Lemma row0_run_m : forall st, known st (A true) -> runs_to (fun st' => known st' (A true ++ stageBm s cd R N)) (exec ext02 er_row0 st).
  Proof.
    intros st K. unfold stageA in K. open_known K. unfold er_row0.
    assign ltac:(evn; replace (Z.of_nat R + 1)%Z with (Z.of_nat (S R)) by lia; rewrite arange_f_nat; evn; reflexivity).
    ifstep. rewrite !exec_seq_assoc.
    assign ltac:(evn; replace (Z.of_nat R + 1)%Z with (Z.of_nat (S R)) by lia; rewrite expand2_col; evn; reflexivity).
    asg.
    assign ltac:(evn; replace (Z.of_nat R + 1)%Z with (Z.of_nat (S R)) by lia; rewrite expand2_col; evn; reflexivity).
    apply runs_to_ok. unfold stageA, stageBm. close_known.
    - match goal with L : lookup "mistakes" _ = _ |- _ => rewrite L end. do 3 f_equal. apply tab2_ext. intros i j Hi Hj.
      apply z2f_zf1.
    - match goal with L : lookup "row" _ = _ |- _ => rewrite L end. do 3 f_equal. apply tab2_ext. intros i j Hi Hj.
      apply fmul_z2f_zf.
  Qed.

  Lemma row0_run_u : forall st, known st (A false) -> runs_to (fun st' => known st' (A false ++ stageBu s cd R N)) (exec ext02 er_row0 st).
  Proof.
    intros st K. unfold stageA in K. open_known K. unfold er_row0.
    assign ltac:(evn; replace (Z.of_nat R + 1)%Z with (Z.of_nat (S R)) by lia; rewrite arange_f_nat; evn; reflexivity).
    ifstep. rewrite !exec_seq_assoc.
    asg. asg.
    assign ltac:(evn; change 1%Z with (Z.of_nat 1); rewrite full_mat, triu_mat; evn; reflexivity).
    asg.
    assign ltac:(evn; replace (Z.of_nat R + 1)%Z with (Z.of_nat (S R)) by lia; rewrite expand2_col; evn; reflexivity).
    apply runs_to_ok. unfold stageA, stageBu. close_known.
    - match goal with L : lookup "del_mat" _ = _ |- _ => rewrite L end. do 3 f_equal. apply tab2_ext. intros i j Hi Hj.
      apply del_entry_src.
    - match goal with L : lookup "row" _ = _ |- _ => rewrite L end. do 3 f_equal. apply tab2_ext. intros i j Hi Hj.
      apply fmul_z2f_zf.
  Qed.

  (* ---- er_main: the flag block, the loop, the exits of the other configurations, the gather -------------------- *)
  (* column n of the two tables after all H steps, from row 0 = arange * del_cost, mistakes 0 = arange *)
  Definition final_rm (n : nat) : list Z * list Z :=
    iter_col ci cd cs R H rf hf hl H 0 (fun i _ => Z.of_nat i * cd)%Z (fun i _ => Z.of_nat i) n.

  (* column n of the cost table after all H steps *)
  Definition final_col (n : nat) : list Z :=
    iter_colU ci cd cs R H rf hf hl H 0 (fun i _ => Z.of_nat i * cd)%Z n.

  Section AnyLoop.
    Variable lp : stmt.

    Hypothesis Hlp_m : forall st lf mf,
      body_pre s ci cd cs R N H rf hf hl (lens_tensor N rl) (VQ mult) (VBool nm) (VBool w) lf mf st ->
      lookup "max_hyp_steps" (vars st) = Some (VInt (Z.of_nat H)) ->
      runs_to (body_pre s ci cd cs R N H rf hf hl (lens_tensor N rl) (VQ mult) (VBool nm) (VBool w)
                 (fun i n => nth i (fst (iter_col ci cd cs R H rf hf hl H 0 lf mf n)) 0%Z)
                 (fun i n => nth i (snd (iter_col ci cd cs R H rf hf hl H 0 lf mf n)) 0%Z)) (exec ext02 lp st).

    Lemma main_run_m_gen : forall st, (forall n, (n < N)%nat -> (rl n <= R)%nat) ->
      known st (A true ++ stageBm s cd R N) ->
      runs_to (fun st' => known st' (stageC 1 (fun n => nth (rl n) (snd (final_rm n)) 0%Z) mult N rl hl nm w))
              (exec ext02 (SSeq main_flags (SSeq lp main_rest)) st).
    Proof.
      intros st Hrl K. unfold stageA, stageBm in K. open_known K.
      unfold main_flags, er_main. cbv iota. ifstep. ifstep. seqnorm.
      eapply runs_to_seq.
      - apply (Hlp_m st (fun i _ => Z.of_nat i * cd)%Z (fun i _ => Z.of_nat i)); [|assumption].
        unfold body_pre. repeat split; assumption.
      - intros st1 P1.
        destruct P1 as (Hexcl & Hmist & Hmask & Hprf & Hhl & Href & Hhyp & Hci & Hcs & Hcd & Hmr & Hrl' & Hmu & Hno & Hwa & Hrow & Hmi).
        unfold main_rest, er_main. cbv iota. unfold lens_tensor in *.
        ifstep. ifstep. ifstep.
        assign ltac:(evn; rewrite gather0_row by (intros j Hj; specialize (Hrl j Hj); lia); evn; reflexivity).
        apply runs_to_ok. unfold stageC, lens_tensor. close_known.
    Qed.

    Hypothesis Hlp_u : forall st lf,
      body_preU s ci cd cs R N H rf hf hl (lens_tensor N rl) (VQ mult) (VBool nm) (VBool w) lf st ->
      lookup "max_hyp_steps" (vars st) = Some (VInt (Z.of_nat H)) ->
      runs_to (body_preU s ci cd cs R N H rf hf hl (lens_tensor N rl) (VQ mult) (VBool nm) (VBool w)
                 (fun i n => nth i (iter_colU ci cd cs R H rf hf hl H 0 lf n) 0%Z)) (exec ext02 lp st).

    Lemma main_run_u_gen : forall st, (forall n, (n < N)%nat -> (rl n <= R)%nat) ->
      known st (A false ++ stageBu s cd R N) ->
      runs_to (fun st' => known st' (stageC s (fun n => nth (rl n) (final_col n) 0%Z) mult N rl hl nm w))
              (exec ext02 (SSeq main_flags (SSeq lp main_rest)) st).
    Proof.
      intros st Hrl K. unfold stageA, stageBu in K. open_known K.
      unfold main_flags, er_main. cbv iota. ifstep. ifstep. seqnorm.
      eapply runs_to_seq.
      - apply (Hlp_u st (fun i _ => Z.of_nat i * cd)%Z); [|assumption].
        unfold body_preU. repeat split; assumption.
      - intros st1 P1. destruct P1 as (Hexcl & Hmist & Hmask & Hprf & Hhl & Href & Hhyp & Hci & Hcs & Hdm & Hrl' & Hmu & Hno & Hwa & Hrow).
        unfold main_rest, er_main. cbv iota. unfold lens_tensor in *.
        ifstep. ifstep. ifstep.
        assign ltac:(evn; rewrite gather0_row by (intros j Hj; specialize (Hrl j Hj); lia); evn; reflexivity).
        apply runs_to_ok. unfold stageC, lens_tensor. close_known.
    Qed.
  End AnyLoop.

  (* ---- er_fin: mult, the normalisation, return ---------------------------------------------------------------- *)
  Definition fin_value (sg : positive) (g : nat -> Z) (n : nat) : fx :=
    let x := fmul (zf sg (g n)) (Fq mult) in
    if nm then (if (Z.of_nat (rl n) =? 0)%Z then b2f (Z.of_nat (hl n) >? 0)%Z else fdiv x (z2f (Z.of_nat (rl n))))
    else x.

  Lemma fin_run : forall sg g st, known st (stageC sg g mult N rl hl nm w) ->
    returns (enc_x (mkTn [N] (map (fin_value sg g) (seq 0 N)))) (exec ext02 er_fin st).
  Proof.
    intros sg g st K. unfold stageC, lens_tensor in K. open_known K. unfold er_fin.
    asg. ifstep. unfold fin_value. destruct nm; cbv iota.
    - asg. asg. ifstep.
      match goal with |- context [if ?b then _ else _] => destruct b eqn:Hany end.
      + ifstep. destruct w; asg; cbn [exec eval]; look; cbn [bind]; eexists; reflexivity.
      + seqnorm. cbn [exec eval]. look. cbn [bind]. eexists. do 4 f_equal.
        apply map_ext_seq. intros n Hn.
        replace (Z.of_nat (rl n) =? 0)%Z with false; [reflexivity|].
        unfold any_b in Hany. cbn [dat] in Hany. symmetry.
        destruct (Z.of_nat (rl n) =? 0)%Z eqn:E; [|reflexivity].
        rewrite <- Hany. symmetry. apply existsb_exists. exists true. split; [|reflexivity].
        apply in_map_iff. exists n. split; [exact E|apply in_seq; lia].
    - seqnorm. cbn [exec eval]. look. cbn [bind]. eexists. reflexivity.
  Qed.
End Blocks.
