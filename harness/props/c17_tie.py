"""C17 - source tie (harness side): the per-file workers of pydrobert.torch.command_line, translated to MiniPy on
every run (harness/py2coq, unit C17Src) and INTERPRETED INSIDE COQ (PV.C17.SrcRun.src_*_check: MiniPy.Interp,
torch calls = PV.MiniTorch.OpsC17 through SrcRun.ext17, the file system as data), are run on the tensors of this
run's cases and compared with what the Python functions themselves do on the same tensors (called directly, one
file at a time, in a scratch directory).  This validates translator + interpreter + ext17 + OpsC17 against
CPython + torch on every run and works whether or not the Tie*.v lemmas still compile.

    _torch_ali_dir_to_torch_token_dir_do_work            every alignment file of the `ali` / `mom_ali` cases
    _torch_token_data_dir_to_torch_ali_dir_do_work       its output (with / without --feat-dir, feature file of the
                                                         right / a wrong length / missing) and every file of `ref2ali`
    _print_torch_ali_data_dir_length_moments             every file of `mom_ali` (+ the `ali` files), the case's exclude ids
    _print_torch_ref_data_dir_length_moments             every file of `mom_ref` (+ the `ref2ali` files)
    _TranscriptDataSet.__getitem__                       every (R, 3) / (R,) token tensor above, with an id2token map,
                                                         frame shift and strip_timing derived from the file's content

A disagreement is reported as a violation without a failing input of the property itself
("tie:C17:py2coq+MiniPy.Interp+MiniTorch:command_line workers"), like the other ties do."""
import hashlib
import json
import os
import random
import shutil
import time
import warnings
from fractions import Fraction

import torch

from vlib import cb, cl, cn, co, cp, cq, cz, clz, coq_eval_bools, exc_kind

IMPORTS_SRC = ("From PV Require Import C11.Model C17.Model.\nFrom PV Require C17.SrcRun.\n"
               "Local Open Scope Z_scope.\n")
CORR = "tie:C17:py2coq+MiniPy.Interp+MiniTorch:command_line workers"
SRC_TIE_THEOREMS = ["c17_source_ali2tok_is_model", "c17_source_tok2ali_is_model", "c17_source_ali_roundtrip",
                    "c17_source_tokens_roundtrip", "c17_source_tok2ali_accepts_iff_partition",
                    "c17_source_ali_moments_is_model", "c17_source_ref_moments_is_model",
                    "c17_source_getitem_is_model"]
ERR = {"ValueError": "EValue", "RuntimeError": "ERuntime", "IOError": "EOS", "OSError": "EOS",
       "IndexError": "EIndex", "TypeError": "EType", "KeyError": "EKey", "ZeroDivisionError": "EZeroDiv"}
SHIFTS = [None, None, 1000.0, 500.0, 250.0, 125.0, 2000.0]   # frame_shift_ms: products with small ints are exact doubles
WORDS = ["a", "b", "cat", "$x", "the", "<unk>", "0", "-"]


def cs(s):
    return "[" + "; ".join(str(ord(c)) for c in s) + "]"


def ctensor(t):
    if "v" in t:
        return f"(Vec {clz(t['v'])})"
    return f"(Mat {cn(t['w'])} {cl([clz(r) for r in t['rows']])})"


def cfail(kind):
    return f"(Fail {ERR[kind]})" if kind in ERR else None


def to_torch(t, float_=False):
    dt = torch.float if float_ else torch.long
    if "v" in t:
        return torch.tensor(t["v"], dtype=dt)
    if not t["rows"]:
        return torch.zeros((0, t["w"]), dtype=dt)
    return torch.tensor(t["rows"], dtype=dt)


def from_torch(x):
    if isinstance(x, torch.Tensor) and x.dtype == torch.long and x.ndim == 1:
        return {"v": [int(v) for v in x.tolist()]}
    if isinstance(x, torch.Tensor) and x.dtype == torch.long and x.ndim == 2:
        return {"w": int(x.size(1)), "rows": [[int(v) for v in r] for r in x.tolist()]}
    return None


def _ok_tensor(t):
    """tensors the interpreted source is defined on: integer vectors and matrices with rows of equal width"""
    if "v" in t:
        return all(isinstance(v, int) for v in t["v"])
    return "rows" in t and all(len(r) == t["w"] for r in t["rows"])


class _Dirs:
    def __init__(self, chk):
        self.root = os.path.join(str(chk.workdir), "tie_fs")
        self.n = 0

    def new(self):
        self.n += 1
        p = os.path.join(self.root, str(self.n))
        shutil.rmtree(p, ignore_errors=True)
        for d in ("in", "out", "feat"):
            os.makedirs(os.path.join(p, d))
        if self.n % 50 == 0:
            for k in range(self.n - 50, self.n - 1):
                shutil.rmtree(os.path.join(self.root, str(k)), ignore_errors=True)
        return p

    def clean(self):
        shutil.rmtree(self.root, ignore_errors=True)


def _call(f, *args):
    try:
        with warnings.catch_warnings():
            warnings.simplefilter("ignore")
            return ("ok", f(*args))
    except Exception as e:   # noqa: the kind is the observation
        return ("exc", exc_kind(e))


def t_ali2tok(cmd, dirs, t):
    """-> (Coq term, output tensor-dict or None)"""
    p = dirs.new()
    torch.save(to_torch(t), os.path.join(p, "in", "utt.pt"))
    kind, _ = _call(cmd._torch_ali_dir_to_torch_token_dir_do_work, "utt.pt", os.path.join(p, "in"), os.path.join(p, "out"))
    if kind == "ok":
        out = from_torch(torch.load(os.path.join(p, "out", "utt.pt")))
        if out is None:
            return "false", None
        return f"SrcRun.src_ali2tok_check {ctensor(t)} (Done {ctensor(out)})", out
    impl = cfail(_)
    return (f"SrcRun.src_ali2tok_check {ctensor(t)} {impl}" if impl else "false"), None


def t_tok2ali(cmd, dirs, t, feat):
    """feat: None (no --feat-dir) | "missing" | number of frames of the feature file"""
    p = dirs.new()
    torch.save(to_torch(t), os.path.join(p, "in", "utt.pt"))
    fl, fdir = "None", None
    if feat is not None:
        fdir = os.path.join(p, "feat")
        if feat == "missing":
            fl = "(Some None)"
        else:
            ft = {"w": 2, "rows": [[0, 1]] * int(feat)}
            torch.save(to_torch(ft, float_=True), os.path.join(fdir, "utt.pt"))
            fl = f"(Some (Some {ctensor(ft)}))"
    kind, _ = _call(cmd._torch_token_data_dir_to_torch_ali_dir_do_work, "utt.pt", os.path.join(p, "in"),
                    os.path.join(p, "out"), fdir)
    if kind == "ok":
        out = from_torch(torch.load(os.path.join(p, "out", "utt.pt")))
        impl = f"(Done {ctensor(out)})" if out is not None else None
    else:
        impl = cfail(_)
    return f"SrcRun.src_tok2ali_check {fl} {ctensor(t)} {impl}" if impl else "false"


def _cexcl(excl):
    return "None" if excl is None else co(clz(excl))


def _texcl(excl):
    return None if excl is None else torch.tensor(list(excl), dtype=torch.long)


def t_mom_ali(cmd, dirs, t, excl):
    p = dirs.new()
    f = os.path.join(p, "in", "utt.pt")
    torch.save(to_torch(t), f)
    kind, r = _call(cmd._print_torch_ali_data_dir_length_moments, f, _texcl(excl))
    if kind != "ok" or len(r) != 3:
        return "false"
    return f"SrcRun.src_ali_moments_check {_cexcl(excl)} {ctensor(t)} {cp(cz(int(r[0])), cz(int(r[1])), cz(int(r[2])))}"


def t_mom_ref(cmd, dirs, t, excl):
    p = dirs.new()
    torch.save(to_torch(t), os.path.join(p, "in", "p_utt.pt"))
    kind, r = _call(cmd._print_torch_ref_data_dir_length_moments, "utt", os.path.join(p, "in"), "p_", ".pt", _texcl(excl))
    if kind != "ok" or len(r) != 4:
        return "false"
    return (f"SrcRun.src_ref_moments_check {_cexcl(excl)} {ctensor(t)} "
            f"{cp(cz(int(r[0])), cz(int(r[1])), cz(int(r[2])))} {cb(r[3] is not None)}")


def _ctk(t):
    return f"(TInt {cz(t)})" if isinstance(t, int) else f"(TStr {cs(t)})"


def _citems(tr):
    out = []
    for it in tr:
        if isinstance(it, (list, tuple)):
            out.append(f"Timed {_ctk(it[0])} {cq(Fraction(it[1]))} {cq(Fraction(it[2]))}")
        else:
            out.append(f"Plain {_ctk(it)}")
    return cl(out)


def t_getitem(cmd, dirs, t, key):
    """_TranscriptDataSet.__getitem__ on the one-file directory; id2token / frame shift / strip_timing are a function of
    the tensor (so that a replayed case meets the same call)"""
    rng = random.Random(int(hashlib.sha1((key + json.dumps(t, sort_keys=True)).encode()).hexdigest()[:12], 16))
    ids = sorted({(r[0] if isinstance(r, list) else r) for r in (t["rows"] if "rows" in t else t["v"])})
    mode = rng.choice(["none", "all", "all", "most", "extra"])
    if mode == "none":
        i2t = None
    else:
        keep = [i for i in ids if mode != "most" or rng.random() < 0.7]
        if mode == "extra":
            keep = keep + [max(ids + [0]) + 5]
        i2t = {i: rng.choice(WORDS) + str(k) for k, i in enumerate(keep)}
    fs = rng.choice(SHIFTS)
    strip = rng.random() < 0.5
    p = dirs.new()
    torch.save(to_torch(t), os.path.join(p, "in", "p_utt.pt"))

    def call():
        ds = cmd._TranscriptDataSet(os.path.join(p, "in"), i2t, "p_", ".pt", fs, strip)
        return ds[0]
    kind, r = _call(call)
    if kind == "ok":
        if r[0] != "utt":
            return "false"
        impl = f"(Done {_citems(r[1])})"
    else:
        impl = cfail(r)
    ci2t = "None" if i2t is None else co(cl([cp(cz(i), _ctk(s)) for i, s in i2t.items()]))
    cfs = "None" if fs is None else f"(Some {cq(Fraction(fs))})"
    if impl is None:
        return "false"
    return f"SrcRun.src_load_transcript_check {ci2t} {cfs} {cb(strip)} {ctensor(t)} {impl}"


def source_tie(chk, cases, outs=None):
    """see the module docstring; `outs` is unused (the workers are called directly on the cases' tensors)"""
    from vlib import CoqError
    import pydrobert.torch.command_line as cmd
    dirs = _Dirs(chk)
    terms, owners = [], []      # owners: (case index, label)
    n = dict(ali2tok=0, tok2ali=0, mom_ali=0, mom_ref=0, getitem=0)

    def add(ci, label, term):
        terms.append(term)
        owners.append((ci, label))
        n[label] += 1

    t0 = time.time()
    budget = 6000 if chk.tier == "thorough" else 1500      # worker calls per kind of case
    for ci, c in enumerate(cases):
        kind = c.get("kind")
        files = c.get("files")
        if kind not in ("ali", "ref2ali", "mom_ali", "mom_ref") or not isinstance(files, dict):
            continue
        excl = c.get("excl")
        excl = None if excl is None else sorted(set(int(x) for x in excl))
        for k, (name, t) in enumerate(sorted(files.items())):
            if not isinstance(t, dict) or not _ok_tensor(t):
                continue
            if kind in ("ali", "mom_ali") and "v" in t and n["ali2tok"] < budget:
                term, out = t_ali2tok(cmd, dirs, t)
                add(ci, "ali2tok", term)
                if out is not None:
                    T = len(t["v"])
                    feat = [None, T, T + 1, "missing"][(k + ci) % 4]
                    add(ci, "tok2ali", t_tok2ali(cmd, dirs, out, feat))
                    add(ci, "getitem", t_getitem(cmd, dirs, out, name))
                add(ci, "mom_ali", t_mom_ali(cmd, dirs, t, excl if kind == "mom_ali" else [t["v"][0]] if t["v"] and k % 2 else None))
            if kind in ("ref2ali", "mom_ref") and n["tok2ali"] < 2 * budget:
                T = c.get("Ts", {}).get(name)
                feat = T if (c.get("feat") and T is not None) else [None, "missing", 3][(k + ci) % 3] if kind == "mom_ref" else None
                add(ci, "tok2ali", t_tok2ali(cmd, dirs, t, feat))
                add(ci, "mom_ref", t_mom_ref(cmd, dirs, t, excl if kind == "mom_ref" else None))
                if "v" in t or t["w"] == 3:
                    add(ci, "getitem", t_getitem(cmd, dirs, t, name))
    dirs.clean()
    if not terms:
        chk.extra["source_tie_run"] = {"cases": 0, "disagreements": 0}
        return
    t1 = time.time()
    try:
        res = coq_eval_bools(chk.workdir, IMPORTS_SRC, terms, shard=250, tag="src")
    except CoqError as e:
        chk.extra["source_tie_run"] = "not evaluated: " + str(e)[-400:]
        return
    bad = [j for j in range(len(terms)) if not res[j]]
    chk.extra["source_tie"] = {
        "unit": "C17Src", "functions": ["_torch_ali_dir_to_torch_token_dir_do_work", "_torch_token_data_dir_to_torch_ali_dir_do_work",
                                         "_print_torch_ali_data_dir_length_moments", "_print_torch_ref_data_dir_length_moments",
                                         "_TranscriptDataSet.__getitem__"],
        "theorems": SRC_TIE_THEOREMS}
    chk.extra["source_tie_run"] = dict(cases=len(terms), disagreements=len(bad), calls=n,
                                       python_s=round(t1 - t0, 1), coq_s=round(time.time() - t1, 1))
    chk.count("source_tie_cases", len(terms))
    if bad:
        labels = sorted({owners[j][1] for j in bad})
        j = min(bad, key=lambda k: len(json.dumps(cases[owners[k][0]], default=str)))
        rec = {"what": "the Python source of the command_line workers (%s) as translated to MiniPy and interpreted in Coq "
                       "(PV.C17.SrcRun, torch calls = PV.MiniTorch.OpsC17) does not reproduce what the functions do on this "
                       "case's tensors: translator / interpreter / ext17 / MiniTorch no longer describe the code" % ", ".join(labels),
               "disagreeing_calls": len(bad), "first_term": terms[j][:600],
               "correspondence": CORR, "theorems_at_stake": SRC_TIE_THEOREMS,
               "case": {k: v for k, v in cases[owners[j][0]].items() if k != "stream"}}
        chk.report(rec, no_failing_input=True)
