(* C05 - the statements quoted by Properties.v, assembled from the Proofs* files. *)
From Coq Require Import List Arith Bool QArith Qcanon Lia.
From PV Require Import C05.Model C05.Spec C05.ProofsNum C05.ProofsSpec C05.ProofsModel C05.ProofsSearch.
Import ListNotations.
Local Open Scope nat_scope.

(* the beam the element computed at its last valid frame satisfies the invariant *)
Lemma search_invariant : forall V width fus lm len frames choices, 1 <= V -> 1 <= width ->
  choices_ok V width fus lm 0%Qc len 0 frames choices init_beam = true ->
  inv V (live_beam V width fus lm len frames choices).
Proof. intros. apply live_facts; auto. Qed.

Lemma prefix_matrix_iff : forall V bm k k', inv V bm -> valid bm k -> valid bm k' ->
  (isp bm k k' = true <-> is_pre (pref bm k) (pref bm k')).
Proof.
  intros V bm k k' I Vk Vk'. split.
  - apply (inv_snd V bm I); [apply Vk|apply Vk'].
  - apply (inv_cmp V bm I); auto.
Qed.

Lemma out_valid : forall V width fus lm len frames choices, 1 <= V -> 1 <= width ->
  choices_ok V width fus lm 0%Qc len 0 frames choices init_beam = true ->
  let '(P, Ls, Ps) := observe (search V width fus lm len frames choices) in
  (forall i q, nth i Ps NegInf = Fin q ->
     Forall (fun x => x < V) (nth i P []) /\
     length (nth i P []) = nth i Ls 0 /\
     nth i Ls 0 <= Nat.min len (length frames)) /\
  (forall i j q q', nth i Ps NegInf = Fin q -> nth j Ps NegInf = Fin q' ->
     nth i P [] = nth j P [] -> i = j).
Proof.
  intros V width fus lm len frames choices Vpos Wpos C.
  pose proof (out_slot V width fus lm len frames choices Vpos Wpos C) as O.
  destruct (observe (search V width fus lm len frames choices)) as [[P Ls] Ps].
  destruct O as (_ & _ & _ & _ & O).
  destruct (live_facts V width fus lm len frames choices Vpos Wpos C) as (I & T & _).
  set (bm := live_beam V width fus lm len frames choices) in *.
  pose proof (inv_wf V bm I) as W. split.
  - intros i q Hq. destruct (O i q Hq) as (Vi & -> & ->). split; [apply (inv_lt V bm I); auto|].
    split; [apply pref_length; auto; apply Vi|].
    pose proof (wf_len bm W i) as L. rewrite T, (live_len len frames) in L. exact L.
  - intros i j q q' Hi Hj E. destruct (O i q Hi) as (Vi & Ei & _). destruct (O j q' Hj) as (Vj & Ej & _).
    apply (inv_dist V bm I); auto. congruence.
Qed.

Lemma out_sorted : forall V width fus lm len frames choices, 1 <= V -> 1 <= width ->
  choices_ok V width fus lm 0%Qc len 0 frames choices init_beam = true ->
  let '(P, Ls, Ps) := observe (search V width fus lm len frames choices) in
  length P = width /\ length Ls = width /\ length Ps = width /\ sorted_desc Ps.
Proof.
  intros V width fus lm len frames choices Vpos Wpos C.
  pose proof (out_slot V width fus lm len frames choices Vpos Wpos C) as O.
  destruct (observe (search V width fus lm len frames choices)) as [[P Ls] Ps].
  destruct O as (O1 & O2 & O3 & O4 & _). auto.
Qed.

Lemma out_invalid_last : forall V width fus lm len frames choices, 1 <= V -> 1 <= width ->
  choices_ok V width fus lm 0%Qc len 0 frames choices init_beam = true ->
  let '(P, Ls, Ps) := observe (search V width fus lm len frames choices) in
  forall i j, nth i Ps NegInf = NegInf -> i <= j -> j < width -> nth j Ps NegInf = NegInf.
Proof.
  intros V width fus lm len frames choices Vpos Wpos C.
  pose proof (out_slot V width fus lm len frames choices Vpos Wpos C) as O.
  destruct (observe (search V width fus lm len frames choices)) as [[P Ls] Ps].
  destruct O as (_ & _ & LP & SD & _). intros i j Hi Lij Lj.
  apply (sorted_desc_neginf_last Ps i j); auto. lia.
Qed.

Lemma alignment_mass_recursion : forall V frames E n p, Forall (fun x => x < V) p ->
  A_b V frames E (S n) p
  = ((A_nb V frames E n p + A_b V frames E n p) * snd (fr_at frames n))%Qc /\
  A_nb V frames E (S n) p
  = match last_opt p with
    | None => 0%Qc
    | Some v =>
        (A_nb V frames E n p * nth v (fst (fr_at frames n)) 0
         + (A_b V frames E n (removelast p)
            + (if opt_is (last_opt (removelast p)) v then 0 else A_nb V frames E n (removelast p)))
           * E n (removelast p) v)%Qc
    end.
Proof. intros; split; [apply A_b_step | apply A_nb_step; auto]. Qed.

Lemma search_prefix_matrix : forall V width fus lm len frames choices,
  1 <= V -> 1 <= width ->
  choices_ok V width fus lm 0%Qc len 0 frames choices init_beam = true ->
  let bm := live_beam V width fus lm len frames choices in
  inv V bm /\
  forall k k', valid bm k -> valid bm k' ->
    (isp bm k k' = true <-> is_pre (pref bm k) (pref bm k')).
Proof.
  intros V width fus lm len frames choices H1 H2 H3.
  pose proof (search_invariant V width fus lm len frames choices H1 H2 H3) as I.
  split; auto. intros. apply (prefix_matrix_iff V); auto.
Qed.
