(* C05 - CTC prefix search reports true prefix mass, never more, never NaN.
   Property theorems only: each is closed by [exact <lemma of Proofs*.v>] and followed by
   [Print Assumptions].  The harness re-checks this file on every run.

   Reading guide.  Model.advance / Model.search mirror ctc_prefix_search_advance /
   CTCPrefixSearch.forward for one batch element; torch.topk's answer is an input
   ([choice]/[choices]) constrained by Model.topk_ok / Model.choices_ok (eps = 0: a legitimate
   topk answer at every frame the element really processes).  Spec.ctc_mass sums the weights of
   all alignments collapsing to a prefix; Spec.pbs_reach / pbs_full are the textbook prefix beam
   search on a finite map.  [observe] keeps the valid part of every returned column. *)
From Coq Require Import List Arith Bool QArith Qcanon Lia.
From PV Require Import C05.Model C05.Spec C05.ProofsNum C05.ProofsSpec C05.ProofsModel
  C05.ProofsSearch C05.Proofs.
Import ListNotations.
Local Open Scope nat_scope.

(* "the exact total probability of all alignments collapsing to it whenever nothing had to be
   pruned": the unpruned recursion holds exactly the blank-free prefixes no longer than the
   input, each with exactly its alignment mass (any non-negative or negative scores) *)
Theorem c05_pbs_exact_when_unpruned : forall V frames E B,
  pbs_full V frames E (length frames) B ->
  (forall p nb b, In (p, (nb, b)) B ->
     Forall (fun x => x < V) p /\ length p <= length frames /\
     (nb + b)%Qc = ctc_mass V frames E p) /\
  (forall p, Forall (fun x => x < V) p -> length p <= length frames ->
     exists nb b, In (p, (nb, b)) B /\ (nb + b)%Qc = ctc_mass V frames E p).
Proof. exact pbs_exact_when_unpruned. Qed.
Print Assumptions c05_pbs_exact_when_unpruned.

(* "and never more than that otherwise": any width, any admissible pruning history *)
Theorem c05_pbs_le_exact : forall V K frames E B p nb b, nonneg_frames frames E ->
  pbs_reach V K frames E (length frames) B -> In (p, (nb, b)) B ->
  (0 <= nb + b)%Qc /\ (nb + b <= ctc_mass V frames E p)%Qc.
Proof. exact pbs_le_exact. Qed.
Print Assumptions c05_pbs_le_exact.

(* the CTC recursion itself, on the alignment sums (what both theorems above rest on) *)
Theorem c05_alignment_mass_recursion : forall V frames E n p, Forall (fun x => x < V) p ->
  A_b V frames E (S n) p
  = ((A_nb V frames E n p + A_b V frames E n p) * snd (fr_at frames n))%Qc /\
  A_nb V frames E (S n) p
  = match last_opt p with
    | None => 0%Qc
    | Some v =>
        (A_nb V frames E n p * nth v (fst (fr_at frames n)) 0
         + (A_b V frames E n (removelast p)
            + (if opt_is (last_opt (removelast p)) v then 0 else A_nb V frames E n (removelast p)))
           * E n (removelast p) v)%Qc
    end.
Proof. exact alignment_mass_recursion. Qed.
Print Assumptions c05_alignment_mass_recursion.

(* prefix-relation matrix carried across steps: one step of the vectorised code, for ANY K
   distinct in-range indices (pruned or not, sorted or not), keeps: valid prefixes blank-free
   and pairwise distinct, the matrix sound on all slots and complete on valid ones, the last
   token and the zero non-blank mass of the empty prefix *)
Theorem c05_prefix_matrix_invariant_step : forall V width fr bm choice,
  1 <= V -> 1 <= width -> inv V bm ->
  length choice = Kout V bm width -> (forall i, In i choice -> i < ncand V bm) -> NoDup choice ->
  inv V (fst (advance V fr bm width choice)).
Proof. exact advance_inv. Qed.
Print Assumptions c05_prefix_matrix_invariant_step.

Theorem c05_prefix_matrix_invariant : forall V width fus lm len frames choices,
  1 <= V -> 1 <= width ->
  choices_ok V width fus lm 0%Qc len 0 frames choices init_beam = true ->
  let bm := live_beam V width fus lm len frames choices in
  inv V bm /\
  forall k k', valid bm k -> valid bm k' ->
    (isp bm k k' = true <-> is_pre (pref bm k) (pref bm k')).
Proof. exact search_prefix_matrix. Qed.
Print Assumptions c05_prefix_matrix_invariant.

(* "every returned prefix with positive probability is a distinct blank-free label sequence no
   longer than its input" (proved for every slot whose mass is not -inf, zero mass included) *)
Theorem c05_valid_prefixes_distinct_blank_free_bounded : forall V width fus lm len frames choices,
  1 <= V -> 1 <= width ->
  choices_ok V width fus lm 0%Qc len 0 frames choices init_beam = true ->
  let '(P, Ls, Ps) := observe (search V width fus lm len frames choices) in
  (forall i q, nth i Ps NegInf = Fin q ->
     Forall (fun x => x < V) (nth i P []) /\
     length (nth i P []) = nth i Ls 0 /\
     nth i Ls 0 <= Nat.min len (length frames)) /\
  (forall i j q q', nth i Ps NegInf = Fin q -> nth j Ps NegInf = Fin q' ->
     nth i P [] = nth j P [] -> i = j).
Proof. exact out_valid. Qed.
Print Assumptions c05_valid_prefixes_distinct_blank_free_bounded.

(* "prefixes are ordered by non-increasing probability" (and there are exactly width slots) *)
Theorem c05_sorted_by_mass : forall V width fus lm len frames choices,
  1 <= V -> 1 <= width ->
  choices_ok V width fus lm 0%Qc len 0 frames choices init_beam = true ->
  let '(P, Ls, Ps) := observe (search V width fus lm len frames choices) in
  length P = width /\ length Ls = width /\ length Ps = width /\ sorted_desc Ps.
Proof. exact out_sorted. Qed.
Print Assumptions c05_sorted_by_mass.

(* "slots holding no real prefix ... sit behind the real ones" *)
Theorem c05_invalid_slots_last : forall V width fus lm len frames choices,
  1 <= V -> 1 <= width ->
  choices_ok V width fus lm 0%Qc len 0 frames choices init_beam = true ->
  let '(P, Ls, Ps) := observe (search V width fus lm len frames choices) in
  forall i j, nth i Ps NegInf = NegInf -> i <= j -> j < width -> nth j Ps NegInf = NegInf.
Proof. exact out_invalid_last. Qed.
Print Assumptions c05_invalid_slots_last.

(* "an element's result equals that of searching its own valid frames alone": frames at and
   after lens[n] (and whatever topk answered on them) do not influence what is returned *)
Theorem c05_element_independent_of_padding_frames : forall V width fus lm len frames choices,
  1 <= V -> 1 <= width ->
  choices_ok V width fus lm 0%Qc len 0 frames choices init_beam = true ->
  observe (search V width fus lm len frames choices)
  = observe (search V width fus lm len (firstn len frames) choices).
Proof. exact element_independent. Qed.
Print Assumptions c05_element_independent_of_padding_frames.
