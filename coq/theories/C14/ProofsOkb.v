(* C14 - the boolean checker [bbs_okb] used by the harness to judge implementation outputs is
   sound for the declarative reading [bbs_spec]. *)
From Coq Require Import List Arith Bool Lia Sorting.Sorted Relations.
From PV Require Import C14.Model C14.Spec C14.ProofsSampler.
Import ListNotations.

Lemma ln_eqb_eq : forall a b, ln_eqb a b = true -> a = b.
Proof.
  unfold ln_eqb. induction a as [|x a IH]; destruct b as [|y b]; cbn; intros H; try discriminate; [reflexivity|].
  apply andb_true_iff in H. destruct H as [H1 H2]. apply Nat.eqb_eq in H1. subst. f_equal. now apply IH.
Qed.

Lemma prefixb_split : forall a b, prefixb a b = true -> exists r, a ++ r = b /\ length r = length b - length a.
Proof.
  induction a as [|x a IH]; intros b H; cbn in *.
  - exists b. split; [reflexivity|lia].
  - destruct b as [|y b]; [discriminate|]. apply andb_true_iff in H. destruct H as [H1 H2].
    apply Nat.eqb_eq in H1. subst. destruct (IH _ H2) as (r & Hr & Hl). exists r. cbn. split; [now rewrite Hr|exact Hl].
Qed.

Lemma drop_while_split : forall {A} (f : A -> bool) l,
  exists pre, l = pre ++ drop_while f l /\ Forall (fun x => f x = true) pre.
Proof.
  induction l as [|x t IH]; cbn.
  - exists []. split; [reflexivity|constructor].
  - destruct (f x) eqn:E.
    + destruct IH as (pre & Hp & Hall). exists (x :: pre). split; [cbn; now rewrite <- Hp|now constructor].
    + exists []. split; [reflexivity|constructor].
Qed.

Lemma strictly_incb_sorted : forall l, strictly_incb l = true -> StronglySorted lt l.
Proof.
  intros l H. apply Sorted_StronglySorted; [intros x y z; lia|].
  induction l as [|x t IH]; [constructor|].
  cbn in H. destruct t as [|y t'].
  - constructor; constructor.
  - apply andb_true_iff in H. destruct H as [H1 H2]. apply Nat.ltb_lt in H1.
    constructor; [now apply IH|constructor; exact H1].
Qed.

Section Okb.
  Variables bk sz : nat -> nat.

  Theorem bbs_okb_sound : forall drop s out,
    bbs_okb bk sz drop s out = true -> bbs_spec bk sz drop s out.
  Proof.
    intros drop s out H. unfold bbs_okb in H.
    set (keys := nodup Nat.eq_dec (map bk s)) in *.
    apply andb_true_iff in H. destruct H as [H H3].
    apply andb_true_iff in H. destruct H as [H1 H2].
    rewrite forallb_forall in H1, H2.
    assert (Hsb : single_bucket bk out).
    { intros b Hb. specialize (H1 b Hb).
      apply andb_true_iff in H1. destruct H1 as [H1 _]. apply andb_true_iff in H1. destruct H1 as [Hne Hall].
      split; [destruct b; [discriminate|discriminate]|].
      rewrite forallb_forall in Hall. intros x Hx. now apply Nat.eqb_eq, Hall. }
    split; [exact Hsb|]. split.
    - intros h. destruct (in_dec Nat.eq_dec h keys) as [Hk|Hk].
      + specialize (H2 h Hk). cbv zeta in H2. destruct drop.
        * apply andb_true_iff in H2. destruct H2 as [Hp Hl]. apply Nat.ltb_lt in Hl.
          destruct (prefixb_split _ _ Hp) as (r & Hr & Hlen). exists r. split; [exact Hr|].
          right. split; [reflexivity|lia].
        * apply ln_eqb_eq in H2. exists []. rewrite app_nil_r. split; [exact H2|now left].
      + exists []. rewrite app_nil_r. split; [|now left].
        assert (Hb : batches_of bk h out = []).
        { unfold batches_of. destruct (filter _ out) as [|b l] eqn:E; [reflexivity|]. exfalso.
          assert (Hin : In b (filter (fun b => Nat.eqb (bucket_of bk b) h) out)) by (rewrite E; now left).
          apply filter_In in Hin. destruct Hin as [Hin Eb]. apply Nat.eqb_eq in Eb.
          specialize (H1 b Hin). apply andb_true_iff in H1. destruct H1 as [_ Hex].
          apply existsb_exists in Hex. destruct Hex as (k & Hkin & Ek). apply Nat.eqb_eq in Ek.
          apply Hk. congruence. }
        assert (Hi : in_bucket bk h s = []).
        { unfold in_bucket. destruct (filter _ s) as [|i l] eqn:E; [reflexivity|]. exfalso.
          assert (Hin : In i (filter (fun i => Nat.eqb (bk i) h) s)) by (rewrite E; now left).
          apply filter_In in Hin. destruct Hin as [Hin Ei]. apply Nat.eqb_eq in Ei.
          apply Hk. unfold keys. apply nodup_In. rewrite <- Ei. now apply in_map. }
        now rewrite Hb, Hi.
    - cbv zeta in H3. set (tr := drop_while (fun b => Nat.eqb (length b) (sz (bucket_of bk b))) out) in *.
      destruct (drop_while_split (fun b => Nat.eqb (length b) (sz (bucket_of bk b))) out) as (pre & Hp & Hall).
      fold tr in Hp. apply andb_true_iff in H3. destruct H3 as [H3 Hinc].
      apply andb_true_iff in H3. destruct H3 as [Hshort Hd].
      exists pre, tr. split; [exact Hp|]. split; [|split; [|split]].
      + eapply Forall_impl; [|exact Hall]. intros b Hb. now apply Nat.eqb_eq.
      + rewrite forallb_forall in Hshort. apply Forall_forall. intros b Hb. now apply Nat.ltb_lt, Hshort.
      + intros ->. cbn in Hd. destruct tr; [reflexivity|discriminate].
      + now apply strictly_incb_sorted.
  Qed.
End Okb.

(* the loader-level checker: len() = number of batches, the sampler specification w.r.t. the tables
   the loader exposes, and those tables monotone in the utterance length (so equal lengths share a
   bucket and every bucket is an interval of lengths) *)
Theorem loader_okb_sound : forall lens p i2b b2s order ln out,
  loader_okb lens p (Some (i2b, b2s)) order ln out = true ->
  ln = length out /\
  bbs_spec (tbl i2b) (tbl b2s) (p_drop p) order out /\
  (forall i j, i < length lens -> j < length lens -> nth i lens 0 <= nth j lens 0 -> tbl i2b i <= tbl i2b j) /\
  (forall b x y, In b out -> In x b -> In y b -> tbl i2b x = tbl i2b y).
Proof.
  intros lens p i2b b2s order ln out H. unfold loader_okb in H.
  apply andb_true_iff in H. destruct H as [H Hb].
  apply andb_true_iff in H. destruct H as [Hln _]. apply Nat.eqb_eq in Hln.
  apply andb_true_iff in Hb. destruct Hb as [Hb Hspec].
  apply andb_true_iff in Hb. destruct Hb as [_ Hpar].
  apply bbs_okb_sound in Hspec.
  split; [exact Hln|]. split; [exact Hspec|]. split.
  - unfold params_okb in Hpar.
    apply andb_true_iff in Hpar. destruct Hpar as [Hpar _].
    apply andb_true_iff in Hpar. destruct Hpar as [_ Hmono].
    rewrite forallb_forall in Hmono. intros i j Hi Hj Hle.
    specialize (Hmono i ltac:(apply in_seq; lia)). rewrite forallb_forall in Hmono.
    specialize (Hmono j ltac:(apply in_seq; lia)).
    apply orb_true_iff in Hmono. destruct Hmono as [Hm|Hm].
    + apply negb_true_iff, Nat.leb_gt in Hm. lia.
    + now apply Nat.leb_le in Hm.
  - intros b x y Hin Hx Hy. destruct Hspec as (Hsb & _). destruct (Hsb b Hin) as [_ Hall].
    now rewrite (Hall x Hx), (Hall y Hy).
Qed.

(* plain batching: the epoch order cut into consecutive batches of batch_size, the remainder kept
   (not drop_last) or dropped *)
Theorem plain_okb_sound : forall bs drop order out, plain_okb bs drop order out = true ->
  exists rest, concat out ++ rest = order /\ (rest = [] \/ (drop = true /\ length rest < bs)).
Proof.
  intros bs drop order out H. unfold plain_okb in H. apply andb_true_iff in H. destruct H as [H _].
  destruct drop.
  - apply andb_true_iff in H. destruct H as [Hp Hl]. apply Nat.ltb_lt in Hl.
    destruct (prefixb_split _ _ Hp) as (r & Hr & Hlen). exists r. split; [exact Hr|]. right. split; [reflexivity|lia].
  - apply ln_eqb_eq in H. exists []. rewrite app_nil_r. split; [exact H|now left].
Qed.
