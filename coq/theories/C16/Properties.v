(* C16 - placeholder while the model and the correspondence are being set up *)
From PV Require Import C16.Model C16.Spec.
