(* C09, second tie — what the interpreted source of `pad_masked_sequence` / `chunk_by_slices` computes on TABULATED
   tensors, written as plain list functions (definitions only).
   pad_masked_sequence: TieBMasked.v proves that interpreting the translated source yields exactly [src_masked_flat]
   (symbolic run); TieBModel.v proves that this is PV.C09.Model's function.
   chunk_by_slices: [src_chunk_flat] below is the TARGET of the symbolic run of C09BSrc.chunk_body - that run and the
   identification with Model.chunk_rows are NOT proved yet (notes/C09_tie_report.md, "Second tie": the run was carried
   by hand through the call of _get_padding_buffers and the computation of T'; the forms below are the ones it meets). *)
From Coq Require Import List ZArith Bool Arith.
From PV Require Import MiniPy.Syntax MiniTorch.OpsC09 MiniTorch.OpsC09B MiniTorch.LemmasC09B.
From PV Require Import C09.Model C09.TieSrc.
Import ListNotations.
Local Open Scope nat_scope.

(* ---- pad_masked_sequence, batch-first core: x (N, T, F), mask (N, T) ------------------------------------------- *)
Section SrcMasked.
  Variables (N T F : nat) (xf : nat -> nat -> nat -> val) (mf : nat -> nat -> bool).

  Definition mlensZ (i : nat) : Z := countZ T (mf i).                       (* mask.sum(1) *)

  Definition src_masked_flat (value : val) : option (list val) :=
    OpsC09.mscatter (tab3 N T F (fun i j _ => (mlensZ i >? Z.of_nat j)%Z))
                    (tab3 N T F (fun _ _ _ => value))
                    (OpsC09.mselect (tab3 N T F (fun i j _ => mf i j)) (tab3 N T F xf)).
End SrcMasked.

(* ---- chunk_by_slices after the shape checks: x (N, T, F), lens lf, slices (sf, ef)  (definitions; NOT yet proved) --- *)
Section SrcChunk.
  Variables (N T F : nat) (xf : nat -> nat -> nat -> val) (lf : nat -> nat) (sf ef : nat -> Z).
  Local Open Scope Z_scope.

  (* the integer vectors, exactly as the code computes them *)
  Definition clZ (i : nat) : Z := Z.max 0 (ef i - sf i).                               (* chunk_lens *)
  Definition lpZ (i : nat) : Z := if clZ i =? 0 then 0 else Z.max 0 (- sf i).          (* left_pad *)
  Definition rpZ (i : nat) : Z := if clZ i =? 0 then 0 else Z.max 0 (ef i - ZI lf i).  (* right_pad *)
  Definition stZ (i : nat) : Z := Z.max 0 (sf i).                                      (* start_ *)
  Definition enZ (i : nat) : Z := Z.min (ef i) (ZI lf i).                              (* end_ *)
  Definition slZ (i : nat) : Z := Z.max 0 (enZ i - stZ i).                             (* slice_lens *)
  Definition offZ (i : nat) : Z := Z.max 0 (stZ i - ZI lf i).                          (* offset (reflect) *)
  Definition rp2Z (i : nat) : Z := rpZ i - offZ i.                                     (* right_pad -= offset *)

  Definition clN (i : nat) : nat := Z.to_nat (clZ i).
  Definition lpN (i : nat) : nat := Z.to_nat (lpZ i).
  Definition rpN (i : nat) : nat := Z.to_nat (rpZ i).

  (* Tp = max(max(left_pad.max(), chunk_lens.max()), right_pad.max()) *)
  Definition TpC : nat :=
    Nat.max (Nat.max (list_max (map lpN (seq 0 N))) (list_max (map clN (seq 0 N)))) (list_max (map rpN (seq 0 N))).

  (* the masks over (N, W) positions *)
  Definition m_slice (i j : nat) : bool := (sf i <=? Z.of_nat j) && (enZ i >? Z.of_nat j).
  Definition m_left (i j : nat) : bool := lpZ i >? Z.of_nat j.
  Definition m_mid (i j : nat) : bool := lpZ i + slZ i >? Z.of_nat j.
  Definition m_right (i j : nat) : bool := (lpZ i + slZ i + rpZ i >? Z.of_nat j) && negb (m_mid i j).
  Definition m_keep (i : nat) : bool := offZ i >? 0.
  Definition m_sel (i j : nat) : bool := (m_right i j && (lpZ i + slZ i + offZ i <=? Z.of_nat j)) && m_keep i.
  Definition m_put (i j : nat) : bool := ((rp2Z i >? Z.of_nat j) && m_keep i) && negb (m_mid i j).
  Definition m_x (i j : nat) : bool := m_mid i j && negb (m_left i j).

  Definition blk (W : nat) (g : nat -> nat -> bool) : list bool := tab3 N W F (fun i j _ => g i j).

  Definition src_chunk_flat (value : val) (md : mode) : res (list val) :=
    Model.bind (src_gpb N T F xf lf lpN rpN md) (fun bufs =>
      let W := TpC in
      let xs := OpsC09.mselect (blk T m_slice) (tab3 N T F xf) in
      let c0 := tab3 N W F (fun _ _ _ => value) in
      let sc (m : list bool) (d s : list val) (k : list val -> res (list val)) : res (list val) :=
        match OpsC09.mscatter m d s with Some r => k r | None => ErrRuntime end in
      let fin (c : list val) := sc (blk W m_x) c xs (fun r => Ok r) in
      match md with
      | Constant => fin c0
      | _ =>
          sc (blk W m_left) c0 (dat (fst bufs)) (fun c1 =>
          sc (blk W m_right) c1 (dat (snd bufs)) (fun c2 =>
          match md with
          | Reflect => sc (blk W m_put) c2 (OpsC09.mselect (blk W m_sel) c2) fin
          | _ => fin c2
          end))
      end).
End SrcChunk.
