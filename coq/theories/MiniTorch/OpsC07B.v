(* MiniTorch, unit C07B (second C07 tie) - the meaning given to the torch operations that occur in the translated
   `ctc_greedy_search`, `random_walk_advance` and `_sequence_log_probs_ps` (_decoding.py) and are not already
   defined in OpsC07.v (which is imported and reused as it is: tensors [tn] = (shape, row-major data) over
   bool / Z / xq = rational-or-minus-infinity, the tagged value encodings, unsqueeze / squeeze / masked_fill /
   arange / sum / gather on the last dimension / broadcasting).  NEW DEFINITIONS ONLY; algebra in LemmasC07B.v.

   Every operation returns [None] outside the domain stated with it; the unit's [ext] turns [None] into
   [Stuck] (fail-closed).  Ranks are those the three functions use.  +inf and NaN are not representable;
   IEEE rounding, dtypes' ranges, devices, strides / aliasing of views are not modelled.  Each definition quotes
   the sentence of the torch documentation (2.x) it models.  This file is TRUSTED by the tie; it is exercised on
   every run by harness/props/c07_tie.py (torch vs the interpreted source on the run's own cases). *)
From Coq Require Import List ZArith QArith Bool Arith String.
From PV Require Import MiniPy.Syntax MiniTorch.Ops MiniTorch.OpsC07.
Import ListNotations.
Local Open Scope nat_scope.

(* ---- elements ------------------------------------------------------------------------------------------- *)
Definition xone : xq := Fin 1.

(* IEEE `<` on rationals and -inf *)
Definition xltb (a b : xq) : bool :=
  match a, b with
  | Fin p, Fin q => match Qcompare p q with Datatypes.Lt => true | _ => false end
  | NInf, Fin _ => true
  | _, NInf => false
  end.

(* exact product of two FINITE numbers, kept in lowest terms.  A product with -inf is +inf, -inf or NaN
   depending on the sign of the other factor: not representable in general, so [prod_dim] below refuses
   tensors holding -inf; the value given here for that case is never used *)
Definition xmul (a b : xq) : xq :=
  match a, b with
  | Fin p, Fin q => Fin (Qred (p * q))
  | _, _ => NInf
  end.

Definition is_fin (x : xq) : bool := match x with Fin _ => true | NInf => false end.

(* ---- shape queries and data movement (any element type; [d] is only the default of [nth]) ---------------- *)

(* Tensor.size(dim): "Returns the size of the self tensor. ... If dim is specified, returns an int holding
   the size of that dimension."  None: dim outside [-rank, rank) *)
Definition size_at {X} (x : tn X) (d : Z) : option nat :=
  match wrap_dim (rank x) d with Some k => Some (nth k (shp x) 0) | None => None end.

(* Tensor.transpose(dim0, dim1) with {dim0, dim1} = {0, 1}: "Returns a tensor that is a transposed version of
   input.  The given dimensions dim0 and dim1 are swapped."  Also Tensor.t() / Tensor.T on a 2-D tensor
   ("Expects input to be <= 2-D tensor and transposes dimensions 0 and 1").  Rank >= 2 (the trailing
   dimensions move as blocks). *)
Definition transpose01 {X} (d : X) (x : tn X) : option (tn X) :=
  match shp x with
  | a :: b :: rest =>
      let I := numel rest in
      Some (mkTn (b :: a :: rest) (tab3 b a I (fun j i k => nth ((i * b + j) * I + k) (dat x) d)))
  | _ => None
  end.

(* x[:, lo:hi] on a 2-D tensor (basic indexing, step 1).  Python's slice rule (reference 3.3.1
   slice.indices): a missing bound is 0 / the length; a negative bound counts from the end; both are clipped
   to [0, length]; the result is empty when the lower bound is not below the upper one. *)
Definition norm_bound (T : nat) (o : option Z) (dflt : nat) : nat :=
  match o with
  | None => dflt
  | Some z => if (z <? 0)%Z then Z.to_nat (Z.max 0 (z + Z.of_nat T)) else Nat.min T (Z.to_nat z)
  end.

Definition slice_cols {X} (d : X) (x : tn X) (lo hi : option Z) : option (tn X) :=
  match shp x with
  | [N; T] =>
      let a := norm_bound T lo 0 in
      let L := norm_bound T hi T - a in
      Some (mkTn [N; L] (tab2 N L (fun n j => nth (n * T + (a + j)) (dat x) d)))
  | _ => None
  end.

(* torch.cat([x, y], dim) of two 2-D tensors: "Concatenates the given sequence of tensors in the given
   dimension.  All tensors must either have the same shape (except in the concatenating dimension) or be
   ... empty" (the legacy exception for 1-D empty tensors is not modelled: both operands are 2-D). *)
Definition cat2 {X} (d : X) (x y : tn X) (dim : Z) : option (tn X) :=
  match shp x, shp y with
  | [N; a], [N'; b] =>
      match wrap_dim 2 dim with
      | Some 0 => if a =? b then Some (mkTn [N + N'; a] (dat x ++ dat y)) else None
      | Some _ =>
          if N =? N'
          then Some (mkTn [N; a + b]
                       (tab2 N (a + b) (fun n j => if j <? a then nth (n * a + j) (dat x) d
                                                   else nth (n * b + (j - a)) (dat y) d)))
          else None
      | None => None
      end
  | _, _ => None
  end.

(* Tensor.masked_select(mask): "Returns a new 1-D tensor which indexes the input tensor according to the
   boolean mask ...  The shapes of the mask tensor and the input tensor don't need to match, but they must
   be broadcastable."  Modelled for a mask of EXACTLY the tensor's shape; row-major order. *)
Fixpoint select {X} (m : list bool) (l : list X) : list X :=
  match m, l with
  | b :: mt, x :: t => if b then x :: select mt t else select mt t
  | _, _ => []
  end.

Definition masked_select {X} (x : tn X) (m : tn bool) : option (tn X) :=
  if nats_eqb (shp x) (shp m)
  then let s := select (dat m) (dat x) in Some (mkTn [List.length s] s)
  else None.

(* Tensor.masked_scatter_(mask, source): "Copies elements from source into self tensor at positions where
   the mask is True.  Elements from source are copied into self starting at position 0 of source and
   continuing in order one-by-one for each occurrence of mask being True. ... The source should have at
   least as many elements as the number of ones in mask."  (fewer: torch raises - None.)  Mask of EXACTLY
   the tensor's shape; the source has any shape (its row-major data are consumed). *)
Fixpoint mscat {X} (m : list bool) (src dst : list X) : option (list X) :=
  match m, dst with
  | [], [] => Some []
  | b :: mt, x :: t =>
      if b then match src with
                | s :: st => option_map (cons s) (mscat mt st t)
                | [] => None
                end
      else option_map (cons x) (mscat mt src t)
  | _, _ => None
  end.

Definition masked_scatter {X} (x : tn X) (m : tn bool) (src : tn X) : option (tn X) :=
  if nats_eqb (shp x) (shp m) then option_map (mkTn (shp x)) (mscat (dat m) (dat src) (dat x)) else None.

(* ---- element-wise ------------------------------------------------------------------------------------------ *)

(* `x != c` (integer tensor, integer number) = torch.ne: "Computes input != other element-wise." *)
Definition ne_s := cmp_scalar (fun a b => negb (Z.eqb a b)).

(* `a != b` on two integer tensors of EQUAL shape (no broadcasting) *)
Definition ne_t (a b : tn Z) : option (tn bool) := zip_same (fun x y => negb (Z.eqb x y)) a b.

(* `a < b` on two integer tensors = torch.lt with general broadcasting (OpsC07.broadcast) *)
Definition lt_t (a b : tn Z) : option (tn bool) := broadcast Z.ltb 0%Z 0%Z a b.

(* `~m` on a boolean tensor = torch.bitwise_not: "For bool tensors, it computes the logical NOT." *)
Definition bnot (m : tn bool) : tn bool := mkTn (shp m) (map negb (dat m)).

(* Tensor.long() / Tensor.to(torch.long) on a boolean tensor: True -> 1, False -> 0 *)
Definition to_long (m : tn bool) : tn Z := mkTn (shp m) (map b2z (dat m)).

(* `a + b` on two float tensors of EQUAL shape = torch.add (alpha = 1), element-wise, exact (OpsC07.xadd) *)
Definition add_t (a b : tn xq) : option (tn xq) := zip_same xadd a b.

(* ---- reductions ------------------------------------------------------------------------------------------------ *)

(* Tensor.max(dim) on a FLOAT tensor, dim = the LAST dimension: "Returns a namedtuple (values, indices) where
   values is the maximum value of each row of the input tensor in the given dimension dim.  And indices is
   the index location of each maximum value found (argmax). ... dim is squeezed"; "If there are multiple
   maximal values in a reduced row then the indices of the first maximal value are returned."
   None: dim is not the last dimension (or out of range).  Some None: the reduced dimension has size 0 -
   torch raises IndexError.  (No NaN in this model.) *)
Fixpoint xargmax_from (best : xq) (bi i : nat) (l : list xq) : xq * nat :=
  match l with
  | [] => (best, bi)
  | x :: t => if xltb best x then xargmax_from x i (S i) t else xargmax_from best bi (S i) t
  end.
Definition xargmax (row : list xq) : xq * nat :=
  match row with [] => (xzero, 0) | x :: t => xargmax_from x 0 1 t end.

Definition row_of {X} (d : X) (V : nat) (l : list X) (r : nat) : list X :=
  map (fun v => nth (r * V + v) l d) (seq 0 V).

Definition max_last (x : tn xq) (d : Z) : option (option (tn xq * tn Z)) :=
  match wrap_dim (rank x) d with
  | Some k =>
      if S k =? rank x then
        let V := last (shp x) 0 in
        let sh := removelast (shp x) in
        if V =? 0 then Some None else
        Some (Some (mkTn sh (map (fun r => fst (xargmax (row_of xzero V (dat x) r))) (seq 0 (numel sh))),
                    mkTn sh (map (fun r => Z.of_nat (snd (xargmax (row_of xzero V (dat x) r)))) (seq 0 (numel sh)))))
      else None
  | None => None
  end.

(* Tensor.max() without arguments on an integer tensor: "Returns the maximum value of all elements in the
   input tensor." - a 0-dimensional tensor.  None: no elements (torch raises). *)
Definition max_all (x : tn Z) : option (tn Z) :=
  match dat x with
  | [] => None
  | z :: r => Some (mkTn [] [fold_left Z.max r z])
  end.

(* Tensor.item(): "Returns the value of this tensor as a standard Python number.  This only works for
   tensors with one element." *)
Definition item (x : tn Z) : option Z := match dat x with [z] => Some z | _ => None end.

(* Tensor.sum(dim) on an INTEGER tensor (as OpsC07.sum_dim on floats): "Returns the sum of each row of the
   input tensor in the given dimension dim ... dim is squeezed".  None: dim outside [-rank, rank) *)
Definition sum_long (x : tn Z) (d : Z) : option (tn Z) :=
  match wrap_dim (rank x) d with
  | Some k =>
      let sh := shp x in
      let N := extent sh k in
      let I := inner sh k in
      Some (mkTn (drop_dim sh k)
              (tab2 (outer sh k) I (fun o i => fold_right Z.add 0%Z (fibre 0%Z N I (dat x) o i))))
  | None => None
  end.

(* Tensor.prod(dim) on a float tensor: "Returns the product of each row of the input tensor in the given
   dimension dim ... dim is squeezed"; exact; an empty row has product 1.  None: dim outside [-rank, rank),
   or the tensor holds -inf (see [xmul]) *)
Definition prod_dim (x : tn xq) (d : Z) : option (tn xq) :=
  match wrap_dim (rank x) d with
  | Some k =>
      let sh := shp x in
      let N := extent sh k in
      let I := inner sh k in
      if forallb is_fin (dat x)
      then Some (mkTn (drop_dim sh k)
                   (tab2 (outer sh k) I (fun o i => fold_right xmul xone (fibre xone N I (dat x) o i))))
      else None
  | None => None
  end.

(* ---- indexing --------------------------------------------------------------------------------------------------- *)

(* Tensor.scatter(0, index, src) on 2-D tensors: "Writes all values from the tensor src into self at the
   indices specified in the index tensor. ... self[index[i][j]][j] = src[i][j]  # if dim == 0"; "index ...
   index.size(d) <= src.size(d) for all dimensions d, and index.size(d) <= self.size(d) for all dimensions
   d != dim"; values of index must be in [0, self.size(0)) (torch raises otherwise: None).  Modelled for an
   index and a src with ONE row (1 x N) and self (S x N): no two writes go to the same cell. *)
Definition scatter0 (x : tn Z) (idx src : tn Z) : option (tn Z) :=
  match shp x, shp idx, shp src with
  | [R; N], [1; N1], [1; N2] =>
      if (N1 =? N) && (N2 =? N) && forallb (fun j => (0 <=? j)%Z && (j <? Z.of_nat R)%Z) (dat idx)
      then Some (mkTn [R; N]
                   (tab2 R N (fun s n => if (nth n (dat idx) 0%Z =? Z.of_nat s)%Z then nth n (dat src) 0%Z
                                         else nth (s * N + n) (dat x) 0%Z)))
      else None
  | _, _, _ => None
  end.

(* torch.index_select(input, dim, index) on a 2-D tensor: "Returns a new tensor which indexes the input
   tensor along dimension dim using the entries in index ...  The returned tensor has the same number of
   dimensions as the original tensor (input).  The dim-th dimension has the same size as the length of
   index; other dimensions have the same size as in the original tensor."  index 1-D, entries in range
   (torch raises otherwise: None). *)
Definition index_select2 {X} (d : X) (x : tn X) (dim : Z) (idx : tn Z) : option (tn X) :=
  match shp x, shp idx with
  | [R; C], [K] =>
      match wrap_dim 2 dim with
      | Some 0 =>
          if forallb (fun j => (0 <=? j)%Z && (j <? Z.of_nat R)%Z) (dat idx)
          then Some (mkTn [K; C] (tab2 K C (fun k c => nth (Z.to_nat (nth k (dat idx) 0%Z) * C + c) (dat x) d)))
          else None
      | Some _ =>
          if forallb (fun j => (0 <=? j)%Z && (j <? Z.of_nat C)%Z) (dat idx)
          then Some (mkTn [R; K] (tab2 R K (fun r k => nth (r * C + Z.to_nat (nth k (dat idx) 0%Z)) (dat x) d)))
          else None
      | None => None
      end
  | _, _ => None
  end.

(* x[idx] with a 1-D integer tensor on a 1-D tensor (advanced indexing): out[k] = x[idx[k]]; entries in
   [0, len) (negative indices, which torch wraps, are not modelled: None) *)
Definition index1 {X} (d : X) (x : tn X) (idx : tn Z) : option (tn X) :=
  match shp x, shp idx with
  | [R], [K] =>
      if forallb (fun j => (0 <=? j)%Z && (j <? Z.of_nat R)%Z) (dat idx)
      then Some (mkTn [K] (map (fun k => nth (Z.to_nat (nth k (dat idx) 0%Z)) (dat x) d) (seq 0 K)))
      else None
  | _, _ => None
  end.

(* ---- packed sequences ------------------------------------------------------------------------------------------------- *)
Definition cnt_gt (t : nat) (lens : list Z) : nat := List.length (filter (fun l => (Z.of_nat t <? l)%Z) lens).

Fixpoint nonincr (l : list Z) : bool :=
  match l with
  | a :: r => match r with b :: _ => (b <=? a)%Z && nonincr r | [] => true end
  | [] => true
  end.

(* torch.nn.utils.rnn.pack_padded_sequence(input, lengths, batch_first, enforce_sorted=True) on a 2-D integer
   tensor: "Packs a Tensor containing padded sequences of variable length.  input can be of size T x B x * ... or
   B x T x * if batch_first is True ...  If enforce_sorted is True, the sequences should be sorted by length in a
   decreasing order, i.e. input[:,0] should be the longest sequence, and input[:,B-1] the shortest one."  The
   result's data holds, time step by time step, the entries of the sequences still running (the first
   batch_sizes[t] ones); sorted_indices / unsorted_indices are None.  Returned here: (data, batch_sizes).
   None (torch raises, or - a length above T - returns inconsistent data): empty tensors, len(lengths) <> B, a
   length <= 0, lengths not non-increasing, lengths[0] > T. *)
Definition pack_padded (x : tn Z) (lens : tn Z) (batch_first : bool) : option (tn Z * tn Z) :=
  match shp x, shp lens with
  | [A; B], [K] =>
      let T := if batch_first then B else A in
      let N := if batch_first then A else B in
      let ls := dat lens in
      if (K =? N) && (0 <? N) && (0 <? T) && forallb (fun l => (0 <? l)%Z) ls && nonincr ls
         && (hd 0%Z ls <=? Z.of_nat T)%Z
      then
        let L := Z.to_nat (hd 0%Z ls) in
        let data := flat_map (fun t => map (fun n => nth (if batch_first then n * T + t else t * N + n) (dat x) 0%Z)
                                           (seq 0 (cnt_gt t ls))) (seq 0 L) in
        Some (mkTn [List.length data] data, mkTn [L] (map (fun t => Z.of_nat (cnt_gt t ls)) (seq 0 L)))
      else None
  | _, _ => None
  end.

(* torch.nn.utils.rnn.pad_packed_sequence(sequence, batch_first=True) on (data: 1-D float, batch_sizes):
   "Pads a packed batch of variable length sequences.  It is an inverse operation to pack_padded_sequence().
   The returned Tensor's data will be of size B x T x * (batch_first), where T is the length of the longest
   sequence and B is the batch size. ... padding_value (default 0.0)"; also returns the lengths of the
   sequences.  B = batch_sizes[0], T = len(batch_sizes).  None: batch_sizes empty, not positive, not
   non-increasing, or not summing to the number of data elements. *)
Definition pad_packed (vals : tn xq) (bs : tn Z) : option (tn xq * tn Z) :=
  match shp vals, shp bs with
  | [M], [L] =>
      let b := dat bs in
      if (0 <? L) && forallb (fun z => (0 <? z)%Z) b && nonincr b && (Z.of_nat M =? fold_right Z.add 0%Z b)%Z
      then
        let B0 := Z.to_nat (hd 0%Z b) in
        Some (mkTn [B0; L]
                (tab2 B0 L (fun j t => if (Z.of_nat j <? nth t b 0%Z)%Z
                                       then nth (Z.to_nat (fold_right Z.add 0%Z (firstn t b)) + j) (dat vals) xzero
                                       else xzero)),
              mkTn [B0] (map (fun j => Z.of_nat (cnt_gt j b)) (seq 0 B0)))
      else None
  | _, _ => None
  end.
