(* C14 - batching loses nothing.  Executable model of what the code does
   (src/pydrobert/torch/_dataloaders.py, _datasets.py).  No proofs in this file.

   Modelled:
     BucketBatchSampler.__iter__            -> [iter_loop], [bucket_iter]
     torch.utils.data.BatchSampler          -> [batch_sampler], [batch_sampler_len]  (torch primitive,
                                               documented semantics)
     _get_bucket_batch_sampler_params       -> [bucket_params]
     _get_batch_sampler_len                 -> [sampler_len], [loader_len]
     Spect/Lang/ContextWindow DataLoader    -> [loader_batches], [spect_loader], [lang_loader], [cw_loader]
     spect_/lang_/context_window_seq_to_batch, pad_sequence -> [spect_collate], [lang_collate], [cw_collate]
     extract_window, get_windowed_utterance -> [extract_window], [windowed]

   Indices, bucket ids, sizes and lengths are [nat]; tensor cells are [Z] (the harness uses
   integer-valued features so every comparison is exact).  The order in which the epoch sampler
   presents the indices (NumPy's permutation for (seed, epoch), or range(n)) is data handed to
   the model, exactly as in C13. *)
From Coq Require Import List Arith Bool ZArith.
Import ListNotations.

Inductive err := IndexError | ZeroDivisionError | RuntimeError.
Inductive result (A : Type) := Ok (a : A) | Err (e : err).
Arguments Ok {A} a.
Arguments Err {A} e.

(* ====================================================================================== *)
(* 1. BucketBatchSampler.__iter__                                                         *)
(* ====================================================================================== *)

(* batches: Dict[H, List[int]] - an insertion-ordered association list *)
Definition dict := list (nat * list nat).

Fixpoint dget (h : nat) (d : dict) : list nat :=
  match d with
  | [] => []
  | (k, v) :: t => if Nat.eqb k h then v else dget h t
  end.

Fixpoint dset (h : nat) (v : list nat) (d : dict) : dict :=
  match d with
  | [] => [(h, v)]
  | (k, w) :: t => if Nat.eqb k h then (k, v) :: t else (k, w) :: dset h v t
  end.

Fixpoint ddel (h : nat) (d : dict) : dict :=
  match d with
  | [] => []
  | (k, w) :: t => if Nat.eqb k h then t else (k, w) :: ddel h t
  end.

(* for idx in self.sampler: ...   None = RuntimeError("batch ... has invalid size") *)
Fixpoint iter_loop (bk sz : nat -> nat) (open : dict) (s : list nat)
  : option (list (list nat) * dict) :=
  match s with
  | [] => Some ([], open)
  | idx :: t =>
      let h := bk idx in
      let batch := dget h open ++ [idx] in            (* setdefault(hash_, []).append(idx) *)
      if Nat.eqb (sz h) (length batch) then
        match iter_loop bk sz (ddel h open) t with      (* yield batch; del batches[hash_] *)
        | Some (ys, o) => Some (batch :: ys, o)
        | None => None
        end
      else if Nat.ltb (sz h) (length batch) then None
      else iter_loop bk sz (dset h batch open) t
  end.

(* sorted(batches.items(), key=lambda x: x[0]) *)
Fixpoint insert_item (e : nat * list nat) (l : dict) : dict :=
  match l with
  | [] => [e]
  | x :: t => if Nat.ltb (fst e) (fst x) then e :: x :: t else x :: insert_item e t
  end.

Definition sort_items (d : dict) : dict := fold_right insert_item [] d.

Definition bucket_iter (bk sz : nat -> nat) (drop : bool) (s : list nat)
  : option (list (list nat)) :=
  match iter_loop bk sz [] s with
  | None => None
  | Some (ys, open) => Some (ys ++ (if drop then [] else map snd (sort_items open)))
  end.

(* ====================================================================================== *)
(* 2. torch.utils.data.BatchSampler                                                       *)
(* ====================================================================================== *)

Fixpoint chunks_aux {A} (n : nat) (cur : list A) (l : list A) : list (list A) * list A :=
  match l with
  | [] => ([], cur)
  | x :: t =>
      let cur' := cur ++ [x] in
      if Nat.eqb (length cur') n then
        let '(f, r) := chunks_aux n [] t in (cur' :: f, r)
      else chunks_aux n cur' t
  end.

Definition batch_sampler {A} (n : nat) (drop : bool) (l : list A) : list (list A) :=
  let '(f, r) := chunks_aux n [] l in
  f ++ (if drop then [] else match r with [] => [] | _ => [r] end).

Definition batch_sampler_len (n : nat) (drop : bool) (total : nat) : nat :=
  if drop then total / n else (total + n - 1) / n.

(* ====================================================================================== *)
(* 3. _get_bucket_batch_sampler_params                                                    *)
(* ====================================================================================== *)

Fixpoint ins_nat (x : nat) (l : list nat) : list nat :=
  match l with
  | [] => [x]
  | y :: t => if Nat.leb x y then x :: l else y :: ins_nat x t
  end.

Definition sort_nat (l : list nat) : list nat := fold_right ins_nat [] l.

(* l[k] for a Python int k (negative = from the end); None = IndexError *)
Definition py_index (l : list nat) (k : Z) : option nat :=
  let n := Z.of_nat (length l) in
  if (k <? - n)%Z || (n <=? k)%Z then None
  else nth_error l (Z.to_nat (if (k <? 0)%Z then k + n else k)%Z).

Fixpoint all_some {A} (l : list (option A)) : option (list A) :=
  match l with
  | [] => Some []
  | None :: _ => None
  | Some x :: t => match all_some t with Some r => Some (x :: r) | None => None end
  end.

Fixpoint list_nat_eqb (a b : list nat) : bool :=
  match a, b with
  | [], [] => true
  | x :: a', y :: b' => Nat.eqb x y && list_nat_eqb a' b'
  | _, _ => false
  end.

(* the class of a length: sum(int(l > b) for b in len_bounds) *)
Definition class_of (bounds : list nat) (l : nat) : nat :=
  length (filter (fun b => Nat.ltb b l) bounds).

(* len_bounds after the quantile selection, the [-1] overwrite and the sorted(set(.)) step.
   The code sorts pairs (length, index); only the first components are used for the bounds and
   they are the sorted lengths. *)
Definition length_bounds (lens : list nat) (nb : nat) : result (list nat) :=
  let epb := length lens / nb in
  let sl := sort_nat lens in
  match all_some (map (fun n => py_index sl (Z.of_nat ((n + 1) * epb) - 1)%Z) (seq 0 nb)) with
  | None => Err IndexError
  | Some lb0 =>
      match py_index sl (-1)%Z, lb0 with
      | None, _ => Err IndexError
      | _, [] => Err IndexError                         (* len_bounds[-1] = ... on an empty list *)
      | Some mx, _ =>
          let lb := removelast lb0 ++ [mx] in
          let lb_ := sort_nat (nodup Nat.eq_dec lb) in
          Ok (if list_nat_eqb lb_ lb then lb else lb_)
      end
  end.

(* returns (idx2bucket as a table indexed by idx, bucket2size as a table indexed by bucket).
   An empty data set gives two empty maps; a dynamic size is
   max(m // max(len_bounds[j], 1), batch_size), so zero-length utterances do not divide by zero.
   ([Err] can only come from num_buckets = 0, which the bounds of param.Integer exclude.) *)
Definition bucket_params (lens : list nat) (nb bs : nat) (dyn : bool)
  : result (list nat * list nat) :=
  match lens with
  | [] => Ok ([], [])
  | _ =>
      match length_bounds lens nb with
      | Err e => Err e
      | Ok lb =>
          let i2b := map (class_of lb) lens in
          if dyn then
            let m := last lb 0 * bs in
            Ok (i2b, map (fun b => Nat.max (m / Nat.max b 1) bs) lb)
          else Ok (i2b, map (fun _ => bs) lb)
      end
  end.

(* ====================================================================================== *)
(* 4. _get_batch_sampler_len                                                              *)
(* ====================================================================================== *)

(* collections.Counter over an iterable: insertion-ordered (key, count) *)
Fixpoint counter_add (k : nat) (c : list (nat * nat)) : list (nat * nat) :=
  match c with
  | [] => [(k, 1)]
  | (k', n) :: t => if Nat.eqb k' k then (k', S n) :: t else (k', n) :: counter_add k t
  end.

Definition counter (l : list nat) : list (nat * nat) :=
  fold_left (fun c k => counter_add k c) l [].

(* sizes are positive wherever the loaders call this; x / 0 = 0 here where Python would raise *)
Definition sampler_len (bk sz : nat -> nat) (drop : bool) (s : list nat) : nat :=
  fold_left (fun acc (e : nat * nat) =>
               let '(b, c) := e in
               acc + (if drop then c / sz b else (c + sz b - 1) / sz b))
            (counter (map bk s)) 0.

(* ====================================================================================== *)
(* 5. the loaders' batch samplers                                                         *)
(* ====================================================================================== *)

Record lparams := mkLP { p_bs : nat; p_nb : nat; p_dyn : bool; p_drop : bool }.

Definition tbl (t : list nat) (i : nat) : nat := nth i t 0.

(* constructor: which batch sampler is built.  None = plain BatchSampler *)
Definition loader_init (lens : list nat) (p : lparams) : result (option (list nat * list nat)) :=
  if Nat.ltb 1 (p_nb p) then
    match bucket_params lens (p_nb p) (p_bs p) (p_dyn p) with
    | Err e => Err e
    | Ok x => Ok (Some x)
    end
  else Ok None.

(* one epoch of batches, given the order the utterance sampler yields *)
Definition loader_batches (lens : list nat) (p : lparams) (order : list nat)
  : result (list (list nat)) :=
  match loader_init lens p with
  | Err e => Err e
  | Ok None => Ok (batch_sampler (p_bs p) (p_drop p) order)
  | Ok (Some (i2b, b2s)) =>
      match bucket_iter (tbl i2b) (tbl b2s) (p_drop p) order with
      | None => Err RuntimeError
      | Some out => Ok out
      end
  end.

(* __len__ (computed from the current epoch's samples) *)
Definition loader_len (lens : list nat) (p : lparams) (order : list nat) : result nat :=
  match loader_init lens p with
  | Err e => Err e
  | Ok None => Ok (batch_sampler_len (p_bs p) (p_drop p) (length order))
  | Ok (Some (i2b, b2s)) => Ok (sampler_len (tbl i2b) (tbl b2s) (p_drop p) order)
  end.

(* successive epochs e0, e0+1, ...: each __iter__ of the loader advances the epoch by one *)
Definition loader_epochs (lens : list nat) (p : lparams) (order : nat -> list nat)
  (e0 k : nat) : list (result (list (list nat))) :=
  map (fun e => loader_batches lens p (order e)) (seq e0 k).

(* ====================================================================================== *)
(* 6. collation                                                                           *)
(* ====================================================================================== *)

Section Pad.
  Context {A : Type}.

  Definition maxlen (ls : list (list A)) : nat :=
    fold_right (fun l m => Nat.max (length l) m) 0 ls.

  Definition pad_to (T : nat) (pad : A) (l : list A) : list A :=
    l ++ repeat pad (T - length l).

  (* (N, T) -> (T, N) *)
  Definition transpose_cells (T : nat) (pad : A) (rows : list (list A)) : list (list A) :=
    map (fun t => map (fun r => nth t r pad) rows) (seq 0 T).

  (* torch.nn.utils.rnn.pad_sequence on a non-empty list of sequences *)
  Definition pad_sequence (batch_first : bool) (pad : A) (ls : list (list A)) : list (list A) :=
    let T := maxlen ls in
    let bf := map (pad_to T pad) ls in
    if batch_first then bf else transpose_cells T pad bf.
End Pad.

(* sorted(seq, key=..., reverse=True): stable, descending *)
Fixpoint insert_desc {X} (key : X -> nat) (x : X) (l : list X) : list X :=
  match l with
  | [] => [x]
  | y :: t => if Nat.leb (key y) (key x) then x :: l else y :: insert_desc key x t
  end.

Definition sort_desc {X} (key : X -> nat) (l : list X) : list X :=
  fold_right (insert_desc key) [] l.

Definition row := list Z.
Definition PADV : Z := (-100)%Z.          (* config.INDEX_PAD_VALUE *)

Definition is_some {A} (o : option A) : bool := match o with Some _ => true | None => false end.
Definition oget {A} (d : A) (o : option A) : A := match o with Some x => x | None => d end.

(* one SpectDataSet item; ali/ref None when absent or suppressed *)
Record utt := mkUtt
  { u_feat : list row; u_ali : option (list Z); u_ref : option (list row); u_id : nat }.

Record sbatch := mkSB
  { b_feats : list (list row); b_alis : option (list (list Z)); b_refs : option (list (list row));
    b_fsz : list nat; b_rsz : option (list nat); b_ids : list nat }.

(* F = feature width, W = reference row width (1 for token-only, 3 with segments) *)
Definition spect_collate (batch_first sort : bool) (F W : nat) (sq : list utt) : sbatch :=
  let sq := if sort then sort_desc (fun u => length (u_feat u)) sq else sq in
  let feats := map u_feat sq in
  let alis := map u_ali sq in
  let refs := map u_ref sq in
  let ali_nn := forallb is_some alis in
  let ref_nn := forallb is_some refs in
  mkSB (pad_sequence batch_first (repeat 0%Z F) feats)
       (if ali_nn then Some (pad_sequence batch_first PADV (map (oget []) alis)) else None)
       (if ref_nn then Some (pad_sequence batch_first (repeat PADV W) (map (oget []) refs)) else None)
       (map (@length row) feats)
       (if ref_nn then Some (map (@length row) (map (oget []) refs)) else None)
       (map u_id sq).

(* LangDataSet items: (ref, uttid) *)
Definition lang_collate (batch_first sort : bool) (W : nat) (sq : list (list row * nat))
  : list (list row) * list nat * list nat :=
  let sq := if sort then sort_desc (fun x => length (fst x)) sq else sq in
  let refs := map fst sq in
  (pad_sequence batch_first (repeat PADV W) refs, map (@length row) refs, map snd sq).

(* ContextWindowDataSet items: (windows (T, C, F), ali or None, uttid) *)
Definition cw_item := (list (list row) * option (list Z) * nat)%type.

Definition cw_collate (sq : list cw_item)
  : list (list row) * option (list Z) * list nat * list nat :=
  let ws := map (fun x => fst (fst x)) sq in
  let alis := map (fun x => snd (fst x)) sq in
  (concat ws,
   if forallb is_some alis then Some (concat (map (oget []) alis)) else None,
   map (@length (list row)) ws,
   map snd sq).

(* ====================================================================================== *)
(* 7. extract_window / get_windowed_utterance                                             *)
(* ====================================================================================== *)

Section Window.
  Context {A : Type}.

  (* feat[a:b] for 0 <= a, b (Python clamps at the end) *)
  Definition slice (l : list A) (a b : nat) : list A := firstn (b - a) (skipn a l).

  Definition extract_window (d : A) (feat : list A) (idx left right : nat) (reverse : bool)
    : list A :=
    let T := length feat in
    let w :=
      if Nat.ltb idx left || Nat.ltb T (idx + right + 1) then
        let left_pad := left - idx in
        let right_pad := idx + right + 1 - T in
        (* window[:left_pad] = feat[0]; window[left_pad:win-right_pad] = feat[max(0,idx-left):idx+right+1];
           window[-right_pad:] = feat[-1] *)
        repeat (hd d feat) left_pad ++ slice feat (idx - left) (idx + right + 1)
          ++ repeat (last feat d) right_pad
      else slice feat (idx - left) (idx + right + 1) in
    if reverse then rev w else w.

  Definition windowed (d : A) (feat : list A) (left right : nat) (reverse : bool)
    : list (list A) :=
    map (fun c => extract_window d feat c left right reverse) (seq 0 (length feat)).
End Window.

(* ====================================================================================== *)
(* 8. full loaders: batches of indices -> items -> collated batches                       *)
(* ====================================================================================== *)

Definition dflt_utt : utt := mkUtt [] None None 0.

Definition spect_loader (ds : list utt) (p : lparams) (batch_first sort : bool) (F W : nat)
  (order : list nat) : result (list sbatch) :=
  match loader_batches (map (fun u => length (u_feat u)) ds) p order with
  | Err e => Err e
  | Ok bs => Ok (map (fun b => spect_collate batch_first sort F W (map (fun i => nth i ds dflt_utt) b)) bs)
  end.

(* the length _get_bucket_batch_sampler_params reads from a LangDataSet item is the reference
   length, whether the item is the bare tensor (suppress_uttids) or the pair (ref, uttid) *)
Definition lang_loader_batches (ds : list (list row * nat)) (p : lparams) (order : list nat)
  : result (list (list nat)) :=
  loader_batches (map (fun x => length (fst x)) ds) p order.

Definition lang_loader (W : nat) (ds : list (list row * nat)) (p : lparams)
  (batch_first sort : bool) (order : list nat)
  : result (list (list (list row) * list nat * list nat)) :=
  match lang_loader_batches ds p order with
  | Err e => Err e
  | Ok bs => Ok (map (fun b => lang_collate batch_first sort W (map (fun i => nth i ds ([], 0)) b)) bs)
  end.

Definition cw_loader (ds : list utt) (bs : nat) (drop : bool) (left right : nat) (reverse : bool)
  (order : list nat) : list (list (list row) * option (list Z) * list nat * list nat) :=
  map (fun b => cw_collate (map (fun i => let u := nth i ds dflt_utt in
                                          (windowed [] (u_feat u) left right reverse, u_ali u, u_id u)) b))
      (batch_sampler bs drop order).

(* ====================================================================================== *)
(* 9. correspondence entry points                                                         *)
(* ====================================================================================== *)

Fixpoint list_eqb {A} (eqb : A -> A -> bool) (a b : list A) : bool :=
  match a, b with
  | [], [] => true
  | x :: a', y :: b' => eqb x y && list_eqb eqb a' b'
  | _, _ => false
  end.

Fixpoint forallb2 {A B} (f : A -> B -> bool) (a : list A) (b : list B) : bool :=
  match a, b with
  | [], [] => true
  | x :: a', y :: b' => f x y && forallb2 f a' b'
  | _, _ => false
  end.

Definition opt_eqb {A} (eqb : A -> A -> bool) (a b : option A) : bool :=
  match a, b with
  | None, None => true
  | Some x, Some y => eqb x y
  | _, _ => false
  end.

Definition err_eqb (a b : err) : bool :=
  match a, b with
  | IndexError, IndexError | ZeroDivisionError, ZeroDivisionError | RuntimeError, RuntimeError => true
  | _, _ => false
  end.

Definition res_eqb {A} (eqb : A -> A -> bool) (a b : result A) : bool :=
  match a, b with
  | Ok x, Ok y => eqb x y
  | Err e, Err f => err_eqb e f
  | _, _ => false
  end.

Definition ln_eqb := list_eqb Nat.eqb.
Definition lln_eqb := list_eqb ln_eqb.
Definition lz_eqb := list_eqb Z.eqb.
Definition llz_eqb := list_eqb lz_eqb.
Definition lllz_eqb := list_eqb llz_eqb.

(* BucketBatchSampler used directly: tables for the two dicts *)
Definition check_bbs (sampler i2b b2s : list nat) (drop : bool) (impl : option (list (list nat))) : bool :=
  opt_eqb lln_eqb (bucket_iter (tbl i2b) (tbl b2s) drop sampler) impl.

Definition check_params (lens : list nat) (nb bs : nat) (dyn : bool)
  (impl : result (list nat * list nat)) : bool :=
  res_eqb (fun a b => ln_eqb (fst a) (fst b) && ln_eqb (snd a) (snd b))
          (bucket_params lens nb bs dyn) impl.

(* batches of indices and len() over successive epochs *)
Definition check_batches (lens : list nat) (p : lparams) (orders : list (list nat))
  (impl : result (list (nat * list (list nat)))) : bool :=
  match impl with
  | Err e => match loader_init lens p with Err f => err_eqb e f | Ok _ => false end
  | Ok outs =>
      forallb2 (fun o io => res_eqb lln_eqb (loader_batches lens p o) (Ok (snd io))
                            && res_eqb Nat.eqb (loader_len lens p o) (Ok (fst io)))
               orders outs
  end.

Definition sbatch_eqb (has_ids : bool) (a b : sbatch) : bool :=
  lllz_eqb (b_feats a) (b_feats b) && opt_eqb llz_eqb (b_alis a) (b_alis b)
  && opt_eqb lllz_eqb (b_refs a) (b_refs b) && ln_eqb (b_fsz a) (b_fsz b)
  && opt_eqb ln_eqb (b_rsz a) (b_rsz b) && (negb has_ids || ln_eqb (b_ids a) (b_ids b)).

Definition check_spect_collate (bf sort has_ids : bool) (F W : nat) (sq : list utt) (impl : sbatch) : bool :=
  sbatch_eqb has_ids (spect_collate bf sort F W sq) impl.

Definition check_spect_loader (ds : list utt) (p : lparams) (bf sort has_ids : bool) (F W : nat)
  (order : list nat) (impl : result (list sbatch)) : bool :=
  res_eqb (list_eqb (sbatch_eqb has_ids)) (spect_loader ds p bf sort F W order) impl.

Definition lbatch_eqb (has_ids : bool) (a b : list (list row) * list nat * list nat) : bool :=
  lllz_eqb (fst (fst a)) (fst (fst b)) && ln_eqb (snd (fst a)) (snd (fst b))
  && (negb has_ids || ln_eqb (snd a) (snd b)).

Definition check_lang_collate (bf sort has_ids : bool) (W : nat) (sq : list (list row * nat))
  (impl : list (list row) * list nat * list nat) : bool :=
  lbatch_eqb has_ids (lang_collate bf sort W sq) impl.

Definition check_lang_loader (has_ids : bool) (W : nat) (ds : list (list row * nat)) (p : lparams)
  (bf sort : bool) (order : list nat)
  (impl : result (list (list (list row) * list nat * list nat))) : bool :=
  res_eqb (list_eqb (lbatch_eqb has_ids)) (lang_loader W ds p bf sort order) impl.

Definition cwbatch_eqb (has_ids : bool)
  (a b : list (list row) * option (list Z) * list nat * list nat) : bool :=
  let '(wa, aa, sa, ia) := a in
  let '(wb, ab, sb, ib) := b in
  lllz_eqb wa wb && opt_eqb lz_eqb aa ab && (negb has_ids || (ln_eqb sa sb && ln_eqb ia ib)).

Definition check_cw_collate (has_ids : bool) (sq : list cw_item)
  (impl : list (list row) * option (list Z) * list nat * list nat) : bool :=
  cwbatch_eqb has_ids (cw_collate sq) impl.

Definition check_cw_loader (ds : list utt) (bs : nat) (drop : bool) (left right : nat) (reverse has_ids : bool)
  (order : list nat) (impl : list (list (list row) * option (list Z) * list nat * list nat)) : bool :=
  list_eqb (cwbatch_eqb has_ids) (cw_loader ds bs drop left right reverse order) impl.

Definition check_window (feat : list row) (idx left right : nat) (reverse : bool) (impl : list row) : bool :=
  llz_eqb (extract_window [] feat idx left right reverse) impl.
