(* C02, second source tie - the block Gen.C02BSrc.mer_tail of `minimum_error_rate_loss` ("if samples < 2:" .. "return loss"),
   run symbolically from the state the block mer_pre ends in ([TieBPre.pre_vars]): for every N, M >= 2, oracle weights w
   (N rows of M), both layouts, sub_avg and every reduction it returns the tensor [loss_t] - AS CODED, on the float
   elements: E = what the call of error_rate returned, viewed (N, M); E - mean(1, keepdim) when sub_avg; times the
   oracle's softmax; mean / sum / none.  With M < 2 it raises RuntimeError.  The call of error_rate is the run of the
   translated `error_rate` (Gen.C02Src.er_wrap under SrcRun.ext02w): a hypothesis here, discharged in TieB.v by
   C02.Tie.error_rate_wrapper_is_model. *)
From Coq Require Import ZArith QArith List String Bool Arith Lia.
From PV Require Import MiniPy.Syntax MiniPy.Interp MiniPy.Lemmas MiniTorch.Ops MiniTorch.Lemmas MiniTorch.OpsC07 MiniTorch.LemmasC07
  MiniTorch.OpsC01 MiniTorch.LemmasC01 MiniTorch.OpsC02 MiniTorch.OpsC02B MiniTorch.LemmasC02B.
From PV Require Import Gen.C02Src Gen.C02BSrc C01.SrcRun C01.TieLib C02.SrcRun C02.SrcRunB C02.TieBLib C02.TieBPre.
From PV Require C01.Obs C01.Model C02.Model.
Import ListNotations.
Local Open Scope string_scope.

#[local] Arguments enc_i : simpl never.
#[local] Arguments enc_x : simpl never.
#[local] Arguments enc_b : simpl never.
#[local] Arguments extB : simpl never.
#[local] Arguments view : simpl never.
#[local] Arguments mean_keep : simpl never.
#[local] Arguments broadcast : simpl never.
#[local] Arguments Nat.mul : simpl never.
#[local] Arguments fadd : simpl never.
#[local] Arguments fsub : simpl never.
#[local] Arguments fmul : simpl never.
#[local] Arguments fdiv : simpl never.
#[local] Arguments z2f : simpl never.
#[local] Arguments tab2 : simpl never.
#[local] Arguments qfx : simpl never.
#[local] Arguments fsum : simpl never.
#[local] Arguments mean_all : simpl never.
#[local] Arguments sum_all : simpl never.

Section Tail.
  Variable w : list (list Q).
  Variables (N M R H : nat) (lpd : list fx) (reft hypt : tn Z) (bf : bool).
  Variables (eos : option Z) (incl norm warn : bool) (qi qd qs : Q).

  Definition tail_vars (sub_avg : bool) (red : C02.Model.reduction) : list (string * val) :=
    pre_vars (mkTn [N; M] lpd) reft hypt bf N M R H (opt_int eos) (VBool incl) (VBool sub_avg) (VBool norm) (VQ qi) (VQ qd) (VQ qs)
      (red_val red) (VBool warn).

  (* the loss as the statements compute it *)
  Definition e_sub (sub_avg : bool) (E : nat -> nat -> fx) (n m : nat) : fx :=
    if sub_avg then fsub (E n m) (fdiv (fsum (map (E n) (seq 0 M))) (z2f (Z.of_nat M))) else E n m.
  Definition l_w (E : nat -> nat -> fx) (n m : nat) : fx := fmul (E n m) (qfx (nth m (nth n w []) 0%Q)).
  Definition loss_t (sub_avg : bool) (red : C02.Model.reduction) (E : nat -> nat -> fx) : tn fx :=
    let L := mkTn [N; M] (tab2 N M (l_w (e_sub sub_avg E))) in
    match red with C02.Model.RNone => L | C02.Model.RSum => sum_all L | C02.Model.RMean => mean_all L end.

  Hypothesis HwN : List.length w = N.
  Hypothesis HwM : forall row, List.In row w -> List.length row = M.

  Ltac fin1 Hrun HM2 :=
    match goal with
    | |- context [Qcompare (inject_Z _) (inject_Z _)] => rewrite qcmp_lt_int, HM2
    | |- context [extB _ "error_rate" _ _ _] => rewrite (extB_error_rate _ _ _ _ _ _ _ _ _ _ _ _ _ _ Hrun)
    | |- context [view _ _] => rewrite view_1_2
    | |- context [mean_keep _ _] => rewrite mean_keep_rows
    | |- context [extB _ "torch.nn.functional.softmax" _ _ _] =>
        rewrite (extB_softmax _ _ _ _ _ HwN HwM), (concat_rectw_tab2 0%Q N M w HwN HwM), map_tab2
    | |- context [bin_f _ _ _] => unfold bin_f; first [rewrite broadcast_mat_col | rewrite broadcast_same2]
    end.
  Ltac finT Hrun HM2 := evB; repeat (fin1 Hrun HM2; evB); reflexivity.

  Lemma tail_run : forall sub_avg red E st', (2 <= M)%nat ->
    Interp.run ext02w er_wrap (wrap_vars reft hypt eos incl bf qi qd qs warn norm) = Ok (enc_x (mkTn [(N * M)%nat] (tab2 N M E))) st' ->
    exists st'', exec (extB w) mer_tail (mkState (tail_vars sub_avg red) []) = Ok (CReturn (enc_x (loss_t sub_avg red E))) st''.
  Proof.
    intros sub_avg red E st' HM Hrun.
    assert (HM2 : (Z.of_nat M <? 2)%Z = false) by (apply Z.ltb_ge; lia).
    unfold mer_tail, tail_vars, pre_vars, globals02, globals01, nat_v, loss_t, red_val.
    destruct bf, sub_avg, red; cbn [app]; eexists;
      (ifB_t ltac:(finT Hrun HM2); asgB_t ltac:(finT Hrun HM2); ifB_t ltac:(finT Hrun HM2);
       repeat first [asgB_t ltac:(finT Hrun HM2) | ifB_t ltac:(finT Hrun HM2)];
       seqnormB;
       match goal with |- exec ?ext (SReturn ?e) ?st = _ =>
         erewrite (execB_return ext e st) by (evB; reflexivity) end;
       reflexivity).
  Qed.

  (* fewer than two samples *)
  Lemma tail_raises : forall sub_avg red, (M < 2)%nat ->
    exec (extB w) mer_tail (mkState (tail_vars sub_avg red) []) = Exc runtime_error (mkState (tail_vars sub_avg red) []).
  Proof.
    clear HwN HwM. intros sub_avg red HM.
    assert (HM2 : (Z.of_nat M <? 2)%Z = true) by (apply Z.ltb_lt; lia).
    unfold mer_tail, tail_vars, pre_vars, globals02, globals01, nat_v.
    destruct bf; cbn [app]; (ifB_t ltac:(evB; rewrite qcmp_lt_int, HM2; reflexivity); reflexivity).
  Qed.
End Tail.
