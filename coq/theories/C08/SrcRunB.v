(* C08, second tie - the translated sources of `spec_augment_apply_parameters`, `warp_1d_grid` and `spec_augment`
   (src/pydrobert/torch/_img.py) as executables: the environments, the encoding of their arguments as MiniPy
   values, and the correspondence entry points [src_apply_check] / [src_grid_check] / [src_pipe_check] the
   harness evaluates on the cases of every run.  Definitions only; the lemmas are in TieB*.v.

   PV.Gen.C08BSrc.apply_body / warp_body / sa_body (whole bodies) and their marked blocks are regenerated from
   /repo on every run by harness/py2coq/translate.py (unit harness/py2coq/units/C08BSrc.json).  Decorators are
   outside the bodies: TorchScript is NOT modelled (eager text only).

   ONE vocabulary [ext_core a spl gso nested] serves the three functions.  It gives the torch calls the meaning
   of PV.MiniTorch.OpsC08 / OpsC08B (float32 rounding [r32 a] after every float32 operation); what it does not
   know itself it asks [nested] (calls of translated functions) and then SrcRun.operator (OpsC08's float
   arithmetic).  Two KERNELS are ORACLES, their outputs are data:
     polyharmonic_spline(train_points (N,K,1), train_values (N,K,1), query (N,T,1), order)   [spl k args]
         k = number of events emitted so far (every oracle call and every torch.rand call emits one), args = the
         argument VALUES; the answer is read as the row-major data of a float tensor of shape (N,T,1)
     torch.nn.functional.grid_sample(input (N,1,T,F), grid (N,T,F,2), mode="bilinear", padding_mode="border",
         align_corners=False)                                                                   [gso k args]
         the answer is read as the row-major cells of a tensor of input's shape
   Nothing is assumed about either.  The calls of translated functions are NESTED RUNS of the interpreter:
     warp_1d_grid(src, flow, lengths, max_length, order)      -> Gen.C08BSrc.warp_body under [extW]
     spec_augment_apply_parameters(feats, params, order, lengths) -> Gen.C08BSrc.apply_body under [extA]
     spec_augment_draw_parameters(feats, <8 limits>, lengths)  -> Gen.C08Src.draw_body under SrcRun.ext08 a rnd
   with the parameters bound positionally, the callee's events appended to the caller's (so the call counters of
   the oracles and of torch.rand are global).
   `_spec_augment_check_input(feats, lengths)` is given its documented behaviour (as in the first tie):
   RuntimeError unless feats is 3-D and lengths is None or a 1-D long tensor of N entries, each in (0, T].
   The feature tensor is a tensor of OPAQUE CELLS (OpsC08B.enc_c): the code only moves its cells or overwrites
   them with the Python float 0.0.  Devices and dtypes are tokens.  Everything else is Stuck. *)
From Coq Require Import ZArith QArith Qround List String Bool.
From PV Require Import MiniPy.Syntax MiniPy.Interp MiniTorch.Ops MiniTorch.OpsC08 MiniTorch.OpsC08B.
From PV Require Import Gen.C08Src Gen.C08BSrc.
From PV Require C08.Model.
From PV Require Import C08.SrcRun.
Import ListNotations.
Local Open Scope string_scope.

Definition long_token : val := VStr "$torch.long".
Definition fdtype_token : val := VStr "$dtype.feats".     (* feats.dtype: only ever passed back to Tensor.to *)

(* the module globals the bodies read: `torch` (torch.float, torch.long as values) *)
Definition globalsB : list (string * val) :=
  [("torch", VDict [(VStr "float", float_token); (VStr "long", long_token)])].

Definition ret_c (eps : Q) (why : string) (o : option (tn val)) (st : state) : outcome val :=
  match o with Some t => Ok (enc_c eps t) st | None => oob why end.

Definition kw_is1 (kw : list (string * val)) (n : string) (v : val) : bool :=
  match kw with [(n1, v1)] => (is n1 n && val_eqb v1 v)%bool | _ => false end.
Definition kw_is2 (kw : list (string * val)) (n1 : string) (v1 : val) (n2 : string) (v2 : val) : bool :=
  match kw with
  | [(m1, w1); (m2, w2)] => (is m1 n1 && val_eqb w1 v1 && is m2 n2 && val_eqb w2 v2)%bool
  | _ => false
  end.

(* the three keywords of the one grid_sample call *)
Definition kw_grid_sample (kw : list (string * val)) : bool :=
  match kw with
  | [(n1, VStr m); (n2, VStr p); (n3, VBool false)] =>
      (is n1 "mode" && is m "bilinear" && is n2 "padding_mode" && is p "border" && is n3 "align_corners")%bool
  | _ => false
  end.

(* any tensor value: the three element types of OpsC08, or opaque cells *)
Inductive anyB := BA (t : anyt) | BC (t : tn val) (eps : Q).
Definition dec_B (v : val) : option anyB :=
  match dec_any v with
  | Some t => Some (BA t)
  | None => match dec_c v with Some (t, eps) => Some (BC t eps) | None => None end
  end.

Definition shape_B (t : anyB) : list nat :=
  match t with BA (TF x) => shp x | BA (TL x) => shp x | BA (TB x) => shp x | BC x _ => shp x end.

(* a shape operation that does not look at the cells, on any tensor value *)
Definition shape_op (why : string)
  (opq : tn Q -> option (tn Q)) (opz : tn Z -> option (tn Z)) (opb : tn bool -> option (tn bool))
  (opc : tn val -> option (tn val)) (x : val) (st : state) : outcome val :=
  match dec_B x with
  | Some (BA (TF t)) => ret_f why (opq t) st
  | Some (BA (TL t)) => ret_l why (opz t) st
  | Some (BA (TB t)) => ret_b why (opb t) st
  | Some (BC t eps) => ret_c eps why (opc t) st
  | None => Stuck why
  end.

Definition dec_fs (l : list val) : option (list (tn Q)) :=
  dec_list (fun v => match dec_any v with Some (TF t) => Some t | _ => None end) l.

(* the answer of an oracle, read as [n] entries (missing ones: the default) *)
Definition take {X} (d : X) (n : nat) (l : list X) : list X := map (fun i => nth i l d) (seq 0 n).

Fixpoint bind_args (names : list string) (args : list val) : option (list (string * val)) :=
  match names, args with
  | [], [] => Some []
  | n :: ns, v :: vs => option_map (cons (n, v)) (bind_args ns vs)
  | _, _ => None
  end.

Section Ext.
  Variable a : Model.arith.
  Variable spl : nat -> list val -> list Q.
  Variable gso : nat -> list val -> list val.

  Definition ext_t : Type := string -> list val -> list (string * val) -> state -> outcome val.

  (* a call of a translated function: its body runs on its own variables, the events are shared *)
  Definition call_fn (ext : ext_t) (body : stmt) (names : list string) (args : list val) (st : state) : outcome val :=
    match bind_args names args with
    | None => Stuck "call: arity"
    | Some vs =>
        match exec ext body (mkState (vs ++ globalsB) (events st)) with
        | Ok CNormal st' => Ok VNone (mkState (vars st) (events st'))
        | Ok (CReturn v) st' => Ok v (mkState (vars st) (events st'))
        | Exc n st' => Exc n (mkState (vars st) (events st'))
        | Stuck w => Stuck w
        end
    end.

  Definition operatorB (o : string) (x y : val) (st : state) : outcome val :=
    match dec_any x, dec_any y with
    | Some (TL t), Some (TL u) => if is o "add" then ret_l "add" (add_l t u) st else Stuck ("extB: long " ++ o)
    | Some (TB t), Some (TB u) =>
        if is o "and" then ret_b "and" (and_b t u) st
        else if is o "or" then ret_b "or" (or_b t u) st else Stuck ("extB: bool " ++ o)
    | None, Some (TL u) =>
        match x with
        | VQ s => if is o "mul" then Ok (enc_f (mul_ls a u s)) st else Stuck ("extB: float (.) long " ++ o)
        | _ => SrcRun.operator a o x y st
        end
    | _, _ => SrcRun.operator a o x y st
    end.

  Definition ext_core (nested : string -> list val -> state -> option (outcome val))
    (f : string) (args : list val) (kw : list (string * val)) (st : state) : outcome val :=
    if is f "torch.full" then
      match args with
      | [VTuple [VInt n]; v] =>
          if (0 <=? n)%Z then
            if kw_is2 kw "dtype" long_token "device" device_token then
              match v with VInt z => Ok (enc_l (full_l (Z.to_nat n) z)) st | _ => Stuck "full: long fill value" end
            else if kw_is2 kw "dtype" float_token "device" device_token then
              match number v with Some q => Ok (enc_f (full_q a (Z.to_nat n) q)) st | None => Stuck "full: fill value" end
            else Stuck "full: keyword"
          else Stuck "full: size"
      | _ => Stuck "full"
      end
    else if is f "torch.arange" then
      match args with
      | [VInt n] =>
          if (0 <=? n)%Z then
            if kw_is1 kw "device" device_token then Ok (enc_l (arange_l (Z.to_nat n))) st
            else if kw_is2 kw "device" device_token "dtype" float_token then Ok (enc_f (arange_f (Z.to_nat n))) st
            else Stuck "arange: keyword"
          else Stuck "arange: end"
      | _ => Stuck "arange"
      end
    else if is f "$method.any" then
      match args with
      | [x; VInt d] =>
          match dec_any x with
          | Some (TB t) =>
              match kw with
              | [] => ret_b "any" (any_last t d false) st
              | [(n, VBool k)] => if is n "keepdim" then ret_b "any" (any_last t d k) st else Stuck "any: keyword"
              | _ => Stuck "any: keyword"
              end
          | _ => Stuck "any"
          end
      | _ => Stuck "any"
      end
    else if is f "torch.nn.functional.grid_sample" then
      match args with
      | [inp; grid] =>
          if kw_grid_sample kw then
            match dec_c inp, dec_any grid with
            | Some (t, eps), Some (TF g) =>
                match shp t, shp g with
                | [n; 1%nat; h; w], [n'; h'; w'; 2%nat] =>
                    if (Nat.eqb n n' && Nat.eqb h h' && Nat.eqb w w')%bool
                    then Ok (enc_c eps (mkTn (shp t) (take VNone (numel (shp t)) (gso (List.length (events st)) args))))
                            (emit ("grid_sample", args) st)
                    else Stuck "grid_sample: shapes"
                | _, _ => Stuck "grid_sample: shapes"
                end
            | _, _ => Stuck "grid_sample"
            end
          else Stuck "grid_sample: keyword"
      | _ => Stuck "grid_sample"
      end
    else if negb (no_kw kw) then Stuck ("extB: keyword arguments of " ++ f)
    else if is f "_spec_augment_check_input" then
      match args with
      | [ft; ln] =>
          match dec_c ft with
          | Some (t, _) =>
              match shp t with
              | [N; T; _] =>
                  match ln with
                  | VNone => Ok VNone st
                  | _ => match dec_any ln with
                         | Some (TL l) =>
                             match shp l with
                             | [n] => if (Nat.eqb n N && lens_in_range T (dat l))%bool then Ok VNone st else Exc runtime_error st
                             | _ => Exc runtime_error st
                             end
                         | _ => Stuck "check_input: lengths"
                         end
                  end
              | _ => Exc runtime_error st
              end
          | None => Stuck "check_input: feats"
          end
      | _ => Stuck "check_input"
      end
    else if is f "polyharmonic_spline" then
      match args with
      | [c; fv; x; VInt _] =>
          match dec_any c, dec_any fv, dec_any x with
          | Some (TF tc), Some (TF tf), Some (TF tx) =>
              match shp tc, shp tf, shp tx with
              | [n; k; 1%nat], [n'; k'; 1%nat], [n''; T; 1%nat] =>
                  if (Nat.eqb n n' && Nat.eqb n n'' && Nat.eqb k k')%bool
                  then Ok (enc_f (mkTn [n; T; 1%nat] (take 0%Q (n * T) (spl (List.length (events st)) args))))
                          (emit ("polyharmonic_spline", args) st)
                  else Stuck "polyharmonic_spline: shapes"
              | _, _, _ => Stuck "polyharmonic_spline: shapes"
              end
          | _, _, _ => Stuck "polyharmonic_spline"
          end
      | _ => Stuck "polyharmonic_spline"
      end
    else if is f "_get_tensor_eps" then
      (* of a float32 tensor: torch.finfo(torch.float32).eps *)
      match args with
      | [x] => match dec_any x with Some (TF _) => Ok (VQ Model.eps32) st | _ => Stuck "eps" end
      | _ => Stuck "eps"
      end
    else if is f "$attr.shape" then
      match args with
      | [x] => match dec_B x with
               | Some t => Ok (VTuple (map (fun n => VInt (Z.of_nat n)) (shape_B t))) st
               | None => Stuck "shape"
               end
      | _ => Stuck "shape"
      end
    else if is f "$attr.device" then
      match args with
      | [x] => match dec_B x with Some _ => Ok device_token st | None => Stuck "device" end
      | _ => Stuck "device"
      end
    else if is f "$attr.dtype" then
      match args with
      | [x] => match dec_c x with Some _ => Ok fdtype_token st | None => Stuck "dtype" end
      | _ => Stuck "dtype"
      end
    else if is f "$method.to" then
      (* lengths.to(feats.dtype): long -> the features' floating-point dtype (values < 2^24 are exact in it) *)
      match args with
      | [x; d] => match dec_any x with
                  | Some (TL t) => if val_eqb d fdtype_token then Ok (enc_f (float_of_long a t)) st else Stuck "to: dtype"
                  | _ => Stuck "to"
                  end
      | _ => Stuck "to"
      end
    else if is f "$method.numel" then
      match args with
      | [x] => match dec_B x with Some t => Ok (VInt (Z.of_nat (numel (shape_B t)))) st | None => Stuck "numel" end
      | _ => Stuck "numel"
      end
    else if is f "$method.float" then
      match args with
      | [x] => match dec_any x with
               | Some (TL t) => Ok (enc_f (float_of_long a t)) st
               | Some (TF t) => Ok (enc_f (float_of_float a t)) st
               | _ => Stuck "float"
               end
      | _ => Stuck "float"
      end
    else if is f "$method.max" then
      match args with
      | [x] => match dec_any x with
               | Some (TF t) => match max_all t with Some q => Ok (enc_f (mkTn [] [q])) st | None => oob "max of no element" end
               | _ => Stuck "max"
               end
      | _ => Stuck "max"
      end
    else if is f "$method.item" then
      match args with
      | [x] => match dec_any x with
               | Some (TF t) => match shp t, dat t with [], [q] => Ok (VQ q) st | _, _ => Stuck "item" end
               | _ => Stuck "item"
               end
      | _ => Stuck "item"
      end
    else if is f "math.ceil" then
      match args with
      | [VQ q] => Ok (VInt (ceil_q q)) st
      | [VInt z] => Ok (VInt z) st
      | _ => Stuck "ceil"
      end
    else if is f "int" then
      match args with [VInt z] => Ok (VInt z) st | _ => Stuck "int" end
    else if is f "torch.min" then
      match args with
      | [x; y] => match dec_any x, dec_any y with
                  | Some (TF t), Some (TF u) => ret_f "min" (min_t t u) st
                  | _, _ => Stuck "min"
                  end
      | _ => Stuck "min"
      end
    else if is f "$method.clamp_min" then
      match args with
      | [x; lo] => match dec_any x, number lo with
                   | Some (TF t), Some l => Ok (enc_f (clamp_min a t l)) st
                   | _, _ => Stuck "clamp_min"
                   end
      | _ => Stuck "clamp_min"
      end
    else if is f "torch.stack" then
      match args with
      | [VList l; VInt d] => match dec_fs l with
                             | Some ts => ret_f "stack" (stack_last 0%Q ts d) st
                             | None => Stuck "stack"
                             end
      | _ => Stuck "stack"
      end
    else if is f "$method.unsqueeze" then
      match args with
      | [x; VInt d] => shape_op "unsqueeze" (fun t => unsqueeze t d) (fun t => unsqueeze t d) (fun t => unsqueeze t d)
                         (fun t => unsqueeze t d) x st
      | _ => Stuck "unsqueeze"
      end
    else if is f "$method.squeeze" then
      match args with
      | [x; VInt d] => shape_op "squeeze" (fun t => squeeze t d) (fun t => squeeze t d) (fun t => squeeze t d)
                         (fun t => squeeze t d) x st
      | _ => Stuck "squeeze"
      end
    else if is f "$method.expand" then
      match args with
      | x :: sz => match dec_nats sz with
                   | Some s => shape_op "expand" (fun t => expand 0%Q t s) (fun t => expand 0%Z t s) (fun t => expand false t s)
                                 (fun t => expand VNone t s) x st
                   | None => Stuck "expand: sizes"
                   end
      | _ => Stuck "expand"
      end
    else if is f "$method.masked_fill" then
      match args with
      | [x; m; v] =>
          match dec_c x, dec_any m with
          | Some (t, eps), Some (TB b) => ret_c eps "masked_fill" (masked_fill_c t b v) st
          | _, _ => Stuck "masked_fill"
          end
      | _ => Stuck "masked_fill"
      end
    else if is f "compare" then
      match args with
      | [VStr o; x; y] =>
          match dec_any x, dec_any y with
          | Some (TL t), Some (TL u) =>
              if is o "ge" then ret_b "ge" (ge_l t u) st
              else if is o "lt" then ret_b "lt" (lt_l t u) st
              else Stuck ("extB: compare " ++ o)
          | _, _ => Stuck "compare"
          end
      | _ => Stuck "compare"
      end
    else if is f "operator" then
      match args with
      | [VStr o; x; y] => operatorB o x y st
      | _ => Stuck "operator"
      end
    else match nested f args st with
         | Some o => o
         | None => Stuck ("extB: " ++ f)
         end.

  (* the three environments *)
  Definition extW : ext_t := ext_core (fun _ _ _ => None).

  Definition nestedA (f : string) (args : list val) (st : state) : option (outcome val) :=
    if is f "warp_1d_grid" then Some (call_fn extW warp_body warp_body_params args st) else None.
  Definition extA : ext_t := ext_core nestedA.

  Variable rnd : nat -> nat -> Q.

  (* feats as the draw unit sees it: shape and finfo eps only *)
  Definition feats_for_draw (v : val) : val :=
    match dec_c v with Some (t, eps) => enc_feats (shp t) eps | None => v end.

  Definition nestedS (f : string) (args : list val) (st : state) : option (outcome val) :=
    if is f "spec_augment_draw_parameters" then
      Some (match args with
            | ft :: rest =>
                match bind_args draw_body_params (feats_for_draw ft :: rest) with
                | Some vs =>
                    match exec (ext08 a rnd) draw_body (mkState (vs ++ globals08) (events st)) with
                    | Ok (CReturn v) st' => Ok v (mkState (vars st) (events st'))
                    | Ok CNormal st' => Ok VNone (mkState (vars st) (events st'))
                    | Exc n st' => Exc n (mkState (vars st) (events st'))
                    | Stuck w => Stuck w
                    end
                | None => Stuck "call: arity"
                end
            | [] => Stuck "call: arity"
            end)
    else if is f "spec_augment_apply_parameters" then
      Some (call_fn extA apply_body apply_body_params args st)
    else None.
  Definition extS : ext_t := ext_core nestedS.
End Ext.

(* ---- inputs ---------------------------------------------------------------------------------------------- *)
(* a parameter tensor of an explicit apply call: None, a float tensor, a long tensor *)
Inductive par := PN | PF (t : tn Q) | PL (t : tn Z).
Definition enc_par (p : par) : val := match p with PN => VNone | PF t => enc_f t | PL t => enc_l t end.

Record pars := mkPars { q_w0 : par; q_w : par; q_v0 : par; q_v : par; q_t0 : par; q_t : par; q_f0 : par; q_f : par }.
Definition enc_pars (p : pars) : val :=
  VTuple [enc_par (q_w0 p); enc_par (q_w p); enc_par (q_v0 p); enc_par (q_v p);
          enc_par (q_t0 p); enc_par (q_t p); enc_par (q_f0 p); enc_par (q_f p)].

(* the arguments of spec_augment_apply_parameters: feats (N, T, F) of opaque cells *)
Definition apply_vars (eps : Q) (cells : tn val) (p : val) (order : Z) (lens : option (list Z)) : list (string * val) :=
  [("feats", enc_c eps cells); ("params", p); ("interpolation_order", VInt order); ("lengths", lengths_val lens)] ++ globalsB.

Definition run_apply (a : Model.arith) spl gso (eps : Q) (cells : tn val) (p : val) (order : Z) (lens : option (list Z))
  : outcome val :=
  Interp.run (extA a spl gso) apply_body (apply_vars eps cells p order lens).

(* the arguments of warp_1d_grid *)
Definition warp_vars (src flow lengths : val) (maxlen : option Z) (order : Z) : list (string * val) :=
  [("src", src); ("flow", flow); ("lengths", lengths);
   ("max_length", match maxlen with Some T => VInt T | None => VNone end); ("interpolation_order", VInt order)] ++ globalsB.

Definition run_warp (a : Model.arith) spl (src flow lengths : val) (maxlen : option Z) (order : Z) : outcome val :=
  Interp.run (extW a spl (fun _ _ => [])) warp_body (warp_vars src flow lengths maxlen order).

(* the arguments of spec_augment *)
Definition sa_vars (eps : Q) (cells : tn val) (c : Model.cfg) (order : Z) (lens : option (list Z)) (training : bool)
  : list (string * val) :=
  [("feats", enc_c eps cells);
   ("max_time_warp", VQ (Model.c_Wt c)); ("max_freq_warp", VQ (Model.c_Wf c));
   ("max_time_mask", VInt (Model.c_Mt c)); ("max_freq_mask", VInt (Model.c_Mf c));
   ("max_time_mask_proportion", VQ (Model.c_pt c)); ("num_time_mask", VInt (Z.of_nat (Model.c_nt c)));
   ("num_time_mask_proportion", VQ (Model.c_npt c)); ("num_freq_mask", VInt (Z.of_nat (Model.c_nf c)));
   ("interpolation_order", VInt order); ("lengths", lengths_val lens); ("training", VBool training)] ++ globalsB.

Definition run_sa (a : Model.arith) spl gso rnd (eps : Q) (cells : tn val) (c : Model.cfg) (order : Z)
  (lens : option (list Z)) (training : bool) : outcome val :=
  Interp.run (extS a spl gso rnd) sa_body (sa_vars eps cells c order lens training).

(* ---- reading results ------------------------------------------------------------------------------------ *)
(* the returned feature tensor: shape and cells *)
Definition read_cells (v : val) : option (list nat * list val) :=
  match dec_c v with Some (t, _) => Some (shp t, dat t) | None => None end.

(* batch element n of an (N, T, F) tensor of cells as T rows of F cells (the model's [img]) *)
Definition img_of {X} (d : X) (T F : nat) (l : list X) (n : nat) : list (list X) :=
  map (fun t => map (fun f => get3 d T F l n t f) (seq 0 F)) (seq 0 T).

Fixpoint vals_eqb (x y : list val) : bool :=
  match x, y with
  | [], [] => true
  | u :: x', w :: y' => (val_eqb u w && vals_eqb x' y')%bool
  | _, _ => false
  end.

(* ---- oracles of a case ------------------------------------------------------------------------------------ *)
(* the harness serves what torch's kernels returned, by call index *)
Definition orc_of {X} (calls : list (nat * list X)) (k : nat) (_ : list val) : list X :=
  match find (fun c => Nat.eqb (fst c) k) calls with Some c => snd c | None => [] end.

(* what the interpreted source handed to the oracles (events), compared with what the implementation handed to the
   kernels: float tensors entry by entry within [tol] (0: bit for bit) *)
Definition qs_close (tol : Q) (x y : list Q) : bool := Model.list_eqb (Model.close tol) x y.

Definition arg_close (tol : Q) (v : val) (want : list nat * list Q) : bool :=
  match dec_any v with
  | Some (TF t) => (nats_eqb (shp t) (fst want) && qs_close tol (dat t) (snd want))%bool
  | _ => false
  end.

(* one recorded kernel call: name and the float-tensor arguments that are compared (position, shape, data) *)
Definition want_call : Type := (string * list (nat * (list nat * list Q)))%type.

Definition event_close (tol : Q) (e : event) (w : want_call) : bool :=
  (String.eqb (fst e) (fst w)
   && forallb (fun pw => arg_close tol (nth (fst pw) (snd e) VNone) (snd pw)) (snd w))%bool.

Fixpoint events_close (tol : Q) (es : list event) (ws : list want_call) : bool :=
  match es, ws with
  | [], [] => true
  | e :: es', w :: ws' => (event_close tol e w && events_close tol es' ws')%bool
  | _, _ => false
  end.

Definition kernel_events (es : list event) : list event :=
  filter (fun e => negb (String.eqb (fst e) "torch.rand")) es.

(* ---- correspondence entry points ---------------------------------------------------------------------------- *)
(* spec_augment_apply_parameters on explicit parameters (kinds mask, warp, and apply(draw) of pipe / seed cases):
   the interpreted source under float32 rounding [ieee], the kernels' answers = what torch's kernels returned;
   judged: the returned cells = the implementation's output (cells compared as numbers: the bit pattern 0 of +0.0
   and the Python float 0.0 agree), and every kernel call was made with the arguments the implementation made it
   with.  [impl] None: the implementation raised RuntimeError (argument check). *)
Definition src_apply_check (tol : Q) (eps : Q) (N T F : nat) (cells : list val) (p : pars) (order : Z)
  (lens : option (list Z)) (spls : list (nat * list Q)) (gss : list (nat * list val)) (wants : list want_call)
  (impl : option (list val)) : bool :=
  match run_apply Model.ieee (orc_of spls) (orc_of gss) eps (mkTn [N; T; F] cells) (enc_pars p) order lens, impl with
  | Ok v st, Some out =>
      match read_cells v with
      | Some (sh, d) => (nats_eqb sh [N; T; F] && vals_eqb d out && events_close tol (kernel_events (events st)) wants)%bool
      | None => false
      end
  | Exc n _, None => String.eqb n runtime_error
  | _, _ => false
  end.

(* warp_1d_grid on float tensors: the returned grid = the spline oracle's answer, the spline was asked with the
   knots / query points the implementation asked it with *)
Definition src_grid_check (tol : Q) (src flow lengths : list Q) (maxlen : option Z) (order : Z)
  (spls : list (nat * list Q)) (wants : list want_call) (impl : list nat * list Q) : bool :=
  let n := List.length src in
  match run_warp Model.ieee (orc_of spls) (enc_f (mkTn [n] src)) (enc_f (mkTn [n] flow)) (enc_f (mkTn [n] lengths)) maxlen order with
  | Ok v st => (arg_close 0 v impl && events_close tol (kernel_events (events st)) wants)%bool
  | _ => false
  end.

(* spec_augment, the whole call: draw under the case's variates, then apply *)
Definition src_pipe_check (tol : Q) (d : Model.dtype) (c : Model.cfg) (N T F : nat) (cells : list val) (order : Z)
  (lens : option (list Z)) (training : bool) (us : list Model.uv)
  (spls : list (nat * list Q)) (gss : list (nat * list val)) (wants : list want_call) (impl : list val) : bool :=
  match run_sa Model.ieee (orc_of spls) (orc_of gss) (rnd_of (calls_of c us)) (Model.eps_of d) (mkTn [N; T; F] cells) c order lens training with
  | Ok v st =>
      match read_cells v with
      | Some (sh, dd) => (nats_eqb sh [N; T; F] && vals_eqb dd impl && events_close tol (kernel_events (events st)) wants)%bool
      | None => false
      end
  | _ => false
  end.
