(* C02, second source tie — the translated source of `minimum_error_rate_loss` (_string.py) as an executable: the
   environment [extB], the arguments as MiniPy tensor values and the correspondence entry point [src_mer_check]
   (interface of Model.check_mer plus the denominator of the costs).  Definitions only; the lemmas are in TieB*.v.

   PV.Gen.C02BSrc.{mer_body, mer_pre, mer_tail} are regenerated from /repo/src/pydrobert/torch/_string.py on every C02
   run by harness/py2coq/translate.py (unit C02BSrc):
     mer_body  the WHOLE body of minimum_error_rate_loss (every statement, every branch)
     mer_pre   "if log_probs.dim() != 2:" .. "if batch_first: ... else: ..."   (the three rank checks; per layout: the
               sizes from hyp.shape, the expansion of a 2-D ref by unsqueeze + repeat, the two shape checks,
               max_ref_steps, the flattening of ref and hyp by reshape)
     mer_tail  "if samples < 2:" .. "return loss"   (the sample-count check, the call of error_rate, .view(batch_size,
               samples), the mean subtraction, the product with softmax(log_probs, 1), the three reductions)
   The two blocks are consecutive and cover the body; [mer_blocks] runs them in sequence.  The decorators
   (@script, @functional_wrapper) and the f-string messages of the raise statements are outside the terms.

   [extB w] = PV.C02.SrcRun.ext02 (= C01's ext01 + the three operations of OpsC02; imported, not changed) plus
     error_rate(ref, hyp, eos=.., ..)          the OTHER translated function of this property: its parameters are bound
                                               in Python's way (SrcRun.bind_call on Gen.C02Src.er_wrap_params / _defaults)
                                               and its body Gen.C02Src.er_wrap is run under SrcRun.ext02w, i.e. it calls
                                               the translated _string_matching (Gen.C02Src.er_body)
     torch.nn.functional.softmax(x, 1)         an ORACLE: the values are the data [w] (N rows of M weights, as in
                                               Model.mer_loss); the answer has the shape of x, which must be 2-D with
                                               as many entries as w, and every row of w must have x.size(1) entries
     x.repeat(a, b, c)  x.size(d)  x.reshape(a, b)  x.view(a, b)        OpsC02B.repeat3 / size_dim, OpsC07.view
     t[i:j] on a tuple of ints (x.shape[:2])                             OpsC02B.tuple_slice
     x.mean(d, keepdim=True)  x.mean()  x.sum()                          OpsC02B.mean_keep / mean_all / sum_all
     a * b on two float tensors                                          OpsC01.bin_f fmul (broadcasting)
   Every other name is answered by ext02.  ASSUMPTIONS: those of C01.SrcRun / C02.SrcRun (long input tensors, costs =
   exact rationals, dtypes only select conversions, devices ignored, no rounding); `reshape` of a tensor is `view` of
   its row-major data (strides / contiguity are not modelled); a `reshape` that torch rejects (zero elements with a
   -1) is Stuck. *)
From Coq Require Import ZArith QArith Qabs List String Bool.
From PV Require Import MiniPy.Syntax MiniPy.Interp MiniTorch.Ops MiniTorch.OpsC07 MiniTorch.OpsC01 MiniTorch.OpsC02 MiniTorch.OpsC02B.
From PV Require Import Gen.C02Src Gen.C02BSrc.
From PV Require C01.Obs C01.Model C01.SrcRun C02.Model C02.SrcRun.
Import ListNotations.
Local Open Scope string_scope.

Import C01.SrcRun C02.SrcRun.

(* a rational as the float the tensors hold: lowest terms *)
Definition qfx (q : Q) : fx := Fq (Qred q).

Definition ints_of (l : list val) : option (list Z) := dec_list val_int l.

Definition retB (why : string) (o : option any01) (st : state) : outcome val :=
  match o with Some t => Ok (enc01 t) st | None => Stuck ("MiniTorch(C02B): outside the modelled domain: " ++ why) end.

Definition kw_keepdim (kw : list (string * val)) : bool :=
  match kw with [(k, VBool true)] => is k "keepdim" | _ => false end.

Definition size01 (t : any01) (d : Z) : option nat :=
  match t with AB y => size_dim y d | AI y => size_dim y d | AX y => size_dim y d end.

Definition extB (w : list (list Q)) (f : string) (args : list val) (kw : list (string * val)) (st : state) : outcome val :=
  if is f "error_rate" then
    match bind_call er_wrap_params er_wrap_defaults args kw with
    | Some vars0 =>
        match Interp.run ext02w er_wrap (vars0 ++ globals02)%list with
        | Ok v _ => Ok v st
        | Exc n _ => Exc n st
        | Stuck m => Stuck m
        end
    | None => Stuck "error_rate: arguments"
    end
  else if is f "torch.nn.functional.softmax" then
    match args, kw with
    | [x; VInt 1], [] =>
        match dec01 x with
        | Some (AX t) =>
            match shp t with
            | [n; m] =>
                if (Nat.eqb (List.length w) n && forallb (fun row => Nat.eqb (List.length row) m) w)%bool
                then Ok (enc_x (mkTn [n; m] (map qfx (List.concat w)))) st
                else Stuck "softmax: the oracle's weights do not have the shape of the argument"
            | _ => Stuck "softmax: not 2-D"
            end
        | _ => Stuck "softmax: not a float tensor"
        end
    | _, _ => Stuck "softmax: arguments"
    end
  else if is f "$method.repeat" then
    match args, kw with
    | [x; VInt a; VInt b; VInt c], [] =>
        match dec01 x with
        | Some t => retB "repeat" (map01 (fun X _ y => repeat3 y a b c) t) st
        | None => Stuck "repeat"
        end
    | _, _ => Stuck "repeat"
    end
  else if is f "$method.size" then
    match args, kw with
    | [x; VInt d], [] =>
        match dec01 x with
        | Some t => match size01 t d with
                    | Some n => Ok (VInt (Z.of_nat n)) st
                    | None => Stuck "size: dimension out of range"
                    end
        | None => Stuck "size"
        end
    | _, _ => Stuck "size"
    end
  else if (is f "$method.reshape" || is f "$method.view")%bool then
    match args, kw with
    | x :: spec, [] =>
        match dec01 x, ints_of spec with
        | Some t, Some zs => retB "reshape / view" (map01 (fun X _ y => view y zs) t) st
        | _, _ => Stuck "reshape / view"
        end
    | _, _ => Stuck "reshape / view"
    end
  else if is f "$method.mean" then
    match args with
    | [x; VInt d] =>
        if kw_keepdim kw then
          match dec01 x with
          | Some (AX t) => retB "mean" (option_map AX (mean_keep t d)) st
          | _ => Stuck "mean: not a float tensor"
          end
        else Stuck "mean: keyword"
    | [x] =>
        match kw, dec01 x with
        | [], Some (AX t) => Ok (enc_x (mean_all t)) st
        | _, _ => Stuck "mean()"
        end
    | _ => Stuck "mean"
    end
  else if is f "$method.sum" then
    match args, kw with
    | [x], [] => match dec01 x with Some (AX t) => Ok (enc_x (sum_all t)) st | _ => Stuck "sum()" end
    | _, _ => Stuck "sum"
    end
  else if is f "$getitem" then
    match args, kw with
    | [VTuple l; k], [] =>
        match ints_of l, dec_slice k with
        | Some _, Some (a, b) => Ok (VTuple (tuple_slice l a b)) st
        | _, _ => ext02 f args kw st
        end
    | _, _ => ext02 f args kw st
    end
  else if is f "operator" then
    match args, kw with
    | [VStr o; a; b], [] =>
        if is o "mul" then
          match dec01 a, dec01 b with
          | Some (AX x), Some (AX y) => retB "mul" (option_map AX (bin_f fmul x y)) st
          | _, _ => ext02 f args kw st
          end
        else ext02 f args kw st
    | _, _ => ext02 f args kw st
    end
  else ext02 f args kw st.

(* ---- the arguments ------------------------------------------------------------------------------------------ *)
(* a 3-D tensor handed over as nested lists: (N, M, T) when batch_first, (T, N, M) otherwise *)
Definition ten3 (bf : bool) (N M : nat) (t : list (list (list Z))) : tn Z :=
  mkTn (if bf then [N; M; List.length (hd [] (hd [] t))] else [List.length t; N; M]) (List.concat (List.concat t)).

Definition ref_tensor (bf : bool) (N M : nat) (ref : list (list Z) + list (list (list Z))) : tn Z :=
  match ref with inl r2 => mat_tensor bf N r2 | inr r3 => ten3 bf N M r3 end.

Definition red_val (r : C02.Model.reduction) : val :=
  VStr (match r with C02.Model.RMean => "mean" | C02.Model.RSum => "sum" | C02.Model.RNone => "none" end).

(* minimum_error_rate_loss(log_probs, ref, hyp, eos, include_eos, sub_avg, batch_first, norm, ins_cost, del_cost,
   sub_cost, reduction, warn) *)
Definition mer_vars (logp : tn fx) (ref hyp : tn Z) (eos : option Z) (incl sub_avg bf norm : bool) (qi qd qs : Q)
  (red : val) (warn : bool) : list (string * val) :=
  [("log_probs", enc_x logp); ("ref", enc_i ref); ("hyp", enc_i hyp); ("eos", opt_int eos); ("include_eos", VBool incl);
   ("sub_avg", VBool sub_avg); ("batch_first", VBool bf); ("norm", VBool norm); ("ins_cost", VQ qi); ("del_cost", VQ qd);
   ("sub_cost", VQ qs); ("reduction", red); ("warn", VBool warn)] ++ globals02.

Definition mer_blocks : stmt := SSeq mer_pre mer_tail.

(* the values of log_probs are never looked at (the softmax is the oracle): a tensor of zeros of shape (N, M) *)
Definition logp_tensor (N M : nat) : tn fx := mkTn [N; M] (repeat (Fq 0) (N * M)).

Definition cfg_varsB (c : C01.Model.cfg) (scale : Z) (sub_avg : bool) (red : C02.Model.reduction) (N M : nat)
  (ref : list (list Z) + list (list (list Z))) (hyp : list (list (list Z))) : list (string * val) :=
  mer_vars (logp_tensor N M) (ref_tensor (C01.Model.c_bf c) N M ref) (ten3 (C01.Model.c_bf c) N M hyp)
    (C01.Model.c_eos c) (C01.Model.c_incl c) sub_avg (C01.Model.c_bf c) (C01.Model.c_norm c)
    (cost_q scale (C01.Model.c_ins c)) (cost_q scale (C01.Model.c_del c)) (cost_q scale (C01.Model.c_sub c))
    (red_val red) false.

(* what a run returned, in the vocabulary of Model.mres; None: stuck / another exception / not a float tensor of the
   expected shape / an entry that is not a finite number *)
Definition fx_q (x : fx) : option Q := match x with Fq q => Some q | _ => None end.

Fixpoint all_some {X} (l : list (option X)) : option (list X) :=
  match l with
  | [] => Some []
  | Some x :: r => option_map (cons x) (all_some r)
  | None :: _ => None
  end.

Definition out_mres (red : C02.Model.reduction) (N M : nat) (o : outcome val) : option C02.Model.mres :=
  match o with
  | Ok v _ =>
      match dec01 v with
      | Some (AX t) =>
          match red, all_some (map fx_q (dat t)) with
          | C02.Model.RNone, Some qs =>
              if nats_eqb (shp t) [N; M] then Some (C02.Model.MMat (split_rows M N qs)) else None
          | _, Some [q] => if nats_eqb (shp t) [] then Some (C02.Model.MScalar q) else None
          | _, _ => None
          end
      | _ => None
      end
  | Exc n _ => if String.eqb n runtime_error then Some C02.Model.MErr else None
  | Stuck _ => None
  end.

Definition src_mer (body : stmt) (c : C01.Model.cfg) (scale : Z) (sub_avg : bool) (red : C02.Model.reduction) (N M : nat)
  (w : list (list Q)) (ref : list (list Z) + list (list (list Z))) (hyp : list (list (list Z))) : option C02.Model.mres :=
  out_mres red N M (Interp.run (extB w) body (cfg_varsB c scale sub_avg red N M ref hyp)).

Definition mres_matches (tol : Q) (r : option C02.Model.mres) (obs : C02.Model.mobs) : bool :=
  match r, obs with
  | Some C02.Model.MErr, C02.Model.OErr => true
  | Some (C02.Model.MScalar q), C02.Model.OScalar o => C02.Model.qclose tol q o
  | Some (C02.Model.MMat rows), C02.Model.OMat orows => C01.Obs.forall2b (C01.Obs.forall2b (C02.Model.qclose tol)) rows orows
  | _, _ => false
  end.

(* interface of Model.check_mer plus the denominator of the costs: the two blocks in sequence AND the whole body as
   one term, each compared with the observed loss within the tolerance of the correspondence *)
Definition src_mer_check (c : C01.Model.cfg) (scale : Z) (sub_avg : bool) (red : C02.Model.reduction) (N M : nat)
  (w : list (list Q)) (ref : list (list Z) + list (list (list Z))) (hyp : list (list (list Z)))
  (tol : Q) (obs : C02.Model.mobs) : bool :=
  (mres_matches tol (src_mer mer_blocks c scale sub_avg red N M w ref hyp) obs
   && mres_matches tol (src_mer mer_body c scale sub_avg red N M w ref hyp) obs)%bool.
