(* C04 — the executable stable topk meets the specification the theorems assume. *)
From Coq Require Import List Arith Lia ZArith Bool Sorted Permutation.
From PV Require Import C04.Model C04.Spec C04.Lists.
Import ListNotations.
Local Open Scope nat_scope.

Lemma sleb_refl a : sleb a a = true.
Proof. destruct a; cbn; auto. apply Z.leb_refl. Qed.

Lemma sleb_trans a b c : sleb a b = true -> sleb b c = true -> sleb a c = true.
Proof.
  destruct a, b, c; cbn; auto; try discriminate.
  intros H1 H2. apply Z.leb_le in H1, H2. apply Z.leb_le. lia.
Qed.

Lemma sleb_total a b : sleb a b = false -> sleb b a = true.
Proof.
  destruct a, b; cbn; auto; try discriminate.
  intros H. apply Z.leb_gt in H. apply Z.leb_le. lia.
Qed.

Lemma sleb_None a : sleb None a = true.
Proof. reflexivity. Qed.

Lemma sleb_fin a b : sleb a b = true -> sfin a = true -> sfin b = true.
Proof. destruct a, b; cbn; auto. Qed.

Definition geR (x y : nat * score) : Prop := sleb (snd y) (snd x) = true.

Lemma ins_perm x l : Permutation (ins x l) (x :: l).
Proof.
  induction l as [|y t IH]; cbn; [reflexivity|].
  destruct (sleb (snd y) (snd x)); [reflexivity|].
  rewrite IH. apply perm_swap.
Qed.

Lemma sort_perm l : Permutation (sort_desc l) l.
Proof.
  induction l as [|x t IH]; cbn; [reflexivity|].
  unfold sort_desc in *. cbn. rewrite ins_perm. now constructor.
Qed.

Lemma ins_sorted x l : StronglySorted geR l -> StronglySorted geR (ins x l).
Proof.
  induction 1 as [|y t Hs IH Hy]; cbn; [repeat constructor|].
  destruct (sleb (snd y) (snd x)) eqn:E.
  - constructor; [now constructor|]. constructor; [exact E|].
    eapply Forall_impl; [|exact Hy]. intros z Hz. unfold geR in *.
    eapply sleb_trans; eassumption.
  - constructor; [exact IH|].
    apply Forall_forall. intros z Hz.
    apply (Permutation_in _ (ins_perm x t)) in Hz. destruct Hz as [<-|Hz].
    + unfold geR. now apply sleb_total.
    + eapply Forall_forall in Hy; eauto.
Qed.

Lemma sort_sorted l : StronglySorted geR (sort_desc l).
Proof.
  induction l as [|x t IH]; [constructor|]. unfold sort_desc in *. cbn. now apply ins_sorted.
Qed.

Lemma ssorted_app_cross {A} (R : A -> A -> Prop) (l1 l2 : list A) :
  StronglySorted R (l1 ++ l2) -> forall x y, In x l1 -> In y l2 -> R x y.
Proof.
  induction l1 as [|a l1 IH]; cbn; intros H x y Hx Hy; [contradiction|].
  inversion H as [|? ? Hs Hf]; subst. destruct Hx as [->|Hx].
  - eapply Forall_forall in Hf; [exact Hf|]. apply in_or_app. now right.
  - eapply IH; eauto.
Qed.

Lemma ssorted_nth {A} (R : A -> A -> Prop) (d : A) (l : list A) :
  (forall x, R x x) -> StronglySorted R l ->
  forall i j, i <= j -> j < length l -> R (nth i l d) (nth j l d).
Proof.
  intros Hrefl. induction 1 as [|a l Hs IH Hf]; intros i j Hij Hj; [cbn in Hj; lia|].
  destruct i as [|i], j as [|j]; cbn [nth]; try lia.
  - apply Hrefl.
  - eapply Forall_forall in Hf; [exact Hf|]. apply nth_In. cbn in Hj. lia.
  - apply IH; cbn in Hj; lia.
Qed.

Lemma ssorted_firstn {A} (R : A -> A -> Prop) (l : list A) k :
  StronglySorted R l -> StronglySorted R (firstn k l).
Proof.
  intros H. revert k. induction H as [|a l Hs IH Hf]; intros [|k]; cbn; try constructor.
  - apply IH.
  - apply Forall_forall. intros x Hx. eapply Forall_forall in Hf; [exact Hf|].
    rewrite <- (firstn_skipn k l). apply in_or_app. now left.
Qed.

Lemma map_fst_combine {A B} : forall (l : list A) (l' : list B),
  length l = length l' -> map fst (combine l l') = l.
Proof.
  induction l as [|a l IH]; intros [|b l'] H; cbn in *; try discriminate; auto.
  f_equal. apply IH. lia.
Qed.

Lemma indexed_fst cs : map fst (indexed cs) = seq 0 (length cs).
Proof. unfold indexed. apply map_fst_combine. now rewrite seq_length. Qed.

Lemma indexed_in cs p : In p (indexed cs) -> fst p < length cs /\ snd p = nth (fst p) cs None.
Proof.
  unfold indexed. intros H.
  assert (G : forall (l : list score) s p, In p (combine (seq s (length l)) l) ->
              s <= fst p < s + length l /\ snd p = nth (fst p - s) l None).
  { clear. induction l as [|c l IH]; intros s p H; cbn in *; [contradiction|].
    destruct H as [<-|H]; cbn.
    - split; [lia|]. now rewrite Nat.sub_diag.
    - apply IH in H. destruct H as [H1 H2]. split; [lia|].
      rewrite H2. replace (fst p - s) with (S (fst p - S s)) by lia. reflexivity. }
  apply G in H. rewrite Nat.sub_0_r in H. destruct H. split; [lia|assumption].
Qed.

Lemma sorted_in cs p : In p (sort_desc (indexed cs)) ->
  fst p < length cs /\ snd p = nth (fst p) cs None.
Proof. intros H. apply indexed_in. eapply Permutation_in; [apply sort_perm|exact H]. Qed.

Lemma NoDup_firstn {A} (l : list A) k : NoDup l -> NoDup (firstn k l).
Proof.
  intros H. revert k. induction H as [|a l Hn Hd IH]; intros [|k]; cbn; try constructor.
  - intros Hin. apply Hn. rewrite <- (firstn_skipn k l). apply in_or_app. now left.
  - apply IH.
Qed.

Theorem topk_stable_ok : topk_ok topk_stable.
Proof.
  intros k cs Hk. cbn zeta. unfold topk_stable.
  set (srt := sort_desc (indexed cs)).
  assert (Hperm : Permutation srt (indexed cs)) by apply sort_perm.
  assert (Hlen : length srt = length cs).
  { rewrite (Permutation_length Hperm). unfold indexed.
    rewrite combine_length, seq_length. lia. }
  assert (Hnd : NoDup (map fst srt)).
  { eapply Permutation_NoDup; [symmetry; apply Permutation_map; exact Hperm|].
    rewrite indexed_fst. apply seq_NoDup. }
  assert (Hval : forall p, In p srt -> fst p < length cs /\ snd p = nth (fst p) cs None)
    by (intros; now apply sorted_in).
  assert (Hmapv : forall l, (forall p, In p l -> snd p = nth (fst p) cs None) ->
            map (fun i => nth i cs None) (map fst l) = map snd l).
  { induction l as [|p l IH]; intros H; cbn; [reflexivity|].
    rewrite IH by (intros; apply H; now right). f_equal. symmetry. apply H. now left. }
  repeat split.
  - rewrite firstn_length, map_length. lia.
  - now apply NoDup_firstn.
  - intros i Hi. assert (Hi' : In i (map fst srt)).
    { rewrite <- (firstn_skipn k (map fst srt)). apply in_or_app. now left. }
    apply in_map_iff in Hi'. destruct Hi' as (p & <- & Hp). now apply Hval.
  - (* sorted *)
    rewrite firstn_map, Hmapv.
    2:{ intros p Hp. refine (proj2 (Hval p _)). rewrite <- (firstn_skipn k srt). apply in_or_app. now left. }
    intros i j Hij Hj.
    assert (Hs : StronglySorted geR (firstn k srt)) by (apply ssorted_firstn, sort_sorted).
    rewrite map_length in Hj.
    pose proof (ssorted_nth geR (0, None) _ (fun x => sleb_refl (snd x)) Hs i j Hij Hj) as H.
    unfold geR in H.
    rewrite <- !(map_nth snd) in H. exact H.
  - (* dominance *)
    intros i j Hi Hj Hnj.
    rewrite firstn_map in Hi. apply in_map_iff in Hi. destruct Hi as (p & <- & Hp).
    assert (Hjin : In j (map fst srt)).
    { eapply Permutation_in; [symmetry; apply Permutation_map; exact Hperm|].
      rewrite indexed_fst. apply in_seq. lia. }
    apply in_map_iff in Hjin. destruct Hjin as (q & <- & Hq).
    assert (Hq2 : In q (skipn k srt)).
    { rewrite <- (firstn_skipn k srt) in Hq. apply in_app_or in Hq. destruct Hq as [Hq|Hq]; [|exact Hq].
      exfalso. apply Hnj. rewrite firstn_map. apply in_map. exact Hq. }
    pose proof (sort_sorted (indexed cs)) as Hs. fold srt in Hs.
    rewrite <- (firstn_skipn k srt) in Hs.
    pose proof (ssorted_app_cross geR _ _ Hs p q Hp Hq2) as H. unfold geR in H.
    assert (Hp' : In p srt) by (rewrite <- (firstn_skipn k srt); apply in_or_app; now left).
    destruct (Hval p Hp') as [_ <-]. destruct (Hval q Hq) as [_ <-]. exact H.
Qed.
