(* C02 - the blocks composed: from the state the preamble leaves (TieBlocks.stageA, return_mistakes still set or
   cleared by the uniform-cost shortcut) the interpreted er_row0; er_main; er_fin return, for every pair n, the
   float of PV.C02.Model.pair_er on column n; with the preamble (TiePre) this gives the whole-function theorems
   of Tie.v. *)
From Coq Require Import ZArith QArith List String Bool Arith Lia ZifyBool ZifyNat.
From PV Require Import MiniPy.Syntax MiniPy.Interp MiniPy.Lemmas MiniTorch.Ops MiniTorch.Lemmas MiniTorch.OpsC07 MiniTorch.LemmasC07
  MiniTorch.OpsC01 MiniTorch.LemmasC01 MiniTorch.OpsC02 MiniTorch.LemmasC02.
From PV Require Import Gen.C02Src C01.SrcRun C01.TieLib C01.TieMath C02.SrcRun C02.TieLib C02.TieMath C02.TieInner C02.TieLoop C02.TieLoopU C02.TieBlocks.
From PV Require C01.Obs C01.Model C01.Proofs C02.Model.
Import ListNotations.
Local Open Scope string_scope.

#[local] Arguments dec01 : simpl never.
#[local] Arguments enc_b : simpl never.
#[local] Arguments enc_i : simpl never.
#[local] Arguments enc_x : simpl never.
#[local] Arguments tab2 : simpl never.
#[local] Arguments tab3 : simpl never.
#[local] Arguments qz : simpl never.
#[local] Arguments Z.add : simpl never.
#[local] Arguments Z.sub : simpl never.
#[local] Arguments Z.of_nat : simpl never.
#[local] Arguments select0 : simpl never.
#[local] Arguments set_select0 : simpl never.
#[local] Arguments slice0 : simpl never.
#[local] Arguments set_slice0 : simpl never.
#[local] Arguments broadcast : simpl never.
#[local] Arguments where_f : simpl never.
#[local] Arguments min_dim : simpl never.
#[local] Arguments gather0 : simpl never.
#[local] Arguments unsqueeze : simpl never.
#[local] Arguments squeeze_dim : simpl never.
#[local] Arguments expand2 : simpl never.
#[local] Arguments triu_f : simpl never.
#[local] Arguments transpose2 : simpl never.
#[local] Arguments arange_f : simpl never.
#[local] Arguments full : simpl never.
#[local] Arguments fadd : simpl never.
#[local] Arguments fsub : simpl never.
#[local] Arguments fmul : simpl never.
#[local] Arguments fdiv : simpl never.
#[local] Arguments fmin : simpl never.
#[local] Arguments fge : simpl never.
#[local] Arguments b2f : simpl never.
#[local] Arguments z2f : simpl never.
#[local] Arguments ext01 : simpl never.
#[local] Arguments ext02 : simpl never.
#[local] Arguments zf : simpl never.
#[local] Arguments ofx : simpl never.
#[local] Arguments argmin_3 : simpl never.
#[local] Arguments seq : simpl never.
#[local] Arguments fmin_list : simpl never.
#[local] Arguments zrange : simpl never.
#[local] Arguments sw : simpl never.
#[local] Arguments swp : simpl never.

(* a loop statement with the properties of TieLoop.loop_tie and TieLoopU.loop_tieU *)
Definition loop_ok (lp : stmt) : Prop :=
  (forall s ci cd cs R N H rf hf hl vrl vmult vnorm vwarn st lf mf,
    body_pre s ci cd cs R N H rf hf hl vrl vmult vnorm vwarn lf mf st ->
    lookup "max_hyp_steps" (vars st) = Some (VInt (Z.of_nat H)) ->
    runs_to (body_pre s ci cd cs R N H rf hf hl vrl vmult vnorm vwarn
               (fun i n => nth i (fst (iter_col ci cd cs R H rf hf hl H 0 lf mf n)) 0%Z)
               (fun i n => nth i (snd (iter_col ci cd cs R H rf hf hl H 0 lf mf n)) 0%Z)) (exec ext02 lp st)) /\
  (forall s ci cd cs R N H rf hf hl vrl vmult vnorm vwarn st lf,
    body_preU s ci cd cs R N H rf hf hl vrl vmult vnorm vwarn lf st ->
    lookup "max_hyp_steps" (vars st) = Some (VInt (Z.of_nat H)) ->
    runs_to (body_preU s ci cd cs R N H rf hf hl vrl vmult vnorm vwarn
               (fun i n => nth i (iter_colU ci cd cs R H rf hf hl H 0 lf n) 0%Z)) (exec ext02 lp st)).

Lemma er_loop_ok : loop_ok er_loop.
Proof. split; intros; [now apply loop_tie|now apply loop_tieU]. Qed.

Section Tail.
  Variables (s : positive) (ci cd cs : Z) (mult : Q) (R N H : nat) (rf hf : nat -> nat -> Z) (rl hl : nat -> nat) (nm w : bool).

  (* return_mistakes still set: the mistakes table *)
  Theorem tail_run_m_gen : forall lp, loop_ok lp -> forall st, (forall n, (n < N)%nat -> (rl n <= R)%nat) ->
    known st (stageA true s ci cd cs mult R N H rf hf rl hl nm w) ->
    returns (enc_x (mkTn [N] (map (fin_value mult rl hl nm 1 (fun n => nth (rl n) (snd (final_rm ci cd cs R H rf hf hl n)) 0%Z)) (seq 0 N))))
            (exec ext02 (SSeq er_row0 (SSeq (SSeq main_flags (SSeq lp main_rest)) er_fin)) st).
  Proof.
    intros lp [Hlp _] st Hrl K.
    eapply returns_seq; [exact (row0_run_m s ci cd cs mult R N H rf hf rl hl nm w st K)|]. intros st1 K1.
    eapply returns_seq; [apply (main_run_m_gen s ci cd cs mult R N H rf hf rl hl nm w lp); [intros; now apply Hlp|exact Hrl|exact K1]|]. intros st2 K2.
    eapply (fin_run _ _ rf hf). exact K2.
  Qed.

  (* return_mistakes cleared: the cost table *)
  Theorem tail_run_u_gen : forall lp, loop_ok lp -> forall st, (forall n, (n < N)%nat -> (rl n <= R)%nat) ->
    known st (stageA false s ci cd cs mult R N H rf hf rl hl nm w) ->
    returns (enc_x (mkTn [N] (map (fin_value mult rl hl nm s (fun n => nth (rl n) (final_col ci cd cs R H rf hf hl n) 0%Z)) (seq 0 N))))
            (exec ext02 (SSeq er_row0 (SSeq (SSeq main_flags (SSeq lp main_rest)) er_fin)) st).
  Proof.
    intros lp [Hlm Hlp] st Hrl K.
    eapply returns_seq; [exact (row0_run_u s ci cd cs mult R N H rf hf rl hl nm w st K)|]. intros st1 K1.
    eapply returns_seq; [apply (main_run_u_gen s ci cd cs mult R N H rf hf rl hl nm w lp); [intros; now apply Hlm|intros; now apply Hlp|exact Hrl|exact K1]|]. intros st2 K2.
    eapply (fin_run _ _ rf hf). exact K2.
  Qed.
End Tail.

(* ---- the value of a model result as the float the source computes (C01.TieWhole.val_fx) ---------------------- *)
Definition val_fx (s : positive) (v : C01.Obs.val) : fx :=
  match v with
  | C01.Obs.Cost x => zf s x
  | C01.Obs.Ratio n d => Fq (Qred (qz s n / inject_Z (Z.of_nat d)))
  | C01.Obs.Lit z => z2f z
  end.

Definition uniform (c : C01.Model.cfg) : bool :=
  C02.Model.uniform_costs (C01.Model.c_ins c) (C01.Model.c_del c) (C01.Model.c_sub c).

(* the scale and costs in force after the uniform-cost shortcut (mult stays 1: return_mistakes was set) *)
Definition eff_scale (s : positive) (c : C01.Model.cfg) : positive := if uniform c then 1%positive else s.
Definition eff_ci (c : C01.Model.cfg) : Z := if uniform c then 1%Z else C01.Model.c_ins c.
Definition eff_cd (c : C01.Model.cfg) : Z := if uniform c then 1%Z else C01.Model.c_del c.
Definition eff_cs (c : C01.Model.cfg) : Z := if uniform c then 1%Z else C01.Model.c_sub c.

Lemma norm_value : forall (nm : bool) (rlen hlen : nat) (v : Z),
  (let x := fmul (zf 1 v) (Fq 1) in
   if nm then (if (Z.of_nat rlen =? 0)%Z then b2f (Z.of_nat hlen >? 0)%Z else fdiv x (z2f (Z.of_nat rlen))) else x)
  = val_fx 1 (C01.Model.normalise nm rlen v (0 <? hlen)%nat).
Proof.
  intros nm rlen hlen v. unfold C01.Model.normalise.
  assert (Ex : fmul (zf 1 v) (Fq 1) = zf 1 v).
  { unfold fmul, zf. now rewrite qz_mul_s_1. }
  cbv zeta. rewrite Ex. destruct nm; [|reflexivity].
  replace (Z.of_nat rlen =? 0)%Z with (Nat.eqb rlen 0) by lia. destruct (Nat.eqb rlen 0) eqn:E0; cbn [val_fx].
  - replace (Z.of_nat hlen >? 0)%Z with (0 <? hlen)%nat by lia. destruct (0 <? hlen)%nat; reflexivity.
  - unfold fdiv, zf, z2f. replace (Qeq_bool (inject_Z (Z.of_nat rlen)) 0) with false; [reflexivity|].
    symmetry. apply not_true_is_false. intros E. apply Qeq_bool_iff in E. unfold Qeq in E. cbn in E. lia.
Qed.

(* the mistakes path *)
Lemma pair_value_m : forall (c : C01.Model.cfg) (R H : nat) (r h : list Z),
  List.length r = R -> List.length h = H -> uniform c = false ->
  let rlen := C01.Model.eff_len (C01.Model.c_eos c) (C01.Model.c_incl c) r in
  let hlen := C01.Model.eff_len (C01.Model.c_eos c) (C01.Model.c_incl c) h in
  (let x := fmul (zf 1 (nth rlen (snd (iter_rm (C01.Model.c_ins c) (C01.Model.c_del c) (C01.Model.c_sub c) r h hlen H 1
                                         (map (fun i => Z.of_nat i * C01.Model.c_del c)%Z (seq 0 (S R)),
                                          map (fun i => Z.of_nat i) (seq 0 (S R))))) 0%Z))
                 (Fq 1) in
   if C01.Model.c_norm c
   then (if (Z.of_nat rlen =? 0)%Z then b2f (Z.of_nat hlen >? 0)%Z else fdiv x (z2f (Z.of_nat rlen)))
   else x)
  = val_fx 1 (C02.Model.pair_er c r h).
Proof.
  intros c R H r h Lr Lh Hu rlen hlen. unfold C02.Model.pair_er. unfold uniform in Hu. rewrite Hu.
  fold rlen. fold hlen.
  assert (E0 : (map (fun i => Z.of_nat i * C01.Model.c_del c)%Z (seq 0 (S R)), map (fun i => Z.of_nat i) (seq 0 (S R)))
               = C02.Model.state0 (C01.Model.c_del c) r).
  { unfold C02.Model.state0, C01.Model.row0. now rewrite Lr. }
  rewrite E0, iter_rm_all, Lh. apply norm_value.
Qed.

(* the uniform-cost shortcut: C01's table on unit costs *)
Lemma pair_value_u : forall (c : C01.Model.cfg) (R H : nat) (r h : list Z),
  List.length r = R -> List.length h = H -> uniform c = true ->
  let rlen := C01.Model.eff_len (C01.Model.c_eos c) (C01.Model.c_incl c) r in
  let hlen := C01.Model.eff_len (C01.Model.c_eos c) (C01.Model.c_incl c) h in
  (let x := fmul (zf 1 (nth rlen (iter_rows 1 1 1 r h hlen H 1 (map (fun i => Z.of_nat i * 1)%Z (seq 0 (S R)))) 0%Z)) (Fq 1) in
   if C01.Model.c_norm c
   then (if (Z.of_nat rlen =? 0)%Z then b2f (Z.of_nat hlen >? 0)%Z else fdiv x (z2f (Z.of_nat rlen)))
   else x)
  = val_fx 1 (C02.Model.pair_er c r h).
Proof.
  intros c R H r h Lr Lh Hu rlen hlen. unfold C02.Model.pair_er. unfold uniform in Hu. rewrite Hu.
  unfold C01.Model.pair_ed, C02.Model.unit_cfg.
  cbn [C01.Model.c_ins C01.Model.c_del C01.Model.c_sub C01.Model.c_eos C01.Model.c_incl C01.Model.c_norm].
  change (C01.Model.eff_costs 1 1 1) with (1%Z, (1%Z, 1%Z, 1%Z)). cbv iota. fold rlen. fold hlen.
  assert (E0 : map (fun i => Z.of_nat i * 1)%Z (seq 0 (S R)) = C01.Model.row0 1 r) by (unfold C01.Model.row0; now rewrite Lr).
  rewrite E0, iter_rows_all, Lh. rewrite Z.mul_1_r. apply norm_value.
Qed.
