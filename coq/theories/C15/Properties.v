(* C15 — Training control decisions follow the stated rules and survive restarts.
   Property theorems only: each is closed by [exact <lemma>] and followed by [Print Assumptions].
   Model.run rnd rd p decl dflt st steps is the controller (update_for_epoch per step, optionally
   preceded by a restart = new controller on the same history file and state directory);
   rnd / rd are what printing a rate to the history file / reading it back do (as coded: fmt5 / b64).
   Spec.s_run is the stated rule: a patience rule remembers the metric value at its last reset and
   counts consecutive failures; no history, no index arithmetic. *)
From Coq Require Import List ZArith QArith Bool Lia.
From PV Require Import C15.Model C15.Spec C15.Proofs C15.Restart C15.OnlyRate.
Import ListNotations.
Local Open Scope Z_scope.

(* "For every parameter setting and every sequence of per-epoch metrics ...": for every uninterrupted,
   error-free run in which early stopping has not fired before the last epoch, what the controller
   returns (update_for_epoch and continue_training), the rate it writes into the optimizer and the rate
   it records are, epoch by epoch, those of the rules. *)
Theorem c15_trace_follows_rules : forall rnd rd p decl dflt steps,
  wf p -> plain decl steps -> quiet_before_last p (s_init p dflt) (map s_val steps) = true ->
  map obs_core (fst (run rnd rd p decl dflt (init_state p dflt) steps))
  = map rule_obs (fst (s_run p (s_init p dflt) (map s_val steps))).
Proof. exact trace_follows_rules. Qed.
Print Assumptions c15_trace_follows_rules.

(* "the controller stops exactly when the epoch budget is reached or, with early stopping enabled, when
   for the configured number of consecutive post-burn-in epochs the validation metric has failed to
   undercut, by the threshold, the value it had when the patience count was last reset" *)
Theorem c15_stop_iff_rule : forall rnd rd p decl dflt steps x,
  wf p -> plain decl (steps ++ [x]) -> es_quiet p (s_init p dflt) (map s_val steps) = true ->
  let s := s_after p dflt (map s_val steps) in
  exists c ct o info,
    fst (run rnd rd p decl dflt (init_state p dflt) (steps ++ [x]))
    = fst (run rnd rd p decl dflt (init_state p dflt) steps) ++ [OOk c ct o info] /\ ct = c /\
    (c = false <->
     (exists n, p_num p = Some n /\ n <= Z.of_nat (List.length steps) + 1) \/
     (0 < es_thr p /\ bad (rule_step (s_es s) (es_thr p) (s_val x)) = es_pat p)).
Proof. exact stop_iff_rule. Qed.
Print Assumptions c15_stop_iff_rule.

(* "it multiplies the learning rate by the factor exactly when the analogous reduction criterion fires
   outside cool-down (and the change is not negligible), never otherwise, and writes the new rate into
   the optimizer": recorded rate = optimizer rate = [new] *)
Theorem c15_lr_changes_iff_rule : forall rnd rd p decl dflt steps x,
  wf p -> plain decl (steps ++ [x]) -> es_quiet p (s_init p dflt) (map s_val steps) = true ->
  let s := s_after p dflt (map s_val steps) in
  let old := s_rate s in
  let fire := bad (rule_step (s_rl s) (rlr_thr p) (s_val x)) =? rlr_pat p in
  let new := if fire && Qlt_b (rlr_eps p) (old - Qred (old * rlr_fac p)) then Qred (old * rlr_fac p) else old in
  exists c ct info,
    fst (run rnd rd p decl dflt (init_state p dflt) (steps ++ [x]))
    = fst (run rnd rd p decl dflt (init_state p dflt) steps) ++ [OOk c ct new info] /\
    r_lr info = Some new /\
    opt (snd (run rnd rd p decl dflt (init_state p dflt) (steps ++ [x]))) = new.
Proof. exact lr_changes_iff_rule. Qed.
Print Assumptions c15_lr_changes_iff_rule.

(* the anchored mechanism "reference epoch recovered as epoch - patience + countdown - 1": in every
   reachable history that index is the last epoch whose stored patience countdown was full, for the
   early-stopping and for the learning-rate rule *)
Theorem c15_reference_epoch_is_last_reset : forall rnd rd p decl dflt steps prev,
  wf p -> plain decl steps -> quiet_before_last p (s_init p dflt) (map s_val steps) = true ->
  let c := cache (snd (run rnd rd p decl dflt (init_state p dflt) steps)) in
  hget c (last_epoch c) = Some prev ->
  let epoch := last_epoch c + 1 in
  let es_epoch := epoch - es_pat p + r_espcd prev - 1 in
  let rlr_epoch := epoch - rlr_pat p + r_rlrpcd prev - 1 in
  ((exists rj, hget c es_epoch = Some rj /\ r_espcd rj = es_pat p) /\
   (forall i ri, es_epoch < i <= last_epoch c -> hget c i = Some ri -> r_espcd ri < es_pat p)) /\
  ((exists rj, hget c rlr_epoch = Some rj /\ r_rlrpcd rj = rlr_pat p) /\
   (forall i ri, rlr_epoch < i <= last_epoch c -> hget c i = Some ri -> r_rlrpcd ri < rlr_pat p)).
Proof. exact reference_epoch_is_last_reset. Qed.
Print Assumptions c15_reference_epoch_is_last_reset.

(* "Discarding the controller after any epoch and constructing a new one from the same history file
   and state directory reproduces, from then on, the same decisions, learning rates and recorded
   history as an uninterrupted run": any subset of restart points, any inputs (also rejected keyword
   arguments), provided every rate the uninterrupted run reaches survives the write/read round trip *)
Theorem c15_restart_equivalent : forall rnd rd p decl dflt steps,
  NoDup (map fst decl) ->
  (forall r l, In r (cache (snd (run rnd rd p decl dflt (init_state p dflt) (clear_restarts steps)))) ->
               r_lr r = Some l -> rd (rnd l) = l) ->
  run rnd rd p decl dflt (init_state p dflt) steps
  = run rnd rd p decl dflt (init_state p dflt) (clear_restarts steps).
Proof. exact restart_equivalent. Qed.
Print Assumptions c15_restart_equivalent.

(* known finding K4: without that proviso the clause is false of the code as it is ("{:.4e}" then
   float()): default rate 0.0123456789, factor 1/2, restart after epoch 1 *)
Theorem c15_restart_rate_refuted :
  exists p decl dflt steps,
    wf p /\ NoDup (map fst decl) /\ plain decl (clear_restarts steps) /\ b64 dflt = dflt /\
    let a := run fmt5 b64 p decl dflt (init_state p dflt) steps in
    let b := run fmt5 b64 p decl dflt (init_state p dflt) (clear_restarts steps) in
    map obs_cont (fst a) = map obs_cont (fst b) /\
    b64 (fmt5 dflt) <> dflt /\
    map obs_rate (fst a) = [Some dflt; Some (Qred (b64 (fmt5 dflt) * (1 # 2))); Some (Qred (b64 (fmt5 dflt) * (1 # 4)))] /\
    map obs_rate (fst b) = [Some dflt; Some (Qred (dflt * (1 # 2))); Some (Qred (dflt * (1 # 4)))] /\
    map c_lr (csv (snd a)) <> map c_lr (csv (snd b)).
Proof. exact restart_rate_refuted. Qed.
Print Assumptions c15_restart_rate_refuted.

(* ... and that is all that can go wrong: for ANY print/read rounding, any inputs and any restart
   points, decisions, exceptions, countdowns, metrics and user entries - per epoch, in the final
   cache and in the history file - equal those of the uninterrupted run; only rate fields may differ *)
Theorem c15_restart_only_rate_differs : forall rnd rd p decl dflt steps,
  NoDup (map fst decl) ->
  let a := run rnd rd p decl dflt (init_state p dflt) steps in
  let b := run rnd rd p decl dflt (init_state p dflt) (clear_restarts steps) in
  map strip_obs (fst a) = map strip_obs (fst b) /\
  map strip_row (cache (snd a)) = map strip_row (cache (snd b)) /\
  map strip_crow (csv (snd a)) = map strip_crow (csv (snd b)).
Proof. exact restart_only_rate_differs. Qed.
Print Assumptions c15_restart_only_rate_differs.

(* "User-defined entries are stored and returned with their declared types": the recorded row holds,
   for every declared entry, the value that was passed, of the declared kind, and what a new
   controller parses from the history line is that same list of typed values *)
Theorem c15_user_entries_typed : forall rnd p decl dflt st tr v kw c st',
  NoDup (map fst decl) -> update rnd p decl dflt st tr v kw = inr (c, st') ->
  exists info line,
    cache st' = cache st ++ [info] /\ csv st' = csv st ++ [line] /\
    map fst (r_user info) = map fst decl /\
    (forall n k, In (n, k) decl -> exists w, In (n, w) (r_user info) /\ kind_of w = k /\ kw_get kw n = Some w) /\
    parse_cells decl (c_user line) = Some (r_user info).
Proof. exact user_entries_typed. Qed.
Print Assumptions c15_user_entries_typed.

(* non-vacuity: a run with patience 5 and 2, burn-in, cool-down, a user entry, a restart, two rate
   reductions and an early stop at the last epoch meets every hypothesis above *)
Example c15_nonvacuous :
  let p := mkParams (Some 9) None 4 5 1 4 (1 # 2) 2 1 (1 # 100000000) 0 in
  let decl := [(0%nat, KInt)] in
  let kw := fun z => [(0%nat, VInt z)] in
  let steps := [mkStep false 1 8 (kw 5); mkStep false 2 8 (kw 6); mkStep true 3 8 (kw 7); mkStep false 4 8 (kw 8);
                mkStep true 5 8 (kw 9); mkStep false 6 8 (kw 10)] in
  wf p /\ NoDup (map fst decl) /\ plain decl (clear_restarts steps) /\
  quiet_before_last p (s_init p 1) (map s_val steps) = true /\
  all_rates_fixed fmt5 b64 p decl 1 (clear_restarts steps) = true /\
  map obs_core (fst (run fmt5 b64 p decl 1 (init_state p 1) steps))
  = [Some (true, true, 1, Some 1); Some (true, true, 1, Some 1); Some (true, true, 1 # 2, Some (1 # 2));
     Some (true, true, 1 # 2, Some (1 # 2)); Some (true, true, 1 # 2, Some (1 # 2));
     Some (false, false, 1 # 4, Some (1 # 4))]%Q.
Proof.
  cbv zeta. split; [unfold wf; cbn; lia|]. split; [repeat constructor; cbn; intuition|].
  split; [repeat constructor; cbn; eauto|].
  split; [vm_compute; reflexivity|]. split; vm_compute; reflexivity.
Qed.

(* ---- source tie ------------------------------------------------------------------------------------
   PV.Gen.C15Src is regenerated from /repo/src/pydrobert/torch/training.py on every run
   (harness/py2coq/translate.py; blocks of update_for_epoch chosen by statement markers, and the whole
   functions continue_training / get_last_epoch); PV.MiniPy.Interp is the semantics of the translated
   subset; SrcRun.ext15 gives meaning to self.get_info (= cache_hist.get), self.get_last_epoch (the
   translated method) and 10 ** reduce_lr_log10_epsilon (= rlr_eps); SrcRun.enc_* encode the model's
   parameters, rows, cache and optimizer as MiniPy values.  The theorems below are about those regenerated
   terms: interpreting the source text computes what Model.v computes, for all inputs. *)
From PV Require MiniPy.Syntax MiniPy.Interp Gen.C15Src C15.SrcRun C15.TieLib C15.TieRlr C15.Tie.

(* update_for_epoch with every control decision taken by the interpreted source (SrcRun.src_update: ufe_epoch,
   ufe_cont, ufe_info, [Model.check_kwargs/collect], ufe_lr_default, ufe_control) is Model.update; hypotheses:
   the cache holds at least the dummy epoch 0, and num_epochs is not 0 (TrainingStateParams bounds it to >= 1) *)
Theorem c15_source_update_is_model : forall rnd p decl dflt st train va kw,
  cache st <> [] -> SrcRun.num_ok p ->
  SrcRun.src_update rnd p decl dflt st train va kw = Some (update rnd p decl dflt st train va kw).
Proof. exact Tie.src_update_tie. Qed.
Print Assumptions c15_source_update_is_model.

(* whole runs (update_for_epoch + continue_training interpreted from the source, restarts by the model) *)
Theorem c15_source_run_is_model : forall rnd rd p decl dflt steps, SrcRun.num_ok p ->
  SrcRun.src_run rnd rd p decl dflt (init_state p dflt) steps
  = Some (run rnd rd p decl dflt (init_state p dflt) steps).
Proof. exact Tie.src_run_init_tie. Qed.
Print Assumptions c15_source_run_is_model.

(* the early-stopping statements (es_epoch = ..., es_info = self.get_info(es_epoch), the countdown `if`)
   compute Model.es_step; a missing reference row is a TypeError *)
Theorem c15_source_es_is_model : forall p c os dflt r u epoch va train cont,
  SrcRun.es_expected p c os dflt r u epoch va train cont
    (Interp.exec SrcRun.ext15 C15Src.ufe_es
       (SrcRun.st_of (SrcRun.vars_ctl (SrcRun.enc_self p c) (SrcRun.enc_opt os dflt) (SrcRun.enc_row_u r u)
                        epoch va train cont))).
Proof. exact TieLib.es_tie. Qed.
Print Assumptions c15_source_es_is_model.

(* the learning-rate statements compute Model.rlr_step, including the write of the new rate into every
   parameter group of the optimizer (any number of groups, any previous rates) *)
Theorem c15_source_rlr_is_model : forall p c os dflt r u epoch va train cont x y lr, r_lr r = Some lr ->
  SrcRun.rlr_expected p c os dflt r u epoch va cont lr
    (Interp.exec SrcRun.ext15 C15Src.ufe_rlr
       (SrcRun.st_of (SrcRun.vars_es (SrcRun.enc_self p c) (SrcRun.enc_opt os dflt) (SrcRun.enc_row_u r u)
                        epoch va train cont x y))).
Proof. exact TieRlr.rlr_tie. Qed.
Print Assumptions c15_source_rlr_is_model.

(* the whole control block (es_epoch = ... through info["train_met"] = train_met) computes the new row,
   the early-stopping part of `cont` and the optimizer rates of Model.update *)
Theorem c15_source_control_is_model : forall p c os dflt r u epoch va train cont lr, r_lr r = Some lr ->
  SrcRun.ctl_expected p c os dflt r u epoch va train cont lr
    (Interp.exec SrcRun.ext15 C15Src.ufe_control
       (SrcRun.st_of (SrcRun.vars_ctl (SrcRun.enc_self p c) (SrcRun.enc_opt os dflt) (SrcRun.enc_row_u r u)
                        epoch va train cont))).
Proof. exact Tie.control_tie. Qed.
Print Assumptions c15_source_control_is_model.

(* epoch = get_last_epoch() + 1; the budget part of `cont`; info = dict(self.get_info(epoch - 1, None)) *)
Theorem c15_source_head_is_model : forall p c optim train va, c <> [] -> SrcRun.num_ok p ->
  SrcRun.head_expected p c
    (Interp.run SrcRun.ext15 SrcRun.ufe_head (SrcRun.vars_entry (SrcRun.enc_self p c) optim train va)).
Proof. exact TieLib.head_tie. Qed.
Print Assumptions c15_source_head_is_model.

(* continue_training() *)
Theorem c15_source_continue_training_is_model : forall p st, cache st <> [] -> SrcRun.num_ok p ->
  SrcRun.src_continue p st = Some (continue_training p st).
Proof. exact TieLib.continue_tie. Qed.
Print Assumptions c15_source_continue_training_is_model.

(* get_last_epoch() *)
Theorem c15_source_get_last_epoch_is_model : forall ext p c, c <> [] ->
  Interp.run ext C15Src.tsc_get_last_epoch (SrcRun.self_vars (SrcRun.enc_self p c))
  = Interp.Ok (Syntax.VInt (last_epoch c)) (SrcRun.st_of (SrcRun.self_vars (SrcRun.enc_self p c))).
Proof. exact TieLib.last_epoch_tie. Qed.
Print Assumptions c15_source_get_last_epoch_is_model.

(* composed with c15_trace_follows_rules: a statement purely about the translated source *)
Theorem c15_source_trace_follows_rules : forall rnd rd p decl dflt steps,
  wf p -> SrcRun.num_ok p -> plain decl steps -> quiet_before_last p (s_init p dflt) (map s_val steps) = true ->
  exists os stf,
    SrcRun.src_run rnd rd p decl dflt (init_state p dflt) steps = Some (os, stf) /\
    map obs_core os = map rule_obs (fst (s_run p (s_init p dflt) (map s_val steps))).
Proof. exact Tie.source_trace_follows_rules. Qed.
Print Assumptions c15_source_trace_follows_rules.
