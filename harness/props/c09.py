"""C09 — variable-length padding / chunking / masked compaction / random shift:
correspondence between /repo's pad_variable, chunk_by_slices, pad_masked_sequence, RandomShift and
PV.C09.Model (evaluated by vm_compute), with PV.C09.Spec's boolean checkers as the judge.
Every case may name robustness variants (field "alts", table ALTS): the same logical call through another entry point
(functional / module / keywords / defaults omitted / torch.jit.script of the function and of the module), memory layout,
payload dtype, injective relabelling of the payload by non-finite bit patterns, a second call on the same tensors, one
storage for two parameters; each must reproduce the canonical outcome and leave the argument tensors untouched.
audit_cases(): streams for situations a generic draw meets too rarely (evaluation-mode shift, pads > T through every
entry point of the shared helper, right-dominant wholly-right slices, aliasing / single-row batches, seed-driven
eager-vs-scripted RandomShift judged by Spec.spec_shift_okb).
size_cases(): sequence / batch / trailing dimension and output width at the sizes where kernels and rewrites change algorithm
(17, 31..33, 63..65, 127..129, 255..257; 2^15 and 2^16 judged by the python oracle size_oracle alone)."""
import itertools
import json
from fractions import Fraction
from unittest import mock

import torch

from vlib import cb, cl, cln, cn, co, cp, cq, cz, coq_eval_bools, coq_eval_print, exc_kind, shrink, load_corpus

IMPORTS = ("From PV Require Import C09.Model C09.Spec.\n"
           "Local Close Scope Q_scope.\nLocal Open Scope nat_scope.\n")
MODES = ["constant", "reflect", "replicate"]
CMODE = {"constant": "Constant", "reflect": "Reflect", "replicate": "Replicate"}
ERR = {"ValueError": 1, "RuntimeError": 2, "NotImplementedError": 3}
THEOREMS = {
    "pad": ["c09_pad_variable_correct", "c09_pad_variable_illegal_raises"],
    "chunk": ["c09_chunk_by_slices_correct", "c09_chunk_lens_exact"],
    "masked": ["c09_pad_masked_sequence_correct"],
    "shift": ["c09_random_shift_bounds_and_embedding", "c09_random_shift_eval_identity"],
}


# ------------------------------------------------------------------------------------------
# case <-> tensors
# ------------------------------------------------------------------------------------------
# A case keeps x in batch-first normal form: x[n][t] = list of F ints (F = prod(rest), rest = the
# trailing dims).  dtype in {"f32", "f64", "i64"}.

def _F(case):
    f = 1
    for r in case["rest"]:
        f *= r
    return f


def _dtype(case):
    return {"f32": torch.float32, "f64": torch.float64, "i64": torch.long}[case.get("dtype", "f64")]


def _x_tensor(case):
    N, T, F = case["N"], case["T"], _F(case)
    flat = [v for row in case["x"] for cell in row for v in cell]
    return torch.tensor(flat, dtype=_dtype(case)).view(N, T, F).view((N, T) + tuple(case["rest"]))


def _cells(t, N, F):
    """(N, T', *rest) tensor -> N x T' x F ints (None if some value is not integral)."""
    if t.dim() < 2 or t.size(0) != N:
        return None
    t = t.detach().reshape(N, t.size(1), F).to(torch.float64)
    if not bool(torch.isfinite(t).all()) or bool((t != t.round()).any()):
        return None
    return [[[int(v) for v in cell] for cell in row] for row in t.tolist()]


def _code(e):
    if isinstance(e, NotImplementedError):
        return 3
    return ERR.get(exc_kind(e), 9)


ERRTXT = {6: "the call modified one of the caller's argument tensors in place", 7: "a non-integral / non-finite / unknown cell in the output",
          8: "wrong trailing shape", 9: "an exception that is neither ValueError, RuntimeError nor NotImplementedError"}

# ------------------------------------------------------------------------------------------
# robustness variants: run_impl(case, alt) is the same logical call through another entry point / memory layout / dtype /
# call history.  The property makes the result a function of the logical input, so every variant must give the canonical
# outcome of run_impl(case) (whole tensor, lengths, kind of exception) and leave the argument tensors untouched.
# ------------------------------------------------------------------------------------------
HOWS = ["functional", "module", "kw", "script_fn", "script_mod", "defaults"]
X_ALTS = ["x_tr", "x_off", "x_step", "x_expand"]
ALTS = {"pad": HOWS + X_ALTS + ["idx_views", "twice", "alias", "relabel", "i32", "f16"],
        "chunk": HOWS + X_ALTS + ["idx_views", "twice", "alias", "relabel", "i32", "f16", "lens_explicit"],
        "masked": HOWS + X_ALTS + ["idx_views", "twice", "relabel", "i32", "f16"],
        "shift": ["functional", "module", "kw", "module_kw"] + X_ALTS + ["idx_views", "twice", "relabel", "i32", "f16"]}
_SCRIPTED = {}
# bit patterns that arithmetic would not carry over: +-inf, NaNs, -0.0, a subnormal, +-max, 1e30
RELABEL_BITS = [2139095040, -8388608, 2143289344, 2143289345, -2147483648, 1, 2139095039, -8388609, 1900671690]


def _scripted(key, make):
    if key not in _SCRIPTED:
        _SCRIPTED[key] = torch.jit.script(make())
    return _SCRIPTED[key]


def _relayout(x, how):
    """the same logical tensor with another memory layout (junk in the cells that are skipped)"""
    if x is None or x.dim() == 0:
        return x
    junk = 7777
    if how == "expand":
        if x.shape[0] > 1 and bool((x == x[:1]).all()):
            return x[:1].expand(x.shape)
        how = "step"
    if how == "tr" and x.dim() >= 2:
        return x.transpose(0, -1).contiguous().transpose(0, -1)
    if how in ("step", "tr"):
        buf = torch.full(tuple(x.shape[:-1]) + (2 * x.shape[-1] + 1,), junk, dtype=x.dtype)
        buf[..., 1::2] = x
        return buf[..., 1::2]
    buf = torch.full((x.numel() + 3,), junk, dtype=x.dtype)
    buf[2:2 + x.numel()] = x.reshape(-1)
    return buf[2:2 + x.numel()].view(x.shape)


def _same(a, b):
    if a.dtype != b.dtype or tuple(a.shape) != tuple(b.shape):
        return False
    if a.dtype == torch.float32:
        return bool((a.contiguous().view(torch.int32) == b.contiguous().view(torch.int32)).all())
    return bool((a == b).all())


def _relabel(case, x):
    """injective relabelling of the payload by special float32 bit patterns -> (x', value', decode)"""
    vals = sorted(set(int(v) for v in x.reshape(-1).tolist()))
    vbits = [-2147483648, 2139095040, 2143289344][(case["value"] + case["N"] + case["T"]) % 3]   # -0.0, inf, nan
    pats = [b for b in RELABEL_BITS if b != vbits]
    k = sum(vals) % len(pats) if vals else 0
    pats = pats[k:] + pats[:k]
    enc = {}
    for i, v in enumerate(vals):
        enc[v] = pats[i] if i < len(pats) else torch.tensor([v + 0.5], dtype=torch.float32).view(torch.int32).item()
    value = torch.tensor([vbits], dtype=torch.int32).view(torch.float32).item()
    xb = torch.tensor([enc[int(v)] for v in x.reshape(-1).tolist()], dtype=torch.int32).view(torch.float32).view(x.shape)
    dec = {b: v for v, b in enc.items()}
    dec[vbits] = case["value"]
    return xb, value, dec


def _cells_of(case, t, N, dec):
    if dec is None:
        return _cells(t, N, _F(case))
    if t.dim() < 2 or t.size(0) != N or t.dtype != torch.float32:
        return None
    bits = t.detach().reshape(N, t.size(1), _F(case)).contiguous().view(torch.int32).tolist()
    try:
        return [[[dec[b] for b in cell] for cell in row] for row in bits]
    except KeyError:
        return None


def run_impl(case, alt=None):
    """-> ("ok", payload) | ("err", code).  payload: cells for pad; [cells, lens] otherwise.
    alt: None = the canonical call (positional, contiguous tensors), else one of ALTS[api]."""
    import pydrobert.torch.functional as PF
    import pydrobert.torch.modules as PM
    from pydrobert.torch import config as PC

    api = case["api"]
    N = case["N"]
    how = alt if alt in ("functional", "module", "kw", "script_fn", "script_mod", "defaults", "module_kw") else None
    if how is None:
        how = ("functional" if case.get("functional") else "module") if api == "shift" else ("module" if case.get("module") else "functional")
    try:
        x = _x_tensor(case)
        value, dec = float(case["value"]), None
        if alt == "relabel":
            x, value, dec = _relabel(case, x)
        elif alt == "i32":
            x = x.to(torch.int32)
        elif alt == "f16":
            x = x.to(torch.float16)
        elif alt in X_ALTS:
            x = _relayout(x, alt[2:])
        views = alt == "idx_views"
        mode = case.get("mode")
        if how == "defaults" and not (mode in (None, "constant") and value == PC.DEFT_PAD_VALUE and case.get("batch_first", False) is False
                                      and (api != "chunk" or case["lens"] is None)):
            how = "kw"
        if api == "pad":
            pad = torch.tensor([case["pl"], case["pr"]], dtype=torch.long).view(2, len(case["pl"]))
            lens = torch.tensor(case["lens"], dtype=torch.long)
            if views:
                pad, lens = pad.t().contiguous().t(), _relayout(lens, "step")
            if alt == "alias" and case["pl"] == case["lens"]:
                lens = pad[0]
            args = [x, lens, pad]

            def call():
                if how == "module":
                    return PM.PadVariable(mode, value)(x, lens, pad)
                if how == "script_mod":
                    return _scripted(("PadVariable", mode, value), lambda: PM.PadVariable(mode, value))(x, lens, pad)
                if how == "script_fn":
                    return _scripted("pad_variable", lambda: PF.pad_variable)(x, lens, pad, mode, value)
                if how == "kw":
                    return PF.pad_variable(x=x, lens=lens, pad=pad, mode=mode, value=value)
                if how == "defaults":
                    return PF.pad_variable(x, lens, pad)
                return PF.pad_variable(x, lens, pad, mode, value)
            paired = False
        elif api == "chunk":
            slices = torch.tensor(case["slices"], dtype=torch.long).view(len(case["slices"]), 2)
            lens = None if case["lens"] is None else torch.tensor(case["lens"], dtype=torch.long)
            if alt == "lens_explicit" and lens is None:
                lens = torch.full((N,), case["T"], dtype=torch.long)
            if views:
                # column views of a (2, N) buffer: slices[..., 0] is then already contiguous
                slices, lens = slices.t().contiguous().t(), _relayout(lens, "step")
            if alt == "alias" and lens is not None and [s[1] for s in case["slices"]] == case["lens"]:
                lens = slices[:, 1]
            args = [x, slices, lens]

            def call():
                if how == "module":
                    return PM.ChunkBySlices(mode, value)(x, slices, lens)
                if how == "script_mod":
                    return _scripted(("ChunkBySlices", mode, value), lambda: PM.ChunkBySlices(mode, value))(x, slices, lens)
                if how == "script_fn":
                    return _scripted("chunk_by_slices", lambda: PF.chunk_by_slices)(x, slices, lens, mode, value)
                if how == "kw":
                    return PF.chunk_by_slices(x=x, slices=slices, lens=lens, mode=mode, value=value)
                if how == "defaults":
                    return PF.chunk_by_slices(x, slices)
                return PF.chunk_by_slices(x, slices, lens, mode, value)
            paired = True
        elif api == "masked":
            mask = torch.tensor(case["mask"], dtype=torch.bool).view(N, case["T"])
            bf = case["batch_first"]
            if not bf:
                x, mask = x.transpose(0, 1), mask.transpose(0, 1)
                if not (alt in X_ALTS or views):
                    x, mask = x.contiguous(), mask.contiguous()    # variants: the transposed views themselves
            elif views:
                mask = _relayout(mask, "tr")
            args = [x, mask]

            def call():
                if how == "module":
                    return PM.PadMaskedSequence(bf, value)(x, mask)
                if how == "script_mod":
                    return _scripted(("PadMaskedSequence", bf, value), lambda: PM.PadMaskedSequence(bf, value))(x, mask)
                if how == "script_fn":
                    return _scripted("pad_masked_sequence", lambda: PF.pad_masked_sequence)(x, mask, bf, value)
                if how == "kw":
                    return PF.pad_masked_sequence(x=x, mask=mask, batch_first=bf, padding_value=value)
                if how == "defaults":
                    return PF.pad_masked_sequence(x, mask)
                return PF.pad_masked_sequence(x, mask, bf, value)
            paired = True
        elif api == "shift":
            lens = torch.tensor(case["lens"], dtype=torch.long)
            if views:
                lens = _relayout(lens, "step")
            p0, p1 = (float(Fraction(p)) for p in case["prop"])
            training = case["training"]
            if how in ("functional", "kw"):
                # the functional form has no constructor: RandomShift.__init__'s checks are replayed here so that
                # the outcome is the one the layer gives
                if p0 < 0 or p1 < 0:
                    raise ValueError("prop values must be non-negative")
                if mode == "reflect" and (p0 > 1.0 or p1 > 1.0):
                    raise NotImplementedError("reflect")
                if how == "kw":
                    layer = lambda a, b: PF.random_shift(input=a, in_lens=b, prop=(p0, p1), mode=mode, value=value, training=training)
                else:
                    layer = lambda a, b: PF.random_shift(a, b, (p0, p1), mode, value, training)
            else:
                prop = p0 if (p0 == p1 and case.get("single_prop")) else (p0, p1)
                mod = PM.RandomShift(prop, mode, value)
                mod.train(training)
                layer = (lambda a, b: mod(input=a, in_lens=b)) if how == "module_kw" else mod
            u = torch.tensor([[float(Fraction(v)) for v in case["u0"]],
                              [float(Fraction(v)) for v in case["u1"]]], dtype=torch.float32)

            def fake_rand_like(t, *a, **k):
                assert tuple(t.shape) == tuple(u.shape), "rand_like called on an unexpected shape"
                return u.to(t.dtype)
            args = [x, lens]

            def call():
                with mock.patch.object(torch, "rand_like", fake_rand_like):
                    return layer(x, lens)
            if "seed" in case:
                # the real generator: eager and scripted entry points must draw and pad alike
                if how == "script_mod":
                    smod = _scripted(("RandomShift", p0, p1, mode, value), lambda: PM.RandomShift((p0, p1), mode, value))
                    smod.train(training)
                elif how == "script_fn":
                    sfn = _scripted("random_shift", lambda: PF.random_shift)

                def call():
                    torch.manual_seed(case["seed"])
                    if how == "script_mod":
                        return smod(x, lens)
                    if how == "script_fn":
                        return sfn(x, lens, (p0, p1), mode, value, training)
                    return layer(x, lens)
            elif how in ("script_mod", "script_fn"):
                raise KeyError("scripted RandomShift needs a seed-driven case")
            paired = True
        else:
            raise KeyError(api)
        snap = [None if t is None else t.clone() for t in args]
        if alt == "twice":
            call()
        raw = call()
        if not all(t is None or _same(t, s_) for t, s_ in zip(args, snap)):
            return ("err", 6)
        out, ol = raw if paired else (raw, None)
        if api == "masked":
            if not case["batch_first"]:
                out = out.transpose(0, 1)
            if tuple(out.shape) != (N, case["T"]) + tuple(case["rest"]):
                return ("err", 8)
        elif tuple(out.shape[2:]) != tuple(case["rest"]):
            return ("err", 8)
        if out.dtype != x.dtype:
            return ("err", 8)
        c = _cells_of(case, out, N, dec)
        if c is None:
            return ("err", 7)
        return ("ok", [c, [int(v) for v in ol.tolist()]]) if paired else ("ok", c)
    except (ValueError, RuntimeError, NotImplementedError) as e:
        return ("err", _code(e))
    except Exception as e:  # anything else is not a legal outcome
        return ("err", 9)


# ------------------------------------------------------------------------------------------
# Coq terms
# ------------------------------------------------------------------------------------------

def _tensor(x):
    return cl([cl([cl([cz(v) for v in cell]) for cell in row]) for row in x])


def _args(case):
    """the argument list shared by check_* and spec_*"""
    api = case["api"]
    F, T = _F(case), case["T"]
    x = _tensor(case["x"])
    if api == "pad":
        return dict(T=cn(T), F=cn(F), v=cz(case["value"]), md=CMODE[case["mode"]], x=x,
                    lens=cln(case["lens"]), pl=cln(case["pl"]), pr=cln(case["pr"]))
    if api == "chunk":
        return dict(T=cn(T), F=cn(F), v=cz(case["value"]), md=CMODE[case["mode"]], x=x,
                    slices=cl([cp(cz(s), cz(e)) for s, e in case["slices"]]),
                    lens=co(None if case["lens"] is None else cln(case["lens"])))
    if api == "masked":
        return dict(N=cn(case["N"]), T=cn(T), F=cn(F), v=cz(case["value"]), x=x,
                    mask=cl([cl([cb(b) for b in row]) for row in case["mask"]]))
    if api == "shift":
        return dict(T=cn(T), F=cn(F), v=cz(case["value"]), md=CMODE[case["mode"]], x=x,
                    p0=cq(Fraction(case["prop"][0])), p1=cq(Fraction(case["prop"][1])),
                    tr=cb(case["training"]), lens=cln(case["lens"]),
                    u0=cl([cq(Fraction(v)) for v in case["u0"]]), u1=cl([cq(Fraction(v)) for v in case["u1"]]))
    raise KeyError(api)


def _impl_term(case, out, paired):
    if out[0] != "ok":
        return cn(min(out[1], 9)), "None"
    if paired:
        return cn(0), co(cp(_tensor(out[1][0]), cln(out[1][1])))
    return cn(0), co(_tensor(out[1]))


def _transpose(x):
    return [list(col) for col in zip(*x)] if x else []


def model_term(case, out):
    a = _args(case)
    api = case["api"]
    if api == "pad":
        code, impl = _impl_term(case, out, False)
        return f"check_pad {a['T']} {a['F']} {a['v']} {a['md']} {a['x']} {a['lens']} {a['pl']} {a['pr']} {code} {impl}"
    if api == "chunk":
        code, impl = _impl_term(case, out, True)
        return f"check_chunk {a['T']} {a['F']} {a['v']} {a['md']} {a['x']} {a['slices']} {a['lens']} {code} {impl}"
    if api == "masked":
        # the model is given the tensors in the layout the implementation saw
        bf = case["batch_first"]
        x, m = case["x"], case["mask"]
        o = out
        if not bf:
            T, N = case["T"], case["N"]
            x = _transpose(x) if N else [[] for _ in range(T)]
            m = _transpose(m) if N else [[] for _ in range(T)]
            if out[0] == "ok":
                oc = _transpose(out[1][0]) if N else [[] for _ in range(T)]
                o = ("ok", [oc, out[1][1]])
        code, impl = _impl_term(case, o, True)
        mt = cl([cl([cb(b) for b in row]) for row in m])
        return f"check_masked {a['N']} {a['T']} {a['F']} {a['v']} {cb(bf)} {_tensor(x)} {mt} {code} {impl}"
    if api == "shift":
        code, impl = _impl_term(case, out, True)
        return (f"check_shift {a['T']} {a['F']} {a['v']} {a['md']} {a['p0']} {a['p1']} {a['tr']} {a['x']} "
                f"{a['lens']} {a['u0']} {a['u1']} {code} {impl}")
    raise KeyError(api)


def spec_term(case, out):
    a = _args(case)
    api = case["api"]
    if out[0] == "err" and out[1] >= 6:
        return "false"
    if api == "pad":
        _, impl = _impl_term(case, out, False)
        return f"spec_pad_okb {a['F']} {a['v']} {a['md']} {a['x']} {a['lens']} {a['pl']} {a['pr']} {impl}"
    if api == "chunk":
        _, impl = _impl_term(case, out, True)
        return f"spec_chunk_okb {a['T']} {a['F']} {a['v']} {a['md']} {a['x']} {a['slices']} {a['lens']} {impl}"
    if api == "masked":
        _, impl = _impl_term(case, out, True)
        return f"spec_masked_okb {a['F']} {a['v']} {a['x']} {a['mask']} {impl}"
    if api == "shift":
        _, impl = _impl_term(case, out, True)
        return f"spec_shift_okb {a['md']} {a['p0']} {a['p1']} {a['tr']} {a['x']} {a['lens']} {impl}"
    raise KeyError(api)


def model_show(case):
    a = _args(case)
    api = case["api"]
    if api == "pad":
        return f"pad_variable {a['T']} [] (fillc {a['F']} {a['v']}) {a['md']} {a['x']} {a['lens']} {a['pl']} {a['pr']}"
    if api == "chunk":
        return f"chunk_by_slices {a['T']} [] (fillc {a['F']} {a['v']}) {a['md']} {a['x']} {a['slices']} {a['lens']}"
    if api == "masked":
        return f"pad_masked_sequence {a['N']} {a['T']} [] (fillc {a['F']} {a['v']}) true {a['x']} {a['mask']}"
    return (f"random_shift {a['T']} [] (fillc {a['F']} {a['v']}) {a['md']} {a['p0']} {a['p1']} {a['tr']} {a['x']} "
            f"{a['lens']} {a['u0']} {a['u1']}")


# ------------------------------------------------------------------------------------------
# generators
# ------------------------------------------------------------------------------------------

def _mk_x(N, T, F, salt=0):
    """distinct integer payload: a misplaced cell is always visible"""
    return [[[100 * (n + 1) + 10 * (t + 1) + f + salt for f in range(F)] for t in range(T)] for n in range(N)]


def _rest_for(F, rng=None):
    if F == 1:
        return [] if (rng is None or rng.random() < 0.7) else [1]
    if F == 4 and rng is not None and rng.random() < 0.5:
        return [2, 2]
    return [F]


def _base(api, N, T, rest, value=-7, dtype="f64", salt=0):
    F = 1
    for r in rest:
        F *= r
    return dict(api=api, N=N, T=T, rest=list(rest), x=_mk_x(N, T, F, salt), value=value, dtype=dtype)


def pad_case(N, T, rest, lens, pl, pr, mode, **kw):
    c = _base("pad", N, T, rest, **kw)
    c.update(lens=list(lens), pl=list(pl), pr=list(pr), mode=mode)
    return c


def chunk_case(N, T, rest, lens, slices, mode, **kw):
    c = _base("chunk", N, T, rest, **kw)
    c.update(lens=None if lens is None else list(lens), slices=[list(s) for s in slices], mode=mode)
    return c


def masked_case(N, T, rest, mask, batch_first, **kw):
    c = _base("masked", N, T, rest, **kw)
    c.update(mask=[[bool(b) for b in row] for row in mask], batch_first=bool(batch_first))
    return c


def shift_case(N, T, rest, lens, mode, prop, training, u0, u1, **kw):
    c = _base("shift", N, T, rest, **kw)
    c.update(lens=list(lens), mode=mode, prop=[str(Fraction(p)) for p in prop], training=bool(training),
             u0=[str(Fraction(v)) for v in u0], u1=[str(Fraction(v)) for v in u1])
    return c


def exhaustive_cases(tier):
    """Small scope.  Row 0 sweeps the scope; a second (and third) fixed row makes the batch ragged,
    so the flat buffers of row 0 have a successor that shows any count mismatch."""
    cases = []
    thorough = tier == "thorough"
    Ts = range(0, 5) if thorough else range(0, 4)
    prange = range(0, 10) if thorough else [0, 1, 2, 3, 5, 8]
    # pad_variable: one swept row + companions
    for mode in MODES:
        for T in Ts:
            for ln in range(0, T + 1):
                for l, r in itertools.product(prange, prange):
                    if not thorough and (l + r + ln + T) % 2 and l * r > 6:
                        continue
                    comp_len = max(1, T - 1) if T else 0
                    comp = (comp_len, 1 if comp_len > 1 else 0, 0)
                    for order in ((0, 1), (1, 0)) if thorough else (((l + r) % 2, 1 - (l + r) % 2),):
                        rows = [(ln, l, r), comp]
                        rows = [rows[order[0]], rows[order[1]]]
                        c = pad_case(2, T, [], [q[0] for q in rows], [q[1] for q in rows], [q[2] for q in rows], mode)
                        c["stream"] = "exhaustive"
                        cases.append(c)
    # chunk_by_slices: slices in -5..9
    srange = range(-5, 10) if thorough else [-5, -3, -2, -1, 0, 1, 2, 3, 4, 6, 9]
    for mode in MODES:
        for T in Ts:
            for ln in range(0, T + 1):
                for s, e in itertools.product(srange, srange):
                    if not thorough and (s * 7 + e * 3 + ln + T + len(mode)) % 2 == 0 and abs(s - e) > 2:
                        continue
                    comp_len = max(1, T - 1) if T else 0
                    comp = (comp_len, (-1 if mode != "reflect" or comp_len > 1 else 0), comp_len + (1 if comp_len > 1 or mode != "reflect" else 0))
                    first = (s + e) % 2 == 0
                    rows = [(ln, s, e), comp] if first else [comp, (ln, s, e)]
                    use_none = (ln == T and comp_len == T)
                    c = chunk_case(2, T, [], None if use_none else [q[0] for q in rows], [(q[1], q[2]) for q in rows], mode)
                    c["stream"] = "exhaustive"
                    cases.append(c)
    # pad_masked_sequence: all masks for N<=2, T<=3 (thorough: N<=3,T<=3 / N=2,T=4)
    shapes = [(1, 0), (1, 1), (1, 2), (1, 3), (2, 1), (2, 2), (2, 3)] + ([(3, 2), (2, 4), (3, 3)] if thorough else [])
    for N, T in shapes:
        for bits in itertools.product([0, 1], repeat=N * T):
            mask = [list(bits[n * T:(n + 1) * T]) for n in range(N)]
            for bf in (True, False):
                if not thorough and N * T >= 6 and (sum(bits) + bf) % 2:
                    continue
                c = masked_case(N, T, [], mask, bf)
                c["stream"] = "exhaustive"
                cases.append(c)
    # random shift: all dyadic draws u in {0, 1/4, 1/2, 3/4, 1023/1024} x props
    us = ["0", "1/4", "1/2", "3/4", "1023/1024"]
    props = ["0", "1/2", "1", "3/2"] if thorough else ["0", "1/2", "1", "3/2"]
    for mode in MODES:
        for T in (1, 3, 4):
            for ln in range(0, T + 1):
                for p0, p1 in itertools.product(props, props):
                    for u0, u1 in itertools.product(us, us):
                        if not thorough and (us.index(u0) * 3 + us.index(u1) + ln + props.index(p0) * 5 + props.index(p1) + T) % 8:
                            continue
                        c = shift_case(2, T, [], [ln, T], mode, (p0, p1), True, [u0, u1], [u1, u0])
                        if (us.index(u0) + props.index(p1) + T) % 2:
                            c["functional"] = True
                        elif p0 == p1 and us.index(u1) % 2:
                            c["single_prop"] = True
                        c["stream"] = "exhaustive"
                        cases.append(c)
    return cases


def corner_cases():
    """hand-picked shapes the enumeration does not have: N = 0, T = 0, trailing dims, modules,
    dtypes, wrong shapes, evaluation mode"""
    cs = []
    for mode in MODES:
        cs.append(pad_case(0, 3, [], [], [], [], mode))
        cs.append(pad_case(1, 0, [], [0], [2], [1], mode))
        cs.append(pad_case(2, 3, [2], [3, 2], [1, 0], [0, 1], mode, dtype="f32"))
        cs.append(pad_case(2, 3, [2, 2], [3, 2], [1, 0], [0, 1], mode))
        cs.append(pad_case(2, 3, [], [3, 2], [4, 0], [0, 7], mode, dtype="i64", value=5))
        cs.append(dict(pad_case(2, 3, [], [3, 2], [1, 1], [1, 0], mode), module=True))
        cs.append(pad_case(2, 3, [], [3], [1, 1], [1, 0], mode))          # lens of the wrong shape
        cs.append(pad_case(2, 3, [], [3, 2], [1], [1], mode))             # pad of the wrong shape
        cs.append(pad_case(3, 1, [], [1, 1, 1], [3, 0, 2], [0, 4, 2], mode))   # T = 1, pads > T
        cs.append(chunk_case(0, 3, [], [], [], mode))
        cs.append(chunk_case(2, 0, [], [0, 0], [(0, 0), (2, 1)], mode))
        cs.append(chunk_case(2, 4, [3], [4, 2], [(-1, 2), (1, 6)], mode, dtype="f32"))
        cs.append(chunk_case(2, 4, [2, 2], None, [(-1, 2), (1, 5)], mode))
        cs.append(dict(chunk_case(2, 4, [], [4, 3], [(-2, 2), (3, 5)], mode), module=True))
        cs.append(chunk_case(2, 4, [], [4], [(-2, 2), (3, 5)], mode))    # lens of the wrong shape
        cs.append(chunk_case(3, 4, [], [4, 4, 4], [(5, 7), (6, 7), (4, 7)], mode))  # wholly right
        cs.append(chunk_case(3, 5, [], [5, 4, 5], [(-4, -1), (-3, -2), (-2, 0)], mode))  # wholly left
        cs.append(chunk_case(2, 5, [], [5, 3], [(6, 8), (1, 2)], mode))
        cs.append(shift_case(2, 4, [2], [4, 3], mode, ("1/2", "1"), False, ["1/2", "1/2"], ["1/2", "1/2"]))
        cs.append(shift_case(2, 4, [], [4, 3], mode, ("3/4", "3/4"), True, ["1/2", "3/4"], ["1023/1024", "0"]))
        cs.append(dict(shift_case(2, 4, [], [4, 2], mode, ("1/2", "1/2"), True, ["3/4", "3/4"], ["1/2", "1/4"]), functional=True))
        cs.append(shift_case(2, 4, [], [4], mode, ("1/2", "1/2"), True, ["3/4", "3/4"], ["1/2", "1/4"]))  # lens shape
        cs.append(shift_case(1, 4, [], [4], mode, ("2", "5/2"), True, ["3/4"], ["1/2"]))
        for pair in (("-1/2", "1/2"), ("1/2", "-1/4")):   # RandomShift.__init__: ValueError
            cs.append(shift_case(1, 4, [], [4], mode, pair, True, ["3/4"], ["1/2"]))
        for pair in (("0", "1/2"), ("1/2", "0"), ("1/4", "1"), ("1", "1/4")):
            for fn in (False, True):
                c = shift_case(2, 4, [], [4, 4], mode, pair, True, ["1023/1024", "3/4"], ["1023/1024", "3/4"])
                if fn:
                    c["functional"] = True
                cs.append(c)
    for bf in (True, False):
        cs.append(masked_case(0, 3, [], [], bf))
        cs.append(masked_case(2, 0, [], [[], []], bf))
        cs.append(masked_case(2, 3, [2], [[1, 0, 1], [0, 1, 1]], bf, dtype="f32"))
        cs.append(masked_case(2, 3, [2, 2], [[1, 0, 1], [0, 0, 0]], bf))
        cs.append(dict(masked_case(3, 2, [], [[1, 0], [0, 1], [1, 1]], bf, dtype="i64", value=5), module=True))
    for c in cs:
        c["stream"] = "corners"
    return cs


def random_cases(rng, n):
    cases = []
    for _ in range(n):
        api = rng.choice(["pad", "pad", "chunk", "chunk", "chunk", "masked", "shift"])
        N = rng.choice([1, 2, 2, 3, 3, 4])
        T = rng.choice([1, 2, 3, 4, 5, 6, 8])
        F = rng.choice([1, 1, 1, 2, 3, 4])
        rest = _rest_for(F, rng)
        dtype = rng.choice(["f64", "f64", "f32", "i64"])
        value = rng.choice([-7, 0, 5])
        mode = rng.choice(MODES)
        kw = dict(value=value, dtype=dtype, salt=rng.choice([0, 1000]))
        lo = 0 if mode == "constant" else 1
        lens = [rng.choice([lo, T, T, rng.randint(lo, T)]) for _ in range(N)]
        if rng.random() < 0.05:
            lens[rng.randrange(N)] = 0  # also illegal rows for reflect / replicate
        if api == "pad":
            pl, pr = [], []
            for ln in lens:
                for side in (pl, pr):
                    if mode == "reflect" and rng.random() < 0.93:
                        side.append(rng.randint(0, max(ln - 1, 0)))
                    else:
                        side.append(rng.choice([0, 1, rng.randint(0, T), rng.randint(0, 3 * T)]))
            c = pad_case(N, T, rest, lens, pl, pr, mode, **kw)
        elif api == "chunk":
            slices = []
            for ln in lens:
                kind = rng.random()
                if mode == "reflect" and rng.random() < 0.93:
                    m = max(ln - 1, 0)
                    if kind < 0.15:      # wholly in the right padding
                        s = rng.randint(ln, ln + m)
                        e = rng.randint(s, ln + m)
                    elif kind < 0.3:     # wholly in the left padding
                        s = rng.randint(-m, 0)
                        e = rng.randint(s, 0)
                    else:
                        s = rng.randint(-m, ln)
                        e = rng.randint(-m - 1, ln + m)
                else:
                    s = rng.randint(-T - 2, 2 * T + 2)
                    e = rng.randint(-T - 2, 3 * T + 2)
                    if kind < 0.1:
                        e = s
                slices.append((s, e))
            use_none = all(ln == T for ln in lens) and rng.random() < 0.5
            c = chunk_case(N, T, rest, None if use_none else lens, slices, mode, **kw)
        elif api == "masked":
            T2 = rng.choice([0, 1, 2, 3, 4, 5, 6])
            dens = rng.choice([0.0, 0.3, 0.5, 0.8, 1.0])
            mask = [[rng.random() < dens for _ in range(T2)] for _ in range(N)]
            c = masked_case(N, T2, rest, mask, rng.random() < 0.5, **kw)
        else:
            den = rng.choice([2, 4, 8])
            hi = den if mode == "reflect" else 3 * den
            prop = (Fraction(rng.randint(0, hi), den), Fraction(rng.randint(0, hi), den))
            if rng.random() < 0.2:
                prop = (prop[0], prop[0])
            us = lambda: [rng.choice([Fraction(0), Fraction(1023, 1024), Fraction(rng.randint(0, 1023), 1024),
                                      Fraction(rng.randint(0, 7), 8)]) for _ in range(N)]
            c = shift_case(N, T, rest, lens, mode, prop, rng.random() < 0.85, us(), us(), **kw)
            if rng.random() < 0.4:
                c["functional"] = True
            elif prop[0] == prop[1] and rng.random() < 0.5:
                c["single_prop"] = True
        if api != "shift" and rng.random() < 0.15:
            c["module"] = True
        c["alts"] = rng.sample(ALTS[api], 2)
        c["stream"] = "random"
        cases.append(c)
    return cases


def _ragged_lens(rng, N, T, lo):
    return [rng.choice([lo, T, T, rng.randint(lo, T)]) for _ in range(N)]


def audit_cases(rng, k=1):
    """streams aimed at the situations a generic draw meets too rarely (see notes/C09_report.md, Robustness audit)"""
    cases = []

    def add(c, stream, nalts=2, force=()):
        pool = [a for a in ALTS[c["api"]] if a not in force]
        c["alts"] = list(force) + rng.sample(pool, nalts)
        c["audit"] = stream
        if rng.random() < 0.2:
            c["module"] = True
        c["stream"] = stream
        cases.append(c)

    def kw():
        return dict(value=rng.choice([-7, 0, 5]), dtype=rng.choice(["f64", "f32", "i64"]), salt=rng.choice([0, 1000]))
    # (1) evaluation mode of the shift layer: over-allocated T, payload beyond the lengths, empty sequences, any mode / proportion
    for _ in range(60 * k):
        N, T = rng.choice([1, 2, 3, 4]), rng.choice([1, 2, 3, 5, 8])
        mode = rng.choice(MODES)
        lens = [rng.choice([0, rng.randint(0, T), max(T - 1, 0), T]) for _ in range(N)]
        if rng.random() < 0.5:
            lens = [min(ln, T - 1) for ln in lens]          # nobody fills the tensor
        if rng.random() < 0.5:
            lens[rng.randrange(N)] = 0
        hi = 8 if mode == "reflect" else 24
        prop = (Fraction(rng.randint(0, hi), 8), Fraction(rng.randint(0, hi), 8))
        us = lambda: [Fraction(rng.randint(0, 1023), 1024) for _ in range(N)]
        c = shift_case(N, T, _rest_for(rng.choice([1, 1, 2, 4]), rng), lens, mode, prop, False, us(), us(), **kw())
        if rng.random() < 0.5:
            c["functional"] = True
        add(c, "audit-shift-eval", 2)
    # (2) pads larger than T through every entry point that shares the padding helper
    for _ in range(105 * k):
        N, T = rng.choice([1, 2, 3]), rng.choice([1, 1, 2, 3, 4])
        mode = rng.choice(["replicate", "replicate", "replicate", "constant"])
        lo = 1 if mode == "replicate" else 0
        lens = _ragged_lens(rng, N, T, lo)
        rest = _rest_for(rng.choice([1, 1, 2, 4]), rng)
        big = lambda: rng.choice([T + 1, T + 2, 2 * T + 1, rng.randint(T + 1, 4 * T + 3), rng.choice([40, 130, 257])])
        small = lambda: rng.choice([0, 0, 1, rng.randint(0, T)])
        api = rng.choice(["pad", "chunk", "shift"])
        if api == "pad":
            pl = [big() if rng.random() < 0.5 else small() for _ in range(N)]
            pr = [big() if rng.random() < 0.5 else small() for _ in range(N)]
            if all(p <= T for p in pl + pr):
                (pl if rng.random() < 0.5 else pr)[rng.randrange(N)] = big()
            c = pad_case(N, T, rest, lens, pl, pr, mode, **kw())
        elif api == "chunk":
            slices = []
            for ln in lens:
                r = rng.random()
                if r < 0.35:
                    slices.append((-big(), rng.randint(-2, ln + 2)))
                elif r < 0.7:
                    slices.append((rng.randint(-2, ln), ln + big()))
                elif r < 0.8:
                    slices.append((-big(), ln + big()))
                else:
                    slices.append((rng.randint(-2, ln + 1), rng.randint(-2, ln + 2)))
            c = chunk_case(N, T, rest, None if all(ln == T for ln in lens) and rng.random() < 0.5 else lens, slices, mode, **kw())
        else:
            lens = [T if rng.random() < 0.7 else ln for ln in lens]
            prop = (Fraction(rng.randint(8, 24), 8), Fraction(rng.randint(8, 24), 8))
            us = lambda: [rng.choice([Fraction(1023, 1024), Fraction(7, 8), Fraction(3, 4), Fraction(rng.randint(512, 1023), 1024)]) for _ in range(N)]
            c = shift_case(N, T, rest, lens, mode, prop, True, us(), us(), **kw())
            if rng.random() < 0.5:
                c["functional"] = True
        add(c, "audit-pad-gt-T", 2)
    # (3) a slice lying wholly to the right whose right padding exceeds every chunk length and left pad of the batch,
    #     followed by rows that need right padding as well
    for _ in range(80 * k):
        N, T = rng.choice([2, 3, 4]), rng.choice([3, 4, 5, 6])
        mode = rng.choice(MODES)
        lens = [rng.randint(3, T) for _ in range(N)]
        w = rng.choice([1, 1, 2])                           # longest chunk / left pad of the batch
        far = rng.randrange(N - 1)
        slices = []
        for n, ln in enumerate(lens):
            if n == far:
                if mode == "reflect":
                    e = rng.randint(ln + w + 1, 2 * ln - 1) if ln + w + 1 <= 2 * ln - 1 else 2 * ln - 1
                else:
                    e = ln + w + rng.randint(1, 6)
                slices.append((e - rng.randint(0, w), e))
            elif n > far:
                # needs right padding, at most w of it, chunk no longer than w
                e = ln + rng.randint(1, w)
                slices.append((e - rng.randint(1, w), e))
            else:
                s0 = rng.randint(-w, ln - 1)
                slices.append((s0, s0 + rng.randint(0, w)))
        c = chunk_case(N, T, _rest_for(rng.choice([1, 1, 2]), rng), lens, slices, mode, **kw())
        add(c, "audit-chunk-right-dominant", 1)
    # (4) argument aliasing and call history: pad amounts equal to the lengths (pad[0] passed as lens), slice ends equal to the
    #     lengths (a column of slices passed as lens), single-row batches whose slice columns are already contiguous
    for _ in range(60 * k):
        N, T = rng.choice([1, 1, 2, 3]), rng.choice([1, 2, 3, 4, 6])
        mode = rng.choice(["constant", "replicate", "replicate"])
        lens = _ragged_lens(rng, N, T, 1)
        if rng.random() < 0.4:
            c = pad_case(N, T, [], lens, list(lens), [rng.randint(0, T + 2) for _ in range(N)], mode, **kw())
        else:
            mode = rng.choice(MODES)
            slices = [(rng.randint(-(ln - 1), ln - 1) if rng.random() < 0.8 else 0, ln) for ln in lens]
            c = chunk_case(N, T, [], lens, slices, mode, **kw())
        add(c, "audit-alias-history", 1, force=("alias", "twice", "idx_views"))
    # (5) the real generator: eager and scripted layer / function under the same seed; judged by Spec.spec_shift_okb
    for _ in range(40 * k):
        N, T = rng.choice([1, 2, 3]), rng.choice([1, 2, 4, 6, 8])
        mode = rng.choice(MODES)
        lo = 0 if mode == "constant" else 1
        lens = _ragged_lens(rng, N, T, lo)
        den = 4
        hi = den if mode == "reflect" else 3 * den
        prop = rng.choice([(Fraction(rng.randint(0, hi), den), Fraction(rng.randint(0, hi), den)), (Fraction(1), Fraction(1)), (Fraction(1, 2), Fraction(0))])
        c = shift_case(N, T, _rest_for(rng.choice([1, 1, 2]), rng), lens, mode, prop, rng.random() < 0.85, ["0"] * N, ["0"] * N, **kw())
        c["seed"] = rng.randint(0, 2 ** 31 - 1)
        c["functional"] = rng.random() < 0.5
        c["alts"] = ["script_mod", "script_fn"] + rng.sample(["twice", "x_tr", "x_step", "module", "functional", "kw"], 1)
        c["stream"] = "audit-shift-seed"
        cases.append(c)
    return cases


# ------------------------------------------------------------------------------------------
# size thresholds / algorithm regimes (notes/AUDIT_GUIDE.md, row of that name; notes/C09_report.md "Round-4 misses").
# Library kernels and tempting rewrites change algorithm with the size of a dimension (sort: stable only up to 16 elements;
# blocked reductions / vectorised loops: 32, 64, 128; index dtypes: 2^8, 2^15, 2^16), so every entry point gets cases whose
# sequence dimension - and, separately, batch dimension, trailing dimension, both at once, and the OUTPUT width T' - sits at
# and next to those sizes, with a globally distinct integer payload (a permuted / dropped / duplicated cell is visible),
# at least one row that FILLS the dimension and rows with many kept elements / the largest legal pads.  Judged by the model
# (same Coq check term; the model is linear in the number of cells: about 1 s per 1000 cells) and, in addition, by
# size_oracle: a plain python reading of the per-row definition in the property text, which is the only judge of the
# cases the model cannot afford (sequence dimension next to 2^15 and 2^16).
# ------------------------------------------------------------------------------------------
SIZES = [17, 31, 32, 33, 63, 64, 65, 127, 128, 129, 255, 256, 257]
SIZE_MARKS = [15, 16] + SIZES
HUGE_SIZES = [32767, 32768, 32769, 65535, 65536, 65537]
MODEL_CELLS_CAP = 6000          # input cells above which a case is judged by size_oracle alone


def _mk_x_distinct(N, T, F, salt=0):
    """payload distinct over the WHOLE tensor (and from every fill value): 11, 12, 13, ... in row-major order"""
    return [[[(n * T + t) * F + f + 11 + salt for f in range(F)] for t in range(T)] for n in range(N)]


def _size_lens(rng, N, T, lo):
    """ragged lengths, one row fills the dimension, others next to the marks below T"""
    marks = [m for m in SIZE_MARKS if lo <= m <= T]
    lens = []
    for _ in range(N):
        opts = [T, T, max(T - 1, lo), max(T // 2, lo), rng.randint(lo, T), lo]
        if marks:
            opts += [rng.choice(marks), marks[0]]
        lens.append(rng.choice(opts))
    lens[rng.randrange(N)] = T
    return lens


def _size_pad(rng, mode, ln, pmax):
    """a legal pad amount for a row of length ln: none, one, the largest legal one, a mark, anything"""
    hi = ln - 1 if mode == "reflect" else pmax
    if hi <= 0:
        return 0
    opts = [0, 1, hi, hi, rng.randint(0, hi), rng.randint(0, hi)]
    marks = [m for m in SIZE_MARKS if m <= hi]
    if marks:
        opts += [rng.choice(marks), marks[-1]]
    return rng.choice(opts)


def _size_slice(rng, mode, ln, pmax):
    """a legal slice for a row of length ln (every kind the quantifier names), pads as _size_pad"""
    if ln == 0:
        return (0, 0) if mode != "constant" or rng.random() < 0.5 else (-_size_pad(rng, mode, 0, pmax), _size_pad(rng, mode, 0, pmax))
    lp, rp = _size_pad(rng, mode, ln, pmax), _size_pad(rng, mode, ln, pmax)
    kind = rng.random()
    if kind < 0.3:                       # the whole sequence with both paddings
        return (-lp, ln + rp)
    if kind < 0.45:                      # wholly in the right padding
        s = ln + rng.randint(0, rp)
        return (s, ln + rp) if s < ln + rp else (ln, ln + rp)
    if kind < 0.55:                      # wholly in the left padding
        return (-lp, -rng.randint(0, lp))
    if kind < 0.7:                       # from inside to the right / from the left to inside
        return (rng.randint(0, ln), ln + rp) if rng.random() < 0.5 else (-lp, rng.randint(0, ln))
    if kind < 0.8:                       # chunk length at a mark
        marks = [m for m in SIZE_MARKS if m <= lp + ln + rp]
        if marks:
            w = rng.choice(marks)
            s = rng.randint(-lp, ln + rp - w)
            return (s, s + w)
    if kind < 0.88:                      # empty / inverted
        s = rng.randint(-lp, ln + rp)
        return (s, s - rng.choice([0, 0, 1, ln]))
    s = rng.randint(0, ln)
    return (s, rng.randint(s, ln))       # inside


def _size_mask_row(rng, T, kind):
    if kind == "full":
        return [True] * T
    if kind == "none":
        return [False] * T
    if kind == "alternate":
        ph = rng.randrange(2)
        return [(t + ph) % 2 == 0 for t in range(T)]
    if kind == "ends":
        return [t in (0, T - 1) for t in range(T)]
    if kind == "all-but-one":
        j = rng.randrange(T) if T else 0
        return [t != j for t in range(T)]
    if kind == "head":                   # the first k kept, k next to a mark
        k = rng.choice([m for m in SIZE_MARKS if m <= T] or [T])
        return [t < k for t in range(T)]
    if kind == "tail":
        k = rng.choice([m for m in SIZE_MARKS if m <= T] or [T])
        return [t >= T - k for t in range(T)]
    dens = {"dense": 0.9, "half": 0.5, "sparse": 0.1}[kind]
    return [rng.random() < dens for _ in range(T)]


MASK_KINDS = ["full", "none", "alternate", "ends", "all-but-one", "head", "tail", "dense", "dense", "half", "sparse"]
SIZE_ENTRY = {"pad": ["kw", "script_fn", "script_mod"], "chunk": ["kw", "script_fn", "script_mod", "lens_explicit"],
              "masked": ["kw", "script_fn", "script_mod"], "shift": ["kw", "module_kw"]}


def _size_case(rng, api, dim, S, S2=None, slim=False):
    """one legal case of `api` whose dimension `dim` (T: sequence, N: batch, F: trailing, NT: both, Tp: output width) is S"""
    mode = rng.choice(MODES)
    lo = 0 if mode == "constant" else 1
    F = 1
    if dim == "T":
        N, T, F = rng.choice([1, 2] if slim else [1, 2, 3]), S, 1 if slim else rng.choice([1, 1, 1, 2])
        pmax = rng.choice([2, T, T + 1, min(2 * T, 257)])
    elif dim == "N":
        N, T, F = S, rng.choice([1, 2, 3] if S < 200 else [1, 2]), rng.choice([1, 1, 2] if S < 100 else [1])
        pmax = 2
    elif dim == "F":
        N, T, F = rng.choice([1, 2]), rng.choice([2, 3]), S
        pmax = 2
    elif dim == "NT":
        N, T = S, S2
        pmax = rng.choice([1, 3, T])
    elif dim == "Tp":                    # a short input whose padded row / chunk is S wide
        N, T = rng.choice([1, 2, 3]), (rng.randint((S + 2) // 3 + 1, S - 2) if mode == "reflect" else rng.randint(1, min(S - 2, 40)))
        if api == "shift":               # prop 1 and a variate that makes the drawn amount exactly S - T
            T = rng.randint(S // 2 + 1, S - 1)
        pmax = S - T
    else:
        raise KeyError(dim)
    if dim == "F":
        rest = rng.choice([[F], [F, 1], [1, F]] + ([[2, F // 2]] if F % 2 == 0 else []))
    else:
        rest = _rest_for(F, rng)
    kw = dict(value=rng.choice([-7, 0, 5]), dtype=rng.choice(["f64", "f32", "i64"]))
    lens = _size_lens(rng, N, T, lo)
    if api == "pad":
        pl = [_size_pad(rng, mode, ln, pmax) for ln in lens]
        pr = [_size_pad(rng, mode, ln, pmax) for ln in lens]
        if dim == "Tp":                  # one row is exactly S wide, nobody is wider
            n = lens.index(T)
            pl[n] = rng.randint(max(0, S - T - (T - 1)), min(T - 1, S - T)) if mode == "reflect" else rng.randint(0, S - T)
            pr[n] = S - T - pl[n]
            for m in range(N):
                over = lens[m] + pl[m] + pr[m] - S
                if over > 0:
                    cut = min(over, pr[m])
                    pr[m] -= cut
                    pl[m] -= over - cut
        c = pad_case(N, T, rest, lens, pl, pr, mode, **kw)
    elif api == "chunk":
        slices = [_size_slice(rng, mode, ln, pmax) for ln in lens]
        if dim == "Tp":
            n = lens.index(T)
            lp = rng.randint(max(0, S - T - (T - 1)), min(T - 1, S - T)) if mode == "reflect" else rng.randint(0, S - T)
            slices[n] = (-lp, S - lp)
            slices = [(s, min(e, s + S)) for s, e in slices]
        use_none = all(ln == T for ln in lens) and rng.random() < 0.6
        c = chunk_case(N, T, rest, None if use_none else lens, slices, mode, **kw)
    elif api == "masked":
        kinds = [rng.choice(MASK_KINDS) for _ in range(N)]
        kinds[rng.randrange(N)] = "full"
        if N > 1:
            kinds[rng.choice([n for n in range(N) if kinds[n] != "full"] or [0])] = rng.choice(["dense", "all-but-one", "half"])
        c = masked_case(N, T, rest, [_size_mask_row(rng, T, k) for k in kinds], rng.random() < 0.5, **kw)
    else:
        props = [("1", "1"), ("1/2", "1"), ("1", "1/4"), ("7/8", "7/8"), ("1/8", "1")]
        if mode != "reflect":
            props += [("3/2", "2"), ("3", "1/2")]
        if dim in ("N", "F", "NT"):      # keeps the output narrow
            props = [("1", "1"), ("1/2", "1"), ("1", "1/2")]
        prop = rng.choice(props)
        us = lambda: [rng.choice([Fraction(1023, 1024), Fraction(1023, 1024), Fraction(3, 4), Fraction(1, 2), Fraction(0),
                                  Fraction(rng.randint(0, 1023), 1024)]) for _ in range(N)]
        u0, u1, training = us(), us(), rng.random() < 0.9
        if dim == "Tp":                  # a row that fills T is padded by exactly S - T on one side, nobody gets wider
            prop, training = ("1", "1"), True
            ud = Fraction(-((-1024 * (S - T)) // T), 1024)
            u0, u1 = [rng.choice([ud, ud, Fraction(0), Fraction(1, 2) if ud > Fraction(1, 2) else ud]) for _ in range(N)], [Fraction(0)] * N
            u0[lens.index(T)] = ud
            if rng.random() < 0.5:
                u0, u1 = u1, u0
        c = shift_case(N, T, rest, lens, mode, prop, training, u0, u1, **kw)
        if rng.random() < 0.5:
            c["functional"] = True
        elif prop[0] == prop[1] and rng.random() < 0.5:
            c["single_prop"] = True
    c["x"] = _mk_x_distinct(N, T, _F(c), rng.choice([0, 1000]))
    c["size"] = {"dim": dim, "S": S}
    if api != "shift" and rng.random() < 0.5:
        c["module"] = True
    return c


def _size_alts(rng, c, i):
    """the other one of functional / module form, one more entry point (keywords, scripted function, scripted module) in
    rotation, one layout / dtype / history variant"""
    api = c["api"]
    canonical = ("functional" if c.get("functional") else "module") if api == "shift" else ("module" if c.get("module") else "functional")
    other = "module" if canonical == "functional" else "functional"
    entry = SIZE_ENTRY[api][i % len(SIZE_ENTRY[api])]
    pool = [a for a in ALTS[api] if a not in HOWS and a not in ("module_kw", "lens_explicit", "alias")]
    if max((v for row in c["x"] for cell in row for v in cell), default=0) > 2048:
        pool = [a for a in pool if a != "f16"]          # float16 holds integers exactly up to 2048 only
    return [other, entry, rng.choice(pool)]


def size_cases(rng, k=1):
    cases = []

    def add(c, stream="size-regime"):
        c["alts"] = _size_alts(rng, c, len(cases))
        c["audit"] = stream
        c["stream"] = stream
        cases.append(c)
    for rep in range(k):
        for api in ("pad", "chunk", "masked", "shift"):
            for S in SIZES:                                  # the sequence dimension at every mark
                add(_size_case(rng, api, "T", S))
            if api == "masked":                              # both layouts at and next to the sort mark, and once more above
                for S in (16, 17, 17, rng.choice(SIZES[1:])):
                    c = _size_case(rng, api, "T", S)
                    c["batch_first"] = not cases[-1].get("batch_first", False)
                    add(c)
            for S in [17] + rng.sample(SIZES[1:], 3):        # the batch dimension
                add(_size_case(rng, api, "N", S))
            for S in [17] + rng.sample(SIZES[1:], 2):        # the trailing dimension
                add(_size_case(rng, api, "F", S))
            for S, S2 in [(17, 17), rng.choice([(17, 33), (33, 17), (32, 32), (16, 65), (65, 16), (64, 17), (18, 129)])]:
                add(_size_case(rng, api, "NT", S, S2))
            if api != "masked":                              # the output width T' at a mark, the input shorter
                for S in rng.sample(SIZES, 3):
                    add(_size_case(rng, api, "Tp", S))
    # sequence dimension next to 2^15 / 2^16 (index dtypes): the model cannot afford them, size_oracle judges
    huge = HUGE_SIZES if k > 1 else [rng.choice(HUGE_SIZES[:3]), rng.choice(HUGE_SIZES[3:])]
    for rep in range(2 if k > 1 else 1):
        for api in ("pad", "chunk", "masked", "shift"):
            for S in huge:
                c = _size_case(rng, api, "T", S, slim=True)
                if api == "shift":                           # float32 holds prop * len * u exactly for these only
                    c["prop"] = list(rng.choice([("1", "1"), ("1/2", "1"), ("1", "1/4")] + ([] if c["mode"] == "reflect" else [("2", "1")])))
                    c["u0"] = [str(rng.choice([Fraction(3, 4), Fraction(1, 2), Fraction(1, 4), Fraction(0)])) for _ in range(c["N"])]
                    c["u1"] = [str(rng.choice([Fraction(3, 4), Fraction(1, 2), Fraction(1, 4), Fraction(0)])) for _ in range(c["N"])]
                    c.pop("single_prop", None)
                c["dtype"] = rng.choice(["f64", "i64"])      # the payload exceeds 2^24
                c["alts"] = [a for a in _size_alts(rng, c, len(cases)) if a not in ("relabel", "f16", "i32")][:2]
                c["stream"] = "size-regime-oracle"
                cases.append(c)
    return cases


def model_affordable(case):
    return case["N"] * case["T"] * _F(case) <= MODEL_CELLS_CAP


def _pad1(mode, seq, l, r, fill):
    """the standard rule on ONE sequence (list of cells)"""
    if mode == "constant":
        return [fill] * l + seq + [fill] * r
    if mode == "reflect":
        return [seq[i] for i in range(l, 0, -1)] + seq + [seq[len(seq) - 2 - i] for i in range(r)]
    return [seq[0]] * l + seq + [seq[-1]] * r


def _pad1_legal(mode, ln, l, r):
    return True if mode == "constant" else (l < ln and r < ln) if mode == "reflect" else ln >= 1


def size_oracle(case, out):
    """the per-row definition of the property text in plain python (no torch, no model): None = agrees or no opinion
    (malformed / illegal input), else a description of the first difference"""
    api, N, T = case["api"], case["N"], case["T"]
    fill = [case["value"]] * _F(case)
    if N == 0:
        return None
    mode = case.get("mode")
    lens = case.get("lens")
    if api != "masked":
        if lens is None:
            lens = [T] * N
        if len(lens) != N or any(not 0 <= ln <= T for ln in lens):
            return None
        if mode != "constant" and min(lens) < 1:
            return None
    if api == "pad":
        if len(case["pl"]) != N or len(case["pr"]) != N:
            return None
        if not all(_pad1_legal(mode, ln, l, r) for ln, l, r in zip(lens, case["pl"], case["pr"])):
            return None
        if out[0] != "ok":
            return "a legal call raises (outcome code %d)" % out[1]
        for n in range(N):
            want = _pad1(mode, case["x"][n][:lens[n]], case["pl"][n], case["pr"][n], fill)
            got = out[1][n][:len(want)]
            if got != want:
                return _first_diff(n, got, want, "pad of the sequence alone")
        return None
    if api == "chunk":
        rows = []
        for n in range(N):
            s, e = case["slices"][n]
            L = max(e - s, 0)
            lp, rp = (max(-s, 0), max(e - lens[n], 0)) if L else (0, 0)
            if not _pad1_legal(mode, lens[n], lp, rp):
                return None
            rows.append((s, e, L, lp, rp))
        if out[0] != "ok":
            return "a legal call raises (outcome code %d)" % out[1]
        if out[1][1] != [r[2] for r in rows]:
            return "reported lengths %s..., requested %s..." % (out[1][1][:8], [r[2] for r in rows][:8])
        for n, (s, e, L, lp, rp) in enumerate(rows):
            want = _pad1(mode, case["x"][n][:lens[n]], lp, rp, fill)[s + lp:e + lp] if L else []
            got = out[1][0][n][:L]
            if got != want:
                return _first_diff(n, got, want, "slice of the padded sequence alone")
        return None
    if api == "masked":
        if out[0] != "ok":
            return "a legal call raises (outcome code %d)" % out[1]
        for n in range(N):
            kept = [cell for cell, b in zip(case["x"][n], case["mask"][n]) if b]
            if out[1][1][n] != len(kept):
                return "row %d: reported count %d, %d elements selected" % (n, out[1][1][n], len(kept))
            want = kept + [fill] * (T - len(kept))
            if out[1][0][n] != want:
                return _first_diff(n, out[1][0][n], want, "selected elements in order, then the padding value")
        return None
    p0, p1 = (Fraction(p) for p in case["prop"])
    if p0 < 0 or p1 < 0 or (mode == "reflect" and (p0 > 1 or p1 > 1)):
        return None
    if out[0] != "ok":
        return "a legal call raises (outcome code %d)" % out[1]
    if not case["training"]:
        return None if out[1] == [case["x"], lens] else "evaluation mode is not the identity"
    for n in range(N):
        seq, ol, row = case["x"][n][:lens[n]], out[1][1][n], out[1][0][n]
        extra = ol - lens[n]
        found = False
        if 0 <= extra and ol <= len(row):
            first = [int(p0 * lens[n] * Fraction(case["u0"][n]))] if "seed" not in case else []
            for l in first + list(range(0, min(extra, int(p0 * lens[n])) + 1)):
                r = extra - l
                if not (0 <= l <= p0 * lens[n] and 0 <= r <= p1 * lens[n] and _pad1_legal(mode, lens[n], l, r)):
                    continue
                if row[l:l + min(2, lens[n])] != seq[:2]:
                    continue
                if row[:ol] == _pad1(mode, seq, l, r, fill):
                    found = True
                    break
        if not found:
            return ("row %d (length %d, reported %d): no pair of whole pad amounts (l <= %s*len, r <= %s*len) makes the row the "
                    "padded sequence with the original embedded unchanged; row starts %s" % (n, lens[n], ol, p0, p1, row[:6]))
    return None


def _compact(case):
    """replay form of a case of the oracle-only stream: the generated payload by its rule, mask rows as bit strings"""
    c = dict(case)
    for salt in (0, 1000):
        if c["x"] == _mk_x_distinct(c["N"], c["T"], _F(c), salt):
            c["x"] = "distinct:%d" % salt
    if "mask" in c:
        c["mask"] = ["".join("1" if b else "0" for b in row) for row in c["mask"]]
    return c


def _expand(case):
    c = dict(case)
    if isinstance(c.get("x"), str):
        c["x"] = _mk_x_distinct(c["N"], c["T"], _F(c), int(c["x"].split(":")[1]))
    if "mask" in c:
        c["mask"] = [[ch == "1" for ch in row] if isinstance(row, str) else row for row in c["mask"]]
    return c


def _first_diff(n, got, want, what):
    j = next((i for i, (a, b) in enumerate(zip(got, want)) if a != b), min(len(got), len(want)))
    return ("row %d differs from the %s at position %d of %d: got %s, expected %s" %
            (n, what, j, len(want), got[max(j - 1, 0):j + 3], want[max(j - 1, 0):j + 3]))


def nontrivial(case):
    """C09 rule: some pad or slice bound outside the sequence (pad > 0, start < 0 or end > len);
    masked: a row that is neither all-true nor all-false; shift: a non-zero drawn pad amount."""
    api = case["api"]
    if case["N"] == 0:
        return False
    if api == "pad":
        return any(p > 0 for p in case["pl"] + case["pr"])
    if api == "chunk":
        lens = case["lens"] if case["lens"] is not None else [case["T"]] * case["N"]
        return any(e > s and (s < 0 or e > ln) for (s, e), ln in zip(case["slices"], lens))
    if api == "masked":
        return any(0 < sum(row) < len(row) for row in case["mask"])
    if api == "shift":
        if not case["training"]:
            return False
        if "seed" in case:
            return any(Fraction(p) * ln >= 2 for p in case["prop"] for ln in case["lens"])
        return any(int(Fraction(p) * ln * Fraction(u)) > 0
                   for p, us in zip(case["prop"], (case["u0"], case["u1"])) for ln, u in zip(case["lens"], us))
    return False


# ------------------------------------------------------------------------------------------
# metamorphic relations stated by the property (run on the implementation only)
# ------------------------------------------------------------------------------------------

def _valid_len(case, out, n):
    api = case["api"]
    if api == "pad":
        return case["lens"][n] + case["pl"][n] + case["pr"][n]
    return out[1][1][n]


def metamorphic(case, out):
    """each row alone gives the same valid part as in the batch (batch-element independence);
    garbage beyond lens[n] does not matter.  Returns None or a description of the failure."""
    api = case["api"]
    if out[0] != "ok" or case["N"] < 2 or api not in ("pad", "chunk"):
        return None
    cells = out[1] if api == "pad" else out[1][0]
    for n in range(case["N"]):
        sub = dict(case)
        sub.pop("stream", None)
        sub["N"] = 1
        ln = (case["lens"][n] if case["lens"] is not None else case["T"])
        # garbage after the valid part
        row = [list(c) for c in case["x"][n]]
        for t in range(ln, case["T"]):
            row[t] = [9990 + t] * len(row[t])
        sub["x"] = [row]
        sub["lens"] = [ln]
        if api == "pad":
            sub["pl"], sub["pr"] = [case["pl"][n]], [case["pr"][n]]
        else:
            sub["slices"] = [case["slices"][n]]
        o1 = run_impl(sub)
        if o1[0] != "ok":
            return dict(what="row %d alone raises although the batch does not" % n, sub=sub, sub_out=o1)
        k = _valid_len(case, out, n)
        c1 = o1[1] if api == "pad" else o1[1][0]
        if api == "chunk" and o1[1][1][0] != out[1][1][n]:
            return dict(what="row %d alone reports a different length" % n, sub=sub, sub_out=o1)
        if c1[0][:k] != cells[n][:k]:
            return dict(what="row %d alone (with garbage after its length) gives a different valid part" % n,
                        sub=sub, sub_out=o1)
    return None


# ------------------------------------------------------------------------------------------
# running, judging, shrinking
# ------------------------------------------------------------------------------------------

def _strip(case):
    c = dict(case)
    c.pop("stream", None)
    return c


def _term(case, out):
    """seed-driven shift cases have no variates to hand to the model: the spec's boolean reading judges them"""
    return spec_term(case, out) if "seed" in case else model_term(case, out)


def _fails(chk, case):
    out = run_impl(case)
    return not coq_eval_bools(chk.workdir, IMPORTS, [_term(case, out)], tag="shr")[0]


def _eval_balanced(workdir, terms, big=4000):
    """coq_eval_bools cuts the list into contiguous shards: the long terms of the size-regime stream are dealt round-robin,
    longest first, into shards of their own so that no single coqc gets all of them"""
    small = [i for i, t in enumerate(terms) if len(t) <= big]
    large = sorted((i for i, t in enumerate(terms) if len(t) > big), key=lambda i: -len(terms[i]))
    res = [None] * len(terms)
    for i, ok in zip(small, coq_eval_bools(workdir, IMPORTS, [terms[i] for i in small])):
        res[i] = ok
    if large:
        nsh = min(32, max(1, len(large) // 3))
        per = -(-len(large) // nsh)
        padded = []                     # large[j::nsh] has per or per - 1 elements: every shard of `per` terms is one deal
        for j in range(nsh):
            deal = large[j::nsh]
            padded += deal + [None] * (per - len(deal))
        got = coq_eval_bools(workdir, IMPORTS, ["true" if i is None else terms[i] for i in padded], shard=per, tag="big")
        for i, ok in zip(padded, got):
            if i is not None:
                res[i] = ok
    return res


def same_outcome(base, other, alt):
    if alt in ("script_fn", "script_mod") and base[0] == "err" and other[0] == "err" and other[1] not in (6, 7, 8):
        return True     # TorchScript turns every raise into its own torch.jit.Error
    return base == other


def run_alts(case, out):
    """-> list of (alt, outcome) that differ from the canonical outcome"""
    bad = []
    for a in case.get("alts") or []:
        if a not in ALTS[case["api"]] and a not in ("script_fn", "script_mod"):
            continue
        oa = run_impl(case, a)
        if not same_outcome(out, oa, a):
            bad.append((a, oa))
    return bad


def _drop_row(case, n):
    c = json.loads(json.dumps(case))
    c["N"] -= 1
    del c["x"][n]
    api = c["api"]
    if api == "pad":
        for k in ("lens", "pl", "pr"):
            if len(c[k]) == case["N"]:
                del c[k][n]
    elif api == "chunk":
        if c["lens"] is not None and len(c["lens"]) == case["N"]:
            del c["lens"][n]
        del c["slices"][n]
    elif api == "masked":
        del c["mask"][n]
    else:
        for k in ("lens", "u0", "u1"):
            if len(c[k]) == case["N"]:
                del c[k][n]
    return c


def _cands(case):
    api = case["api"]
    if case["N"] > 1:
        for n in range(case["N"]):
            yield _drop_row(case, n)
    if case["rest"]:
        c = json.loads(json.dumps(case))
        c["rest"] = []
        c["x"] = [[[cell[0]] for cell in row] for row in c["x"]]
        yield c
    for k in ("module", "functional", "single_prop"):
        if case.get(k):
            c = dict(case)
            c.pop(k)
            yield c
    if case.get("dtype", "f64") != "f64":
        yield dict(case, dtype="f64")
    if api == "pad":
        for k in ("pl", "pr"):
            for n, p in enumerate(case[k]):
                if p > 0:
                    c = json.loads(json.dumps(case))
                    c[k][n] = p - 1
                    yield c
    if api == "chunk":
        for n, (s, e) in enumerate(case["slices"]):
            for s2, e2 in ((s + 1, e), (s, e - 1), (s - 1, e - 1)):
                if abs(s2) + abs(e2) < abs(s) + abs(e):
                    c = json.loads(json.dumps(case))
                    c["slices"][n] = [s2, e2]
                    yield c


def judge(chk, case, out):
    spec_ok = coq_eval_bools(chk.workdir, IMPORTS, [spec_term(case, out)], tag="spec")[0]
    rec = {"case": case, "impl": out,
           "model": None if "seed" in case else coq_eval_print(chk.workdir, IMPORTS, model_show(case)),
           "spec_accepts_impl": spec_ok,
           "correspondence": "corr:C09:" + {"pad": "pad_variable", "chunk": "chunk_by_slices",
                                            "masked": "pad_masked_sequence", "shift": "RandomShift"}[case["api"]],
           "theorems_at_stake": THEOREMS[case["api"]]}
    if out[0] == "err" and out[1] in ERRTXT:
        rec["note"] = ERRTXT[out[1]]
    if spec_ok:
        rec["what"] = ("implementation differs from the model (e.g. in the region after the valid part, or in the "
                       "kind of error) but its output satisfies the property's boolean reading")
    else:
        rec["what"] = ("output violates the property: a row's valid part is not the per-sequence pad-and-slice "
                       "(or compaction / shift embedding), a reported length is wrong, or a legal input raises")
    return rec, spec_ok


def run(chk, cases=None):
    chk.rule = ("case = (api in pad_variable/chunk_by_slices/pad_masked_sequence/RandomShift, x of shape (N,T,*rest) with a "
                "distinct integer payload per cell, lens, pads or slices or mask or (prop, training, patched torch.rand_like "
                "variates), mode, fill value, dtype, functional-or-module); the implementation's whole output tensor (all T' "
                "columns, also after the valid part), the reported lengths and the kind of exception are compared with "
                "PV.C09.Model evaluated by vm_compute. non-trivial = some pad > 0 / slice bound outside the sequence / mask "
                "row neither full nor empty / non-zero drawn shift. Variants (alts) of a case must give the canonical outcome; "
                "seed-driven shift cases (real generator, eager and scripted) are judged by Spec.spec_shift_okb")
    chk.assumptions += ["regime E: integer payload and fill value, dyadic prop and uniform variates, so float32/64 arithmetic is exact",
                        "torch.rand_like is patched to return the variates handed to the model (RandomShift)",
                        "trailing dimensions are flattened to one feature axis by the harness (cells); lens <= T and pads >= 0 in every generated case",
                        "stream size-regime-oracle (sequence dimension next to 2^15 / 2^16, more than %d input cells) is judged by the python oracle "
                        "size_oracle (per-row definition of the property text) alone, not by the Coq model" % MODEL_CELLS_CAP]
    replaying = cases is not None
    if cases is None:
        cases = exhaustive_cases(chk.tier) + corner_cases()
        corpus = load_corpus("C09")
        for c in corpus:
            c = c.get("case", c)
            c["stream"] = "corpus"
            cases.append(c)
        # one variant on a slice of the enumerated cases (deterministic choice)
        for i, c in enumerate(cases):
            if i % 8 == 0:
                pool = ALTS[c["api"]]
                c["alts"] = [pool[(i // 8) % len(pool)]]
        cases += random_cases(chk.rng, 12000 if chk.tier == "thorough" else 1000)
        cases += audit_cases(chk.rng, 8 if chk.tier == "thorough" else 1)
        cases += size_cases(chk.rng, 6 if chk.tier == "thorough" else 1)
        if chk.tier == "thorough":
            chk.extra["exhaustive"] = True
            chk.extra["exhaustive_scope"] = (
                "2-row ragged batches, T<=4, row 0: every len<=T x (pad_l,pad_r) in 0..9^2 x 3 modes x both row orders; "
                "every slice (start,end) in -5..9^2; all masks for (N,T) up to (3,3)/(2,4) x batch_first; shift: len<=T, "
                "prop in {0,1/2,1,3/2}^2, u in {0,1/4,1/2,3/4,1023/1024}^2")
    import time
    t_start = time.time()
    outs, terms, metas = [], [], []
    alt_bad, oracle_bad = [], []
    for i_, c in enumerate(cases):
        stream = c.pop("stream", "random")
        out = run_impl(c)
        outs.append(out)
        terms.append(_term(c, out) if model_affordable(c) else "true")
        if c.get("size") or not model_affordable(c):
            msg_ = size_oracle(c, out)
            chk.count("size:%s/%s/%s" % (c["api"], (c.get("size") or {}).get("dim", "?"), "model+oracle" if model_affordable(c) else "oracle"))
            if c.get("size"):
                chk.count("size:S=%d" % c["size"]["S"])
            if msg_ is not None:
                oracle_bad.append((i_, msg_))
        for a_, oa_ in run_alts(c, out):
            alt_bad.append((i_, a_, oa_))
        for a_ in c.get("alts") or []:
            chk.count("alt=" + a_)
        chk.note_case(c, nontrivial(c), stream)
        chk.count("api=" + c["api"])
        if "mode" in c:
            chk.count("mode=" + c["mode"])
        chk.count("outcome=" + ("ok" if out[0] == "ok" else "err%d" % out[1]))
        if c["api"] == "shift":
            p0, p1 = (Fraction(p) for p in c["prop"])
            chk.count("shift=" + ("functional" if c.get("functional") else "module")
                      + ("/left>right" if p0 > p1 else "/left<right" if p0 < p1 else "/equal")
                      + ("" if c["training"] else "/eval"))
        chk.count("N=%d" % c["N"])
        chk.count("T=%d" % c["T"])
        if c["api"] == "chunk":
            lens = c["lens"] if c["lens"] is not None else [c["T"]] * c["N"]
            for (s, e), ln in zip(c["slices"], lens if len(lens) == c["N"] else [c["T"]] * c["N"]):
                kind = ("empty" if e <= s else "wholly-left" if e <= 0 else "wholly-right" if s >= ln else
                        "both-sides" if s < 0 and e > ln else "left" if s < 0 else "right" if e > ln else "inside")
                chk.count("slice=" + kind)
        if c["api"] == "pad":
            chk.count("pad>T=%s" % any(p > c["T"] for p in c["pl"] + c["pr"]))
    t_impl = time.time()
    res = _eval_balanced(chk.workdir, terms)
    t_coq = time.time()
    chk.extra["phase_s"] = {"implementation": round(t_impl - t_start, 1), "model_in_coq": round(t_coq - t_impl, 1)}
    bad = [i for i, ok in enumerate(res) if not ok]
    chk.extra["model_disagreements"] = len(bad)
    # the property's own metamorphic relations, on a slice of the cases
    step = 1 if replaying else (3 if chk.tier == "thorough" else 7)
    nmeta = 0
    for i in sorted(set(range(0, len(cases), step)) | {j for j, c in enumerate(cases) if c.get("audit")}):
        m = metamorphic(cases[i], outs[i])
        nmeta += 1
        if m is not None:
            chk.report({"case": cases[i], "impl": outs[i], "what": "metamorphic: " + m["what"],
                        "sub_case": m["sub"], "sub_impl": m["sub_out"]})
    chk.extra["metamorphic_cases"] = nmeta
    source_tie(chk, cases, outs)
    import sys
    from props import c09_tie    # second source tie: the translated chunk_by_slices / pad_masked_sequence on this run's cases
    c09_tie.source_tieB(sys.modules[__name__], chk, cases, outs)
    chk.extra["variant_disagreements"] = len(alt_bad)
    for i, a, oa in alt_bad[:6]:
        heavy = not model_affordable(cases[i])
        omit = lambda o: ("ok", "<omitted>") if heavy and o[0] == "ok" else o
        chk.report({"case": _compact(cases[i]) if heavy else cases[i], "impl": omit(outs[i]), "variant": a, "variant_impl": omit(oa),
                    "what": "relation: the same logical call through variant '%s' (entry point / memory layout / dtype / call history / "
                            "aliasing, see ALTS in harness/props/c09.py) gives a different outcome than the canonical call%s"
                            % (a, "; " + ERRTXT[oa[1]] if oa[0] == "err" and oa[1] in ERRTXT else ""),
                    "correspondence": "corr:C09:variants"})
    # size-regime cases judged by the python oracle of the per-row definition: the only judge of the cases the model cannot
    # afford; for the others the model (below) reports, the oracle only when the model let the case pass
    chk.extra["size_oracle_disagreements"] = len(oracle_bad)
    nrep = 0
    for i, msg in oracle_bad:
        if nrep >= 3 or (i in bad and model_affordable(cases[i])):
            continue
        nrep += 1
        c, o = cases[i], outs[i]
        heavy = not model_affordable(c)
        chk.report({"case": _compact(c) if heavy else c, "impl": ("ok", "<omitted: %d rows>" % c["N"]) if heavy and o[0] == "ok" else o,
                    "what": "size regime: the output violates the per-row definition of the property (python oracle size_oracle in "
                            "harness/props/c09.py, dimension '%s' = %s): %s" % ((c.get("size") or {}).get("dim"), (c.get("size") or {}).get("S"), msg),
                    "correspondence": "corr:C09:" + {"pad": "pad_variable", "chunk": "chunk_by_slices",
                                                     "masked": "pad_masked_sequence", "shift": "RandomShift"}[c["api"]],
                    "theorems_at_stake": THEOREMS[c["api"]]})
    found_concrete = False
    for i in bad[:6]:
        case = shrink(cases[i], lambda c: _fails(chk, c), _cands, budget=8 if cases[i].get("size") else 30)
        out = run_impl(case)
        rec, spec_ok = judge(chk, case, out)
        if not spec_ok:
            found_concrete = True
            chk.report(rec)
        else:
            # the shrunk case may have lost the spec-level failure: judge the original too
            rec0, ok0 = judge(chk, cases[i], outs[i])
            if not ok0:
                found_concrete = True
                chk.report(rec0)
    if bad and not found_concrete:
        sres = coq_eval_bools(chk.workdir, IMPORTS, [spec_term(cases[i], outs[i]) for i in bad], tag="specall")
        hit = [bad[j] for j, ok in enumerate(sres) if not ok]
        if hit:
            rec, _ = judge(chk, cases[hit[0]], outs[hit[0]])
            chk.report(rec)
        else:
            rec, _ = judge(chk, cases[bad[0]], outs[bad[0]])
            chk.report(rec, no_failing_input=True)


# ------------------------------------------------------------------------------------------
# source tie (notes/TIE_GUIDE.md, notes/C09_tie_report.md): the Python text of pad_variable and _get_padding_buffers,
# translated to MiniPy (Gen/C09Src.v) and interpreted in Coq with the torch calls given the meaning of MiniTorch.OpsC09
# (PV.C09.SrcRun.ext09), is evaluated on the run's pad_variable cases and compared with what the implementation did
# ------------------------------------------------------------------------------------------
IMPORTS_SRC = IMPORTS + "From PV Require C09.SrcRun.\n"
SRC_TIE_THEOREMS = ["c09_source_pad_variable_is_model", "c09_source_padding_buffers_is_model", "c09_source_pad_variable_rows",
                    "c09_source_pad_variable_refines_model", "c09_source_pad_check_is_check"]
SRC_TIE_CAP = 1500


def src_pad_term(case, out):
    a = _args(case)
    code, impl = _impl_term(case, out, False)
    return (f"SrcRun.src_pad_variable_check {a['T']} {a['F']} {a['v']} {a['md']} {a['x']} {a['lens']} {a['pl']} {a['pr']} "
            f"{code} {impl}")


def source_tie(chk, cases, outs):
    """validates translator + MiniPy.Interp + ext09 + MiniTorch.OpsC09 against CPython + torch on (a sample of) the run's
    pad_variable cases; independent of whether the tie lemmas still compile"""
    import time
    from vlib import CoqError
    idx = [i for i, (c, o) in enumerate(zip(cases, outs))
           if c.get("api") == "pad" and len(c["pl"]) == len(c["pr"]) and (o[0] == "ok" or o[1] in (1, 2, 3)) and model_affordable(c)]
    total = len(idx)
    if total > SRC_TIE_CAP:     # evenly spaced sample, first and last kept
        idx = sorted({idx[(k * (total - 1)) // (SRC_TIE_CAP - 1)] for k in range(SRC_TIE_CAP)})
    if not idx:
        chk.extra["source_tie_run"] = {"cases": 0, "disagreements": 0}
        return
    t0 = time.time()
    try:
        res = coq_eval_bools(chk.workdir, IMPORTS_SRC, [src_pad_term(cases[i], outs[i]) for i in idx], shard=120, tag="src")
    except CoqError as e:
        chk.extra["source_tie_run"] = "not evaluated: " + str(e)[-400:]
        return
    bad = [i for i, ok in zip(idx, res) if not ok]
    info = {"cases": len(idx), "of_pad_cases": total, "disagreements": len(bad), "wall_s": round(time.time() - t0, 1),
            "N=0": sum(1 for i in idx if cases[i]["N"] == 0), "max_N": max(cases[i]["N"] for i in idx),
            "max_T": max(cases[i]["T"] for i in idx), "max_F": max(_F(cases[i]) for i in idx)}
    for m in MODES:
        info["mode=" + m] = sum(1 for i in idx if cases[i]["mode"] == m)
    for k, name in ((0, "ok"), (1, "ValueError"), (2, "RuntimeError"), (3, "NotImplementedError")):
        info["outcome=" + name] = sum(1 for i in idx if (0 if outs[i][0] == "ok" else outs[i][1]) == k)
    chk.extra["source_tie_run"] = info
    chk.count("source_tie_cases", len(idx))
    if bad:
        i = min(bad, key=lambda k: len(json.dumps(cases[k])))
        chk.report({"what": "the Python source of pad_variable / _get_padding_buffers as translated to MiniPy and interpreted in "
                            "Coq (PV.C09.SrcRun.src_pad_variable, torch calls = PV.MiniTorch.OpsC09) does not reproduce the "
                            "implementation's outcome: translator / interpreter / ext09 / MiniTorch no longer describe the code",
                    "disagreeing_cases": len(bad), "case": _strip(cases[i]), "impl": outs[i],
                    "correspondence": "tie:C09:py2coq+MiniPy.Interp+MiniTorch:pad_variable",
                    "theorems_at_stake": SRC_TIE_THEOREMS}, no_failing_input=True)


def replay(chk, path):
    rec = json.loads(open(path).read())
    case = rec.get("case", rec)
    case.pop("stream", None)
    run(chk, [_expand(case)])
