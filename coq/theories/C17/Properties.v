(* C17 - Command-line conversions invert each other and ignore worker count.
   Property theorems only: each is closed by [exact <lemma>] and followed by [Print Assumptions].
   Outside every theorem (correspondence only): argparse, the text formats below the C11 readers /
   writers, the TextGrid writer command, real process scheduling. *)
From Coq Require Import List ZArith Bool Arith Lia Permutation QArith.
From PV Require Import C11.Model C11.Spec C01.Spec C17.Model C17.Spec C17.ProofsSel C17.ProofsRle C17.ProofsPool
  C17.ProofsEr C17.ProofsDir C17.ProofsTrn C17.ProofsCtm.
Import ListNotations.
Local Open Scope Z_scope.

(* ---- "for every file prefix and suffix" ---------------------------------------------------------- *)

(* a file written as prefix + utterance + suffix is selected by the filter and gives the utterance back *)
Theorem c17_select_written : forall pre suf u,
  selected pre suf (fname pre suf u) = true /\ utt_of pre suf (fname pre suf u) = u.
Proof. exact select_written. Qed.
Print Assumptions c17_select_written.

(* conversely a selected name long enough to hold both is of that form *)
Theorem c17_select_wellformed : forall pre suf x,
  selected pre suf x = true -> (length pre + length suf <= length x)%nat ->
  fname pre suf (utt_of pre suf x) = x.
Proof. exact select_wellformed. Qed.
Print Assumptions c17_select_wellformed.

(* FULL statement "every selected name is prefix + utterance + suffix" is false of the filter
   (startswith and endswith may overlap): file "a" with prefix "a" and suffix "a" *)
Theorem c17_select_overlap_refuted :
  exists pre suf x, selected pre suf x = true /\ forall u, fname pre suf u <> x.
Proof. exact select_overlap_refuted. Qed.
Print Assumptions c17_select_overlap_refuted.

(* ---- "converting alignments to token segments and back yields the original alignments" ------------ *)

(* what the ali -> token command stores is the maximal partition of the alignment, and expanding it
   gives the alignment back *)
Theorem c17_rle_decode_encode : forall v,
  partitions_from 0 (segs 0 (rle v)) (Z.of_nat (length v)) /\ maximal (segs 0 (rle v))
  /\ expand_rows (segs 0 (rle v)) = v.
Proof. exact ref_of_ali_valid. Qed.
Print Assumptions c17_rle_decode_encode.

Theorem c17_ali_of_ref_of_ali : forall v, v <> [] ->
  ali_of_ref None (Mat 3 (segs 0 (rle v))) = Done (Vec v).
Proof. exact ali_of_ref_of_ali. Qed.
Print Assumptions c17_ali_of_ref_of_ali.

(* the empty alignment does not come back: its segmentation has no rows, which the token -> ali
   command rejects (documented: "R > 1") *)
Theorem c17_rle_empty_refuted :
  exists t, ref_of_ali (Vec []) = Done t /\ ali_of_ref None t = Fail EValue.
Proof. exact rle_empty_refuted. Qed.
Print Assumptions c17_rle_empty_refuted.

(* the converse: a maximal partition is what re-encoding its expansion gives *)
Theorem c17_rle_encode_decode : forall rows t T,
  partitions_from t rows T -> maximal rows -> segs t (rle (expand_rows rows)) = rows.
Proof. exact segs_rle_expand. Qed.
Print Assumptions c17_rle_encode_decode.

(* the token -> ali command accepts exactly the partitions (of the feature length, if given) and then
   returns the alignment they denote *)
Theorem c17_ali_of_ref_accepts_iff_partition : forall T rows,
  Forall (fun r => length r = 3%nat) rows ->
  (ali_of_ref T (Mat 3 rows) = Done (Vec (expand_rows rows)))
  <-> (rows <> [] /\ exists n, partitions_from 0 rows n /\ match T with Some m => n = m | None => True end).
Proof. exact ali_of_ref_accepts_iff. Qed.
Print Assumptions c17_ali_of_ref_accepts_iff_partition.

Theorem c17_ali_of_ref_result : forall T t a, ali_of_ref T t = Done a ->
  exists rows, t = Mat 3 rows /\ a = Vec (expand_rows rows).
Proof. exact ali_of_ref_result. Qed.
Print Assumptions c17_ali_of_ref_result.

Theorem c17_expand_denotes : forall rows T, partitions_from 0 rows T -> denotes rows (expand_rows rows).
Proof. exact expand_denotes. Qed.
Print Assumptions c17_expand_denotes.

(* whole directories, any prefix / suffix, stray files, any completion order of either pool *)
Theorem c17_ali_dir_roundtrip : forall pre suf w1 o1 (src : dir),
  NoDup (listdir src) ->
  (forall n t, In (n, t) src -> selected pre suf n = true -> exists v, t = Vec v /\ v <> []) ->
  Permutation o1 (seq 0 (length (filter (selected pre suf) (listdir src)))) ->
  exists r, ali_to_ref_dir pre suf w1 o1 src [] = Done r /\
    forall w2 o2, Permutation o2 (seq 0 (length (filter (selected pre suf) (listdir r)))) ->
    exists a, ref_to_ali_dir pre suf None w2 o2 r [] = Done a
              /\ forall n, dir_get a n = if selected pre suf n then dir_get src n else None.
Proof. exact ali_dir_roundtrip. Qed.
Print Assumptions c17_ali_dir_roundtrip.

(* ---- "every command produces the same output files ... with zero, one or many worker processes" ---- *)

(* every schedule of the pool is a permutation of the items *)
Theorem c17_pool_is_permutation : forall (I : Type) workers order (items : list I),
  Permutation order (seq 0 (length items)) -> Permutation (pool_items workers order items) items.
Proof. exact @pool_items_perm. Qed.
Print Assumptions c17_pool_is_permutation.

(* disjoint writes commute: any two orders of name-disjoint do_work calls leave the same directory
   (as a map), and a run that raises, raises under every order *)
Theorem c17_effects_schedule_invariant : forall (I A : Type) (w : I -> out (str * A)) items items' d,
  Permutation items items' ->
  (forall ws, map_out w items = Done ws -> NoDup (map fst ws)) ->
  (forall d1, run_effects (eff w) items d = Done d1 ->
     exists d2, run_effects (eff w) items' d = Done d2 /\ dir_equiv d1 d2) /\
  (forall e, run_effects (eff w) items d = Fail e -> exists e', run_effects (eff w) items' d = Fail e').
Proof. exact @effects_schedule_invariant. Qed.
Print Assumptions c17_effects_schedule_invariant.

(* the do_work functions of the converting commands are such writes *)
Theorem c17_save_transcript_is_write : forall t2i fs unk skip featsz items d,
  run_effects (save_transcript t2i fs unk skip featsz) items d
  = run_effects (eff (save_w t2i fs unk skip featsz)) items d.
Proof. exact save_transcript_eff. Qed.
Print Assumptions c17_save_transcript_is_write.

Theorem c17_ali_commands_are_writes : forall pre suf feats workers order src dst,
  ali_to_ref_dir pre suf workers order src dst =
    run_effects (eff (ali_w src)) (pool_items workers order (filter (selected pre suf) (listdir src))) dst
  /\ ref_to_ali_dir pre suf feats workers order src dst =
    run_effects (eff (ref_w feats src)) (pool_items workers order (filter (selected pre suf) (listdir src))) dst.
Proof. exact ali_commands_are_writes. Qed.
Print Assumptions c17_ali_commands_are_writes.

(* ---- "converting a transcript file ... to a token directory and back yields the original
        transcripts (times to within one frame)" ------------------------------------------------------- *)

(* trn: every prefix, suffix, tensor shape (R,3) / (R,) / (R,1), worker count and completion order;
   the transcripts handed to write_trn are the original ones in utterance order *)
Theorem c17_trn_dir_roundtrip : forall pre suf t2i unk skip featsz workers order (ts : list (str * list str)),
  NoDup (map fst ts) -> NoDup (map snd t2i) ->
  (forall ut, In ut ts -> in_vocab t2i (snd ut)) ->
  Permutation order (seq 0 (length ts)) ->
  exists d, trn_to_dir AltError pre suf t2i unk skip featsz workers order
                       (map (fun ut => (fst ut, map Tok (snd ut))) ts) [] = Done d
    /\ exists res, dir_to_trn (inv_pairs t2i) pre suf d = Done res
         /\ map fst res = sort_by str_leb (map fst ts)
         /\ forall ut, In ut ts -> In (fst ut, plain (snd ut)) res.
Proof. exact trn_dir_roundtrip. Qed.
Print Assumptions c17_trn_dir_roundtrip.

(* ctm / TextGrid intervals: same utterances and tokens, every time within one frame shift *)
Theorem c17_timed_dir_roundtrip : forall pre suf t2i d unk workers order (ts : list (str * list (str * Q * Q))),
  (0 < d)%Q -> NoDup (map fst ts) -> NoDup (map snd t2i) ->
  (forall ut, In ut ts -> Forall (timed_ok t2i) (snd ut)) ->
  Permutation order (seq 0 (length ts)) ->
  exists dd, ctm_to_dir pre suf t2i (Some d) unk false false workers order ts [] = Done dd
    /\ exists res, dir_to_ctm (swap_pairs t2i) pre suf (Some d) dd = Done res
         /\ map fst res = sort_by str_leb (map fst ts)
         /\ forall ut, In ut ts -> exists tr', In (fst ut, tr') res
                                            /\ Forall2 (C11.Spec.item_close d) (map timed_item (snd ut)) tr'.
Proof. exact timed_dir_roundtrip. Qed.
Print Assumptions c17_timed_dir_roundtrip.

(* ---- "the error-rate command prints the total edits of C02 divided by the total reference length
        ... whatever the batch size, replacement and ignore lists" ------------------------------------- *)

(* the defaultdict numbering is a renaming, and renaming does not change the distance *)
Theorem c17_lev_rename_invariant : forall ci cd cs, rename_invariant (lev ci cd cs).
Proof. exact lev_rename_invariant. Qed.
Print Assumptions c17_lev_rename_invariant.

Theorem c17_lev_injective_renaming : forall ci cd cs (f : Z -> Z) r h,
  inj_on f (r ++ h) -> lev ci cd cs (map f r) (map f h) = lev ci cd cs r h.
Proof. exact lev_injective_renaming. Qed.
Print Assumptions c17_lev_injective_renaming.

Theorem c17_ids_injective : forall tbl, inj_on (enc_tbl tbl) tbl.
Proof. exact enc_tbl_inj. Qed.
Print Assumptions c17_ids_injective.

(* the ids a transcript gets: replace, then drop the ignored, then number *)
Theorem c17_ids_are_filtered_numbering : forall rep ign tr tbl,
  let '(tbl', ids) := ids_of rep ign tbl tr in
  (exists ext, tbl' = tbl ++ ext) /\ (forall t, In t (filtered rep ign tr) -> In t tbl')
  /\ ids = map (enc_tbl tbl') (filtered rep ign tr).
Proof. exact ids_of_spec. Qed.
Print Assumptions c17_ids_are_filtered_numbering.

Theorem c17_er_batch_size_irrelevant : forall E0 rep ign distances bs1 bs2 (refs hyps : utts),
  rename_invariant E0 -> (1 <= bs1)%nat -> (1 <= bs2)%nat -> length refs = length hyps ->
  er_batches (fun _ => E0) rep ign distances (S (length refs)) bs1 0 [] refs hyps
  = er_batches (fun _ => E0) rep ign distances (S (length refs)) bs2 0 [] refs hyps.
Proof. exact er_batch_size_irrelevant. Qed.
Print Assumptions c17_er_batch_size_irrelevant.

(* the printed total: total edits / total reference length (or / number of utterances), of the
   replaced-and-filtered transcripts under ANY injective numbering, for every batch size *)
Theorem c17_er_total_is_spec : forall E0 o i2t pre suf (rd hd : dir) refs0 hyps0 refs hyps enc,
  rename_invariant E0 -> (1 <= eo_batch o)%nat -> eo_per_utt o = false ->
  load_dir i2t pre suf None true rd = Done refs0 -> load_dir i2t pre suf None true hd = Done hyps0 ->
  pair_up (S (length refs0 + length hyps0)) (eo_warn_missing o) (tokens_of refs0) (tokens_of hyps0) = Done (refs, hyps) ->
  inj_on enc (corpus_tokens (eo_rep o) (eo_ign o) refs hyps) ->
  error_rates (fun _ => E0) o i2t pre suf rd hd =
  let '(n, d) := er_total_spec (fun _ => E0) enc (eo_rep o) (eo_ign o) (eo_distances o)
                               (combine (map snd refs) (map snd hyps)) in
  if d =? 0 then Fail EZeroDiv else Done (Total n d).
Proof. exact er_command_total. Qed.
Print Assumptions c17_er_total_is_spec.

Theorem c17_pairs_are_aligned : forall fuel warn refs hyps a b,
  pair_up fuel warn refs hyps = Done (a, b) -> map fst a = map fst b /\ incl a refs /\ incl b hyps.
Proof. exact pair_up_aligned. Qed.
Print Assumptions c17_pairs_are_aligned.

(* ---- "subsetting selects exactly the requested utterances and keeps their files identical" --------- *)

Theorem c17_subset_is_filter : forall (A : Type) (size0 : A -> Z) c pre suf workers order (src : sds A),
  let names := map (fname pre suf) (choose size0 c pre suf (s_feat src)) in
  Permutation order (seq 0 (length names)) ->
  let dst := subset size0 c pre suf workers order src
               (mkSds [] (option_map (fun _ => []) (s_ali src)) (option_map (fun _ => []) (s_ref src))) in
  is_filter_of names (s_feat src) (s_feat dst)
  /\ (forall sa, s_ali src = Some sa -> exists da, s_ali dst = Some da /\ is_filter_of names sa da)
  /\ (forall sr, s_ref src = Some sr -> exists dr, s_ref dst = Some dr /\ is_filter_of names sr dr)
  /\ (s_ali src = None -> s_ali dst = None) /\ (s_ref src = None -> s_ref dst = None).
Proof. exact @subset_is_filter. Qed.
Print Assumptions c17_subset_is_filter.

(* ---- "statistics commands report the pooled moments of the stored tensors" -------------------------- *)

Theorem c17_moments_pooled : forall pre suf excl workers order (d : dir),
  Permutation order (seq 0 (length (filter (selected pre suf) (listdir d)))) ->
  ali_dir_moments pre suf excl workers order d
  = Done (mom_of (concat (map (dir_lens excl d) (filter (selected pre suf) (listdir d))))).
Proof. exact ali_dir_moments_pooled. Qed.
Print Assumptions c17_moments_pooled.

Theorem c17_moments_schedule_invariant : forall pre suf excl workers order (d : dir),
  Permutation order (seq 0 (length (filter (selected pre suf) (listdir d)))) ->
  ali_dir_moments pre suf excl workers order d = ali_dir_moments pre suf excl 0 [] d.
Proof. exact ali_dir_moments_schedule. Qed.
Print Assumptions c17_moments_schedule_invariant.

(* ---- non-vacuity ------------------------------------------------------------------------------------- *)

(* prefix "p_", suffix ".pt": two alignments and a stray file; pool order (1, 0) *)
Example c17_ali_nonvacuous :
  let src := [([112; 95; 97; 46; 112; 116], Vec [1; 1; 2; 2; 2; 1]); ([82; 69; 65; 68], Vec []);
              ([112; 95; 98; 46; 112; 116], Vec [3])] in
  NoDup (listdir src)
  /\ Permutation [1; 0]%nat (seq 0 (length (filter (selected [112; 95] [46; 112; 116]) (listdir src))))
  /\ ali_to_ref_dir [112; 95] [46; 112; 116] 2 [1; 0]%nat src []
     = Done [([112; 95; 98; 46; 112; 116], Mat 3 [[3; 0; 1]]);
             ([112; 95; 97; 46; 112; 116], Mat 3 [[1; 0; 2]; [2; 2; 5]; [1; 5; 6]])].
Proof.
  cbv zeta. split; [|split].
  - cbn. repeat constructor; cbn; intuition discriminate.
  - cbn. apply perm_swap.
  - vm_compute. reflexivity.
Qed.

(* three utterances, batch sizes 1 and 2, a replacement and an ignored token *)
Example c17_er_nonvacuous :
  let refs := [([97], [TInt 1; TInt 2; TInt 3]); ([98], [TInt 9]); ([99], [TInt 4; TInt 4])] in
  let hyps := [([97], [TInt 1; TInt 3]); ([98], [TInt 2]); ([99], [TInt 5; TInt 4; TInt 9])] in
  rename_invariant (lev 1 1 1)
  /\ er_batches (fun _ => lev 1 1 1) [(TInt 5, TInt 4)] [TInt 9] false 4 1 0 [] refs hyps
     = [([97], 1, 3); ([98], 1, 0); ([99], 0, 2)]
  /\ er_batches (fun _ => lev 1 1 1) [(TInt 5, TInt 4)] [TInt 9] false 4 2 0 [] refs hyps
     = [([97], 1, 3); ([98], 1, 0); ([99], 0, 2)].
Proof. cbv zeta. split; [apply lev_rename_invariant|split; vm_compute; reflexivity]. Qed.

(* ==================================================================================================== *)
(* SOURCE TIE.  The statements below are about the PYTHON TEXT of the per-file workers of command_line.py: *)
(* PV.Gen.C17Src.* are the MiniPy terms that harness/py2coq/translate.py regenerates from /repo on every  *)
(* run; PV.MiniPy.Interp is their semantics; torch calls mean what PV.MiniTorch.OpsC17 says, the file      *)
(* system is data and torch.save is an emitted event (C17.SrcRun.ext17).  Proofs: C17/TieAli.v, Tie*.v.    *)
(* ==================================================================================================== *)
From Coq Require Import String.    (* from here on [length] is String.length: lists use List.length *)
From PV Require MiniPy.Syntax MiniPy.Interp C17.SrcRun C17.TieLib C17.TieAli C17.TieMom C17.TieDs C17.Tie.

(* _torch_ali_dir_to_torch_token_dir_do_work: for every file system holding the alignment [v] at
   os.path.join(ali_dir, basename), the interpreted worker returns None and its only effect is
   torch.save(the model's (R, 3) segments, os.path.join(ref_dir, basename)) *)
Theorem c17_source_ali2tok_is_model : forall fs b ad rd v,
  Interp.dict_get fs (SrcRun.path ad b) = Some (SrcRun.enc_tensor (Vec v)) ->
  exists st, SrcRun.run_ali2tok fs b ad rd = Interp.Ok Syntax.VNone st
             /\ Interp.events st = [SrcRun.save_event (SrcRun.enc_tensor (Mat 3 (segs 0 (rle v)))) (SrcRun.path rd b)].
Proof. exact TieAli.ali2tok_tie. Qed.
Print Assumptions c17_source_ali2tok_is_model.

(* _torch_token_data_dir_to_torch_ali_dir_do_work: for every well-formed stored tensor (vector, or matrix of any
   width and height), with --feat-dir absent / given with the feature file missing / present, the interpreted
   worker does what Model.ali_of_ref_feat says: saves the expanded alignment and nothing else, or raises the
   model's exception (ValueError for each of the four guards and the length check in code order, FileNotFoundError,
   RuntimeError for a negative repeat count) before any effect *)
Theorem c17_source_tok2ali_is_model : forall fs b rd ad fdv fl n t,
  SrcRun.wf_tensor t -> Interp.dict_get fs (SrcRun.path rd b) = Some (SrcRun.enc_tensor t) ->
  TieAli.feat_env fs b fdv fl ->
  TieLib.worker_outcome (SrcRun.run_tok2ali fs b rd ad fdv) (SrcRun.path ad b)
                        (ali_of_ref_feat (SrcRun.feats_of n fl) n t).
Proof. exact Tie.tok2ali_tie_model. Qed.
Print Assumptions c17_source_tok2ali_is_model.

(* COMPOSED with c17_ali_of_ref_of_ali - purely about the interpreted source: converting a non-empty alignment to
   tokens and converting what was saved back returns the alignment *)
Theorem c17_source_ali_roundtrip : forall v, v <> [] ->
  forall fs b ad rd, Interp.dict_get fs (SrcRun.path ad b) = Some (SrcRun.enc_tensor (Vec v)) ->
  exists x, (exists st, SrcRun.run_ali2tok fs b ad rd = Interp.Ok Syntax.VNone st
                        /\ Interp.events st = [SrcRun.save_event x (SrcRun.path rd b)])
    /\ forall fs' ad', Interp.dict_get fs' (SrcRun.path rd b) = Some x ->
         Tie.saves (SrcRun.run_tok2ali fs' b rd ad' Syntax.VNone) (Vec v) (SrcRun.path ad' b).
Proof. exact Tie.source_ali_roundtrip. Qed.
Print Assumptions c17_source_ali_roundtrip.

(* COMPOSED with c17_ali_of_ref_accepts_iff_partition and c17_rle_encode_decode: tokens -> ali -> tokens returns the
   tokens for contiguous, start-0 (partitions_from 0), adjacent-distinct, positive-length (maximal) segments *)
Theorem c17_source_tokens_roundtrip : forall rows T, rows <> [] -> partitions_from 0 rows T -> maximal rows ->
  forall fs b rd ad, Interp.dict_get fs (SrcRun.path rd b) = Some (SrcRun.enc_tensor (Mat 3 rows)) ->
  exists x, (exists st, SrcRun.run_tok2ali fs b rd ad Syntax.VNone = Interp.Ok Syntax.VNone st
                        /\ Interp.events st = [SrcRun.save_event x (SrcRun.path ad b)])
    /\ forall fs' rd', Interp.dict_get fs' (SrcRun.path ad b) = Some x ->
         Tie.saves (SrcRun.run_ali2tok fs' b ad rd') (Mat 3 rows) (SrcRun.path rd' b).
Proof. exact Tie.source_tokens_roundtrip. Qed.
Print Assumptions c17_source_tokens_roundtrip.

(* the interpreted worker accepts exactly the partitions and raises (ValueError / RuntimeError, no effect) exactly
   when a guard fails *)
Theorem c17_source_tok2ali_accepts_iff_partition : forall fs b rd ad rows,
  Forall (fun r => List.length r = 3%nat) rows ->
  Interp.dict_get fs (SrcRun.path rd b) = Some (SrcRun.enc_tensor (Mat 3 rows)) ->
  (Tie.saves (SrcRun.run_tok2ali fs b rd ad Syntax.VNone) (Vec (expand_rows rows)) (SrcRun.path ad b)
     <-> (rows <> [] /\ exists n, partitions_from 0 rows n))
  /\ (~ (rows <> [] /\ exists n, partitions_from 0 rows n) ->
      Tie.raises (SrcRun.run_tok2ali fs b rd ad Syntax.VNone) "ValueError"%string
      \/ Tie.raises (SrcRun.run_tok2ali fs b rd ad Syntax.VNone) "RuntimeError"%string).
Proof. exact Tie.source_tok2ali_accepts_iff_partition. Qed.
Print Assumptions c17_source_tok2ali_accepts_iff_partition.

(* ---- length moments: _print_torch_ali_data_dir_length_moments / _print_torch_ref_data_dir_length_moments ---- *)

(* for every file system, file name, exclude list (None or any 1-D tensor of ids) and stored alignment the interpreted
   worker returns exactly the model's (sum, sum of squares, count), without any effect *)
Theorem c17_source_ali_moments_is_model : forall fs fn excl v,
  Interp.dict_get fs fn = Some (SrcRun.enc_tensor (Vec v)) ->
  exists st, SrcRun.run_ali_moments fs fn excl = Interp.Ok (SrcRun.mom_value (ali_moments excl (Vec v))) st
             /\ Interp.events st = [].
Proof. exact TieMom.ali_moments_tie. Qed.
Print Assumptions c17_source_ali_moments_is_model.

(* COMPOSED with ProofsDir.ali_moments_lens: these are the moments of exactly the list of lengths that
   c17_moments_pooled pools (maximal runs whose label is not excluded) *)
Theorem c17_source_ali_moments_pooled_input : forall fs fn excl v,
  Interp.dict_get fs fn = Some (SrcRun.enc_tensor (Vec v)) ->
  exists st, SrcRun.run_ali_moments fs fn excl
             = Interp.Ok (SrcRun.mom_value (mom_of (ali_lens excl (Vec v)))) st /\ Interp.events st = [].
Proof. exact Tie.source_ali_moments_lens. Qed.
Print Assumptions c17_source_ali_moments_pooled_input.

(* COMPOSED with the run-length lemmas, purely about the interpreted source: without exclusions the first returned
   figure is the number of frames *)
Theorem c17_source_ali_moments_frames : forall fs fn v,
  Interp.dict_get fs fn = Some (SrcRun.enc_tensor (Vec v)) ->
  exists ss c st, SrcRun.run_ali_moments fs fn None
                  = Interp.Ok (Syntax.VTuple [Syntax.VInt (Z.of_nat (List.length v)); Syntax.VInt ss; Syntax.VInt c]) st
                  /\ Interp.events st = [].
Proof. exact Tie.source_ali_moments_frames. Qed.
Print Assumptions c17_source_ali_moments_frames.

(* the ref worker, for EVERY stored tensor (any rank, width, content - no well-formedness needed): the model's
   moments of the valid, not excluded segments, and a message exactly when the model says there is one (shape other
   than (R, 3), or an invalid segment that is not excluded) *)
Theorem c17_source_ref_moments_is_model : forall fs u d p s excl t,
  Interp.dict_get fs (TieMom.ref_file d p u s) = Some (SrcRun.enc_tensor t) ->
  exists st, SrcRun.run_ref_moments fs u d p s excl
             = Interp.Ok (SrcRun.ref_moments_value (ref_moments excl t)) st /\ Interp.events st = [].
Proof. exact TieMom.ref_moments_tie. Qed.
Print Assumptions c17_source_ref_moments_is_model.

(* ---- _TranscriptDataSet.__getitem__ ------------------------------------------------------------------------- *)

(* for every transcript [tr] that data.token_to_transcript returns (any mixture of plain and timed tokens) whose
   remaining int tokens are not keys of id2token: (utt_id, tr with the timing stripped on request), or ValueError
   exactly when an id2token map was given and a token is still an int *)
Theorem c17_source_getitem_is_model : forall utt tok i2t fs strip tr,
  TieDs.ints_unknown i2t tr ->
  TieDs.outcome_of utt (TieDs.finish_transcript i2t strip tr)
    (Interp.run (SrcRun.ext17_ds (Syntax.VTuple [utt; tok]) tr) Gen.C17Src.tds_getitem
                (SrcRun.getitem_vars (SrcRun.ds_self i2t fs strip) (Syntax.VInt 0))).
Proof. exact TieDs.getitem_tie. Qed.
Print Assumptions c17_source_getitem_is_model.

(* with data.token_to_transcript = PV.C11.Model.token_to_transcript: the whole of Model.load_transcript, for every
   stored tensor, frame shift, strip_timing, and every id2token whose values are strings (what _parse_token2id
   builds; with an int VALUE the source's `assert token not in self.id2token` could fail instead) *)
Theorem c17_source_load_transcript_is_model : forall i2t fs strip t,
  TieDs.i2t_strings i2t ->
  SrcRun.src_load_transcript i2t fs strip t = Some (load_transcript i2t fs strip t).
Proof. exact TieDs.load_transcript_tie. Qed.
Print Assumptions c17_source_load_transcript_is_model.

(* the interpreted workers on concrete files: an alignment and its segments, a guard, moments, a transcript *)
Example c17_source_nonvacuous :
  SrcRun.src_ref_of_ali (Vec [1; 1; 2; 2; 2; 1]) = Some (Done (Mat 3 [[1; 0; 2]; [2; 2; 5]; [1; 5; 6]]))
  /\ SrcRun.src_ali_of_ref_feat None (Mat 3 [[1; 0; 2]; [2; 2; 5]; [1; 5; 6]]) = Some (Done (Vec [1; 1; 2; 2; 2; 1]))
  /\ SrcRun.src_ali_of_ref_feat (Some (Some (Mat 2 [[0; 0]; [0; 0]]))) (Mat 3 [[1; 0; 2]; [2; 2; 5]]) = Some (Fail EValue)
  /\ SrcRun.src_ali_of_ref_feat None (Mat 3 [[1; 0; 2]; [2; 2; 1]]) = Some (Fail ERuntime)
  /\ SrcRun.src_ali_moments (Some [2]) (Vec [1; 1; 2; 2; 2; 1]) = Some (3, 5, 2)
  /\ SrcRun.src_ref_moments (Some [2]) (Mat 3 [[1; 0; 2]; [2; 2; 5]; [1; 5; 4]]) = Some ((2, 4, 1), true)
  /\ SrcRun.src_load_transcript (Some [(1, TStr [97])]) None true (Mat 3 [[1; 0; 2]; [1; -1; -1]])
     = Some (Done [Plain (TStr [97]); Plain (TStr [97])])
  /\ SrcRun.src_load_transcript (Some [(1, TStr [97])]) None false (Vec [1; 7]) = Some (Fail EValue).
Proof. vm_compute. repeat split; reflexivity. Qed.
