(* C10, second source tie — policy 'fixed', the raise path: an in_lens tensor whose shape is not (N,) makes the interpreted
   source raise RuntimeError (the model's None of slice_fixed). *)
From Coq Require Import ZArith QArith List String Bool Arith Lia ZifyBool ZifyNat.
From PV Require Import MiniPy.Syntax MiniPy.Interp MiniTorch.Ops MiniTorch.Value MiniTorch.Lemmas.
From PV Require Import MiniTorch.OpsC10 MiniTorch.ValueC10 MiniTorch.LemmasC10 MiniTorch.OpsC10B MiniTorch.LemmasC10B Gen.C10BSrc.
From PV Require Import C10.SrcRun C10.SrcRunB C10.TieBCommon C10.TieBPrefix C10.TieBFixed C10.TieBFixedTop C10.TieModel.
From PV Require C10.Model.
Import ListNotations.
Local Open Scope string_scope.
#[local] Arguments enc10 : simpl never.
#[local] Arguments dec10 : simpl never.
#[local] Arguments Z.of_nat : simpl never.
#[local] Arguments Z.add : simpl never.
#[local] Arguments Z.sub : simpl never.
#[local] Arguments Z.mul : simpl never.
#[local] Arguments Z.div : simpl never.
#[local] Arguments Z.ltb : simpl never.
#[local] Arguments Z.max : simpl never.
#[local] Arguments Z.to_nat : simpl never.
#[local] Arguments then_ : simpl never.
#[local] Arguments extreme_of : simpl never.
#[local] Arguments q_cmp : simpl never.
#[local] Arguments I1 : simpl never.
#[local] Arguments I2 : simpl never.
#[local] Arguments I3 : simpl never.
#[local] Arguments B2 : simpl never.
#[local] Arguments F3 : simpl never.
#[local] Arguments F2 : simpl never.
#[local] Arguments OpsC10.arange : simpl never.
#[local] Arguments OpsC10.unsqueeze : simpl never.
#[local] Arguments OpsC10.size : simpl never.
#[local] Arguments OpsC10.compare : simpl never.
#[local] Arguments OpsC10.add : simpl never.
#[local] Arguments OpsC10.sub : simpl never.
#[local] Arguments OpsC10.view : simpl never.
#[local] Arguments arange3 : simpl never.
#[local] Arguments mul : simpl never.
#[local] Arguments expand_to : simpl never.
#[local] Arguments stack2_last : simpl never.
#[local] Arguments flatten : simpl never.
#[local] Arguments mask_rows : simpl never.
#[local] Arguments numel : simpl never.

Lemma shape_ne : forall sh N, sh <> [N] -> val_eqb (VTuple (enc_shape sh)) (VTuple [VInt (Z.of_nat N)]) = false.
Proof.
  intros sh N H. destruct sh as [|a [|b sh]]; cbn [enc_shape map]; unfold val_eqb; cbn; try reflexivity.
  - destruct (Z.eqb_spec (Z.of_nat a) (Z.of_nat N)); [|reflexivity]. exfalso. apply H. f_equal. lia.
  - apply andb_false_r.
Qed.

Lemma shape_ne_cbn : forall sh N, sh <> [N] ->
  ltac:(let x := eval cbn in (val_eqb (VTuple (enc_shape sh)) (VTuple [VInt (Z.of_nat N)])) in exact (x = false)).
Proof. intros sh N H. exact (shape_ne sh N H). Qed.

Lemma fixed_tail_raises : forall N k s e m ls vs,
  lookup "starts" vs = Some (enc10 (I1 k s)) -> lookup "ends" vs = Some (enc10 (I1 k e)) ->
  lookup "mids" vs = Some (enc10 (I1 k m)) -> lookup "N" vs = Some (VInt (Z.of_nat N)) ->
  lookup "device" vs = Some device_token -> lookup "in_lens" vs = Some (enc10 (vec_tensor ls)) -> List.length ls <> N ->
  exists st, exec extB fixed_tail (mkState vs []) = Exc runtime_error st.
Proof.
  intros N k s e m ls vs Hs He Hm HN Hd Hl Hsh.
  unfold fixed_tail, fixed_block, slice_body. cbn [drop_seq seq_head if_then].
  stmt. aclose.
  stmt. aclose.
  stmt. aclose.
  stmt. aclose.
  repeat (progress astep).
  replace (Z.of_nat (List.length ls) =? Z.of_nat N)%Z with false by lia.
  repeat (progress astep).
  eexists. reflexivity.
Qed.

Theorem fixed_tie_raises : forall N T rest data ol ls w vo lobe,
  T <> 0%nat -> (0 <= lobe)%Z ->
  Model.slice_fixed Model.repaired N (Z.of_nat T) (Some ls) w vo lobe = None ->
  exists st, run_slice_raw (mkIT (N :: T :: rest) data) (Some (vec_tensor ls)) ol "fixed" (wt_name w) vo lobe
             = Exc runtime_error st.
Proof.
  intros N T rest data ol ls w vo lobe HT Hl Hm.
  destruct (fixed_head N T rest data (Some (vec_tensor ls)) ol lobe w vo HT Hl)
    as (k & s & e & m & vs & Hrun & Hs & He & Hmi & HN & Hd & Hil & Hw).
  assert (Hlen : List.length ls <> N).
  { unfold Model.slice_fixed in Hm. destruct (Nat.eqb_spec (List.length ls) N); [discriminate|assumption]. }
  destruct (fixed_tail_raises N k s e m ls vs Hs He Hmi HN Hd Hil Hlen) as (st & Htail).
  exists st. apply run_of_exc. rewrite prefix_run by (try assumption; apply wt_ok_name).
  unfold fixed_block, fixed_tail in Hrun, Htail. unfold slice_body in Hrun, Htail |- *.
  cbn [drop_seq seq_head if_then] in Hrun, Htail |- *.
  rewrite exec_seq'.
  match goal with |- context [then_ ?b] => remember b as RET end.
  match goal with |- context [SIf ?c ?t ?f] => remember t as TB; remember f as FB end.
  cbn [exec eval bind vars events lookup prefix_vars String.eqb Ascii.eqb Bool.eqb rich foreign cmp_eval val_eqb andb orb truthy].
  subst TB. rewrite Hrun, Htail. reflexivity.
Qed.
