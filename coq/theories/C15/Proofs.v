(* C15 — lemmas *)
From Coq Require Import List ZArith QArith Bool Lia.
From PV Require Import C15.Model C15.Spec.
Import ListNotations.
Local Open Scope Z_scope.

Lemma below_fails : forall ref v thr, below ref v thr = fails ref v thr.
Proof.
  intros [r|] v thr; cbn; [|reflexivity].
  destruct (Z.ltb_spec (Z.max (r - v) 0) thr), (Z.ltb_spec 0 thr), (Z.ltb_spec (r - v) thr); cbn; try reflexivity; lia.
Qed.
