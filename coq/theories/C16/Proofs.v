(* C16 — lemmas about the crash model: toy file system, cache, shape of one update. *)
From Coq Require Import List Arith Bool ZArith Lia.
From PV Require Import C16.Model C16.Spec.
Import ListNotations.

(* ---------- decidable equalities ---------------------------------------- *)

Lemma kind_eqb_eq a b : kind_eqb a b = true <-> a = b.
Proof. destruct a, b; cbn; split; intros H; congruence. Qed.

Lemma oe_eqb_eq a b : oe_eqb a b = true <-> a = b.
Proof.
  destruct a as [x|], b as [y|]; cbn; split; intros H; try congruence.
  - apply Nat.eqb_eq in H; congruence.
  - injection H as ->; apply Nat.eqb_refl.
Qed.

Lemma path_eqb_eq p q : path_eqb p q = true <-> p = q.
Proof.
  destruct p as [k e|c k], q as [k' e'|c' k']; cbn; split; intros H; try congruence.
  - apply andb_true_iff in H as [H1 H2].
    apply kind_eqb_eq in H1; apply oe_eqb_eq in H2; congruence.
  - injection H as -> ->. apply andb_true_iff; split; [apply kind_eqb_eq|apply oe_eqb_eq]; reflexivity.
  - apply andb_true_iff in H as [H1 H2].
    apply Nat.eqb_eq in H1; apply kind_eqb_eq in H2; congruence.
  - injection H as -> ->. apply andb_true_iff; split; [apply Nat.eqb_refl|apply kind_eqb_eq; reflexivity].
Qed.

Lemma path_eqb_refl p : path_eqb p p = true.
Proof. apply path_eqb_eq; reflexivity. Qed.

Lemma path_eqb_neq p q : p <> q -> path_eqb p q = false.
Proof. intros H. destruct (path_eqb p q) eqn:E; [apply path_eqb_eq in E; contradiction|reflexivity]. Qed.

Lemma path_eqb_false p q : path_eqb p q = false -> p <> q.
Proof. intros H ->. rewrite path_eqb_refl in H; discriminate. Qed.

Lemma path_eq_dec (p q : path) : {p = q} + {p <> q}.
Proof.
  destruct (path_eqb p q) eqn:E; [left; apply path_eqb_eq; exact E|right; apply path_eqb_false; exact E].
Qed.

(* ---------- the file map -------------------------------------------------- *)

Lemma fs_get_del_same p fs : fs_get p (fs_del p fs) = None.
Proof.
  induction fs as [|[q v] t IH]; cbn; [reflexivity|].
  destruct (path_eqb q p) eqn:E; [exact IH|]. cbn. rewrite E. exact IH.
Qed.

Lemma fs_get_del_other p q fs : p <> q -> fs_get q (fs_del p fs) = fs_get q fs.
Proof.
  intros Hne. induction fs as [|[x v] t IH]; cbn; [reflexivity|].
  destruct (path_eqb x p) eqn:E.
  - apply path_eqb_eq in E; subst x. rewrite (path_eqb_neq p q Hne). exact IH.
  - cbn. destruct (path_eqb x q); [reflexivity|exact IH].
Qed.

Lemma fs_get_set_same p v fs : fs_get p (fs_set p v fs) = Some v.
Proof. unfold fs_set; cbn. rewrite path_eqb_refl; reflexivity. Qed.

Lemma fs_get_set_other p q v fs : p <> q -> fs_get q (fs_set p v fs) = fs_get q fs.
Proof.
  intros Hne. unfold fs_set; cbn. rewrite (path_eqb_neq p q Hne). apply fs_get_del_other; exact Hne.
Qed.

Lemma fs_get_del p q fs :
  fs_get q (fs_del p fs) = if path_eqb p q then None else fs_get q fs.
Proof.
  destruct (path_eqb p q) eqn:E.
  - apply path_eqb_eq in E; subst; apply fs_get_del_same.
  - apply fs_get_del_other, path_eqb_false; exact E.
Qed.

Lemma fs_get_set p q v fs :
  fs_get q (fs_set p v fs) = if path_eqb p q then Some v else fs_get q fs.
Proof.
  destruct (path_eqb p q) eqn:E.
  - apply path_eqb_eq in E; subst; apply fs_get_set_same.
  - apply fs_get_set_other, path_eqb_false; exact E.
Qed.

(* ---------- mem / dedup / order_by --------------------------------------- *)

Lemma mem_In p l : mem p l = true <-> In p l.
Proof.
  unfold mem. rewrite existsb_exists. split.
  - intros [x [Hx E]]. apply path_eqb_eq in E; subst; exact Hx.
  - intros H; exists p; split; [exact H|apply path_eqb_refl].
Qed.

Lemma mem_false p l : mem p l = false <-> ~ In p l.
Proof.
  split; intros H.
  - intros Hin. apply mem_In in Hin. congruence.
  - destruct (mem p l) eqn:E; [apply mem_In in E; contradiction|reflexivity].
Qed.

Lemma dedup_In p l : In p (dedup l) <-> In p l.
Proof.
  induction l as [|x t IH]; cbn; [tauto|].
  destruct (mem x t) eqn:E.
  - rewrite IH. split; [tauto|]. intros [->|H]; [apply mem_In; exact E|exact H].
  - cbn. rewrite IH. tauto.
Qed.

Lemma order_by_In ro l p : In p (order_by ro l) <-> In p l.
Proof.
  unfold order_by. rewrite in_app_iff, !filter_In, dedup_In. split.
  - intros [[_ H]|[H _]]; [apply mem_In; exact H|exact H].
  - intros H. destruct (mem p ro) eqn:E.
    + left; split; [apply mem_In; exact E|apply mem_In; exact H].
    + right; split; [exact H|reflexivity].
Qed.

(* ---------- what a list of operations does -------------------------------- *)

Definition fapply (fs : fsmap) (o : fsop) : fsmap :=
  match o with
  | MkTmp t => fs_set t empty_content fs
  | Fill t v => fs_set t v fs
  | Replace s t => match fs_get s fs with Some v => fs_set t v (fs_del s fs) | None => fs end
  | Append _ => fs
  | Remove p => fs_del p fs
  end.

Definition appended (o : fsop) : list row := match o with Append r => [r] | _ => [] end.

Lemma apply_op_files d o : files (apply_op d o) = fapply (files d) o.
Proof. destruct o; cbn; try reflexivity. destruct (fs_get src (files d)); reflexivity. Qed.

Lemma apply_op_csv d o : csv (apply_op d o) = csv d ++ appended o.
Proof.
  destruct o; cbn; rewrite ?app_nil_r; try reflexivity.
  destruct (fs_get src (files d)); cbn; rewrite ?app_nil_r; reflexivity.
Qed.

Lemma apply_ops_files ops : forall d, files (apply_ops d ops) = fold_left fapply ops (files d).
Proof.
  induction ops as [|o t IH]; intros d; [reflexivity|].
  cbn [apply_ops fold_left]. change (fold_left apply_op t (apply_op d o)) with (apply_ops (apply_op d o) t).
  rewrite IH, apply_op_files. reflexivity.
Qed.

Lemma apply_ops_csv ops : forall d, csv (apply_ops d ops) = csv d ++ flat_map appended ops.
Proof.
  induction ops as [|o t IH]; intros d; cbn [flat_map]; [rewrite app_nil_r; reflexivity|].
  cbn [apply_ops fold_left]. change (fold_left apply_op t (apply_op d o)) with (apply_ops (apply_op d o) t).
  rewrite IH, apply_op_csv, app_assoc. reflexivity.
Qed.

Lemma apply_ops_app d a b : apply_ops d (a ++ b) = apply_ops (apply_ops d a) b.
Proof. unfold apply_ops. apply fold_left_app. Qed.

(* the paths an operation can change *)
Definition touches (o : fsop) : list path :=
  match o with
  | MkTmp t => [t] | Fill t _ => [t] | Replace s t => [s; t] | Append _ => [] | Remove p => [p]
  end.

Lemma fapply_untouched q fs o : ~ In q (touches o) -> fs_get q (fapply fs o) = fs_get q fs.
Proof.
  destruct o; cbn; intros H.
  - apply fs_get_set_other; intuition.
  - apply fs_get_set_other; intuition.
  - destruct (fs_get src fs); [|reflexivity].
    rewrite fs_get_set_other, fs_get_del_other by intuition. reflexivity.
  - reflexivity.
  - apply fs_get_del_other; intuition.
Qed.

Lemma fold_untouched q ops : forall fs,
  (forall o, In o ops -> ~ In q (touches o)) ->
  fs_get q (fold_left fapply ops fs) = fs_get q fs.
Proof.
  induction ops as [|o t IH]; intros fs H; [reflexivity|].
  cbn [fold_left]. rewrite IH by (intros; apply H; right; assumption).
  apply fapply_untouched, H; left; reflexivity.
Qed.

Lemma fold_removes q l : forall fs,
  fs_get q (fold_left fapply (map Remove l) fs) = if mem q l then None else fs_get q fs.
Proof.
  induction l as [|p t IH]; intros fs; [reflexivity|].
  cbn [map fold_left fapply]. rewrite IH. cbn [mem existsb].
  fold (mem q t). destruct (mem q t); [rewrite orb_true_r; reflexivity|].
  rewrite orb_false_r, fs_get_del.
  destruct (path_eqb p q) eqn:E.
  - apply path_eqb_eq in E; subst. rewrite path_eqb_refl; reflexivity.
  - destruct (path_eqb q p) eqn:E'; [apply path_eqb_eq in E'; subst; rewrite path_eqb_refl in E; discriminate|reflexivity].
Qed.

(* save_model_and_optimizer_with_info, run to the end *)
Lemma save_ops_get P cn e v fs q :
  fs_get q (fold_left fapply (save_ops P cn e v) fs) =
  if path_eqb (pth P KO e) q then Some v
  else if path_eqb (pth P KM e) q then Some v
  else if path_eqb (Tmp cn KO) q then None
  else if path_eqb (Tmp cn KM) q then None
  else fs_get q fs.
Proof.
  unfold save_ops. cbn [fold_left fapply].
  assert (T1 : fs_get (Tmp cn KM)
                 (fs_set (Tmp cn KO) v (fs_set (Tmp cn KO) empty_content
                   (fs_set (Tmp cn KM) v (fs_set (Tmp cn KM) empty_content fs)))) = Some v).
  { rewrite !fs_get_set. cbn [path_eqb kind_eqb]. rewrite Nat.eqb_refl. cbn. reflexivity. }
  rewrite T1.
  assert (T2 : fs_get (Tmp cn KO)
                 (fs_set (pth P KM e) v (fs_del (Tmp cn KM)
                   (fs_set (Tmp cn KO) v (fs_set (Tmp cn KO) empty_content
                     (fs_set (Tmp cn KM) v (fs_set (Tmp cn KM) empty_content fs)))))) = Some v).
  { rewrite fs_get_set. unfold pth at 1. cbn [path_eqb].
    rewrite fs_get_del. cbn [path_eqb kind_eqb]. rewrite Nat.eqb_refl. cbn [andb].
    rewrite fs_get_set. cbn [path_eqb kind_eqb]. rewrite Nat.eqb_refl. reflexivity. }
  rewrite T2.
  repeat (rewrite fs_get_set || rewrite fs_get_del).
  destruct (path_eqb (pth P KO e) q); [reflexivity|].
  destruct (path_eqb (Tmp cn KO) q) eqn:E2.
  - apply path_eqb_eq in E2; subst q. unfold pth. cbn [path_eqb]. reflexivity.
  - destruct (path_eqb (pth P KM e) q); [reflexivity|].
    destruct (path_eqb (Tmp cn KM) q); reflexivity.
Qed.

(* ... and any prefix of it only touches the temporary files and the two targets *)
Lemma save_ops_touches P cn e v o q :
  In o (save_ops P cn e v) -> In q (touches o) ->
  q = Tmp cn KM \/ q = Tmp cn KO \/ q = pth P KM e \/ q = pth P KO e.
Proof.
  unfold save_ops. cbn [In]. intros [<-|[<-|[<-|[<-|[<-|[<-|[]]]]]]]; cbn [touches In]; intuition.
Qed.

Lemma In_firstn {A} (x : A) k l : In x (firstn k l) -> In x l.
Proof.
  revert l; induction k as [|k IH]; intros [|y t]; cbn; try tauto.
  intros [->|H]; [left; reflexivity|right; apply IH; exact H].
Qed.

(* ---------- the cache ------------------------------------------------------ *)

Lemma cache_set_fresh r c : ~ In (r_epoch r) (map r_epoch c) -> cache_set r c = c ++ [r].
Proof.
  induction c as [|x t IH]; cbn; intros H; [reflexivity|].
  destruct (Nat.eqb (r_epoch x) (r_epoch r)) eqn:E.
  - apply Nat.eqb_eq in E. exfalso; apply H; left; exact E.
  - f_equal. apply IH. intros Hin; apply H; right; exact Hin.
Qed.

Lemma read_cache_snoc l r : read_cache (l ++ [r]) = cache_set r (read_cache l).
Proof. unfold read_cache. rewrite fold_left_app. reflexivity. Qed.

Lemma read_cache_nodup l : NoDup (map r_epoch l) -> read_cache l = l.
Proof.
  induction l as [|r t IH] using rev_ind; intros H; [reflexivity|].
  rewrite read_cache_snoc. rewrite map_app in H. cbn in H.
  apply NoDup_remove in H as [H1 H2]. rewrite app_nil_r in H1, H2.
  rewrite IH by exact H1. apply cache_set_fresh. exact H2.
Qed.

Lemma last_epoch_snoc c r : last_epoch (c ++ [r]) = Nat.max (last_epoch c) (r_epoch r).
Proof. unfold last_epoch. rewrite fold_left_app. reflexivity. Qed.

Lemma seq_snoc a n : seq a (S n) = seq a n ++ [a + n].
Proof. rewrite seq_S. reflexivity. Qed.

Lemma last_epoch_seq : forall n c, map r_epoch c = seq 1 n -> last_epoch c = n.
Proof.
  induction n as [|n IH]; intros c H.
  - destruct c; [reflexivity|discriminate].
  - rewrite seq_snoc in H.
    destruct (exists_last (l := c)) as [c' [r ->]].
    { intros ->. cbn in H. destruct (seq 1 n); discriminate. }
    rewrite map_app in H. cbn [map] in H. apply app_inj_tail in H as [H1 H2].
    rewrite last_epoch_snoc, (IH c' H1), H2. lia.
Qed.

Definition best_state (b : bool) (c : cache) : nat * option Z := fold_left (best_step b) c (0, None).

Lemma best_epoch_snoc b c r :
  best_epoch b (c ++ [r]) =
  if lt_inf (met b r) (snd (best_state b c)) then r_epoch r else best_epoch b c.
Proof.
  unfold best_epoch, best_state. rewrite fold_left_app. cbn [fold_left]. unfold best_step at 1.
  destruct (lt_inf (met b r) (snd (fold_left (best_step b) c (0, None)))); reflexivity.
Qed.

Lemma best_epoch_In b c : best_epoch b c = 0 \/ In (best_epoch b c) (map r_epoch c).
Proof.
  induction c as [|r t IH] using rev_ind; [left; reflexivity|].
  rewrite best_epoch_snoc, map_app, in_app_iff. cbn [map In].
  destruct (lt_inf _ _); [right; right; left; reflexivity|]. tauto.
Qed.

Lemma best_epoch_le b c n : map r_epoch c = seq 1 n -> best_epoch b c <= n.
Proof.
  intros H. destruct (best_epoch_In b c) as [->|Hin]; [lia|].
  rewrite H in Hin. apply in_seq in Hin. lia.
Qed.

(* decisions only look at epochs and metrics, never at the tag column *)
Lemma best_state_hrow b c1 c2 : map hrow c1 = map hrow c2 -> best_state b c1 = best_state b c2.
Proof.
  unfold best_state. generalize (0, @None Z).
  revert c2; induction c1 as [|x t IH]; intros [|y u] st H; try discriminate; [reflexivity|].
  cbn [map] in H.
  pose proof (f_equal (@hd _ (hrow x)) H) as Hxy. pose proof (f_equal (@tl _) H) as Ht.
  cbn [hd tl] in Hxy, Ht. cbn [fold_left].
  assert (E : best_step b st x = best_step b st y).
  { assert (r_epoch x = r_epoch y /\ r_train x = r_train y /\ r_val x = r_val y) as (E1 & E2 & E3)
      by (unfold hrow in Hxy; injection Hxy; auto).
    unfold best_step, met. rewrite E1, E2, E3. reflexivity. }
  rewrite E. apply IH; exact Ht.
Qed.

Lemma best_epoch_hrow b c1 c2 : map hrow c1 = map hrow c2 -> best_epoch b c1 = best_epoch b c2.
Proof. intros H. unfold best_epoch. change (fst (best_state b c1) = fst (best_state b c2)). rewrite (best_state_hrow b c1 c2 H). reflexivity. Qed.

Lemma hrow_epochs c1 c2 : map hrow c1 = map hrow c2 -> map r_epoch c1 = map r_epoch c2.
Proof.
  intros H. assert (E : forall c, map r_epoch c = map fst (map hrow c)).
  { intros c. rewrite map_map. reflexivity. }
  rewrite !E, H. reflexivity.
Qed.
