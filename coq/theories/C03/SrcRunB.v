(* C03, second tie — the translated source of `hard_optimal_completion_distillation_loss` (_string.py) as an executable: the
   environment [ext03B], the encoding of the model's inputs as MiniPy tensor values, and the correspondence entry point
   [src_loss_check] (same interface as Model.check_loss, plus the logits).  Definitions only; the lemmas are in TieB*.v.

   PV.Gen.C03BSrc.* are regenerated from /repo/src/pydrobert/torch/_string.py on every C03 run by harness/py2coq/translate.py:
     loss_body    the WHOLE body of hard_optimal_completion_distillation_loss
     loss_checks  "if logits.dim() != 3:" .. "if include_eos:"            (the four argument checks)
     loss_call    "optimals = optimal_completion(...)"                    (the call)
     loss_ce      "max_unique_next = optimals.size(-1)" .. "loss = loss / (~padding_mask).sum(2).clamp_min(1)"
     loss_red     "if reduction == 'mean':" .. "return loss"              (the reductions)
   The decorators (@script, @functional_wrapper) are outside the bodies: the tie is about the text as eager CPython runs it.

   [ext03B lsm] = the new vocabulary of the loss ([ext03B_new], meanings in PV.MiniTorch.OpsC03B), falling back to
   PV.C03.SrcRun.ext03_oc (read-only) for everything `optimal_completion` / `_string_matching` already use.  What is new:
     optimal_completion(ref, hyp, eos=, include_eos=, batch_first=, ins_cost=, del_cost=, sub_cost=, padding=, exclude_last=, warn=)
         = the interpretation of PV.Gen.C03Src.oc_body (the FIRST tie's term) by C03.SrcRun.ext03_oc on fresh variables
     x.size(d)   x.shape[a:b] (slice of a Python tuple)   x.expand(a, b, c, d) [4-D]   x.contiguous()   x.flatten(s, e) / x.flatten()
     torch.nn.functional.cross_entropy(x, t, weight=, ignore_index=, reduction="none")   x.view_as(y)
     x.sum(d) / x.sum() / x.mean() [float]   ~x [bool]   x.clamp_min(c) [long]   float / long (tensors)
   log_softmax is the oracle [lsm] (see OpsC03B).  f-strings of the error messages are dropped by the translator (pure).
   ASSUMPTIONS as in C03.SrcRun: ref / hyp long tensors, logits / weight float tensors (exact rationals), costs Python floats,
   dtypes select conversions only, devices ignored, IEEE rounding not modelled. *)
From Coq Require Import ZArith QArith Qabs List String Bool.
From PV Require Import MiniPy.Syntax MiniPy.Interp MiniTorch.Ops MiniTorch.OpsC07 MiniTorch.OpsC01 MiniTorch.OpsC03 MiniTorch.OpsC03B.
From PV Require Import Gen.C03Src Gen.C03BSrc.
From PV Require Import C01.SrcRun C03.SrcRun.
From PV Require C01.Obs C01.Model C03.Model.
Import ListNotations.
Local Open Scope string_scope.

Definition oc_kw_names : list string :=
  ["eos"; "include_eos"; "batch_first"; "ins_cost"; "del_cost"; "sub_cost"; "padding"; "exclude_last"; "warn"].

Fixpoint strs_eqb (a b : list string) : bool :=
  match a, b with
  | [], [] => true
  | x :: a', y :: b' => (String.eqb x y && strs_eqb a' b')%bool
  | _, _ => false
  end.

(* a call of the first tie's translated `optimal_completion`: its body on fresh variables; the caller's state is unchanged *)
Definition call_body_oc (vars0 : list (string * val)) (st : state) : outcome val :=
  match Interp.run ext03_oc oc_body vars0 with
  | Ok v _ => Ok v st
  | Exc n _ => Exc n st
  | Stuck w => Stuck w
  end.

Definition size01 (t : any01) (d : Z) : option nat :=
  match t with AB x => size_dim x d | AI x => size_dim x d | AX x => size_dim x d end.

(* weight=None | a float tensor *)
Definition dec_weight (v : val) : option (option (tn fx)) :=
  match v with
  | VNone => Some None
  | _ => match dec01 v with Some (AX t) => Some (Some t) | _ => None end
  end.

Section Oracle.
  (* log softmax of one row of logits (regime T: data) *)
  Variable lsm : list fx -> list Q.

  (* the calls that are not in ext03_oc's vocabulary (None: not one of them - ext03_oc is asked) *)
  Definition ext03B_new (f : string) (args : list val) (kw : list (string * val)) (st : state) : option (outcome val) :=
    if is f "optimal_completion" then
      Some match args with
           | [ref; hyp] =>
               if strs_eqb (map fst kw) oc_kw_names
               then call_body_oc ([("ref", ref); ("hyp", hyp)] ++ kw ++ globals01) st
               else Stuck "optimal_completion: keywords"
           | _ => Stuck "optimal_completion: arguments"
           end
    else if is f "torch.nn.functional.cross_entropy" then
      Some match args, kw with
           | [x; t], [(k1, w); (k2, VInt ign); (k3, VStr red)] =>
               if (is k1 "weight" && is k2 "ignore_index" && is k3 "reduction" && is red "none")%bool then
                 match dec01 x, dec01 t, dec_weight w with
                 | Some (AX x'), Some (AI t'), Some w' =>
                     match cross_entropy_none lsm x' t' w' ign with
                     | Some (Some r) => Ok (enc_x r) st
                     | Some None => Exc index_error st
                     | None => oob "cross_entropy"
                     end
                 | _, _, _ => Stuck "cross_entropy: operands"
                 end
               else Stuck "cross_entropy: keywords"
           | _, _ => Stuck "cross_entropy"
           end
    else if negb (no_kw kw) then None
    else if is f "$method.size" then
      match args with
      | [t; VInt d] => Some match dec01 t with
                            | Some x => match size01 x d with
                                        | Some n => Ok (VInt (Z.of_nat n)) st
                                        | None => oob "size"
                                        end
                            | None => Stuck "size"
                            end
      | _ => None
      end
    else if is f "$getitem" then
      match args with
      | [VTuple l; k] =>
          if foreign (VTuple l) then None
          else match dec_slice k with
               | Some (a, b) =>
                   let n := List.length l in
                   let lo := slice_bound n 0 a in
                   let hi := slice_bound n n b in
                   Some (Ok (VTuple (firstn (hi - lo) (skipn lo l))) st)      (* tuple[a:b] *)
               | None => None
               end
      | _ => None
      end
    else if is f "$method.expand" then
      match args with
      | [t; VInt a; VInt b; VInt c; VInt d] =>
          Some match dec01 t with
               | Some x => ret01 "expand4" (map01 (fun X dflt y => expand4 dflt y a b c d) x) st
               | None => Stuck "expand4"
               end
      | _ => None
      end
    else if is f "$method.contiguous" then
      match args with
      | [t] => Some match dec01 t with Some x => Ok (enc01 x) st | None => Stuck "contiguous" end
      | _ => None
      end
    else if is f "$method.flatten" then
      match args with
      | [t; VInt s; VInt e] =>
          Some match dec01 t with
               | Some x => ret01 "flatten" (map01 (fun X _ y => flatten_range y s e) x) st
               | None => Stuck "flatten"
               end
      | [t] =>
          Some match dec01 t with
               | Some x => ret01 "flatten" (map01 (fun X _ y => flatten_range y 0 (-1)) x) st
               | None => Stuck "flatten"
               end
      | _ => None
      end
    else if is f "$method.view_as" then
      match args with
      | [t; o] =>
          Some match dec01 t, dec01 o with
               | Some x, Some y => ret01 "view_as" (map01 (fun X _ z => view_as z (shape01 y)) x) st
               | _, _ => Stuck "view_as"
               end
      | _ => None
      end
    else if is f "$method.sum" then
      match args with
      | [t; VInt d] => match dec01 t with
                       | Some (AX x) => Some (ret01 "sum(dim)" (option_map AX (sum_dim_f x d)) st)
                       | _ => None
                       end
      | [t] => match dec01 t with
               | Some (AX x) => Some (Ok (enc_x (sum_all_f x)) st)
               | _ => None
               end
      | _ => None
      end
    else if is f "$method.mean" then
      match args with
      | [t] => match dec01 t with
               | Some (AX x) => Some (Ok (enc_x (mean_all_f x)) st)
               | _ => None
               end
      | _ => None
      end
    else if is f "$invert" then
      match args with
      | [t] => match dec01 t with
               | Some (AB x) => Some (Ok (enc_b (not_b x)) st)
               | _ => None
               end
      | _ => None
      end
    else if is f "$method.clamp_min" then
      match args with
      | [t; VInt c] => match dec01 t with
                       | Some (AI x) => Some (Ok (enc_i (clamp_min_i x c)) st)
                       | _ => None
                       end
      | _ => None
      end
    else if is f "operator" then
      match args with
      | [VStr o; a; b] =>
          if is o "truediv" then
            match dec01 a, dec01 b with
            | Some (AX x), Some (AI y) => Some (ret01 "truediv" (option_map AX (div_xi x y)) st)
            | _, _ => None
            end
          else None
      | _ => None
      end
    else None.

  (* the environment of `hard_optimal_completion_distillation_loss`'s body *)
  Definition ext03B (f : string) (args : list val) (kw : list (string * val)) (st : state) : outcome val :=
    match ext03B_new f args kw st with
    | Some o => o
    | None => ext03_oc f args kw st
    end.
End Oracle.

(* ---- the arguments ------------------------------------------------------------------------------------------------- *)
Definition red_str (r : C03.Model.reduction) : string :=
  match r with C03.Model.RNone => "none" | C03.Model.RSum => "sum" | C03.Model.RMean => "mean" end.

(* logits exactly as handed to the implementation: nested lists in hyp's layout plus the class axis (N rows of H vectors when
   batch_first, else H rows of N vectors), each vector of V entries *)
Definition logits_tensor (bf : bool) (N V : nat) (lg : list (list (list fx))) : tn fx :=
  mkTn (if bf then [N; List.length (hd [] lg); V] else [List.length lg; N; V]) (List.concat (List.concat lg)).

Definition weight_val (w : option (list Q)) : val :=
  match w with Some wv => enc_x (mkTn [List.length wv] (map Fq wv)) | None => VNone end.

(* hard_optimal_completion_distillation_loss(logits, ref, hyp, eos, include_eos, batch_first, ins_cost, del_cost, sub_cost,
   weight, reduction, ignore_index, warn) *)
Definition loss_vars_gen (logits ref hyp eos incl bf qi qd qs weight reduction ign warn : val) : list (string * val) :=
  [("logits", logits); ("ref", ref); ("hyp", hyp); ("eos", eos); ("include_eos", incl); ("batch_first", bf);
   ("ins_cost", qi); ("del_cost", qd); ("sub_cost", qs); ("weight", weight); ("reduction", reduction);
   ("ignore_index", ign); ("warn", warn)] ++ globals01.

Definition loss_vars (c : C01.Model.cfg) (w : option (list Q)) (red : string) (scale : Z) (N V : nat)
  (ref hyp : list (list Z)) (lg : list (list (list fx))) : list (string * val) :=
  loss_vars_gen (enc_x (logits_tensor (C01.Model.c_bf c) N V lg))
    (enc_i (mat_tensor (C01.Model.c_bf c) N ref)) (enc_i (mat_tensor (C01.Model.c_bf c) N hyp))
    (opt_int (C01.Model.c_eos c)) (VBool (C01.Model.c_incl c)) (VBool (C01.Model.c_bf c))
    (VQ (cost_q scale (C01.Model.c_ins c))) (VQ (cost_q scale (C01.Model.c_del c))) (VQ (cost_q scale (C01.Model.c_sub c)))
    (weight_val w) (VStr red) (VInt (C01.Model.c_pad c)) (VBool false).

(* the blocks in sequence *)
Definition loss_blocks : stmt := SSeq loss_checks (SSeq loss_call (SSeq loss_ce loss_red)).

(* ---- executable entry points for the correspondence -------------------------------------------------------------------
   outer None: the interpreter got stuck / returned something that is not a float tensor; Some None: the source raised *)
Definition src_loss (lsm : list fx -> list Q) (body : stmt) (c : C01.Model.cfg) (w : option (list Q)) (red : string) (scale : Z)
  (N V : nat) (ref hyp : list (list Z)) (lg : list (list (list fx))) : option (option (tn fx)) :=
  match Interp.run (ext03B lsm) body (loss_vars c w red scale N V ref hyp lg) with
  | Ok v _ => match dec01 v with
              | Some (AX t) => Some (Some t)
              | _ => None
              end
  | Exc _ _ => Some None
  | Stuck _ => None
  end.

(* the oracle of a run: torch's own log_softmax rows, looked up by the row of logits (exact comparison) *)
Fixpoint fxs_same (a b : list fx) : bool :=
  match a, b with
  | [], [] => true
  | x :: a', y :: b' => (fx_same x y && fxs_same a' b')%bool
  | _, _ => false
  end.

Definition lsm_table (tbl : list (list fx * list Q)) (row : list fx) : list Q :=
  match find (fun e => fxs_same (fst e) row) tbl with
  | Some e => snd e
  | None => []
  end.

Definition fx_close (tol : Q) (x : fx) (q : Q) : bool :=
  match x with Fq p => C03.Model.qclose tol p q | _ => false end.

(* same interface as Model.check_loss (cfg, weight, reduction, N, ref, hyp, logp, tol, observed grid / scalar) plus the class
   count, the cost scale and the logits (rationals, same layout as logp); the whole body AND the blocks run in sequence *)
Definition src_loss_check1 (body : stmt) (c : C01.Model.cfg) (w : option (list Q)) (red : C03.Model.reduction) (scale : Z)
  (N V : nat) (ref hyp : list (list Z)) (logits logp : list (list (list Q))) (tol : Q)
  (obs_grid : list (list Q)) (obs_scalar : Q) : bool :=
  let lg := map (map (map Fq)) logits in
  let tbl := combine (List.concat lg) (List.concat logp) in
  match src_loss (lsm_table tbl) body c w (red_str red) scale N V ref hyp lg with
  | Some (Some t) =>
      match red with
      | C03.Model.RNone =>
          (nats_eqb (shp t) [List.length obs_grid; List.length (hd [] obs_grid)]
           && C01.Obs.forall2b (fx_close tol) (dat t) (List.concat obs_grid))%bool
      | _ => (nats_eqb (shp t) [] && C01.Obs.forall2b (fx_close tol) (dat t) [obs_scalar])%bool
      end
  | _ => false
  end.

Definition src_loss_check (c : C01.Model.cfg) (w : option (list Q)) (red : C03.Model.reduction) (scale : Z)
  (N V : nat) (ref hyp : list (list Z)) (logits logp : list (list (list Q))) (tol : Q)
  (obs_grid : list (list Q)) (obs_scalar : Q) : bool :=
  (src_loss_check1 loss_body c w red scale N V ref hyp logits logp tol obs_grid obs_scalar
   && src_loss_check1 loss_blocks c w red scale N V ref hyp logits logp tol obs_grid obs_scalar)%bool.
