(* C03 - the source tie of `_string_matching` (src/pydrobert/torch/_string.py) for the call `optimal_completion` makes
   (return_mask = True, exclude_last arbitrary, norm / return_prf_dsts / return_mistakes at their default False), checked by the
   kernel.  PV.Gen.C03Src.{sm3_pre, sm3_row0, sm3_main, sm3_loop, sm3_body, sm3_lens} are the MiniPy terms
   harness/py2coq/translate.py regenerates from /repo on every C03 run; PV.MiniPy.Interp is their semantics; the torch calls
   mean what PV.MiniTorch.OpsC03 / OpsC01 / OpsC07 say (through SrcRun.ext03).  Statements, for EVERY batch size, tensor widths,
   token values, lengths, eos / include_eos / batch_first / exclude_last setting and costs (integers ci cd cs over any common
   denominator s, i.e. the floats c / s):

     loop_body_is_mask_step   one execution of the loop body = Model.mask_step in every column: the carried row (with +inf)
                              and the appended mask row (TieLoop.body_run3)
     loop_is_masks_loop       the whole `for hyp_idx` loop = the iteration of mask_step (TieIter.loop_tie3)
     mask_is_model            the blocks sm3_pre; sm3_row0; sm3_main run in sequence on the arguments of the call RETURN the
                              (H', R, N) boolean tensor of Model.oc_masks; the same for the whole body sm3_body as one term
     mask_marks_preserving    composed with C03.ProofsMask.pair_masks_spec, ProofsMain.argmin_transfer and
                              ProofsSpec.preserving_iff_argmin: for positive costs, the tokens found at the marked positions of
                              row k, column n are exactly the tokens that keep the best reachable distance

   Files: TieLib (tactics, what reaches ext03), TieMath (arithmetic with +inf), TieLoop (loop body), TieIter (loop), TiePre
   (preamble, `_lens_from_eos`), TieBlocks (row 0 / del_mat, first mask row, loop, stack + restriction to ref_lens). *)
From Coq Require Import ZArith QArith List String Bool Arith Lia ZifyBool ZifyNat.
From PV Require Import MiniPy.Syntax MiniPy.Interp MiniPy.Lemmas MiniTorch.Ops MiniTorch.Lemmas MiniTorch.OpsC07 MiniTorch.LemmasC07
  MiniTorch.OpsC01 MiniTorch.LemmasC01 MiniTorch.OpsC03 MiniTorch.LemmasC03.
From PV Require Import Gen.C03Src C01.SrcRun C01.TieLib C01.TieMath C01.TieWhole C01.TiePre
  C03.SrcRun C03.TieLib C03.TieMath C03.TieLoop C03.TieIter C03.TiePre C03.TieBlocks.
From PV Require C01.Obs C01.Spec C01.Model C01.LevFacts C01.Proofs C01.TieLoop C01.Tie
  C03.Spec C03.Model C03.ProofsSpec C03.ProofsMask C03.ProofsSelect C03.ProofsTop C03.ProofsMain.
Import ListNotations.
Local Open Scope string_scope.

#[local] Arguments dec01 : simpl never.
#[local] Arguments enc_b : simpl never.
#[local] Arguments enc_i : simpl never.
#[local] Arguments enc_x : simpl never.
#[local] Arguments tab2 : simpl never.
#[local] Arguments tab3 : simpl never.
#[local] Arguments qz : simpl never.
#[local] Arguments Z.add : simpl never.
#[local] Arguments Z.sub : simpl never.
#[local] Arguments Z.of_nat : simpl never.
#[local] Arguments select0 : simpl never.
#[local] Arguments slice0 : simpl never.
#[local] Arguments set_slice0 : simpl never.
#[local] Arguments broadcast : simpl never.
#[local] Arguments where_f : simpl never.
#[local] Arguments min_dim : simpl never.
#[local] Arguments min_dim_keep : simpl never.
#[local] Arguments set_row0 : simpl never.
#[local] Arguments stack0 : simpl never.
#[local] Arguments gather0 : simpl never.
#[local] Arguments unsqueeze : simpl never.
#[local] Arguments squeeze_dim : simpl never.
#[local] Arguments expand2 : simpl never.
#[local] Arguments triu_f : simpl never.
#[local] Arguments transpose2 : simpl never.
#[local] Arguments arange_f : simpl never.
#[local] Arguments arange : simpl never.
#[local] Arguments full : simpl never.
#[local] Arguments fadd : simpl never.
#[local] Arguments fsub : simpl never.
#[local] Arguments fmul : simpl never.
#[local] Arguments fdiv : simpl never.
#[local] Arguments fmin : simpl never.
#[local] Arguments fx_gtb : simpl never.
#[local] Arguments fx_eqb : simpl never.
#[local] Arguments b2f : simpl never.
#[local] Arguments z2f : simpl never.
#[local] Arguments ext01 : simpl never.
#[local] Arguments ext03 : simpl never.
#[local] Arguments zf : simpl never.
#[local] Arguments ofx : simpl never.
#[local] Arguments argmin_3 : simpl never.
#[local] Arguments argmin_2 : simpl never.
#[local] Arguments seq : simpl never.
#[local] Arguments fmin_list : simpl never.
#[local] Arguments zrange : simpl never.

Notation colf := C01.TieLoop.colf.
Notation wf_src := C01.Tie.wf_src.
Notation at_src := C01.Tie.at_src.

(* ---- names used by the statements of Properties.v (which holds no string literal) ----------------------------- *)
Definition hyp_idx_name : string := "hyp_idx".
Definition max_hyp_steps_name : string := "max_hyp_steps".

(* one execution of the loop body with hyp_idx = k *)
Definition run_loop_body (k : nat) (st : state) : outcome ctl :=
  exec ext03 loop_body3 (set_var hyp_idx_name (VInt (Z.of_nat k)) st).

Definition run_loop (st : state) : outcome ctl := exec ext03 sm3_loop st.

Definition max_hyp_steps_is (H : nat) (st : state) : Prop :=
  lookup max_hyp_steps_name (vars st) = Some (VInt (Z.of_nat H)).

(* ---- (1) the loop body --------------------------------------------------------------------------------------- *)
Theorem loop_body_is_mask_step :
  forall (s : positive) (ci cd cs : Z) (R N H : nat) (rf hf : nat -> nat -> Z) (rl hl : nat -> nat) (excl : bool)
         (st : state) (k : nat) (lf : nat -> nat -> option Z) (ms : list (nat -> nat -> bool)),
  (1 <= k <= H)%nat ->
  body_pre3 s ci cd cs R N H rf hf rl hl excl lf ms st ->
  runs_to (body_pre3 s ci cd cs R N H rf hf rl hl excl
             (fun i n => nth i (fst (C03.Model.mask_step ci cd cs (colf R rf n) (colf H hf n) (rl n) (hl n) excl k (colo (S R) lf n))) None)
             (ms ++ [fun i n => nth i (snd (C03.Model.mask_step ci cd cs (colf R rf n) (colf H hf n) (rl n) (hl n) excl k
                                              (colo (S R) lf n))) false]))
          (run_loop_body k st).
Proof. intros. now apply body_run3. Qed.

(* ---- (2) the loop ---------------------------------------------------------------------------------------------- *)
Theorem loop_is_masks_loop :
  forall (s : positive) (ci cd cs : Z) (R N H : nat) (rf hf : nat -> nat -> Z) (rl hl : nat -> nat) (excl : bool)
         (st : state) (lf : nat -> nat -> option Z) (ms : list (nat -> nat -> bool)),
  body_pre3 s ci cd cs R N H rf hf rl hl excl lf ms st -> max_hyp_steps_is H st ->
  let steps := (H + (if excl then 0 else 1) - 1)%nat in
  runs_to (body_pre3 s ci cd cs R N H rf hf rl hl excl
             (fun i n => nth i (iter_mrow ci cd cs (colf R rf n) (colf H hf n) (rl n) (hl n) excl steps 1 (colo (S R) lf n)) None)
             (ms ++ map (fun j i n =>
                           nth i (nth j (C03.Model.masks_loop ci cd cs (colf R rf n) (colf H hf n) (rl n) (hl n) excl steps 1
                                           (colo (S R) lf n)) []) false) (seq 0 steps)))
          (run_loop st).
Proof. intros. now apply loop_tie3. Qed.

(* ---- the whole body as one term: its loop differs from sm3_loop in the name of a temporary only ----------------- *)
Definition loop3b : stmt := match seq_drop 19 sm3_body with SSeq a _ => a | _ => SPass end.
Definition body3b : stmt := match loop3b with SFor _ _ b => b | _ => SPass end.
Definition rest3b : stmt := seq_drop 21 sm3_body.      (* the statements after the exit of the mask path: never reached *)
Lemma loop3b_eq : loop3b = SFor "hyp_idx" loop_iter3 body3b.
Proof. reflexivity. Qed.

Lemma sm3_body_split : forall st,
  exec ext03 sm3_body st =
  exec ext03 (SSeq sm3_pre (SSeq sm3_row0 (SSeq (SSeq main_flags3 (SSeq loop3b main_exit3)) rest3b))) st.
Proof. intros st. rewrite !(xexec_flatten ext03). f_equal. Qed.

Section Body3b.
  Variables (s : positive) (ci cd cs : Z) (R N H : nat) (rf hf : nat -> nat -> Z) (rl hl : nat -> nat) (excl : bool).
  Notation pre := (body_pre3 s ci cd cs R N H rf hf rl hl excl).

  Theorem body_run3b : forall st k lf ms, (1 <= k <= H)%nat -> pre lf ms st ->
    runs_to (pre (fun i n => nth i (mrow_col ci cd cs R H rf hf rl hl excl k lf n) None)
                 (ms ++ [fun i n => nth i (mbits_col ci cd cs R H rf hf rl hl excl k lf n) false]))
            (exec ext03 body3b (set_var "hyp_idx" (VInt (Z.of_nat k)) st)).
  Proof.
    intros st k lf ms Hk (Hexcl & Hmist & Hmask & Hhl & Hrl & Href & Hhyp & Hci & Hcs & Hdm & Hrr & Hmr & Hbs & Hdev & Hrow & Hms).
    unfold body3b, loop3b, sm3_body. cbn [seq_drop]. cbv iota. unfold lens_val, masks_val, mrow_col, mbits_col in *.
    body_script3 k Hk.
  Qed.

  Theorem loop_tie3b : forall st lf ms, pre lf ms st -> lookup "max_hyp_steps" (vars st) = Some (VInt (Z.of_nat H)) ->
    runs_to (pre (fun i n => nth i (iter_col3 ci cd cs R H rf hf rl hl excl (loop_steps H excl) 0 lf n) None)
                 (ms ++ loop_masks3 ci cd cs R H rf hf rl hl excl (loop_steps H excl) 0 lf))
            (exec ext03 loop3b st).
  Proof. rewrite loop3b_eq. exact (loop_tie_gen3 s ci cd cs R N H rf hf rl hl excl body3b body_run3b). Qed.
End Body3b.

(* ---- the call ---------------------------------------------------------------------------------------------------- *)
(* _string_matching(ref, hyp, eos, include_eos, batch_first, ins, del, sub, warn, return_mask=True, exclude_last=c_excl c) *)
Definition run_prog3 (prog : stmt) (s : positive) (c : C01.Model.cfg) (N : nat) (ref hyp : list (list Z)) (w : bool) : outcome val :=
  Interp.run ext03 prog
    (sm3_vars (enc_i (mat_tensor (C01.Model.c_bf c) N ref)) (enc_i (mat_tensor (C01.Model.c_bf c) N hyp))
       (opt_int (C01.Model.c_eos c)) (VBool (C01.Model.c_incl c)) (VBool (C01.Model.c_bf c))
       (VQ (qz s (C01.Model.c_ins c))) (VQ (qz s (C01.Model.c_del c))) (VQ (qz s (C01.Model.c_sub c)))
       (VBool w) (VBool (C01.Model.c_excl c))).

Definition run_mask_blocks := run_prog3 sm3_blocks.
Definition run_mask_body := run_prog3 sm3_body.

(* the (H', R, N) tensor of the model's masks: entry (k, i, n) = bit i of mask row k of pair n *)
Definition model_mask_tensor (c : C01.Model.cfg) (N R : nat) (ref hyp : list (list Z)) : tn bool :=
  mkTn [C03.Model.oc_rows c N hyp; R; N]
    (tab3 (C03.Model.oc_rows c N hyp) R N
       (fun k i n => nth i (nth k (nth n (C03.Model.oc_masks c N ref hyp) []) []) false)).

Lemma returns3_skip : forall v a b st, returns3 v (exec ext03 a st) -> returns3 v (exec ext03 (SSeq a b) st).
Proof. intros v a b st [st' He]. cbn [exec]. rewrite He. cbn [bind]. now exists st'. Qed.

Lemma eff_costs_eq : forall c,
  C01.Model.eff_costs (C01.Model.c_ins c) (C01.Model.c_del c) (C01.Model.c_sub c) =
  ((if uniformb (C01.Model.c_ins c) (C01.Model.c_del c) (C01.Model.c_sub c) then C01.Model.c_ins c else 1%Z),
   (eff_ci c, eff_cd c, eff_cs c)).
Proof.
  intros c. unfold C01.Model.eff_costs, eff_ci, eff_cd, eff_cs, uniformb.
  destruct ((C01.Model.c_ins c =? C01.Model.c_del c) && (C01.Model.c_del c =? C01.Model.c_sub c) && (0 <? C01.Model.c_sub c))%Z;
    reflexivity.
Qed.

(* the value the blocks return is the model's tensor *)
Lemma mask_value_model : forall (c : C01.Model.cfg) (N R H : nat) (ref hyp : list (list Z)),
  (0 < N)%nat -> wf_src (C01.Model.c_bf c) N R ref -> wf_src (C01.Model.c_bf c) N H hyp ->
  mask_value (eff_ci c) (eff_cd c) (eff_cs c) R N H (at_src (C01.Model.c_bf c) ref) (at_src (C01.Model.c_bf c) hyp)
    (ref_len c R (at_src (C01.Model.c_bf c) ref)) (hyp_len c H (at_src (C01.Model.c_bf c) hyp)) (C01.Model.c_excl c)
  = enc_b (model_mask_tensor c N R ref hyp).
Proof.
  intros c N R H ref hyp HN Hr Hh. unfold mask_value, model_mask_tensor.
  pose proof (C01.Tie.wf_src_model _ _ _ _ Hr) as Hwr. pose proof (C01.Tie.wf_src_model _ _ _ _ Hh) as Hwh.
  assert (Hrows : C03.Model.oc_rows c N hyp = S (loop_steps H (C01.Model.c_excl c))).
  { rewrite (C03.ProofsMain.oc_rows_time c N ref hyp 0 HN Hwh). unfold loop_steps. do 3 f_equal.
    rewrite <- (C01.Proofs.seq_of_length _ N hyp 0 HN Hwh), <- (C01.Tie.colf_seq_of _ N H hyp 0 HN Hh).
    apply C01.TiePre.colf_length. }
  rewrite Hrows. do 2 f_equal. apply tab3_ext. intros k i n Hk Hi Hn.
  rewrite (C03.ProofsTop.oc_masks_nth c N ref hyp _ _ _ _ n (eff_costs_eq c) Hn).
  rewrite !C01.Proofs.sequences_nth by assumption.
  rewrite <- (C01.Tie.colf_seq_of _ N R ref n Hn Hr), <- (C01.Tie.colf_seq_of _ N H hyp n Hn Hh).
  rewrite Hrows. replace (S (loop_steps H (C01.Model.c_excl c)) - 1)%nat with (loop_steps H (C01.Model.c_excl c)) by lia.
  set (rcol := colf R (at_src (C01.Model.c_bf c) ref) n). set (hcol := colf H (at_src (C01.Model.c_bf c) hyp) n).
  assert (Lr : List.length rcol = R) by apply C01.TiePre.colf_length.
  rewrite C03.ProofsMask.pair_masks_nth by (try apply C01.Proofs.eff_len_le; lia).
  rewrite (C01.Proofs.nth_map2 andb _ _ i false false false).
  - rewrite Lr, C01.Proofs.nth_map_seq by exact Hi. cbn [Nat.add]. unfold raw_mask, ref_len, hyp_len. fold rcol. fold hcol.
    f_equal. lia.
  - rewrite C03.ProofsMask.raw_mask_length by (try apply C01.Proofs.eff_len_le; lia). now rewrite Lr.
  - now rewrite map_length, seq_length, Lr.
Qed.

(* a loop statement with the property of TieIter.loop_tie3 *)
Definition loop_ok3 (lp : stmt) : Prop :=
  forall s ci cd cs R N H rf hf rl hl excl st lf ms,
    body_pre3 s ci cd cs R N H rf hf rl hl excl lf ms st ->
    lookup "max_hyp_steps" (vars st) = Some (VInt (Z.of_nat H)) ->
    runs_to (body_pre3 s ci cd cs R N H rf hf rl hl excl
               (fun i n => nth i (iter_col3 ci cd cs R H rf hf rl hl excl (loop_steps H excl) 0 lf n) None)
               (ms ++ loop_masks3 ci cd cs R H rf hf rl hl excl (loop_steps H excl) 0 lf)) (exec ext03 lp st).

(* any program that runs like sm3_pre; sm3_row0; first mask row; <a loop with the property of sm3_loop>; exit; <anything> *)
Lemma prog_is_model3 :
  forall (prog lp rest : stmt), loop_ok3 lp ->
  (forall st, exec ext03 prog st
              = exec ext03 (SSeq sm3_pre (SSeq sm3_row0 (SSeq (SSeq main_flags3 (SSeq lp main_exit3)) rest))) st) ->
  forall (s : positive) (c : C01.Model.cfg) (N R H : nat) (ref hyp : list (list Z)) (w : bool),
  (0 < N)%nat -> R <> 0%nat -> wf_src (C01.Model.c_bf c) N R ref -> wf_src (C01.Model.c_bf c) N H hyp ->
  (C01.Model.c_eos c <> None -> H <> 0%nat) ->
  exists st', run_prog3 prog s c N ref hyp w = Ok (enc_b (model_mask_tensor c N R ref hyp)) st'.
Proof.
  intros prog lp rest Hlp Hprog s c N R H ref hyp w HN HR Hr Hh Hnz.
  unfold run_prog3, Interp.run. rewrite Hprog.
  rewrite (C01.Tie.mat_tensor_in _ N R ref HN Hr), (C01.Tie.mat_tensor_in _ N H hyp HN Hh).
  set (rf := at_src (C01.Model.c_bf c) ref). set (hf := at_src (C01.Model.c_bf c) hyp).
  match goal with |- context [exec ext03 _ ?st0] => set (st0' := st0) end.
  assert (K : known3 st0' (params3 s c R N H rf hf w (C01.Model.c_excl c))).
  { unfold st0', params3, sm3_vars, globals01, torch_module. cbn [known3 app]. repeat split; reflexivity. }
  assert (Hret : returns3 (mask_value (eff_ci c) (eff_cd c) (eff_cs c) R N H rf hf (ref_len c R rf) (hyp_len c H hf) (C01.Model.c_excl c))
                   (exec ext03 (SSeq sm3_pre (SSeq sm3_row0 (SSeq (SSeq main_flags3 (SSeq lp main_exit3)) rest))) st0')).
  { eapply xreturns_seq; [apply pre_run; [intros He; split; [exact HR|exact (Hnz He)]|exact K]|]. intros st1 K1.
    eapply xreturns_seq; [apply row0_run3; exact K1|]. intros st2 K2.
    apply returns3_skip.
    eapply main_run_gen3; [intros; now apply Hlp|exact HR|exact K2]. }
  destruct Hret as [st' He]. rewrite He. exists st'. f_equal. unfold rf, hf. now apply mask_value_model.
Qed.

(* ---- (3) the whole call ------------------------------------------------------------------------------------------- *)
Lemma sm3_loop_ok : loop_ok3 sm3_loop.
Proof. unfold loop_ok3. intros. now apply loop_tie3. Qed.

Theorem mask_is_model :
  forall (s : positive) (c : C01.Model.cfg) (N R H : nat) (ref hyp : list (list Z)) (w : bool),
  (0 < N)%nat -> R <> 0%nat -> wf_src (C01.Model.c_bf c) N R ref -> wf_src (C01.Model.c_bf c) N H hyp ->
  (C01.Model.c_eos c <> None -> H <> 0%nat) ->
  exists st', run_mask_blocks s c N ref hyp w = Ok (enc_b (model_mask_tensor c N R ref hyp)) st'.
Proof.
  intros. apply (prog_is_model3 sm3_blocks sm3_loop SPass sm3_loop_ok) with (H := H); try assumption.
  intros st. unfold sm3_blocks. rewrite !(xexec_flatten ext03). f_equal.
Qed.

Theorem mask_body_is_model :
  forall (s : positive) (c : C01.Model.cfg) (N R H : nat) (ref hyp : list (list Z)) (w : bool),
  (0 < N)%nat -> R <> 0%nat -> wf_src (C01.Model.c_bf c) N R ref -> wf_src (C01.Model.c_bf c) N H hyp ->
  (C01.Model.c_eos c <> None -> H <> 0%nat) ->
  exists st', run_mask_body s c N ref hyp w = Ok (enc_b (model_mask_tensor c N R ref hyp)) st'.
Proof.
  intros. apply (prog_is_model3 sm3_body loop3b rest3b) with (H := H); try assumption.
  - unfold loop_ok3. intros. now apply loop_tie3b.
  - exact sm3_body_split.
Qed.

(* the executable of the harness is this run *)
Corollary src_mask_is_model :
  forall (c : C01.Model.cfg) (scale : Z) (N R H : nat) (ref hyp : list (list Z)),
  (0 < N)%nat -> R <> 0%nat -> wf_src (C01.Model.c_bf c) N R ref -> wf_src (C01.Model.c_bf c) N H hyp ->
  (C01.Model.c_eos c <> None -> H <> 0%nat) ->
  src_mask sm3_blocks c scale N ref hyp = Some (Some (model_mask_tensor c N R ref hyp)) /\
  src_mask sm3_body c scale N ref hyp = Some (Some (model_mask_tensor c N R ref hyp)).
Proof.
  intros c scale N R H ref hyp HN HR Hr Hh Hnz.
  destruct (mask_is_model (Z.to_pos scale) c N R H ref hyp false HN HR Hr Hh Hnz) as [st1 He1].
  destruct (mask_body_is_model (Z.to_pos scale) c N R H ref hyp false HN HR Hr Hh Hnz) as [st2 He2].
  unfold src_mask, cfg3_vars, cost_q. unfold run_mask_blocks, run_mask_body, run_prog3, qz in He1, He2.
  rewrite He1, He2, dec01_enc_b. split; reflexivity.
Qed.

(* ---- (4) composed with the model's theorems: the marked positions hold exactly the distance-preserving tokens -------- *)
Theorem mask_marks_preserving :
  forall (s : positive) (c : C01.Model.cfg) (N R H : nat) (ref hyp : list (list Z)) (w : bool),
  (0 < N)%nat -> R <> 0%nat -> wf_src (C01.Model.c_bf c) N R ref -> wf_src (C01.Model.c_bf c) N H hyp ->
  (C01.Model.c_eos c <> None -> H <> 0%nat) ->
  (0 < C01.Model.c_ins c)%Z -> (0 < C01.Model.c_del c)%Z -> (0 < C01.Model.c_sub c)%Z ->
  exists K (bits : list bool) st',
    run_mask_body s c N ref hyp w = Ok (enc_b (mkTn [K; R; N] bits)) st' /\
    K = S (H + (if C01.Model.c_excl c then 0 else 1) - 1) /\
    forall n k, (n < N)%nat ->
      let rseq := C01.Spec.denote (C01.Model.c_eos c) (C01.Model.c_incl c) (C01.Proofs.seq_of (C01.Model.c_bf c) n ref) in
      let hseq := C01.Spec.denote (C01.Model.c_eos c) (C01.Model.c_incl c) (C01.Proofs.seq_of (C01.Model.c_bf c) n hyp) in
      (k = 0 \/ k < List.length hseq + (if C01.Model.c_excl c then 0 else 1))%nat ->
      forall t,
        (exists i, (i < R)%nat /\ nth ((k * R + i) * N + n) bits false = true /\
                   nth i (C01.Proofs.seq_of (C01.Model.c_bf c) n ref) 0%Z = t)
        <-> C03.Spec.preserving (C01.Model.c_ins c) (C01.Model.c_del c) (C01.Model.c_sub c) rseq (firstn k hseq) t.
Proof.
  intros s c N R H ref hyp w HN HR Hr Hh Hnz Hi Hd Hs.
  destruct (mask_body_is_model s c N R H ref hyp w HN HR Hr Hh Hnz) as [st' He].
  pose proof (C01.Tie.wf_src_model _ _ _ _ Hr) as Hwr. pose proof (C01.Tie.wf_src_model _ _ _ _ Hh) as Hwh.
  assert (HT : C01.Proofs.time_len (C01.Model.c_bf c) hyp = H).
  { rewrite <- (C01.Proofs.seq_of_length _ N hyp 0 HN Hwh), <- (C01.Tie.colf_seq_of _ N H hyp 0 HN Hh).
    apply C01.TiePre.colf_length. }
  assert (Hrows : C03.Model.oc_rows c N hyp = S (H + (if C01.Model.c_excl c then 0 else 1) - 1)).
  { rewrite (C03.ProofsMain.oc_rows_time c N ref hyp 0 HN Hwh), HT. reflexivity. }
  unfold model_mask_tensor in He. rewrite Hrows in He.
  eexists. eexists. exists st'. split; [exact He|]. split; [reflexivity|].
  intros n k Hn rseq hseq Hk t.
  set (K := S (H + (if C01.Model.c_excl c then 0 else 1) - 1)) in *.
  set (rcol := C01.Proofs.seq_of (C01.Model.c_bf c) n ref) in *. set (hcol := C01.Proofs.seq_of (C01.Model.c_bf c) n hyp) in *.
  assert (Lr : List.length rcol = R).
  { unfold rcol. rewrite <- (C01.Tie.colf_seq_of _ N R ref n Hn Hr). apply C01.TiePre.colf_length. }
  assert (Lh : List.length hcol = H).
  { unfold hcol. rewrite <- (C01.Tie.colf_seq_of _ N H hyp n Hn Hh). apply C01.TiePre.colf_length. }
  set (rl := C01.Model.eff_len (C01.Model.c_eos c) (C01.Model.c_incl c) rcol).
  set (hl := C01.Model.eff_len (C01.Model.c_eos c) (C01.Model.c_incl c) hcol).
  assert (Hlen : List.length hseq = hl) by apply C01.Proofs.length_denote.
  assert (Hrlen : List.length rseq = rl) by apply C01.Proofs.length_denote.
  assert (Hrl : (rl <= List.length rcol)%nat) by apply C01.Proofs.eff_len_le.
  assert (Hhl : (hl <= List.length hcol)%nat) by apply C01.Proofs.eff_len_le.
  rewrite Hlen in Hk.
  destruct (C01.Model.eff_costs (C01.Model.c_ins c) (C01.Model.c_del c) (C01.Model.c_sub c)) as [mult [[ci cd] cs]] eqn:E.
  destruct (C03.ProofsMain.eff_costs_pos _ _ _ _ _ _ _ Hi Hd Hs E) as [Hm [Hci [Hcd Hcs]]].
  destruct (C03.ProofsMain.live_of_valid c N ref hyp n Hn k Hk) as [Hlive Hkh]. fold hcol in Hlive, Hkh. fold hl in Hlive, Hkh.
  assert (HkK : (k < K)%nat) by (unfold K; destruct Hk; lia).
  assert (Hbit : forall i, (i < R)%nat ->
            nth ((k * R + i) * N + n)
              (tab3 K R N (fun k0 i0 n0 => nth i0 (nth k0 (nth n0 (C03.Model.oc_masks c N ref hyp) []) []) false)) false
            = nth i (nth k (C03.Model.pair_masks ci cd cs rcol hcol rl hl (C01.Model.c_excl c) (K - 1)) []) false).
  { intros i Hi0. rewrite nth_tab3 by assumption.
    rewrite (C03.ProofsTop.oc_masks_nth c N ref hyp mult ci cd cs n E Hn), !C01.Proofs.sequences_nth by assumption.
    fold rcol. fold hcol. fold rl. fold hl. now rewrite Hrows. }
  rewrite (C03.ProofsSpec.preserving_iff_argmin _ _ _ Hi Hd Hs), Hrlen. split.
  - intros [i [HiR [Em Et]]]. rewrite Hbit in Em by exact HiR.
    apply (C03.ProofsMask.pair_masks_spec ci cd cs rcol hcol rl hl (C01.Model.c_excl c) Hrl Hhl) in Em as [Hirl [_ Harg]];
      [|exact Hcd|lia|lia].
    exists i. split; [exact Hirl|]. split.
    + unfold rseq. rewrite <- (C01.Proofs.firstn_eff_len (C01.Model.c_eos c) (C01.Model.c_incl c) rcol).
      fold rl. rewrite C03.ProofsTop.nth_firstn_lt by exact Hirl. exact Et.
    + apply (C03.ProofsMain.argmin_transfer c N ref hyp n Hn mult ci cd cs k i E Hm); [exact Hkh|fold rcol; fold rl; lia|exact Harg].
  - intros [i [Hirl [Et Emin]]]. exists i. split; [lia|]. split.
    + rewrite Hbit by lia.
      apply (C03.ProofsMask.pair_masks_spec ci cd cs rcol hcol rl hl (C01.Model.c_excl c) Hrl Hhl); [exact Hcd|lia|lia|].
      split; [exact Hirl|]. split; [exact Hlive|].
      apply (C03.ProofsMain.argmin_transfer c N ref hyp n Hn mult ci cd cs k i E Hm); [exact Hkh|fold rcol; fold rl; lia|exact Emin].
    + unfold rseq in Et. rewrite <- (C01.Proofs.firstn_eff_len (C01.Model.c_eos c) (C01.Model.c_incl c) rcol) in Et.
      fold rl in Et. rewrite C03.ProofsTop.nth_firstn_lt in Et by exact Hirl. exact Et.
Qed.
