"""C11 — transcript files read back what was written: correspondence between /repo's
read_trn/write_trn/read_ctm/write_ctm/read_textgrid/write_textgrid/transcript_to_token/
token_to_transcript (public API, pydrobert.torch.data) and PV.C11.Model.

Case kinds
  trn       write_trn (open file and path) -> bytes vs model; read_trn (file, path) of those bytes
  trn_text  read_trn of arbitrary delimiter soup (IOError paths, unclosed alternates, ...)
  trn_pool  read_trn with real worker pools vs the serial reader and the model
  ctm       write_ctm (file, path; channel string or dict) -> fields vs model; read_ctm back
  ctm_text  read_ctm of foreign files (unsorted, confidence column, comments, bad lines)
  tg        write_textgrid (file, path; every option) -> bytes vs model; read_textgrid back
  tok       transcript_to_token -> rows vs model; token_to_transcript back
  tok_back  token_to_transcript of arbitrary (R,3), (R,1), (R,) tensors (one-sided -1 markers)
Known finding K5 (write_textgrid given a path drops point_tier/precision) has an as-coded and a
repaired model (DESIGN 2.2); the implementation must agree with one of the two on ALL
discriminating cases of a run.  (read_textgrid's former string sort is repaired in /repo: the model
sorts numerically and stably; Model.StringSort documents the old behaviour.)
"""
import io
import json
import os
import warnings
from fractions import Fraction

from vlib import cb, cl, clz, cn, co, cp, cq, cz, coq_eval_bools, coq_eval_print, exc_kind, load_corpus, shrink

IMPORTS = "From PV Require Import C11.Model C11.Spec.\nLocal Open Scope Z_scope.\n"
# Round-4 miss C11-g.  Spec.trn_okb (the hypothesis of c11_trn_roundtrip) asks for tokens free of ALL white space; the trn
# format itself separates tokens by the ASCII space only, so "free of the format's delimiters" also covers tokens with an
# interior tab / no-break space / U+3000 ...  The reading below is the wider class that the unchanged reader round-trips
# (established character by character, see notes/C11_report.md "Round-4 misses"): a token is non-empty and free of ' ',
# '{', LF, CR (inside an alternate also of '/' and '}'); the reader strips white space at both ends of the text in front
# of the utterance id, hence the first top-level token must not START and the last must not END with white space.
IMPORTS += """
Definition c11h_wide_c (inside : bool) (c : Z) : bool :=
  negb (c =? 32) && negb (c =? 10) && negb (c =? 13) && negb (c =? 123)
  && (negb inside || (negb (c =? 47) && negb (c =? 125))).
Fixpoint c11h_wide_elem (inside : bool) (x : elem) : bool :=
  match x with
  | Tok t => negb (is_nil t) && forallb (c11h_wide_c inside) t
  | Alt brs => negb (is_nil brs) && negb (is_nil (last brs [])) &&
               forallb (fun b => forallb (c11h_wide_elem true) b) brs
  end.
Definition c11h_ends_ok (xs : list elem) : bool :=
  match xs with Tok (c :: _) :: _ => negb (is_space c) | _ => true end
  && match last xs (Alt []) with Tok t => negb (is_space (last t 0)) | _ => true end.
Definition c11h_trn_wide_okb (ts : list (str * list elem)) : bool :=
  forallb (fun ut => utt_okb (fst ut) && forallb (c11h_wide_elem false) (snd ut) && c11h_ends_ok (snd ut)) ts.
Definition c11h_trn_roundtrip_wide_okb (ts : list (str * list elem)) (rb : res (list (str * list elem))) : bool :=
  implb (c11h_trn_wide_okb ts) (res_eqb (list_eqb utt_eqb) (Ok ts) rb).
"""
WIDE_TRN = "spec: read(write ts) = ts, tokens free of ' ', '{', line breaks (other white space not at the line's ends)"
EXN = {"OSError": "IOError", "ValueError": "ValueError", "KeyError": "KeyError",
       "IndexError": "IndexError", "TypeError": "TypeError"}
CORR = "corr:C11"
THEOREMS = {
    "trn": ["c11_trn_line_roundtrip", "c11_trn_roundtrip", "c11_trn_path_eq_file"],
    "trn_text": ["c11_trn_roundtrip"],
    "trn_pool": ["c11_chunked_read_eq_serial", "c11_read_trn_workers_irrelevant"],
    "ctm": ["c11_ctm_roundtrip_up_to_order", "c11_ctm_wc2utt_bijective"],
    "ctm_text": ["c11_ctm_roundtrip_up_to_order"],
    "tg": ["c11_textgrid_roundtrip_to_precision", "c11_textgrid_fill_tiles", "c11_path_eq_file_refuted", "c11_path_eq_file_when_defaults"],
    "tok_back": ["c11_tokens_roundtrip"],
    "tok": ["c11_frames_within_one_shift", "c11_token_ids_roundtrip", "c11_tokens_roundtrip"],
}


def cs(s):
    # code points are non-negative and every term is read in Z_scope: plain numerals parse fastest
    return "[" + "; ".join(str(ord(c)) for c in s) + "]"


def cres(kind_or_none, okterm):
    """Coq `res` literal: okterm if no exception, Raise <exn> otherwise; None if unknown class."""
    if kind_or_none is None:
        return f"(Ok {okterm})"
    if kind_or_none in EXN:
        return f"(Raise {EXN[kind_or_none]})"
    return None


def call(fn, *a, **k):
    """-> (value, None) or (None, exception kind)"""
    try:
        with warnings.catch_warnings():
            warnings.simplefilter("ignore")
            return fn(*a, **k), None
    except Exception as e:  # noqa: BLE001
        return None, exc_kind(e)


def frac(x):
    return Fraction(x)


def ecall(case, fn, names, args, defaults=()):
    """call `fn` through the entry-point style of the case (robustness audit, class 'entry point'):
    style 'kw'   - every argument by keyword,
    style 'omit' - trailing arguments equal to their documented default are left out,
    otherwise    - all positional (the historical style of this check).
    `defaults` are the documented defaults of the LAST len(defaults) parameters."""
    style = case.get("style")
    args = list(args)
    if style == "omit" and defaults:
        k = len(args)
        for d in reversed(defaults):
            if k > 0 and type(args[k - 1]) is type(d) and args[k - 1] == d:
                k -= 1
            else:
                break
        args = args[:k]
    if style == "kw":
        return call(fn, **dict(zip(names, args)))
    return call(fn, *args)


# ----------------------------------------------------------------------------------------
# trn
# ----------------------------------------------------------------------------------------


def py_elem(x, top, times=False):
    if isinstance(x, str):
        return (x, 0.5, 1.25) if (top and times) else x
    alts = [[py_elem(y, False) for y in br] for br in x["alt"]]
    return (alts, -1, -1) if top else alts


def canon_elem(x):
    if isinstance(x, str):
        return x
    if isinstance(x, tuple):
        assert len(x) == 3 and x[1] == -1 and x[2] == -1, x
        x = x[0]
    return {"alt": [[canon_elem(y) for y in br] for br in x]}


def coq_elem(x):
    if isinstance(x, str):
        return f"Tok {cs(x)}"
    return "Alt " + cl([cl(["(" + coq_elem(y) + ")" for y in br]) for br in x["alt"]])


def coq_ts(ts):
    return cl([cp(cs(u), cl(["(" + coq_elem(x) + ")" for x in tr])) for u, tr in ts])


def coq_trn_read(val, exc):
    if exc is not None:
        return cres(exc, None)
    return cres(None, coq_ts([(u, [canon_elem(x) for x in tr]) for u, tr in val]))


def has_alt(ts):
    return any(not isinstance(x, str) for _, tr in ts for x in tr)


def impl_trn(chk, case):
    from pydrobert.torch.data import read_trn, write_trn

    ts = [(u, [py_elem(x, True, case.get("times", False)) for x in tr]) for u, tr in case["ts"]]
    out = {}
    f = io.StringIO()
    _, e = ecall(case, write_trn, ("transcripts", "trn"), (ts, f))
    out["w_file"], out["w_file_exc"] = f.getvalue(), e
    if case.get("via", "mem") == "disk":
        p = os.path.join(chk.workdir, "c.trn")
        _, e = ecall(case, write_trn, ("transcripts", "trn"), (ts, p))
        out["w_path_exc"] = e
        out["w_path"] = open(p, newline="").read() if e is None else None
        with open(p, "w", newline="") as g:  # an already open *disk* file
            _, e2 = call(write_trn, ts, g)
        out["w_disk"] = open(p, newline="").read() if e2 is None else None
        r, e = call(read_trn, p, False)
        out["r_path"] = (r, e)
        with open(p, newline="") as g:
            out["r_disk"] = call(read_trn, g, False)
    out["r_file"] = ecall(case, read_trn, ("trn", "warn", "processes", "chunk_size"),
                          (io.StringIO(out["w_file"]), bool(case.get("warn", False)), 0, 1000), (0, 1000))
    if case.get("iter"):
        # the generator entry point (what the command line uses): same list
        from pydrobert.torch.data import read_trn_iter
        out["r_iter"] = call(lambda: list(read_trn_iter(io.StringIO(out["w_file"]), False)))
    return out


def terms_trn(case, out):
    T = coq_ts(case["ts"])
    terms = {}
    terms["write_trn(file) = model"] = (
        f"check_write_trn {T} {cs(out['w_file'])}" if out["w_file_exc"] is None else "false")
    rd = coq_trn_read(*out["r_file"])
    terms["read_trn(file) = model"] = f"check_read_trn 0%nat [] 0%nat {cs(out['w_file'])} {rd}" if rd else "false"
    terms["spec: read(write ts) = ts"] = f"trn_roundtrip_okb {T} {rd}" if rd else "false"
    terms[WIDE_TRN] = f"c11h_trn_roundtrip_wide_okb {T} {rd}" if rd else "false"
    meta = []
    if "w_path" in out:
        if out["w_path"] != out["w_file"] or out["w_disk"] != out["w_file"]:
            meta.append("write_trn: path / open disk file / StringIO outputs differ")
        for k in ("r_path", "r_disk"):
            if out[k] != out["r_file"]:
                meta.append(f"read_trn: {k} differs from reading the same bytes from a StringIO")
    if "r_iter" in out and out["r_iter"] != out["r_file"]:
        meta.append("read_trn_iter yields a different list than read_trn on the same bytes")
    return terms, meta


def impl_trn_text(chk, case):
    from pydrobert.torch.data import read_trn

    out = {"r_file": call(read_trn, io.StringIO(case["text"]), bool(case.get("warn", False)))}
    if case.get("iter"):
        from pydrobert.torch.data import read_trn_iter
        out["r_iter"] = call(lambda: list(read_trn_iter(io.StringIO(case["text"]), False)))
    if case.get("via") == "disk":
        p = os.path.join(chk.workdir, "t.trn")
        with open(p, "w", newline="") as g:
            g.write(case["text"])
        out["r_path"] = call(read_trn, p, False)
    return out


def terms_trn_text(case, out):
    rd = coq_trn_read(*out["r_file"])
    terms = {"read_trn(text) = model": f"check_read_trn 0%nat [] 0%nat {cs(case['text'])} {rd}" if rd else "false"}
    meta = []
    if "r_path" in out and out["r_path"] != out["r_file"]:
        meta.append("read_trn: path result differs from open-file result on the same text")
    if "r_iter" in out and out["r_iter"] != out["r_file"]:
        meta.append("read_trn_iter yields a different list than read_trn on the same text")
    return terms, meta


def impl_trn_pool(chk, case):
    from pydrobert.torch.data import read_trn, write_trn

    if "text" in case:
        text = case["text"]
    else:
        f = io.StringIO()
        write_trn([(u, [py_elem(x, True) for x in tr]) for u, tr in case["ts"]], f)
        text = f.getvalue()
    p = os.path.join(chk.workdir, "p.trn")
    with open(p, "w", newline="") as g:
        g.write(text)
    out = {"text": text, "serial": call(read_trn, p, False)}
    if case["entry"] == "path":
        out["pool"] = call(read_trn, p, False, case["proc"], case["chunk"])
    else:
        with open(p, newline="") as g:
            out["pool"] = call(read_trn, g, False, case["proc"], case["chunk"])
    return out


def terms_trn_pool(case, out):
    text = out["text"]
    nlines = len(text.split("\n")) - (1 if text.endswith("\n") or text == "" else 0)
    k = 1000 if case["entry"] == "path" else max(1, case["chunk"])
    nchunks = -(-nlines // k)
    sched = list(range(nchunks))
    r = case.get("rot", 0)
    sched = sched[::-1] if r % 2 else sched[r % max(1, nchunks):] + sched[:r % max(1, nchunks)]
    rd = coq_trn_read(*out["pool"])
    fn = "read_trn_path" if case["entry"] == "path" else "read_trn_file"
    terms = {"read_trn(processes>0) = model":
             (f"res_eqb (list_eqb utt_eqb) ({fn} {cn(case['proc'])} {cl([cn(i) for i in sched])} "
              f"{cn(min(case['chunk'], 4000))} {cs(text)}) {rd}") if rd else "false"}
    if "text" not in case:
        # the file is write_trn's own output: any number of workers reads back what was written
        terms[WIDE_TRN] = f"c11h_trn_roundtrip_wide_okb {coq_ts(case['ts'])} {rd}" if rd else "false"
    meta = []
    if out["pool"] != out["serial"]:
        meta.append("read_trn: result with worker processes differs from the serial result")
    return terms, meta


# ----------------------------------------------------------------------------------------
# ctm   (times in the case are integers in units of 1/64 s)
# ----------------------------------------------------------------------------------------

U = 64
# Round-5 miss C11-j (numeric extremes of times).  A case of kind 'ctmx' / 'ctmx_text' carries its own grid step
# case["unit"] (a float: 2**-20, 1e-5, 2**30, 1e16 ...): time = k * unit.  The model works on the integers k and is
# scale free, so the SAME check terms judge these cases.  UNIT[0] is set only while such a case is run / rendered
# (impl_ctmx, terms_ctmx); everywhere else (and for the source ties, which see kind 'ctm' only) the grid is 1/64 s.
UNIT = [None]


def g2f(k):
    return k / U if UNIT[0] is None else k * UNIT[0]


def f2g(x):
    """float -> grid integer, or None when off the grid"""
    v = Fraction(x) * U if UNIT[0] is None else Fraction(x) / Fraction(UNIT[0])
    return int(v) if v.denominator == 1 else None


def _on_unit(fn):
    def run_on_unit(a, b):
        case = a if isinstance(a, dict) and "unit" in a else b      # impl(chk, case) / terms(case, out)
        UNIT[0] = float(case["unit"])
        try:
            return fn(a, b)
        finally:
            UNIT[0] = None
    return run_on_unit


def py_ctm_ts(case):
    ts = []
    for u, tr in case["ts"]:
        ts.append((u, [t[0] if len(t) == 1 else (t[0], g2f(t[1]), g2f(t[2])) for t in tr]))
    return ts


def py_utt2wc(case):
    m = case["utt2wc"]
    return m if isinstance(m, str) else {u: tuple(wc) for u, wc in m}


def py_wc2utt(case):
    m = case.get("wc2utt")
    return None if m is None else {tuple(wc): u for wc, u in m}


def coq_wc2utt(case):
    m = py_wc2utt(case)   # through the dict: a repeated key keeps its last value, exactly what the implementation is given
    return "None" if m is None else co(cl([cp(cp(cs(wc[0]), cs(wc[1])), cs(u)) for wc, u in m.items()]))


def coq_utt2wc(case):
    m = py_utt2wc(case)
    if isinstance(m, str):
        return f"(inr {cs(m)})"
    return "(inl " + cl([cp(cs(u), cp(cs(wc[0]), cs(wc[1]))) for u, wc in m.items()]) + ")"


def parse_ctm_text(text):
    """the text layer the model does not cover: one line = five space separated fields"""
    segs = []
    for line in text.split("\n"):
        if not line:
            continue
        f = line.split(" ")
        if len(f) != 5:
            return None
        s, d = f2g(float(f[2])), f2g(float(f[3]))
        if s is None or d is None:
            return None
        segs.append([f[0], f[1], s, d, f[4]])
    return segs


def coq_segs(segs):
    return cl([cp(cs(w), cs(c), cz(s), cz(d), cs(t)) for w, c, s, d, t in segs])


def coq_ctm_read(val, exc):
    if exc is not None:
        return cres(exc, None)
    items = []
    for u, tr in val:
        ts = []
        for tok, s, e in tr:
            gs, ge = f2g(s), f2g(e)
            if gs is None or ge is None:
                return None
            ts.append(cp(cs(tok), cz(gs), cz(ge)))
        items.append(cp(cs(u), cl(ts)))
    return cres(None, cl(items))


def impl_ctm(chk, case):
    from pydrobert.torch.data import read_ctm, write_ctm

    ts, m, inv = py_ctm_ts(case), py_utt2wc(case), py_wc2utt(case)
    out = {}
    f = io.StringIO()
    wn, rn = ("transcripts", "ctm", "utt2wc"), ("ctm", "wc2utt")
    _, e = ecall(case, write_ctm, wn, (ts, f, m), ("A",))
    out["w_file"], out["w_exc"] = (f.getvalue() if e is None else None), e
    p = os.path.join(chk.workdir, "c.ctm")
    _, e2 = ecall(case, write_ctm, wn, (ts, p, m), ("A",))
    out["w_path"], out["w_path_exc"] = (open(p, newline="").read() if e2 is None else None), e2
    if e is None:
        out["r_file"] = ecall(case, read_ctm, rn, (io.StringIO(out["w_file"]), inv), (None,))
        if e2 is None:
            out["r_path"] = ecall(case, read_ctm, rn, (p, inv), (None,))
    return out


def coq_ctm_ts(case):
    return cl([cp(cs(u), cl([cp(cs(t[0]), "None" if len(t) == 1 else co(cp(cz(t[1]), cz(t[2])))) for t in tr]))
               for u, tr in case["ts"]])


def ctm_valid(case):
    ids = [u for u, _ in case["ts"]]
    return (len(set(ids)) == len(ids) and all(len(tr) > 0 for _, tr in case["ts"])
            and all(len(t) == 3 and t[1] >= 0 and t[2] >= t[1] for _, tr in case["ts"] for t in tr))


def terms_ctm(case, out):
    terms, meta = {}, []
    T, M = coq_ctm_ts(case), coq_utt2wc(case)
    if out["w_exc"] is not None:
        w = cres(out["w_exc"], None)
        segs = None
    else:
        segs = parse_ctm_text(out["w_file"])
        w = cres(None, coq_segs(segs)) if segs is not None else None
    terms["write_ctm = model"] = f"check_write_ctm {T} {M} {w}" if w else "false"
    if (out["w_path"], out["w_path_exc"]) != (out["w_file"], out["w_exc"]):
        meta.append("write_ctm: path output differs from open-file output")
    if segs is not None and "r_file" in out:
        rd = coq_ctm_read(*out["r_file"])
        terms["read_ctm = model"] = f"check_read_ctm {coq_segs(segs)} {coq_wc2utt(case)} {rd}" if rd else "false"
        if "r_path" in out and out["r_path"] != out["r_file"]:
            meta.append("read_ctm: path result differs from open-file result")
        if case.get("roundtrip") and out["r_file"][1] is None and rd:
            m = case["utt2wc"]
            if isinstance(m, str):
                key = f"(fun u => (u, {cs(m)}))"
            else:
                key = (f"(fun u => match assoc str_eqb u {cl([cp(cs(u), cp(cs(wc[0]), cs(wc[1]))) for u, wc in py_utt2wc(case).items()])} "
                       "with Some wc => wc | None => ([], []) end)")
            tsq = cl([cp(cs(u), cl([cp(cs(t[0]), cz(t[1]), cz(t[2])) for t in tr])) for u, tr in case["ts"]])
            terms["spec: read(write ts) = ts up to order"] = (
                f"match {rd} with Ok r => ctm_roundtrip_okb {key} {tsq} r | Raise _ => false end")
        elif case.get("roundtrip"):
            terms["spec: read(write ts) = ts up to order"] = "false"
    elif case.get("roundtrip"):
        terms["spec: read(write ts) = ts up to order"] = "false"     # a valid transcript was refused
    return terms, meta


def render_ctm(case):
    lines = []
    for sg in case["segs"]:
        w, c, s, d, t = sg[:5]
        line = f"{w} {c} {g2f(s)!r} {g2f(d)!r} {t}"
        dec = sg[5] if len(sg) > 5 else ""
        if "c" in dec:
            line += " 0.9"
        if "t" in dec:
            line = "  " + line.replace(" ", "\t", 1) + "  "
        if ";" in dec:
            line += " ;; a comment"
        lines.append(line)
        if "b" in dec:
            lines.append("")
        if "k" in dec:
            lines.append(";; only a comment")
    return "\n".join(lines) + ("\n" if lines else "")


def impl_ctm_text(chk, case):
    from pydrobert.torch.data import read_ctm

    text = render_ctm(case)
    out = {"text": text, "r_file": call(read_ctm, io.StringIO(text), py_wc2utt(case))}
    p = os.path.join(chk.workdir, "f.ctm")
    with open(p, "w", newline="") as g:
        g.write(text)
    out["r_path"] = call(read_ctm, p, py_wc2utt(case))
    return out


def terms_ctm_text(case, out):
    rd = coq_ctm_read(*out["r_file"])
    segs = [sg[:5] for sg in case["segs"]]
    terms = {"read_ctm(foreign file) = model": f"check_read_ctm {coq_segs(segs)} {coq_wc2utt(case)} {rd}" if rd else "false"}
    meta = []
    if out["r_path"] != out["r_file"]:
        meta.append("read_ctm: path result differs from open-file result")
    return terms, meta


# ----------------------------------------------------------------------------------------
# TextGrid   (times are Python floats; the model gets their exact rational value)
# ----------------------------------------------------------------------------------------


def cqo(x):
    return "None" if x is None else co(cq(Fraction(x)))


def coq_entries(tr):
    return cl([cp(cs(t), cq(Fraction(s)), cq(Fraction(e))) for t, s, e in tr])


def dec_q(v, p):
    """a float read from a file with p decimals -> that decimal (float() is correctly rounded)"""
    n = round(Fraction(v) * 10 ** p)
    d = Fraction(n, 10 ** p)
    return d if float(d) == v else Fraction(v)


def coq_tg_read(val, exc, p):
    if exc is not None:
        return cres(exc, None)
    tr, xmin, xmax = val
    ents = cl([cp(cs(t), cq(dec_q(s, p)), cq(dec_q(e, p))) for t, s, e in tr])
    return cres(None, cp(ents, cq(dec_q(xmin, p)), cq(dec_q(xmax, p))))


def tg_args(case):
    tr = [tuple(x) for x in case["tr"]]
    return tr, case.get("start_time"), case.get("end_time"), case.get("tier_name", "transcript"), \
        case.get("point_tier"), case.get("precision", 3)


def impl_tg(chk, case):
    from pydrobert.torch.data import read_textgrid, write_textgrid

    tr, st, en, name, pt, p = tg_args(case)
    out = {}
    f = io.StringIO()
    wn = ("transcript", "tg", "start_time", "end_time", "tier_name", "point_tier", "precision")
    wd = (None, None, "transcript", None, 3)
    rn = ("tg", "tier_id", "fill_token")
    _, e = ecall(case, write_textgrid, wn, (tr, f, st, en, name, pt, p), wd)
    out["w_file"], out["w_exc"] = (f.getvalue() if e is None else None), e
    path = os.path.join(chk.workdir, "c.TextGrid")
    if os.path.exists(path):
        os.remove(path)
    _, e2 = ecall(case, write_textgrid, wn, (tr, path, st, en, name, pt, p), wd)
    out["w_path"], out["w_path_exc"] = (open(path, newline="").read() if e2 is None else None), e2
    # what the open-file entry point writes when the two options are left at their defaults
    f0 = io.StringIO()
    _, e0 = call(write_textgrid, tr, f0, st, en, name)
    out["w_file_defaults"], out["w_file_defaults_exc"] = (f0.getvalue() if e0 is None else None), e0
    if e is None:
        tid, fill = case.get("tier_id", 0), case.get("fill")
        out["r_file"] = ecall(case, read_textgrid, rn, (io.StringIO(out["w_file"]), tid, fill), (0, None))
        with open(path, "w", newline="") as g:
            g.write(out["w_file"])
        out["r_path"] = ecall(case, read_textgrid, rn, (path, tid, fill), (0, None))
    return out


def coq_tg_call(fn, case):
    tr, st, en, name, pt, p = tg_args(case)
    return f"{fn} {coq_entries(tr)} {cqo(st)} {cqo(en)} {cs(name)} {'None' if pt is None else co(cb(pt))} {cn(p)}"


def coq_tier_id(case):
    tid = case.get("tier_id", 0)
    return f"(inl {cs(tid)})" if isinstance(tid, str) else f"(inr {cz(tid)})"


def terms_tg(case, out):
    terms, meta = {}, []
    wf = cres(out["w_exc"], cs(out["w_file"]) if out["w_exc"] is None else None)
    terms["write_textgrid(file) = model"] = f"res_eqb str_eqb ({coq_tg_call('write_textgrid_file', case)}) {wf}" if wf else "false"
    wp = cres(out["w_path_exc"], cs(out["w_path"]) if out["w_path_exc"] is None else None)
    terms["A:write_textgrid(path) = model as coded (K5)"] = (
        f"res_eqb str_eqb ({coq_tg_call('write_textgrid_path', case)}) {wp}" if wp else "false")
    # the repaired path model IS the open-file model, which the first term ties to the bytes written through the open
    # file: so "path = repaired model" is decided by comparing the two byte strings (run() conjoins the first term)
    terms["R:write_textgrid(path) = model repaired"] = cb((out["w_path"], out["w_path_exc"]) == (out["w_file"], out["w_exc"]))
    if "r_file" in out:
        p = case.get("precision", 3)
        fill = case.get("fill")
        rd = coq_tg_read(*out["r_file"], p)
        # the reader model reads the file the writer MODEL produced (= the bytes on disk by the first term)
        def rdterm(mode):
            return (f"match {coq_tg_call('write_textgrid_file', case)} with Ok f => check_read_textgrid {mode} f "
                    f"{coq_tier_id(case)} {'None' if fill is None else co(cs(fill))} {rd} | Raise _ => false end")
        terms["read_textgrid = model"] = rdterm("NumericSort") if rd else "false"
        tr = case["tr"]
        expressible = (all(x[1] <= x[2] for x in tr) and all(a[2] <= b[1] for a, b in zip(tr, tr[1:]))
                       and all('"' not in x[0] and "\n" not in x[0] and "\r" not in x[0] for x in tr))
        tid = case.get("tier_id", 0)
        if expressible and (tid in (0, -1) or tid == case.get("tier_name", "transcript")):
            terms["spec: read(write tr) = tr to print precision / gaps tiled"] = tg_spec_term(case, out)
        if out["r_path"] != out["r_file"]:
            meta.append("read_textgrid: path result differs from open-file result")
    elif tg_must_write(case) and all(x[1] <= x[2] for x in case["tr"]):
        terms["spec: read(write tr) = tr to print precision / gaps tiled"] = "false"   # a writable transcript was refused
    return terms, meta


def tg_must_write(case):
    tr, st, en, name, pt, p = tg_args(case)
    return bool(tr) and (st is None or st <= min(x[1] for x in tr)) and (en is None or en >= max(x[2] for x in tr))


def tg_spec_term(case, out):
    """round trip judged on the implementation's output alone"""
    tr, st, en, name, pt, p = tg_args(case)
    if out.get("r_file") is None or out["r_file"][1] is not None:
        return "false"
    val = out["r_file"][0]
    ents = cl([cp(cs(t), cq(Fraction(s)), cq(Fraction(e))) for t, s, e in val[0]])
    fill = case.get("fill")
    if fill is None:
        return f"tg_roundtrip_okb {cn(p)} {cb(pt is True)} {coq_entries(tr)} {ents}"
    return (f"(contiguousb {cq(Fraction(val[1]))} {cq(Fraction(val[2]))} {ents} && "
            f"no_empty_gapsb {cs(fill)} {coq_entries(tr)} {ents})")


# ----------------------------------------------------------------------------------------
# tokens
# ----------------------------------------------------------------------------------------


def coq_tk(t):
    return f"(TInt {cz(t)})" if isinstance(t, int) else f"(TStr {cs(t)})"


def coq_items(tr):
    out = []
    for it in tr:
        if isinstance(it, (list, tuple)):
            out.append(f"Timed {coq_tk(it[0])} {cq(Fraction(it[1]))} {cq(Fraction(it[2]))}")
        else:
            out.append(f"Plain {coq_tk(it)}")
    return cl(out)


def impl_tok(chk, case):
    import torch
    from pydrobert.torch.data import token_to_transcript, transcript_to_token

    tr = [tuple(x) if isinstance(x, list) else x for x in case["tr"]]
    t2i = None if case.get("token2id") is None else {k: v for k, v in case["token2id"]}
    fs = case.get("fs")
    val, e = ecall(case, transcript_to_token, ("transcript", "token2id", "frame_shift_ms", "unk", "skip_frame_times"),
                   (tr, t2i, fs, case.get("unk"), bool(case.get("skip"))), (None, None, None, False))
    out = {"to_exc": e}
    if e is None:
        assert val.dtype == torch.long
        out["rows"] = val.tolist()
        i2t = None if case.get("id2token") is None else {k: v for k, v in case["id2token"]}
        back, e2 = ecall(case, token_to_transcript, ("ref", "id2token", "frame_shift_ms"), (val, i2t, fs), (None, None))
        out["back"], out["back_exc"] = back, e2
        if case.get("layout") and e2 is None:
            # the same logical tensor as a non-contiguous view / other integer dtype: identical transcript
            out["back_layout"] = call(token_to_transcript, relayout(val, case["layout"]), i2t, fs)
    return out


def terms_tok(case, out):
    terms, meta = {}, []
    fs = case.get("fs")
    fsq = "None" if not fs else co(cq(Fraction(fs)))
    t2i = "None" if case.get("token2id") is None else co(cl([cp(coq_tk(k), cz(v)) for k, v in {k: v for k, v in case["token2id"]}.items()]))
    unk = "None" if case.get("unk") is None else co(coq_tk(case["unk"]))
    skip = bool(case.get("skip"))
    if out["to_exc"] is not None:
        rows = cres(out["to_exc"], None)
        ref = None
    else:
        ref = [(r, -1, -1) if skip else tuple(r) for r in out["rows"]]
        rows = cres(None, cl([cp(cz(a), cz(b), cz(c)) for a, b, c in ref]))
    terms["transcript_to_token = model"] = (
        f"check_to_token {coq_items(case['tr'])} {t2i} {fsq} {unk} {cb(skip)} {rows}" if rows else "false")
    if case.get("roundtrip") and fs and (ref is None or out.get("back_exc") is not None):
        terms["spec: tokens same, times within one frame shift"] = "false"
    if ref is not None:
        if "back_layout" in out and out["back_layout"] != (out["back"], out["back_exc"]):
            meta.append("token_to_transcript: result depends on the memory layout / integer dtype of the tensor (%s)" % case["layout"])
        if out["back_exc"] is not None:
            terms["token_to_transcript = model"] = "false"
        else:
            items = []
            for (i, s, e), b in zip(ref, out["back"]):
                if isinstance(b, tuple):
                    t, bs, be = b
                    if fs:
                        cs_, ce_ = Fraction(s) * Fraction(fs) / 1000, Fraction(e) * Fraction(fs) / 1000
                        # the single IEEE division of exact operands, recomputed (DESIGN section 3, regime E)
                        okf = (s * fs / 1000 == bs) and (e * fs / 1000 == be) and Fraction(s * fs) == Fraction(s) * Fraction(fs)
                        qs, qe = (cs_, ce_) if okf else (Fraction(bs), Fraction(be))
                    else:
                        qs, qe = Fraction(bs), Fraction(be)
                    items.append(f"Timed {coq_tk(t)} {cq(qs)} {cq(qe)}")
                else:
                    items.append(f"Plain {coq_tk(b)}")
            ok_len = len(out["back"]) == len(ref)
            i2t = "None" if case.get("id2token") is None else co(cl([cp(cz(k), coq_tk(v)) for k, v in {k: v for k, v in case["id2token"]}.items()]))
            refq = cl([cp(cz(a), cz(b), cz(c)) for a, b, c in ref])
            terms["token_to_transcript = model"] = (
                f"check_to_transcript {refq} {i2t} {fsq} {cl(items)}" if ok_len else "false")
            if case.get("roundtrip") and fs:
                terms["spec: tokens same, times within one frame shift"] = (
                    f"tokens_roundtrip_okb {cq(Fraction(fs))} {coq_items(case['tr'])} {cl(items)}")
    return terms, meta


def impl_tok_back(chk, case):
    import torch
    from pydrobert.torch.data import token_to_transcript

    ref = torch.tensor(case["ref"], dtype=torch.long)
    if case["shape"] == 1 and case.get("col"):
        ref = ref.reshape(-1, 1)          # the documented (R, 1) form
    elif case["shape"] == 1:
        ref = ref.reshape(-1) if case["ref"] else torch.zeros((0,), dtype=torch.long)
    elif not case["ref"]:
        ref = torch.zeros((0, case["shape"]), dtype=torch.long)
    i2t = None if case.get("id2token") is None else {k: v for k, v in case["id2token"]}
    back, e = ecall(case, token_to_transcript, ("ref", "id2token", "frame_shift_ms"), (ref, i2t, case.get("fs")), (None, None))
    out = {"back": back, "back_exc": e}
    if case.get("layout") and e is None:
        out["back_layout"] = call(token_to_transcript, relayout(ref, case["layout"]), i2t, case.get("fs"))
    return out


LAYOUTS = ["transposed", "offset", "step", "int32", "expand"]


def relayout(t, how):
    """the same logical tensor in another memory layout / integer dtype (values must fit int32 for 'int32')"""
    import torch
    if how == "int32":
        return t.to(torch.int32) if (t.numel() == 0 or int(t.abs().max()) < 2 ** 31) else t
    if how == "transposed" and t.ndim == 2:
        return t.t().contiguous().t()
    if how == "step":
        big = torch.full(tuple(2 * s for s in t.shape), 77, dtype=t.dtype)
        v = big[tuple(slice(None, None, 2) for _ in t.shape)]
        v.copy_(t)
        return v
    if how == "expand" and t.ndim >= 1 and t.size(0) > 0 and bool((t == t[:1]).all()):
        return t[:1].expand(t.shape)
    # slice of a larger buffer with a storage offset
    big = torch.full((t.numel() + 5,), 55, dtype=t.dtype)
    v = big[3:3 + t.numel()].view(t.shape) if t.numel() else big[3:3].view(t.shape)
    v.copy_(t)
    return v


def terms_tok_back(case, out):
    fs = case.get("fs")
    fsq = "None" if not fs else co(cq(Fraction(fs)))
    rows = [(r[0], r[1], r[2]) if case["shape"] == 3 else (r[0] if isinstance(r, list) else r, -1, -1) for r in case["ref"]]
    meta = []
    if "back_layout" in out and out["back_layout"] != (out["back"], out["back_exc"]):
        meta.append("token_to_transcript: result depends on the memory layout / integer dtype of the tensor (%s)" % case["layout"])
    if out["back_exc"] is not None or len(out["back"]) != len(rows):
        return {"token_to_transcript(any tensor) = model": "false"}, meta
    items = []
    for (i, s, e), b in zip(rows, out["back"]):
        if isinstance(b, tuple):
            t, bs, be = b
            if fs:
                okf = (s * fs / 1000 == bs) and (e * fs / 1000 == be) and Fraction(s * fs) == Fraction(s) * Fraction(fs)
                qs, qe = (Fraction(s) * Fraction(fs) / 1000, Fraction(e) * Fraction(fs) / 1000) if okf else (Fraction(bs), Fraction(be))
            else:
                qs, qe = Fraction(bs), Fraction(be)
            items.append(f"Timed {coq_tk(t)} {cq(qs)} {cq(qe)}")
        else:
            items.append(f"Plain {coq_tk(b)}")
    i2t = "None" if case.get("id2token") is None else co(cl([cp(cz(k), coq_tk(v)) for k, v in {k: v for k, v in case["id2token"]}.items()]))
    refq = cl([cp(cz(a), cz(b), cz(c)) for a, b, c in rows])
    return {"token_to_transcript(any tensor) = model": f"check_to_transcript {refq} {i2t} {fsq} {cl(items)}"}, meta


def g_id(rng):
    """token ids are arbitrary integers: small, negative (also -1, the boundary marker's value), huge"""
    r = rng.random()
    if r < 0.75:
        return rng.randint(0, 9)
    return rng.choice([-1, -1, -2, -7, 2 ** 31 - 1, 2 ** 31, 2 ** 40 + 3, -2 ** 35])


def g_tok_back(rng):
    shape = rng.choice([3, 3, 3, 1, 1])
    n = rng.choice([0, 1, 2, 4, 6])
    if shape == 3:
        ref = [[g_id(rng), rng.choice([-1, -1, 0, 1, 5, 40]), rng.choice([-1, -1, 0, 2, 7, 41])] for _ in range(n)]
    else:
        ref = [[g_id(rng)] for _ in range(n)] if rng.random() < 0.5 else [g_id(rng) for _ in range(n)]
    i2t = rng.choice([None, [[1, "one"], [2, "two"], [5, 50]], [[0, "a"]], [], [[-1, "neg"], [2 ** 40 + 3, "big"], [0, ""]]])
    c = {"kind": "tok_back", "ref": ref, "shape": shape, "id2token": i2t, "fs": rng.choice([None, 0, 10, 12.5, 0.125])}
    if shape == 1 and rng.random() < 0.5:
        c["col"] = True
    if rng.random() < 0.5:
        c["layout"] = rng.choice(LAYOUTS)
    g_style(rng, c)
    return c


def g_style(rng, c, p=0.3):
    """entry-point style of the calls of a case: positional (default), by keyword, documented defaults omitted"""
    r = rng.random()
    if r < p / 2:
        c["style"] = "kw"
    elif r < p:
        c["style"] = "omit"
    return c


KINDS = {
    "tok_back": (impl_tok_back, terms_tok_back),
    "trn": (impl_trn, terms_trn), "trn_text": (impl_trn_text, terms_trn_text), "trn_pool": (impl_trn_pool, terms_trn_pool),
    "ctm": (impl_ctm, terms_ctm), "ctm_text": (impl_ctm_text, terms_ctm_text),
    "tg": (impl_tg, terms_tg), "tok": (impl_tok, terms_tok),
}
# round-5 (numeric extremes of times): the same implementations and the same model terms under kinds of their own - the
# source ties select their cases by kind and were developed on the ordinary regimes only
KINDS.update({"ctmx": (_on_unit(impl_ctm), _on_unit(terms_ctm)), "ctmx_text": (_on_unit(impl_ctm_text), _on_unit(terms_ctm_text)),
              "tgx": (impl_tg, terms_tg), "tokx": (impl_tok, terms_tok)})
BASE_KIND = {"ctmx": "ctm", "ctmx_text": "ctm_text", "tgx": "tg", "tokx": "tok"}
for _k, _b in BASE_KIND.items():
    THEOREMS[_k] = THEOREMS[_b]

# ----------------------------------------------------------------------------------------
# generators (all randomness from chk.rng)
# ----------------------------------------------------------------------------------------

TOK_IN = list("abcxyz019.-_'@;:%\\") + ["é", "ß", "あ"]
TOK_TOP = TOK_IN + list("/})(")


def g_tok(rng, top, wild=False):
    al = TOK_TOP if top else TOK_IN
    n = rng.choice([1, 1, 2, 3, 3, 5])
    s = "".join(rng.choice(al) for _ in range(n))
    if wild and rng.random() < 0.3:
        s = rng.choice(["", "{", "a{", "/", "}", "a/b", "}a", " ", "a\tb", "a\xa0", "a b"]) if rng.random() < 0.7 else s + rng.choice("{/} \t")
    return s


def g_elem(rng, depth, top, wild=False):
    if depth > 0 and rng.random() < (0.3 if top else 0.25):
        nb = rng.choice([1, 2, 2, 3])
        brs = []
        for b in range(nb):
            k = rng.choice([0, 1, 1, 2, 3])
            if b == nb - 1 and k == 0 and not (wild and rng.random() < 0.5):
                k = 1
            brs.append([g_elem(rng, depth - 1, False, wild) for _ in range(k)])
        if wild and rng.random() < 0.1:
            brs = []
        return {"alt": brs}
    return g_tok(rng, top, wild)


def g_utt(rng, wild=False):
    al = list("abcuU0123-_ )}{/.") + ["é"]
    if wild:
        al += ["(", "\t"]
    return "".join(rng.choice(al) for _ in range(rng.choice([0, 1, 2, 3, 5, 8])))


def g_trn(rng, wild=False, depth=None):
    n = rng.choice([0, 1, 1, 2, 3, 5])
    ts = []
    for _ in range(n):
        d = rng.choice([0, 1, 2, 3, 4]) if depth is None else depth
        ts.append([g_utt(rng, wild), [g_elem(rng, d, True, wild) for _ in range(rng.choice([0, 1, 2, 3, 4, 6]))]])
    c = {"kind": "trn", "ts": ts, "times": rng.random() < 0.3, "via": rng.choice(["mem", "mem", "disk"])}
    if rng.random() < 0.25:
        c["iter"] = True
    if rng.random() < 0.2:
        c["warn"] = True
    return g_style(rng, c)


def g_trn_multialt(rng):
    """several CLOSED top-level alternates on one line, of different shapes, adjacent or separated by tokens, so that a
    reader that re-uses the first alternate (or its branch list) for the later ones is visible"""
    ts = []
    for _ in range(rng.choice([1, 1, 2])):
        tr = []
        k = rng.choice([2, 2, 3, 4])
        for j in range(k):
            if j and rng.random() < 0.4:
                tr.append(g_tok(rng, True))
            alt = g_elem(rng, rng.choice([1, 1, 2]), True)
            while isinstance(alt, str):
                alt = g_elem(rng, rng.choice([1, 2]), True)
            tr.append(alt)
        if rng.random() < 0.4:
            tr.append(g_tok(rng, True))
        ts.append([g_utt(rng), tr])
    c = {"kind": "trn", "ts": ts, "times": False, "via": rng.choice(["mem", "mem", "disk"]), "iter": rng.random() < 0.3}
    return g_style(rng, c, 0.2)


# ---- unusual but legal characters in tokens / ids / names, for every file format (round-4 miss C11-g) -------------------
# Each format has its own delimiters; every other character is legal in a token and must come back unchanged:
#   trn       ' ' between tokens, '{' (and '/', '}' inside an alternate), LF/CR; '(' in an utterance id
#   ctm       every Unicode white space (the format is white-space separated by definition), the comment mark ';;'
#   TextGrid  '"' (and line breaks: outside the model's line-level reader)
# so a tab, U+00A0, U+3000 ... inside a trn token or a TextGrid label is data, not a separator.
WS_CP = [9, 10, 11, 12, 13, 28, 29, 30, 31, 32, 133, 160, 5760] + list(range(8192, 8203)) + [8232, 8233, 8239, 8287, 12288]
WS_OTHER = [chr(c) for c in WS_CP if c not in (10, 13, 32)]          # white space that is neither ' ' nor a line break
BSL = chr(92)
ODD_QUOTE = ['"', "'", "`", BSL, BSL + BSL, "''", BSL + "n", BSL + "t", BSL + '"']
# combining marks (alone they attach to the neighbour), a decomposed letter, zero-width / format characters (not white
# space for str.isspace), soft hyphen, replacement / non-characters, non-BMP, letters whose case / NFKC forms differ
ODD_COMB = [chr(c) for c in (0x301, 0x308, 0x3099, 0x200B, 0x200C, 0x200D, 0x2060, 0xFEFF, 0x180E, 0xAD, 0xFFFD, 0xFFFF,
                             0x1F600, 0x10000, 0x10FFFF, 0x212B, 0xFB01, 0x1E9E, 0x130, 0xE9, 0x3042)] + ["e" + chr(0x301)]
ODD_CTRL = [chr(c) for c in (0, 1, 8, 27, 127, 128, 132, 134, 159)]
ODD_ASCII = list("#*?~^$%&=+<>[]@!|,:")
ODD_FOREIGN = {           # the OTHER formats' delimiters (and the format's own where the position makes them plain)
    "trn_top": ["/", "}", "(", ")", ";", ";;", '"', "a/b", "//", ")("],
    "trn_in": ["(", ")", ";", ";;", '"', "()"],
    "utt": [" ", "  ", ")", "{", "}", "/", ";;", '"', ") ", "{ a / b }"],
    "ctm": ["{", "}", "/", "(", ")", '"', ";", "{/}", "()", "a;b"],
    "tg": ["{", "}", "/", "(", ")", ";", ";;", " ", "  ", "{ a / b }", "(u)"],
}


def _odd_piece(rng, where):
    """one unusual piece (a character or a short cluster) that is legal at `where`"""
    cats = [ODD_QUOTE, ODD_COMB, ODD_CTRL, ODD_ASCII, ODD_FOREIGN[where]]
    if where != "ctm":
        cats += [WS_OTHER, WS_OTHER, WS_OTHER]          # white space other than the delimiter: a fair share
    p = rng.choice(rng.choice(cats))
    if where == "tg":
        p = p.replace('"', "'")
    return p


def g_odd(rng, where, empty_ok=False):
    """a token / id / name with unusual characters in every position: interior, leading, trailing, alone, doubled, mixed"""
    shape = rng.choice(["mid", "mid", "lead", "trail", "alone", "dbl", "mix", "mix"])
    a, b = rng.choice("abx1"), rng.choice("aby0")
    p = _odd_piece(rng, where)
    if shape == "mid":
        s = a + p + b
    elif shape == "lead":
        s = p + a
    elif shape == "trail":
        s = a + p
    elif shape == "alone":
        s = p
    elif shape == "dbl":
        s = a + p + p + b
    else:
        s = "".join(_odd_piece(rng, where) if rng.random() < 0.5 else rng.choice("abx1") for _ in range(rng.choice([2, 3, 5])))
    if where == "ctm":
        while ";;" in s:
            s = s.replace(";;", ";")
    if empty_ok and rng.random() < 0.08:
        s = ""
    return s


def g_trn_chars(rng):
    """transcripts whose tokens and utterance ids use every character the trn format does not reserve; lines with and
    without alternates (the reader may take a different route for either); white space other than ' ' inside, at the
    start and at the end of tokens, and as whole tokens - except at the two ends of a line (see the pending corpus case
    trn_line_end_whitespace: the unchanged reader strips there)"""
    ts = []
    for _ in range(rng.choice([1, 1, 2, 3])):
        tr = [g_odd(rng, "trn_top") if rng.random() < 0.75 else g_tok(rng, True) for _ in range(rng.choice([1, 2, 3, 4]))]
        if rng.random() < 0.4:
            def branch(d):
                out = []
                for _ in range(rng.choice([1, 1, 2])):
                    if d > 0 and rng.random() < 0.25:
                        out.append({"alt": [branch(d - 1) for _ in range(rng.choice([1, 2]))]})
                    else:
                        out.append(g_odd(rng, "trn_in") if rng.random() < 0.75 else g_tok(rng, False))
                return out
            tr.insert(rng.randint(0, len(tr)), {"alt": [branch(1) for _ in range(rng.choice([1, 2, 3]))]})
        if isinstance(tr[0], str) and tr[0][0].isspace():
            tr[0] = rng.choice("ab") + tr[0]
        if isinstance(tr[-1], str) and tr[-1][-1].isspace():
            tr[-1] = tr[-1] + rng.choice("ab")
        u = g_odd(rng, "utt", empty_ok=True) if rng.random() < 0.6 else g_utt(rng)
        ts.append([u.replace("(", "["), tr])
    c = {"kind": "trn", "ts": ts, "times": rng.random() < 0.2, "via": rng.choice(["mem", "disk"])}
    if rng.random() < 0.3:
        c["iter"] = True
    return g_style(rng, c, 0.2)


def g_trn_chars_pool(rng):
    c = g_trn_chars(rng)
    c["ts"] = (c["ts"] + g_trn_chars(rng)["ts"]) * rng.choice([1, 2])
    c.update(kind="trn_pool", proc=rng.choice([1, 2, 3]), chunk=rng.choice([1, 2, 1000]), entry=rng.choice(["path", "file"]),
             rot=rng.randint(0, 5))
    for k in ("times", "via", "iter", "style"):
        c.pop(k, None)
    return c


def g_ctm_chars(rng):
    """ctm fields (token, waveform name, channel; utterance ids behind a mapping: anything, also white space / empty) with
    every character that is not white space and without the comment mark ';;'"""
    def fld(p=0.75):
        return g_odd(rng, "ctm") if rng.random() < p else g_word(rng)
    use_dict = rng.random() < 0.6
    ts, ids, m, wcs = [], set(), [], set()
    for i in range(rng.choice([1, 2, 3, 4])):
        u = g_odd(rng, "utt", empty_ok=True) if (use_dict and rng.random() < 0.5) else fld()
        if u in ids:
            continue
        ids.add(u)
        tr = []
        for _ in range(rng.choice([1, 2, 3])):
            s = rng.randint(0, 300)
            tr.append([fld(0.85), s, s + rng.choice([0, 1, 32, 64])])
        ts.append([u, tr])
        if use_dict:
            wc = [fld(0.6), fld(0.4) if rng.random() < 0.5 else rng.choice(["A", "B", "1"])]
            if tuple(wc) in wcs:
                wc = ["w%d" % i, "A"]
            wcs.add(tuple(wc))
            m.append([u, wc])
    if use_dict:
        rng.shuffle(m)
        c = {"kind": "ctm", "ts": ts, "utt2wc": m, "wc2utt": [[wc, u] for u, wc in m]}
    else:
        c = {"kind": "ctm", "ts": ts, "utt2wc": fld(0.5), "wc2utt": None}
    c["roundtrip"] = ctm_valid(c)
    return g_style(rng, c, 0.2)


def g_tg_chars(rng):
    """TextGrid labels and tier names with every character but '"' and line breaks: white space of all kinds (also ' ')
    inside / around / as the whole label, empty labels, the other formats' delimiters, backslashes, quotes"""
    point = rng.random() < 0.3
    t = rng.choice([0.0, 0.5, 1.25])
    tr = []
    for _ in range(rng.choice([1, 2, 3, 4])):
        if rng.random() < 0.3:
            t += 0.25
        d = 0.0 if point else rng.choice([0.125, 0.5, 1.0])
        tr.append([g_odd(rng, "tg", empty_ok=True) if rng.random() < 0.85 else "a", t, t + d])
        t += d + (0.5 if point else 0.0)
    # times are multiples of 1/8 s: exact with >= 3 decimals (this stream is about labels, not about rounding)
    c = {"kind": "tg", "tr": tr, "precision": 3 if rng.random() < 0.8 else rng.choice([4, 5, 6]),
         "point_tier": None if rng.random() < 0.8 else point, "tier_id": 0,
         "fill": rng.choice([None, None, "<gap>", chr(9), "a" + chr(160) + "b"])}
    if rng.random() < 0.4:
        c["tier_name"] = g_odd(rng, "tg", empty_ok=True)
        c["tier_id"] = rng.choice([0, c["tier_name"]])
    return g_style(rng, c, 0.2)


SOUP = list("ab {}{}/ () \n") + ["\t", "\xa0", "\u2003", "\x0b", "\x1c", "é"]


def g_trn_text(rng):
    lines = []
    for _ in range(rng.choice([1, 1, 2, 3])):
        n = rng.choice([0, 1, 2, 4, 8, 14, 20])
        body = "".join(rng.choice(SOUP[:-1] if rng.random() < 0.9 else SOUP) for _ in range(n))
        if rng.random() < 0.75:
            body += rng.choice(["(u)", " (u1)", "(a b) ", "(u) x", "()", ")("])
        lines.append(body)
    text = "\n".join(lines) + rng.choice(["", "\n"])
    via = "disk" if ("\r" not in text and rng.random() < 0.3) else "mem"
    return {"kind": "trn_text", "text": text, "via": via, "warn": rng.random() < 0.3, "iter": rng.random() < 0.2}


def g_trn_pool(rng):
    c = g_trn(rng, depth=2)
    while len(c["ts"]) < 2:
        c = g_trn(rng, depth=2)
    c["ts"] = c["ts"] * rng.choice([1, 2, 3])
    c.update(kind="trn_pool", proc=rng.choice([1, 2, 3]), chunk=rng.choice([1, 1, 2, 3, 5, 1000]),
             entry=rng.choice(["path", "file"]), rot=rng.randint(0, 5))
    c.pop("times"), c.pop("via")
    if rng.random() < 0.25:  # an error or blank lines somewhere in the middle
        f = io.StringIO()
        from pydrobert.torch.data import write_trn
        write_trn([(u, [py_elem(x, True) for x in tr]) for u, tr in c["ts"]], f)
        ls = f.getvalue().split("\n")
        ls.insert(rng.randint(0, len(ls) - 1), rng.choice(["", "   ", "no id here", "{ } (u)"]))
        c["text"] = "\n".join(ls)
    return c


CW = list("abAB019._-{") + ["é"]


def g_word(rng, n=(1, 2, 3)):
    return "".join(rng.choice(CW) for _ in range(rng.choice(n)))


def g_ctm(rng, wild=False, shared=None):
    """shared=True: waveform names come from a pool of two or three (some a prefix of another), so that several
    utterances share a waveform on different channels and are adjacent in the sorted file"""
    if shared is None:
        shared = rng.random() < 0.3
    ts, ids = [], set()
    big = rng.random() < 0.15
    for _ in range(rng.choice([0, 1, 2, 3, 4]) if not shared else rng.choice([2, 3, 4, 5])):
        u = g_word(rng) if rng.random() < 0.7 else rng.choice(["u", "u1", "u-", "u1a", "U"])
        if u in ids and not (wild and rng.random() < 0.5):
            continue
        ids.add(u)
        tr = []
        for _ in range(rng.choice([1, 1, 2, 3, 5]) if not wild else rng.choice([0, 1, 2, 3])):
            s = rng.choice([0, 0, 1, 8, 64, 65, 100, 640, 700])
            s = s if rng.random() < 0.5 else rng.randint(0, 800)
            if big:     # hours into a recording; still on the 1/64 s grid, far below 2^53
                s += rng.choice([64 * 3600, 64 * 99999, 2 ** 30])
            d = rng.choice([0, 0, 1, 2, 32, 64])
            tok = g_word(rng) if rng.random() < 0.85 else rng.choice([";", "a;b", ";a", "{", "1.5", "-"])
            if rng.random() < 0.3 and tr and len(tr[-1]) == 3:   # ties in start (and sometimes duration)
                s = tr[-1][1]
                d = rng.choice([d, tr[-1][2] - tr[-1][1]])
            t = [tok, s, s + d]
            if wild and rng.random() < 0.2:
                t = rng.choice([[tok], [tok, -1, 3], [tok, 5, 4], [tok, -2, -1], [tok, 0, 0]])
            tr.append(t)
        ts.append([u, tr])
    if not shared and rng.random() < 0.5:
        m = rng.choice(["A", "A", "B", "1"])
        inv = None
    else:
        m, wcs = [], set()
        wpool = rng.choice([["w", "w1"], ["a", "a-", "ab"], ["x", "x"]])
        for u, _ in ts:
            if wild and rng.random() < 0.15:
                continue
            for _ in range(50):
                if shared:
                    wc = [rng.choice(wpool), rng.choice(["A", "B", "1", "2", "AB"])]
                else:
                    wc = [g_word(rng, (1, 2)), g_word(rng, (1,))]
                if tuple(wc) not in wcs:
                    break
            else:
                wc = [u + "_w", "A"]
            wcs.add(tuple(wc))
            m.append([u, wc])
        rng.shuffle(m)
        inv = [[wc, u] for u, wc in m]
        if wild and inv and rng.random() < 0.3:
            inv.pop(rng.randrange(len(inv)))
        if wild and rng.random() < 0.15:
            # an EMPTY mapping is a mapping (every lookup fails), not "no mapping"
            if rng.random() < 0.5:
                inv = []
            else:
                m = []
    c = {"kind": "ctm", "ts": ts, "utt2wc": m, "wc2utt": inv}
    c["roundtrip"] = ctm_valid(c) and not wild
    return g_style(rng, c)


def g_ctm_text(rng):
    segs = []
    for _ in range(rng.choice([0, 1, 2, 4, 7])):
        s, d = rng.choice([0, 1, 5, 64, 130]), rng.choice([0, 1, 64])
        if rng.random() < 0.08:
            s, d = rng.choice([(-1, 2), (3, -1), (0, 0), (-1, 0)])
        dec = "".join(ch for ch in "ct;bk" if rng.random() < 0.15)
        segs.append([rng.choice(["w1", "w2", "a"]), rng.choice(["A", "B"]), s, d, g_word(rng), dec])
    inv = None
    if rng.random() < 0.5:
        inv = [[[w, c], rng.choice(["u1", "u2", w + c])] for w in ("w1", "w2", "a") for c in ("A", "B") if rng.random() < 0.9]
    return {"kind": "ctm_text", "segs": segs, "wc2utt": inv}


TG_TOK = list("abcxyz01 .-'/{}()") + ["é"]


def g_time(rng, hi):
    r = rng.random()
    if r < 0.6:
        return rng.randint(0, hi * 64) / 64
    if r < 0.8:
        return round(rng.random() * hi, rng.choice([1, 2, 3, 4]))
    return float(rng.randint(0, hi))


def g_tg(rng, wild=False):
    n = rng.choice([1, 1, 2, 3, 4, 6]) if not wild else rng.choice([0, 1, 2, 3])
    hi = rng.choice([2, 8, 8, 12, 30, 120, 1100])
    kind = rng.choice(["tiling", "gaps", "gaps", "points", "mixed", "unsorted"])
    tr, t = [], g_time(rng, hi) if rng.random() < 0.7 else 0.0
    for _ in range(n):
        tok = "".join(rng.choice(TG_TOK) for _ in range(rng.choice([0, 1, 2, 4])))
        if kind in ("gaps", "mixed") and rng.random() < 0.5:
            t += rng.choice([1 / 64, 0.25, 1.0, 3.5])
        d = 0.0 if kind == "points" or (kind == "mixed" and rng.random() < 0.4) else rng.choice([1 / 64, 0.125, 0.5, 1.0, 2.75, 0.1, 0.0004])
        tr.append([tok, t, t + d])
        t = t + d
        if kind == "points":
            t += rng.choice([0.0, 1 / 64, 0.5, 2.0])
    if kind == "unsorted":
        rng.shuffle(tr)
    c = {"kind": "tg", "tr": tr}
    if tr:
        lo, hi_ = min(x[1] for x in tr), max(x[2] for x in tr)
        r = rng.random()
        if r < 0.35:
            c["start_time"] = rng.choice([0.0, lo, max(0.0, lo - 0.5)]) if not wild else rng.choice([lo + 1 / 64, lo, 0.0])
        r = rng.random()
        if r < 0.35:
            c["end_time"] = rng.choice([hi_, hi_ + 1.0, hi_ + 1 / 64]) if not wild else rng.choice([hi_ - 1 / 64, hi_])
    if rng.random() < 0.4:
        c["tier_name"] = rng.choice(["", "words", "a b", "tier-1", "é"])
    c["point_tier"] = rng.choice([None, None, True, False])
    c["precision"] = rng.choice([0, 1, 2, 3, 3, 4, 5, 6]) if rng.random() < 0.93 else rng.choice([7, 9, 12])
    name = c.get("tier_name", "transcript")
    c["tier_id"] = rng.choice([0, 0, 0, name, name, -1] + ([1, "nope", -2] if wild or rng.random() < 0.1 else []))
    c["fill"] = rng.choice([None, None, "<gap>", "sil", ""])
    return g_style(rng, c)


def g_tg_subprec(rng):
    """every interval is shorter than (or about) one unit of the print precision p, p on both sides of the default 3:
    whether the tier is an interval or a point tier (point_tier unset) is decided by comparing the times PRINTED WITH p
    digits - not with 3, not by start == end"""
    p = rng.choice([0, 1, 2, 4, 4, 5, 5, 6, 6, 3])
    unit = 10.0 ** -p
    n = rng.choice([1, 1, 2, 3])
    tr = []
    # starts sit well inside a cell of the coarser of the two grids (p digits / 3 digits), so that neither rounding
    # carries; durations: 0, a fraction of the unit (prints equal), one or a few units (prints differ)
    coarse = max(unit, 1e-3)
    off = 0.2 if p <= 3 else 0.1
    m = rng.randint(0, 4000)
    for _ in range(n):
        tok = "".join(rng.choice(TG_TOK) for _ in range(rng.choice([1, 2])))
        k = rng.choice([0, 0.25, 0.4, 0.6, 1, 1, 2, 3])
        d = k * unit
        if p > 3 and d > 0.35e-3:
            d = 0.3e-3
        t = (m + off) * coarse
        tr.append([tok, t, t + d])
        m += (4 if p <= 3 else 1) + rng.choice([0, 0, 1, 7])
    c = {"kind": "tg", "tr": tr, "precision": p, "point_tier": None if rng.random() < 0.8 else rng.choice([True, False]),
         "tier_id": 0, "fill": rng.choice([None, None, "sil"])}
    if rng.random() < 0.3:
        c["tier_name"] = "words"
        c["tier_id"] = rng.choice([0, "words"])
    return g_style(rng, c, 0.2)


def g_tok_case(rng, wild=False):
    vocab = rng.choice([None, "str", "str", "int"])
    names = ["a", "b", "c", "the", "<unk>", "x1"]
    n = rng.choice([0, 1, 2, 3, 5, 8])
    fs = rng.choice([None, None, 10, 10.0, 12.5, 0.125, 1, 2.5, 20, 0])
    timed_p = rng.choice([0.0, 0.5, 1.0])
    if vocab == "str":
        keys = rng.sample(names, rng.randint(1, len(names)))
        ids = rng.sample(range(0, 12), len(keys))
        if rng.random() < 0.25:      # arbitrary integers are ids: negative (also -1), beyond int32
            ids = rng.sample([-1, -2, -9, 0, 2 ** 31, 2 ** 40 + 3, -2 ** 35, 5, 7, 11, 1, 2], len(keys))
        t2i = [[k, i] for k, i in zip(keys, ids)]
        pool = keys + ([rng.choice(names)] if rng.random() < 0.5 else [])
    elif vocab == "int":
        keys = rng.sample(range(0, 8), rng.randint(1, 5))
        t2i = [[k, i] for k, i in zip(keys, rng.sample(range(10, 30), len(keys)))]
        pool = keys + [rng.randint(0, 9)]
    else:
        t2i, pool = None, list(range(0, 9)) + ([rng.choice(names)] if wild else [])
    unk = rng.choice([None, None, "<unk>", "zz", 7, 99, 0, 0]) if t2i is not None else rng.choice([None, "<unk>"])
    if t2i is not None and rng.random() < 0.12:
        # falsy cases: an EMPTY vocabulary is a vocabulary (everything is out of it); the unknown id may be 0
        if rng.random() < 0.5:
            t2i = []
        else:
            t2i = [[k, (0 if k == "<unk>" else i)] for k, i in t2i if i != 0 or k == "<unk>"]
            if vocab == "str" and "<unk>" not in [k for k, _ in t2i]:
                t2i.append(["<unk>", 0])
            unk = "<unk>" if vocab == "str" else 0
        pool = pool + ([rng.choice(names)] if vocab == "str" else [rng.randint(0, 9)])
    tr = []
    for _ in range(n):
        tok = rng.choice(pool)
        if rng.random() < timed_p:
            if fs:
                # regime E: dyadic seconds, so that 1000*s, the half-frame offset and the floor division are exact
                s = rng.randint(0, 400) / 64 if rng.random() < 0.7 else rng.choice([0.0, 1 / 128, 3 / 256, 1.0, 2.5, 3600.5, 86400.25])
                e = s if rng.random() < 0.25 else s + rng.choice([1 / 64, 1 / 128, 1 / 256, 0.25, 1.0, 5 / 1024])
                tr.append([tok, s, e])
            else:
                s = rng.randint(0, 50)
                tr.append([tok, s, s + rng.randint(0, 9)])
        else:
            tr.append(tok)
    c = {"kind": "tok", "tr": tr, "token2id": t2i, "unk": unk, "fs": fs, "skip": rng.random() < 0.2}
    if rng.random() < 0.35:
        c["layout"] = rng.choice(LAYOUTS)
    g_style(rng, c)
    if t2i is not None:
        c["id2token"] = [[i, k] for k, i in t2i]
        if rng.random() < 0.2:
            c["id2token"] = c["id2token"][1:]
    elif rng.random() < 0.2:
        c["id2token"] = [[1, "one"], [2, "two"]]
    in_vocab = t2i is None or all((x[0] if isinstance(x, list) else x) in [k for k, _ in t2i] for x in tr)
    ints_only = t2i is not None or all(isinstance(x[0] if isinstance(x, list) else x, int) for x in tr)
    c["roundtrip"] = bool(fs) and in_vocab and ints_only and not c["skip"] and c.get("id2token") == ([[i, k] for k, i in t2i] if t2i else None)
    return c


# ---- numeric extremes of times, every timed format (round-5 miss C11-j) ---------------------------------------------------
# repr(float) - what write_ctm prints - switches to exponent notation for non-zero values below 1e-4 and for values >= 1e16
# ('3.0517578125e-05', '1.8014398509481984e+16'); fixed-precision printing (TextGrid) of such values gives all-zero or
# 17+ digit fields; seconds -> frames multiplies and floor-divides them.  Every generated time is k * unit with
#   unit a power of two, k < 2^53 / 2^30     - products, sums start + duration and differences end - start are exact, or
#   unit ANY float (1e-5, 1/48000, 1e16 ...), k in {0, 1, 2} - u + u = 2u and 2u - u = u are exact in binary floating point,
# so the scale-free integer model stays the judge and the expected times are exact.
P2 = lambda e: 2.0 ** e                                                                                    # noqa: E731
EXT_GRID = [    # (unit, start pool, duration pool) - in units
    (P2(-20), [0, 0, 1, 2, 3, 7, 50, 104, 105, 2 ** 20, 2 ** 20 + 1], [0, 1, 1, 2, 5, 100, 2 ** 19]),      # < 1e-4 up to k = 104
    (P2(-16), [0, 0, 1, 2, 6, 7, 65536, 65537], [0, 1, 2, 4, 6, 7, 32768]),                               # 2 samples at 65.5 kHz
    (P2(-30), [0, 1, 2, 1000, 2 ** 30], [0, 1, 3, 2 ** 10]),
    (P2(-60), [0, 1, 5, 2 ** 20], [0, 1, 9]),
    (P2(-1074), [0, 1, 2, 3, 2 ** 30], [0, 1, 2, 5]),                                                       # subnormals: '5e-324'
    (P2(30), [0, 1, 9313225, 9313226, 2 ** 24, 2 ** 24 + 1, 2 ** 25 + 3, 2 ** 26], [0, 1, 7, 2 ** 24, 2 ** 25]),  # 1e16 ~ 9313225.7 units
    (P2(100), [0, 1, 2, 3, 1000], [0, 1, 5]),
    (P2(1000), [0, 1, 2, 3], [0, 1, 4]),
]
EXT_ANY = [1e-5, 1 / 48000, 1e-7, 3e-5, 0.30000000000000004 - 0.3, 9.999e-5, 2.2250738585072014e-308, 1e16, 1e22,
           123456789012345680.0, 1e100, 1.7976931348623157e308]


def _ext_times(rng):
    """-> (unit, draw) with draw() -> (start, end) in units"""
    if rng.random() < 0.6:
        unit, sp, dp = rng.choice(EXT_GRID)

        def draw():
            s = rng.choice(sp) if rng.random() < 0.8 else rng.randint(0, max(sp))
            return s, s + (rng.choice(dp) if rng.random() < 0.8 else rng.randint(0, max(dp)))
        return unit, draw
    unit = rng.choice(EXT_ANY)
    top = 1 if unit > 1e308 else 2

    def draw():
        s = rng.randint(0, top)
        return s, rng.randint(s, top)
    return unit, draw


def g_ctm_extreme(rng):
    c = g_ctm(rng, shared=rng.random() < 0.3)
    while not c["ts"]:
        c = g_ctm(rng)
    unit, draw = _ext_times(rng)
    for _, tr in c["ts"]:
        for j, t in enumerate(tr):
            t[1], t[2] = draw()
            if j and rng.random() < 0.25:       # ties in start (the reader's sort by start is stable)
                t[1], t[2] = tr[j - 1][1], max(tr[j - 1][1], t[2])
    c.update(kind="ctmx", unit=unit)
    c["roundtrip"] = ctm_valid(c)
    return c


def g_ctm_text_extreme(rng):
    """a foreign ctm file (comments, 6th column, blank lines, unsorted) whose numbers are printed by repr"""
    c = g_ctm_text(rng)
    while not c["segs"]:
        c = g_ctm_text(rng)
    unit, draw = _ext_times(rng)
    for sg in c["segs"]:
        s, e = draw()
        sg[2], sg[3] = s, e - s
    c.update(kind="ctmx_text", unit=unit)
    return c


TG_TINY = [0.0, 5e-324, 1e-7, P2(-20), 1e-5, 1 / 48000, 3e-5, P2(-14), 9.999e-5, 2.5e-4, 1e-3, 0.0015, 0.25]
TG_HUGE = [(1e16, 2.0), (P2(60), 256.0), (1e22, 2097152.0), (P2(100), P2(48)), (9007199254740992.0, 2.0), (1e15, 0.125)]


def g_tg_extreme(rng):
    """TextGrid tiers whose times are tiny (below / around one unit of every print precision, down to subnormals) or huge
    (>= 1e16: 17+ digit fields, neighbouring floats 2 ... 2^48 apart); exact rationals of the floats on the model side"""
    tr = []
    if rng.random() < 0.55:
        k = rng.choice([1, 2, 2, 3, 4])
        pts = sorted(rng.sample(TG_TINY, min(len(TG_TINY), 2 * k)))
        point = rng.random() < 0.25
        for j in range(k):
            s, e = pts[2 * j], pts[2 * j + 1]
            r = rng.random()
            tr.append(["t%d" % j, s, s if (point or r < 0.15) else e])
            if r > 0.6 and j + 1 < k:
                pts[2 * j + 2] = e                      # the next interval starts where this one ends
        p = rng.choice([0, 3, 3, 4, 5, 5, 6, 7, 9, 12, 12])
    else:
        base, ulp = rng.choice(TG_HUGE)
        t = base + ulp * rng.choice([0, 1, 3])
        point = rng.random() < 0.25
        for j in range(rng.choice([1, 2, 3])):
            if rng.random() < 0.5:
                t += ulp * rng.choice([1, 2, 1024])
            d = 0.0 if (point or rng.random() < 0.15) else ulp * rng.choice([1, 1, 3, 512])
            tr.append(["h%d" % j, t, t + d])
            t += d
        p = rng.choice([0, 1, 2, 3, 3, 4, 6])
    if rng.random() < 0.15:
        rng.shuffle(tr)
    c = {"kind": "tgx", "tr": tr, "precision": p, "point_tier": rng.choice([None, None, None, True, False]), "tier_id": 0,
         "fill": rng.choice([None, None, "sil"])}
    if rng.random() < 0.3:
        c["start_time"] = 0.0
    if rng.random() < 0.2:
        hi = max(x[2] for x in tr)
        c["end_time"] = rng.choice([hi, hi * 2 + 1.0])
    if rng.random() < 0.25:
        c["tier_name"] = "words"
        c["tier_id"] = rng.choice([0, "words", -1])
    return g_style(rng, c, 0.2)


def g_tok_extreme(rng):
    """seconds <-> frames with tiny and huge times.  Dyadic seconds k * 2^-20 / k * 2^30 and dyadic (or 10 / 12.5 / 20 /
    1000 ms) frame shifts keep 1000*s, the half-frame offset and the floor division exact (regime E); the few non-dyadic
    tiny times (1e-5, 1/48000 ...) sit in the first half of frame 0 for every shift used with them, far from a boundary.
    Frame indices stay below 2^63; ids beyond 2^24 / 2^53 ride along (a float32 / float64 pass would round them)."""
    huge = rng.random() < 0.4
    tr = []
    n = rng.choice([1, 2, 3, 5])
    vocab = rng.random() < 0.5
    t2i = [["a", 2 ** 24 + 1], ["b", 3], ["c", 2 ** 53 + 1], ["d", 0]] if vocab else None
    pool = ["a", "b", "c", "d"] if vocab else [0, 5, 2 ** 24 + 1, 2 ** 31 + 7, 2 ** 53 + 1]
    if huge:
        fs = rng.choice([10, 10.0, 12.5, 20, 1000])
        for _ in range(n):
            k = rng.choice([9313226, 2 ** 24, 2 ** 24 + 1, 2 ** 25 + 3, 5 * 10 ** 7, rng.randint(2 ** 24, 5 * 10 ** 7)])
            d = rng.choice([0, 1, 3, 2 ** 10, 2 ** 20])
            tr.append([rng.choice(pool), k * P2(30), (k + d) * P2(30)])
    else:
        fs = rng.choice([10, 10.0, 12.5, 0.125, 1, 0.015625])
        any_ok = fs in (10, 10.0, 1, 0.125)
        for _ in range(n):
            if any_ok and rng.random() < 0.3:
                a, b = sorted(rng.sample([0.0, 1e-7, 1e-5, 1 / 48000, 3e-5], 2))
                tr.append([rng.choice(pool), a, rng.choice([a, b])])
            else:
                k = rng.choice([0, 1, 2, 3, 50, 105, 1000, 2 ** 20, 2 ** 20 + 1])
                d = rng.choice([0, 1, 2, 100, 2 ** 14])
                tr.append([rng.choice(pool), k * P2(-20), (k + d) * P2(-20)])
    if rng.random() < 0.2:
        tr.insert(rng.randint(0, len(tr)), rng.choice(pool))        # an untimed token among the timed ones
    c = {"kind": "tokx", "tr": tr, "token2id": t2i, "unk": None, "fs": fs, "skip": False,
         "id2token": [[i, k] for k, i in t2i] if t2i else None, "roundtrip": True}
    if rng.random() < 0.3:
        c["layout"] = rng.choice(["transposed", "offset", "step"])
    return g_style(rng, c, 0.2)


def _exp_notation(case):
    """does a time of the case print with an exponent under repr (what write_ctm uses)?"""
    k = case["kind"]
    if k == "ctmx":
        vs = [v * float(case["unit"]) for _, tr in case["ts"] for t in tr if len(t) == 3 for v in (t[1], t[2] - t[1])]
    elif k == "ctmx_text":
        vs = [v * float(case["unit"]) for sg in case["segs"] for v in (sg[2], sg[3])]
    else:
        vs = [float(v) for x in case["tr"] if isinstance(x, list) for v in x[1:3]]
    return any("e" in repr(v) for v in vs)


def exhaustive_trn(max_depth):
    """every alternates shape over a tiny alphabet: elements 'a', '/' (top level only), and
    alternates with 1-2 branches of 0-2 elements, nested to max_depth; 1-2 elements per utterance"""
    def elems(d, top):
        out = ["a"] + (["}", "a/b", "(x)"] if top else [])
        if d > 0:
            inner = elems(d - 1, False)
            brs = [[]] + [[x] for x in inner] + [[inner[0], x] for x in inner[:3]]
            for b1 in brs:
                if b1:
                    out.append({"alt": [b1]})
                for b2 in brs[:4]:
                    if b2:
                        out.append({"alt": [b1, b2]})
        return out
    top = elems(max_depth, True)
    cases = []
    for i, x in enumerate(top):
        cases.append({"kind": "trn", "ts": [["u" + ") "[i % 2], [x]]], "via": "mem"})
        cases.append({"kind": "trn", "ts": [["", [top[(i * 7) % len(top)], x]], ["v", []]], "via": "mem"})
    return cases


def gen_cases(chk):
    rng = chk.rng
    thorough = chk.tier == "thorough"
    cases = []
    ex = exhaustive_trn(2 if not thorough else 3)
    if not thorough:
        ex = ex[::3]
    else:
        chk.extra["exhaustive"] = True
    chk.extra["exhaustive_scope"] = (
        "trn: every top-level element over {a, '}', 'a/b', '(x)'} and alternates with 1-2 branches of 0-2 elements nested "
        f"to depth {3 if thorough else 2} (alone, and after another element; " + ("whole scope)" if thorough else "every third case)"))
    for c in ex:
        c["stream"] = "exhaustive" if thorough else "exhaustive-slice"
    cases += ex
    for c in load_corpus("C11"):
        c = dict(c.get("case", c))
        c["stream"] = "corpus"
        cases.append(c)
    mult = 8 if thorough else 1
    plan = [(g_trn, 260), (lambda r: g_trn(r, wild=True), 120), (g_trn_text, 300), (g_ctm, 260),
            (lambda r: g_ctm(r, wild=True), 120), (g_ctm_text, 160), (g_tg, 330), (lambda r: g_tg(r, wild=True), 90),
            (g_tok_case, 330), (lambda r: g_tok_case(r, wild=True), 80), (g_tok_back, 120)]
    for g, n in plan:
        for _ in range(n * mult):
            c = g(rng)
            c["stream"] = "random"
            cases.append(c)
    # robustness audit: situations that the broad streams reach only rarely, each with a fair share of its own
    audit = [(g_tg_subprec, 50), (g_trn_multialt, 40), (lambda r: g_ctm(r, shared=True), 50)]
    for g, n in audit:
        for _ in range(n * mult):
            c = g(rng)
            c["stream"] = "audit"
            cases.append(c)
    for _ in range(16 * (4 if thorough else 1)):
        c = g_trn_pool(rng)
        c["stream"] = "pool"
        cases.append(c)
    # round-4 miss C11-g: unusual but legal characters, every format (drawn last: the older streams keep their cases)
    for g, n in [(g_trn_chars, 90), (g_ctm_chars, 60), (g_tg_chars, 60)]:
        for _ in range(n * mult):
            c = g(rng)
            c["stream"] = "chars"
            cases.append(c)
    for _ in range(4 * (3 if thorough else 1)):
        c = g_trn_chars_pool(rng)
        c["stream"] = "chars-pool"
        cases.append(c)
    # round-5 miss C11-j: numeric extremes of times in every timed format (drawn last: the older streams keep their cases)
    for g, n in [(g_ctm_extreme, 70), (g_ctm_text_extreme, 30), (g_tg_extreme, 60), (g_tok_extreme, 60)]:
        for _ in range(n * mult):
            c = g(rng)
            c["stream"] = "extreme-times"
            cases.append(c)
    only = os.environ.get("C11_KINDS")      # developer switch: restrict a run to some kinds
    if only:
        cases = [c for c in cases if c["kind"] in only.split(",")]
    return cases


def nontrivial(case):
    k = BASE_KIND.get(case["kind"], case["kind"])
    if k == "trn":
        return has_alt(case["ts"]) or len(case["ts"]) >= 2
    if k == "trn_text":
        return any(ch in case["text"] for ch in "{}/")
    if k == "trn_pool":
        return True
    if k == "ctm":
        return len(case["ts"]) >= 2 or any(len(tr) >= 2 for _, tr in case["ts"])
    if k == "ctm_text":
        return len(case["segs"]) >= 2
    if k == "tg":
        return len(case["tr"]) >= 2 or case.get("point_tier") is not None or case.get("precision", 3) != 3
    if k == "tok":
        return any(isinstance(x, list) for x in case["tr"])
    if k == "tok_back":
        return case["shape"] == 3 and len(case["ref"]) > 0
    return False


# ----------------------------------------------------------------------------------------
# driver
# ----------------------------------------------------------------------------------------


def evaluate(chk, cases, tag="cases"):
    """-> per case: (labels, values, meta, out)"""
    per, flat = [], []
    for c in cases:
        impl, mk = KINDS[c["kind"]]
        try:
            out = impl(chk, c)
            terms, meta = mk(c, out)
        except Exception as e:  # noqa: BLE001 - an output the harness cannot canonicalise is a disagreement, not a crash
            out = {"harness_exception": repr(e)}
            terms, meta = {"implementation output has the documented shape": "false"}, []
        per.append((list(terms.keys()), meta, out))
        flat.extend(terms.values())
    if tag == "cases":
        # call history (robustness audit): the same call after many unrelated calls on the same module gives the same
        # result - every 9th case (pools excepted) is run a second time once all cases have run
        for k in range(0, len(cases), 9):
            c = cases[k]
            if c["kind"] == "trn_pool" or "harness_exception" in per[k][2]:
                continue
            try:
                again = KINDS[c["kind"]][0](chk, c)
            except Exception as e:  # noqa: BLE001
                again = {"harness_exception": repr(e)}
            if repr(again) != repr(per[k][2]):
                per[k][1].append("the same call gave a different result when repeated after other calls (state kept between calls)")
    vals = coq_eval_bools(chk.workdir, IMPORTS, flat, shard=150, tag=tag)
    res, i = [], 0
    for labels, meta, out in per:
        res.append((labels, vals[i:i + len(labels)], meta, out))
        i += len(labels)
    return res


def _fail_labels(labels, vals, which=("", "A:", "R:", "spec:")):
    return [l for l, v in zip(labels, vals) if not v]


def _plain_fail(labels, vals):
    """labels of failed plain model comparisons (not the A:/R: two-model ones, not spec:)"""
    return [l for l, v in zip(labels, vals) if not v and not l.startswith(("A:", "R:", "spec:"))]


def k5_signature(entry, rec):
    sg = entry.get("signature", {})
    return (entry.get("id") == "K5" and rec.get("api") == sg.get("api") == "write_textgrid"
            and rec.get("path_equals_file_called_with_defaults") is True
            and rec.get("options_nondefault") is True and rec.get("path_differs_from_file") is True)


def _shrink_cands(case):
    k = BASE_KIND.get(case["kind"], case["kind"])
    key = {"trn": "ts", "trn_pool": "ts", "ctm": "ts", "ctm_text": "segs", "tg": "tr", "tok": "tr"}.get(k)
    if key and key in case:
        for i in range(len(case[key])):
            c = dict(case)
            c[key] = case[key][:i] + case[key][i + 1:]
            yield c
        if k in ("trn", "ctm", "trn_pool"):
            for i, (u, tr) in enumerate(case[key]):
                for j in range(len(tr)):
                    c = dict(case)
                    c[key] = case[key][:i] + [[u, tr[:j] + tr[j + 1:]]] + case[key][i + 1:]
                    yield c
    if k == "trn_text":
        t = case["text"]
        for i in range(len(t)):
            c = dict(case)
            c["text"] = t[:i] + t[i + 1:]
            yield c
    for opt, dv in (("fill", None), ("start_time", None), ("end_time", None), ("times", False), ("skip", False)):
        if case.get(opt, dv) != dv:
            c = dict(case)
            c[opt] = dv
            yield c


def _case_fails(chk, case, label):
    (labels, vals, meta, _), = evaluate(chk, [case], tag="shr")
    if label.startswith("meta:"):
        return label[5:] in meta
    return label in labels and not vals[labels.index(label)]


def run(chk, cases=None):
    chk.rule = (
        "case = one call sequence on a public entry point (write then read back through path and open file; read of foreign "
        "text; worker pools; tensor conversion), compared with PV.C11.Model by vm_compute: written bytes exactly, read results "
        "exactly (ctm times on a 1/64 s grid - stream extreme-times: on a per-case grid k * unit, unit from 2^-1074 to 2^1000 or any "
        "float with k <= 2, where float sums and differences are exact; TextGrid times as the exact rationals of the floats, read back as p-digit decimals; "
        "frames exactly). non-trivial = trn: an alternate or >=2 utterances; trn_text: contains a delimiter; ctm: >=2 utterances "
        "or >=2 tokens; tg: >=2 entries or a non-default option; tok: a timed item; pools always")
    chk.assumptions += [
        "float printing/parsing are oracles: '{}'.format(x)/float(s) is the identity, f'{x:.pf}' is correct round-half-even "
        "rounding of the exact binary value, float(decimal) is correctly rounded (checked bit-exactly on every case)",
        "the TextGrid reader (regexes of _textgrid.py) is modelled at line level and only for files write_textgrid emits",
        "the ctm text layer (five fields joined by one space; str.split, ';;' comments, blank lines, optional 6th column) is "
        "outside the model; the harness splits written lines and renders foreign files itself",
        "Pool.imap returns results in submission order: modelled as a lookup by chunk index over an arbitrary completion order; "
        "real pools (1-3 processes, chunk sizes 1..1000) are run on small files",
        "warnings.warn side effects, file encodings and universal-newline translation are not modelled (no '\\r' is written to disk)",
    ]
    # the model's white-space class against CPython over all code points (str.isspace == strip == split)
    ws = [c for c in range(0x110000) if chr(c).isspace()]
    ws_model = [9, 10, 11, 12, 13, 28, 29, 30, 31, 32, 133, 160, 5760] + list(range(8192, 8203)) + [8232, 8233, 8239, 8287, 12288]
    probe = sorted(set(ws + [c + d for c in ws for d in (-1, 1)] + [0, 8, 14, 27, 33, 0x10FFFF]))
    wterm = "list_eqb Bool.eqb (map is_space " + clz(probe) + ") " + cl([cb(c in ws_model) for c in probe])
    ws_ok = ws == ws_model and coq_eval_bools(chk.workdir, IMPORTS, [wterm], tag="ws")[0]
    chk.extra["whitespace_class_checked"] = bool(ws_ok)

    replaying = cases is not None
    cases = cases if cases is not None else gen_cases(chk)
    streams = [c.pop("stream", "random") for c in cases]
    results = evaluate(chk, cases)
    for c, st in zip(cases, streams):
        chk.note_case(c, nontrivial(c), st)
        chk.count("kind=" + c["kind"])
    if not ws_ok:
        chk.report({"what": "Model.is_space is not CPython's str.isspace", "case": {"kind": "whitespace"},
                    "correspondence": "corr:C11:is_space"}, no_failing_input=True)

    bad_plain, meta_bad = [], []
    a_fail = {"K5": [], "sort": []}
    r_fail = {"K5": [], "sort": []}
    discr = {"K5": [], "sort": []}
    for idx, (c, (labels, vals, meta, out)) in enumerate(zip(cases, results)):
        for l, v in zip(labels, vals):
            chk.count(("ok " if v else "FAIL ") + l.split(" = ")[0][:40]) if not l.startswith(("A:", "R:")) else None
        if _plain_fail(labels, vals):
            bad_plain.append(idx)
        if meta:
            meta_bad.append(idx)
        if c["kind"] == "tg":
            lv = dict(zip(labels, vals))
            lv["R:write_textgrid(path) = model repaired"] = (lv["R:write_textgrid(path) = model repaired"]
                                                             and lv["write_textgrid(file) = model"])
            for fam, la, lr in (("K5", "A:write_textgrid(path) = model as coded (K5)", "R:write_textgrid(path) = model repaired"),):
                if la not in lv:
                    continue
                if lv[la] != lv[lr]:
                    discr[fam].append(idx)
                if not lv[la]:
                    a_fail[fam].append(idx)
                if not lv[lr]:
                    r_fail[fam].append(idx)
            chk.count("tg precision=%s" % c.get("precision", 3))
            chk.count("tg point_tier=%s" % c.get("point_tier"))
            chk.count("tg fill=%s" % ("set" if c.get("fill") is not None else "None"))
            chk.count("tg write=" + (out["w_exc"] or "ok"))
        if c["kind"] == "trn":
            chk.count("trn depth>=2" if any(isinstance(y, dict) for _, tr in c["ts"] for x in tr if isinstance(x, dict)
                                            for br in x["alt"] for y in br) else "trn depth<2")
            chk.count("trn read=" + (out["r_file"][1] or "ok"))
        if c["kind"] == "trn_text":
            chk.count("trn_text read=" + (out["r_file"][1] or "ok"))
        if c["kind"] == "ctm":
            chk.count("ctm write=" + (out["w_exc"] or "ok"))
            chk.count("ctm utt2wc=" + ("channel" if isinstance(c["utt2wc"], str) else "dict"))
        if c["kind"] == "ctm_text":
            chk.count("ctm_text read=" + (out["r_file"][1] or "ok"))
        if c["kind"] == "tok":
            chk.count("tok to_token=" + (out["to_exc"] or "ok"))
            chk.count("tok fs=%s" % c.get("fs"))
        if c["kind"] == "trn_pool":
            chk.count("pool processes=%d chunk=%d entry=%s" % (c["proc"], c["chunk"], c["entry"]))
        if c["kind"] in BASE_KIND:
            chk.count("extreme-times %s: %s" % (c["kind"], "a time that repr prints with an exponent" if _exp_notation(c)
                                                else "plain decimals only"))
            if c["kind"] == "ctmx":
                chk.count("extreme-times ctmx read back=" + ((out.get("r_file") or (None, "not written"))[1] or "ok"))
        if streams[idx].startswith("chars"):
            txt = "".join(_case_strings(c.get("ts", c.get("tr", []))))
            chk.count("chars %s: %s" % (c["kind"], "white space other than ' '" if any(ch in txt for ch in WS_OTHER)
                                        else "quote / backslash" if any(ch in txt for ch in "\"'`" + BSL) else "other"))
            if c["kind"] == "trn":
                chk.count("chars trn: " + ("line with an alternate" if has_alt(c["ts"]) else "no alternate"))
    chk.extra["model_disagreements"] = len(bad_plain)
    chk.extra["metamorphic_failures"] = len(meta_bad)
    chk.extra["discriminating_cases"] = {k: len(v) for k, v in discr.items()}

    # ---- plain disagreements: shrink, judge with the spec ---------------------------------
    concrete = False
    for idx in bad_plain[:4]:
        labels, vals, meta, out = results[idx]
        label = _plain_fail(labels, vals)[0]
        case = shrink(cases[idx], lambda cc: _case_fails(chk, cc, label), _shrink_cands, budget=30)
        (labels, vals, meta, out), = evaluate(chk, [case], tag="jdg")
        spec_labels = [l for l in labels if l.startswith("spec:")]
        spec_ok = all(v for l, v in zip(labels, vals) if l.startswith("spec:"))
        rec = {"case": case, "failed_comparison": label, "comparisons": dict(zip(labels, vals)), "impl": _jsonable(out),
               "correspondence": "corr:C11:" + case["kind"], "theorems_at_stake": THEOREMS.get(case["kind"], []),
               "spec_readings_evaluated": spec_labels, "spec_accepts_impl": spec_ok}
        if spec_ok and not meta:
            rec["what"] = "implementation differs from the model (" + label + "); the property's boolean readings accept its output"
        else:
            rec["what"] = "implementation output violates the property: " + label + ("; " + "; ".join(meta) if meta else "")
            concrete = True
            chk.report(rec)
    if bad_plain and not concrete:
        # look through all disagreements for one whose output the spec rejects
        hit = None
        for idx in bad_plain:
            labels, vals, meta, out = results[idx]
            if meta or any((not v) for l, v in zip(labels, vals) if l.startswith("spec:")):
                hit = idx
                break
        idx = hit if hit is not None else bad_plain[0]
        labels, vals, meta, out = results[idx]
        rec = {"case": cases[idx], "failed_comparison": _plain_fail(labels, vals)[0], "comparisons": dict(zip(labels, vals)),
               "impl": _jsonable(out), "correspondence": "corr:C11:" + cases[idx]["kind"],
               "theorems_at_stake": THEOREMS.get(cases[idx]["kind"], []),
               "what": "implementation differs from the model: " + _plain_fail(labels, vals)[0]}
        chk.report(rec, no_failing_input=(hit is None))

    # ---- metamorphic relations stated by the property (path = file, workers) ------------------
    for idx in meta_bad[:3]:
        labels, vals, meta, out = results[idx]
        if idx in bad_plain and concrete:
            continue
        case = shrink(cases[idx], lambda cc: _case_fails(chk, cc, "meta:" + meta[0]), _shrink_cands, budget=20)
        chk.report({"case": case, "what": "entry points disagree: " + "; ".join(meta), "impl": _jsonable(out),
                    "theorems_at_stake": THEOREMS.get(case["kind"], [])})

    # ---- the two findings that carry an as-coded and a repaired model -----------------------
    tg_idx = [i for i, c in enumerate(cases) if c["kind"] == "tg"]
    # K5: path entry point of write_textgrid
    if not a_fail["K5"]:
        for n, idx in enumerate(discr["K5"]):
            out = results[idx][3]
            c = cases[idx]
            rec = {"case": c, "api": "write_textgrid", "what": "write_textgrid(path, ..., point_tier, precision) ignores the two options",
                   "path_differs_from_file": out["w_path"] != out["w_file"] or out["w_path_exc"] != out["w_exc"],
                   "path_equals_file_called_with_defaults": (out["w_path"], out["w_path_exc"]) == (out["w_file_defaults"], out["w_file_defaults_exc"]),
                   "options_nondefault": c.get("point_tier") is not None or c.get("precision", 3) != 3,
                   "impl": _jsonable(out), "theorems": ["c11_path_eq_file_refuted", "c11_path_is_file_with_defaults",
                                                        "c11_path_eq_file_when_defaults"]}
            if chk.report(rec, k5_signature) != "known":
                break   # not listed: one VIOLATION with a replay is enough
    elif not r_fail["K5"]:
        chk.notes.append("write_textgrid(path) passes its options through: agrees with the repaired model on all cases")
        chk.extra["K5_repaired"] = True
    else:
        idx = [i for i in a_fail["K5"] if i in r_fail["K5"]] or a_fail["K5"]
        idx = idx[0]
        out = results[idx][3]
        chk.report({"case": cases[idx], "what": "write_textgrid(path) agrees neither with the as-coded model (options dropped) nor with "
                    "the repaired one on all cases; path output differs from open-file output in a new way",
                    "impl": _jsonable(out), "as_coded_failures": len(a_fail["K5"]), "repaired_failures": len(r_fail["K5"]),
                    "path_differs_from_file": out["w_path"] != out["w_file"]},
                   no_failing_input=(out["w_path"] == out["w_file"] and out["w_path_exc"] == out["w_exc"]))
    from props.c11_tie import source_tie  # source tie: the translated read_ctm / write_ctm / token conversions, run inside Coq
    source_tie(chk, cases, [r[3] for r in results])
    from props.c11_tie import source_tieB  # second tie: write_trn, write_textgrid, the path branches (unit C11BSrc)
    source_tieB(chk, cases, [r[3] for r in results])
    if replaying:
        for c, (labels, vals, meta, out) in zip(cases, results):
            print("replay:", json.dumps(c, default=str)[:300])
            for l, v in zip(labels, vals):
                print("   ", "ok  " if v else "FAIL", l)
            for m in meta:
                print("    FAIL", m)


def _case_strings(o):
    if isinstance(o, str):
        yield o
    elif isinstance(o, dict):
        for v in o.values():
            yield from _case_strings(v)
    elif isinstance(o, (list, tuple)):
        for v in o:
            yield from _case_strings(v)


def _jsonable(o):
    try:
        json.dumps(o)
        return o
    except TypeError:
        return json.loads(json.dumps(o, default=lambda x: repr(x)))


def replay(chk, path):
    rec = json.loads(open(path).read())
    case = dict(rec.get("case", rec))
    case.pop("stream", None)
    run(chk, [case])
