(* C08 - tie between the Python text of `spec_augment_draw_parameters` (src/pydrobert/torch/_img.py) and
   PV.C08.Model.draw, checked by the kernel.  PV.Gen.C08Src.draw_body (the WHOLE body) is the MiniPy term
   harness/py2coq/translate.py regenerates from /repo on every run; PV.MiniPy.Interp is its semantics; the
   torch calls mean what PV.MiniTorch.OpsC08 says (through SrcRun.ext08, float32 rounding = [r32 a] of the
   model's arithmetic), torch.rand is an oracle.

   [draw_tie]: for EVERY arithmetic satisfying the model's [rounding_laws] (both [exact] and [ieee] do), every
   oracle, eps, configuration, N, T, F, and lengths (omitted, or N values in (0, T]), interpreting the source
   returns the 8-tuple that reads back, batch element by batch element, as Model.draw at the arithmetic
   [pyq a] on the variates the oracle served: mask groups (t_0, t, f_0, f) EQUAL, warp groups equal as
   rationals.  The mask halves do not use the laws (TieModel.time_masks_src / freq_masks_src).
   Proof: the body is the sequence of its marked blocks ([body_split]); each block is run symbolically from
   an arbitrary state (TieBlocks*.v); the closed forms are chained here; TieModel.v identifies the
   per-element formulas with the model's.  If the source is edited so that this stops being true, this file
   (or TieBlocks*.v) stops compiling and the C08 check reports the broken obligation. *)
From Coq Require Import ZArith QArith Qround List String Bool Arith Lia.
From PV Require Import MiniPy.Syntax MiniPy.Interp MiniTorch.Ops MiniTorch.OpsC08 MiniTorch.LemmasC08.
From PV Require Import Gen.C08Src C08.SrcRun C08.TieLib C08.TieBlocks C08.TieBlocks2 C08.TieModel.
From PV Require C08.Model C08.Spec C08.ProofsDraw C08.ProofsRound C08.ProofsIeee MiniTorch.Lemmas.
Import ListNotations.
Local Open Scope string_scope.
Local Open Scope list_scope.

(* ---- the body is the sequence of its blocks --------------------------------------------------------- *)
Lemma exec_assoc ext s1 s2 s3 st : exec ext (SSeq (SSeq s1 s2) s3) st = exec ext (SSeq s1 (SSeq s2 s3)) st.
Proof.
  cbn [exec]. destruct (exec ext s1 st) as [c st1|n st1|w]; cbn [bind]; [|reflexivity|reflexivity].
  destruct c; [|reflexivity]. reflexivity.
Qed.

Lemma exec_seq_cong ext s1 x y :
  (forall st, exec ext x st = exec ext y st) -> forall st, exec ext (SSeq s1 x) st = exec ext (SSeq s1 y) st.
Proof.
  intros H st. cbn [exec]. destruct (exec ext s1 st) as [c st1|n st1|w]; cbn [bind]; [|reflexivity|reflexivity].
  destruct c; [apply H|reflexivity].
Qed.

Definition blocks : stmt :=
  SSeq draw_head (SSeq draw_twarp (SSeq draw_fwarp (SSeq draw_tmask (SSeq draw_fmask draw_ret)))).

Lemma body_split ext st : exec ext draw_body st = exec ext blocks st.
Proof.
  unfold blocks, draw_head. symmetry.
  rewrite exec_assoc. revert st. apply exec_seq_cong. intros st.
  rewrite exec_assoc. revert st. apply exec_seq_cong. intros st.
  rewrite exec_assoc. revert st. apply exec_seq_cong. intros st.
  rewrite exec_assoc. revert st. apply exec_seq_cong. intros st.
  rewrite exec_assoc. reflexivity.
Qed.

(* ---- frames: the variables a block does not assign ------------------------------------------------- *)
Section Frames.
  Variable a : Model.arith.
  Variable rnd : nat -> nat -> Q.

  Lemma lookup_twarp x k N L eps Wt vs :
    String.eqb x "W" = false -> String.eqb x "w_0" = false -> String.eqb x "w" = false ->
    lookup x (vars_twarp a rnd k N L eps Wt vs) = lookup x vs.
  Proof. intros H1 H2 H3. unfold vars_twarp. destruct (Model.nonzero Wt); rewrite !lookup_update, ?H1, ?H2, ?H3; reflexivity. Qed.

  Lemma lookup_fwarp x k N eps Wf F vs :
    String.eqb x "V" = false -> String.eqb x "v_0" = false -> String.eqb x "v" = false ->
    lookup x (vars_fwarp a rnd k N eps Wf F vs) = lookup x vs.
  Proof.
    intros H1 H2 H3. unfold vars_fwarp, vars_fwarp_rest.
    destruct (Model.nonzero Wf); rewrite !lookup_update, ?H1, ?H2, ?H3; reflexivity.
  Qed.

  Lemma lookup_tmask x k N L om Mt pt nt npt vs :
    String.eqb x "max_" = false -> String.eqb x "nums_" = false -> String.eqb x "t" = false -> String.eqb x "t_0" = false ->
    lookup x (vars_tmask a rnd k N L om Mt pt nt npt vs) = lookup x vs.
  Proof.
    intros H1 H2 H3 H4. unfold vars_tmask.
    destruct (tmask_on Mt pt nt npt); rewrite !lookup_update, ?H1, ?H2, ?H3, ?H4; reflexivity.
  Qed.

  Lemma lookup_fmask x k N om Mf F nf vs :
    String.eqb x "max_" = false -> String.eqb x "f" = false -> String.eqb x "f_0" = false ->
    lookup x (vars_fmask a rnd k N om Mf F nf vs) = lookup x vs.
  Proof.
    intros H1 H2 H3. unfold vars_fmask.
    destruct (fmask_on Mf nf); rewrite !lookup_update, ?H1, ?H2, ?H3; reflexivity.
  Qed.
End Frames.

(* ---- reading the result back ----------------------------------------------------------------------- *)
Lemma repeat_map_seq {X} (x : X) n : repeat x n = map (fun _ => x) (seq 0 n).
Proof.
  assert (G : forall s, repeat x n = map (fun _ => x) (seq s n)).
  { induction n as [|n IH]; intros s; [reflexivity|]. cbn [repeat seq map]. now rewrite (IH (S s)). }
  apply G.
Qed.

Lemma warp_group_if (b : bool) N (f g : nat -> Q) :
  warp_group N (if b then TF (T1 N f) else TF empty0) (if b then TF (T1 N g) else TF empty0)
  = Some (map (fun n => if b then Some (f n, g n) else None) (seq 0 N)).
Proof.
  destruct b.
  - unfold warp_group, any_numel, T1. cbn [shp dat numel fold_right]. rewrite Nat.mul_1_r.
    destruct N as [|N]; [reflexivity|]. cbn [Nat.eqb andb nats_eqb]. rewrite Nat.eqb_refl. cbn [andb].
    f_equal. apply map_ext_in. intros n Hn. apply in_seq in Hn.
    rewrite !(MiniTorch.Lemmas.nth_map_seq _ (S N) n) by lia. reflexivity.
  - unfold warp_group, any_numel, empty0. cbn. now rewrite repeat_map_seq.
Qed.

Lemma mask_group_if (b : bool) N M (f g : nat -> nat -> Z) : (b = true -> M <> 0%nat) ->
  mask_group N (if b then TL (T2 N M f) else TF empty0) (if b then TL (T2 N M g) else TF empty0)
  = Some (map (fun n => if b then Some (map (fun m => (f n m, g n m)) (seq 0 M)) else None) (seq 0 N)).
Proof.
  intros HM. destruct b.
  - specialize (HM eq_refl). unfold mask_group, any_numel, T2. cbn [shp dat numel fold_right]. rewrite Nat.mul_1_r.
    destruct (Nat.eqb (N * M) 0) eqn:E.
    + apply Nat.eqb_eq in E. assert (N = 0%nat) by (destruct N; [reflexivity|destruct M; [congruence|cbn in E; lia]]).
      subst N. reflexivity.
    + cbn [andb nats_eqb]. rewrite !Nat.eqb_refl. cbn [andb].
      f_equal. apply map_ext_in. intros n Hn. apply in_seq in Hn. f_equal.
      apply map_ext_in. intros m Hm. apply in_seq in Hm.
      rewrite !get2_tabl by lia. reflexivity.
  - unfold mask_group, any_numel, empty0. cbn. now rewrite repeat_map_seq.
Qed.

Lemma zip4_map {X} (l : list X) p q r s :
  zip4 (map p l) (map q l) (map r l) (map s l) = map (fun x => Model.mkParams (p x) (q x) (r x) (s x)) l.
Proof. induction l as [|x l IH]; [reflexivity|]. cbn [map zip4]. now rewrite IH. Qed.

Lemma dec_any_if_f (b : bool) x y : dec_any (if b then enc_f x else enc_f y) = Some (if b then TF x else TF y).
Proof. destruct b; apply dec_any_enc_f. Qed.
Lemma dec_any_if_l (b : bool) x y : dec_any (if b then enc_l x else enc_f y) = Some (if b then TL x else TF y).
Proof. destruct b; [apply dec_any_enc_l|apply dec_any_enc_f]. Qed.

(* ---- the whole body ---------------------------------------------------------------------------------- *)
Section Whole.
  Variable a : Model.arith.
  Hypothesis laws : ProofsRound.rounding_laws a.
  Variable rnd : nat -> nat -> Q.
  Variables (eps : Q) (c : Model.cfg) (N T F : nat) (lens : option (list Z)).
  Hypothesis Hlens : lens_ok N T lens.

  Notation Wt := (Model.c_Wt c).  Notation Wf := (Model.c_Wf c).
  Notation Mt := (Model.c_Mt c).  Notation Mf := (Model.c_Mf c).
  Notation pt := (Model.c_pt c).  Notation npt := (Model.c_npt c).
  Notation nt := (Model.c_nt c).  Notation nf := (Model.c_nf c).
  Notation L := (L_of a T lens).
  Notation om := (om_of eps).
  Notation Fz := (Z.of_nat F).

  Let vs0 := vars_head a eps c N T F lens.
  Let ev1 := [] ++ events_twarp N Wt.
  Let vs1 := vars_twarp a rnd 0 N L eps Wt vs0.
  Let ev2 := ev1 ++ events_fwarp N Wf.
  Let vs2 := vars_fwarp a rnd (List.length ev1) N eps Wf Fz vs1.
  Let ev3 := ev2 ++ events_tmask N Mt pt nt npt.
  Let vs3 := vars_tmask a rnd (List.length ev2) N L om Mt pt nt npt vs2.
  Let ev4 := ev3 ++ events_fmask N Mf nf.
  Let vs4 := vars_fmask a rnd (List.length ev3) N om Mf Fz nf vs3.

  Lemma len_ev1 : List.length ev1 = k_fwarp c.
  Proof. unfold ev1, events_twarp, k_fwarp. cbn [app]. now destruct (Model.nonzero Wt). Qed.
  Lemma len_ev2 : List.length ev2 = k_tmask c.
  Proof. unfold ev2. rewrite app_length, len_ev1. unfold events_fwarp, k_tmask. now destruct (Model.nonzero Wf). Qed.
  Lemma tmask_on_enabled : tmask_on Mt pt nt npt = tmask_enabled c.
  Proof. reflexivity. Qed.
  Lemma fmask_on_enabled : fmask_on Mf nf = fmask_enabled c.
  Proof. reflexivity. Qed.
  Lemma len_ev3 : List.length ev3 = k_fmask c.
  Proof.
    unfold ev3. rewrite app_length, len_ev2. unfold events_tmask, k_fmask. rewrite tmask_on_enabled.
    now destruct (tmask_enabled c).
  Qed.

  (* what the body returns *)
  Definition Wn (n : nat) : Q := W_of a eps Wt L n.
  Definition Vv : val := V_val eps Wf Fz.
  Definition tn_ (n m : nat) : Z := t_of a rnd om Mt pt nt npt (k_tmask c) L n m.
  Definition fn_ (n m : nat) : Z := f_of a rnd om Mf Fz nf (k_fmask c) n m.

  Definition out_w0 : val := if Model.nonzero Wt then enc_f (T1 N (fun n => s_w0 a (Wn n) (L n) (rnd 0%nat n))) else enc_f empty0.
  Definition out_w : val := if Model.nonzero Wt then enc_f (T1 N (fun n => s_w a (Wn n) (rnd 1%nat n))) else enc_f empty0.
  Definition out_v0 : val :=
    if Model.nonzero Wf then enc_f (T1 N (fun n => s_v0 a (fw_s1 Fz Vv) (fw_s2 Vv) (rnd (k_fwarp c) n))) else enc_f empty0.
  Definition out_v : val :=
    if Model.nonzero Wf then enc_f (T1 N (fun n => s_v a (fw_s3 Vv) (fw_s2 Vv) (rnd (S (k_fwarp c)) n))) else enc_f empty0.
  Definition out_t0 : val :=
    if tmask_enabled c
    then enc_l (T2 N nt (fun n m => s_t0 a om (L n) (tn_ n m) (rnd (S (k_tmask c)) (n * nt + m)%nat))) else enc_f empty0.
  Definition out_t : val := if tmask_enabled c then enc_l (T2 N nt tn_) else enc_f empty0.
  Definition out_f0 : val :=
    if fmask_enabled c
    then enc_l (T2 N nf (fun n m => s_f0 a om Fz (fn_ n m) (rnd (S (k_fmask c)) (n * nf + m)%nat))) else enc_f empty0.
  Definition out_f : val := if fmask_enabled c then enc_l (T2 N nf fn_) else enc_f empty0.

  Definition out_val : val := VTuple [out_w0; out_w; out_v0; out_v; out_t0; out_t; out_f0; out_f].

  Ltac frames := rewrite ?lookup_fmask, ?lookup_tmask, ?lookup_fwarp, ?lookup_twarp by reflexivity.

  Lemma look_w0 : lookup "w_0" vs4 = Some out_w0.
  Proof. unfold vs4, vs3, vs2. frames. unfold vs1, vars_twarp, out_w0, Wn. destruct (Model.nonzero Wt); rewrite !lookup_update; reflexivity. Qed.
  Lemma look_w : lookup "w" vs4 = Some out_w.
  Proof. unfold vs4, vs3, vs2. frames. unfold vs1, vars_twarp, out_w, Wn. destruct (Model.nonzero Wt); rewrite !lookup_update; reflexivity. Qed.
  Lemma look_v0 : lookup "v_0" vs4 = Some out_v0.
  Proof.
    unfold vs4, vs3. frames. unfold vs2, vars_fwarp, vars_fwarp_rest, out_v0, Vv. rewrite len_ev1.
    destruct (Model.nonzero Wf); rewrite !lookup_update; reflexivity.
  Qed.
  Lemma look_v : lookup "v" vs4 = Some out_v.
  Proof.
    unfold vs4, vs3. frames. unfold vs2, vars_fwarp, vars_fwarp_rest, out_v, Vv. rewrite len_ev1.
    destruct (Model.nonzero Wf); rewrite !lookup_update; reflexivity.
  Qed.
  Lemma look_t0 : lookup "t_0" vs4 = Some out_t0.
  Proof.
    unfold vs4. frames. unfold vs3, vars_tmask, out_t0, tn_. rewrite len_ev2, tmask_on_enabled.
    destruct (tmask_enabled c); rewrite !lookup_update; reflexivity.
  Qed.
  Lemma look_t : lookup "t" vs4 = Some out_t.
  Proof.
    unfold vs4. frames. unfold vs3, vars_tmask, out_t, tn_. rewrite len_ev2, tmask_on_enabled.
    destruct (tmask_enabled c); rewrite !lookup_update; reflexivity.
  Qed.
  Lemma look_f0 : lookup "f_0" vs4 = Some out_f0.
  Proof.
    unfold vs4, vars_fmask, out_f0, fn_. rewrite len_ev3, fmask_on_enabled.
    destruct (fmask_enabled c); rewrite !lookup_update; reflexivity.
  Qed.
  Lemma look_f : lookup "f" vs4 = Some out_f.
  Proof.
    unfold vs4, vars_fmask, out_f, fn_. rewrite len_ev3, fmask_on_enabled.
    destruct (fmask_enabled c); rewrite !lookup_update; reflexivity.
  Qed.

  Lemma body_run :
    Interp.run (ext08 a rnd) draw_body (draw_vars eps c N T F lens) = Ok out_val (mkState vs4 ev4).
  Proof.
    unfold Interp.run. rewrite body_split. unfold blocks.
    rewrite (exec_seq_ok _ _ _ _ _ (head_run a rnd eps c N T F lens Hlens)). fold vs0.
    rewrite (exec_seq_ok _ _ _ _ (mkState vs1 ev1)).
    2:{ apply twarp_run; try reflexivity. apply (sc_two_nz a laws). }
    rewrite (exec_seq_ok _ _ _ _ (mkState vs2 ev2)).
    2:{ apply fwarp_run; unfold vs1; rewrite lookup_twarp by reflexivity; reflexivity. }
    rewrite (exec_seq_ok _ _ _ _ (mkState vs3 ev3)).
    2:{ apply tmask_run; unfold vs2, vs1; rewrite lookup_fwarp, lookup_twarp by reflexivity; reflexivity. }
    rewrite (exec_seq_ok _ _ _ _ (mkState vs4 ev4)).
    2:{ apply fmask_run; unfold vs3, vs2, vs1; rewrite lookup_tmask, lookup_fwarp, lookup_twarp by reflexivity; reflexivity. }
    rewrite (ret_run a rnd vs4 ev4 _ _ _ _ _ _ _ _ look_w0 look_w look_v0 look_v look_t0 look_t look_f0 look_f).
    reflexivity.
  Qed.

  (* the tuple, read back element by element *)
  Definition src_params (n : nat) : Model.params :=
    Model.mkParams
      (if Model.nonzero Wt then Some (s_w0 a (Wn n) (L n) (rnd 0%nat n), s_w a (Wn n) (rnd 1%nat n)) else None)
      (if Model.nonzero Wf
       then Some (s_v0 a (fw_s1 Fz Vv) (fw_s2 Vv) (rnd (k_fwarp c) n), s_v a (fw_s3 Vv) (fw_s2 Vv) (rnd (S (k_fwarp c)) n))
       else None)
      (if tmask_enabled c
       then Some (map (fun m => (s_t0 a om (L n) (tn_ n m) (rnd (S (k_tmask c)) (n * nt + m)%nat), tn_ n m)) (seq 0 nt))
       else None)
      (if fmask_enabled c
       then Some (map (fun m => (s_f0 a om Fz (fn_ n m) (rnd (S (k_fmask c)) (n * nf + m)%nat), fn_ n m)) (seq 0 nf))
       else None).

  Lemma read_out_val : read_out N out_val = Some (map src_params (seq 0 N)).
  Proof.
    unfold read_out, out_val, out_w0, out_w, out_v0, out_v, out_t0, out_t, out_f0, out_f.
    rewrite !dec_any_if_f, !dec_any_if_l.
    rewrite !warp_group_if.
    rewrite !mask_group_if.
    - rewrite zip4_map. reflexivity.
    - unfold fmask_enabled. intros H. destruct (Nat.eqb nf 0) eqn:E; [now rewrite andb_false_r in H|]. now apply Nat.eqb_neq.
    - unfold tmask_enabled. intros H. destruct (Nat.eqb nt 0) eqn:E; [now rewrite andb_false_r, andb_false_l in H|]. now apply Nat.eqb_neq.
  Qed.

  Lemma L_lenq n : L n = Model.lenq a (len_of T lens n).
  Proof. unfold L_of, len_of, Model.lenq. destruct lens; reflexivity. Qed.

  Lemma src_params_model n :
    params_eqv (src_params n) (Model.draw (pyq a) eps c Fz (len_of T lens n) (uv_of rnd c n)).
  Proof.
    unfold params_eqv, src_params, Model.draw.
    cbn [Model.p_tw Model.p_fw Model.p_tm Model.p_fm Model.u_w0 Model.u_w Model.u_v0 Model.u_v Model.u_t Model.u_t0
         Model.u_f Model.u_f0 uv_of].
    fold (tmask_enabled c). fold (fmask_enabled c).
    repeat split.
    - destruct (Model.nonzero Wt); [|exact I]. cbn [warp_eqv fst snd]. unfold Wn, W_of. rewrite !L_lenq. split.
      + apply (s_w0_model a laws). apply (s_W_model a laws).
      + apply (s_w_model a laws). apply (s_W_model a laws).
    - destruct (Model.nonzero Wf); [|exact I]. cbn [warp_eqv fst snd]. split.
      + apply (s_v0_model a laws).
      + apply (s_v_model a laws).
    - destruct (tmask_enabled c); [|reflexivity]. f_equal. rewrite time_masks_src.
      apply map_ext. intros m. unfold tn_, t_of. rewrite !L_lenq. reflexivity.
    - destruct (fmask_enabled c); [|reflexivity]. f_equal. rewrite freq_masks_src.
      apply map_ext. intros m. reflexivity.
  Qed.
End Whole.

(* ---- the theorems ------------------------------------------------------------------------------------ *)
Theorem draw_tie : forall a rnd eps c N T F lens,
  ProofsRound.rounding_laws a -> lens_ok N T lens ->
  exists v st ps,
    run_draw a rnd eps c N T F lens = Ok v st /\ read_out N v = Some ps /\ List.length ps = N
    /\ forall n, (n < N)%nat ->
         params_eqv (nth n ps (Model.mkParams None None None None))
                    (Model.draw (pyq a) eps c (Z.of_nat F) (len_of T lens n) (uv_of rnd c n)).
Proof.
  intros a rnd eps c N T F lens laws Hl.
  eexists. eexists. exists (map (src_params a rnd eps c T F lens) (seq 0 N)).
  split; [unfold run_draw; apply (body_run a laws rnd eps c N T F lens Hl)|].
  split; [apply read_out_val|]. split; [now rewrite map_length, seq_length|].
  intros n Hn.
  rewrite (nth_indep _ _ (src_params a rnd eps c T F lens 0)) by now rewrite map_length, seq_length.
  rewrite (MiniTorch.Lemmas.nth_map_seq (src_params a rnd eps c T F lens) N n) by exact Hn.
  apply (src_params_model a laws rnd eps c N T F lens Hl).
Qed.
