(* C18 — declarative reading of the property, independent of how the code computes, plus
   boolean checkers that judge an *implementation output* against it (used by the harness
   when the implementation and the model disagree). *)
From Coq Require Import List ZArith QArith Qabs Bool Arith.
From PV Require Import C18.Model.
Import ListNotations.
Local Open Scope Q_scope.

Definition Qsum (l : list Q) : Q := fold_right Qplus 0 l.

(* idx is a position of a tensor of shape sh *)
Definition valid (sh idx : list nat) : Prop := Forall2 lt idx sh.

(* ---------------------------------------------------------------------------------- *)
(* statistics: pooled population mean and (biased or Bessel-corrected) standard         *)
(* deviation of all frames                                                             *)
(* ---------------------------------------------------------------------------------- *)
(* the values of coefficient i of x when dimension d is the normalised one *)
Definition coeff_vals (x : tensor) (d i : nat) : list Q :=
  map (get x) (filter (fun idx => (nth d idx 0 =? i)%nat) (indices (shape x))).

(* ... pooled over all the tensors that were accumulated (dim may be negative, and the
   tensors may have different numbers of dimensions) *)
Definition pooled (dim : Z) (xs : list tensor) (i : nat) : list Q :=
  flat_map (fun x => match norm_dim (length (shape x)) dim with
                     | Some d => coeff_vals x d i
                     | None => []
                     end) xs.

(* the tensors of a history agree on the number X of coefficients along dim *)
Definition uniform (dim : Z) (X : nat) (xs : list tensor) : Prop :=
  Forall (fun x => exists d, norm_dim (length (shape x)) dim = Some d /\ nth d (shape x) 0%nat = X) xs.

(* number of frames (vectors along the normalised dimension) in the tensors *)
Definition frames (dim : Z) (xs : list tensor) : nat :=
  fold_right (fun x acc => (match norm_dim (length (shape x)) dim with
                            | Some d => rows_width x d
                            | None => 0
                            end + acc)%nat) 0%nat xs.

(* two store() outcomes agree: the same error, or pointwise equal rationals *)
Inductive same_result : result (list Q * list Q) -> result (list Q * list Q) -> Prop :=
| same_ok : forall m v m' v', Forall2 Qeq m m' -> Forall2 Qeq v v' -> same_result (Ok (m, v)) (Ok (m', v'))
| same_err : forall e, same_result (Err e) (Err e).

(* histories of the module, read declaratively: every store() sees exactly the tensors
   accumulated since the last store that deleted the statistics, as if they had been
   accumulated afresh in one go; a failing accumulate ends the history *)
Fixpoint history_ref (dim : Z) (live : list tensor) (ops : list op)
  (outs : list (result (list Q * list Q)))
  : list (result (list Q * list Q)) * result (option stats) :=
  match ops with
  | [] => (rev outs, accumulate_all dim None live)
  | OpAcc x :: t =>
      match accumulate_all dim None (live ++ [x]) with
      | Ok _ => history_ref dim (live ++ [x]) t outs
      | Err e => (rev outs, Err e)
      end
  | OpStore del b :: t =>
      let r := bind (accumulate_all dim None live) (fun s => store s b) in
      history_ref dim (match r with Ok _ => if del then [] else live | Err _ => live end) t (r :: outs)
  end.

Definition pop_mean (l : list Q) : Q := Qsum l / qofnat (length l).
Definition sq_dev (l : list Q) : Q := Qsum (map (fun v => (v - pop_mean l) * (v - pop_mean l)) l).
Definition pop_var (bessel : bool) (l : list Q) : Q :=
  sq_dev l / (if bessel then qofnat (length l) - 1 else qofnat (length l)).

Definition spec_stats_okb (dim : Z) (xs : list tensor) (bessel : bool) (tol : Q)
  (mean std : list Q) : bool :=
  (length mean =? length std)%nat &&
  forallb (fun i => qclose tol (nth i mean 0) (pop_mean (pooled dim xs i)) &&
                    qclose tol (qsq (nth i std 0)) (pop_var bessel (pooled dim xs i)))
          (seq 0 (length mean)).

(* the running buffers (count, sum, sum of squares) are those of the pooled data *)
Definition spec_buffers_okb (dim : Z) (xs : list tensor) (tol : Q) (c : Q) (sm sq : list Q) : bool :=
  Qeq_bool c (qofnat (frames dim xs)) && (length sm =? length sq)%nat &&
  forallb (fun i => qclose tol (nth i sm 0) (Qsum (pooled dim xs i)) &&
                    qclose tol (nth i sq 0) (Qsum (map qsq (pooled dim xs i))))
          (seq 0 (length sm)).

(* "normalising with them gives each coefficient zero mean and unit variance over the pooled
   data": ys are the normalised tensors; coefficients flagged in [degenerate] (zero pooled
   variance) are exempt from the unit-variance part *)
Definition spec_normalised_okb (dim : Z) (ys : list tensor) (X : nat) (tol : Q)
  (degenerate : list bool) : bool :=
  forallb (fun i => qclose tol (pop_mean (pooled dim ys i)) 0 &&
                    (nth i degenerate false || qclose tol (pop_var false (pooled dim ys i)) 1))
          (seq 0 X).

(* the documented formula y[..., i, ...] = (x[..., i, ...] - mean[i]) / max(std[i], eps),
   judged position by position on an output *)
Definition spec_norm_formula_okb (x : tensor) (dim : Z) (mean std : list Q) (eps tol : Q)
  (y : tensor) : bool :=
  match norm_dim (length (shape x)) dim with
  | None => false
  | Some d =>
      list_nat_eqb (shape y) (shape x) &&
      (length (data y) =? prodn (shape y))%nat &&
      forallb (fun idx => let i := nth d idx 0%nat in
                          qclose tol (get y idx) ((get x idx - nth i mean 0) / qmax (nth i std 0) eps))
              (indices (shape x))
  end.

(* ---------------------------------------------------------------------------------- *)
(* deltas: the recursive regression formula applied to the input extended by the        *)
(* chosen edge padding, laid out along the requested dimension                          *)
(* ---------------------------------------------------------------------------------- *)
Definition nthZ (x : list Q) (i : Z) : Q := if (i <? 0)%Z then 0 else nth (Z.to_nat i) x 0.

(* the time line x extended to all integer positions *)
Definition ext (m : padmode) (v : Q) (x : list Q) (i : Z) : Q :=
  let T := Z.of_nat (length x) in
  match m with
  | Constant => if ((0 <=? i) && (i <? T))%Z then nthZ x i else v
  | Replicate => nthZ x (Z.max 0 (Z.min (T - 1) i))
  | Reflect => nthZ x (if (i <? 0)%Z then - i else if (T <=? i)%Z then 2 * (T - 1) - i else i)
  | Circular => nthZ x (i mod T)
  end.

Definition zrange (lo : Z) (n : nat) : list Z := map (fun k => (lo + Z.of_nat k)%Z) (seq 0 n).
Definition window (w : nat) : list Z := zrange (- Z.of_nat w) (2 * w + 1).
Definition sumsq_w (w : nat) : Q := Qsum (map (fun m => inject_Z (m * m)) (window w)).

(* x[t, u] = sum_{m=-w..w} x[t + m, u - 1] * m / sum_m' m'^2,   x[t, 0] = x[t] *)
Fixpoint regress (w u : nat) (f : Z -> Q) (s : Z) : Q :=
  match u with
  | O => f s
  | S u' => Qsum (map (fun m => regress w u' f (s + m) * (inject_Z m / sumsq_w w)) (window w))
  end.

Definition set_nth (l : list nat) (k v : nat) : list nat := firstn k l ++ [v] ++ skipn (S k) l.
Definition remove_nth (l : list nat) (k : nat) : list nat := firstn k l ++ skipn (S k) l.

(* the time line of x through the position src *)
Definition line (x : tensor) (td : nat) (src : list nat) : list Q :=
  map (fun t => get x (set_nth src td t)) (seq 0 (nth td (shape x) 0%nat)).

Definition delta_shape (sh : list nat) (dm : nat) (conc : bool) (o : nat) : list nat :=
  if conc then set_nth sh dm (S o * nth dm sh 0)%nat
  else firstn dm sh ++ [S o] ++ skipn dm sh.

(* which (order, input position) an output position shows: stacking inserts the order as a
   new axis at dm; concatenation stores order u of coefficient i at u * X + i *)
Definition delta_src (sh : list nat) (dm : nat) (conc : bool) (idx : list nat) : nat * list nat :=
  if conc then
    let X := nth dm sh 0%nat in
    ((nth dm idx 0 / X)%nat, set_nth idx dm (nth dm idx 0 mod X)%nat)
  else (nth dm idx 0%nat, remove_nth idx dm).

Definition delta_at (x : tensor) (td dm : nat) (conc : bool) (w : nat) (m : padmode) (v : Q)
  (idx : list nat) : Q :=
  let '(u, src) := delta_src (shape x) dm conc idx in
  regress w u (ext m v (line x td src)) (Z.of_nat (nth td src 0%nat)).

Definition spec_deltas_okb (x : tensor) (dim time_dim : Z) (conc : bool) (o w : nat)
  (m : padmode) (v : Q) (tol : Q) (out : tensor) : bool :=
  let D := length (shape x) in
  match norm_dim D time_dim, norm_dim (if conc then D else S D) dim with
  | Some td, Some dm =>
      list_nat_eqb (shape out) (delta_shape (shape x) dm conc o) &&
      (length (data out) =? prodn (shape out))%nat &&
      forallb (fun idx => qclose tol (get out idx) (delta_at x td dm conc w m v idx))
              (indices (shape out))
  | _, _ => false
  end.

(* ---------------------------------------------------------------------------------- *)
(* returns: R_t = r_t + gamma * R_(t+1), R beyond the horizon = 0                       *)
(* ---------------------------------------------------------------------------------- *)
(* position (t, n) in the chosen layout: (T, N), or (N, T) when batch_first *)
Definition at2 (bf : bool) (x : tensor) (t n : nat) : Q := get x (if bf then [n; t] else [t; n]).

Definition ret_rec (g : Q) (rs : list Q) : list Q :=
  fold_right (fun r acc => (r + g * hd 0 acc) :: acc) [] rs.

(* judged directly on an output: every entry satisfies the recursion w.r.t. its successor *)
Definition spec_return_okb (r : tensor) (g : Q) (bf : bool) (tol : Q) (out : tensor) : bool :=
  let tp := if bf then 1%nat else 0%nat in
  let T := nth tp (shape r) 0%nat in
  list_nat_eqb (shape out) (shape r) &&
  (length (data out) =? prodn (shape out))%nat &&
  forallb (fun idx => let t := nth tp idx 0%nat in
                      qclose tol (get out idx)
                        (get r idx + g * (if (S t <? T)%nat then get out (set_nth idx tp (S t)) else 0)))
          (indices (shape r)).
