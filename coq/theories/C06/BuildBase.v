(* C06 — build_trie_ok, part 1: the array layer.
   Flat-buffer primitives of the model of _build_trie (zget / upd / pyset), the "fill a
   segment" loop, the back-fill `while`, the trailing `for`, and the closed form of the
   offsets they produce for one level:  offsets[j] = a0 + #{parents < j} - j. *)
From Coq Require Import List ZArith Bool Arith Lia ZifyBool ZifyNat.
From PV Require Import C06.Model.
Import ListNotations.
Local Open Scope Z_scope.

(* ---------- zget / upd / pyset ------------------------------------------------------------ *)

Lemma upd_length {A} (l : list A) : forall i x, length (upd l i x) = length l.
Proof.
  induction l as [|h t IH]; intros i x; [reflexivity|].
  destruct i; cbn [upd length]; [reflexivity|]. rewrite IH. reflexivity.
Qed.

Lemma nth_upd_same {A} (l : list A) : forall i x d, (i < length l)%nat -> nth i (upd l i x) d = x.
Proof.
  induction l as [|h t IH]; intros i x d H; cbn [length] in H; [lia|].
  destruct i; cbn [upd nth]; [reflexivity|]. apply IH. lia.
Qed.

Lemma nth_upd_other {A} (l : list A) : forall i j x d, i <> j -> nth j (upd l i x) d = nth j l d.
Proof.
  induction l as [|h t IH]; intros i j x d H; [reflexivity|].
  destruct i, j; cbn [upd nth]; try reflexivity; try lia. apply IH. lia.
Qed.

Lemma zget_nth {A} (l : list A) i d : 0 <= i -> zget l i d = nth (Z.to_nat i) l d.
Proof. intros H. unfold zget. replace (i <? 0) with false by lia. reflexivity. Qed.

Lemma zget_neg {A} (l : list A) i d : i < 0 -> zget l i d = d.
Proof. intros H. unfold zget. replace (i <? 0) with true by lia. reflexivity. Qed.

Lemma zget_beyond {A} (l : list A) i d : zlen l <= i -> zget l i d = d.
Proof.
  intros H. unfold zlen in H. rewrite zget_nth by lia. apply nth_overflow. lia.
Qed.

Lemma pyset_length {A} (l : list A) i x : length (pyset l i x) = length l.
Proof. unfold pyset. destruct (pyidx l i <? 0); [reflexivity|apply upd_length]. Qed.

Lemma zlen_pyset {A} (l : list A) i x : zlen (pyset l i x) = zlen l.
Proof. unfold zlen. rewrite pyset_length. reflexivity. Qed.

Lemma pyset_nonneg {A} (l : list A) i x : 0 <= i -> pyset l i x = upd l (Z.to_nat i) x.
Proof.
  intros H. unfold pyset, pyidx. replace (i <? 0) with false by lia.
  replace (i <? 0) with false by lia. reflexivity.
Qed.

Lemma zget_pyset_same {A} (l : list A) i x d : 0 <= i < zlen l -> zget (pyset l i x) i d = x.
Proof.
  intros H. unfold zlen in H. rewrite pyset_nonneg, zget_nth by lia. apply nth_upd_same. lia.
Qed.

Lemma zget_pyset_other {A} (l : list A) i j x d : 0 <= i -> j <> i ->
  zget (pyset l i x) j d = zget l j d.
Proof.
  intros Hi Hj. rewrite pyset_nonneg by lia. destruct (Z.ltb_spec j 0) as [Hn|Hn].
  - rewrite !zget_neg by lia. reflexivity.
  - rewrite !zget_nth by lia. apply nth_upd_other. lia.
Qed.

Lemma zget_pyset {A} (l : list A) i j x d : 0 <= i < zlen l ->
  zget (pyset l i x) j d = if j =? i then x else zget l j d.
Proof.
  intros H. destruct (Z.eqb_spec j i) as [->|Hne].
  - apply zget_pyset_same. assumption.
  - apply zget_pyset_other; lia.
Qed.

Lemma pyget_nonneg {A} (l : list A) i d : 0 <= i -> pyget l i d = zget l i d.
Proof. intros H. unfold pyget, pyidx. replace (i <? 0) with false by lia. reflexivity. Qed.

Lemma zget_app_l {A} (l1 l2 : list A) i d : i < zlen l1 -> zget (l1 ++ l2) i d = zget l1 i d.
Proof.
  intros H. unfold zlen in H. destruct (Z.ltb_spec i 0) as [Hn|Hn].
  - rewrite !zget_neg by lia. reflexivity.
  - rewrite !zget_nth by lia. apply app_nth1. lia.
Qed.

Lemma zget_app_r {A} (l1 l2 : list A) i d : zlen l1 <= i ->
  zget (l1 ++ l2) i d = zget l2 (i - zlen l1) d.
Proof.
  intros H. unfold zlen in *. rewrite !zget_nth by lia. rewrite app_nth2 by lia.
  f_equal. lia.
Qed.

Lemma zget_repeat {A} (x : A) n i : zget (repeat x n) i x = x.
Proof.
  destruct (Z.ltb_spec i 0) as [Hn|Hn]; [apply zget_neg; lia|]. rewrite zget_nth by lia.
  apply nth_repeat.
Qed.

(* ---------- writing a run of consecutive cells --------------------------------------------- *)

(* x0 at i, x1 at i+1, ...: what the allocation loop does to ids / logps / logbs *)
Fixpoint fill {A} (xs : list A) (l : list A) (i : Z) : list A :=
  match xs with [] => l | x :: r => fill r (pyset l i x) (i + 1) end.

Lemma fill_length {A} (xs : list A) : forall l i, length (fill xs l i) = length l.
Proof.
  induction xs as [|x r IH]; intros l i; [reflexivity|]. cbn [fill]. rewrite IH. apply pyset_length.
Qed.

Lemma zget_fill {A} (xs : list A) d : forall l i j, 0 <= i -> i + zlen xs <= zlen l ->
  zget (fill xs l i) j d =
  if (i <=? j) && (j <? i + zlen xs) then nth (Z.to_nat (j - i)) xs d else zget l j d.
Proof.
  induction xs as [|x r IH]; intros l i j Hi Hlen.
  - cbn [fill]. unfold zlen. cbn [length]. replace ((i <=? j) && (j <? i + Z.of_nat 0)) with false by lia.
    reflexivity.
  - cbn [fill]. unfold zlen in *. cbn [length] in *.
    rewrite IH by (rewrite ?pyset_length; lia).
    destruct (Z.eqb_spec j i) as [->|Hne].
    + replace ((i + 1 <=? i) && (i <? i + 1 + Z.of_nat (length r))) with false by lia.
      replace ((i <=? i) && (i <? i + Z.of_nat (S (length r)))) with true by lia.
      replace (Z.to_nat (i - i)) with 0%nat by lia. cbn [nth].
      apply zget_pyset_same. unfold zlen. lia.
    + rewrite zget_pyset_other by lia.
      destruct ((i + 1 <=? j) && (j <? i + 1 + Z.of_nat (length r))) eqn:E.
      * replace ((i <=? j) && (j <? i + Z.of_nat (S (length r)))) with true by lia.
        replace (Z.to_nat (j - i)) with (S (Z.to_nat (j - (i + 1)))) by lia. reflexivity.
      * replace ((i <=? j) && (j <? i + Z.of_nat (S (length r)))) with false by lia. reflexivity.
Qed.

(* ---------- the back-fill `while` ------------------------------------------------------------ *)

Lemma backfill_length : forall fuel offs p a, length (backfill fuel offs p a) = length offs.
Proof.
  induction fuel as [|f IH]; intros offs p a; [reflexivity|]. cbn [backfill].
  destruct ((0 <=? p) && (zget offs p 0 =? 0)); [|reflexivity]. rewrite IH. apply pyset_length.
Qed.

(* lo = the nearest cell at or below p that is already non-zero (-1: none) *)
Lemma backfill_spec : forall fuel offs p a lo,
  -1 <= lo <= p -> p < zlen offs -> p - lo <= Z.of_nat fuel ->
  (forall q, lo < q <= p -> zget offs q 0 = 0) -> (lo = -1 \/ zget offs lo 0 <> 0) ->
  forall j, zget (backfill fuel offs p a) j 0 =
            if (lo <? j) && (j <=? p) then a - j else zget offs j 0.
Proof.
  induction fuel as [|f IH]; intros offs p a lo Hlo Hp Hf Hz Hstop j.
  - cbn [backfill]. replace ((lo <? j) && (j <=? p)) with false by lia. reflexivity.
  - cbn [backfill]. destruct (Z.eq_dec lo p) as [->|Hne].
    + replace ((p <? j) && (j <=? p)) with false by lia.
      destruct Hstop as [->|Hnz].
      * replace (0 <=? -1) with false by lia. reflexivity.
      * replace (zget offs p 0 =? 0) with false by lia. rewrite andb_false_r. reflexivity.
    + assert (Hzp : zget offs p 0 = 0) by (apply Hz; lia).
      replace ((0 <=? p) && (zget offs p 0 =? 0)) with true by lia.
      rewrite (IH _ (p - 1) a lo); rewrite ?zlen_pyset; try lia.
      * destruct (Z.eqb_spec j p) as [->|Hjp].
        -- replace ((lo <? p) && (p <=? p - 1)) with false by lia.
           replace ((lo <? p) && (p <=? p)) with true by lia.
           apply zget_pyset_same. lia.
        -- rewrite zget_pyset_other by lia.
           replace ((lo <? j) && (j <=? p - 1)) with ((lo <? j) && (j <=? p)) by lia. reflexivity.
      * intros q Hq. rewrite zget_pyset_other by lia. apply Hz. lia.
      * destruct Hstop as [->|Hnz]; [left; reflexivity|right].
        rewrite zget_pyset_other by lia. assumption.
Qed.

(* ---------- the trailing `for` ---------------------------------------------------------------- *)

Lemma trailfill_length : forall fuel offs i, length (trailfill fuel offs i) = length offs.
Proof.
  induction fuel as [|f IH]; intros offs i; [reflexivity|]. cbn [trailfill].
  destruct (i <? 0); [reflexivity|]. destruct (negb (pyget offs (i - 1) 0 =? 0)); [reflexivity|].
  rewrite IH. apply pyset_length.
Qed.

(* hi = the last cell below i that is already non-zero *)
Lemma trailfill_spec : forall fuel offs i hi,
  0 <= hi < i -> i < zlen offs -> i - hi - 1 <= Z.of_nat fuel ->
  zget offs hi 0 <> 0 -> (forall q, hi < q < i -> zget offs q 0 = 0) ->
  forall j, zget (trailfill fuel offs i) j 0 =
            if (hi <? j) && (j <? i) then zget offs i 0 + (i - j) else zget offs j 0.
Proof.
  induction fuel as [|f IH]; intros offs i hi Hhi Hi Hf Hnz Hz j.
  - cbn [trailfill]. replace ((hi <? j) && (j <? i)) with false by lia. reflexivity.
  - cbn [trailfill]. replace (i <? 0) with false by lia. rewrite pyget_nonneg by lia.
    destruct (Z.eq_dec (i - 1) hi) as [E|Hne].
    + rewrite E. replace (zget offs hi 0 =? 0) with false by lia. cbn [negb].
      replace ((hi <? j) && (j <? i)) with false by lia. reflexivity.
    + assert (Hzp : zget offs (i - 1) 0 = 0) by (apply Hz; lia).
      rewrite Hzp. cbn [Z.eqb negb].
      rewrite (IH _ (i - 1) hi); rewrite ?zlen_pyset; try lia.
      * rewrite zget_pyset_same by lia.
        destruct (Z.eqb_spec j (i - 1)) as [->|Hj].
        -- replace ((hi <? i - 1) && (i - 1 <? i - 1)) with false by lia.
           replace ((hi <? i - 1) && (i - 1 <? i)) with true by lia.
           rewrite zget_pyset_same by lia. lia.
        -- rewrite zget_pyset_other by lia.
           destruct ((hi <? j) && (j <? i - 1)) eqn:E1.
           ++ replace ((hi <? j) && (j <? i)) with true by lia. lia.
           ++ replace ((hi <? j) && (j <? i)) with false by lia. reflexivity.
      * rewrite zget_pyset_other by lia. assumption.
      * intros q Hq. rewrite zget_pyset_other by lia. apply Hz. lia.
Qed.

(* ---------- the offsets written for one level -------------------------------------------------- *)

(* number of parent positions strictly below j *)
Fixpoint count_lt (ps : list Z) (j : Z) : Z :=
  match ps with [] => 0 | p :: r => (if p <? j then 1 else 0) + count_lt r j end.

Lemma count_lt_bounds ps j : 0 <= count_lt ps j <= zlen ps.
Proof.
  unfold zlen. induction ps as [|p r IH]; cbn [count_lt length]; [lia|]. destruct (p <? j); lia.
Qed.

Lemma count_lt_all ps j : Forall (fun p => p < j) ps -> count_lt ps j = zlen ps.
Proof.
  unfold zlen. induction 1 as [|p r Hp Hr IH]; cbn [count_lt length]; [reflexivity|].
  replace (p <? j) with true by lia. lia.
Qed.

Lemma count_lt_none ps j : Forall (fun p => j <= p) ps -> count_lt ps j = 0.
Proof.
  induction 1 as [|p r Hp Hr IH]; cbn [count_lt]; [reflexivity|].
  replace (p <? j) with false by lia. lia.
Qed.

Lemma count_lt_mono ps j j' : j <= j' -> count_lt ps j <= count_lt ps j'.
Proof.
  intros H. induction ps as [|p r IH]; cbn [count_lt]; [lia|].
  destruct (p <? j) eqn:E1, (p <? j') eqn:E2; lia.
Qed.

(* the parent positions of the entries of a level, in allocation order *)
Fixpoint offs_loop (ps : list Z) (offs : list Z) (a : Z) : list Z :=
  match ps with
  | [] => offs
  | p :: r => offs_loop r (backfill (S (length offs)) offs p a) (a + 1)
  end.

Lemma offs_loop_length ps : forall offs a, length (offs_loop ps offs a) = length offs.
Proof.
  induction ps as [|p r IH]; intros offs a; [reflexivity|]. cbn [offs_loop].
  rewrite IH. apply backfill_length.
Qed.

Lemma last_cons {A} (r : list A) : forall (x d : A), last (x :: r) d = last r x.
Proof.
  induction r as [|y r IH]; intros x d; [reflexivity|].
  change (last (x :: y :: r) d) with (last (y :: r) d). rewrite (IH y d), (IH y x). reflexivity.
Qed.

Lemma last_Forall {A} (P : A -> Prop) (r : list A) : forall x, P x -> Forall P r -> P (last r x).
Proof.
  induction r as [|y r IH]; intros x Hx Hr; [exact Hx|]. inversion Hr; subst.
  rewrite last_cons. apply IH; assumption.
Qed.

Inductive nondecr : list Z -> Prop :=
  | nd_nil : nondecr []
  | nd_cons p r : Forall (fun q => p <= q) r -> nondecr r -> nondecr (p :: r).

(* hi = last cell already filled (or the non-zero cell just below the level, or -1) *)
Lemma offs_loop_spec start : forall ps offs a hi,
  start < zlen offs -> start < a -> -1 <= hi ->
  nondecr ps -> Forall (fun p => hi <= p < start /\ 0 <= p) ps ->
  (forall q, hi < q < start -> zget offs q 0 = 0) -> (hi = -1 \/ zget offs hi 0 <> 0) ->
  forall j, zget (offs_loop ps offs a) j 0 =
            if (hi <? j) && (j <=? last ps hi) then a + count_lt ps j - j else zget offs j 0.
Proof.
  induction ps as [|p r IH]; intros offs a hi Hst Ha Hhi Hnd Hps Hz Hstop j.
  - cbn [offs_loop last]. replace ((hi <? j) && (j <=? hi)) with false by lia. reflexivity.
  - cbn [offs_loop]. rewrite last_cons.
    inversion Hnd as [|? ? Hge Hnd']; subst. inversion Hps as [|? ? [Hp Hp0] Hps']; subst.
    set (offs1 := backfill (S (length offs)) offs p a).
    assert (Hb : forall j, zget offs1 j 0 = if (hi <? j) && (j <=? p) then a - j else zget offs j 0).
    { apply backfill_spec; try assumption; try lia.
      all: try (unfold zlen in Hst; lia).
      all: try (intros q Hq; apply Hz; lia). }
    assert (Hrange : Forall (fun q => p <= q < start /\ 0 <= q) r).
    { rewrite Forall_forall in *. intros q Hq. specialize (Hge q Hq). specialize (Hps' q Hq). lia. }
    assert (Hlast : p <= last r p < start /\ 0 <= last r p).
    { apply (last_Forall (fun q => p <= q < start /\ 0 <= q)); [lia|assumption]. }
    rewrite (IH offs1 (a + 1) p); try assumption; try lia.
    + rewrite Hb. cbn [count_lt].
      destruct (Z.ltb_spec p j) as [Hpj|Hpj].
      * replace ((hi <? j) && (j <=? p)) with false by lia.
        destruct (j <=? last r p) eqn:E1.
        -- replace ((hi <? j) && true) with true by lia. cbn [andb]. lia.
        -- rewrite !andb_false_r. reflexivity.
      * cbn [andb]. destruct (hi <? j) eqn:E1.
        -- replace (j <=? p) with true by lia. replace (j <=? last r p) with true by lia. cbn [andb].
           rewrite (count_lt_none r j); [lia|].
           rewrite Forall_forall in *. intros q Hq. specialize (Hge q Hq). lia.
        -- reflexivity.
    + unfold offs1, zlen. rewrite backfill_length. exact Hst.
    + intros q Hq. rewrite Hb. replace ((hi <? q) && (q <=? p)) with false by lia. apply Hz. lia.
    + right. rewrite Hb. destruct ((hi <? p) && (p <=? p)) eqn:E; [lia|].
      destruct Hstop as [->|Hnz]; [lia|]. assert (p = hi) by lia. subst. assumption.
Qed.

(* the whole treatment of one level: dummy offset, allocation loop, trailing loop *)
Definition level_offs (ps : list Z) (offs : list Z) (start : Z) : list Z :=
  let o1 := pyset offs start (zlen ps + 1) in
  let o2 := offs_loop ps o1 (start + 1) in
  trailfill (S (Z.to_nat start)) o2 start.

Lemma level_offs_length ps offs start : length (level_offs ps offs start) = length offs.
Proof.
  unfold level_offs. rewrite trailfill_length, offs_loop_length, pyset_length. reflexivity.
Qed.

(* Lpos = first cell of the parent level, start = its dummy cell; every cell of the level
   gets  (start + 1) + #{parents below it} - its own position *)
Lemma level_offs_spec ps offs Lpos start :
  0 <= Lpos < start -> start < zlen offs -> ps <> [] ->
  nondecr ps -> Forall (fun p => Lpos <= p < start) ps ->
  (forall q, Lpos <= q <= start -> zget offs q 0 = 0) ->
  (Lpos = 0 \/ zget offs (Lpos - 1) 0 <> 0) ->
  forall j, zget (level_offs ps offs start) j 0 =
            if (Lpos <=? j) && (j <=? start) then start + 1 + count_lt ps j - j else zget offs j 0.
Proof.
  intros HL Hst Hne Hnd Hps Hz Hstop j. unfold level_offs.
  set (o1 := pyset offs start (zlen ps + 1)).
  assert (Ho1 : forall q, zget o1 q 0 = if q =? start then zlen ps + 1 else zget offs q 0).
  { intros q. apply zget_pyset. lia. }
  assert (Hl1 : zlen o1 = zlen offs) by apply zlen_pyset.
  set (o2 := offs_loop ps o1 (start + 1)).
  assert (Ho2 : forall q, zget o2 q 0 =
            if (Lpos - 1 <? q) && (q <=? last ps (Lpos - 1)) then start + 1 + count_lt ps q - q
            else zget o1 q 0).
  { apply (offs_loop_spec start); try lia; try assumption.
    - rewrite Forall_forall in *. intros p Hp. specialize (Hps p Hp). lia.
    - intros q Hq. rewrite Ho1. replace (q =? start) with false by lia. apply Hz. lia.
    - destruct Hstop as [->|Hnz]; [left; reflexivity|right].
      rewrite Ho1. replace (Lpos - 1 =? start) with false by lia. assumption. }
  assert (Hl2 : zlen o2 = zlen offs).
  { unfold o2, zlen. rewrite offs_loop_length. exact Hl1. }
  set (hi := last ps (Lpos - 1)).
  assert (Hhi : Lpos <= hi < start).
  { destruct ps as [|p r]; [congruence|]. unfold hi. rewrite last_cons.
    inversion Hps; subst. apply (last_Forall (fun q => Lpos <= q < start)); assumption. }
  assert (Hpre : Forall (fun p => p <= hi) ps).
  { clear - Hnd. unfold hi. generalize (Lpos - 1) as d. induction Hnd as [|p r Hge Hnd IH]; intros d; [constructor|].
    rewrite last_cons. constructor.
    - apply (last_Forall (fun q => p <= q)); [lia|assumption].
    - apply IH. }
  rewrite (trailfill_spec _ o2 start hi); try lia.
  - rewrite !Ho2. fold hi. rewrite !Ho1. replace (start =? start) with true by lia.
    replace ((Lpos - 1 <? start) && (start <=? hi)) with false by lia.
    destruct ((hi <? j) && (j <? start)) eqn:E1.
    + replace ((Lpos <=? j) && (j <=? start)) with true by lia.
      rewrite (count_lt_all ps j); [lia|].
      rewrite Forall_forall in *. intros p Hp. specialize (Hpre p Hp). lia.
    + destruct ((Lpos - 1 <? j) && (j <=? hi)) eqn:E2.
      * replace ((Lpos <=? j) && (j <=? start)) with true by lia. reflexivity.
      * destruct (Z.eqb_spec j start) as [->|Hjs].
        -- replace ((Lpos <=? start) && (start <=? start)) with true by lia.
           rewrite (count_lt_all ps start); [lia|].
           rewrite Forall_forall in *. intros p Hp. specialize (Hps p Hp). lia.
        -- replace ((Lpos <=? j) && (j <=? start)) with false by lia. reflexivity.
  - rewrite Ho2. fold hi. replace ((Lpos - 1 <? hi) && (hi <=? hi)) with true by lia.
    pose proof (count_lt_bounds ps hi). lia.
  - intros q Hq. rewrite Ho2. fold hi. replace ((Lpos - 1 <? q) && (q <=? hi)) with false by lia.
    rewrite Ho1. replace (q =? start) with false by lia. apply Hz. lia.
Qed.

(* ---------- misc ------------------------------------------------------------------------------ *)

Lemma NoDup_map_inj_in {A B} (f : A -> B) (l : list A) : NoDup l ->
  (forall x y, In x l -> In y l -> f x = f y -> x = y) -> NoDup (map f l).
Proof.
  induction 1 as [|x l Hnin Hnd IH]; intros Hinj; cbn [map]; constructor.
  - intros Hin. apply in_map_iff in Hin as (y & Hy & Hyl). apply Hnin.
    rewrite (Hinj x y (or_introl eq_refl) (or_intror Hyl) (eq_sym Hy)). assumption.
  - apply IH. intros a c Ha Hc. apply Hinj; right; assumption.
Qed.

