(* C08, second tie - library: what reaches [SrcRunB.ext_core] call by call (for ANY [nested], hence for extW, extA and
   extS alike), tensors inside the interpreter, and the symbolic-execution tactics used by TieB*.v.
   No new definitions of meaning. *)
From Coq Require Import ZArith QArith Qround List String Bool Arith Lia.
From PV Require Import MiniPy.Syntax MiniPy.Interp MiniTorch.Ops MiniTorch.OpsC08 MiniTorch.LemmasC08.
From PV Require Import MiniTorch.OpsC08B MiniTorch.LemmasC08B.
From PV Require Import C08.SrcRun C08.TieLib C08.SrcRunB.
From PV Require C08.Model.
Import ListNotations.
Local Open Scope string_scope.

#[local] Arguments dec_any : simpl never.
#[local] Arguments dec_c : simpl never.
#[global] Arguments enc_c : simpl never.

Lemma foreign_enc_c e t : foreign (enc_c e t) = true.  Proof. reflexivity. Qed.
Lemma truthy_enc_l t : truthy (enc_l t) = true.  Proof. reflexivity. Qed.
Lemma truthy_enc_b t : truthy (enc_b t) = true.  Proof. reflexivity. Qed.

Lemma dec_B_f t : dec_B (enc_f t) = Some (BA (TF t)).  Proof. unfold dec_B. now rewrite dec_any_enc_f. Qed.
Lemma dec_B_l t : dec_B (enc_l t) = Some (BA (TL t)).  Proof. unfold dec_B. now rewrite dec_any_enc_l. Qed.
Lemma dec_B_b t : dec_B (enc_b t) = Some (BA (TB t)).  Proof. unfold dec_B. now rewrite dec_any_enc_b. Qed.
Lemma dec_B_c e t : dec_B (enc_c e t) = Some (BC t e).
Proof. unfold dec_B. now rewrite dec_any_enc_c, dec_c_enc. Qed.

Lemma leb_0_of_nat n : (0 <=? Z.of_nat n)%Z = true.
Proof. apply Z.leb_le. lia. Qed.

Section ExtLemmas.
  Variable a : Model.arith.
  Variable spl : nat -> list val -> list Q.
  Variable gso : nat -> list val -> list val.
  Variable nested : string -> list val -> state -> option (outcome val).
  Notation ext := (ext_core a spl gso nested).
  Notation zn := (fun n : nat => VInt (Z.of_nat n)).

  Ltac ext_tac := unfold ext_core, operatorB, shape_op; cbn;
    rewrite ?dec_B_f, ?dec_B_l, ?dec_B_b, ?dec_B_c, ?dec_any_enc_f, ?dec_any_enc_l, ?dec_any_enc_b, ?dec_any_enc_c,
            ?dec_c_enc, ?dec_c_enc_f, ?dec_c_enc_l, ?dec_c_enc_b; cbn;
    rewrite ?dec_any_enc_f, ?dec_any_enc_l, ?dec_any_enc_b, ?dec_any_enc_c, ?dec_c_enc; cbn; try reflexivity.

  (* the argument check, by its documented behaviour *)
  Lemma extB_check_none N T F eps cells st :
    ext "_spec_augment_check_input" [enc_c eps (mkTn [N; T; F] cells); VNone] [] st = Ok VNone st.
  Proof. ext_tac. Qed.

  Lemma extB_check_lens N T F eps cells l st : List.length l = N -> lens_in_range T l = true ->
    ext "_spec_augment_check_input" [enc_c eps (mkTn [N; T; F] cells); enc_l (mkTn [List.length l] l)] [] st = Ok VNone st.
  Proof.
    intros HN HR. unfold ext_core. cbn. rewrite dec_c_enc. cbn.
    change (enc_l (mkTn [List.length l] l)) with (VTuple [VStr tag_long; enc_shape [List.length l]; VList (map VInt l)]) at 1.
    cbv iota. change (VTuple [VStr tag_long; enc_shape [List.length l]; VList (map VInt l)]) with (enc_l (mkTn [List.length l] l)).
    rewrite dec_any_enc_l. cbn [shp dat]. now rewrite HN, Nat.eqb_refl, HR.
  Qed.

  Lemma extB_shape_c eps t st : ext "$attr.shape" [enc_c eps t] [] st = Ok (VTuple (map zn (shp t))) st.
  Proof. ext_tac. Qed.
  Lemma extB_shape_f t st : ext "$attr.shape" [enc_f t] [] st = Ok (VTuple (map zn (shp t))) st.
  Proof. ext_tac. Qed.
  Lemma extB_device_c eps t st : ext "$attr.device" [enc_c eps t] [] st = Ok device_token st.
  Proof. ext_tac. Qed.
  Lemma extB_device_f t st : ext "$attr.device" [enc_f t] [] st = Ok device_token st.
  Proof. ext_tac. Qed.
  Lemma extB_dtype_c eps t st : ext "$attr.dtype" [enc_c eps t] [] st = Ok fdtype_token st.
  Proof. ext_tac. Qed.

  Lemma extB_full_l n v st :
    ext "torch.full" [VTuple [VInt (Z.of_nat n)]; VInt v] [("dtype", long_token); ("device", device_token)] st
    = Ok (enc_l (full_l n v)) st.
  Proof. unfold ext_core. cbn. rewrite leb_0_of_nat. now rewrite Nat2Z.id. Qed.

  Lemma extB_full_q n (q : Q) st :
    ext "torch.full" [VTuple [VInt (Z.of_nat n)]; VQ q] [("dtype", float_token); ("device", device_token)] st
    = Ok (enc_f (full_q a n q)) st.
  Proof. unfold ext_core. cbn. rewrite leb_0_of_nat. now rewrite Nat2Z.id. Qed.

  Lemma extB_to_l t st : ext "$method.to" [enc_l t; fdtype_token] [] st = Ok (enc_f (float_of_long a t)) st.
  Proof. ext_tac. Qed.

  Lemma extB_numel_f t st : ext "$method.numel" [enc_f t] [] st = Ok (VInt (Z.of_nat (numel (shp t)))) st.
  Proof. ext_tac. Qed.
  Lemma extB_numel_l t st : ext "$method.numel" [enc_l t] [] st = Ok (VInt (Z.of_nat (numel (shp t)))) st.
  Proof. ext_tac. Qed.

  Lemma extB_arange_l n st :
    ext "torch.arange" [VInt (Z.of_nat n)] [("device", device_token)] st = Ok (enc_l (arange_l n)) st.
  Proof. unfold ext_core. cbn. rewrite leb_0_of_nat. now rewrite Nat2Z.id. Qed.

  Lemma extB_arange_f n st :
    ext "torch.arange" [VInt (Z.of_nat n)] [("device", device_token); ("dtype", float_token)] st = Ok (enc_f (arange_f n)) st.
  Proof. unfold ext_core. cbn. rewrite leb_0_of_nat. now rewrite Nat2Z.id. Qed.

  Lemma extB_unsqueeze_f t d st : ext "$method.unsqueeze" [enc_f t; VInt d] [] st = ret_f "unsqueeze" (unsqueeze t d) st.
  Proof. ext_tac. Qed.
  Lemma extB_unsqueeze_l t d st : ext "$method.unsqueeze" [enc_l t; VInt d] [] st = ret_l "unsqueeze" (unsqueeze t d) st.
  Proof. ext_tac. Qed.
  Lemma extB_unsqueeze_b t d st : ext "$method.unsqueeze" [enc_b t; VInt d] [] st = ret_b "unsqueeze" (unsqueeze t d) st.
  Proof. ext_tac. Qed.
  Lemma extB_unsqueeze_c e t d st : ext "$method.unsqueeze" [enc_c e t; VInt d] [] st = ret_c e "unsqueeze" (unsqueeze t d) st.
  Proof. ext_tac. Qed.

  Lemma extB_squeeze_f t d st : ext "$method.squeeze" [enc_f t; VInt d] [] st = ret_f "squeeze" (squeeze t d) st.
  Proof. ext_tac. Qed.
  Lemma extB_squeeze_c e t d st : ext "$method.squeeze" [enc_c e t; VInt d] [] st = ret_c e "squeeze" (squeeze t d) st.
  Proof. ext_tac. Qed.

  Lemma extB_add_l t u st : ext "operator" [VStr "add"; enc_l t; enc_l u] [] st = ret_l "add" (add_l t u) st.
  Proof. ext_tac. Qed.
  Lemma extB_and_b t u st : ext "operator" [VStr "and"; enc_b t; enc_b u] [] st = ret_b "and" (and_b t u) st.
  Proof. ext_tac. Qed.
  Lemma extB_or_b t u st : ext "operator" [VStr "or"; enc_b t; enc_b u] [] st = ret_b "or" (or_b t u) st.
  Proof. ext_tac. Qed.
  Lemma extB_ge_l t u st : ext "compare" [VStr "ge"; enc_l t; enc_l u] [] st = ret_b "ge" (ge_l t u) st.
  Proof. ext_tac. Qed.
  Lemma extB_lt_l t u st : ext "compare" [VStr "lt"; enc_l t; enc_l u] [] st = ret_b "lt" (lt_l t u) st.
  Proof. ext_tac. Qed.

  Lemma extB_any t d st : ext "$method.any" [enc_b t; VInt d] [] st = ret_b "any" (any_last t d false) st.
  Proof. ext_tac. Qed.
  Lemma extB_any_keep t d k st :
    ext "$method.any" [enc_b t; VInt d] [("keepdim", VBool k)] st = ret_b "any" (any_last t d k) st.
  Proof. ext_tac. Qed.

  Lemma extB_masked_fill e t m v st :
    ext "$method.masked_fill" [enc_c e t; enc_b m; v] [] st = ret_c e "masked_fill" (masked_fill_c t m v) st.
  Proof. ext_tac. Qed.
End ExtLemmas.

#[global] Arguments ext_core : simpl never.

(* ---- parameter groups ------------------------------------------------------------------------------------- *)
Definition par_on (p : par) : bool :=
  match p with
  | PN => false
  | PF t => negb (Nat.eqb (numel (shp t)) 0)
  | PL t => negb (Nat.eqb (numel (shp t)) 0)
  end.

Lemma of_nat_eqb0 n : (Z.of_nat n =? 0)%Z = Nat.eqb n 0.
Proof. destruct n; [reflexivity|]. cbn [Nat.eqb]. apply Z.eqb_neq. lia. Qed.

(* `x is not None and x.numel() and y is not None and y.numel()` *)
Definition group_test (x y : string) : expr :=
  EAnd (ECmp IsNot (EName x) (EConst VNone)) (EAnd (EMeth (EName x) "numel" [] [])
    (EAnd (ECmp IsNot (EName y) (EConst VNone)) (EMeth (EName y) "numel" [] []))).

Lemma cmp_isnot_none_f t : cmp_eval IsNot (enc_f t) VNone = Some true.  Proof. reflexivity. Qed.
Lemma cmp_isnot_none_l t : cmp_eval IsNot (enc_l t) VNone = Some true.  Proof. reflexivity. Qed.
Lemma cmp_isnot_none_b t : cmp_eval IsNot (enc_b t) VNone = Some true.  Proof. reflexivity. Qed.
Lemma cmp_isnot_none_c e t : cmp_eval IsNot (enc_c e t) VNone = Some true.  Proof. reflexivity. Qed.
Lemma cmp_is_none_b t : cmp_eval Is (enc_b t) VNone = Some false.  Proof. reflexivity. Qed.
Lemma cmp_is_none_c e t : cmp_eval Is (enc_c e t) VNone = Some false.  Proof. reflexivity. Qed.

#[local] Arguments cmp_eval : simpl never.
#[local] Arguments Z.eqb : simpl never.
#[local] Arguments Z.of_nat : simpl never.
#[local] Arguments numel : simpl never.

Lemma group_cond a spl gso nested vs ev x y p0 p :
  lookup x vs = Some (enc_par p0) -> lookup y vs = Some (enc_par p) ->
  exists v, eval (ext_core a spl gso nested) (group_test x y) (mkState vs ev) = Ok v (mkState vs ev)
            /\ truthy v = (par_on p0 && par_on p)%bool.
Proof.
  intros Hx Hy. unfold group_test.
  destruct p0 as [|t0|t0], p as [|t|t]; cbn [par_on andb enc_par] in *;
    repeat first [ progress cbn | rewrite Hx | rewrite Hy | rewrite cmp_isnot_none_f | rewrite cmp_isnot_none_l
                 | rewrite method_foreign by reflexivity | rewrite extB_numel_f | rewrite extB_numel_l
                 | rewrite of_nat_eqb0
                 | match goal with |- context [Nat.eqb ?k 0] => destruct (Nat.eqb k 0) eqn:? end ];
    eexists; (split; [reflexivity|]); cbn; rewrite ?of_nat_eqb0;
    repeat match goal with H : Nat.eqb _ 0 = _ |- _ => rewrite H end; reflexivity.
Qed.

(* ---- symbolic execution -------------------------------------------------------------------------------------- *)
Ltac istepB :=
  cbn;
  rewrite ?lookup_update; cbn;
  rewrite ?method_foreign, ?attribute_foreign by reflexivity;
  rewrite ?foreign_enc_f, ?foreign_enc_l, ?foreign_enc_b, ?foreign_enc_c, ?truthy_enc_f, ?truthy_enc_l, ?truthy_enc_b;
  cbn.

Ltac lookB := match goal with H : lookup ?x ?vs = Some _ |- context [lookup ?x ?vs] => rewrite H end.

Lemma exec_seq_okB ext s1 s2 st st' : exec ext s1 st = Ok CNormal st' -> exec ext (SSeq s1 s2) st = exec ext s2 st'.
Proof. intros H. cbn [exec]. now rewrite H. Qed.

Lemma exec_if_valB ext c t f st v st' : eval ext c st = Ok v st' ->
  exec ext (SIf c t f) st = if truthy v then exec ext t st' else exec ext f st'.
Proof. intros H. cbn [exec]. now rewrite H. Qed.
