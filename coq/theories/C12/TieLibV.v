(* C12 — tie library, part 2: the equations that drive [exec] one construct at a time (the tie files of the
   `_info_and_validate` blocks keep [exec] folded: an `if` with a long body is not unfolded before its test is
   decided), and facts about strings / numbers used there.  No definitions of semantics; no axioms. *)
From Coq Require Import ZArith QArith List String Ascii Bool Arith Lia ZifyBool.
From PV Require Import MiniPy.Syntax MiniPy.Interp MiniPy.Lemmas MiniTorch.OpsC12 MiniTorch.LemmasC12.
From PV Require Import C12.SrcRun C12.SrcRunV C12.TieLib.
From PV Require C12.Model.
Import ListNotations.
Local Open Scope string_scope.

Section Exec.
  Variable ext : string -> list val -> list (string * val) -> state -> outcome val.

  Lemma exec_assign : forall ts e st,
    exec ext (SAssign ts e) st = bind (eval ext e st) (fun v st1 => bind (assign_all ext ts v st1) (fun _ st2 => Ok CNormal st2)).
  Proof. reflexivity. Qed.
  Lemma exec_raise : forall x st, exec ext (SRaise x) st = Exc x st.
  Proof. reflexivity. Qed.
  Lemma exec_pass : forall st, exec ext SPass st = Ok CNormal st.
  Proof. reflexivity. Qed.
  Lemma exec_expr_call : forall f a k st,
    exec ext (SExpr (ECall f a k)) st = bind (eval ext (ECall f a k) st) (fun _ st1 => Ok CNormal st1).
  Proof. reflexivity. Qed.
  Lemma exec_if' : forall c t f st,
    exec ext (SIf c t f) st = bind (eval ext c st) (fun cv st1 => if truthy cv then exec ext t st1 else exec ext f st1).
  Proof. reflexivity. Qed.
End Exec.

(* ---- strings ---- *)
Lemma dtype_name_eqb : forall a b, String.eqb (dtype_name a) (dtype_name b) = Model.dtype_beq a b.
Proof. destruct a, b; reflexivity. Qed.

Lemma of_nat_eqb : forall a b, (Z.of_nat a =? Z.of_nat b)%Z = (a =? b)%nat.
Proof. intros. destruct (Nat.eqb_spec a b); lia. Qed.

Lemma of_nat_SSS_eqb_2 : forall n, (Z.of_nat (S (S (S n))) =? 2)%Z = false.
Proof. intros. lia. Qed.
Lemma of_nat_SS_eqb_1 : forall n, (Z.of_nat (S (S n)) =? 1)%Z = false.
Proof. intros. lia. Qed.

(* ---- comparisons of Python ints (cmp_eval goes through the rationals) ---- *)
Lemma qcompare_inject : forall a b, Qcompare (inject_Z a) (inject_Z b) = Z.compare a b.
Proof. intros. unfold Qcompare. cbn. now rewrite !Z.mul_1_r. Qed.

Lemma q_cmp_lt : forall a b, q_cmp Lt (inject_Z a) (inject_Z b) = (a <? b)%Z.
Proof. intros. unfold q_cmp. rewrite qcompare_inject. unfold Z.ltb. now destruct (a ?= b)%Z. Qed.
Lemma q_cmp_le : forall a b, q_cmp LtE (inject_Z a) (inject_Z b) = (a <=? b)%Z.
Proof. intros. unfold q_cmp. rewrite qcompare_inject. unfold Z.leb. now destruct (a ?= b)%Z. Qed.
Lemma q_cmp_gt : forall a b, q_cmp Gt (inject_Z a) (inject_Z b) = (a >? b)%Z.
Proof. intros. unfold q_cmp. rewrite qcompare_inject. unfold Z.gtb. now destruct (a ?= b)%Z. Qed.
Lemma q_cmp_ge : forall a b, q_cmp GtE (inject_Z a) (inject_Z b) = (a >=? b)%Z.
Proof. intros. unfold q_cmp. rewrite qcompare_inject. unfold Z.geb. now destruct (a ?= b)%Z. Qed.

Lemma cpu_id : forall t, t_cuda t = false -> cpu t = t.
Proof. intros [cu dt sh d] H. cbn in H. now subst. Qed.

(* the same equations with the continuation statements NAMED (an opaque variable and its defining equation): only the
   statement in evaluation position is touched, the goal stays small *)
Section ExecNamed.
  Variable ext : string -> list val -> list (string * val) -> state -> outcome val.
  Lemma exec_seq_named : forall a b st r, r = b -> exec ext (SSeq a b) st = bind (exec ext a st) (then_ ext r).
  Proof. intros. subst. reflexivity. Qed.
  Lemma exec_if_named : forall c t f st bt bf, bt = t -> bf = f ->
    exec ext (SIf c t f) st = bind (eval ext c st) (fun cv st1 => if truthy cv then exec ext bt st1 else exec ext bf st1).
  Proof. intros. subst. reflexivity. Qed.
End ExecNamed.
