(* C01, prefix tie - infrastructure: what reaches SrcRunP.ext01p call by call (the lemmas of TieLib about ext01, lifted
   through "ext01 first, its Stuck replaced", plus the calls only the `return_prf_dsts` path makes), statement-by-statement
   execution lemmas for an arbitrary environment and the tactics of the symbolic runs in TiePLoop.v / TiePBlocks.v (the
   tactics of TieLib, which are tied to ext01, restated for [ext01p g]).  No statement about the source itself here. *)
From Coq Require Import ZArith QArith List String Bool Arith Lia ZifyBool ZifyNat.
From PV Require Import MiniPy.Syntax MiniPy.Interp MiniPy.Lemmas MiniTorch.Ops MiniTorch.Lemmas MiniTorch.OpsC07 MiniTorch.LemmasC07
  MiniTorch.OpsC01 MiniTorch.LemmasC01 MiniTorch.OpsC01P MiniTorch.LemmasC01P.
From PV Require Import Gen.C01Src C01.SrcRun C01.SrcRunP C01.TieLib.
From PV Require C01.Model.
Import ListNotations.
Local Open Scope string_scope.

#[local] Arguments dec01 : simpl never.
#[local] Arguments enc_b : simpl never.
#[local] Arguments enc_i : simpl never.
#[local] Arguments enc_x : simpl never.
#[local] Arguments tab2 : simpl never.
#[local] Arguments tab3 : simpl never.
#[local] Arguments qz : simpl never.
#[local] Arguments Z.add : simpl never.
#[local] Arguments Z.sub : simpl never.
#[local] Arguments Z.of_nat : simpl never.
#[local] Arguments select0 : simpl never.
#[local] Arguments slice0 : simpl never.
#[local] Arguments set_slice0 : simpl never.
#[local] Arguments broadcast : simpl never.
#[local] Arguments where_f : simpl never.
#[local] Arguments min_dim : simpl never.
#[local] Arguments gather0 : simpl never.
#[local] Arguments unsqueeze : simpl never.
#[local] Arguments squeeze_dim : simpl never.
#[local] Arguments expand2 : simpl never.
#[local] Arguments triu_f : simpl never.
#[local] Arguments transpose2 : simpl never.
#[local] Arguments arange_f : simpl never.
#[local] Arguments full : simpl never.
#[local] Arguments fadd : simpl never.
#[local] Arguments fsub : simpl never.
#[local] Arguments fmul : simpl never.
#[local] Arguments fdiv : simpl never.
#[local] Arguments fmin : simpl never.
#[local] Arguments b2f : simpl never.
#[local] Arguments z2f : simpl never.
#[local] Arguments empty2 : simpl never.
#[local] Arguments set_select0 : simpl never.
#[local] Arguments size_dim : simpl never.
#[local] Arguments expand_as2 : simpl never.
#[local] Arguments arange : simpl never.
#[local] Arguments ge_t : simpl never.
#[local] Arguments masked_fill : simpl never.
#[local] Arguments long_mul_float : simpl never.

(* ret01 with the answer for [None] left open (it is ext01p_new's; never met on a proved run) *)
Definition retp (o : option any01) (alt : outcome val) (st : state) : outcome val :=
  match o with Some t => Ok (enc01 t) st | None => alt end.

Lemma lift_ret : forall why o alt st,
  match ret01 why o st with Stuck _ => alt | r => r end = retp o alt st.
Proof. intros why [t|] alt st; reflexivity. Qed.

Section ExtLemmas.
  Variable g : nat -> fx.
  Notation ext := (ext01p g).
  Notation new := (ext01p_new g).

  Ltac lift_ok L := intros; unfold ext01p; rewrite L; reflexivity.
  Ltac lift_r L := intros; unfold ext01p; rewrite L; apply lift_ret.

  (* ---- the calls ext01 answers (TieLib), as ext01p sees them ---- *)
  Lemma extp_cmp_lt c y st : ext "compare" [VStr "lt"; VInt c; enc_i y] [] st = Ok (enc_b (map_t (fun v => Z.ltb c v) y)) st.
  Proof. lift_ok ext_cmp_lt. Qed.
  Lemma extp_cmp_ge x c st : ext "compare" [VStr "ge"; enc_i x; VInt c] [] st = Ok (enc_b (ge_s x c)) st.
  Proof. lift_ok ext_cmp_ge. Qed.
  Lemma extp_cmp_eq x c st : ext "compare" [VStr "eq"; enc_i x; VInt c] [] st = Ok (enc_b (eq_s x c)) st.
  Proof. lift_ok ext_cmp_eq. Qed.
  Lemma extp_cmp_ne x y st : ext "compare" [VStr "ne"; enc_i x; enc_i y] [] st =
    retp (option_map AB (cmp_i (fun u v => negb (Z.eqb u v)) x y)) (new "compare" [VStr "ne"; enc_i x; enc_i y] [] st) st.
  Proof. lift_r ext_cmp_ne. Qed.
  Lemma extp_float_b x st : ext "$method.float" [enc_b x] [] st = Ok (enc_x (bool_to_float x)) st.
  Proof. lift_ok ext_float_b. Qed.
  Lemma extp_getitem_int_i x i st : ext "$getitem" [enc_i x; VInt i] [] st =
    match select0 x i with
    | Some (Some r) => Ok (enc_i r) st
    | Some None => Exc index_error st
    | None => new "$getitem" [enc_i x; VInt i] [] st
    end.
  Proof. intros. unfold ext01p. rewrite ext_getitem_int_i. destruct (select0 x i) as [[r|]|]; reflexivity. Qed.
  Lemma extp_mul_q_x q y st : ext "operator" [VStr "mul"; VQ q; enc_x y] [] st = Ok (enc_x (map_t (fmul (Fq q)) y)) st.
  Proof. lift_ok ext_mul_q_x. Qed.
  Lemma extp_mul_x_q x q st : ext "operator" [VStr "mul"; enc_x x; VQ q] [] st = Ok (enc_x (map_t (fun e => fmul e (Fq q)) x)) st.
  Proof. lift_ok ext_mul_x_q. Qed.
  Lemma extp_add_x x y st : ext "operator" [VStr "add"; enc_x x; enc_x y] [] st =
    retp (option_map AX (bin_f fadd x y)) (new "operator" [VStr "add"; enc_x x; enc_x y] [] st) st.
  Proof. lift_r ext_add_x. Qed.
  Lemma extp_sub_x x y st : ext "operator" [VStr "sub"; enc_x x; enc_x y] [] st =
    retp (option_map AX (bin_f fsub x y)) (new "operator" [VStr "sub"; enc_x x; enc_x y] [] st) st.
  Proof. lift_r ext_sub_x. Qed.
  Lemma extp_getitem_slice_x x a b st :
    ext "$getitem" [enc_x x; VTuple [VStr "$slice"; a; b; VNone]] [] st =
    match dec_bound a, dec_bound b with
    | Some a', Some b' => retp (option_map AX (slice0 x a' b')) (new "$getitem" [enc_x x; VTuple [VStr "$slice"; a; b; VNone]] [] st) st
    | _, _ => new "$getitem" [enc_x x; VTuple [VStr "$slice"; a; b; VNone]] [] st
    end.
  Proof.
    intros. unfold ext01p. rewrite ext_getitem_slice_x. destruct (dec_bound a), (dec_bound b); try reflexivity. apply lift_ret.
  Qed.
  Lemma extp_setitem_slice_x x a b y st :
    ext "$setitem" [enc_x x; VTuple [VStr "$slice"; a; b; VNone]; enc_x y] [] st =
    match dec_bound a, dec_bound b with
    | Some a', Some b' => retp (option_map AX (set_slice0 x a' b' y))
                            (new "$setitem" [enc_x x; VTuple [VStr "$slice"; a; b; VNone]; enc_x y] [] st) st
    | _, _ => new "$setitem" [enc_x x; VTuple [VStr "$slice"; a; b; VNone]; enc_x y] [] st
    end.
  Proof.
    intros. unfold ext01p. rewrite ext_setitem_slice_x. destruct (dec_bound a), (dec_bound b); try reflexivity. apply lift_ret.
  Qed.
  Lemma extp_torch_min x y st : ext "torch.min" [enc_x x; enc_x y] [] st =
    retp (option_map AX (bin_f fmin x y)) (new "torch.min" [enc_x x; enc_x y] [] st) st.
  Proof. lift_r ext_torch_min. Qed.
  Lemma extp_min_dim x d st : ext "$method.min" [enc_x x; VInt d] [] st =
    match min_dim x d with
    | Some (Some (v, i)) => Ok (VTuple [enc_x v; enc_i i]) st
    | Some None => Exc index_error st
    | None => new "$method.min" [enc_x x; VInt d] [] st
    end.
  Proof. intros. unfold ext01p. rewrite ext_min_dim. destruct (min_dim x d) as [[[v i]|]|]; reflexivity. Qed.
  Lemma extp_where c x y st : ext "torch.where" [enc_b c; enc_x x; enc_x y] [] st =
    retp (option_map AX (where_f c x y)) (new "torch.where" [enc_b c; enc_x x; enc_x y] [] st) st.
  Proof. lift_r ext_where. Qed.
  Lemma extp_dim_i x st : ext "$method.dim" [enc_i x] [] st = Ok (VInt (Z.of_nat (List.length (shp x)))) st.
  Proof. lift_ok ext_dim_i. Qed.
  Lemma extp_t_i x st : ext "$method.t" [enc_i x] [] st =
    retp (option_map AI (transpose2 0%Z x)) (new "$method.t" [enc_i x] [] st) st.
  Proof. lift_r ext_t_i. Qed.
  Lemma extp_empty st : ext "torch.empty" [VInt 0] [] st = Ok (enc_x (mkTn [0%nat] [])) st.
  Proof. lift_ok ext_empty. Qed.
  Lemma extp_detach_i x st : ext "$method.detach" [enc_i x] [] st = Ok (enc_i x) st.
  Proof. lift_ok ext_detach_i. Qed.
  Lemma extp_shape_i x st : ext "$attr.shape" [enc_i x] [] st = Ok (VTuple (map (fun n => VInt (Z.of_nat n)) (shp x))) st.
  Proof. lift_ok ext_shape_i. Qed.
  Lemma extp_device_i x st : ext "$attr.device" [enc_i x] [] st = Ok device_token st.
  Proof. lift_ok ext_device_i. Qed.
  Lemma extp_dtype_i x st : ext "$attr.dtype" [enc_i x] [] st = Ok long_token st.
  Proof. lift_ok ext_dtype_i. Qed.
  Lemma extp_dtype_x x st : ext "$attr.dtype" [enc_x x] [] st = Ok float_token st.
  Proof. lift_ok ext_dtype_x. Qed.
  Lemma extp_lens tok e d st : ext "_lens_from_eos" [tok; e; d] [] st =
    match C07.SrcRun.call_body (fun x => x) sm_lens (("tok", tok) :: ("eos", e) :: ("dim", d) :: C07.SrcRun.globals07) st with
    | Stuck _ => new "_lens_from_eos" [tok; e; d] [] st
    | o => o
    end.
  Proof. reflexivity. Qed.
  Lemma extp_add_i_int x c st : ext "operator" [VStr "add"; enc_i x; VInt c] [] st = Ok (enc_i (add_s x c)) st.
  Proof. lift_ok ext_add_i_int. Qed.
  Lemma extp_sub_i x y st : ext "operator" [VStr "sub"; enc_i x; enc_i y] [] st =
    retp (option_map AI (bin_i Z.sub x y)) (new "operator" [VStr "sub"; enc_i x; enc_i y] [] st) st.
  Proof. lift_r ext_sub_i. Qed.
  Lemma extp_div_x x y st : ext "operator" [VStr "truediv"; enc_x x; enc_x y] [] st =
    retp (option_map AX (bin_f fdiv x y)) (new "operator" [VStr "truediv"; enc_x x; enc_x y] [] st) st.
  Proof. lift_r ext_div_x. Qed.
  Lemma extp_any x st : ext "$method.any" [enc_b x] [] st = Ok (VBool (any_b x)) st.
  Proof. lift_ok ext_any. Qed.
  Lemma extp_to_b_long x st : ext "$method.to" [enc_b x; long_token] [] st = Ok (enc_i (bool_to_long x)) st.
  Proof. lift_ok ext_to_b_long. Qed.
  Lemma extp_to_b_float x st : ext "$method.to" [enc_b x; float_token] [] st = Ok (enc_x (bool_to_float x)) st.
  Proof. lift_ok ext_to_b_float. Qed.
  Lemma extp_to_i_float x st : ext "$method.to" [enc_i x; float_token] [] st = Ok (enc_x (long_to_float x)) st.
  Proof. lift_ok ext_to_i_float. Qed.
  Lemma extp_full n v st : ext "torch.full" [VTuple [VInt n]; VInt v] [("device", device_token); ("dtype", long_token)] st =
    if Z.ltb n 0 then new "torch.full" [VTuple [VInt n]; VInt v] [("device", device_token); ("dtype", long_token)] st
    else Ok (enc_i (full [Z.to_nat n] v)) st.
  Proof. intros. unfold ext01p. rewrite ext_full. destruct (Z.ltb n 0); reflexivity. Qed.
  Lemma extp_arange_f n st : ext "torch.arange" [VInt n] [("device", device_token); ("dtype", float_token)] st =
    retp (option_map AX (arange_f n)) (new "torch.arange" [VInt n] [("device", device_token); ("dtype", float_token)] st) st.
  Proof. lift_r ext_arange_f. Qed.
  Lemma extp_float_inf st : ext "float" [VStr "inf"] [] st = Ok (VInf true) st.
  Proof. lift_ok ext_float_inf. Qed.
  Lemma extp_full_like_inf x st : ext "torch.full_like" [enc_x x; VInf true] [] st = Ok (enc_x (full (shp x) FPInf)) st.
  Proof. lift_ok ext_full_like_inf. Qed.
  Lemma extp_triu x k st : ext "$method.triu" [enc_x x; VInt k] [] st =
    retp (option_map AX (triu_f x k)) (new "$method.triu" [enc_x x; VInt k] [] st) st.
  Proof. lift_r ext_triu. Qed.
  Lemma extp_unsqueeze_x x d st : ext "$method.unsqueeze" [enc_x x; VInt d] [] st =
    retp (option_map AX (unsqueeze x d)) (new "$method.unsqueeze" [enc_x x; VInt d] [] st) st.
  Proof. lift_r ext_unsqueeze_x. Qed.
  Lemma extp_unsqueeze_i x d st : ext "$method.unsqueeze" [enc_i x; VInt d] [] st =
    retp (option_map AI (unsqueeze x d)) (new "$method.unsqueeze" [enc_i x; VInt d] [] st) st.
  Proof. lift_r ext_unsqueeze_i. Qed.
  Lemma extp_squeeze_x x d st : ext "$method.squeeze" [enc_x x; VInt d] [] st =
    retp (option_map AX (squeeze_dim x d)) (new "$method.squeeze" [enc_x x; VInt d] [] st) st.
  Proof. lift_r ext_squeeze_x. Qed.
  Lemma extp_expand_x x a b st : ext "$method.expand" [enc_x x; VInt a; VInt b] [] st =
    retp (option_map AX (expand2 FNaN x a b)) (new "$method.expand" [enc_x x; VInt a; VInt b] [] st) st.
  Proof. lift_r ext_expand_x. Qed.
  Lemma extp_gather x y st : ext "$method.gather" [enc_x x; VInt 0; enc_i y] [] st =
    retp (option_map AX (gather0 x y)) (new "$method.gather" [enc_x x; VInt 0; enc_i y] [] st) st.
  Proof. lift_r ext_gather. Qed.
  Lemma extp_eq_m x c st : ext "$method.eq" [enc_i x; VInt c] [] st = Ok (enc_b (eq_s x c)) st.
  Proof. lift_ok ext_eq_m. Qed.
  Lemma extp_gt_m x c st : ext "$method.gt" [enc_i x; VInt c] [] st = Ok (enc_b (cmp_scalar Z.gtb x c)) st.
  Proof. lift_ok ext_gt_m. Qed.

  (* ---- calls ext01 answers that only the prefix path makes ---- *)
  Lemma extp_unsqueeze_b x d st : ext "$method.unsqueeze" [enc_b x; VInt d] [] st =
    retp (option_map AB (unsqueeze x d)) (new "$method.unsqueeze" [enc_b x; VInt d] [] st) st.
  Proof.
    intros. unfold ext01p.
    replace (ext01 "$method.unsqueeze" [enc_b x; VInt d] [] st) with (ret01 "unsqueeze" (option_map AB (unsqueeze x d)) st)
      by (unfold ext01, ext01_ops; cbn; now rewrite dec01_enc_b).
    apply lift_ret.
  Qed.
  Lemma extp_t_x x st : ext "$method.t" [enc_x x] [] st =
    retp (option_map AX (transpose2 FNaN x)) (new "$method.t" [enc_x x] [] st) st.
  Proof.
    intros. unfold ext01p.
    replace (ext01 "$method.t" [enc_x x] [] st) with (ret01 "t" (option_map AX (transpose2 FNaN x)) st)
      by (unfold ext01, ext01_ops; cbn; now rewrite dec01_enc_x).
    apply lift_ret.
  Qed.

  (* ---- the calls only ext01p answers ---- *)
  Lemma extp_empty2 a b st :
    ext "torch.empty" [VTuple [VInt a; VInt b]] [("device", device_token); ("dtype", float_token)] st =
    ret01 "empty" (option_map AX (empty2 g a b)) st.
  Proof. reflexivity. Qed.
  Lemma extp_arange_i n st : ext "torch.arange" [VInt n] [("device", device_token)] st =
    ret01 "arange" (option_map AI (arange n)) st.
  Proof. reflexivity. Qed.
  Lemma extp_setitem_row x i y st : ext "$setitem" [enc_x x; VInt i; enc_x y] [] st =
    match set_select0 x i y with
    | Some (Some r) => Ok (enc_x r) st
    | Some None => Exc index_error st
    | None => oob "setitem row"
    end.
  Proof.
    unfold ext01p. replace (ext01 "$setitem" [enc_x x; VInt i; enc_x y] [] st) with (@Stuck val "setitem")
      by (unfold ext01, ext01_ops; cbn; now rewrite !dec01_enc_x).
    unfold ext01p_new. cbn. now rewrite !dec01_enc_x.
  Qed.
  Lemma extp_mul_i_q x q st : ext "operator" [VStr "mul"; enc_i x; VQ q] [] st = Ok (enc_x (long_mul_float x q)) st.
  Proof.
    unfold ext01p. replace (ext01 "operator" [VStr "mul"; enc_i x; VQ q] [] st) with (@Stuck val "mul")
      by (unfold ext01, ext01_ops; cbn; now rewrite dec01_enc_i).
    unfold ext01p_new. cbn. now rewrite dec01_enc_i.
  Qed.
  Lemma extp_size x d st : ext "$method.size" [enc_x x; VInt d] [] st =
    match size_dim x d with Some n => Ok (VInt (Z.of_nat n)) st | None => oob "size" end.
  Proof. unfold ext01p. change (ext01 "$method.size" [enc_x x; VInt d] [] st) with (@Stuck val "ext01: $method.size").
    unfold ext01p_new. cbn. now rewrite dec01_enc_x. Qed.
  Lemma extp_expand_as_x x y st : ext "$method.expand_as" [enc_x x; enc_x y] [] st =
    ret01 "expand_as" (option_map AX (expand_as2 FNaN x (shp y))) st.
  Proof. unfold ext01p. change (ext01 "$method.expand_as" [enc_x x; enc_x y] [] st) with (@Stuck val "ext01: $method.expand_as").
    unfold ext01p_new. cbn. now rewrite !dec01_enc_x. Qed.
  Lemma extp_ge_t x y st : ext "$method.ge" [enc_i x; enc_i y] [] st = ret01 "ge" (option_map AB (ge_t x y)) st.
  Proof. unfold ext01p. change (ext01 "$method.ge" [enc_i x; enc_i y] [] st) with (@Stuck val "ext01: $method.ge").
    unfold ext01p_new. cbn. now rewrite !dec01_enc_i. Qed.
  Lemma extp_masked_fill x m v st : ext "$method.masked_fill" [enc_x x; enc_b m; VInt v] [] st =
    ret01 "masked_fill" (option_map AX (masked_fill x m (z2f v))) st.
  Proof. unfold ext01p. change (ext01 "$method.masked_fill" [enc_x x; enc_b m; VInt v] [] st) with (@Stuck val "ext01: $method.masked_fill").
    unfold ext01p_new. cbn. now rewrite dec01_enc_x, dec01_enc_b. Qed.
End ExtLemmas.

#[local] Arguments ext01 : simpl never.
#[local] Arguments ext01p : simpl never.
#[local] Arguments ext01p_new : simpl never.

(* ---- one statement, any environment ---- *)
Section Exec.
  Variable E : string -> list val -> list (string * val) -> state -> outcome val.
  Lemma gexec_seq_assign x e b st v st1 : eval E e st = Ok v st1 ->
    exec E (SSeq (SAssign [TName x] e) b) st = exec E b (set_var x v st1).
  Proof. intros H. cbn [exec]. rewrite H. reflexivity. Qed.
  Lemma gexec_assign x e st v st1 : eval E e st = Ok v st1 ->
    exec E (SAssign [TName x] e) st = Ok CNormal (set_var x v st1).
  Proof. intros H. cbn [exec]. rewrite H. reflexivity. Qed.
  Lemma gexec_seq_assign3 x y z e b st v st1 : eval E e st = Ok v st1 ->
    exec E (SSeq (SAssign [TName x; TName y; TName z] e) b) st =
    exec E b (set_var z v (set_var y v (set_var x v st1))).
  Proof. intros H. cbn [exec]. rewrite H. reflexivity. Qed.
  Lemma gexec_seq_assoc a b c st : exec E (SSeq (SSeq a b) c) st = exec E (SSeq a (SSeq b c)) st.
  Proof. cbn [exec]. destruct (exec E a st) as [[|v] st1|n st1|w]; cbn [bind]; try reflexivity. Qed.
  Lemma gexec_seq_if c t f b st v st1 : eval E c st = Ok v st1 ->
    exec E (SSeq (SIf c t f) b) st = exec E (SSeq (if truthy v then t else f) b) st1.
  Proof. intros H. cbn [exec]. rewrite H. cbn [bind]. destruct (truthy v); reflexivity. Qed.
  Lemma gexec_if c t f st v st1 : eval E c st = Ok v st1 ->
    exec E (SIf c t f) st = exec E (if truthy v then t else f) st1.
  Proof. intros H. cbn [exec]. rewrite H. cbn [bind]. destruct (truthy v); reflexivity. Qed.
  Lemma gexec_seq_pass b st : exec E (SSeq SPass b) st = exec E b st.
  Proof. reflexivity. Qed.
  Lemma gexec_seq_pass_r : forall a st, exec E (SSeq a SPass) st = exec E a st.
  Proof. intros. cbn [exec]. destruct (exec E a st) as [[|v] st1|n st1|w]; reflexivity. Qed.
  (* x[k] = e on a float tensor held by the variable x (the evaluations leave the state as it is) *)
  Lemma gexec_seq_setitem x ke e b st v kv t nv :
    eval E e st = Ok v st -> lookup x (vars st) = Some (enc_x t) -> eval E ke st = Ok kv st ->
    E "$setitem" [enc_x t; kv; v] [] st = Ok nv st ->
    exec E (SSeq (SAssign [TSub (EName x) ke] e) b) st = exec E b (set_var x nv st).
  Proof.
    intros He Hx Hk Hs. cbn [exec]. rewrite He. cbn [bind assign_all place_of store eval]. rewrite Hx. cbn [bind].
    rewrite Hk. cbn [bind]. unfold enc_x at 1. fold (enc_x t). rewrite Hs. cbn [bind]. reflexivity.
  Qed.
  Lemma gexec_setitem x ke e st v kv t nv :
    eval E e st = Ok v st -> lookup x (vars st) = Some (enc_x t) -> eval E ke st = Ok kv st ->
    E "$setitem" [enc_x t; kv; v] [] st = Ok nv st ->
    exec E (SAssign [TSub (EName x) ke] e) st = Ok CNormal (set_var x nv st).
  Proof.
    intros He Hx Hk Hs. cbn [exec]. rewrite He. cbn [bind assign_all place_of store eval]. rewrite Hx. cbn [bind].
    rewrite Hk. cbn [bind]. unfold enc_x at 1. fold (enc_x t). rewrite Hs. cbn [bind]. reflexivity.
  Qed.
  (* the same statement when the item assignment raises *)
  Lemma gexec_seq_setitem_exc x ke e b st v kv t n :
    eval E e st = Ok v st -> lookup x (vars st) = Some (enc_x t) -> eval E ke st = Ok kv st ->
    E "$setitem" [enc_x t; kv; v] [] st = Exc n st ->
    exec E (SSeq (SAssign [TSub (EName x) ke] e) b) st = Exc n st.
  Proof.
    intros He Hx Hk Hs. cbn [exec]. rewrite He. cbn [bind assign_all place_of store eval]. rewrite Hx. cbn [bind].
    rewrite Hk. cbn [bind]. unfold enc_x at 1. fold (enc_x t). rewrite Hs. reflexivity.
  Qed.
  Lemma gexec_seq_assert : forall e b st v, eval E e st = Ok v st -> truthy v = true ->
    exec E (SSeq (SAssert e) b) st = exec E b st.
  Proof. intros e b st v H T. cbn [exec]. rewrite H. cbn [bind]. rewrite T. reflexivity. Qed.

  Lemma gexec_take_drop : forall n s st, exec E (SSeq (seq_take n s) (seq_drop n s)) st = exec E s st.
  Proof.
    induction n as [|n IH]; intros s st; [reflexivity|].
    destruct s; cbn [seq_take seq_drop]; try apply gexec_seq_pass_r.
    rewrite gexec_seq_assoc. cbn [exec]. destruct (exec E s1 st) as [[|v] st1|m st1|w]; cbn [bind]; try reflexivity.
    apply IH.
  Qed.

  Fixpoint gexec_list (l : list stmt) (st : state) : outcome ctl :=
    match l with
    | [] => Ok CNormal st
    | x :: r => bind (exec E x st) (fun c st1 => match c with CNormal => gexec_list r st1 | CReturn _ => Ok c st1 end)
    end.

  Lemma gexec_list_app : forall l1 l2 st,
    gexec_list (l1 ++ l2) st =
    bind (gexec_list l1 st) (fun c st1 => match c with CNormal => gexec_list l2 st1 | CReturn _ => Ok c st1 end).
  Proof.
    induction l1 as [|x l1 IH]; intros l2 st; [reflexivity|].
    cbn [app gexec_list]. destruct (exec E x st) as [[|v] st1|n st1|w]; cbn [bind]; try reflexivity. apply IH.
  Qed.

  Lemma gexec_flatten : forall s st, exec E s st = gexec_list (flatten s) st.
  Proof.
    induction s; intros st;
      try (cbn [flatten gexec_list];
           match goal with |- ?e = bind ?e _ => destruct e as [[|v] st1|n st1|w]; reflexivity end).
    - reflexivity.
    - cbn [flatten]. rewrite gexec_list_app. cbn [exec]. rewrite IHs1.
      destruct (gexec_list (flatten s1) st) as [[|v] st1|n st1|w]; cbn [bind]; try reflexivity. apply IHs2.
  Qed.

  Lemma gruns_to_seq : forall (P Q : state -> Prop) a b st,
    runs_to P (exec E a st) -> (forall st1, P st1 -> runs_to Q (exec E b st1)) ->
    runs_to Q (exec E (SSeq a b) st).
  Proof. intros P Q a b st [st1 [He P1]] Hb. cbn [exec]. rewrite He. cbn [bind]. now apply Hb. Qed.
End Exec.

Create HintDb c01p discriminated.
#[export] Hint Rewrite lookup_update foreign_enc_i foreign_enc_b foreign_enc_x method_enc_i method_enc_b method_enc_x
  attribute_enc_i attribute_enc_x
  subscript_enc_i_int subscript_enc_x_tuple binop_mul_q_x binop_mul_x_q binop_add_x_x binop_sub_x_x binop_div_x_x
  binop_add_i_int binop_sub_i_i
  extp_cmp_lt extp_cmp_ge extp_cmp_eq extp_cmp_ne extp_float_b extp_getitem_int_i extp_mul_q_x extp_mul_x_q extp_add_x extp_sub_x
  extp_getitem_slice_x extp_setitem_slice_x extp_torch_min extp_min_dim extp_where
  extp_dim_i extp_t_i extp_empty extp_detach_i extp_shape_i extp_device_i extp_dtype_i extp_dtype_x extp_add_i_int extp_sub_i extp_div_x
  extp_any extp_to_b_long extp_to_b_float extp_to_i_float extp_full extp_arange_f extp_float_inf extp_full_like_inf extp_triu
  extp_unsqueeze_x extp_unsqueeze_i extp_squeeze_x extp_expand_x extp_gather extp_eq_m extp_gt_m
  extp_unsqueeze_b extp_t_x extp_empty2 extp_arange_i extp_setitem_row extp_mul_i_q extp_size extp_expand_as_x extp_ge_t
  extp_masked_fill : c01p.

Lemma binop_mul_i_q t q st : binop_eval Mul (enc_i t) (VQ q) st = Stuck "mul".  Proof. reflexivity. Qed.
#[export] Hint Rewrite binop_mul_i_q : c01p.

(* ---- tactics of the symbolic runs (TieLib's, for any environment; the hint base is c01p) ------------------------- *)
Ltac pev := repeat (progress (cbn; autorewrite with c01p; look)).

Ltac pnorm :=
  unfold bool_to_float, bool_to_long, long_to_float, ge_s, eq_s, cmp_scalar, add_s, bin_f, bin_i, cmp_i, map_t, ge_t,
    long_mul_float; cbn [shp dat];
  rewrite ?map_map, ?map_tab2;
  rewrite ?broadcast_mat_row, ?broadcast_same2, ?broadcast_same1, ?broadcast_3_mat, ?broadcast_col_row, ?broadcast_col_vec,
    ?where_row_mat, ?where_same1, ?where_1row_mat, ?slice0_init, ?slice0_tail, ?set_slice0_tail,
    ?unsqueeze_1_0, ?unsqueeze_1_1, ?unsqueeze_2_m1, ?squeeze_2_0, ?masked_fill_mat, ?size_dim_2_0, ?transpose2_mat;
  cbn [option_map ret01 retp enc01].
Ltac pevn := repeat (progress (pev; pnorm)).

Ltac pseqnorm := repeat first [rewrite gexec_seq_assoc | rewrite gexec_seq_pass].

Ltac passign tac :=
  pseqnorm;
  match goal with
  | |- context [exec ?E (SSeq (SAssign [TName ?x] ?e) ?b) ?st] =>
      let H := fresh "Hev" in
      eassert (H : eval E e st = Ok _ st); [ solve [tac] | rewrite (gexec_seq_assign E x e b st _ _ H); clear H; push_state ]
  | |- context [exec ?E (SAssign [TName ?x] ?e) ?st] =>
      let H := fresh "Hev" in
      eassert (H : eval E e st = Ok _ st); [ solve [tac] | rewrite (gexec_assign E x e st _ _ H); clear H; push_state ]
  end.
Ltac pasg := passign ltac:(pevn; reflexivity).

(* the same with the value given (for expressions whose evaluation splits on a flag) *)
Ltac passign_v v tac :=
  pseqnorm;
  match goal with
  | |- context [exec ?E (SSeq (SAssign [TName ?x] ?e) ?b) ?st] =>
      let H := fresh "Hev" in
      assert (H : eval E e st = Ok v st); [ solve [tac] | rewrite (gexec_seq_assign E x e b st _ _ H); clear H; push_state ]
  | |- context [exec ?E (SAssign [TName ?x] ?e) ?st] =>
      let H := fresh "Hev" in
      assert (H : eval E e st = Ok v st); [ solve [tac] | rewrite (gexec_assign E x e st _ _ H); clear H; push_state ]
  end.

Ltac pifstep_t tac :=
  pseqnorm;
  match goal with
  | |- context [exec ?E (SSeq (SIf ?c ?t ?f) ?b) ?st] =>
      let H := fresh "Hev" in
      eassert (H : eval E c st = Ok _ st);
      [ solve [tac] | rewrite (gexec_seq_if E c t f b st _ _ H); clear H; cbn [truthy] ]
  | |- context [exec ?E (SIf ?c ?t ?f) ?st] =>
      let H := fresh "Hev" in
      eassert (H : eval E c st = Ok _ st);
      [ solve [tac] | rewrite (gexec_if E c t f st _ _ H); clear H; cbn [truthy] ]
  end.
Ltac pifstep := pifstep_t ltac:(pevn; reflexivity).

Ltac psetitem_t tac :=
  pseqnorm;
  match goal with
  | |- context [exec ?E (SSeq (SAssign [TSub (EName ?x) ?ke] ?e) ?b) ?st] =>
      let H1 := fresh "Hv" in let H2 := fresh "Hx" in let H3 := fresh "Hk" in let H4 := fresh "Hs" in
      eassert (H1 : eval E e st = Ok _ st); [ solve [tac] |];
      eassert (H2 : lookup x (vars st) = Some (enc_x _)); [ solve [look; reflexivity] |];
      eassert (H3 : eval E ke st = Ok _ st); [ solve [pev; reflexivity] |];
      match type of H1 with _ = Ok ?v _ =>
      match type of H2 with _ = Some (enc_x ?t) =>
      match type of H3 with _ = Ok ?kv _ =>
        eassert (H4 : E "$setitem" [enc_x t; kv; v] [] st = Ok _ st); [ solve [tac] |];
        rewrite (gexec_seq_setitem E x ke e b st v kv t _ H1 H2 H3 H4); clear H1 H2 H3 H4; push_state
      end end end
  | |- context [exec ?E (SAssign [TSub (EName ?x) ?ke] ?e) ?st] =>
      let H1 := fresh "Hv" in let H2 := fresh "Hx" in let H3 := fresh "Hk" in let H4 := fresh "Hs" in
      eassert (H1 : eval E e st = Ok _ st); [ solve [tac] |];
      eassert (H2 : lookup x (vars st) = Some (enc_x _)); [ solve [look; reflexivity] |];
      eassert (H3 : eval E ke st = Ok _ st); [ solve [pev; reflexivity] |];
      match type of H1 with _ = Ok ?v _ =>
      match type of H2 with _ = Some (enc_x ?t) =>
      match type of H3 with _ = Ok ?kv _ =>
        eassert (H4 : E "$setitem" [enc_x t; kv; v] [] st = Ok _ st); [ solve [tac] |];
        rewrite (gexec_setitem E x ke e st v kv t _ H1 H2 H3 H4); clear H1 H2 H3 H4; push_state
      end end end
  end.
Ltac psetitem := psetitem_t ltac:(pevn; reflexivity).

Ltac passertstep :=
  pseqnorm;
  match goal with
  | |- context [exec ?E (SSeq (SAssert ?e) ?b) ?st] =>
      let H := fresh "Hev" in
      eassert (H : eval E e st = Ok _ st); [ solve [pevn; reflexivity] | rewrite (gexec_seq_assert E e b st _ H eq_refl); clear H ]
  end.

Ltac passign3 :=
  pseqnorm;
  match goal with
  | |- context [exec ?E (SSeq (SAssign [TName ?x; TName ?y; TName ?z] ?e) ?b) ?st] =>
      let H := fresh "Hev" in
      eassert (H : eval E e st = Ok _ st);
      [ solve [pevn; reflexivity]
      | rewrite (gexec_seq_assign3 E x y z e b st _ _ H); clear H; push_state; push_state; push_state ]
  end.

(* for developing a run: open the evaluation goal of the next assignment *)
Ltac passign_open :=
  pseqnorm;
  match goal with
  | |- context [exec ?E (SSeq (SAssign [TName ?x] ?e) ?b) ?st] => eassert (Hdbg : eval E e st = Ok _ st)
  | |- context [exec ?E (SAssign [TName ?x] ?e) ?st] => eassert (Hdbg : eval E e st = Ok _ st)
  end.
