(* C10 - policy 'ali', part 4: one block of the model's output is the documented list of slices of that sequence;
   main theorem; uniqueness; valid-only; the refuted statements for the code as written. *)
From Coq Require Import List ZArith Bool Arith Lia Sorted.
From PV Require Import C10.Model C10.Spec C10.Lists C10.ProofsFixed C10.ProofsAliOps C10.ProofsAliRows C10.ProofsAli.
Import ListNotations.
Local Open Scope Z_scope.

Lemma flat_map_if : forall A B (c : A -> bool) (g : A -> B) l,
  flat_map (fun m => if c m then [g m] else []) l = map g (filter c l).
Proof. intros. induction l as [|a l IH]; [reflexivity|]. cbn. destruct (c a); cbn; now rewrite IH. Qed.

Lemma S_nth : forall T row L i, nth i (row_S T row L) 0 = seg_start (bnds T row L) (Z.of_nat i).
Proof. intros. unfold row_S, seg_start. rewrite Nat2Z.id. exact (map_nth Z.of_nat (bnds T row L) 0%nat i). Qed.

Lemma E_nth : forall T row L i, length row = T -> 0 <= L <= Z.of_nat T -> (i < length (bnds T row L))%nat ->
  nth i (row_E T row L) 0 = seg_end (firstn (Z.to_nat L) row) (bnds T row L) (Z.of_nat i).
Proof.
  intros T row L i Hrow HL Hi. unfold row_E, seg_end, zlen.
  destruct (bnds T row L) as [|b B']; [cbn in Hi; lia|]. cbn [ends_of length] in *.
  replace (Z.to_nat (Z.of_nat i + 1)) with (S i) by lia. cbn [nth].
  rewrite (nth_indep _ 0 (Z.of_nat 0)) by (rewrite map_length, app_length; cbn; lia).
  rewrite map_nth. destruct (Z.ltb_spec (Z.of_nat i + 1) (Z.of_nat (S (length B')))).
  - rewrite app_nth1 by lia. reflexivity.
  - rewrite app_nth2 by lia. replace (i - length B')%nat with 0%nat by lia. cbn [nth].
    rewrite firstn_length, Hrow. lia.
Qed.

Lemma block_out_spec : forall (sg : nat -> list (Z * Z)) n T row L wt vo lobe,
  length row = T -> 0 <= L <= Z.of_nat T -> 0 <= lobe ->
  sg n = combine (row_S T row L) (row_E T row L) ->
  block_out sg wt vo lobe n
  = flat_map (fun m => ali_slice (firstn (Z.to_nat L) row) (bnds T row L) wt vo lobe (Z.of_nat m))
             (seq 0 (length (bnds T row L))).
Proof.
  intros sg n T row L wt vo lobe Hrow HL Hl Hsg.
  set (B := bnds T row L). set (a := firstn (Z.to_nat L) row).
  assert (HM : length (sg n) = length B).
  { rewrite Hsg, combine_length, <- row_SE_length. unfold row_S. rewrite map_length. fold B. lia. }
  assert (Hs : forall i, sg_s sg n i = seg_start B (Z.of_nat i)).
  { intros i. unfold sg_s. rewrite Hsg, combine_nth by apply row_SE_length. cbn [fst]. apply S_nth. }
  assert (He : forall i, (i < length B)%nat -> sg_e sg n i = seg_end a B (Z.of_nat i)).
  { intros i Hi. unfold sg_e. rewrite Hsg, combine_nth by apply row_SE_length. cbn [snd]. now apply E_nth. }
  unfold block_out. rewrite HM. unfold ali_slice. destruct vo.
  - (* valid_only: slice m exists iff segments m - lobe and m + lobe (as applicable) exist *)
    rewrite (flat_map_if nat (Z * Z)
               (fun m => (0 <=? (if do_left wt then Z.of_nat m - lobe else Z.of_nat m))
                         && ((if do_right wt then Z.of_nat m + lobe else Z.of_nat m) <? zlen B))
               (fun m => (seg_start B (if do_left wt then Z.of_nat m - lobe else Z.of_nat m),
                          seg_end a B (if do_right wt then Z.of_nat m + lobe else Z.of_nat m)))).
    set (l := lobe_l wt lobe). set (r := lobe_r wt lobe).
    assert (Hfil : filter (fun m => (0 <=? (if do_left wt then Z.of_nat m - lobe else Z.of_nat m))
                                    && ((if do_right wt then Z.of_nat m + lobe else Z.of_nat m) <? zlen B))
                          (seq 0 (length B))
                   = seq l (length B - (l + r))).
    { apply sorted_lt_ext; [apply sorted_filter, sorted_seq|apply sorted_seq|].
      intros m. rewrite filter_In, !in_seq, andb_true_iff, Z.leb_le, Z.ltb_lt. unfold zlen.
      subst l r. unfold lobe_l, lobe_r. destruct wt; cbn [do_left do_right]; lia. }
    rewrite Hfil. replace (seq l (length B - (l + r))) with (seq (0 + l) (length B - (l + r))) by reflexivity.
    rewrite map_seq_shift. apply map_ext_in. intros i Hi. apply in_seq in Hi.
    rewrite Hs, He by lia. subst l r. unfold lobe_l, lobe_r.
    destruct wt; cbn [do_left do_right]; f_equal; f_equal; lia.
  - (* otherwise: clamp to the first / last segment of the sequence *)
    rewrite flat_map_singleton. apply map_ext_in. intros i Hi. apply in_seq in Hi.
    rewrite Hs, He by lia. unfold lobe_l, lobe_r, zlen.
    destruct wt; cbn [do_left do_right]; f_equal; f_equal; lia.
Qed.

(* ---- main theorem ---- *)
Definition inl_of (in_lens : option (list Z)) (n : nat) : option Z :=
  match in_lens with None => None | Some ls => Some (nth n ls 0) end.
Definition ali_rm (v : variant) (T : nat) (in_lens : option (list Z)) (n : nat) (row : list Z) :=
  ali_row_masks v T row (inl_of in_lens n).
Definition ali_sg (T : nat) (rows : list (list Z)) (in_lens : option (list Z)) (n : nat) : list (Z * Z) :=
  combine (row_S T (nth n rows []) (len_of (Z.of_nat T) in_lens n))
          (row_E T (nth n rows []) (len_of (Z.of_nat T) in_lens n)).

Lemma Lz_len_of : forall T in_lens n, Lz T (inl_of in_lens n) = len_of (Z.of_nat T) in_lens n.
Proof. intros T [ls|] n; reflexivity. Qed.

Lemma len_of_range : forall N T in_lens n, lens_ok N (Z.of_nat T) in_lens -> (n < N)%nat ->
  0 <= len_of (Z.of_nat T) in_lens n <= Z.of_nat T.
Proof.
  intros N T [ls|] n Hok Hn; cbn [len_of lens_ok] in *; [|lia].
  destruct Hok as [Hlen Hall]. rewrite Forall_forall in Hall. apply Hall, nth_In. lia.
Qed.

Theorem ali_windows_spec : forall v T rows in_lens wt vo lobe,
  d1 v = false -> d4 v = false -> (1 <= T)%nat -> 0 <= lobe ->
  Forall (fun r => length r = T) rows -> lens_ok (length rows) (Z.of_nat T) in_lens ->
  exists out, slice_ali v T rows in_lens wt vo lobe = Some out
              /\ ali_spec rows (len_of (Z.of_nat T) in_lens) wt vo lobe out.
Proof.
  intros v T rows in_lens wt vo lobe Hd1 Hd4 HT Hl Hrows Hok. unfold slice_ali.
  assert (Hchk : match in_lens with Some ls => negb (Nat.eqb (length ls) (length rows)) | None => false end = false).
  { destruct in_lens as [ls|]; [|reflexivity]. destruct Hok as [Hlen _]. now rewrite Hlen, Nat.eqb_refl. }
  rewrite Hchk, Hd4.
  assert (Hmasks : ali_masks v T rows in_lens = map (fun nr => ali_rm v T in_lens (fst nr) (snd nr)) (enum_from 0 rows))
    by reflexivity.
  rewrite Hmasks.
  assert (Hrow : forall n, (n < length rows)%nat ->
                           nonzero_from 0 (fst (ali_rm v T in_lens n (nth n rows [])))
                           = row_S T (nth n rows []) (len_of (Z.of_nat T) in_lens n)
                           /\ nonzero_from 0 (snd (ali_rm v T in_lens n (nth n rows [])))
                              = row_E T (nth n rows []) (len_of (Z.of_nat T) in_lens n)).
  { intros n Hn. unfold ali_rm. rewrite <- Lz_len_of. apply row_masks_SE; try assumption.
    rewrite Lz_len_of. now apply (len_of_range (length rows)). }
  assert (Hin : forall nr, In nr (enum_from 0 rows) -> (fst nr < length rows)%nat /\ snd nr = nth (fst nr) rows []).
  { intros nr Hnr. apply (In_nth _ _ (0%nat, [])) in Hnr as (i & Hi & Enr). rewrite enum_from_length in Hi.
    rewrite nth_enum_from in Enr by assumption. subst nr. cbn [fst snd Nat.add]. split; [assumption|reflexivity]. }
  assert (Hlen : forall nr, In nr (enum_from 0 rows) ->
                            length (nonzero_from 0 (fst (ali_rm v T in_lens (fst nr) (snd nr))))
                            = length (nonzero_from 0 (snd (ali_rm v T in_lens (fst nr) (snd nr))))).
  { intros nr Hnr. destruct (Hin nr Hnr) as [Hn En]. rewrite En. destruct (Hrow _ Hn) as [E1 E2].
    rewrite E1, E2. apply row_SE_length. }
  pose proof (nonzero2_blocks (ali_rm v T in_lens) rows 0 Hlen) as HB. cbn [Z.of_nat] in HB.
  destruct HB as (E1 & E2 & E3). rewrite E1, E2, E3.
  assert (Hwf : blocks_wf (blocks_of (ali_rm v T in_lens) 0 rows) (ali_sg T rows in_lens)).
  { intros n Hn. unfold blocks_of in *. rewrite map_length, enum_from_length in Hn.
    set (g := fun nr : nat * list Z => _).
    rewrite (nth_indep _ [] (g (0%nat, []))) by (rewrite map_length, enum_from_length; lia).
    rewrite map_nth, nth_enum_from by assumption. subst g. cbn [fst snd Nat.add].
    destruct (Hrow n Hn) as [F1 F2]. rewrite F1, F2. reflexivity. }
  rewrite (ali_lobes_blocks _ _ wt vo lobe Hwf Hl).
  eexists. split; [reflexivity|].
  unfold blocks_of. rewrite map_length, enum_from_length.
  exists (block_out (ali_sg T rows in_lens) wt vo lobe). split; [reflexivity|].
  intros n Hn. exists (bnds T (nth n rows []) (len_of (Z.of_nat T) in_lens n)).
  assert (Hr : length (nth n rows []) = T) by (rewrite Forall_forall in Hrows; apply Hrows, nth_In; assumption).
  pose proof (len_of_range (length rows) T in_lens n Hok Hn) as HL.
  split.
  - now apply bnds_seg_starts.
  - apply (block_out_spec _ n T); try assumption. reflexivity.
Qed.

(* ---- the spec determines its output ---- *)
Lemma seg_starts_unique : forall a B1 B2, seg_starts a B1 -> seg_starts a B2 -> B1 = B2.
Proof.
  intros a B1 B2 [S1 M1] [S2 M2]. apply sorted_lt_ext; try assumption. intros t. rewrite M1, M2. tauto.
Qed.

Theorem ali_spec_unique : forall rows len wt vo lobe o1 o2,
  ali_spec rows len wt vo lobe o1 -> ali_spec rows len wt vo lobe o2 -> o1 = o2.
Proof.
  intros rows len wt vo lobe o1 o2 (p1 & E1 & H1) (p2 & E2 & H2). subst.
  apply labelled_ext. intros n Hn.
  destruct (H1 n Hn) as (B1 & S1 & F1). destruct (H2 n Hn) as (B2 & S2 & F2).
  rewrite F1, F2, (seg_starts_unique _ _ _ S1 S2). reflexivity.
Qed.

(* ---- valid_only slices lie inside their sequence ---- *)
Lemma seg_bounds : forall a B, seg_starts a B -> forall m, (m < length B)%nat ->
  0 <= seg_start B (Z.of_nat m) /\ seg_end a B (Z.of_nat m) <= zlen a.
Proof.
  intros a B [HS HM] m Hm. unfold seg_start, seg_end, zlen. split; [lia|].
  destruct (Z.ltb_spec (Z.of_nat m + 1) (Z.of_nat (length B))); [|lia].
  assert (Hin : In (nth (Z.to_nat (Z.of_nat m + 1)) B 0%nat) B) by (apply nth_In; lia).
  apply HM in Hin. destruct Hin as [Hin _]. lia.
Qed.

Theorem ali_valid_inside : forall rows len wt lobe out, 0 <= lobe ->
  ali_spec rows len wt true lobe out ->
  forall w n, In (w, Z.of_nat n) out ->
              (n < length rows)%nat /\ inside (zlen (firstn (Z.to_nat (len n)) (nth n rows []))) w.
Proof.
  intros rows len wt lobe out Hl (per & E & H) w n Hin. subst out.
  apply in_labelled in Hin as [Hn Hin]. split; [assumption|].
  destruct (H n Hn) as (B & HB & Eo). rewrite Eo in Hin.
  apply in_flat_map in Hin as (m & Hm & Hin). apply in_seq in Hm. unfold ali_slice in Hin.
  set (lo := if do_left wt then Z.of_nat m - lobe else Z.of_nat m) in *.
  set (hi := if do_right wt then Z.of_nat m + lobe else Z.of_nat m) in *.
  destruct ((0 <=? lo) && (hi <? zlen B)) eqn:Ec; [|contradiction].
  destruct Hin as [Hin|[]]. subst w. apply andb_true_iff in Ec as [E1 E2].
  apply Z.leb_le in E1. apply Z.ltb_lt in E2. unfold zlen in E2.
  pose proof (seg_bounds _ B HB (Z.to_nat lo) ltac:(subst lo hi; destruct wt; cbn [do_left do_right] in *; lia)) as [P1 _].
  pose proof (seg_bounds _ B HB (Z.to_nat hi) ltac:(lia)) as [_ P2].
  rewrite Z2Nat.id in P1, P2 by (subst lo hi; destruct wt; cbn [do_left do_right] in *; lia).
  split; assumption.
Qed.

(* ---- the code as written (before the repairs) ---- *)
(* D1: the last segment's end is lost when a sequence has the full length T *)
Theorem ali_d1_refuted :
  slice_spect_data as_coded 4 (InAli [[1; 1; 2; 2]]) None None Symmetric true 0 = None
  /\ ali_spec [[1; 1; 2; 2]] (len_of 4 None) Symmetric true 0 [((0, 2), 0); ((2, 4), 0)].
Proof.
  split; [reflexivity|].
  destruct (ali_windows_spec repaired 4 [[1; 1; 2; 2]] None Symmetric true 0 eq_refl eq_refl ltac:(lia) ltac:(lia)) as (o & Ho & Hs).
  - repeat constructor.
  - exact I.
  - vm_compute in Ho. inversion Ho; subst o. exact Hs.
Qed.

(* D4: a lobe reaching beyond the number of segments raises instead of yielding no (valid) slice *)
Theorem ali_d4_refuted :
  slice_spect_data (mkV false false false false true false) 4 (InAli [[1; 2; 3; 0]]) (Some [3]) None Symmetric true 2 = None
  /\ ali_spec [[1; 2; 3; 0]] (len_of 4 (Some [3])) Symmetric true 2 [].
Proof.
  split; [reflexivity|].
  destruct (ali_windows_spec repaired 4 [[1; 2; 3; 0]] (Some [3]) Symmetric true 2 eq_refl eq_refl ltac:(lia) ltac:(lia)) as (o & Ho & Hs).
  - repeat constructor.
  - split; [reflexivity|]. repeat constructor; lia.
  - vm_compute in Ho. inversion Ho; subst o. exact Hs.
Qed.
