(* C06 — The n-gram lookup model computes Katz back-off on any table.
   Property theorems only: each is closed by [exact <lemma of Proofs.v>] and followed by
   [Print Assumptions].  The harness re-checks this file on every run.

   Reading guide.  [b] are the four flat buffers, [sh] the shape constants (vocab size, sos,
   order N, max_ngram_nodes, max_direct_descendants), [t] the n-gram table as the caller wrote
   it (any order, any sparsity), [tmap sh t] the same table with an out-of-vocabulary start
   symbol renamed to V (what _build_trie does first).  [trie_okb b sh (tmap sh t)] is a
   boolean the harness evaluates on the implementation's ACTUAL buffers for every generated
   table.  [katz] (Spec.v) is the back-off recursion evaluated directly on the table;
   [spec_at]/[spec_full] tabulate it for a batch of left-padded histories. *)
From Coq Require Import List ZArith Bool Arith.
From Coq Require Import Lia.
From PV Require Import C06.Model C06.Spec C06.Proofs C06.ProofsArpa.
From PV Require Import C06.BuildClosure C06.BuildTrie C06.BuildEnd C06.BuildTotal C06.BuildInfer.
Import ListNotations.
Local Open Scope Z_scope.

(* the validator is sound: buffers it accepts represent the table (TrieOK: every listed
   n-gram has a node carrying its two numbers, every other reachable node carries (-inf, 0)) *)
Theorem c06_validator_sound : forall b sh t, trie_okb b sh t = true -> TrieOK b sh t.
Proof. exact trie_okb_sound. Qed.
Print Assumptions c06_validator_sound.

(* "the lookup language model's next-token log-probabilities equal the back-off recursion
   evaluated directly on the table", for one batch element and one context window: the
   two-path descent on buffers that represent the table *)
Theorem c06_lookup_is_katz : forall b sh t w v hidx,
  TrieOK b sh t -> (length w = order sh - 1)%nat -> (1 <= length w)%nat ->
  0 <= last w 0 < nroots sh -> 0 <= v < vocab sh -> Z.of_nat (length w) <= hidx ->
  lookup1 b sh hidx w v = katz t w v.
Proof. exact lookup1_trie. Qed.
Print Assumptions c06_lookup_is_katz.

(* renaming the out-of-vocabulary start symbol does not change the recursion
   ("start symbol inside or outside the vocabulary") *)
Theorem c06_sos_renaming : forall sh t ctx v,
  tab_ok (vocab sh) (sos sh) t -> Forall (tok_ok (vocab sh) (sos sh)) ctx -> 0 <= v < vocab sh ->
  katz (tmap sh t) (mapwin sh ctx) v = katz t ctx v.
Proof. exact katz_tmap. Qed.
Print Assumptions c06_sos_renaming.

(* "one index at a time", on the whole batch, histories left-padded with the start symbol:
   calc_idx_log_probs with a scalar index i <= T *)
Theorem c06_one_index_is_katz : forall b sh t hist B i,
  trie_okb b sh (tmap sh t) = true -> tab_okb (vocab sh) (sos sh) t = true ->
  hist_ok sh hist B -> (i <= length hist)%nat ->
  lookup_batch b sh hist B (Scalar (Z.of_nat i)) =
  Some (spec_at t (order sh) (vocab sh) (sos sh) hist B (repeat i B)).
Proof. exact lookup_scalar_katz. Qed.
Print Assumptions c06_one_index_is_katz.

(* the same through __call__, including negative indices *)
Theorem c06_call_with_index_is_katz : forall b sh t hist B i,
  trie_okb b sh (tmap sh t) = true -> tab_okb (vocab sh) (sos sh) t = true ->
  hist_ok sh hist B -> - zlen hist - 1 <= i <= zlen hist ->
  forward b sh hist B (Some (Scalar i)) =
  Some (AtIdx (spec_at t (order sh) (vocab sh) (sos sh) hist B
                 (repeat (Z.to_nat ((i + zlen hist + 1) mod (zlen hist + 1))) B))).
Proof. exact forward_scalar_katz. Qed.
Print Assumptions c06_call_with_index_is_katz.

(* "whether all positions are computed at once, in chunks of any size": every chunk size
   gives the table of the recursion at all T+1 positions *)
Theorem c06_full_is_katz_any_chunk : forall b sh t hist B chunk,
  trie_okb b sh (tmap sh t) = true -> tab_okb (vocab sh) (sos sh) t = true ->
  hist_ok sh hist B -> (1 <= chunk)%nat ->
  chunked b sh hist B chunk = Some (spec_full t (order sh) (vocab sh) (sos sh) hist B).
Proof. exact chunked_katz. Qed.
Print Assumptions c06_full_is_katz_any_chunk.

Theorem c06_call_full_is_katz : forall b sh t hist B,
  trie_okb b sh (tmap sh t) = true -> tab_okb (vocab sh) (sos sh) t = true ->
  hist_ok sh hist B ->
  forward b sh hist B None = Some (Full (spec_full t (order sh) (vocab sh) (sos sh) hist B)).
Proof. exact forward_full_katz. Qed.
Print Assumptions c06_call_full_is_katz.

(* chunked = one index at a time, for ANY buffers of consistent lengths (no table needed):
   the strided all-positions evaluation is a pure re-indexing *)
Theorem c06_chunked_eq_pointwise : forall b sh hist B chunk,
  lens_ok b sh = true -> (1 <= order sh)%nat -> rect hist B -> (1 <= chunk)%nat ->
  chunked b sh hist B chunk =
  opt_all (map (fun i => lookup_batch b sh hist B (Scalar (Z.of_nat i))) (seq 0 (S (length hist)))).
Proof. exact chunked_pointwise. Qed.
Print Assumptions c06_chunked_eq_pointwise.

(* "with a different index per batch element": calc_idx_log_probs with a vector of indices
   (one per batch element, B >= 2; a one-element vector is squeezed to a scalar by __call__) *)
Theorem c06_per_element_index_is_katz : forall b sh t hist B l,
  trie_okb b sh (tmap sh t) = true -> tab_okb (vocab sh) (sos sh) t = true ->
  hist_ok sh hist B -> length l = B -> (2 <= B)%nat ->
  Forall (fun i => (i <= length hist)%nat) l ->
  lookup_batch b sh hist B (Vec (map Z.of_nat l)) =
  Some (spec_at t (order sh) (vocab sh) (sos sh) hist B l).
Proof. exact lookup_vec_katz. Qed.
Print Assumptions c06_per_element_index_is_katz.

Theorem c06_call_with_index_vector_is_katz : forall b sh t hist B zs,
  trie_okb b sh (tmap sh t) = true -> tab_okb (vocab sh) (sos sh) t = true ->
  hist_ok sh hist B -> length zs = B -> (2 <= B)%nat ->
  Forall (fun i => - zlen hist - 1 <= i <= zlen hist) zs ->
  forward b sh hist B (Some (Vec zs)) =
  Some (AtIdx (spec_at t (order sh) (vocab sh) (sos sh) hist B (map (wrap_idx (zlen hist)) zs))).
Proof. exact forward_vec_katz. Qed.
Print Assumptions c06_call_with_index_vector_is_katz.

(* per-element independence, for ANY buffers of consistent lengths: element bi of the result
   is a function of column bi and its own index only *)
Theorem c06_batch_elements_independent : forall b sh hist B l,
  lens_ok b sh = true -> (1 <= order sh)%nat -> length l = B -> (2 <= B)%nat ->
  Forall (fun i => (i <= length hist)%nat) l ->
  lookup_batch b sh hist B (Vec (map Z.of_nat l)) = Some (batch_rows b sh hist B l).
Proof. exact lookup_batch_vec. Qed.
Print Assumptions c06_batch_elements_independent.

(* "arbitrarily sparse ... (including missing lower-order suffixes)": the entries
   _build_trie adds for missing suffixes / unigrams are (-inf, 0) and do not change the
   recursion *)
Theorem c06_closure_entries_are_neutral : forall lo ks, exists extra,
  add_missing lo ks = lo ++ extra /\ Forall (fun e => snd e = (NInf, Fin 0)) extra.
Proof. exact add_missing_tfind. Qed.
Print Assumptions c06_closure_entries_are_neutral.

Theorem c06_closure_harmless : forall t extra ctx v,
  Forall (fun e => snd e = (NInf, Fin 0)) extra -> katz (t ++ extra) ctx v = katz t ctx v.
Proof. exact katz_add_neutral. Qed.
Print Assumptions c06_closure_harmless.

(* "after the model is saved and loaded into a freshly constructed instance": PARTIAL.
   Full statement wanted: for every table, infer_shape V s (bt_bufs (build_trie V s dicts))
   returns the constants build_trie computed.  Proved here: IF load_state_dict's inference
   returns the constants of the saved model (the harness checks exactly this premise on the
   implementation's actual buffers for every generated table), the reloaded model is the saved
   one, hence computes the same numbers for every query.  Missing: the proof that
   _build_trie's layout always satisfies the premise. *)
Theorem c06_reload_same_partial : forall b sh hist B ix,
  infer_shape (vocab sh) (sos sh) b = Some (order sh, gnodes sh, Z.of_nat (maxdesc sh)) ->
  forall N G S_, infer_shape (vocab sh) (sos sh) b = Some (N, G, S_) ->
  forward b (mkShape (vocab sh) (sos sh) N G (Z.to_nat S_)) hist B ix = forward b sh hist B ix.
Proof. exact reload_same. Qed.
Print Assumptions c06_reload_same_partial.

(* "Reading an ARPA file yields exactly its listed entries": any sequence of lines whose
   non-blank lines are  <anything without \data\>, \data\, the counts, the sections in
   increasing order, \end\, <anything>  parses to exactly the listed entries (back-off weight 0
   when omitted, none stored for the highest order), whatever words happen to look like
   numbers.  Base 10 is the identity on the listed numbers; the base-e conversion is one IEEE
   division per number and is checked by the harness (Coq does not model floats). *)
Theorem c06_arpa_listed_entries : forall wf pre post secs ls,
  filter nonblank ls = arpa_lines wf pre post secs ->
  Forall (fun l => l <> LData) pre ->
  (forall n, (1 <= n <= length secs)%nat -> section_ok (length secs) n (nth_sec secs n)) ->
  parse_arpa ls = Some (arpa_dicts secs).
Proof. exact parse_wellformed. Qed.
Print Assumptions c06_arpa_listed_entries.

(* ---------- _build_trie meets the layout invariant, for ALL tables ---------------------------------- *)

(* [wf_dicts V s dicts] (BuildTrie.v) is the boolean reading of what the Python constructor
   requires of prob_dicts (it raises ValueError otherwise): vocab_size >= 1, at least one
   dictionary, the highest-order one not empty, every key of the i-th dictionary a sequence of i
   tokens each in range(vocab_size) or equal to sos -- plus "no key listed twice", which a Python
   dict guarantees by construction.  Nothing is assumed about sparsity (lower-order suffixes may be
   missing, lower dictionaries may be empty), about sos (inside or outside the vocabulary) or about
   the values (any Fin k / NInf / NaN).  [table_of dicts] = all the caller's entries;
   [built_shape V s bt] = the constants (N, G, max_direct_descendants) the model returns.

   "the buffers returned by build_trie represent the caller's table": every listed n-gram has a node
   carrying its two numbers, every other node the descent can reach (the suffixes / unigrams the
   builder adds) carries (-inf, 0).  This replaces the per-table run of the validator as the
   justification of the premise of the lookup theorems above. *)
Theorem c06_build_trie_ok : forall V s dicts bt,
  wf_dicts V s dicts = true -> build_trie V s dicts = Some bt ->
  TrieOK (bt_bufs bt) (built_shape V s bt) (tmap (built_shape V s bt) (table_of dicts)).
Proof. exact build_trie_ok. Qed.
Print Assumptions c06_build_trie_ok.

(* the constructor succeeds on every well-formed table (in particular the assertions of
   _infer_max_direct_descendants hold: a node has at most V + shift children), so the theorems below
   are not vacuous for any of them *)
Theorem c06_build_trie_total : forall V s dicts,
  wf_dicts V s dicts = true -> exists bt, build_trie V s dicts = Some bt.
Proof. exact build_trie_total. Qed.
Print Assumptions c06_build_trie_total.

(* conversely the inputs it rejects: no dictionary, an empty highest-order dictionary, a key of the
   wrong length or with a token outside range(vocab_size) + {sos} *)
Theorem c06_build_trie_requires : forall V s dicts bt, build_trie V s dicts = Some bt ->
  dicts <> [] /\ last dicts [] <> [] /\
  forallb (fun p => keys_okb V s (fst p) (snd p)) (combine (seq 1 (length dicts)) dicts) = true.
Proof. exact build_trie_some_requires. Qed.
Print Assumptions c06_build_trie_requires.

(* end to end, one batch element and one window of N-1 tokens (vocabulary ids or sos): build, rename
   the window as the lookup does, descend = the recursion on the caller's table *)
Theorem c06_build_then_lookup_is_katz : forall V s dicts bt,
  wf_dicts V s dicts = true -> build_trie V s dicts = Some bt -> forall w v hidx,
  (length w = length dicts - 1)%nat -> (1 <= length w)%nat ->
  Forall (tok_ok V s) w -> 0 <= v < V -> Z.of_nat (length w) <= hidx ->
  lookup1 (bt_bufs bt) (built_shape V s bt) hidx (mapwin (built_shape V s bt) w) v =
  katz (table_of dicts) w v.
Proof. exact build_then_lookup. Qed.
Print Assumptions c06_build_then_lookup_is_katz.

(* the same for the batch entry points: one index, per-element indices, all positions in chunks of
   any size, __call__ without and with an index (negative ones included) *)
Theorem c06_build_then_one_index_is_katz : forall V s dicts bt,
  wf_dicts V s dicts = true -> build_trie V s dicts = Some bt -> forall hist B i,
  hist_ok (built_shape V s bt) hist B -> (i <= length hist)%nat ->
  lookup_batch (bt_bufs bt) (built_shape V s bt) hist B (Scalar (Z.of_nat i)) =
  Some (spec_at (table_of dicts) (length dicts) V s hist B (repeat i B)).
Proof. exact build_then_index. Qed.
Print Assumptions c06_build_then_one_index_is_katz.

Theorem c06_build_then_per_element_index_is_katz : forall V s dicts bt,
  wf_dicts V s dicts = true -> build_trie V s dicts = Some bt -> forall hist B l,
  hist_ok (built_shape V s bt) hist B -> length l = B -> (2 <= B)%nat ->
  Forall (fun i => (i <= length hist)%nat) l ->
  lookup_batch (bt_bufs bt) (built_shape V s bt) hist B (Vec (map Z.of_nat l)) =
  Some (spec_at (table_of dicts) (length dicts) V s hist B l).
Proof. exact build_then_index_vector. Qed.
Print Assumptions c06_build_then_per_element_index_is_katz.

Theorem c06_build_then_full_is_katz_any_chunk : forall V s dicts bt,
  wf_dicts V s dicts = true -> build_trie V s dicts = Some bt -> forall hist B chunk,
  hist_ok (built_shape V s bt) hist B -> (1 <= chunk)%nat ->
  chunked (bt_bufs bt) (built_shape V s bt) hist B chunk =
  Some (spec_full (table_of dicts) (length dicts) V s hist B).
Proof. exact build_then_chunked. Qed.
Print Assumptions c06_build_then_full_is_katz_any_chunk.

Theorem c06_build_then_call_full_is_katz : forall V s dicts bt,
  wf_dicts V s dicts = true -> build_trie V s dicts = Some bt -> forall hist B,
  hist_ok (built_shape V s bt) hist B ->
  forward (bt_bufs bt) (built_shape V s bt) hist B None =
  Some (Full (spec_full (table_of dicts) (length dicts) V s hist B)).
Proof. exact build_then_forward_full. Qed.
Print Assumptions c06_build_then_call_full_is_katz.

Theorem c06_build_then_call_with_index_is_katz : forall V s dicts bt,
  wf_dicts V s dicts = true -> build_trie V s dicts = Some bt -> forall hist B i,
  hist_ok (built_shape V s bt) hist B -> - zlen hist - 1 <= i <= zlen hist ->
  forward (bt_bufs bt) (built_shape V s bt) hist B (Some (Scalar i)) =
  Some (AtIdx (spec_at (table_of dicts) (length dicts) V s hist B
                 (repeat (Z.to_nat ((i + zlen hist + 1) mod (zlen hist + 1))) B))).
Proof. exact build_then_forward_index. Qed.
Print Assumptions c06_build_then_call_with_index_is_katz.

(* "after the model is saved and loaded into a freshly constructed instance": FULL.  For every
   well-formed table, load_state_dict's inference on the buffers build_trie returns yields exactly the
   constants build_trie computed (N, max_ngram_nodes, max_direct_descendants) ... *)
Theorem c06_infer_shape_roundtrip : forall V s dicts bt,
  wf_dicts V s dicts = true -> build_trie V s dicts = Some bt ->
  infer_shape V s (bt_bufs bt) = Some (bt_order bt, bt_gnodes bt, bt_maxdesc bt).
Proof. exact infer_shape_roundtrip. Qed.
Print Assumptions c06_infer_shape_roundtrip.

(* ... hence the premise of c06_reload_same_partial always holds for built models: the reloaded
   instance exists and computes the same outputs as the saved one for every query *)
Theorem c06_reload_same : forall V s dicts bt,
  wf_dicts V s dicts = true -> build_trie V s dicts = Some bt ->
  (exists N G S_, infer_shape V s (bt_bufs bt) = Some (N, G, S_)) /\
  forall N G S_, infer_shape V s (bt_bufs bt) = Some (N, G, S_) ->
  forall hist B ix,
    forward (bt_bufs bt) (mkShape V s N G (Z.to_nat S_)) hist B ix =
    forward (bt_bufs bt) (built_shape V s bt) hist B ix.
Proof. exact reload_same_full. Qed.
Print Assumptions c06_reload_same.

(* every offset _build_trie writes fits the integer type it allocates beforehand from
   max_potential_offset = max_n (len(prob_dicts[n]) + len(prob_dicts[n-1])) over the closed
   dictionaries -- the bound of the repaired code (finding F33: the original bound was one smaller
   and the uint8 / int16 buffer wrapped when it was hit exactly).  [closed V s top lower] is the
   closed, completed, renamed list of dictionaries (lowest order first) that the model computes. *)
Theorem c06_build_offsets_fit : forall V s dicts bt top lower,
  wf_dicts V s dicts = true -> build_trie V s dicts = Some bt -> rev dicts = top :: lower ->
  Forall (fun o => 1 <= o <= max_potential_offset (closed V s top lower)) (offsets (bt_bufs bt)).
Proof. exact build_offsets_fit. Qed.
Print Assumptions c06_build_offsets_fit.

(* ---------- non-vacuity ---------------------------------------------------------------------------- *)

(* an order-3 table with missing suffixes and an out-of-vocabulary start symbol, and the
   buffers the implementation builds for it (ex_tab, ex_sh, ex_bufs: end of Spec.v), meet the
   hypotheses of the theorems above *)
Example c06_nonvacuous :
  trie_okb ex_bufs ex_sh (tmap ex_sh ex_tab) = true /\
  tab_okb 3 5 ex_tab = true /\
  hist_ok ex_sh [[0; 1]; [1; 2]; [1; 0]] 2 /\
  forward ex_bufs ex_sh [[0; 1]; [1; 2]; [1; 0]] 2 (Some (Vec [1; 3])) =
    Some (AtIdx [[Fin (-12); Fin (-4); NInf]; [Fin (-12); Fin (-2); NInf]]) /\
  option_map bt_bufs (build_trie 3 5
     [[([0], (Fin (-8), Fin (-4))); ([1], (Fin (-16), Fin (-2)))];
      [([0; 1], (Fin (-4), Fin (-1))); ([1; 1], (Fin (-6), Fin 0))];
      [([2; 0; 1], (Fin (-2), Fin 0)); ([0; 1; 1], (Fin (-12), Fin 0)); ([1; 2; 0], (Fin (-24), Fin 0))]])
    = Some ex_bufs /\
  infer_shape 3 5 ex_bufs = Some (3%nat, 3, 2).
Proof.
  split; [vm_compute; reflexivity|]. split; [vm_compute; reflexivity|].
  split; [|split; [vm_compute; reflexivity|split; vm_compute; reflexivity]].
  split.
  - repeat (apply Forall_cons; [reflexivity|]). apply Forall_nil.
  - repeat (first [apply Forall_nil | apply Forall_cons]); unfold tok_ok; cbn; lia.
Qed.

Example c06_arpa_nonvacuous :
  let secs := [[mkEntry (-8) [0] (Some (None, -4)); mkEntry (-16) [1] None];
               [mkEntry (-4) [0; 1] None; mkEntry (-6) [1; 1] None]] in
  let ls := [LOther; LBlank; LData; LCount 1 2; LCount 2 2; LBlank; LHeader 1;
             LEntry (-8) [Field (Some 0) None; Field None (Some (-4))];
             LEntry (-16) [Field (Some 1) (Some 8)]; LBlank; LHeader 2;
             LEntry (-4) [Field (Some 0) None; Field (Some 1) (Some 8)];
             LEntry (-6) [Field (Some 1) (Some 8); Field (Some 1) (Some 8)]; LBlank; LEnd] in
  filter nonblank ls = arpa_lines (fun x => if x =? 1 then Some 8 else None) [LOther] [] secs /\
  (forall n, (1 <= n <= 2)%nat -> section_ok 2 n (nth_sec secs n)) /\
  parse_arpa ls = Some [[([0], (Fin (-8), Fin (-4))); ([1], (Fin (-16), Fin 0))];
                        [([0; 1], (Fin (-4), Fin 0)); ([1; 1], (Fin (-6), Fin 0))]].
Proof.
  cbv zeta. split; [reflexivity|]. split; [|vm_compute; reflexivity].
  intros n Hn. assert (n = 1 \/ n = 2)%nat as [->| ->] by lia; unfold section_ok, nth_sec; cbn.
  - split; [repeat constructor; intros; lia|]. repeat constructor; cbn; intuition discriminate.
  - split; [repeat constructor; intros; reflexivity|]. repeat constructor; cbn; intuition discriminate.
Qed.

(* the order-3 table of c06_nonvacuous (missing suffixes, empty-able lower orders, sos out of
   vocabulary) and an order-2 table whose unigram dictionary is EMPTY are well-formed, and
   build_trie succeeds on them *)
Example c06_build_nonvacuous :
  wf_dicts 3 5
     [[([0], (Fin (-8), Fin (-4))); ([1], (Fin (-16), Fin (-2)))];
      [([0; 1], (Fin (-4), Fin (-1))); ([1; 1], (Fin (-6), Fin 0))];
      [([2; 0; 1], (Fin (-2), Fin 0)); ([0; 1; 1], (Fin (-12), Fin 0)); ([1; 2; 0], (Fin (-24), Fin 0))]] = true /\
  wf_dicts 2 0 [[]; [([1; 0], (NInf, Fin 0)); ([0; 0], (Fin (-3), NaN))]] = true /\
  option_map bt_order (build_trie 2 0 [[]; [([1; 0], (NInf, Fin 0)); ([0; 0], (Fin (-3), NaN))]]) = Some 2%nat.
Proof. split; [vm_compute; reflexivity|]. split; vm_compute; reflexivity. Qed.

(* the bound of c06_build_offsets_fit is attained: the table of finding F33 (254 unigrams, two
   bigrams under the first unigram) has max_potential_offset = 256 = its largest offset *)
Example c06_offsets_bound_tight_nonvacuous :
  let dicts := [[([0], (Fin (-8), Fin (-4)))]; [([0; 0], (Fin (-2), Fin 0)); ([1; 0], (Fin (-2), Fin 0))]] in
  wf_dicts 254 0 dicts = true /\
  max_potential_offset (closed 254 0 [([0; 0], (Fin (-2), Fin 0)); ([1; 0], (Fin (-2), Fin 0))]
                               [[([0], (Fin (-8), Fin (-4)))]]) = 256 /\
  option_map (fun bt => zmax_list (offsets (bt_bufs bt)) 0) (build_trie 254 0 dicts) = Some 256.
Proof. cbv zeta. split; [vm_compute; reflexivity|]. split; vm_compute; reflexivity. Qed.

(* ---------- source tie: the Python text of _lookup_calc_idx_log_probs / calc_idx_log_probs ----------------- *)

(* PV.Gen.C06Src.lookup_body / calc_idx_body are the MiniPy terms harness/py2coq regenerates from
   /repo/src/pydrobert/torch/_lm.py on every run (whole bodies of `_lookup_calc_idx_log_probs` and
   `LookupLanguageModel.calc_idx_log_probs`); SrcRun.ext06_ops gives the torch calls the meaning of
   PV.MiniTorch.OpsC06 (tensors = shape + row-major cells: unbounded ints, bools, exact rationals / -inf /
   nan); SrcRun.ext06 adds the call of the other translated function.  `self` is a MiniPy dict of tensor
   values and ints (SrcRun.method_vars).  TorchScript (`@script`) is not modelled: eager CPython text. *)
From PV Require MiniPy.Syntax MiniPy.Interp MiniTorch.OpsC06 Gen.C06Src.
From PV Require C06.SrcRun C06.TieRun C06.TieRunMain C06.TieSafe C06.TieSafeProofs C06.TieSrc C06.Tie.

(* (1) interpreted source = tensor program, for EVERY tensor argument (any shape, any data) and all
   integers: whenever the straight-line-plus-fold composition TieRun.lookup_fn of OpsC06 operations yields a
   tensor, interpreting the translated body on those arguments returns exactly that tensor.  The loop
   `for n in range(1, N)` is handled by an invariant over MiniPy.Lemmas.for_loop (TieRun.loop_run). *)
Theorem c06_source_lookup_is_tensor_program : forall hist hidx offs idt lps lbs s V N G S out,
  TieRun.lookup_fn hist hidx offs idt lps lbs s V N G S = Some out ->
  exists st, Interp.run SrcRun.ext06_ops C06Src.lookup_body (SrcRun.vars06 hist hidx offs idt lps lbs s V N G S)
             = Interp.Ok (SrcRun.enc6 out) st.
Proof. exact TieRunMain.lookup_run. Qed.
Print Assumptions c06_source_lookup_is_tensor_program.

(* (2) the in-range validator: on buffers it accepts, every index the two-path descent of one (window,
   candidate) forms lies inside offsets / ids / logps / logbs (TieSrc.lookup1_safe), for every window of N-1
   tokens whose newest token is a root and every candidate in the vocabulary.  The harness evaluates
   safe_okb on the implementation's ACTUAL buffers of every table whose queries it runs through the
   interpreted source.  (TrieOK alone does not imply it: TrieOK is stated through the model's own reads.) *)
Theorem c06_source_safe_sound : forall b sh, TieSafe.safe_okb b sh = true ->
  lens_ok b sh = true /\ (1 <= order sh)%nat /\ nroots sh <= zlen (logps b) /\
  Z.of_nat (maxdesc sh) <= vocab sh + 1 /\
  forall hidx w v, (2 <= order sh)%nat -> length w = (order sh - 1)%nat ->
    0 <= last w 0 < nroots sh -> 0 <= v < vocab sh -> TieSrc.lookup1_safe b sh hidx w v.
Proof. exact TieSafeProofs.safe_okb_sound. Qed.
Print Assumptions c06_source_safe_sound.

(* (3) interpreted source = model, scalar index (what __call__ passes for an int / 0-dim / 1-element idx and
   what calc_full_log_probs passes for every position): for ALL buffers the validator accepts, all
   histories of vocabulary ids / sos, every B, every index i <= T (left-padding with sos when i < N - 1, the
   N = 1 bypass included), interpreting the function returns the (B, V) tensor of exactly the rows
   Model.lookup_batch computes (= batch_rows: per batch element the two-path descent lookup1) *)
Theorem c06_source_lookup_is_model : forall b sh hist B i,
  TieSafe.safe_okb b sh = true -> 1 <= vocab sh -> hist_ok sh hist B -> (i <= length hist)%nat ->
  lookup_batch b sh hist B (Scalar (Z.of_nat i)) = Some (batch_rows b sh hist B (repeat i B)) /\
  exists st, Interp.run SrcRun.ext06_ops C06Src.lookup_body (SrcRun.lookup_vars b sh hist B (Scalar (Z.of_nat i)))
             = Interp.Ok (SrcRun.enc6 (SrcRun.rows_tensor B (Z.to_nat (vocab sh)) (batch_rows b sh hist B (repeat i B)))) st.
Proof. exact Tie.source_lookup_scalar_is_model. Qed.
Print Assumptions c06_source_lookup_is_model.

(* the method LookupLanguageModel.calc_idx_log_probs(self, hist, prev, idx): reads the four buffers and five
   constants off `self`, calls the function, returns (that tensor, prev) *)
Theorem c06_source_method_is_model : forall b sh hist B i,
  TieSafe.safe_okb b sh = true -> 1 <= vocab sh -> hist_ok sh hist B -> (i <= length hist)%nat ->
  exists st, Interp.run SrcRun.ext06 C06Src.calc_idx_body (SrcRun.method_vars b sh hist B (Scalar (Z.of_nat i)))
             = Interp.Ok (Syntax.VTuple
                            [SrcRun.enc6 (SrcRun.rows_tensor B (Z.to_nat (vocab sh)) (batch_rows b sh hist B (repeat i B)));
                             Syntax.VDict []]) st.
Proof. exact Tie.source_method_scalar_is_model. Qed.
Print Assumptions c06_source_method_is_model.

(* the executable the harness runs (SrcRun.src_lookup_batch: interpret, decode the returned tensor) refines
   the model, and the harness-side check is the model's check for EVERY scalar index, invalid ones included *)
Theorem c06_source_lookup_refines_model : forall b sh hist B i,
  TieSafe.safe_okb b sh = true -> 1 <= vocab sh -> hist_ok sh hist B -> (i <= length hist)%nat ->
  SrcRun.src_lookup_batch b sh hist B (Scalar (Z.of_nat i)) = Some (lookup_batch b sh hist B (Scalar (Z.of_nat i))).
Proof. exact Tie.source_scalar_refines_model. Qed.
Print Assumptions c06_source_lookup_refines_model.

Theorem c06_source_lookup_check_is_check : forall b sh hist B z impl,
  TieSafe.safe_okb b sh = true -> 1 <= vocab sh -> hist_ok sh hist B ->
  SrcRun.src_lookup_check b sh hist B (Scalar z) impl = out_eqb (forward b sh hist B (Some (Scalar z))) impl.
Proof. exact Tie.source_scalar_check_is_check. Qed.
Print Assumptions c06_source_lookup_check_is_check.

(* (4) COMPOSED with c06_one_index_is_katz, purely about the interpreted source: on buffers that pass both
   validators (the table's and the in-range one), calc_idx_log_probs as interpreted returns, for every
   batch of histories and every index, the tensor of the Katz back-off values of the table on the
   sos-padded histories *)
Theorem c06_source_lookup_is_katz : forall b sh t hist B i,
  trie_okb b sh (tmap sh t) = true -> tab_okb (vocab sh) (sos sh) t = true ->
  TieSafe.safe_okb b sh = true -> 1 <= vocab sh -> hist_ok sh hist B -> (i <= length hist)%nat ->
  exists st, Interp.run SrcRun.ext06 C06Src.calc_idx_body (SrcRun.method_vars b sh hist B (Scalar (Z.of_nat i)))
             = Interp.Ok (Syntax.VTuple
                            [SrcRun.enc6 (SrcRun.rows_tensor B (Z.to_nat (vocab sh))
                                            (spec_at t (order sh) (vocab sh) (sos sh) hist B (repeat i B)));
                             Syntax.VDict []]) st.
Proof. exact Tie.source_scalar_is_katz. Qed.
Print Assumptions c06_source_lookup_is_katz.

(* ... and with c06_build_trie_ok / c06_build_then_one_index_is_katz: for EVERY well-formed table, on the
   buffers the model of _build_trie returns, the interpreted source returns the Katz back-off values of the
   caller's table.  PARTIAL in one respect: that the built buffers pass the in-range validator is a premise
   here (checked per run on the implementation's actual buffers), not yet derived from build_trie. *)
Theorem c06_source_built_lookup_is_katz_partial : forall V s dicts bt hist B i,
  wf_dicts V s dicts = true -> build_trie V s dicts = Some bt ->
  TieSafe.safe_okb (bt_bufs bt) (built_shape V s bt) = true ->
  hist_ok (built_shape V s bt) hist B -> (i <= length hist)%nat ->
  exists st, Interp.run SrcRun.ext06 C06Src.calc_idx_body
               (SrcRun.method_vars (bt_bufs bt) (built_shape V s bt) hist B (Scalar (Z.of_nat i)))
             = Interp.Ok (Syntax.VTuple
                            [SrcRun.enc6 (SrcRun.rows_tensor B (Z.to_nat V)
                                            (spec_at (table_of dicts) (length dicts) V s hist B (repeat i B)));
                             Syntax.VDict []]) st.
Proof. exact Tie.source_built_scalar_is_katz. Qed.
Print Assumptions c06_source_built_lookup_is_katz_partial.

(* the example buffers of c06_nonvacuous pass the in-range validator, and the interpreted source answers a
   scalar and a per-element index query on them as the model does *)
Example c06_source_nonvacuous :
  TieSafe.safe_okb ex_bufs ex_sh = true /\
  SrcRun.src_lookup_check ex_bufs ex_sh [[0; 1]; [1; 2]; [1; 0]] 2 (Scalar 2)
    (Some (AtIdx [[Fin (-11); Fin (-12); NInf]; [Fin (-24); Fin (-16); NInf]])) = true /\
  SrcRun.src_lookup_check ex_bufs ex_sh [[0; 1]; [1; 2]; [1; 0]] 2 (Vec [1; 3])
    (Some (AtIdx [[Fin (-12); Fin (-4); NInf]; [Fin (-12); Fin (-2); NInf]])) = true.
Proof. split; [vm_compute; reflexivity|]. split; vm_compute; reflexivity. Qed.

(* ---------- second source tie: the vector-index path, calc_full_log_probs_chunked, calc_full_log_probs ---------- *)

(* PV.Gen.C06BSrc.chunked_body / full_body are the MiniPy terms harness/py2coq regenerates from
   /repo/src/pydrobert/torch/_lm.py on every run (WHOLE bodies of `LookupLanguageModel.calc_full_log_probs_chunked`
   and `calc_full_log_probs`); SrcRunB.ext06B = the first tie's SrcRun.ext06_ops + the calls only the all-positions
   code makes (PV.MiniTorch.OpsC06B: contiguous / storage_offset / as_strided on the row-major content, torch.empty
   of no element, torch.tensor of an int, iteration over a 1-D tensor, a 0-dim tensor as a slice bound; Python's
   three-argument range) + `self.calc_idx_log_probs`, which INTERPRETS the first tie's translated method.
   Hypotheses are those of the first tie: the in-range validator TieSafe.safe_okb on the buffers (evaluated on the
   implementation's actual buffers on every run), V >= 1, a rectangular history of vocabulary ids / sos.
   (Several statements are bundled per theorem: each Print Assumptions re-traverses the whole tie, ~5 s.) *)
From PV Require MiniTorch.OpsC06B Gen.C06BSrc C06.SrcRunB C06.TieBVec C06.TieBRun C06.TieB.

(* (5) VECTOR INDEX (idx a tensor with one index per batch element, B >= 2; the `masked_select(mask).view(B, N-1).T`
   window selection): for all buffers the validator accepts, all histories, all index vectors l with every entry
   <= T: (a) interpreting `_lookup_calc_idx_log_probs` returns the (B, V) tensor of exactly the rows
   Model.lookup_batch computes (left-padding with sos when the smallest index is < N - 1, the N = 1 bypass
   included); (b) so does the method calc_idx_log_probs, `prev` untouched; (c) the executable the harness runs
   (SrcRun.src_lookup_batch) refines the model.  TieB.vector_is_model_stmt is the conjunction of the three. *)
Theorem c06_source_vector_lookup_is_model : forall b sh hist B l,
  TieSafe.safe_okb b sh = true -> 1 <= vocab sh -> hist_ok sh hist B ->
  length l = B -> (2 <= B)%nat -> Forall (fun i => (i <= length hist)%nat) l ->
  (lookup_batch b sh hist B (Vec (map Z.of_nat l)) = Some (batch_rows b sh hist B l) /\
   exists st, Interp.run SrcRun.ext06_ops C06Src.lookup_body (SrcRun.lookup_vars b sh hist B (Vec (map Z.of_nat l)))
              = Interp.Ok (SrcRun.enc6 (SrcRun.rows_tensor B (Z.to_nat (vocab sh)) (batch_rows b sh hist B l))) st) /\
  (exists st, Interp.run SrcRun.ext06 C06Src.calc_idx_body (SrcRun.method_vars b sh hist B (Vec (map Z.of_nat l)))
              = Interp.Ok (Syntax.VTuple
                             [SrcRun.enc6 (SrcRun.rows_tensor B (Z.to_nat (vocab sh)) (batch_rows b sh hist B l));
                              Syntax.VDict []]) st) /\
  SrcRun.src_lookup_batch b sh hist B (Vec (map Z.of_nat l)) = Some (lookup_batch b sh hist B (Vec (map Z.of_nat l))).
Proof. exact TieB.source_vector_is_model. Qed.
Print Assumptions c06_source_vector_lookup_is_model.

(* COMPOSED with c06_per_element_index_is_katz, purely about the interpreted source: with a different index per
   batch element the interpreted method returns the Katz back-off values of the table, element bi at its own
   position l[bi], on the sos-padded history of that element *)
Theorem c06_source_vector_lookup_is_katz : forall b sh t hist B l,
  trie_okb b sh (tmap sh t) = true -> tab_okb (vocab sh) (sos sh) t = true ->
  TieSafe.safe_okb b sh = true -> 1 <= vocab sh -> hist_ok sh hist B ->
  length l = B -> (2 <= B)%nat -> Forall (fun i => (i <= length hist)%nat) l ->
  exists st, Interp.run SrcRun.ext06 C06Src.calc_idx_body (SrcRun.method_vars b sh hist B (Vec (map Z.of_nat l)))
             = Interp.Ok (Syntax.VTuple
                            [SrcRun.enc6 (SrcRun.rows_tensor B (Z.to_nat (vocab sh))
                                            (spec_at t (order sh) (vocab sh) (sos sh) hist B l));
                             Syntax.VDict []]) st.
Proof. exact TieB.source_vec_is_katz. Qed.
Print Assumptions c06_source_vector_lookup_is_katz.

(* (6) ALL POSITIONS: for all buffers the validator accepts, all histories (T = 0 included): (a) for every chunk
   size >= 1, interpreting the whole body of `calc_full_log_probs_chunked` - the preamble, one interpreted
   `calc_idx_log_probs(hist[:idx_], prev, idx_)` per position below min(T, N-1), one per chunk on the `as_strided`
   windows, `view(T_rest, B, V)`, `torch.cat`, the assertion - returns the (T+1, B, V) tensor of exactly the
   matrices Model.chunked computes (= all_rows: per position the rows of the scalar-index lookup); (b)
   `calc_full_log_probs` (what __call__ runs without an index; chunk size 1) returns the same tensor = Model.forward *)
Theorem c06_source_chunked_is_model : forall b sh hist B,
  TieSafe.safe_okb b sh = true -> 1 <= vocab sh -> hist_ok sh hist B ->
  let mats := map (all_rows b sh hist B) (seq 0 (S (length hist))) in
  let res := SrcRun.enc6 (SrcRunB.mats_tensor (length hist + 1) B (Z.to_nat (vocab sh)) mats) in
  (forall chunk, (1 <= chunk)%nat ->
     chunked b sh hist B chunk = Some mats /\
     exists st, Interp.run SrcRunB.ext06B C06BSrc.chunked_body (SrcRunB.chunked_vars b sh hist B (Z.of_nat chunk))
                = Interp.Ok res st) /\
  (forward b sh hist B None = Some (Full mats) /\
   exists st, Interp.run SrcRunB.ext06B_full C06BSrc.full_body (SrcRunB.full_vars b sh hist B) = Interp.Ok res st).
Proof. exact TieB.source_chunked_and_full_is_model. Qed.
Print Assumptions c06_source_chunked_is_model.

(* chunk-size independence, purely about the interpreted source: any two chunk sizes >= 1 return the same value;
   a chunk size below 1 (any integer, ANY buffers, any history) raises RuntimeError, as Model.chunked's None *)
Theorem c06_source_chunk_size_independent : forall b sh hist B,
  (TieSafe.safe_okb b sh = true -> 1 <= vocab sh -> hist_ok sh hist B ->
   forall c1 c2, (1 <= c1)%nat -> (1 <= c2)%nat ->
   exists v st1 st2,
     Interp.run SrcRunB.ext06B C06BSrc.chunked_body (SrcRunB.chunked_vars b sh hist B (Z.of_nat c1)) = Interp.Ok v st1 /\
     Interp.run SrcRunB.ext06B C06BSrc.chunked_body (SrcRunB.chunked_vars b sh hist B (Z.of_nat c2)) = Interp.Ok v st2) /\
  (forall z, z < 1 ->
   exists st, Interp.run SrcRunB.ext06B C06BSrc.chunked_body (SrcRunB.chunked_vars b sh hist B z)
              = Interp.Exc TieB.runtime_error st).      (* = "RuntimeError" *)
Proof. exact TieB.source_chunk_size_independent_and_raises. Qed.
Print Assumptions c06_source_chunk_size_independent.

(* "the same numbers come out whether all positions are computed at once, in chunks of any size, or one index at
   a time", about the interpreted sources: for every position t <= T, slice t of the tensor the interpreted chunked
   method returns IS the tensor the interpreted `calc_idx_log_probs` returns for the scalar index t *)
Theorem c06_source_chunked_rows_are_lookups : forall b sh hist B,
  TieSafe.safe_okb b sh = true -> 1 <= vocab sh -> hist_ok sh hist B -> forall t, (t <= length hist)%nat ->
  OpsC06.select0 (SrcRunB.mats_tensor (length hist + 1) B (Z.to_nat (vocab sh))
                    (map (all_rows b sh hist B) (seq 0 (S (length hist))))) (Z.of_nat t)
  = Some (SrcRun.rows_tensor B (Z.to_nat (vocab sh)) (batch_rows b sh hist B (repeat t B))) /\
  exists st, Interp.run SrcRun.ext06 C06Src.calc_idx_body (SrcRun.method_vars b sh hist B (Scalar (Z.of_nat t)))
             = Interp.Ok (Syntax.VTuple
                            [SrcRun.enc6 (SrcRun.rows_tensor B (Z.to_nat (vocab sh)) (batch_rows b sh hist B (repeat t B)));
                             Syntax.VDict []]) st.
Proof. exact TieB.source_chunked_rows_are_lookups. Qed.
Print Assumptions c06_source_chunked_rows_are_lookups.

(* (7) COMPOSED with c06_full_is_katz_any_chunk / c06_call_full_is_katz, purely about the interpreted source: on
   buffers that pass both validators, the chunked method (every chunk size >= 1) and calc_full_log_probs return
   the tensor of the Katz back-off values of the table at EVERY position of the sos-padded histories *)
Theorem c06_source_chunked_is_katz : forall b sh t hist B,
  trie_okb b sh (tmap sh t) = true -> tab_okb (vocab sh) (sos sh) t = true ->
  TieSafe.safe_okb b sh = true -> 1 <= vocab sh -> hist_ok sh hist B ->
  let res := SrcRun.enc6 (SrcRunB.mats_tensor (length hist + 1) B (Z.to_nat (vocab sh))
                            (spec_full t (order sh) (vocab sh) (sos sh) hist B)) in
  (forall chunk, (1 <= chunk)%nat ->
     exists st, Interp.run SrcRunB.ext06B C06BSrc.chunked_body (SrcRunB.chunked_vars b sh hist B (Z.of_nat chunk))
                = Interp.Ok res st) /\
  (exists st, Interp.run SrcRunB.ext06B_full C06BSrc.full_body (SrcRunB.full_vars b sh hist B) = Interp.Ok res st).
Proof. exact TieB.source_chunked_and_full_is_katz. Qed.
Print Assumptions c06_source_chunked_is_katz.

(* the executables the harness runs (interpret, decode the returned tensor, compare) ARE the model's checks, for
   EVERY chunk size (0 included) and for the all-positions query *)
Theorem c06_source_chunked_check_is_check : forall b sh hist B,
  TieSafe.safe_okb b sh = true -> 1 <= vocab sh -> hist_ok sh hist B ->
  (forall chunk impl, SrcRunB.src_chunked_check b sh hist B chunk impl = omats_eqb (chunked b sh hist B chunk) impl) /\
  (forall impl, SrcRunB.src_full_check b sh hist B impl = out_eqb (forward b sh hist B None) impl).
Proof. exact TieB.source_checks_are_checks. Qed.
Print Assumptions c06_source_chunked_check_is_check.

(* on the example buffers of c06_nonvacuous the interpreted chunked method (chunk sizes 2 and 7), its RuntimeError
   for chunk size 0, the empty history and calc_full_log_probs answer as the model does *)
Example c06_source_B_nonvacuous :
  let h := [[0; 1]; [1; 2]; [1; 0]] in
  SrcRunB.src_chunked_check ex_bufs ex_sh h 2 2 (chunked ex_bufs ex_sh h 2 2) = true /\
  SrcRunB.src_chunked_check ex_bufs ex_sh h 2 7 (chunked ex_bufs ex_sh h 2 1) = true /\
  SrcRunB.src_chunked_check ex_bufs ex_sh h 2 0 None = true /\
  SrcRunB.src_chunked_check ex_bufs ex_sh [] 2 3 (chunked ex_bufs ex_sh [] 2 3) = true /\
  SrcRunB.src_full_check ex_bufs ex_sh h 2 (forward ex_bufs ex_sh h 2 None) = true /\
  option_map (@length _) (chunked ex_bufs ex_sh h 2 2) = Some 4%nat.
Proof. cbv zeta. repeat split; vm_compute; reflexivity. Qed.
