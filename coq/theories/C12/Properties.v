(* C12 - placeholder while the correspondence is brought up; theorems follow. *)
From PV Require Import C12.Model C12.Spec.
