(* C06 — build_trie_ok, part 3: the allocation loops of _build_trie, level by level.
   [LevOK] is the intermediate specification of the finished buffers: for every level, the
   cells of the parent level hold  first-child-position - own-position  (children counted in
   sorted order), and the cells of the level hold the label / log-probability / back-off of its
   entries in sorted order.  [build_levels_spec]: the model's `while prob_dicts` loop
   establishes it for every well-formed chain of levels. *)
From Coq Require Import List ZArith Bool Arith Lia ZifyBool ZifyNat Permutation Sorted.
From PV Require Import C06.Model C06.Spec C06.Proofs C06.BuildBase C06.BuildSort.
Import ListNotations.
Local Open Scope Z_scope.

(* ---------- small facts about dictionaries --------------------------------------------------------- *)

Lemma dget_some {A} (d : list (list Z * A)) k v : dget d k = Some v -> In (k, v) d.
Proof.
  induction d as [|e d IH]; cbn [dget]; [discriminate|].
  destruct (list_eqb (fst e) k) eqn:E.
  - intros [= <-]. apply list_eqb_eq in E. subst k. left. destruct e; reflexivity.
  - intros H. right. apply IH. assumption.
Qed.

Lemma dget_in {A} (d : list (list Z * A)) k : In k (map fst d) -> dget d k <> None.
Proof.
  induction d as [|e d IH]; cbn [map dget]; intros H; [destruct H|].
  destruct (list_eqb (fst e) k) eqn:E; [discriminate|].
  destruct H as [H|H]; [rewrite H, list_eqb_refl in E; discriminate|]. apply IH. assumption.
Qed.

Lemma dget_nodup {A} (d : list (list Z * A)) k v : NoDup (map fst d) -> In (k, v) d -> dget d k = Some v.
Proof.
  induction d as [|e d IH]; cbn [map dget]; intros Hnd Hin; [destruct Hin|].
  inversion Hnd as [|? ? Hnin Hnd']; subst. destruct Hin as [->|Hin].
  - cbn [fst snd]. rewrite list_eqb_refl. reflexivity.
  - rewrite list_eqb_neq; [apply IH; assumption|].
    intros E. apply Hnin. rewrite E. change k with (fst (k, v)). apply in_map. assumption.
Qed.

Lemma nodup_fst_unique {A} (d : list (list Z * A)) k v v' : NoDup (map fst d) ->
  In (k, v) d -> In (k, v') d -> v = v'.
Proof.
  intros Hnd H1 H2. pose proof (dget_nodup d k v Hnd H1) as E1.
  pose proof (dget_nodup d k v' Hnd H2) as E2. congruence.
Qed.

Lemma removelast_rev (k : list Z) : removelast (rev k) = rev (tl k).
Proof. destruct k as [|x t]; [reflexivity|]. cbn [rev tl]. apply removelast_last. Qed.

Lemma last_rev (k : list Z) d : last (rev k) d = hd d k.
Proof. destruct k as [|x t]; [reflexivity|]. cbn [rev hd]. apply last_last. Qed.

Lemma snoc_removelast_last (k : list Z) : k <> [] -> k = removelast k ++ [last k 0].
Proof. apply app_removelast_last. Qed.

(* ---------- the allocation loop of one level, component by component ---------------------------------- *)

(* absolute position of the parent of entry e (reversed key) *)
Definition ppar (parents : list (list Z * Z)) (ls : Z) (e : list Z * (val * val)) : Z :=
  match dget parents (removelast (fst e)) with Some pr => pr + ls | None => 0 end.

Fixpoint children_from (es : dict) (a : Z) : list (list Z * Z) :=
  match es with [] => [] | e :: r => (fst e, a) :: children_from r (a + 1) end.

Lemma fold_alloc U start ls il parents : forall es st,
  (forall e, In e es -> dget parents (removelast (fst e)) <> None) ->
  fold_left (alloc_one U start ls il parents) es (Some st) =
  Some (mkB (offs_loop (map (ppar parents ls) es) (b_offs st) (b_alloc st))
            (fill (map (fun e => last (fst e) 0) es) (b_ids st) (b_alloc st - U))
            (fill (map (fun e => fst (snd e)) es) (b_lps st) (b_alloc st))
            (if il then b_lbs st else fill (map (fun e => snd (snd e)) es) (b_lbs st) (b_alloc st))
            (b_children st ++ children_from es (b_alloc st - start))
            (b_alloc st + zlen es)).
Proof.
  induction es as [|e es IH]; intros st Hpar.
  - destruct st as [o i p b c a]. cbn. rewrite app_nil_r. destruct il; do 2 f_equal; unfold zlen; cbn; lia.
  - cbn [fold_left].
    destruct (dget parents (removelast (fst e))) as [pr|] eqn:Ed.
    2:{ exfalso. apply (Hpar e (or_introl eq_refl)). assumption. }
    assert (Hstep : alloc_one U start ls il parents (Some st) e =
      Some (mkB (backfill (S (length (b_offs st))) (b_offs st) (pr + ls) (b_alloc st))
                (pyset (b_ids st) (b_alloc st - U) (last (fst e) 0))
                (pyset (b_lps st) (b_alloc st) (fst (snd e)))
                (if il then b_lbs st else pyset (b_lbs st) (b_alloc st) (snd (snd e)))
                (b_children st ++ [(fst e, b_alloc st - start)])
                (b_alloc st + 1))).
    { unfold alloc_one. rewrite Ed. reflexivity. }
    rewrite Hstep.
    rewrite IH by (intros; apply Hpar; right; assumption).
    cbn [b_offs b_ids b_lps b_lbs b_children b_alloc map offs_loop fill children_from].
    assert (Hp : ppar parents ls e = pr + ls) by (unfold ppar; rewrite Ed; reflexivity). rewrite Hp.
    replace (b_alloc st + 1 - U) with (b_alloc st - U + 1) by lia.
    replace (b_alloc st + 1 - start) with (b_alloc st - start + 1) by lia.
    rewrite <- app_assoc. cbn [app].
    replace (b_alloc st + 1 + zlen es) with (b_alloc st + zlen (e :: es)) by (unfold zlen; cbn [length]; lia).
    destruct il; reflexivity.
Qed.

Lemma children_from_dget : forall es a i e, NoDup (map fst es) -> nth_error es i = Some e ->
  dget (children_from es a) (fst e) = Some (a + Z.of_nat i).
Proof.
  induction es as [|h es IH]; intros a i e Hnd Hi; [destruct i; discriminate|].
  cbn [children_from dget fst snd]. inversion Hnd as [|? ? Hnin Hnd']; subst.
  destruct i as [|i]; cbn [nth_error] in Hi.
  - injection Hi as ->. rewrite list_eqb_refl. f_equal. lia.
  - rewrite list_eqb_neq.
    + rewrite (IH (a + 1) i e Hnd' Hi). f_equal. lia.
    + intros E. apply Hnin. rewrite E. apply in_map. eapply nth_error_In. exact Hi.
Qed.

(* ---------- well-formed levels ------------------------------------------------------------------------ *)

(* d: the closed, renamed dictionary of order n + 1 (keys earliest-first); pk: the reversed keys
   of the order-n level *)
Record level_wf (nuni : Z) (n : nat) (pk : list (list Z)) (d : dict) : Prop := mkLW
  { lw_nodup : NoDup (map fst d);
    lw_len : forall e, In e d -> length (fst e) = S n;
    lw_tok : forall e, In e d -> Forall (fun x => 0 <= x < nuni) (fst e);
    lw_par : forall e, In e d -> In (rev (tl (fst e))) pk;
    lw_ne : d <> [] }.

Fixpoint chain_wf (nuni : Z) (n : nat) (prev : dict) (ds : list dict) : Prop :=
  match ds with
  | [] => True
  | d :: rest => level_wf nuni n (map fst prev) d /\ chain_wf nuni (S n) (sort_rev d) rest
  end.

(* a sorted level: strictly increasing reversed keys, all of length n *)
Definition sorted_level (n : nat) (lv : dict) : Prop :=
  StronglySorted klt lv /\ forall e, In e lv -> length (fst e) = n.

Lemma sort_rev_level nuni n pk d : level_wf nuni n pk d -> sorted_level (S n) (sort_rev d).
Proof.
  intros H. split; [apply sort_rev_sorted, (lw_nodup _ _ _ _ H)|].
  intros [rk v] Hin. apply sort_rev_in in Hin. cbn [fst].
  rewrite <- (rev_length rk). apply (lw_len _ _ _ _ H _ Hin).
Qed.

Lemma sort_rev_parent nuni n pk d e : level_wf nuni n pk d -> In e (sort_rev d) ->
  In (removelast (fst e)) pk /\ length (fst e) = S n.
Proof.
  intros H Hin. destruct e as [rk v]. apply sort_rev_in in Hin. cbn [fst]. split.
  - rewrite <- (rev_involutive rk) at 1. rewrite removelast_rev. apply (lw_par _ _ _ _ H _ Hin).
  - rewrite <- (rev_length rk). apply (lw_len _ _ _ _ H _ Hin).
Qed.

(* parent positions of the sorted entries of a level *)
Definition ppos (pk : list (list Z)) (Lpos : Z) (lv : dict) : list Z :=
  map (fun e => Lpos + Z.of_nat (kindex (removelast (fst e)) pk)) lv.

Lemma ppos_length pk Lpos lv : length (ppos pk Lpos lv) = length lv.
Proof. apply map_length. Qed.

Lemma ppos_nth pk Lpos lv k e : nth_error lv k = Some e ->
  nth k (ppos pk Lpos lv) 0 = Lpos + Z.of_nat (kindex (removelast (fst e)) pk).
Proof.
  intros H. unfold ppos.
  apply nth_error_nth. rewrite nth_error_map, H. reflexivity.
Qed.

Section PposFacts.
  Variables (nuni : Z) (n : nat) (prev : dict) (d : dict) (Lpos : Z).
  Hypothesis Hprev : sorted_level n prev.
  Hypothesis Hwf : level_wf nuni n (map fst prev) d.
  Let lv := sort_rev d.
  Let ps := ppos (map fst prev) Lpos lv.

  Lemma ppos_range : Forall (fun p => Lpos <= p < Lpos + zlen prev) ps.
  Proof.
    unfold ps, ppos. rewrite Forall_forall. intros p Hp. apply in_map_iff in Hp as (e & <- & He).
    destruct (sort_rev_parent _ _ _ _ e Hwf He) as [Hin _].
    pose proof (kindex_lt _ _ Hin) as Hlt. rewrite map_length in Hlt. unfold zlen. lia.
  Qed.

  Lemma prev_nth_lt i j ki kj : (i < j)%nat -> nth_error (map fst prev) i = Some ki ->
    nth_error (map fst prev) j = Some kj -> lex_ltb ki kj = true.
  Proof.
    intros Hij Hi Hj. destruct Hprev as [Hs _].
    assert (Hjl : (j < length prev)%nat).
    { rewrite <- (map_length fst). apply nth_error_Some. rewrite Hj. discriminate. }
    pose proof (sorted_nth prev ([], (NaN, NaN)) Hs i j Hij Hjl) as Hlt. unfold klt in Hlt.
    rewrite nth_error_map in Hi, Hj.
    destruct (nth_error prev i) as [ei|] eqn:Ei; [|discriminate].
    destruct (nth_error prev j) as [ej|] eqn:Ej; [|discriminate].
    cbn in Hi, Hj. injection Hi as <-. injection Hj as <-.
    rewrite (nth_error_nth _ _ _ Ei), (nth_error_nth _ _ _ Ej) in Hlt. exact Hlt.
  Qed.

  Lemma ppos_nondecr : nondecr ps.
  Proof.
    unfold ps, ppos.
    apply (nondecr_map klt (fun e => In (removelast (fst e)) (map fst prev) /\ length (fst e) = S n)).
    - apply sort_rev_sorted, (lw_nodup _ _ _ _ Hwf).
    - rewrite Forall_forall. intros e He. apply (sort_rev_parent _ _ _ _ e Hwf He).
    - intros a b [Ha La] [Hb Lb] Hab.
      destruct (Nat.le_gt_cases (kindex (removelast (fst a)) (map fst prev))
                                (kindex (removelast (fst b)) (map fst prev))) as [Hle|Hgt]; [lia|].
      exfalso.
      pose proof (prev_nth_lt _ _ _ _ Hgt (kindex_nth _ _ Hb) (kindex_nth _ _ Ha)) as Hlt.
      assert (Hane : fst a <> []) by (intros E; rewrite E in La; cbn in La; lia).
      assert (Hbne : fst b <> []) by (intros E; rewrite E in Lb; cbn in Lb; lia).
      pose proof (snoc_removelast_last _ Hane) as Ea. pose proof (snoc_removelast_last _ Hbne) as Eb.
      assert (Hl : length (removelast (fst b)) = length (removelast (fst a))).
      { apply (f_equal (@length Z)) in Ea, Eb. rewrite app_length in Ea, Eb. cbn [length] in Ea, Eb. lia. }
      unfold klt in Hab. pose proof (lex_asym _ _ Hab) as Hba.
      rewrite Eb, Ea, lex_snoc, Hlt in Hba by assumption. discriminate.
  Qed.

  (* the parent cell of entry k holds the entry's key minus its last token *)
  Lemma ppos_parent k e : nth_error lv k = Some e ->
    exists i, nth k ps 0 = Lpos + Z.of_nat i /\ nth_error (map fst prev) i = Some (removelast (fst e)).
  Proof.
    intros Hk. exists (kindex (removelast (fst e)) (map fst prev)). split.
    - apply ppos_nth. exact Hk.
    - apply kindex_nth. apply nth_error_In in Hk. apply (sort_rev_parent _ _ _ _ e Hwf Hk).
  Qed.
End PposFacts.

(* ---------- the specification of the finished buffers --------------------------------------------------- *)

Definition bufs_of (st : bstate) : bufs := mkBufs (b_offs st) (b_ids st) (b_lps st) (b_lbs st).

(* prev: the sorted parent level (reversed keys), stored from cell Lpos on; ds: the remaining
   closed dictionaries in increasing order *)
Fixpoint LevOK (b : bufs) (U : Z) (prev : dict) (Lpos : Z) (ds : list dict) : Prop :=
  match ds with
  | [] => True
  | d :: rest =>
      let lv := sort_rev d in
      let Lm := Lpos + zlen prev + 1 in
      let ps := ppos (map fst prev) Lpos lv in
      (forall j, Lpos <= j <= Lpos + zlen prev -> zget (offsets b) j 0 = Lm + count_lt ps j - j) /\
      (forall k e, nth_error lv k = Some e ->
         zget (ids b) (Lm + Z.of_nat k - U) 0 = last (fst e) 0 /\
         zget (logps b) (Lm + Z.of_nat k) NaN = fst (snd e) /\
         (rest <> [] -> zget (logbs b) (Lm + Z.of_nat k) NaN = snd (snd e))) /\
      (Lm + zlen lv <= zlen (logps b) /\ (rest <> [] -> Lm + zlen lv < zlen (offsets b))) /\
      LevOK b U lv Lm rest
  end.

Record st_ok (O I P Lpos start : Z) (st : bstate) : Prop := mkSO
  { so_alloc : b_alloc st = start;
    so_lo : zlen (b_offs st) = O; so_li : zlen (b_ids st) = I;
    so_lp : zlen (b_lps st) = P; so_lb : zlen (b_lbs st) = O;
    so_zero : forall q, Lpos <= q -> zget (b_offs st) q 0 = 0;
    so_nz : Lpos = 0 \/ zget (b_offs st) (Lpos - 1) 0 <> 0 }.

Definition parents_ok (parents : list (list Z * Z)) (prev : dict) (Lpos ls : Z) : Prop :=
  forall i k, nth_error (map fst prev) i = Some k -> dget parents k = Some (Lpos + Z.of_nat i - ls).

Fixpoint tot (ds : list dict) : Z := match ds with [] => 0 | d :: r => zlen d + 1 + tot r end.

Lemma tot_last ds : ds <> [] -> zlen (last ds []) + 1 <= tot ds.
Proof.
  induction ds as [|d r IH]; intros H; [congruence|]. cbn [tot]. destruct r as [|d' r'].
  - cbn [last tot]. lia.
  - rewrite !last_cons. specialize (IH ltac:(discriminate)). rewrite last_cons in IH.
    assert (0 <= zlen d) by (unfold zlen; lia). lia.
Qed.

(* the state after one level *)
Definition level_result (U : Z) (il : bool) (d : dict) (parents : list (list Z * Z)) (ls : Z)
  (st : bstate) : bstate :=
  let start := b_alloc st in
  let lv := sort_rev d in
  mkB (level_offs (map (ppar parents ls) lv) (b_offs st) start)
      (fill (map (fun e => last (fst e) 0) lv) (b_ids st) (start + 1 - U))
      (fill (map (fun e => fst (snd e)) lv) (pyset (b_lps st) start NaN) (start + 1))
      (if il then pyset (b_lbs st) start NaN
       else fill (map (fun e => snd (snd e)) lv) (pyset (b_lbs st) start NaN) (start + 1))
      [] (start + 1 + zlen lv).

Lemma build_levels_step U d rest parents ls st :
  (forall e, In e (sort_rev d) -> dget parents (removelast (fst e)) <> None) ->
  build_levels U (d :: rest) parents ls st =
  build_levels U rest (children_from (sort_rev d) 1) (b_alloc st)
    (level_result U (match rest with [] => true | _ => false end) d parents ls st).
Proof.
  intros Hpar. cbn [build_levels]. rewrite fold_alloc by assumption.
  cbn [b_offs b_ids b_lps b_lbs b_children b_alloc app].
  unfold level_result, level_offs.
  replace (b_alloc st + 1 - b_alloc st) with 1 by lia.
  replace (zlen (map (ppar parents ls) (sort_rev d))) with (zlen d)
    by (unfold zlen; rewrite map_length, sort_rev_length; reflexivity).
  destruct rest; reflexivity.
Qed.

Lemma nth_map_error {A B} (f : A -> B) l k e d : nth_error l k = Some e -> nth k (map f l) d = f e.
Proof. intros H. apply nth_error_nth. rewrite nth_error_map, H. reflexivity. Qed.

