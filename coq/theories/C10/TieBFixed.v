(* C10, second source tie — policy 'fixed' of `slice_spect_data`: the interpreted source computes the windows of
   Model.fixed_windows and filters them by in_lens > mid, row by row. *)
From Coq Require Import ZArith QArith List String Bool Arith Lia ZifyBool ZifyNat.
From PV Require Import MiniPy.Syntax MiniPy.Interp MiniTorch.Ops MiniTorch.Value MiniTorch.Lemmas.
From PV Require Import MiniTorch.OpsC10 MiniTorch.ValueC10 MiniTorch.LemmasC10 MiniTorch.OpsC10B MiniTorch.LemmasC10B Gen.C10BSrc.
From PV Require Import C10.SrcRun C10.SrcRunB C10.TieBCommon C10.TieBPrefix.
From PV Require C10.Model.
Import ListNotations.
Local Open Scope string_scope.
#[local] Arguments enc10 : simpl never.
#[local] Arguments dec10 : simpl never.
#[local] Arguments Z.of_nat : simpl never.
#[local] Arguments Z.add : simpl never.
#[local] Arguments Z.sub : simpl never.
#[local] Arguments Z.mul : simpl never.
#[local] Arguments Z.div : simpl never.
#[local] Arguments Z.ltb : simpl never.
#[local] Arguments Z.max : simpl never.
#[local] Arguments Z.to_nat : simpl never.
#[local] Arguments then_ : simpl never.
#[local] Arguments extreme_of : simpl never.
#[local] Arguments q_cmp : simpl never.
#[local] Arguments I1 : simpl never.
#[local] Arguments I2 : simpl never.
#[local] Arguments I3 : simpl never.
#[local] Arguments B2 : simpl never.
#[local] Arguments OpsC10.arange : simpl never.
#[local] Arguments OpsC10.unsqueeze : simpl never.
#[local] Arguments OpsC10.size : simpl never.
#[local] Arguments OpsC10.compare : simpl never.
#[local] Arguments OpsC10.add : simpl never.
#[local] Arguments OpsC10.sub : simpl never.
#[local] Arguments OpsC10.view : simpl never.
#[local] Arguments arange3 : simpl never.
#[local] Arguments mul : simpl never.
#[local] Arguments expand_to : simpl never.
#[local] Arguments stack2_last : simpl never.
#[local] Arguments flatten : simpl never.
#[local] Arguments mask_rows : simpl never.
#[local] Arguments numel : simpl never.

(* flattened tabulated tensors: (n*m, k) and (n*m) *)
Definition F3 (n m k : nat) (a : nat -> nat -> nat -> Z) : itens := mkIT [numel [n; m]; k] (D3 n m k (fun i j l => CInt (a i j l))).
Definition F2 (n m : nat) (g : nat -> nat -> cell) : itens := mkIT [numel [n; m]] (D2 n m g).
#[local] Arguments F3 : simpl never.
#[local] Arguments F2 : simpl never.

Lemma add_I1_int : forall k a z, OpsC10.add (I1 k a) (scalar_int z) = Some (I1 k (fun i => (a i + z)%Z)).
Proof. intros. unfold OpsC10.add, I1. now apply bcast_C1_scalar. Qed.
Lemma sub_I1_int : forall k a z, OpsC10.sub (I1 k a) (scalar_int z) = Some (I1 k (fun i => (a i - z)%Z)).
Proof. intros. unfold OpsC10.sub, I1. now apply bcast_C1_scalar. Qed.
Lemma mul_I1_int : forall k a z, mul (I1 k a) (scalar_int z) = Some (I1 k (fun i => (a i * z)%Z)).
Proof. intros. unfold mul, I1. now apply bcast_C1_scalar. Qed.
Lemma arange_nat : forall R, OpsC10.arange (Z.of_nat R) = Some (I1 R Z.of_nat).
Proof. intros R. unfold OpsC10.arange. replace (Z.of_nat R <? 0)%Z with false by lia. now rewrite Nat2Z.id. Qed.
Lemma expand_I1_rows : forall k a N, expand_to (I1 k a) [Z.of_nat N; (-1)%Z] = Some (I2 N k (fun _ j => a j)).
Proof. intros. unfold I1, I2. apply expand_to_C1_rows. Qed.
Lemma expand_I2col : forall n k a, expand_to (I2 n 1 a) [Z.of_nat n; Z.of_nat k] = Some (I2 n k (fun i _ => a i 0%nat)).
Proof. intros. unfold I2. apply expand_to_C2col. Qed.
Lemma view_I1_col : forall n a, OpsC10.view (I1 n a) [n; 1%nat] = Some (I2 n 1 (fun i _ => a i)).
Proof. intros. unfold I1, I2. apply view_C1_col. Qed.
Lemma unsqueeze_I1_1 : forall n a, OpsC10.unsqueeze (I1 n a) 1 = Some (I2 n 1 (fun i _ => a i)).
Proof. intros. unfold I1, I2. now rewrite unsqueeze_C1_1. Qed.
Lemma size_I2_1 : forall m k a, OpsC10.size (I2 m k a) 1 = Some k.
Proof. reflexivity. Qed.
Lemma stack2_I2 : forall m k f g,
  stack2_last (I2 m k f) (I2 m k g) 2 = Some (I3 m k 2 (fun j l c => pair_cell (f j l) (g j l) c)).
Proof.
  intros. unfold I2, I3. rewrite stack2_C2. unfold C3. do 2 apply f_equal. apply D3_ext. intros i j l _ _ _.
  now destruct l.
Qed.
Lemma flatten_I3 : forall n m k a, flatten (I3 n m k a) 0 1 = Some (F3 n m k a).
Proof. reflexivity. Qed.
Lemma flatten_I2 : forall n m a, flatten (I2 n m a) 0 (-1) = Some (F2 n m (fun i j => CInt (a i j))).
Proof. reflexivity. Qed.
Lemma flatten_B2 : forall n m b, flatten (B2 n m b) 0 (-1) = Some (F2 n m (fun i j => CBool (b i j))).
Proof. reflexivity. Qed.
Lemma ishape_I1 : forall k a, ishape (I1 k a) = [k]. Proof. reflexivity. Qed.
Lemma leb_0_of_nat : forall n, (0 <=? Z.of_nat n)%Z = true.
Proof. intros. lia. Qed.

Lemma bools_F2 : forall n m b, forallb is_bool_cell (idata (F2 n m (fun i j => CBool (b i j)))) = true.
Proof.
  intros. unfold F2. cbn [idata]. apply forallb_forall. intros x Hx. unfold D2 in Hx. apply in_flat_map in Hx.
  destruct Hx as [i [_ Hx]]. unfold D1 in Hx. apply in_map_iff in Hx. destruct Hx as [j [<- _]]. reflexivity.
Qed.

Lemma getitem_mask : forall x m st,
  getitemB (enc10 x) (enc10 m) st
  = if forallb is_bool_cell (idata m) then ret10 "x[mask]" (mask_rows x m) st else ret10 "x[idx]" (index_select1 x m) st.
Proof.
  intros. unfold getitemB. rewrite dec10_enc10.
  change (enc10 m) with (VTuple [VStr itensor_tag; VList (enc_shape (ishape m)); VList (map enc_cell (idata m))]) at 1 2.
  cbv beta iota. change (is_slice (VTuple [VStr itensor_tag; VList (enc_shape (ishape m)); VList (map enc_cell (idata m))])) with (@None (option Z * option Z)).
  cbv beta iota. fold (enc10 m). now rewrite dec10_enc10.
Qed.

Lemma mask_F3 : forall n m k a b,
  mask_rows (F3 n m k a) (F2 n m (fun i j => CBool (b i j)))
  = Some (mkIT [List.length (kept2 n m b); k] (flat_map (fun p => D1 k (fun l => CInt (a (fst p) (snd p) l))) (kept2 n m b))).
Proof.
  intros. unfold F3, F2. pose proof (mask_rows_D3 n m [k] (fun i j l => CInt (a i j l)) b) as H.
  replace (numel [k]) with k in H by (unfold numel; cbn [fold_right]; lia). exact H.
Qed.

Lemma mask_F2 : forall n m g b,
  mask_rows (F2 n m g) (F2 n m (fun i j => CBool (b i j))) = Some (V1 (map (fun p => g (fst p) (snd p)) (kept2 n m b))).
Proof. intros. apply mask_rows_D2. Qed.

Lemma filter_true : forall {A} (l : list A), filter (fun _ => true) l = l.
Proof. induction l as [|x l IH]; cbn; [reflexivity|now rewrite IH]. Qed.

Lemma kept2_all_length : forall n m, List.length (kept2 n m (fun _ _ => true)) = numel [n; m].
Proof.
  intros. unfold kept2. rewrite (len_flat_map_const _ _ m).
  - rewrite seq_length. unfold numel. cbn [fold_right]. lia.
  - intros i _. now rewrite map_length, filter_true, seq_length.
Qed.

Lemma F3_all : forall n m k a,
  F3 n m k a = mkIT [List.length (kept2 n m (fun _ _ => true)); k]
                    (flat_map (fun p => D1 k (fun l => CInt (a (fst p) (snd p) l))) (kept2 n m (fun _ _ => true))).
Proof.
  intros. unfold F3. rewrite kept2_all_length. f_equal. unfold kept2, D3, D2.
  rewrite flat_map_flat_map. apply flat_map_ext_in'. intros i _. now rewrite filter_true, flat_map_map'.
Qed.

Lemma F2_all : forall n m g,
  F2 n m g = V1 (map (fun p => g (fst p) (snd p)) (kept2 n m (fun _ _ => true))).
Proof.
  intros. unfold F2, V1. rewrite map_length, kept2_all_length. f_equal. unfold kept2, D2, D1.
  rewrite map_flat_map'. apply flat_map_ext_in'. intros i _. now rewrite filter_true, map_map.
Qed.

Lemma binop_add_enc10_int : forall t z st, binop_eval Add (enc10 t) (VInt z) st = Stuck "add".
Proof. reflexivity. Qed.
Lemma binop_sub_enc10_int : forall t z st, binop_eval Sub (enc10 t) (VInt z) st = Stuck "sub".
Proof. reflexivity. Qed.
Lemma binop_mul_enc10_int : forall t z st, binop_eval Mul (enc10 t) (VInt z) st = Stuck "mul".
Proof. reflexivity. Qed.

Lemma subscript_enc10_t : forall t k st, subscript (enc10 t) (enc10 k) st = Stuck "subscript".
Proof. reflexivity. Qed.

Ltac tstep :=
  tstep0; rewrite ?subscript_enc10_t, ?binop_add_enc10_int, ?binop_sub_enc10_int, ?binop_mul_enc10_int; change (Z.to_nat 0) with 0%nat; change (Z.to_nat 1) with 1%nat; change (Z.to_nat 2) with 2%nat;
  rewrite ?ret10_some, ?leb_0_of_nat, ?Nat2Z.id, ?Z.eqb_refl, ?ishape_I1,
    ?add_I1_int, ?sub_I1_int, ?mul_I1_int, ?arange_nat, ?expand_I1_rows, ?expand_I2col, ?view_I1_col, ?unsqueeze_I1_1,
    ?size_I2_1, ?stack2_I2, ?flatten_I3, ?flatten_I2, ?flatten_B2, ?compare_I2col_I1, ?getitem_mask, ?bools_F2,
    ?mask_F3, ?mask_F2.
Ltac use_lookups := repeat match goal with H : lookup _ _ = Some _ |- _ => rewrite H end.
Ltac astep := tstep; use_lookups.
Ltac stmt := open_seq; repeat (progress astep).
Ltac aclose := unfold set_var; cbn [vars events]; rewrite then_normal; match goal with H : ?r = _ |- context [exec extB ?r _] => subst r end.

(* sub-terms of the body *)
Definition seq_head (s : stmt) : stmt := match s with SSeq a _ => a | _ => s end.
Definition if_then (s : stmt) : stmt := match s with SIf _ t _ => t | _ => s end.
Definition fixed_block : stmt := if_then (seq_head (drop_seq 6 slice_body)).
Definition fixed_tail : stmt := drop_seq 2 fixed_block.

(* the result tensors: all windows / those with in_lens > mid *)
Definition fixed_keep (lf : option (nat -> Z)) (m : nat -> Z) (i j : nat) : bool :=
  match lf with Some l => (l i >? m j)%Z | None => true end.

Definition fixed_slices (N k : nat) (s e : nat -> Z) (b : nat -> nat -> bool) : itens :=
  mkIT [List.length (kept2 N k b); 2%nat]
       (flat_map (fun p => D1 2 (fun l => CInt (pair_cell (s (snd p)) (e (snd p)) l))) (kept2 N k b)).
Definition fixed_sources (N k : nat) (b : nat -> nat -> bool) : itens :=
  V1 (map (fun p => CInt (Z.of_nat (fst p))) (kept2 N k b)).

Lemma fixed_tail_run : forall N k s e m lf vs,
  lookup "starts" vs = Some (enc10 (I1 k s)) -> lookup "ends" vs = Some (enc10 (I1 k e)) ->
  lookup "mids" vs = Some (enc10 (I1 k m)) -> lookup "N" vs = Some (VInt (Z.of_nat N)) ->
  lookup "device" vs = Some device_token -> lookup "in_lens" vs = Some (opt_tensor (option_map (I1 N) lf)) ->
  exists vs', exec extB fixed_tail (mkState vs []) = Ok CNormal (mkState vs' [])
              /\ lookup "slices" vs' = Some (enc10 (fixed_slices N k s e (fixed_keep lf m)))
              /\ lookup "sources" vs' = Some (enc10 (fixed_sources N k (fixed_keep lf m))).
Proof.
  intros N k s e m lf vs Hs He Hm HN Hd Hl.
  unfold fixed_tail, fixed_block, slice_body. cbn [drop_seq seq_head if_then].
  stmt. aclose.
  stmt. aclose.
  stmt. aclose.
  stmt. aclose.
  destruct lf as [l|]; cbn [option_map opt_tensor] in Hl.
  - repeat (progress astep). unfold set_var. cbn [vars events].
    eexists. split; [reflexivity|]. rewrite !lookup_update. cbn [String.eqb Ascii.eqb Bool.eqb].
    split; reflexivity.
  - repeat (progress astep). unfold set_var. cbn [vars events].
    eexists. split; [reflexivity|]. rewrite !lookup_update. cbn [String.eqb Ascii.eqb Bool.eqb].
    unfold fixed_slices, fixed_sources, fixed_keep. rewrite F3_all, F2_all. split; reflexivity.
Qed.

Lemma arange_z : forall z, (0 <= z)%Z -> OpsC10.arange z = Some (I1 (Z.to_nat z) Z.of_nat).
Proof. intros z H. unfold OpsC10.arange. now replace (z <? 0)%Z with false by lia. Qed.

Definition head_ok (N T : nat) (lobe : Z) (w : Model.wtype) (vo : bool) (il : option itens) (st0 : state) : Prop :=
  exists k s e m vs,
    exec extB fixed_block st0 = exec extB fixed_tail (mkState vs [])
    /\ lookup "starts" vs = Some (enc10 (I1 k s)) /\ lookup "ends" vs = Some (enc10 (I1 k e))
    /\ lookup "mids" vs = Some (enc10 (I1 k m)) /\ lookup "N" vs = Some (VInt (Z.of_nat N))
    /\ lookup "device" vs = Some device_token /\ lookup "in_lens" vs = Some (opt_tensor il)
    /\ Model.fixed_windows Model.repaired (Z.of_nat T) lobe w vo = D1 k (fun i => (s i, e i, m i)).

Ltac head_start :=
  unfold head_ok, fixed_block, fixed_tail, slice_body, prefix_vars; cbn [drop_seq seq_head if_then];
  open_seq; repeat (progress tstep); close_stmt;
  open_seq; repeat (progress tstep).
Ltac head_end :=
  close_stmt; do 5 eexists; split; [reflexivity|]; repeat (split; [reflexivity|]).

Lemma fixed_head : forall N T rest data il ol lobe w vo, T <> 0%nat -> (0 <= lobe)%Z ->
  head_ok N T lobe w vo il
    (mkState (prefix_vars (mkIT (N :: T :: rest) data) il ol "fixed" (wt_name w) vo lobe N T) []).
Proof.
  intros N T rest data il ol lobe w vo HT Hl.
  destruct w, vo; head_start.
  - (* symmetric, valid_only *)
    rewrite arange3_I1 by lia. repeat (progress tstep). head_end.
    unfold Model.fixed_windows, Model.arange, D1. cbn [Model.d3 Model.repaired]. rewrite map_map. reflexivity.
  - (* symmetric, all *)
    replace (lobe + 1 =? 0)%Z with false by lia. repeat (progress tstep).
    assert (Hh : ((lobe + 1) / 2 <= lobe + 1)%Z) by (apply Z.div_le_upper_bound; lia).
    rewrite arange_z by (apply Z.div_pos; lia).
    repeat (progress tstep).
    replace (2 =? 0)%Z with false by reflexivity. repeat (progress tstep).
    head_end.
    unfold Model.fixed_windows, Model.arange, D1. cbn [Model.d3 Model.repaired]. rewrite map_map.
    match goal with |- map _ (seq 0 ?a) = map _ (seq 0 ?b) => replace a with b by (f_equal; rewrite Z.div_1_r; lia) end.
    apply map_ext. intros i. replace (0 + Z.of_nat i * 1)%Z with (Z.of_nat i) by lia. reflexivity.
  - (* causal, valid_only *)
    rewrite arange3_I1 by lia. repeat (progress tstep). head_end.
    unfold Model.fixed_windows, Model.arange, D1. cbn [Model.d3 Model.repaired]. rewrite map_map. reflexivity.
  - (* causal, all *)
    rewrite arange3_I1 by lia. repeat (progress tstep). head_end.
    unfold Model.fixed_windows, Model.arange, D1. cbn [Model.d3 Model.repaired]. rewrite map_map. reflexivity.
  - (* future, valid_only *)
    rewrite arange3_I1 by lia. repeat (progress tstep). head_end.
    unfold Model.fixed_windows, Model.arange, D1. cbn [Model.d3 Model.repaired]. rewrite map_map. reflexivity.
  - (* future, all *)
    rewrite arange3_I1 by lia. repeat (progress tstep). head_end.
    unfold Model.fixed_windows, Model.arange, D1. cbn [Model.d3 Model.repaired]. rewrite map_map. reflexivity.
Qed.
