(* C19 - lemmas about the estimator models (Model.v) against the declarative reading (Spec.v). *)
From Coq Require Import List ZArith QArith Qabs Bool Lia Setoid Morphisms.
From PV Require Import C19.Model C19.Spec.
Import ListNotations.
Local Open Scope Q_scope.

(* ------------------------------------------------------------------------------------------ *)
(* sums over Q up to ==                                                                         *)
(* ------------------------------------------------------------------------------------------ *)
Lemma Qsum_cons : forall x l, Qsum (x :: l) == x + Qsum l.
Proof. intros. unfold Qsum; cbn [fold_right]. apply Qred_correct. Qed.

Lemma Qsum_nil : Qsum [] == 0.
Proof. reflexivity. Qed.

Lemma Qsum_app : forall a b, Qsum (a ++ b) == Qsum a + Qsum b.
Proof.
  induction a as [|x a IH]; intros b.
  - cbn [app]. change (Qsum []) with 0. ring.
  - cbn [app]. rewrite !Qsum_cons, IH. ring.
Qed.

Lemma Qsum_map_ext : forall {X} (f g : X -> Q) l,
  (forall x, In x l -> f x == g x) -> Qsum (map f l) == Qsum (map g l).
Proof.
  induction l as [|x l IH]; intros H; [reflexivity|].
  cbn [map]. rewrite !Qsum_cons, IH, (H x) by (intuition (auto using in_eq, in_cons)). reflexivity.
Qed.

Lemma Qsum_map_add : forall {X} (f g : X -> Q) l,
  Qsum (map (fun x => f x + g x) l) == Qsum (map f l) + Qsum (map g l).
Proof.
  induction l as [|x l IH]; [cbn; change (Qsum []) with 0; ring|].
  cbn [map]. rewrite !Qsum_cons, IH. ring.
Qed.

Lemma Qsum_map_scale : forall {X} c (f : X -> Q) l,
  Qsum (map (fun x => c * f x) l) == c * Qsum (map f l).
Proof.
  induction l as [|x l IH]; [cbn; change (Qsum []) with 0; ring|].
  cbn [map]. rewrite !Qsum_cons, IH. ring.
Qed.

Lemma Qsum_map_scale_r : forall {X} c (f : X -> Q) l,
  Qsum (map (fun x => f x * c) l) == Qsum (map f l) * c.
Proof.
  induction l as [|x l IH]; [cbn; change (Qsum []) with 0; ring|].
  cbn [map]. rewrite !Qsum_cons, IH. ring.
Qed.

Lemma Qsum_map_const : forall {X} c (l : list X),
  Qsum (map (fun _ => c) l) == Qn (length l) * c.
Proof.
  induction l as [|x l IH]; [cbn; change (Qsum []) with 0; unfold Qn; cbn; ring|].
  cbn [map length]. rewrite Qsum_cons, IH. unfold Qn. rewrite Nat2Z.inj_succ, <- Z.add_1_r, inject_Z_plus. ring.
Qed.

Lemma Qsum_flat_map : forall {X} (f : X -> list Q) l,
  Qsum (flat_map f l) == Qsum (map (fun x => Qsum (f x)) l).
Proof.
  induction l as [|x l IH]; [reflexivity|].
  cbn [flat_map map]. rewrite Qsum_app, Qsum_cons, IH. reflexivity.
Qed.

(* a sum over a table is a sum over its indices *)
Lemma map_nth_seq : forall {X} (l : list X) d, map (fun i => nth i l d) (seq 0 (length l)) = l.
Proof.
  induction l as [|x l IH]; intros d; [reflexivity|].
  cbn [length seq map nth]. f_equal. rewrite <- seq_shift, map_map. apply IH.
Qed.

Lemma Qsum_index : forall {X} (g : X -> Q) (l : list X) d,
  Qsum (map g l) == Qsum (map (fun i => g (nth i l d)) (seq 0 (length l))).
Proof.
  intros. rewrite <- (map_nth_seq l d) at 1. rewrite map_map. reflexivity.
Qed.

Lemma Qn_S : forall n, Qn (S n) == Qn n + 1.
Proof. intros. unfold Qn. rewrite Nat2Z.inj_succ, <- Z.add_1_r, inject_Z_plus. reflexivity. Qed.

Lemma Qn_pos : forall n, (0 < n)%nat -> 0 < Qn n.
Proof. intros n H. unfold Qn, Qlt; cbn. lia. Qed.

(* ------------------------------------------------------------------------------------------ *)
(* dual numbers: projections of sums and means                                                  *)
(* ------------------------------------------------------------------------------------------ *)
Lemma dsum_fst : forall l, fst (dsum l) == Qsum (map fst l).
Proof.
  induction l as [|a l IH]; [reflexivity|].
  unfold dsum in *; cbn [fold_right map]. unfold dred, dadd; cbn [fst snd].
  rewrite Qred_correct, IH, Qsum_cons. reflexivity.
Qed.

Lemma dsum_snd : forall l, snd (dsum l) == Qsum (map snd l).
Proof.
  induction l as [|a l IH]; [reflexivity|].
  unfold dsum in *; cbn [fold_right map]. unfold dred, dadd; cbn [fst snd].
  rewrite Qred_correct, IH, Qsum_cons. reflexivity.
Qed.

Lemma dmean_fst : forall l, fst (dmean l) == / Qn (length l) * Qsum (map fst l).
Proof. intros. unfold dmean, dscale; cbn [fst]. rewrite dsum_fst. reflexivity. Qed.

Lemma dmean_snd : forall l, snd (dmean l) == / Qn (length l) * Qsum (map snd l).
Proof. intros. unfold dmean, dscale; cbn [snd]. rewrite dsum_snd. reflexivity. Qed.

Lemma map2_map_map : forall {X A B C} (g : A -> B -> C) (a : X -> A) (b : X -> B) l,
  map2 g (map a l) (map b l) = map (fun x => g (a x) (b x)) l.
Proof. induction l as [|x l IH]; [reflexivity|]. cbn. f_equal. exact IH. Qed.

Lemma map2_map_l : forall {X A B C} (g : A -> B -> C) (a : X -> A) l (l' : list B),
  map2 g (map a l) l' = map2 (fun x y => g (a x) y) l l'.
Proof. induction l as [|x l IH]; intros [|y l']; cbn; try reflexivity. f_equal. apply IH. Qed.

Lemma map2_same : forall {X C} (g : X -> X -> C) l, map2 g l l = map (fun x => g x x) l.
Proof. induction l as [|x l IH]; [reflexivity|]. cbn. f_equal. exact IH. Qed.

(* ------------------------------------------------------------------------------------------ *)
(* the sample space: tuples and their weights                                                   *)
(* ------------------------------------------------------------------------------------------ *)
Section Space.
  Variable qd : ptable.
  Let n := length qd.
  Let P := pr qd.

  Definition Esp (N : nat) (G : list nat -> Q) : Q :=
    Qsum (map (fun t => weight qd t * G t) (tuples n N)).

  Lemma tuples_length : forall N t, In t (tuples n N) -> length t = N.
  Proof.
    induction N as [|N IH]; intros t H.
    - cbn in H. destruct H as [<-|[]]. reflexivity.
    - cbn [tuples] in H. apply in_flat_map in H. destruct H as [i [_ H]].
      apply in_map_iff in H. destruct H as [t' [<- H]]. cbn. f_equal. auto.
  Qed.

  Lemma Esp_ext : forall N G G', (forall t, In t (tuples n N) -> G t == G' t) -> Esp N G == Esp N G'.
  Proof. intros N G G' H. unfold Esp. apply Qsum_map_ext. intros t Ht. rewrite (H t Ht). reflexivity. Qed.

  Lemma Esp_0 : forall G, Esp 0 G == G [].
  Proof.
    intros. unfold Esp. cbn [tuples map]. rewrite Qsum_cons. change (Qsum []) with 0.
    unfold weight, Qprod; cbn [map fold_right]. ring.
  Qed.

  Lemma Esp_S : forall N G,
    Esp (S N) G == Qsum (map (fun i => P i * Esp N (fun t => G (i :: t))) (seq 0 n)).
  Proof.
    intros N G. unfold Esp. cbn [tuples]. rewrite flat_map_concat_map, concat_map, map_map.
    rewrite <- flat_map_concat_map, Qsum_flat_map. apply Qsum_map_ext. intros i _.
    rewrite map_map. rewrite <- Qsum_map_scale. apply Qsum_map_ext. intros t _.
    unfold weight, P, Qprod; cbn [map fold_right]. ring.
  Qed.

  Lemma Esp_add : forall N G G', Esp N (fun t => G t + G' t) == Esp N G + Esp N G'.
  Proof.
    intros. unfold Esp. rewrite <- Qsum_map_add. apply Qsum_map_ext. intros; ring.
  Qed.

  Lemma Esp_scale : forall N c G, Esp N (fun t => c * G t) == c * Esp N G.
  Proof.
    intros. unfold Esp. rewrite <- Qsum_map_scale. apply Qsum_map_ext. intros; ring.
  Qed.

  Hypothesis total_one : Qsum (map fst qd) == 1.

  Lemma sumP_one : Qsum (map P (seq 0 n)) == 1.
  Proof.
    rewrite <- total_one. unfold P, pr, n. symmetry. apply (Qsum_index fst qd (0, 0)).
  Qed.

  Lemma Esp_const : forall N c, Esp N (fun _ => c) == c.
  Proof.
    induction N as [|N IH]; intros c.
    - apply Esp_0.
    - rewrite Esp_S. rewrite (Qsum_map_ext _ (fun i => c * P i)).
      + rewrite Qsum_map_scale, sumP_one. ring.
      + intros i _. rewrite IH. ring.
  Qed.

  (* E[ sum_{j in t} h(t_j) ] = N * sum_i P(i) h(i) *)
  Lemma Esp_sum_positions : forall (h : nat -> Q) N,
    Esp N (fun t => Qsum (map h t)) == Qn N * Qsum (map (fun i => P i * h i) (seq 0 n)).
  Proof.
    intros h. induction N as [|N IH].
    - rewrite Esp_0. cbn. unfold Qn; cbn. ring.
    - rewrite Esp_S.
      rewrite (Qsum_map_ext _ (fun i => P i * h i + P i * (Qn N * Qsum (map (fun i => P i * h i) (seq 0 n))))).
      + rewrite Qsum_map_add, Qsum_map_scale_r, sumP_one, Qn_S. ring.
      + intros i _.
        rewrite (Esp_ext N _ (fun t => h i + Qsum (map h t))) by (intros; cbn [map]; apply Qsum_cons).
        rewrite Esp_add, Esp_const, IH. ring.
  Qed.

  (* the mean over the N positions *)
  Lemma Esp_mean_positions : forall (h : nat -> Q) N, (0 < N)%nat ->
    Esp N (fun t => / Qn (length t) * Qsum (map h t)) == Qsum (map (fun i => P i * h i) (seq 0 n)).
  Proof.
    intros h N HN.
    rewrite (Esp_ext N _ (fun t => / Qn N * Qsum (map h t))).
    - rewrite Esp_scale, Esp_sum_positions. field. intro E. pose proof (Qn_pos N HN) as L. rewrite E in L. discriminate.
    - intros t Ht. rewrite (tuples_length N t Ht). reflexivity.
  Qed.
End Space.

(* ------------------------------------------------------------------------------------------ *)
(* DirectEstimator                                                                              *)
(* ------------------------------------------------------------------------------------------ *)

Lemma dual_combo_fst : forall a b, fst (dsub (dadd a b) (detach b)) == fst a.
Proof. intros. unfold dsub, dadd, detach; cbn [fst snd]. ring. Qed.
Lemma dual_combo_snd : forall a b, snd (dsub (dadd a b) (detach b)) == snd a + snd b.
Proof. intros. unfold dsub, dadd, detach; cbn [fst snd]. ring. Qed.

Section Direct.
  Variables (pd : ptable) (f cv : list dual) (ell : list Q) (use_cv : bool) (cvm : dual).

  Definition fprime (i : nat) : dual :=
    if use_cv then dadd (dsub (fn f i) (fn cv i)) cvm else fn f i.

  Lemma direct_at_fst : forall t,
    fst (direct_at use_cv cvm pd f cv ell t) == / Qn (length t) * Qsum (map (fun i => fst (fprime i)) t).
  Proof.
    intros t. unfold direct_at, direct. rewrite dual_combo_fst.
    rewrite dmean_fst, !map_map, !map_length. cbn [d_f d_cv d_logp]. reflexivity.
  Qed.

  Lemma direct_at_snd : forall t,
    snd (direct_at use_cv cvm pd f cv ell t) ==
    / Qn (length t) * Qsum (map (fun i => snd (fprime i) + fst (fprime i) * dlogp pd i) t).
  Proof.
    intros t. unfold direct_at, direct. rewrite dual_combo_snd.
    rewrite !map_map. cbn [d_f d_cv d_logp].
    rewrite (map2_map_map (fun f0 d => dmul (detach f0) (d_logp d))).
    rewrite !dmean_snd, !map_map, !map_length. cbn [d_f d_cv d_logp].
    fold fprime. rewrite <- Qmult_plus_distr_r, <- Qsum_map_add.
    apply Qmult_comp; [reflexivity|]. apply Qsum_map_ext. intros i _.
    unfold dmul, detach; cbn [fst snd]. unfold fprime. ring.
  Qed.
End Direct.

Lemma Qsum_seq_S : forall (k : nat -> Q) n,
  Qsum (map k (seq 0 (S n))) == k 0%nat + Qsum (map (fun i => k (S i)) (seq 0 n)).
Proof. intros. cbn [seq map]. rewrite Qsum_cons, <- seq_shift, map_map. reflexivity. Qed.

Lemma Qsum_zero : forall {X} (k : X -> Q) l, (forall x, In x l -> k x == 0) -> Qsum (map k l) == 0.
Proof.
  intros X k l H. rewrite (Qsum_map_ext k (fun _ => 0) l H), Qsum_map_const. ring.
Qed.

Lemma fn_nil : forall i, fn [] i = dzero.
Proof. intros [|i]; reflexivity. Qed.

Lemma Qsum_map2_index : forall (h : dual -> Q) (g : Q * Q -> dual -> dual) pd f,
  (forall p, h (g p dzero) == 0) ->
  Qsum (map h (map2 g pd f)) ==
  Qsum (map (fun i => h (g (nth i pd (0, 0)) (fn f i))) (seq 0 (length pd))).
Proof.
  intros h g pd. induction pd as [|p pd IH]; intros f Hz.
  - reflexivity.
  - destruct f as [|a f].
    + cbn [map2 map]. symmetry. apply Qsum_zero. intros i _. rewrite fn_nil. apply Hz.
    + cbn [map2 map length]. rewrite Qsum_cons, Qsum_seq_S, (IH f Hz). reflexivity.
Qed.

Lemma exact_fst : forall pd f,
  fst (exact pd f) == Qsum (map (fun i => pr pd i * fst (fn f i)) (seq 0 (length pd))).
Proof.
  intros. unfold exact, expect_dual. rewrite dsum_fst.
  rewrite (Qsum_map2_index fst).
  - apply Qsum_map_ext. intros i _. reflexivity.
  - intros p. cbn. ring.
Qed.

Lemma exact_snd : forall pd f,
  snd (exact pd f) ==
  Qsum (map (fun i => dpr pd i * fst (fn f i) + pr pd i * snd (fn f i)) (seq 0 (length pd))).
Proof.
  intros. unfold exact, expect_dual. rewrite dsum_snd.
  rewrite (Qsum_map2_index snd).
  - apply Qsum_map_ext. intros i _. reflexivity.
  - intros p. cbn. ring.
Qed.

Lemma space_average_fst : forall qd N G,
  fst (space_average qd N G) == Esp qd N (fun t => fst (G t)).
Proof.
  intros. unfold space_average, Esp. rewrite dsum_fst, map_map. apply Qsum_map_ext. intros; reflexivity.
Qed.

Lemma space_average_snd : forall qd N G,
  snd (space_average qd N G) == Esp qd N (fun t => snd (G t)).
Proof.
  intros. unfold space_average, Esp. rewrite dsum_snd, map_map. apply Qsum_map_ext. intros; reflexivity.
Qed.

Lemma sum_dpr_zero : forall pd, Qsum (map snd pd) == 0 ->
  Qsum (map (dpr pd) (seq 0 (length pd))) == 0.
Proof. intros pd H. rewrite <- H. symmetry. apply (Qsum_index snd pd (0, 0)). Qed.

Lemma pr_pos : forall pd i, Forall (fun e => 0 < fst e) pd -> (i < length pd)%nat -> 0 < pr pd i.
Proof.
  intros pd i H Hi. unfold pr. rewrite Forall_forall in H. apply H. apply nth_In. exact Hi.
Qed.

Lemma pr_nz : forall pd i, Forall (fun e => 0 < fst e) pd -> In i (seq 0 (length pd)) -> ~ pr pd i == 0.
Proof.
  intros pd i H Hi E. apply in_seq in Hi. pose proof (pr_pos pd i H ltac:(lia)) as L. rewrite E in L. discriminate.
Qed.

Theorem direct_unbiased : forall pd f cv ell use_cv cvm N,
  (0 < N)%nat -> is_dist pd ->
  (use_cv = true -> deq cvm (exact pd cv)) ->
  unbiased pd pd f N (direct_at use_cv cvm pd f cv ell).
Proof.
  intros pd f cv ell use_cv cvm N HN [H1 [H0 Hpos]] Hcv. unfold unbiased. split.
  - rewrite space_average_fst.
    rewrite (Esp_ext pd N _ (fun t => / Qn (length t) * Qsum (map (fun i => fst (fprime f cv use_cv cvm i)) t)))
      by (intros; apply direct_at_fst).
    rewrite (Esp_mean_positions pd H1 _ N HN), exact_fst.
    destruct use_cv; unfold fprime; [|reflexivity].
    destruct (Hcv eq_refl) as [Hc1 _]. rewrite exact_fst in Hc1.
    rewrite (Qsum_map_ext _ (fun i => pr pd i * fst (fn f i) + (-(1)) * (pr pd i * fst (fn cv i)) + pr pd i * fst cvm)).
    + rewrite !Qsum_map_add, Qsum_map_scale, Qsum_map_scale_r, <- Hc1, (sumP_one pd H1). ring.
    + intros i _. unfold dadd, dsub; cbn [fst snd]. ring.
  - rewrite space_average_snd.
    rewrite (Esp_ext pd N _ (fun t => / Qn (length t) *
               Qsum (map (fun i => snd (fprime f cv use_cv cvm i) + fst (fprime f cv use_cv cvm i) * dlogp pd i) t)))
      by (intros; apply direct_at_snd).
    rewrite (Esp_mean_positions pd H1 _ N HN), exact_snd.
    destruct use_cv; unfold fprime.
    + destruct (Hcv eq_refl) as [Hc1 Hc2]. rewrite exact_fst in Hc1. rewrite exact_snd in Hc2.
      rewrite (Qsum_map_ext _ (fun i => (dpr pd i * fst (fn f i) + pr pd i * snd (fn f i))
                 + (-(1)) * (dpr pd i * fst (fn cv i) + pr pd i * snd (fn cv i))
                 + pr pd i * snd cvm + dpr pd i * fst cvm)).
      * rewrite !Qsum_map_add, Qsum_map_scale, !Qsum_map_scale_r, <- Hc2, (sumP_one pd H1), (sum_dpr_zero pd H0). ring.
      * intros i Hi. unfold dadd, dsub, dlogp; cbn [fst snd]. field. exact (pr_nz pd i Hpos Hi).
    + apply Qsum_map_ext. intros i Hi. unfold dlogp. field. exact (pr_nz pd i Hpos Hi).
Qed.

(* ------------------------------------------------------------------------------------------ *)
(* ImportanceSamplingEstimator, EnumerateEstimator, relaxed estimators (value)                  *)
(* ------------------------------------------------------------------------------------------ *)

Ltac inseq Hlen Hi := first [exact Hi | rewrite Hlen; exact Hi | rewrite <- Hlen; exact Hi].

Section Importance.
  Variables (pd qd : ptable) (f : list dual).

  Lemma importance_at_unfold : forall t,
    importance_at false pd qd f t =
    dsum (map (fun i => dmul (fn f i)
                 (lexp (lsub (lsub (lprob pd i)
                                   (fst (ldetach (lprob qd i)),
                                    snd (ldetach (lprob qd i)) + 0 * Qsum (map snd (map (lprob qd) t))))
                             (Qn (length t), 0)))) t).
  Proof.
    intros t. unfold importance_at, importance.
    rewrite !map_length, !map_map.
    rewrite (map2_map_map lsub), map_map.
    rewrite (map2_map_map (fun f0 l => dmul f0 (lexp l))). reflexivity.
  Qed.

  Lemma importance_at_fst : forall t,
    fst (importance_at false pd qd f t) ==
    / Qn (length t) * Qsum (map (fun i => fst (fn f i) * (pr pd i / pr qd i)) t).
  Proof.
    intros t. rewrite importance_at_unfold, dsum_fst, map_map, <- (Qsum_map_scale (/ Qn (length t))).
    apply Qsum_map_ext. intros i _. unfold dmul, lexp, lsub, ldetach, lprob; cbn [fst snd].
    unfold Qdiv. ring.
  Qed.

  Lemma importance_at_snd : forall t,
    snd (importance_at false pd qd f t) ==
    / Qn (length t) * Qsum (map (fun i => fst (fn f i) * (pr pd i / pr qd i) * dlogp pd i
                                          + snd (fn f i) * (pr pd i / pr qd i)) t).
  Proof.
    intros t. rewrite importance_at_unfold, dsum_snd, map_map, <- (Qsum_map_scale (/ Qn (length t))).
    apply Qsum_map_ext. intros i _. unfold dmul, lexp, lsub, ldetach, lprob; cbn [fst snd].
    unfold Qdiv. ring.
  Qed.

  Theorem importance_unbiased : forall N,
    (0 < N)%nat -> length pd = length qd ->
    Qsum (map fst qd) == 1 -> Forall (fun e => 0 < fst e) qd -> is_density pd ->
    unbiased pd qd f N (importance_at false pd qd f).
  Proof.
    intros N HN Hlen H1 Hq Hp. unfold unbiased. split.
    - rewrite space_average_fst.
      rewrite (Esp_ext qd N _ _ (fun t _ => importance_at_fst t)).
      rewrite (Esp_mean_positions qd H1 _ N HN), exact_fst, Hlen.
      apply Qsum_map_ext. intros i Hi. field. apply (pr_nz qd i Hq). inseq Hlen Hi.
    - rewrite space_average_snd.
      rewrite (Esp_ext qd N _ _ (fun t _ => importance_at_snd t)).
      rewrite (Esp_mean_positions qd H1 _ N HN), exact_snd, Hlen.
      apply Qsum_map_ext. intros i Hi. unfold dlogp.
      assert (Hi1 : In i (seq 0 (length pd))) by (inseq Hlen Hi).
      assert (Hi2 : In i (seq 0 (length qd))) by (inseq Hlen Hi).
      pose proof (pr_nz pd i Hp Hi1). pose proof (pr_nz qd i Hq Hi2). field. tauto.
  Qed.
End Importance.

Theorem enumerate_exact : forall pd f,
  length f = length pd -> is_density pd -> deq (enumerate_est pd f) (exact pd f).
Proof.
  intros pd f Hlen Hp. unfold enumerate_est.
  rewrite <- (map_nth_seq f dzero) at 1. rewrite Hlen, map2_map_l, map2_same.
  split.
  - rewrite dsum_fst, map_map, exact_fst. apply Qsum_map_ext. intros i _.
    unfold dmul, lexp, lprob, fn; cbn [fst snd]. ring.
  - rewrite dsum_snd, map_map, exact_snd. apply Qsum_map_ext. intros i Hi.
    unfold dmul, lexp, lprob, fn, dlogp; cbn [fst snd]. field. exact (pr_nz pd i Hp Hi).
Qed.

Lemma straight_through_value : forall fs,
  fst (straight_through fs) == / Qn (length fs) * Qsum (map fst fs).
Proof. intros. apply dmean_fst. Qed.

Lemma map2_length_same : forall {X A C} (g : A -> X -> C) (a : X -> A) (l : list X),
  length (map2 g (map a l) l) = length l.
Proof. induction l as [|x l IH]; [reflexivity|]. cbn. f_equal. exact IH. Qed.

Theorem relax_value : forall ds, ds <> [] ->
  fst (relax ds) ==
  / Qn (length ds) * Qsum (map (fun d => fst (r_f d) - fst (r_cvzc d) + fst (r_cvz d)) ds).
Proof.
  intros ds Hne. unfold relax.
  rewrite dmean_fst, map_map.
  rewrite (Qsum_map_ext _ (fun _ => fst (dmean (map2 (fun a d => dadd a (r_cvz d))
                                            (map (fun d => dsub (r_f d) (r_cvzc d)) ds) ds))))
    by (intros; apply dual_combo_fst).
  rewrite Qsum_map_const, map_length, map2_length_same.
  rewrite dmean_fst, map2_length_same.
  rewrite (map2_map_l (fun a d => dadd a (r_cvz d))), map2_same, map_map.
  assert (Hn : ~ Qn (length ds) == 0).
  { destruct ds as [|d ds']; [congruence|]. intro E.
    pose proof (Qn_pos (length (d :: ds')) ltac:(cbn; lia)) as L. rewrite E in L. discriminate. }
  rewrite (Qsum_map_ext (fun x => fst (dadd (dsub (r_f x) (r_cvzc x)) (r_cvz x)))
                        (fun d => fst (r_f d) - fst (r_cvzc d) + fst (r_cvz d)))
    by (intros; unfold dadd, dsub; cbn [fst snd]; reflexivity).
  field. exact Hn.
Qed.

(* ------------------------------------------------------------------------------------------ *)
(* straight-through value, Metropolis-Hastings, joint tables                                    *)
(* ------------------------------------------------------------------------------------------ *)

(* value of the straight-through estimator: unbiased whenever the thresholded sample follows pd *)
Theorem straight_through_value_unbiased : forall pd f N,
  (0 < N)%nat -> Qsum (map fst pd) == 1 ->
  fst (space_average pd N (fun t => straight_through (map (fn f) t))) == fst (exact pd f).
Proof.
  intros pd f N HN H1. rewrite space_average_fst.
  rewrite (Esp_ext pd N _ (fun t => / Qn (length t) * Qsum (map (fun i => fst (fn f i)) t))).
  - rewrite (Esp_mean_positions pd H1 _ N HN), exact_fst. reflexivity.
  - intros t _. rewrite straight_through_value, map_length, map_map. reflexivity.
Qed.

(* ---------------- Metropolis-Hastings ---------------- *)
Lemma imh_accepts_all : forall w c props us last wl,
  0 < c -> (forall i, w i == c) -> wl == c ->
  Forall (fun u => 0 <= u /\ u < 1) us -> (length props <= length us)%nat ->
  imh_chain w last (Some wl) props us = props.
Proof.
  intros w c props. induction props as [|p props IH]; intros us last wl Hc Hw Hwl Hus Hlen.
  - destruct us; reflexivity.
  - destruct us as [|u us]; [cbn in Hlen; lia|].
    inversion Hus as [|? ? [Hu0 Hu1] Hus']; subst.
    cbn [imh_chain].
    destruct (Qle_bool (w p) (u * wl)) eqn:E.
    + exfalso. apply Qle_bool_iff in E. rewrite Hw, Hwl in E.
      assert (u * c < 1 * c) by (apply Qmult_lt_compat_r; assumption).
      rewrite Qmult_1_l in H. apply (Qlt_irrefl c). eapply Qle_lt_trans; eassumption.
    + cbn [negb]. f_equal. apply (IH us p (w p)); auto. cbn in Hlen; lia.
Qed.

Theorem mh_accepts_all_when_equal : forall w c f init props us burn,
  0 < c -> (forall i, w i == c) ->
  Forall (fun u => 0 <= u /\ u < 1) us -> (length props <= length us)%nat ->
  imh_chain w init (Some (w init)) props us = props /\
  imh_element w f init props us burn = Qsum (map f (skipn burn props)) / Qn (length props - burn).
Proof.
  intros w c f init props us burn Hc Hw Hus Hlen.
  assert (E : imh_chain w init (Some (w init)) props us = props) by (apply (imh_accepts_all w c); auto).
  split; [exact E|]. unfold imh_element, imh_value. rewrite E. reflexivity.
Qed.

(* drawing the starting point: the first draw is taken as soon as it lies in the target's support *)
Lemma find_initial_first : forall insupp d0 rest tries,
  all_in insupp d0 = true -> find_initial insupp (d0 :: rest) tries = Some (d0, 1%nat).
Proof. intros. unfold find_initial. rewrite H. reflexivity. Qed.

(* ---------------- independent variables: the joint table is a distribution ---------------- *)
Lemma Qsum_flat_map_prod : forall (v r : ptable) (g : Q * Q -> Q * Q -> Q),
  Qsum (map fst (flat_map (fun a => map (fun b => (fst a * fst b, fst a * snd b + snd a * fst b)) r) v))
  == Qsum (map fst v) * Qsum (map fst r).
Proof.
  intros v r _. induction v as [|a v IH].
  - cbn. change (Qsum []) with 0. ring.
  - cbn [flat_map map]. rewrite map_app, Qsum_app, IH, map_map. cbn [fst]. rewrite Qsum_cons.
    rewrite (Qsum_map_scale (fst a) fst r). ring.
Qed.

Lemma Qsum_flat_map_dprod : forall (v r : ptable),
  Qsum (map snd (flat_map (fun a => map (fun b => (fst a * fst b, fst a * snd b + snd a * fst b)) r) v))
  == Qsum (map fst v) * Qsum (map snd r) + Qsum (map snd v) * Qsum (map fst r).
Proof.
  intros v r. induction v as [|a v IH].
  - cbn. change (Qsum []) with 0. ring.
  - cbn [flat_map map]. rewrite map_app, Qsum_app, IH, map_map. cbn [snd]. rewrite !Qsum_cons.
    rewrite (Qsum_map_add (fun b => fst a * snd b) (fun b => snd a * fst b) r).
    rewrite (Qsum_map_scale (fst a) snd r), (Qsum_map_scale (snd a) fst r). ring.
Qed.

Theorem joint_is_dist : forall vs, Forall is_dist vs -> is_dist (joint vs).
Proof.
  induction vs as [|v vs IH]; intros H.
  - unfold is_dist; cbn. repeat split; try reflexivity. constructor; [reflexivity|constructor].
  - inversion H as [|? ? [Hv1 [Hv0 Hvp]] Hvs]; subst. destruct (IH Hvs) as [Hr1 [Hr0 Hrp]].
    cbn [joint]. repeat split.
    + rewrite (Qsum_flat_map_prod v (joint vs) (fun _ _ => 0)), Hv1, Hr1. ring.
    + rewrite Qsum_flat_map_dprod, Hv1, Hr1, Hv0, Hr0. ring.
    + apply Forall_forall. intros e He. apply in_flat_map in He. destruct He as [a [Ha He]].
      apply in_map_iff in He. destruct He as [b [<- Hb]]. cbn [fst].
      rewrite Forall_forall in Hvp, Hrp. apply Qmult_lt_0_compat; auto.
Qed.

(* ------------------------------------------------------------------------------------------ *)
(* RELAX: the control-variate terms cancel in the mean when the relaxed law factorises          *)
(* ------------------------------------------------------------------------------------------ *)

Lemma Qsum_swap : forall {X Y} (F : X -> Y -> Q) lx ly,
  Qsum (map (fun x => Qsum (map (fun y => F x y) ly)) lx) ==
  Qsum (map (fun y => Qsum (map (fun x => F x y) lx)) ly).
Proof.
  intros X Y F lx ly. induction lx as [|x lx IH].
  - cbn [map]. change (Qsum []) with 0. symmetry. apply Qsum_zero. intros; reflexivity.
  - cbn [map]. rewrite Qsum_cons, IH, <- Qsum_map_add. apply Qsum_map_ext. intros y _.
    rewrite Qsum_cons. reflexivity.
Qed.

Lemma Qsum_indicator : forall (k n : nat) (a : Q), (k < n)%nat ->
  Qsum (map (fun b => if Nat.eqb k b then a else 0) (seq 0 n)) == a.
Proof.
  intros k n a Hk. replace n with (k + S (n - k - 1))%nat by lia.
  rewrite seq_app, map_app, Qsum_app. cbn [seq map]. rewrite Qsum_cons, Nat.eqb_refl.
  rewrite !Qsum_zero; [ring| |].
  - intros b Hb. apply in_seq in Hb. destruct (Nat.eqb_spec k b); [lia|reflexivity].
  - intros b Hb. apply in_seq in Hb. destruct (Nat.eqb_spec k b); [lia|reflexivity].
Qed.

(* A finite relaxed law: relaxed points z < m with weights r z, threshold Hth z < n, conditional weights
   kap b zc.  Discrete form of "the relaxed density factors as threshold probability times conditional
   density":   P(b) * kap b zc  ==  r zc * [Hth zc = b],   P(b) = sum of r over { z | Hth z = b }. *)
Section RelaxMean.
  Variables (m n : nat) (r : nat -> Q) (Hth : nat -> nat) (kap : nat -> nat -> Q).
  Variables (f : nat -> Q) (c : nat -> Q).

  Definition Pth (b : nat) : Q := Qsum (map (fun z => if Nat.eqb (Hth z) b then r z else 0) (seq 0 m)).

  Hypothesis Hth_range : forall z, (z < m)%nat -> (Hth z < n)%nat.
  Hypothesis factorises : forall b zc, (b < n)%nat -> (zc < m)%nat ->
    Pth b * kap b zc == if Nat.eqb (Hth zc) b then r zc else 0.

  (* a sum over relaxed points grouped by their thresholded value *)
  Lemma group_by_threshold : forall g : nat -> Q,
    Qsum (map (fun z => r z * g (Hth z)) (seq 0 m)) == Qsum (map (fun b => Pth b * g b) (seq 0 n)).
  Proof.
    intros g. unfold Pth.
    rewrite (Qsum_map_ext (fun b => Qsum (map (fun z => if Nat.eqb (Hth z) b then r z else 0) (seq 0 m)) * g b)
                          (fun b => Qsum (map (fun z => (if Nat.eqb (Hth z) b then r z else 0) * g b) (seq 0 m)))).
    2:{ intros b _. rewrite Qsum_map_scale_r. reflexivity. }
    rewrite (Qsum_swap (fun b z => (if Nat.eqb (Hth z) b then r z else 0) * g b)).
    apply Qsum_map_ext. intros z Hz. apply in_seq in Hz.
    rewrite (Qsum_map_ext _ (fun b => if Nat.eqb (Hth z) b then r z * g (Hth z) else 0)).
    - rewrite Qsum_indicator; [reflexivity|]. apply Hth_range. lia.
    - intros b _. destruct (Nat.eqb_spec (Hth z) b); [subst; ring|ring].
  Qed.

  (* expectation of the one-sample RELAX value  f(H z) - c(zc) + c(z),  z ~ r,  zc ~ kap (H z) *)
  Theorem relax_mean_exact :
    Qsum (map (fun z => Qsum (map (fun zc => r z * kap (Hth z) zc * (f (Hth z) - c zc + c z)) (seq 0 m))) (seq 0 m))
    == Qsum (map (fun b => Pth b * f b) (seq 0 n)).
  Proof.
    set (K := fun b => Qsum (map (kap b) (seq 0 m))).
    set (Cc := fun b => Qsum (map (fun zc => kap b zc * c zc) (seq 0 m))).
    rewrite (Qsum_map_ext _ (fun z => r z * (f (Hth z) * K (Hth z) - Cc (Hth z)) + r z * c z * K (Hth z))).
    2:{ intros z _. unfold K, Cc.
        rewrite (Qsum_map_ext _ (fun zc => (r z * f (Hth z)) * kap (Hth z) zc
                                            + (-(1) * r z) * (kap (Hth z) zc * c zc) + (r z * c z) * kap (Hth z) zc))
          by (intros; ring).
        rewrite !Qsum_map_add, !Qsum_map_scale. ring. }
    rewrite Qsum_map_add.
    rewrite (group_by_threshold (fun b => f b * K b - Cc b)).
    (* P b * K b == P b  and  sum_b P b * Cc b == sum_z r z c z *)
    assert (PK : forall b, In b (seq 0 n) -> Pth b * K b == Pth b).
    { intros b Hb. apply in_seq in Hb. unfold K. rewrite <- Qsum_map_scale.
      rewrite (Qsum_map_ext _ (fun zc => if Nat.eqb (Hth zc) b then r zc else 0)).
      - reflexivity.
      - intros zc Hz. apply in_seq in Hz. apply factorises; lia. }
    assert (PC : Qsum (map (fun b => Pth b * Cc b) (seq 0 n)) == Qsum (map (fun z => r z * c z) (seq 0 m))).
    { unfold Cc.
      rewrite (Qsum_map_ext _ (fun b => Qsum (map (fun zc => (if Nat.eqb (Hth zc) b then r zc else 0) * c zc) (seq 0 m)))).
      2:{ intros b Hb. apply in_seq in Hb. rewrite <- Qsum_map_scale. apply Qsum_map_ext. intros zc Hz.
          apply in_seq in Hz. rewrite <- (factorises b zc) by lia. ring. }
      rewrite (Qsum_swap (fun b zc => (if Nat.eqb (Hth zc) b then r zc else 0) * c zc)).
      apply Qsum_map_ext. intros zc Hz. apply in_seq in Hz.
      rewrite (Qsum_map_ext _ (fun b => if Nat.eqb (Hth zc) b then r zc * c zc else 0)).
      - apply Qsum_indicator. apply Hth_range. lia.
      - intros b _. destruct (Nat.eqb (Hth zc) b); ring. }
    assert (RK : Qsum (map (fun z => r z * c z * K (Hth z)) (seq 0 m)) == Qsum (map (fun z => r z * c z) (seq 0 m))).
    { (* group by the threshold value of z, carrying c z along: use the factorisation pointwise *)
      rewrite (Qsum_map_ext _ (fun z => Qsum (map (fun b => if Nat.eqb (Hth z) b then r z * c z * K b else 0) (seq 0 n)))).
      2:{ intros z Hz. apply in_seq in Hz. symmetry.
          rewrite (Qsum_map_ext _ (fun b => if Nat.eqb (Hth z) b then r z * c z * K (Hth z) else 0)).
          - apply Qsum_indicator. apply Hth_range; lia.
          - intros b _. destruct (Nat.eqb_spec (Hth z) b); [subst; reflexivity|reflexivity]. }
      rewrite (Qsum_swap (fun z b => if Nat.eqb (Hth z) b then r z * c z * K b else 0)).
      rewrite (Qsum_map_ext _ (fun b => Qsum (map (fun z => (if Nat.eqb (Hth z) b then r z else 0) * c z) (seq 0 m)))).
      2:{ intros b Hb. apply in_seq in Hb.
          (* sum_z [H z = b] r z c z K b : replace [H z = b] r z by P b * kap b z, then P b K b = P b *)
          rewrite (Qsum_map_ext _ (fun z => (Pth b * K b) * (kap b z * c z))).
          - rewrite (Qsum_map_scale (Pth b * K b)), (PK b) by (apply in_seq; lia).
            rewrite <- Qsum_map_scale. apply Qsum_map_ext. intros z Hz. apply in_seq in Hz.
            rewrite <- (factorises b z) by lia. ring.
          - intros z Hz. apply in_seq in Hz. rewrite <- (Qmult_assoc (Pth b)), (Qmult_comm (K b)), !Qmult_assoc.
            rewrite (factorises b z) by lia. destruct (Nat.eqb (Hth z) b); ring. }
      rewrite (Qsum_swap (fun b z => (if Nat.eqb (Hth z) b then r z else 0) * c z)).
      apply Qsum_map_ext. intros z Hz. apply in_seq in Hz.
      rewrite (Qsum_map_ext _ (fun b => if Nat.eqb (Hth z) b then r z * c z else 0)).
      - apply Qsum_indicator. apply Hth_range. lia.
      - intros b _. destruct (Nat.eqb (Hth z) b); ring. }
    rewrite RK.
    rewrite (Qsum_map_ext (fun b => Pth b * (f b * K b - Cc b)) (fun b => Pth b * f b + (-(1)) * (Pth b * Cc b))).
    2:{ intros b Hb. rewrite <- (PK b Hb) at 2. ring. }
    rewrite Qsum_map_add, Qsum_map_scale, PC. ring.
  Qed.
End RelaxMean.
