(* C17 - lemmas: alignments <-> token segments (run-length coding and the validity checks). *)
From Coq Require Import List ZArith Bool Arith Lia.
From PV Require Import C11.Model C17.Model C17.Spec.
Import ListNotations.
Local Open Scope Z_scope.

Definition runs_expand (runs : list (Z * Z)) : list Z :=
  flat_map (fun vc : Z * Z => repeat (fst vc) (Z.to_nat (snd vc))) runs.

Lemma rle_head l y c r : rle l = (y, c) :: r -> hd_error l = Some y.
Proof.
  destruct l as [|x t]; cbn [rle]; [discriminate|].
  destruct (rle t) as [|[y' c'] r'] eqn:E.
  - intros H. inversion H. reflexivity.
  - destruct (x =? y') eqn:Ex; intros H; inversion H; subst.
    + apply Z.eqb_eq in Ex. subst. reflexivity.
    + reflexivity.
Qed.

Lemma rle_nil l : rle l = [] -> l = [].
Proof.
  destruct l as [|x t]; [reflexivity|]. cbn [rle].
  destruct (rle t) as [|[y c] r]; [discriminate|]. destruct (x =? y); discriminate.
Qed.

Lemma rle_pos l : Forall (fun vc : Z * Z => 0 < snd vc) (rle l).
Proof.
  induction l as [|x t IH]; cbn [rle]; [constructor|].
  destruct (rle t) as [|[y c] r]; [repeat constructor|].
  inversion IH as [|? ? Hc Hr]; subst. cbn [snd] in Hc.
  destruct (x =? y); repeat constructor; cbn [snd]; try lia; assumption.
Qed.

Lemma rle_expand l : runs_expand (rle l) = l.
Proof.
  induction l as [|x t IH]; [reflexivity|]. cbn [rle].
  pose proof (rle_pos t) as P.
  destruct (rle t) as [|[y c] r] eqn:E.
  - apply rle_nil in E. subst. reflexivity.
  - pose proof (Forall_inv P) as Hc. cbn [snd] in Hc.
    destruct (x =? y) eqn:Ex.
    + apply Z.eqb_eq in Ex. rewrite Ex. unfold runs_expand in *. cbn [flat_map fst snd] in *.
      replace (Z.to_nat (c + 1)) with (S (Z.to_nat c)) by lia. cbn [repeat app]. rewrite IH. reflexivity.
    + unfold runs_expand in *. cbn [flat_map fst snd] in *. rewrite IH. reflexivity.
Qed.

(* neighbouring runs carry different values *)
Fixpoint runs_distinct (runs : list (Z * Z)) : Prop :=
  match runs with
  | a :: ((b :: _) as t) => fst a <> fst b /\ runs_distinct t
  | _ => True
  end.

Lemma rle_distinct l : runs_distinct (rle l).
Proof.
  induction l as [|x t IH]; cbn [rle]; [exact I|].
  destruct (rle t) as [|[y c] r] eqn:E; [exact I|].
  destruct (x =? y) eqn:Ex.
  - destruct r; [exact I|]. cbn [runs_distinct fst] in *. exact IH.
  - apply Z.eqb_neq in Ex. cbn [runs_distinct fst]. split; [exact Ex|exact IH].
Qed.

Lemma expand_segs runs : forall s,
  Forall (fun vc : Z * Z => 0 <= snd vc) runs -> expand_rows (segs s runs) = runs_expand runs.
Proof.
  induction runs as [|[v c] t IH]; intros s H; [reflexivity|].
  inversion H as [|? ? Hc Ht]; subst. cbn [segs]. unfold expand_rows, runs_expand in *.
  cbn [flat_map fst snd]. unfold row_tok, row_end, row_start. cbn [nth].
  replace (s + c - s) with c by lia. f_equal. apply IH. exact Ht.
Qed.

Lemma pos_nonneg runs : Forall (fun vc : Z * Z => 0 < snd vc) runs -> Forall (fun vc : Z * Z => 0 <= snd vc) runs.
Proof. apply Forall_impl. intros a H. lia. Qed.

(* decode (encode ali) = ali *)
Lemma expand_segs_rle v s : expand_rows (segs s (rle v)) = v.
Proof. rewrite expand_segs by (apply pos_nonneg, rle_pos). apply rle_expand. Qed.

Definition runs_total (runs : list (Z * Z)) : Z := fold_right (fun vc acc => snd vc + acc) 0 runs.

Lemma runs_total_len runs : Forall (fun vc : Z * Z => 0 <= snd vc) runs ->
  Z.of_nat (length (runs_expand runs)) = runs_total runs.
Proof.
  induction 1 as [|[v c] t Hc _ IH]; [reflexivity|]. unfold runs_expand in *. cbn [flat_map runs_total fold_right fst snd] in *.
  rewrite app_length, repeat_length. fold (runs_total t). lia.
Qed.

Lemma segs_partitions runs : forall s, Forall (fun vc : Z * Z => 0 <= snd vc) runs ->
  partitions_from s (segs s runs) (s + runs_total runs).
Proof.
  induction runs as [|[v c] t IH]; intros s H; cbn [segs partitions_from runs_total fold_right]; [lia|].
  inversion H as [|? ? Hc Ht]; subst. cbn [snd] in *. unfold row_start, row_end. cbn [nth length].
  repeat split; try lia. fold (runs_total t). replace (s + (c + runs_total t)) with (s + c + runs_total t) by lia.
  apply IH. exact Ht.
Qed.

Lemma segs_maximal runs : forall s, Forall (fun vc : Z * Z => 0 < snd vc) runs -> runs_distinct runs ->
  maximal (segs s runs).
Proof.
  induction runs as [|[v c] t IH]; intros s H D; cbn [segs maximal]; [exact I|].
  inversion H as [|? ? Hc Ht]; subst. cbn [snd] in *. unfold row_start, row_end, row_tok. cbn [nth].
  split; [lia|]. split.
  - destruct t as [|[v' c'] t']; [exact I|]. cbn [segs nth]. cbn [runs_distinct fst] in D. tauto.
  - apply IH; [exact Ht|]. destruct t; [exact I|]. cbn [runs_distinct] in D. tauto.
Qed.

(* the segmentation the command writes is the maximal partition of the alignment *)
Lemma ref_of_ali_valid v :
  partitions_from 0 (segs 0 (rle v)) (Z.of_nat (length v)) /\ maximal (segs 0 (rle v))
  /\ expand_rows (segs 0 (rle v)) = v.
Proof.
  split; [|split].
  - pose proof (segs_partitions (rle v) 0 (pos_nonneg _ (rle_pos v))) as H.
    rewrite <- (runs_total_len (rle v)) in H by (apply pos_nonneg, rle_pos).
    rewrite rle_expand in H. exact H.
  - apply segs_maximal; [apply rle_pos|apply rle_distinct].
  - apply expand_segs_rle.
Qed.

(* ---------- encode (decode rows) = rows ------------------------------------------------------- *)

Lemma rle_repeat_app v n w : (0 < n)%nat -> hd_error w <> Some v ->
  rle (repeat v n ++ w) = (v, Z.of_nat n) :: rle w.
Proof.
  intros Hn Hw. induction n as [|n IH]; [lia|].
  destruct n as [|n'].
  - cbn [repeat app rle]. destruct (rle w) as [|[y c] r] eqn:E; [reflexivity|].
    apply rle_head in E. destruct (v =? y) eqn:Ev; [|reflexivity].
    apply Z.eqb_eq in Ev. subst. contradiction.
  - change (repeat v (S (S n')) ++ w) with (v :: (repeat v (S n') ++ w)). cbn [rle].
    rewrite IH by lia. rewrite Z.eqb_refl. f_equal. f_equal. lia.
Qed.

Lemma expand_head r rest : row_start r < row_end r -> hd_error (expand_rows (r :: rest)) = Some (row_tok r).
Proof.
  intros H. unfold expand_rows. cbn [flat_map].
  destruct (Z.to_nat (row_end r - row_start r)) as [|n] eqn:E; [lia|]. reflexivity.
Qed.

Lemma row3_eq r : length r = 3%nat -> r = [row_tok r; row_start r; row_end r].
Proof.
  destruct r as [|a [|b [|c [|d t]]]]; cbn [length]; try discriminate. reflexivity.
Qed.

Lemma segs_rle_expand rows : forall t T, partitions_from t rows T -> maximal rows ->
  segs t (rle (expand_rows rows)) = rows.
Proof.
  induction rows as [|r rest IH]; intros t T P M; [reflexivity|].
  cbn [partitions_from] in P. destruct P as (L3 & Hs & Hle & P). cbn [maximal] in M. destruct M as (Hlt & Hd & M).
  assert (E : expand_rows (r :: rest) = repeat (row_tok r) (Z.to_nat (row_end r - row_start r)) ++ expand_rows rest)
    by reflexivity.
  rewrite E. rewrite rle_repeat_app.
  - cbn [segs]. rewrite (IH (t + Z.of_nat (Z.to_nat (row_end r - row_start r))) T).
    + f_equal. transitivity [row_tok r; row_start r; row_end r]; [|symmetry; apply row3_eq; exact L3].
      replace (t + Z.of_nat (Z.to_nat (row_end r - row_start r))) with (row_end r) by lia.
      rewrite Hs. reflexivity.
    + replace (t + Z.of_nat (Z.to_nat (row_end r - row_start r))) with (row_end r) by lia. exact P.
    + exact M.
  - lia.
  - destruct rest as [|r' rest']; [cbn; discriminate|].
    cbn [maximal] in M. destruct M as (Hlt' & _ & _).
    rewrite expand_head by exact Hlt'. intros H. inversion H. congruence.
Qed.

(* ---------- the validity checks of the token -> alignment direction ------------------------------ *)

Lemma partitions_start t rows T : partitions_from t rows T -> t <= T /\ Forall (fun r => t <= row_start r /\ row_start r <= row_end r) rows.
Proof.
  revert t. induction rows as [|r rest IH]; intros t P; cbn [partitions_from] in P.
  - subst. split; [lia|constructor].
  - destruct P as (_ & Hs & Hle & P). destruct (IH _ P) as [H1 H2]. split; [lia|].
    constructor; [lia|]. eapply Forall_impl; [|exact H2]. cbn. intros a Ha. lia.
Qed.

Lemma partitions_last t r rows T : partitions_from t (r :: rows) T -> row_end (last (r :: rows) []) = T.
Proof.
  revert t r. induction rows as [|r' rest IH]; intros t r P.
  - cbn [partitions_from] in P. cbn [last]. tauto.
  - cbn [partitions_from] in P. destruct P as (_ & _ & _ & P).
    change (last (r :: r' :: rest) []) with (last (r' :: rest) []). eapply IH. exact P.
Qed.

(* the boolean chain the command checks, from a start t >= 0 *)
Lemma checks_iff rows : forall t, 0 <= t -> Forall (fun r => length r = 3%nat) rows -> rows <> [] ->
  (existsb (fun r => (row_start r <? 0) || (row_end r <? 0)) rows = false
   /\ row_start (hd [] rows) = t /\ contiguous_rows rows = true
   /\ existsb (fun r => row_end r <? row_start r) rows = false)
  <-> partitions_from t rows (row_end (last rows [])).
Proof.
  induction rows as [|r rest IH]; intros t Ht L N; [contradiction|].
  inversion L as [|? ? L3 Lr]; subst.
  destruct rest as [|r' rest'].
  - cbn [existsb hd contiguous_rows last partitions_from]. rewrite !orb_false_r.
    split.
    + intros (H1 & H2 & _ & H4). apply orb_false_iff in H1. destruct H1 as [H1a H1b].
      apply Z.ltb_ge in H1a, H1b, H4. repeat split; try assumption; lia.
    + intros (_ & H2 & H3 & _). repeat split; try assumption.
      * apply orb_false_iff. split; apply Z.ltb_ge; lia.
      * apply Z.ltb_ge. lia.
  - change (last (r :: r' :: rest') []) with (last (r' :: rest') []).
    change (contiguous_rows (r :: r' :: rest')) with ((row_end r =? row_start r') && contiguous_rows (r' :: rest')).
    assert (Hhd : hd [] (r' :: rest') = r') by reflexivity.
    assert (Hne : r' :: rest' <> []) by discriminate.
    remember (r' :: rest') as rs eqn:Ers. clear Ers.
    cbn [existsb hd partitions_from].
    split.
    + intros (H1 & H2 & H3 & H4).
      apply orb_false_iff in H1. destruct H1 as [H1 H1r]. apply orb_false_iff in H1. destruct H1 as [H1a H1b].
      apply andb_true_iff in H3. destruct H3 as [H3 H3r]. apply Z.eqb_eq in H3.
      apply orb_false_iff in H4. destruct H4 as [H4 H4r].
      apply Z.ltb_ge in H1a, H1b, H4.
      repeat split; try assumption; try lia.
      apply (IH (row_end r)); [lia|exact Lr|exact Hne|].
      repeat split; try assumption. rewrite Hhd. lia.
    + intros (_ & H2 & H3 & P).
      apply (IH (row_end r)) in P; [|lia|exact Lr|exact Hne].
      destruct P as (P1 & P2 & P3 & P4). rewrite Hhd in P2.
      repeat split; try assumption.
      * apply orb_false_iff. split; [|exact P1]. apply orb_false_iff. split; apply Z.ltb_ge; lia.
      * apply andb_true_iff. split; [apply Z.eqb_eq; lia|exact P3].
      * apply orb_false_iff. split; [apply Z.ltb_ge; lia|exact P4].
Qed.

Lemma ali_of_ref_result T t a : ali_of_ref T t = Done a ->
  exists rows, t = Mat 3 rows /\ a = Vec (expand_rows rows).
Proof.
  unfold ali_of_ref. destruct t as [v|w rows]; [discriminate|].
  destruct (negb (Nat.eqb w 3) || match rows with [] => true | _ => false end) eqn:E1; [discriminate|].
  repeat match goal with |- (if ?c then _ else _) = _ -> _ => destruct c; [discriminate|] end.
  intros H. inversion H. apply orb_false_iff in E1. destruct E1 as [E1 _].
  apply negb_false_iff, Nat.eqb_eq in E1. subst w. exists rows. split; reflexivity.
Qed.

(* accepted exactly when the rows partition a frame sequence (of the length the features have) *)
Lemma ali_of_ref_accepts_iff T rows : Forall (fun r => length r = 3%nat) rows ->
  (ali_of_ref T (Mat 3 rows) = Done (Vec (expand_rows rows)))
  <-> (rows <> [] /\ exists n, partitions_from 0 rows n /\ match T with Some m => n = m | None => True end).
Proof.
  intros L. unfold ali_of_ref. cbn [Nat.eqb negb orb].
  destruct rows as [|r rest] eqn:Er; [split; [discriminate|intros [H _]; contradiction]|].
  rewrite <- Er in *. assert (N : rows <> []) by (subst; discriminate).
  pose proof (checks_iff rows 0 (Z.le_refl 0) L N) as C.
  destruct (existsb (fun r0 => (row_start r0 <? 0) || (row_end r0 <? 0)) rows) eqn:E1.
  { split; [discriminate|]. intros [_ [n [P _]]].
    assert (P' : partitions_from 0 rows (row_end (last rows []))).
    { rewrite Er in *. rewrite (partitions_last _ _ _ _ P). exact P. }
    apply C in P'. destruct P' as [P' _]. discriminate. }
  destruct (row_start (hd [] rows) =? 0) eqn:E2; cbn [negb].
  2:{ split; [discriminate|]. intros [_ [n [P _]]].
      assert (P' : partitions_from 0 rows (row_end (last rows []))).
      { rewrite Er in *. rewrite (partitions_last _ _ _ _ P). exact P. }
      apply C in P'. destruct P' as (_ & P' & _). apply Z.eqb_neq in E2. contradiction. }
  destruct (contiguous_rows rows) eqn:E3; cbn [negb].
  2:{ split; [discriminate|]. intros [_ [n [P _]]].
      assert (P' : partitions_from 0 rows (row_end (last rows []))).
      { rewrite Er in *. rewrite (partitions_last _ _ _ _ P). exact P. }
      apply C in P'. destruct P' as (_ & _ & P' & _). discriminate. }
  destruct (existsb (fun r0 => row_end r0 <? row_start r0) rows) eqn:E4.
  { split.
    - destruct (match T with Some n => _ | None => false end); discriminate.
    - intros [_ [n [P _]]].
      assert (P' : partitions_from 0 rows (row_end (last rows []))).
      { rewrite Er in *. rewrite (partitions_last _ _ _ _ P). exact P. }
      apply C in P'. destruct P' as (_ & _ & _ & P'). discriminate. }
  apply Z.eqb_eq in E2.
  assert (P : partitions_from 0 rows (row_end (last rows []))) by (apply C; repeat split; assumption).
  destruct T as [m|].
  - destruct (row_end (last rows []) =? m) eqn:E5; cbn [negb].
    + apply Z.eqb_eq in E5. split; [intros _|reflexivity]. split; [exact N|]. exists (row_end (last rows [])). split; [exact P|exact E5].
    + split; [discriminate|]. intros [_ [n [P' Hn]]]. subst n.
      rewrite Er in P'. apply partitions_last in P'. rewrite <- Er in P'. apply Z.eqb_neq in E5. contradiction.
  - split; [intros _|reflexivity]. split; [exact N|]. exists (row_end (last rows [])). split; [exact P|exact I].
Qed.

(* the expansion is the alignment the partition denotes *)
Lemma expand_length rows : forall t T, partitions_from t rows T ->
  Z.of_nat (length (expand_rows rows)) = T - t.
Proof.
  induction rows as [|r rest IH]; intros t T P; cbn [partitions_from] in P.
  - subst. cbn. lia.
  - destruct P as (_ & Hs & Hle & P). change (expand_rows (r :: rest)) with
      (repeat (row_tok r) (Z.to_nat (row_end r - row_start r)) ++ expand_rows rest).
    rewrite app_length, repeat_length. rewrite Nat2Z.inj_add. rewrite (IH _ _ P). lia.
Qed.

Lemma nth_repeat {A} (a d : A) n k : (k < n)%nat -> nth k (repeat a n) d = a.
Proof. revert k. induction n as [|n IH]; intros [|k] H; cbn; try lia; [reflexivity|apply IH; lia]. Qed.

Lemma expand_nth rows : forall t T, partitions_from t rows T ->
  forall r, In r rows -> forall u, row_start r <= u < row_end r ->
  nth (Z.to_nat (u - t)) (expand_rows rows) (-1) = row_tok r.
Proof.
  induction rows as [|r0 rest IH]; intros t T P r Hin u Hu; [contradiction|].
  cbn [partitions_from] in P. destruct P as (_ & Hs & Hle & P).
  change (expand_rows (r0 :: rest)) with
    (repeat (row_tok r0) (Z.to_nat (row_end r0 - row_start r0)) ++ expand_rows rest).
  destruct Hin as [->|Hin].
  - rewrite app_nth1 by (rewrite repeat_length; lia). apply nth_repeat. lia.
  - destruct (partitions_start _ _ _ P) as [_ F]. rewrite Forall_forall in F. specialize (F r Hin).
    rewrite app_nth2 by (rewrite repeat_length; lia). rewrite repeat_length.
    replace (Z.to_nat (u - t) - Z.to_nat (row_end r0 - row_start r0))%nat with (Z.to_nat (u - row_end r0)) by lia.
    apply (IH _ _ P r Hin). exact Hu.
Qed.

Lemma expand_denotes rows T : partitions_from 0 rows T -> denotes rows (expand_rows rows).
Proof.
  intros P. split.
  - rewrite (expand_length _ _ _ P). replace (T - 0) with T by lia. exact P.
  - intros r Hin u Hu. pose proof (expand_nth rows 0 T P r Hin u Hu) as H.
    replace (u - 0) with u in H by lia. exact H.
Qed.
