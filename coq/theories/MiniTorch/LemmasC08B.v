(* MiniTorch, unit C08B - the algebra of OpsC08B.v needed by the second C08 tie (no new definitions of meaning):
   the operations on tensors in canonical form ([T1 n f], [T2 n m f], [T3 n m k f]) are again in canonical form. *)
From Coq Require Import List ZArith QArith Qround Bool Arith Lia.
From Coq Require String.
From PV Require Import MiniPy.Syntax MiniTorch.Ops MiniTorch.OpsC08 MiniTorch.LemmasC08 MiniTorch.OpsC08B.
From PV Require MiniTorch.Lemmas C08.Model.
Import ListNotations.

(* ---- tables ------------------------------------------------------------------------------------- *)
Lemma tabl3_length {X} n m k (f : nat -> nat -> nat -> X) : length (tabl3 n m k f) = (n * (m * k))%nat.
Proof.
  unfold tabl3. rewrite (Lemmas.length_flat_map_const _ _ (m * k)), seq_length; [reflexivity|].
  intros i _. apply tabl_length.
Qed.

Lemma get3_tabl3 {X} (d : X) n m k (f : nat -> nat -> nat -> X) i j h :
  (i < n)%nat -> (j < m)%nat -> (h < k)%nat -> get3 d m k (tabl3 n m k f) i j h = f i j h.
Proof.
  intros Hi Hj Hh. unfold get3, tabl3.
  replace ((i * m + j) * k + h)%nat with (i * (m * k) + (j * k + h))%nat by lia.
  rewrite (Lemmas.nth_flat_map_const _ _ (m * k) i (j * k + h) 0%nat d).
  - rewrite seq_nth by assumption. cbn [Nat.add]. exact (get2_tabl d m k (f i) j h Hj Hh).
  - intros x _. apply tabl_length.
  - now rewrite seq_length.
  - nia.
Qed.

Lemma tabl3_ext {X} n m k (f g : nat -> nat -> nat -> X) :
  (forall i j h, (i < n)%nat -> (j < m)%nat -> (h < k)%nat -> f i j h = g i j h) -> tabl3 n m k f = tabl3 n m k g.
Proof.
  intros H. unfold tabl3. apply Lemmas.flat_map_ext_in. intros i Hi. apply in_seq in Hi.
  apply tabl_ext. intros j h Hj Hh. apply H; lia.
Qed.

Lemma T3_ext {X} n m k (f g : nat -> nat -> nat -> X) :
  (forall i j h, (i < n)%nat -> (j < m)%nat -> (h < k)%nat -> f i j h = g i j h) -> T3 n m k f = T3 n m k g.
Proof. intros H. unfold T3. f_equal. now apply tabl3_ext. Qed.

Lemma tabl3_one {X} m k (f : nat -> nat -> X) : tabl3 1 m k (fun _ => f) = tabl m k f.
Proof. unfold tabl3. cbn [seq flat_map]. now rewrite app_nil_r. Qed.

(* an n x m table of single entries is the n x m x 1 table *)
Lemma tabl_tabl3_col {X} n m (f : nat -> nat -> X) : tabl n m f = tabl3 n m 1 (fun i j _ => f i j).
Proof.
  unfold tabl3, tabl at 1. apply Lemmas.flat_map_ext_in. intros i _.
  unfold tabl. cbn [seq map]. now rewrite (Lemmas.flat_map_singleton (f i)).
Qed.

(* the rows of an n x k table, one slab of one row each *)
Lemma tabl_tabl3_row {X} n k (f : nat -> nat -> X) : tabl n k f = tabl3 n 1 k (fun i _ h => f i h).
Proof.
  unfold tabl3, tabl at 1. apply Lemmas.flat_map_ext_in. intros i _.
  unfold tabl. cbn [seq flat_map]. now rewrite app_nil_r.
Qed.

(* ---- canonical forms: unsqueeze ------------------------------------------------------------------- *)
Lemma unsqueeze_T1_0 {X} n (f : nat -> X) : unsqueeze (T1 n f) 0 = Some (T2 1 n (fun _ j => f j)).
Proof.
  unfold unsqueeze, T1, T2. cbn [shp dat length].
  change (wrap_dim 2 0) with (Some 0%nat). cbn [firstn skipn app]. now rewrite tabl_row.
Qed.

Lemma unsqueeze_T2_2 {X} n m (f : nat -> nat -> X) : unsqueeze (T2 n m f) 2 = Some (T3 n m 1 (fun i j _ => f i j)).
Proof.
  unfold unsqueeze, T2, T3. cbn [shp dat length].
  change (wrap_dim 3 2) with (Some 2%nat). cbn [firstn skipn app]. now rewrite tabl_tabl3_col.
Qed.

Lemma unsqueeze_T2_1 {X} n k (f : nat -> nat -> X) : unsqueeze (T2 n k f) 1 = Some (T3 n 1 k (fun i _ h => f i h)).
Proof.
  unfold unsqueeze, T2, T3. cbn [shp dat length].
  change (wrap_dim 3 1) with (Some 1%nat). cbn [firstn skipn app]. now rewrite tabl_tabl3_row.
Qed.

(* ---- broadcasting ------------------------------------------------------------------------------------ *)
Lemma bc3_tabl3 {X Y W} (dx : X) (dy : Y) (h : X -> Y -> W) sa sb na ma ka a nb mb kb b n m k :
  as3 sa = Some (na, ma, ka) -> as3 sb = Some (nb, mb, kb) ->
  bdim na nb = Some n -> bdim ma mb = Some m -> bdim ka kb = Some k ->
  bc3 dx dy h (mkTn sa (tabl3 na ma ka a)) (mkTn sb (tabl3 nb mb kb b)) =
  Some (mkTn (skipn (3 - Nat.max (length sa) (length sb)) [n; m; k])
             (tabl3 n m k (fun i j l => h (a (bidx na i) (bidx ma j) (bidx ka l)) (b (bidx nb i) (bidx mb j) (bidx kb l))))).
Proof.
  intros Ha Hb Hn Hm Hk. unfold bc3. cbn [shp dat]. rewrite Ha, Hb, Hn, Hm, Hk. f_equal. f_equal.
  apply tabl3_ext. intros i j l Hi Hj Hl.
  rewrite !get3_tabl3 by eauto using Lemmas.bidx_lt_l, Lemmas.bidx_lt_r. reflexivity.
Qed.

Ltac bidx_norm :=
  cbv beta; rewrite ?bidx_one;
  repeat match goal with H : (?i < ?n)%nat |- context [bidx ?n ?i] => rewrite (bidx_self n i H) end.

(* (n, m, k) op (n, m, k) *)
Lemma bc3_T3_T3 {X Y W} (dx : X) (dy : Y) (h : X -> Y -> W) n m k a b :
  bc3 dx dy h (T3 n m k a) (T3 n m k b) = Some (T3 n m k (fun i j l => h (a i j l) (b i j l))).
Proof.
  unfold T3.
  rewrite (bc3_tabl3 dx dy h [n; m; k] [n; m; k] n m k _ n m k _ n m k eq_refl eq_refl (bdim_same n) (bdim_same m) (bdim_same k)).
  cbn [length Nat.max Nat.sub skipn]. f_equal. f_equal.
  apply tabl3_ext. intros i j l Hi Hj Hl. now bidx_norm.
Qed.

(* (1, m, 1) op (n, 1, k) *)
Lemma bc3_row_cols {X Y W} (dx : X) (dy : Y) (h : X -> Y -> W) n m k a b :
  bc3 dx dy h (T3 1 m 1 a) (T3 n 1 k b) = Some (T3 n m k (fun i j l => h (a 0%nat j 0%nat) (b i 0%nat l))).
Proof.
  unfold T3.
  rewrite (bc3_tabl3 dx dy h [1%nat; m; 1%nat] [n; 1%nat; k] 1 m 1 _ n 1 k _ n m k eq_refl eq_refl (bdim_1_n n) (bdim_n_1 m) (bdim_1_n k)).
  cbn [length Nat.max Nat.sub skipn]. f_equal. f_equal.
  apply tabl3_ext. intros i j l Hi Hj Hl. now bidx_norm.
Qed.

(* (n, m, 1) op (n, 1, k) *)
Lemma bc3_col_row {X Y W} (dx : X) (dy : Y) (h : X -> Y -> W) n m k a b :
  bc3 dx dy h (T3 n m 1 a) (T3 n 1 k b) = Some (T3 n m k (fun i j l => h (a i j 0%nat) (b i 0%nat l))).
Proof.
  unfold T3.
  rewrite (bc3_tabl3 dx dy h [n; m; 1%nat] [n; 1%nat; k] n m 1 _ n 1 k _ n m k eq_refl eq_refl (bdim_same n) (bdim_n_1 m) (bdim_1_n k)).
  cbn [length Nat.max Nat.sub skipn]. f_equal. f_equal.
  apply tabl3_ext. intros i j l Hi Hj Hl. now bidx_norm.
Qed.

(* (n, m, k) op (n, m, 1) *)
Lemma bc3_T3_col {X Y W} (dx : X) (dy : Y) (h : X -> Y -> W) n m k a b :
  bc3 dx dy h (T3 n m k a) (T3 n m 1 b) = Some (T3 n m k (fun i j l => h (a i j l) (b i j 0%nat))).
Proof.
  unfold T3.
  rewrite (bc3_tabl3 dx dy h [n; m; k] [n; m; 1%nat] n m k _ n m 1 _ n m k eq_refl eq_refl (bdim_same n) (bdim_same m) (bdim_n_1 k)).
  cbn [length Nat.max Nat.sub skipn]. f_equal. f_equal.
  apply tabl3_ext. intros i j l Hi Hj Hl. now bidx_norm.
Qed.

(* (n, m, k) op (n, 1, k) *)
Lemma bc3_T3_row {X Y W} (dx : X) (dy : Y) (h : X -> Y -> W) n m k a b :
  bc3 dx dy h (T3 n m k a) (T3 n 1 k b) = Some (T3 n m k (fun i j l => h (a i j l) (b i 0%nat l))).
Proof.
  unfold T3.
  rewrite (bc3_tabl3 dx dy h [n; m; k] [n; 1%nat; k] n m k _ n 1 k _ n m k eq_refl eq_refl (bdim_same n) (bdim_n_1 m) (bdim_same k)).
  cbn [length Nat.max Nat.sub skipn]. f_equal. f_equal.
  apply tabl3_ext. intros i j l Hi Hj Hl. now bidx_norm.
Qed.

(* (n, m) op (n, m): two dimensions inside the three-dimensional rule *)
Lemma bc3_T2_T2 {X Y W} (dx : X) (dy : Y) (h : X -> Y -> W) n m a b :
  bc3 dx dy h (T2 n m a) (T2 n m b) = Some (T2 n m (fun i j => h (a i j) (b i j))).
Proof.
  unfold T2. rewrite <- !tabl3_one.
  rewrite (bc3_tabl3 dx dy h [n; m] [n; m] 1 n m _ 1 n m _ 1 n m eq_refl eq_refl eq_refl (bdim_same n) (bdim_same m)).
  cbn [length Nat.max Nat.sub skipn]. f_equal. f_equal.
  apply tabl3_ext. intros i j l Hi Hj Hl. now bidx_norm.
Qed.

(* ---- any -------------------------------------------------------------------------------------------------- *)
Lemma existsb_ext_seq (f g : nat -> bool) k :
  (forall h, (h < k)%nat -> f h = g h) -> existsb f (seq 0 k) = existsb g (seq 0 k).
Proof.
  intros H. assert (G : forall s, (forall h, (s <= h < s + k)%nat -> f h = g h) -> existsb f (seq s k) = existsb g (seq s k)).
  { clear H. induction k as [|k IH]; intros s H; [reflexivity|]. cbn [seq existsb].
    rewrite (H s) by lia. rewrite (IH (S s)) by (intros; apply H; lia). reflexivity. }
  apply G. intros h Hh. apply H. lia.
Qed.

Lemma any_last_T3 n m k (p : nat -> nat -> nat -> bool) (keep : bool) :
  any_last (T3 n m k p) 2 keep
  = Some (if keep then T3 n m 1 (fun i j _ => existsb (p i j) (seq 0 k)) else T2 n m (fun i j => existsb (p i j) (seq 0 k))).
Proof.
  unfold any_last, T3. cbn [shp dat]. change (wrap_dim 3 2) with (Some 2%nat). cbv iota.
  assert (E : tabl n m (fun i j => existsb (fun h => get3 false m k (tabl3 n m k p) i j h) (seq 0 k))
              = tabl n m (fun i j => existsb (p i j) (seq 0 k))).
  { apply tabl_ext. intros i j Hi Hj. apply existsb_ext_seq. intros h Hh. now apply get3_tabl3. }
  rewrite E. destruct keep; unfold T3, T2; [|reflexivity]. now rewrite tabl_tabl3_col.
Qed.

(* ---- masked_fill ------------------------------------------------------------------------------------------ *)
Lemma nats_eqb_refl l : nats_eqb l l = true.
Proof. induction l as [|x l IH]; [reflexivity|]. cbn [nats_eqb]. now rewrite Nat.eqb_refl. Qed.

Lemma masked_fill_c_col n m k (c : nat -> nat -> nat -> val) (p : nat -> nat -> nat -> bool) v :
  masked_fill_c (T3 n m k c) (T3 n m 1 p) v = Some (T3 n m k (fun i j l => if p i j 0%nat then v else c i j l)).
Proof. unfold masked_fill_c. rewrite bc3_T3_col. cbn [shp T3]. now rewrite nats_eqb_refl. Qed.

Lemma masked_fill_c_row n m k (c : nat -> nat -> nat -> val) (p : nat -> nat -> nat -> bool) v :
  masked_fill_c (T3 n m k c) (T3 n 1 k p) v = Some (T3 n m k (fun i j l => if p i 0%nat l then v else c i j l)).
Proof. unfold masked_fill_c. rewrite bc3_T3_row. cbn [shp T3]. now rewrite nats_eqb_refl. Qed.

Lemma masked_fill_c_full n m k (c : nat -> nat -> nat -> val) (p : nat -> nat -> nat -> bool) v :
  masked_fill_c (T3 n m k c) (T3 n m k p) v = Some (T3 n m k (fun i j l => if p i j l then v else c i j l)).
Proof. unfold masked_fill_c. rewrite bc3_T3_T3. cbn [shp T3]. now rewrite nats_eqb_refl. Qed.

(* ---- encodings ---------------------------------------------------------------------------------------------- *)
Lemma dec_c_enc eps t : dec_c (enc_c eps t) = Some (t, eps).
Proof. destruct t as [s d]. unfold dec_c, enc_c, enc_shape. cbn. now rewrite dec_nats_enc. Qed.

Lemma dec_any_enc_c eps t : dec_any (enc_c eps t) = None.
Proof. reflexivity. Qed.

Lemma dec_c_enc_f t : dec_c (enc_f t) = None.  Proof. reflexivity. Qed.
Lemma dec_c_enc_l t : dec_c (enc_l t) = None.  Proof. reflexivity. Qed.
Lemma dec_c_enc_b t : dec_c (enc_b t) = None.  Proof. reflexivity. Qed.
