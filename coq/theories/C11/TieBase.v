(* C11 source tie - facts shared by the tie lemmas: encodings vs the model's equality tests, exact rationals of
   integers, variables of the interpreter state, insertion sorts. *)
From Coq Require Import ZArith QArith Qreduction List String Ascii Bool Lia.
From PV Require Import C11.Model MiniPy.Syntax MiniPy.Interp MiniPy.Lemmas C11.SrcRun.
Import ListNotations.
Local Open Scope string_scope.

(* ---- strings ---------------------------------------------------------------------------------------- *)
Lemma val_eqb_enc_str a : forall b, val_eqb (enc_str a) (enc_str b) = str_eqb a b.
Proof.
  unfold enc_str. induction a as [|x a IH]; intros [|y b]; try reflexivity.
  specialize (IH b). cbn in IH |- *. rewrite IH. rewrite andb_true_r. reflexivity.
Qed.

Lemma val_eqb_wc w c w' c' :
  val_eqb (VTuple [enc_str w; enc_str c]) (VTuple [enc_str w'; enc_str c']) = wc_eqb (w, c) (w', c').
Proof.
  unfold wc_eqb. cbn [fst snd]. rewrite <- !val_eqb_enc_str. cbn. rewrite andb_true_r. reflexivity.
Qed.

(* ---- rationals of integers ---------------------------------------------------------------------------- *)
Lemma Qred_inject z : Qred (inject_Z z) = inject_Z z.
Proof.
  unfold Qred, inject_Z.
  generalize (Z.ggcd_gcd z 1) (Z.ggcd_correct_divisors z 1).
  destruct (Z.ggcd z 1) as [g [aa bb]]. cbn [fst snd]. intros Hg [Ha Hb].
  rewrite Z.gcd_1_r in Hg. subst g. rewrite Z.mul_1_l in Ha, Hb. subst. reflexivity.
Qed.

Lemma Qred_inject_add a b : Qred (inject_Z a + inject_Z b) = inject_Z (a + b).
Proof.
  unfold Qplus, inject_Z. cbn [Qnum Qden]. rewrite !Z.mul_1_r. change (1 * 1)%positive with 1%positive.
  apply (Qred_inject (a + b)).
Qed.

Lemma Qred_inject_sub a b : Qred (inject_Z a - inject_Z b) = inject_Z (a - b).
Proof.
  unfold Qminus, Qplus, Qopp, inject_Z. cbn [Qnum Qden]. rewrite !Z.mul_1_r. change (1 * 1)%positive with 1%positive.
  apply (Qred_inject (a + - b)).
Qed.

Lemma Qcompare_inject a b : (inject_Z a ?= inject_Z b)%Q = (a ?= b)%Z.
Proof. unfold Qcompare, inject_Z. cbn [Qnum Qden]. rewrite !Z.mul_1_r. reflexivity. Qed.

(* ---- variables ---------------------------------------------------------------------------------------- *)
Lemma lookup_update_eq x v l : lookup x (update x v l) = Some v.
Proof.
  induction l as [|[y w] t IH]; cbn [update lookup]; [rewrite String.eqb_refl; reflexivity|].
  destruct (String.eqb x y) eqn:E; cbn [lookup]; rewrite E; [reflexivity|exact IH].
Qed.

Lemma lookup_update_neq x y v l : String.eqb x y = false -> lookup x (update y v l) = lookup x l.
Proof.
  intros Hn. induction l as [|[z w] t IH]; cbn [update lookup].
  - rewrite Hn. reflexivity.
  - destruct (String.eqb y z) eqn:E; cbn [lookup].
    + apply String.eqb_eq in E. subst z. rewrite Hn. reflexivity.
    + destruct (String.eqb x z); [reflexivity|exact IH].
Qed.

(* ---- association lists as encoded dicts ------------------------------------------------------------------ *)
Section Assoc.
  Context {K V : Type} (eqb : K -> K -> bool) (ek : K -> val) (ev : V -> val).
  Hypothesis ek_eqb : forall a b, val_eqb (ek a) (ek b) = eqb a b.

  Definition enc_al (l : list (K * V)) : list (val * val) := map (fun kv => (ek (fst kv), ev (snd kv))) l.

  Lemma al_get k l : dict_get (enc_al l) (ek k) = option_map ev (assoc eqb k l).
  Proof.
    induction l as [|[k' v] t IH]; [reflexivity|].
    cbn [enc_al map dict_get assoc fst snd]. rewrite ek_eqb. destruct (eqb k k'); [reflexivity|exact IH].
  Qed.

  (* replace the value of k, or add the entry at the end *)
  Fixpoint al_set (k : K) (v : V) (l : list (K * V)) : list (K * V) :=
    match l with
    | [] => [(k, v)]
    | (k', w) :: t => if eqb k k' then (k', v) :: t else (k', w) :: al_set k v t
    end.

  Lemma al_set_enc k v l : dict_set (enc_al l) (ek k) (ev v) = enc_al (al_set k v l).
  Proof.
    induction l as [|[k' w] t IH]; [reflexivity|].
    cbn [enc_al map dict_set al_set fst snd]. rewrite ek_eqb. destruct (eqb k k'); cbn [map fst snd]; [reflexivity|].
    unfold enc_al in IH. rewrite IH. reflexivity.
  Qed.
End Assoc.

(* ---- two stable insertion sorts agree ----------------------------------------------------------------------
   MiniPy (Interp.sort_keyed_aux): from the right, each item in front of the first one whose key is not smaller;
   C11.Model.sort_by: from the left, each item behind the last one whose key is not greater. *)
Section Sorts.
  Context {A : Type} (k : A -> Z).

  Fixpoint ins_r (x : A) (l : list A) : list A :=
    match l with
    | [] => [x]
    | y :: t => if (k y <? k x)%Z then y :: ins_r x t else x :: y :: t
    end.
  Definition sort_r (l : list A) : list A := fold_right ins_r [] l.

  Definition kleb (a b : A) : bool := (k a <=? k b)%Z.

  Lemma ins_commute x e : forall l, insert_by kleb x (ins_r e l) = ins_r e (insert_by kleb x l).
  Proof.
    induction l as [|y t IH]; cbn [ins_r insert_by]; unfold kleb in *.
    - destruct (Z.leb_spec (k e) (k x)), (Z.ltb_spec (k x) (k e)); try lia; reflexivity.
    - destruct (Z.ltb_spec (k y) (k e)) as [H1|H1]; destruct (Z.leb_spec (k y) (k x)) as [H2|H2];
        cbn [ins_r insert_by].
      + destruct (Z.ltb_spec (k y) (k e)); [|lia]. destruct (Z.leb_spec (k y) (k x)); [|lia]. rewrite IH. reflexivity.
      + destruct (Z.ltb_spec (k x) (k e)); [|lia]. destruct (Z.leb_spec (k y) (k x)); [lia|].
        cbn [ins_r]. destruct (Z.ltb_spec (k y) (k e)); [|lia]. reflexivity.
      + destruct (Z.leb_spec (k e) (k x)); [|lia]. destruct (Z.ltb_spec (k y) (k e)); [lia|].
        cbn [insert_by]. destruct (Z.leb_spec (k y) (k x)); [|lia]. reflexivity.
      + destruct (Z.leb_spec (k e) (k x)) as [H3|H3]; destruct (Z.ltb_spec (k x) (k e)) as [H4|H4]; try lia.
        * cbn [insert_by ins_r]. destruct (Z.leb_spec (k y) (k x)); [lia|]. reflexivity.
        * cbn [ins_r]. destruct (Z.ltb_spec (k y) (k e)); [lia|]. reflexivity.
  Qed.

  Lemma fold_ins_commute e : forall t acc,
    fold_left (fun a x => insert_by kleb x a) t (ins_r e acc) = ins_r e (fold_left (fun a x => insert_by kleb x a) t acc).
  Proof.
    induction t as [|x t IH]; intros acc; [reflexivity|].
    cbn [fold_left]. rewrite ins_commute. apply IH.
  Qed.

  Lemma sort_r_sort_by l : sort_r l = sort_by kleb l.
  Proof.
    unfold sort_by. induction l as [|e t IH]; [reflexivity|].
    cbn [sort_r fold_right fold_left insert_by]. change [e] with (ins_r e []).
    rewrite fold_ins_commute. fold (sort_r t). rewrite IH. reflexivity.
  Qed.
End Sorts.
