(* C16 — boolean reading of the property on *observations* alone: what a controller
   started after each crash (and at the end) sees, the directory listings recorded after
   each completed update, and the history of the uninterrupted run.  Nothing here refers
   to how update_for_epoch orders its file operations.  The harness applies [spec_parts]
   to the implementation's observations; the theorems apply it to the model's. *)
From Coq Require Import List Arith Bool ZArith.
From PV Require Import C16.Model.
Import ListNotations.

(* the part of a history row the property compares ("same history"): epoch and metrics;
   the tag column only identifies which call wrote the row *)
Definition hrow (r : row) : nat * (Z * Z) := (r_epoch r, (r_train r, r_val r)).

Definition hrow_eqb (a b : nat * (Z * Z)) : bool :=
  Nat.eqb (fst a) (fst b) && Z.eqb (fst (snd a)) (fst (snd b)) && Z.eqb (snd (snd a)) (snd (snd b)).

Definition prefix_b (a b : list (nat * (Z * Z))) : bool :=
  list_eqb hrow_eqb a (firstn (length a) b).

(* "the last recorded epoch" *)
Definition spec_last (h : list row) : nat := fold_right Nat.max 0 (map r_epoch h).

(* "the best epoch": the earliest recorded epoch whose metric no other recorded epoch
   beats; 0 when nothing is recorded *)
Definition is_best_b (bt : bool) (h : list row) (e : nat) : bool :=
  match h with
  | [] => Nat.eqb e 0
  | _ =>
    existsb (fun r => Nat.eqb (r_epoch r) e &&
                      forallb (fun r' => Z.leb (met bt r) (met bt r')) h &&
                      forallb (fun r' => negb (Nat.ltb (r_epoch r') e) || Z.ltb (met bt r) (met bt r')) h) h
  end.

(* epoch e (>= 1) loads, and gives the parameters of the call that recorded it *)
Definition loads_ok (o : obs) (e : nat) : bool :=
  match find (fun r => Nat.eqb (r_epoch r) e) (o_hist o),
        find (fun x => Nat.eqb (fst x) e) (o_loads o) with
  | Some r, Some (_, (Some vm, Some vo)) => Z.eqb vm (r_tag r) && Z.eqb vo (r_tag r)
  | _, _ => false
  end.

Definition p_prefix (H : list row) (o : obs) : bool :=
  prefix_b (map hrow (o_hist o)) (map hrow H).

Definition p_last (o : obs) : bool :=
  Nat.eqb (o_last o) (spec_last (o_hist o)) &&
  (Nat.eqb (o_last o) 0 || loads_ok o (o_last o)).

Definition p_best (P : params) (o : obs) : bool :=
  is_best_b (bt P) (o_hist o) (o_best o) &&
  (Nat.eqb (o_best o) 0 || loads_ok o (o_best o)).

(* keep everything: "every recorded epoch stays loadable" (both files load) *)
Definition loadable (o : obs) (e : nat) : bool :=
  match find (fun x => Nat.eqb (fst x) e) (o_loads o) with
  | Some (_, (Some _, Some _)) => true
  | _ => false
  end.

Definition p_all (P : params) (o : obs) : bool :=
  klb P || forallb (fun r => loadable o (r_epoch r)) (o_hist o).

(* the files of "those two epochs" after the update that recorded epoch e, given the
   uninterrupted history (of which the recorded history is a prefix) *)
Definition needed (P : params) (H : list row) (e : nat) : list path :=
  let h := firstn e H in
  let b := fold_right (fun r acc => if is_best_b (bt P) h (r_epoch r) then r_epoch r else acc) 0 h in
  dedup ([pth P KM e; pth P KO e] ++ (if Nat.eqb b 0 then [] else [pth P KM b; pth P KO b])).

(* directory after each completed update of one process that started at epoch [e0] *)
Fixpoint dir_has (P : params) (H : list row) (e0 : nat) (lg : list logent) : bool :=
  match lg with
  | [] => true
  | (_, None) :: t => dir_has P H e0 t
  | (_, Some (l, _)) :: t => incl_b (needed P H (S e0)) l && dir_has P H (S e0) t
  end.

Fixpoint dir_only (P : params) (H : list row) (e0 : nat) (lg : list logent) : bool :=
  match lg with
  | [] => true
  | (_, None) :: t => dir_only P H e0 t
  | (_, Some (l, n)) :: t => incl_b l (needed P H (S e0)) && Nat.eqb n 0 && dir_only P H (S e0) t
  end.

(* thread the starting epoch of each process through the list of observations *)
Fixpoint over_procs (f : nat -> obs -> bool) (e0 : nat) (os : list obs) : bool :=
  match os with
  | [] => true
  | o :: t => f e0 o && over_procs f (spec_last (o_hist o)) t
  end.

Definition p_final (H : list row) (os : list obs) : bool :=
  match rev os with
  | [] => false
  | o :: _ => negb (outcome_eqb (o_outcome o) Crashed) &&
              list_eqb hrow_eqb (map hrow (o_hist o)) (map hrow H)
  end.

(* components, in this order:
   0 history is a prefix of the uninterrupted one        (after every crash / at the end)
   1 last recorded epoch loads with the saved parameters
   2 best epoch loads with the saved parameters
   3 continuing ends with the uninterrupted history
   4 keep-last-and-best: directory contains the two epochs' files after each completed update
   5 keep-last-and-best: ... and nothing else
   6 keep-all: every recorded epoch loads *)
Definition spec_parts (P : params) (H : list row) (os : list obs) : list bool :=
  [ forallb (p_prefix H) os;
    forallb p_last os;
    forallb (p_best P) os;
    p_final H os;
    negb (klb P) || over_procs (fun e0 o => dir_has P H e0 (o_log o)) 0 os;
    negb (klb P) || over_procs (fun e0 o => dir_only P H e0 (o_log o)) 0 os;
    forallb (p_all P) os ].

Definition spec_okb (P : params) (H : list row) (os : list obs) : bool :=
  forallb (fun b => b) (spec_parts P H os).

(* the harness asks for one component at a time *)
Definition spec_part (i : nat) (P : params) (H : list row) (os : list obs) : bool :=
  nth i (spec_parts P H os) false.
