(* C13 — Epoch samplers are reproducible and split data exactly across processes.
   Property theorems only: each is closed by [exact <lemma of Proofs.v>] and
   followed by [Print Assumptions].  The harness re-checks this file on every run. *)
From Coq Require Import List Arith Lia.
From PV Require Import C13.Model C13.Proofs.
From PV Require MiniPy.Syntax MiniPy.Interp Gen.C13Src C13.SrcRun C13.Tie.
Import ListNotations.

(* "the sampler's length is the number of indices it yields" *)
Theorem c13_len_eq_yielded : forall s order,
  wf s -> length order = total s -> length (samples s order) = len s.
Proof. exact len_eq_yielded. Qed.
Print Assumptions c13_len_eq_yielded.

(* every constructed sampler satisfies the hypothesis [wf] used below *)
Theorem c13_init_wf : forall n dist m e0 s,
  dist_ok dist -> init n dist m e0 = Some s -> wf s /\ total s = n /\ epoch s = e0.
Proof. exact init_wf. Qed.
Print Assumptions c13_init_wf.

(* which element each rank yields: the j-th sample of rank r is position r + j*W of
   the epoch order cut at the effective total *)
Theorem c13_samples_nth : forall s order d j, wf s ->
  nth j (samples s order) d = nth (rank s + j * world s) (firstn (eff s) order) d.
Proof. exact samples_nth. Qed.
Print Assumptions c13_samples_nth.

(* "pairwise disjoint" *)
Theorem c13_ranks_disjoint : forall s order r1 r2 v,
  0 < world s -> NoDup order -> r1 < world s -> r2 < world s -> r1 <> r2 ->
  In v (samples (with_rank s r1) order) -> ~ In v (samples (with_rank s r2) order).
Proof. exact ranks_disjoint. Qed.
Print Assumptions c13_ranks_disjoint.

(* "together cover every index exactly once (all but the remainder when dropping)":
   summed over the ranks, each value is yielded exactly as often as it occurs among
   the first [eff] entries of the epoch order - for any order, any world size *)
Theorem c13_ranks_cover_count : forall s order v, 0 < world s ->
  sum_upto (fun r => count_occ Nat.eq_dec (samples (with_rank s r) order) v) (world s)
  = count_occ Nat.eq_dec (firstn (eff s) order) v.
Proof. exact ranks_cover_count. Qed.
Print Assumptions c13_ranks_cover_count.

Theorem c13_ranks_cover_once : forall s order v, 0 < world s -> NoDup order ->
  In v (firstn (eff s) order) ->
  sum_upto (fun r => count_occ Nat.eq_dec (samples (with_rank s r) order) v) (world s) = 1.
Proof. exact ranks_cover_once. Qed.
Print Assumptions c13_ranks_cover_once.

Theorem c13_samples_subset : forall s order v,
  In v (samples s order) -> In v (firstn (eff s) order).
Proof. exact samples_subset. Qed.
Print Assumptions c13_samples_subset.

(* positions and ranks are in bijection: position i < eff belongs to rank i mod W *)
Theorem c13_position_owner : forall s order d i,
  wf s -> length order = total s -> i < eff s ->
  let s' := mkSampler (total s) (eff s) (i mod world s) (world s) (epoch s) in
  i / world s < len s' /\ nth (i / world s) (samples s' order) d = nth i order d.
Proof. exact position_owner. Qed.
Print Assumptions c13_position_owner.

(* "each rank then getting equally many", and exactly n mod W indices are dropped *)
Theorem c13_drop_equal_counts : forall n r w e0 s, r < w ->
  init n (Some (r, w)) Drop e0 = Some s ->
  eff s = w * (n / w) /\ len s = n / w /\ total s - eff s = n mod w.
Proof. exact drop_equal_counts. Qed.
Print Assumptions c13_drop_equal_counts.

(* without dropping, nothing is cut off *)
Theorem c13_non_drop_eff : forall n dist m e0 s,
  m <> Drop -> init n dist m e0 = Some s -> eff s = n.
Proof. exact non_drop_eff. Qed.
Print Assumptions c13_non_drop_eff.

(* "an indivisible size raises under the strict setting" (and only then) *)
Theorem c13_raise_iff_indivisible : forall n r w e0,
  init n (Some (r, w)) Raise e0 = None <-> n mod w <> 0.
Proof. exact raise_iff_indivisible. Qed.
Print Assumptions c13_raise_iff_indivisible.

(* "the ignore setting gives every rank the full epoch" *)
Theorem c13_ignore_gives_full_epoch : forall n dist e0 s order, length order = n ->
  init n dist Ignore e0 = Some s -> samples s order = order /\ len s = n.
Proof. exact ignore_gives_full_epoch. Qed.
Print Assumptions c13_ignore_gives_full_epoch.

(* "the order ... is a function of (seed, epoch) alone - the same whether reached by
   iterating from epoch zero or by starting at that epoch" *)
Theorem c13_iterate_spec : forall order k s,
  fst (iterate order k s) = map (fun e => samples s (order e)) (seq (epoch s) k)
  /\ snd (iterate order k s) = mkSampler (total s) (eff s) (rank s) (world s) (epoch s + k).
Proof. exact iterate_spec. Qed.
Print Assumptions c13_iterate_spec.

Theorem c13_order_function_of_epoch : forall n dist m order k s0 sk,
  init n dist m 0 = Some s0 -> init n dist m k = Some sk ->
  nth k (fst (iterate order (S k) s0)) [] = fst (next order sk)
  /\ fst (next order sk) = samples s0 (order k).
Proof. exact order_function_of_epoch. Qed.
Print Assumptions c13_order_function_of_epoch.

(* non-vacuity: a concrete distributed sampler meets the hypotheses *)
Example c13_nonvacuous :
  exists s, init 7 (Some (1, 3)) Drop 2 = Some s /\ wf s /\
            samples s [4;0;6;2;5;1;3] = [0;5] /\ len s = 2
            /\ NoDup [4;0;6;2;5;1;3] /\ 7 mod 3 <> 0.
Proof.
  eexists; split; [reflexivity|]. unfold wf; cbn.
  repeat split; try lia; try discriminate.
  repeat constructor; cbn; intuition discriminate.
Qed.

(* ---- the tie to the source text ----------------------------------------------------------
   PV.Gen.C13Src is regenerated from /repo/src/pydrobert/torch/_dataloaders.py on every run
   (harness/py2coq/translate.py); PV.MiniPy.Interp is the semantics of the translated subset.
   The theorems below are about those regenerated terms: constructing a sampler, asking its
   length and iterating it k times - as the Python source text does it - yields exactly what
   Model.run yields, so every theorem above is a theorem about the source. *)
Theorem c13_source_refines_model : forall n dist m e0 orders, dist_ok dist ->
  SrcRun.src_run n dist m e0 orders = Some (Model.run n dist m e0 orders).
Proof. exact Tie.src_run_tie. Qed.
Print Assumptions c13_source_refines_model.

Theorem c13_source_init_is_model : forall order n dist m e0, dist_ok dist ->
  SrcRun.init_expected n dist m e0
    (Interp.run (SrcRun.ext13 order) C13Src.aes_init (SrcRun.init_vars n dist m e0)).
Proof. exact Tie.init_tie. Qed.
Print Assumptions c13_source_init_is_model.

Theorem c13_source_len_is_model : forall ext s, rank s < world s ->
  Interp.run ext C13Src.aes_len (SrcRun.self_vars s)
  = Interp.Ok (SrcRun.zn (len s)) (SrcRun.st_of s []).
Proof. exact Tie.len_tie. Qed.
Print Assumptions c13_source_len_is_model.

Theorem c13_source_iter_is_model : forall order s, 0 < world s ->
  exists st,
    Interp.run (SrcRun.ext13 order) C13Src.aes_iter (SrcRun.self_vars s)
      = Interp.Ok (SrcRun.vnats (fst (next order s))) st /\
    SrcRun.self_in st = Some (SrcRun.self_of (snd (next order s))).
Proof. exact Tie.iter_tie. Qed.
Print Assumptions c13_source_iter_is_model.

(* composed with the model theorems: a statement purely about the translated source -
   the length the source's __len__ reports is the number of indices the source's __iter__ yields *)
Theorem c13_source_len_eq_yielded : forall order s, wf s -> length (order (epoch s)) = total s ->
  exists ys st st',
    Interp.run (SrcRun.ext13 order) C13Src.aes_iter (SrcRun.self_vars s)
      = Interp.Ok (SrcRun.vnats ys) st /\
    Interp.run (SrcRun.ext13 order) C13Src.aes_len (SrcRun.self_vars s)
      = Interp.Ok (SrcRun.zn (length ys)) st'.
Proof. exact Tie.source_len_eq_yielded. Qed.
Print Assumptions c13_source_len_eq_yielded.

(* EpochRandomSampler.get_samples_for_epoch_ignoring_distributed as the source text does it (NumPy an oracle
   perm seed epoch n = RandomState((seed, epoch)).permutation(n)): the order of an epoch is the permutation for
   (base_seed, epoch) over exactly `total` items - for EVERY effective_total, rank, world size and epoch counter the
   sampler object carries ("the order a sampler yields for an epoch is a function of (seed, epoch) alone") *)
Theorem c13_source_random_order_is_seed_epoch_perm : forall perm seed s e,
  Interp.run (SrcRun.ext_rs perm) C13Src.ers_order [(SrcRun.k_self, SrcRun.rand_self seed s); (SrcRun.k_epoch, Syntax.VInt e)]
  = Interp.Ok (SrcRun.vnats (perm seed e (total s)))
      (Interp.mkState [(SrcRun.k_self, SrcRun.rand_self seed s); (SrcRun.k_epoch, Syntax.VInt e);
                       (SrcRun.k_rs, Syntax.VTuple [SrcRun.rs_tag; Syntax.VInt seed; Syntax.VInt e]);
                       (SrcRun.k_shuffled, SrcRun.vnats (perm seed e (total s)))] []).
Proof. exact Tie.ers_order_tie. Qed.
Print Assumptions c13_source_random_order_is_seed_epoch_perm.

(* ... hence the same inside any process group, under any uneven-handling mode, as outside *)
Theorem c13_source_random_order_env_independent : forall perm seed s1 s2 e, total s1 = total s2 ->
  exists st1 st2 v,
    Interp.run (SrcRun.ext_rs perm) C13Src.ers_order [(SrcRun.k_self, SrcRun.rand_self seed s1); (SrcRun.k_epoch, Syntax.VInt e)]
      = Interp.Ok v st1 /\
    Interp.run (SrcRun.ext_rs perm) C13Src.ers_order [(SrcRun.k_self, SrcRun.rand_self seed s2); (SrcRun.k_epoch, Syntax.VInt e)]
      = Interp.Ok v st2.
Proof. exact Tie.ers_order_env_independent. Qed.
Print Assumptions c13_source_random_order_env_independent.

