(* C09, second tie — symbolic run of `pad_masked_sequence` (PV.Gen.C09BSrc.masked_body) under SrcRunB.ext09b: on tabulated
   tensors of ANY sizes the interpreter returns exactly TieBSrc.src_masked_flat (the one masked_scatter of the selected
   elements), for both settings of batch_first. *)
From Coq Require Import ZArith List String Bool Arith Lia ZifyBool ZifyNat.
From PV Require Import MiniPy.Syntax MiniPy.Interp MiniTorch.Ops MiniTorch.OpsC09 MiniTorch.LemmasC09 MiniTorch.OpsC09B
  MiniTorch.LemmasC09B Gen.C09Src Gen.C09BSrc.
From PV Require Import C09.SrcRun C09.SrcRunB C09.TieSrc C09.TieBSrc C09.TieTac C09.TieBTac.
From PV Require C09.Model.
Import ListNotations.
Local Open Scope string_scope.

Lemma masked_run_bf N T F xf mf value :
  exists st,
    Interp.run ext09b masked_body
      (masked_vars (enc_p (mkTn [N; T; F] (tab3 N T F xf))) (enc_b (mkTn [N; T] (tab2 N T mf))) true value)
    = match src_masked_flat N T F xf mf value with
      | Some l => Ok (VTuple [enc_p (mkTn [N; T; F] l); enc_i (mkTn [N] (tab1 N (mlensZ T mf)))]) st
      | None => Exc runtime_error st
      end.
Proof.
  unfold Interp.run, masked_body, masked_vars.
  stmtB. close_stmt.
  stmtB. close_stmt.
  stmtB. close_stmt.
  stmtB. close_stmt.
  stmtB. close_stmt.
  stmtB. close_stmt.
  stmtB. close_stmt.
  stmtB. close_stmt.
  stmtB. unfold src_masked_flat, mlensZ.
  match goal with |- context [option_map _ (mscatter ?m ?d ?x)] => destruct (mscatter m d x) as [p1|] eqn:E1 end;
    cbn [option_map]; [|goB; eexists; reflexivity].
  goB. close_stmt.
  stmtB. close_stmt.
  goB. eexists. reflexivity.
Qed.

(* batch_first = False: x is (T, N, F), mask (T, N); both are transposed first and the result is transposed back *)
Lemma masked_run_nbf N T F xf mf value :
  exists st,
    Interp.run ext09b masked_body
      (masked_vars (enc_p (mkTn [T; N; F] (tab3 T N F xf))) (enc_b (mkTn [T; N] (tab2 T N mf))) false value)
    = match src_masked_flat N T F (fun i j l => xf j i l) (fun i j => mf j i) value with
      | Some l => Ok (VTuple [enc_p (mkTn [T; N; F] (tab3 T N F (fun j i k => at3 VNone T F l i j k)));
                              enc_i (mkTn [N] (tab1 N (mlensZ T (fun i j => mf j i))))]) st
      | None => Exc runtime_error st
      end.
Proof.
  unfold Interp.run, masked_body, masked_vars.
  stmtB. close_stmt.
  stmtB. close_stmt.
  stmtB. close_stmt.
  stmtB. close_stmt.
  stmtB. close_stmt.
  stmtB. close_stmt.
  stmtB. close_stmt.
  stmtB. close_stmt.
  stmtB. unfold src_masked_flat, mlensZ.
  match goal with |- context [option_map _ (mscatter ?m ?d ?x)] => destruct (mscatter m d x) as [p1|] eqn:E1 end;
    cbn [option_map]; [|goB; eexists; reflexivity].
  goB. close_stmt.
  assert (L1 : List.length p1 = (N * (T * F))%nat).
  { rewrite (mscatter_length_le _ _ _ _ E1), !tab3_length. lia. }
  pose proof (tab3_of_list VNone N T F p1 L1) as EP.
  set (g := fun i j c => at3 VNone T F p1 i j c) in EP. clearbody g. subst p1.
  replace (tab3 T N F (fun j i k => at3 VNone T F (tab3 N T F g) i j k)) with (tab3 T N F (fun j i k => g i j k))
    by (apply tab3_ext; intros; now rewrite at3_tab3).
  stmtB. close_stmt.
  goB. eexists. reflexivity.
Qed.
