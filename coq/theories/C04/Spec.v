(* C04 — declarative reading of the property, independent of how the search works,
   and a boolean checker [spec_okb] that judges an IMPLEMENTATION output directly
   (no beam-search model involved: only the language model is evaluated, afresh, on
   each returned token sequence). *)
From Coq Require Import List ZArith Bool Arith.
From PV Require Import C04.Model.
Import ListNotations.
Local Open Scope nat_scope.

(* ---- what is assumed of topk: sorted, duplicate-free, dominates the rest ------ *)
Definition sorted_desc (l : list score) : Prop :=
  forall i j, i <= j -> j < length l -> sleb (nth j l None) (nth i l None) = true.

Definition topk_ok (topk : nat -> list score -> list nat) : Prop :=
  forall k cs, k <= length cs ->
    let sel := topk k cs in
    length sel = k /\ NoDup sel /\ (forall i, In i sel -> i < length cs) /\
    sorted_desc (map (fun i => nth i cs None) sel) /\
    (forall i j, In i sel -> j < length cs -> ~ In j sel ->
                 sleb (nth j cs None) (nth i cs None) = true).

Section Spec.
Context {state : Type}.
Variable calc : list Z -> state -> nat -> list score * state.
Variable V : nat.

(* ---- what is assumed of the language model ------------------------------------ *)
(* its answer at position idx depends on the tokens before idx only, and a row has
   one entry per vocabulary item *)
Definition lm_ok : Prop :=
  (forall h h' st t, firstn t h = firstn t h' -> calc h st t = calc h' st t) /\
  (forall h st t, length (fst (calc h st t)) = V).

(* ---- "the model's own chained log-probability of exactly that token sequence":
   run the language model on the sequence itself, one position after the other,
   threading its state, and add up the log-probability of each token ----------- *)
Fixpoint chain_aux (p rest : list Z) (st : state) (j : nat) : score :=
  match rest with
  | [] => Some 0%Z
  | v :: r => sadd (nth (Z.to_nat v) (fst (calc p st j)) None)
                   (chain_aux p r (snd (calc p st j)) (S j))
  end.
Definition chain (st0 : state) (p : list Z) : score := chain_aux p p st0 0.

Definition in_vocab (p : list Z) : Prop := Forall (fun v => (0 <= v < Z.of_nat V)%Z) p.

(* "stops at its first end-of-sequence (counted in its length)" *)
Definition eos_first (eos : option Z) (p : list Z) : Prop :=
  match eos with Some e => ~ In e (removelast p) | None => True end.

(* complete sequences for step limit T: ended by their first eos within T tokens, or
   T tokens without eos *)
Definition complete (eos : option Z) (T : nat) (p : list Z) : Prop :=
  in_vocab p /\
  match eos with
  | Some e => (p <> [] /\ last p 0%Z = e /\ ~ In e (removelast p) /\ length p <= T)
              \/ (~ In e p /\ length p = T)
  | None => length p = T
  end.

(* the valid part of a returned slot *)
Definition vpath (sl : slot) : list Z := firstn (len sl) (col sl).

(* ---- boolean checker on implementation outputs --------------------------------- *)
Definition oslot := option (list Z * nat * Z).   (* None: -inf slot *)

Fixpoint inf_last (l : list oslot) : bool :=
  match l with
  | [] => true
  | None :: t => forallb (fun o => match o with None => true | Some _ => false end) t
  | Some _ :: t => inf_last t
  end.

Fixpoint sorted_z (l : list oslot) : bool :=
  match l with
  | Some (_, _, z) :: ((Some (_, _, z') :: _) as t) => (z' <=? z)%Z && sorted_z t
  | _ => true
  end.

Fixpoint distinctb (l : list oslot) : bool :=
  match l with
  | [] => true
  | Some (p, _, _) :: t =>
      forallb (fun o => match o with
                        | Some (q, _, _) => negb (list_eqb Z.eqb p q)
                        | None => true end) t && distinctb t
  | None :: t => distinctb t
  end.

(* the cheap tests guard the expensive one (match branches are lazy under vm_compute, [&&] is
   not): the language model is only run on sequences over the vocabulary *)
Definition slot_okb (eos : option Z) (st0 : state) (tol : Z) (o : oslot) : bool :=
  match o with
  | None => true
  | Some (p, l, z) =>
      if (length p =? l) && forallb (fun v => (0 <=? v)%Z && (v <? Z.of_nat V)%Z) p
      then match eos with
           | Some e => forallb (fun v => negb (v =? e)%Z) (removelast p)
           | None => true end
           && match chain st0 p with
              | Some c => (Z.abs (z - c) <=? tol)%Z
              | None => false end
      else false
  end.

(* all complete sequences, by enumeration *)
Fixpoint live_seqs (eos : option Z) (t : nat) : list (list Z) :=
  match t with
  | 0 => [[]]
  | S t' => flat_map (fun p => flat_map (fun v =>
               match eos with
               | Some e => if (Z.of_nat v =? e)%Z then [] else [p ++ [Z.of_nat v]]
               | None => [p ++ [Z.of_nat v]]
               end) (seq 0 V)) (live_seqs eos t')
  end.

Definition complete_seqs (eos : option Z) (T : nat) : list (list Z) :=
  match eos with
  | Some e => flat_map (fun l => map (fun p => p ++ [e]) (live_seqs eos l)) (seq 0 T)
              ++ live_seqs eos T
  | None => live_seqs eos T
  end.

Definition presentb (tol : Z) (st0 : state) (l : list oslot) (p : list Z) : bool :=
  match chain st0 p with
  | None => true            (* a zero-probability sequence cannot be told from an unusable slot *)
  | Some c => existsb (fun o => match o with
                                | Some (q, _, z) => list_eqb Z.eqb p q && (Z.abs (z - c) <=? tol)%Z
                                | None => false end) l
  end.

(* one batch element.  [T] = Some max_iters when set. *)
Definition elem_okb (width : nat) (eos : option Z) (fin_all : bool) (T : option nat)
  (tol : Z) (st0 : state) (l : list oslot) : bool :=
  (length l =? width) && inf_last l && sorted_z l && distinctb l
  && forallb (slot_okb eos st0 tol) l
  && match T with
     | Some T' =>
         let run_to_completion := match eos with Some _ => fin_all | None => true end in
         if run_to_completion && (length (complete_seqs eos T') <=? width)
         then forallb (presentb tol st0 l) (complete_seqs eos T')
         else true
     | None => true
     end.

Definition spec_okb (width : nat) (eos : option Z) (fin_all : bool) (T : option nat)
  (tol : Z) (inits : list state) (out : list (list oslot)) : bool :=
  (length out =? length inits)
  && forallb (fun p => elem_okb width eos fin_all T tol (fst p) (snd p)) (combine inits out).
End Spec.
