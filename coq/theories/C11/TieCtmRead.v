(* C11 source tie - read_ctm (open-file branch), whole block: the loop over the lines is the model's fold of
   read_ctm_step (TieCtmStep.step_tie per line, invariant over MiniPy.Lemmas.forc_loop), the final comprehension with
   its sort by start time is the model's map / sort_by.  Main result: [read_ctm_tie]. *)
From Coq Require Import ZArith QArith List String Ascii Bool Lia.
From PV Require C11.Spec.
From PV Require Import C11.Model MiniPy.Syntax MiniPy.Interp MiniPy.Lemmas Gen.C11Src C11.SrcRun C11.TieBase C11.TieCtmStep.
Import ListNotations.
Local Open Scope string_scope.

#[local] Arguments Qred : simpl never.
#[local] Arguments Qplus : simpl never.
#[local] Arguments Qcompare : simpl never.
#[local] Arguments inject_Z : simpl never.
#[local] Arguments str_eqb : simpl never.
#[local] Arguments enc_od : simpl never.

(* ---- the loop ------------------------------------------------------------------------------------------------ *)
Lemma fold_raise m e ls : fold_left (read_ctm_step m) ls (Model.Raise e) = Model.Raise e.
Proof. induction ls as [|l ls IH]; [reflexivity|exact IH]. Qed.

Lemma loop_tie m C : forall ls i d rest evs, shape_ok rest ->
  let st := mkState (base C (enc_wc2utt m) d ++ rest) evs in
  match fold_left (read_ctm_step m) ls (Model.Ok d) with
  | Model.Ok d' => exists rest', shape_ok rest' /\
      forc_loop ext11 "$t2" loop_body (enum_from i (map enc_seg_line ls)) st
      = Ok CNormal (mkState (base C (enc_wc2utt m) d' ++ rest') evs)
  | Model.Raise e => exists st', forc_loop ext11 "$t2" loop_body (enum_from i (map enc_seg_line ls)) st = Exc (exn_name e) st'
  end.
Proof.
  induction ls as [|l ls IH]; intros i d rest evs Hs; cbv zeta.
  - cbn. exists rest. split; [exact Hs|reflexivity].
  - cbn [fold_left map enum_from forc_loop].
    pose proof (step_tie m C i l d rest evs Hs) as Hstep. cbv zeta in Hstep.
    destruct (read_ctm_step m (Model.Ok d) l) as [d1|e].
    + destruct Hstep as [rest1 [Hs1 Hx]]. rewrite Hx.
      exact (IH (i + 1)%Z d1 rest1 evs Hs1).
    + destruct Hstep as [st' Hx]. rewrite Hx, fold_raise. exists st'.
      destruct e; reflexivity.
Qed.

(* ---- sorted(transcript, key=lambda x: x[1]) ------------------------------------------------------------------- *)
Local Notation t_start := C11.Spec.t_start.
Definition kf (x : timed) : val * val := (qz (t_start x), enc_timed x).

Lemma t_start_eq (x : timed) : t_start x = snd (fst x).
Proof. reflexivity. Qed.

Lemma keys_tie (vs : list timed) : forall st,
  exists st', sorted_keys ext11 "x" (ESub (EName "x") (EConst (VInt 1))) (map enc_timed vs) st = Ok (map kf vs) st'.
Proof.
  induction vs as [|[[t s] e] vs IH]; intros st.
  - exists st. reflexivity.
  - cbn [map sorted_keys]. cbn [eval].
    unfold set_var at 1. cbn [vars]. rewrite lookup_update_eq. cbn [bind].
    change (subscript (enc_timed (t, s, e)) (VInt 1) (set_var "x" (enc_timed (t, s, e)) st))
      with (Ok (qz s) (set_var "x" (enc_timed (t, s, e)) st)).
    cbn [bind].
    destruct (IH (set_var "x" (enc_timed (t, s, e)) st)) as [st' Hk].
    exists st'. rewrite Hk. reflexivity.
Qed.

Lemma cmp_lt_qz a b : cmp_eval Lt (qz a) (qz b) = Some (a <? b)%Z.
Proof. unfold qz. cbn. rewrite Qcompare_inject. reflexivity. Qed.

Lemma insert_tie e (l : list timed) :
  insert_keyed (kf e) (map kf l) = Some (map kf (ins_r t_start e l)).
Proof.
  induction l as [|y t IH]; [reflexivity|].
  cbn [map insert_keyed ins_r]. unfold kf at 1 2. cbn [fst]. rewrite cmp_lt_qz.
  destruct (t_start y <? t_start e)%Z; [|reflexivity].
  rewrite IH. reflexivity.
Qed.

Lemma sort_start_tie (vs : list timed) :
  sort_keyed (map kf vs) = Some (map enc_timed (sort_by timed_start_leb vs)).
Proof.
  unfold sort_keyed.
  assert (H : sort_keyed_aux (map kf vs) = Some (map kf (sort_r t_start vs))).
  { induction vs as [|e vs IH]; [reflexivity|].
    cbn [map sort_keyed_aux]. rewrite IH. cbn [sort_r fold_right]. apply insert_tie. }
  rewrite H. cbn [option_map]. rewrite map_map. cbn [kf snd].
  rewrite (sort_r_sort_by t_start vs). reflexivity.
Qed.

(* ---- the final comprehension ------------------------------------------------------------------------------------- *)
Definition comp_elt : expr :=
  ETupleLit [EName "utt_id"; ESorted (EName "transcript") "x" (ESub (EName "x") (EConst (VInt 1)))].

Definition item_of (ut : str * list timed) : val := VTuple [enc_str (fst ut); enc_tl (snd ut)].

Lemma eval_tuple2 ext x it y key st :
  eval ext (ETupleLit [EName x; ESorted it y key]) st =
  bind (eval ext (EName x) st) (fun va st1 =>
    bind (eval ext (ESorted it y key) st1) (fun vb st2 => Ok (VTuple [va; vb]) st2)).
Proof.
  cbn [eval]. destruct (lookup x (vars st)); cbn [bind]; [|reflexivity].
  match goal with |- bind (bind (bind ?X _) _) _ = bind ?X _ => destruct X; reflexivity end.
Qed.

Lemma eval_name ext x st v : lookup x (vars st) = Some v -> eval ext (EName x) st = Ok v st.
Proof. intros H. cbn [eval]. rewrite H. reflexivity. Qed.

Lemma comp_tie (d : list (str * list timed)) : forall st,
  exists st', comp_loop ext11 comp_elt "$t3" ["utt_id"; "transcript"] (EConst (VBool true)) (map item_of d) st
              = Ok (map enc_utt (map (fun ut => (fst ut, sort_by timed_start_leb (snd ut))) d)) st'.
Proof.
  induction d as [|[u vs] d IH]; intros st.
  - exists st. reflexivity.
  - cbn [map comp_loop]. unfold item_of at 1. cbn [fst snd].
    change (bind_item "$t3" ["utt_id"; "transcript"] (VTuple [enc_str u; enc_tl vs]) st)
      with (Ok tt (set_var "transcript" (enc_tl vs) (set_var "utt_id" (enc_str u)
                     (set_var "$t3" (VTuple [enc_str u; enc_tl vs]) st)))).
    cbn [bind]. change (eval ext11 (EConst (VBool true)) ?s) with (Ok (VBool true) s).
    cbn [bind truthy]. unfold comp_elt. rewrite eval_tuple2.
    rewrite (eval_name ext11 "utt_id" _ (enc_str u))
      by (cbn [set_var vars]; rewrite lookup_update_neq by reflexivity; apply lookup_update_eq).
    cbn [bind]. rewrite eval_sorted.
    rewrite (eval_name ext11 "transcript" _ (enc_tl vs)) by (cbn [set_var vars]; apply lookup_update_eq).
    cbn [bind]. unfold enc_tl at 1. cbn [container_items].
    match goal with |- context [sorted_keys ext11 "x" _ _ ?s] => destruct (keys_tie vs s) as [st1 Hk] end.
    rewrite Hk. cbn [bind]. rewrite sort_start_tie. cbn [bind].
    destruct (IH st1) as [st2 Hc]. unfold comp_elt in Hc. rewrite Hc. cbn [bind]. exists st2. reflexivity.
Qed.

Lemma items_enc (d : list (str * list timed)) :
  map (fun kv : val * val => VTuple [fst kv; snd kv]) (enc_od d) = map item_of d.
Proof. unfold enc_od, enc_al. rewrite map_map. reflexivity. Qed.

(* ---- the whole block -------------------------------------------------------------------------------------------- *)
Theorem read_ctm_tie ls m :
  match read_ctm_file ls m with
  | Model.Ok out => exists st, run_read_ctm (map enc_seg_line ls) (enc_wc2utt m) = Ok (VList (map enc_utt out)) st
  | Model.Raise e => exists st, run_read_ctm (map enc_seg_line ls) (enc_wc2utt m) = Exc (exn_name e) st
  end.
Proof.
  unfold run_read_ctm, Interp.run, read_ctm_file.
  set (lines := map enc_seg_line ls). set (W := enc_wc2utt m).
  change src_read_ctm with
    (SSeq (SAssign [TName "transcripts"] (ECall "OrderedDict" [] []))
       (SSeq (SForC "$t2" (ECall "enumerate" [EName "ctm"] []) loop_body) ret_stmt)).
  rewrite exec_seq.
  change (exec ext11 (SAssign [TName "transcripts"] (ECall "OrderedDict" [] []))
            (mkState [("ctm", VList lines); ("wc2utt", W)] []))
    with (Ok CNormal (mkState (base (VList lines) W [] ++ []) [])).
  cbn [bind]. rewrite exec_seq, exec_forc.
  change (eval ext11 (ECall "enumerate" [EName "ctm"] []) (mkState (base (VList lines) W [] ++ []) []))
    with (Ok (VList (enum_from 0 lines)) (mkState (base (VList lines) W [] ++ []) [])).
  cbn [bind iter_items container_items].
  pose proof (loop_tie m (VList lines) ls 0%Z [] [] [] (or_introl eq_refl)) as Hl. cbv zeta in Hl.
  fold lines W in Hl.
  destruct (fold_left (read_ctm_step m) ls (Model.Ok [])) as [d'|e].
  - destruct Hl as [rest' [Hs Hf]]. rewrite Hf. cbn [bind].
    unfold ret_stmt, src_read_ctm. cbn [exec]. rewrite eval_listcomp.
    match goal with |- context [eval ext11 (ECall "list" ?a ?k) ?s] =>
      change (eval ext11 (ECall "list" a k) s)
        with (Ok (VList (map (fun kv : val * val => VTuple [fst kv; snd kv]) (enc_od d'))) s) end.
    cbn [bind foreign container_items]. rewrite items_enc.
    match goal with |- context [comp_loop ext11 ?e ?x ?ns ?c ?l ?s] => destruct (comp_tie d' s) as [st1 Hc] end.
    unfold comp_elt in Hc. rewrite Hc. cbn [bind]. eexists. reflexivity.
  - destruct Hl as [st' Hf]. rewrite Hf. cbn [bind]. eexists. reflexivity.
Qed.
