(* C12 — the translated sources of `_load_ref`, `_write_hyp` and of blocks of `_info_and_validate`
   (src/pydrobert/torch/_datasets.py) as executables: the environment [ext12], the encoding of the model's
   values as MiniPy values, and the correspondence entry points [src_check_load], [src_check_write_hyp], ...
   Definitions only; the lemmas are in Tie*.v.

   PV.Gen.C12Src.* are regenerated from /repo on every run by harness/py2coq/translate.py.

   [ext12 env] gives the torch calls of those bodies the meaning defined in PV.MiniTorch.OpsC12 and hands every
   other call to [env] (the world outside the function: `torch.load`, the data-set object, `os.path.join`).
   What arrives here (see MiniPy.Interp):
     x.ndim, x.shape, x.dtype, x.device                    "$attr.<name>"   (device: the object {type: "cpu"|"cuda"})
     x.size(k), x.dim(), x.numel(), x.new_full(s, v), x.unsqueeze(k), x.cpu(), x.long(), x.eq(v), x.item(),
     x.tolist()                                            "$method.<name>" with the tensor as first argument
     x[..., c], x[:, c], x[a:b], x[i]                      "$getitem" [x; key]
     x[i] = v, x[a:b] = v, x[i] = row                      "$setitem" [x; key; v] -> the updated tensor
     torch.cat([a, b], d), torch.nonzero(x, as_tuple=False), torch.full(s, v, dtype=torch.long),
     torch.save(x, path), isinstance(x, cls), enumerate(x)
   A 0-DIMENSIONAL integer tensor (x[i] of a 1-D tensor) is represented by its Python integer: the code tied here
   only compares it (`r[1] < 0`), subtracts a Python int from it, takes its truth value through such a comparison
   and calls `.item()` on it - all of which give, on the integer, the answers torch gives on the 0-d tensor
   (unbounded integers: no int64 wrap-around).
   `torch.save(x, path)` is an EFFECT: the event ("torch.save", [x; path]) is appended to the run's events and
   None is returned.  f-strings ("$fstring") only build warning / exception texts in the tied code: their value
   is the empty string.  The global `torch` is the object [torch_module] in the initial variables (its classes and
   `torch.long` are opaque tokens).  Everything else is Stuck. *)
From Coq Require Import ZArith List String Bool.
From PV Require Import MiniPy.Syntax MiniPy.Interp MiniTorch.OpsC12 Gen.C12Src.
From PV Require C12.Model.
Import ListNotations.
Local Open Scope string_scope.

(* ---- tensors as MiniPy values ------------------------------------------------------------------------------------
   VTuple [VStr "$tensor12"; VBool cuda; VStr dtype; VList shape; VList data]: the tag starts with "$", so the value
   is a library object for MiniPy.Interp ([foreign], [foreign_item]): t[i], t.m(..), t.a all reach [ext12]. *)
Definition tensor_tag : string := "$tensor12".

Definition enc_nats (s : list nat) : list val := map (fun n => VInt (Z.of_nat n)) s.

Definition enc12 (t : tens) : val :=
  VTuple [VStr tensor_tag; VBool (t_cuda t); VStr (dtype_name (t_dtype t)); VList (enc_nats (t_shape t));
          VList (map VInt (t_data t))].

Fixpoint dec_nats (l : list val) : option (list nat) :=
  match l with
  | [] => Some []
  | VInt z :: r => if Z.leb 0 z then option_map (cons (Z.to_nat z)) (dec_nats r) else None
  | _ => None
  end.

Fixpoint dec_ints (l : list val) : option (list Z) :=
  match l with
  | [] => Some []
  | VInt z :: r => option_map (cons z) (dec_ints r)
  | _ => None
  end.

Definition dec12 (v : val) : option tens :=
  match v with
  | VTuple [VStr tag; VBool cu; VStr dn; VList sh; VList d] =>
      if String.eqb tag tensor_tag then
        match dtype_of_name dn, dec_nats sh, dec_ints d with
        | Some dt, Some s, Some x => Some (mkT cu dt s x)
        | _, _, _ => None
        end
      else None
  | _ => None
  end.

Definition dec_sizes (v : val) : option (list nat) :=
  match v with VTuple l | VList l => dec_nats l | _ => None end.

Definition outside (why : string) : outcome val := Stuck ("MiniTorch(C12): outside the modelled domain: " ++ why).

Definition ret12 (why : string) (o : option tens) (st : state) : outcome val :=
  match o with Some t => Ok (enc12 t) st | None => outside why end.

Definition ret_res (why : string) (r : res tens) (st : state) : outcome val :=
  match r with Val t => Ok (enc12 t) st | Raise e => Exc e st | Undef => outside why end.

Definition on1 (why : string) (v : val) (k : tens -> option tens) (st : state) : outcome val :=
  match dec12 v with Some t => ret12 why (k t) st | None => Stuck ("MiniTorch(C12): not a tensor: " ++ why) end.

Definition ret_nat (why : string) (o : option nat) (st : state) : outcome val :=
  match o with Some n => Ok (VInt (Z.of_nat n)) st | None => outside why end.

(* ---- subscript keys: i, a:b (no step), [..., c] and [:, c] ------------------------------------------------------- *)
Definition is_ellipsis (v : val) : bool :=
  match v with VTuple [VStr s] => String.eqb s "$ellipsis" | _ => false end.

Definition dec_bound (v : val) : option (option Z) :=
  match v with VNone => Some None | VInt z => Some (Some z) | _ => None end.

Definition dec_slice (v : val) : option (option Z * option Z) :=
  match v with
  | VTuple [VStr s; a; b; VNone] =>
      if String.eqb s "$slice" then
        match dec_bound a, dec_bound b with Some x, Some y => Some (x, y) | _, _ => None end
      else None
  | _ => None
  end.

Inductive key := KInt (i : Z) | KSlice (a b : option Z) | KCol (c : Z).

Definition dec_key (k : val) : option key :=
  match k with
  | VInt i => Some (KInt i)
  | VTuple [e; VInt c] =>
      if is_ellipsis e then Some (KCol c)
      else match dec_slice e with Some (None, None) => Some (KCol c) | _ => None end
  | _ => match dec_slice k with Some (a, b) => Some (KSlice a b) | None => None end
  end.

(* ---- the global `torch` ------------------------------------------------------------------------------------------- *)
Definition class_token (c : string) : val := VStr ("$class." ++ c).
Definition long_token : val := VStr "$dtype.long".
Definition torch_module : val :=
  VDict [(VStr "Tensor", class_token "Tensor"); (VStr "LongTensor", class_token "LongTensor");
         (VStr "ByteTensor", class_token "ByteTensor"); (VStr "CharTensor", class_token "CharTensor");
         (VStr "ShortTensor", class_token "ShortTensor"); (VStr "IntTensor", class_token "IntTensor");
         (VStr "long", long_token)].

(* "$class.X" -> X *)
Definition class_of_token (v : val) : option string :=
  match v with
  | VStr s => if String.eqb (substring 0 7 s) "$class." then Some (substring 7 (String.length s - 7) s) else None
  | _ => None
  end.

Fixpoint any_some (l : list (option bool)) : option bool :=
  match l with
  | [] => Some false
  | Some b :: r => option_map (orb b) (any_some r)
  | None :: _ => None
  end.

(* isinstance(x, C) / isinstance(x, (C1, C2, ...)) for a tensor x *)
Definition isinstance12 (t : tens) (cls : val) : option bool :=
  match cls with
  | VTuple l => any_some (map (fun c => match class_of_token c with Some n => instance_of t n | None => None end) l)
  | _ => match class_of_token cls with Some n => instance_of t n | None => None end
  end.

Definition device_obj (t : tens) : val := VDict [(VStr "type", VStr (if t_cuda t then "cuda" else "cpu"))].

Fixpoint enum_from (i : Z) (l : list tens) : list val :=
  match l with [] => [] | r :: rest => VTuple [VInt i; enc12 r] :: enum_from (i + 1) rest end.

Definition no_kw (kw : list (string * val)) : bool := match kw with [] => true | _ => false end.

Definition ext12 (env : string -> list val -> list (string * val) -> state -> outcome val)
  (f : string) (args : list val) (kw : list (string * val)) (st : state) : outcome val :=
  if is f "torch.nonzero" then
    match args, kw with
    | [t], [(k, VBool false)] => if is k "as_tuple" then on1 "nonzero" t nonzero st else Stuck "nonzero: keyword"
    | _, _ => Stuck "nonzero"
    end
  else if is f "torch.full" then
    match args, kw with
    | [s; VInt v], [(k, d)] =>
        if (is k "dtype" && val_eqb d long_token)%bool
        then ret12 "full" (match dec_sizes s with Some sz => full_long sz v | None => None end) st
        else Stuck "full: keyword"
    | _, _ => Stuck "full"
    end
  else if negb (no_kw kw) then env f args kw st
  else if is f "$attr.ndim" then
    match args with [t] => match dec12 t with Some x => Ok (VInt (Z.of_nat (ndim x))) st | None => Stuck "ndim" end
                  | _ => Stuck "ndim" end
  else if is f "$method.dim" then
    match args with [t] => match dec12 t with Some x => Ok (VInt (Z.of_nat (ndim x))) st | None => Stuck "dim" end
                  | _ => Stuck "dim" end
  else if is f "$attr.shape" then
    match args with [t] => match dec12 t with Some x => Ok (VTuple (enc_nats (t_shape x))) st | None => Stuck "shape" end
                  | _ => Stuck "shape" end
  else if is f "$attr.dtype" then
    match args with [t] => match dec12 t with Some x => Ok (VStr (dtype_name (t_dtype x))) st | None => Stuck "dtype" end
                  | _ => Stuck "dtype" end
  else if is f "$attr.device" then
    match args with [t] => match dec12 t with Some x => Ok (device_obj x) st | None => Stuck "device" end
                  | _ => Stuck "device" end
  else if is f "$method.size" then
    match args with
    | [t; VInt d] => match dec12 t with Some x => ret_nat "size" (size x d) st | None => Stuck "size" end
    | _ => Stuck "size"
    end
  else if is f "$method.numel" then
    match args with [t] => match dec12 t with Some x => Ok (VInt (Z.of_nat (numel x))) st | None => Stuck "numel" end
                  | _ => Stuck "numel" end
  else if is f "$method.new_full" then
    match args with
    | [t; s; VInt v] => on1 "new_full" t (fun x => match dec_sizes s with Some sz => new_full x sz v | None => None end) st
    | _ => Stuck "new_full"
    end
  else if is f "$method.unsqueeze" then
    match args with [t; VInt d] => on1 "unsqueeze" t (fun x => unsqueeze x d) st | _ => Stuck "unsqueeze" end
  else if is f "$method.cpu" then
    match args with [t] => on1 "cpu" t (fun x => Some (cpu x)) st | _ => Stuck "cpu" end
  else if is f "$method.long" then
    match args with [t] => on1 "long" t (fun x => Some (long x)) st | _ => Stuck "long" end
  else if is f "$method.eq" then
    match args with [t; VInt s] => on1 "eq" t (fun x => Some (eq_scalar x s)) st | _ => Stuck "eq" end
  else if is f "$method.item" then
    match args with
    | [t] => match dec12 t with
             | Some x => match item x with Some z => Ok (VInt z) st | None => outside "item" end
             | None => Stuck "item"
             end
    | _ => Stuck "item"
    end
  else if is f "$method.tolist" then
    match args with
    | [t] => match dec12 t with
             | Some x => match tolist2 x with
                         | Some rows => Ok (VList (map (fun r => VList (map VInt r)) rows)) st
                         | None => outside "tolist"
                         end
             | None => Stuck "tolist"
             end
    | _ => Stuck "tolist"
    end
  else if is f "torch.cat" then
    match args with
    | [VList [a; b]; VInt d] =>
        match dec12 a, dec12 b with
        | Some x, Some y => ret_res "cat" (cat x y d) st
        | _, _ => Stuck "cat"
        end
    | _ => Stuck "cat"
    end
  else if is f "$getitem" then
    match args with
    | [t; k] =>
        match dec12 t, dec_key k with
        | Some x, Some (KInt i) =>
            match get_item x i with
            | Val (inl z) => Ok (VInt z) st
            | Val (inr r) => Ok (enc12 r) st
            | Raise e => Exc e st
            | Undef => outside "x[i]"
            end
        | Some x, Some (KSlice a b) => ret12 "x[a:b]" (slice0 x a b) st
        | Some x, Some (KCol c) => ret_res "x[..., c]" (select_col x c) st
        | _, _ => Stuck "getitem"
        end
    | _ => Stuck "getitem"
    end
  else if is f "$setitem" then
    match args with
    | [t; k; v] =>
        match dec12 t, dec_key k, dec12 v with
        | Some x, Some (KInt i), Some r => ret12 "x[i] = row" (set_row x i r) st
        | Some x, Some (KInt i), None =>
            match v with VInt z => ret_res "x[i] = v" (set_item x i z) st | _ => Stuck "setitem" end
        | Some x, Some (KSlice a b), None =>
            match v with VInt z => ret12 "x[a:b] = v" (fill_slice x a b z) st | _ => Stuck "setitem" end
        | _, _, _ => Stuck "setitem"
        end
    | _ => Stuck "setitem"
    end
  else if is f "torch.save" then
    match args with
    | [t; p] => match dec12 t with
                | Some _ => Ok VNone (emit ("torch.save", [t; p]) st)
                | None => Stuck "save"
                end
    | _ => Stuck "save"
    end
  else if is f "isinstance" then
    match args with
    | [t; cls] => match dec12 t with
                  | Some x => match isinstance12 x cls with Some b => Ok (VBool b) st | None => Stuck "isinstance: class" end
                  | None => Stuck "isinstance"
                  end
    | _ => Stuck "isinstance"
    end
  else if is f "enumerate" then
    match args with
    | [t] => match dec12 t with
             | Some x => match rows_of x with Some rs => Ok (VList (enum_from 0 rs)) st | None => outside "enumerate" end
             | None => Stuck "enumerate"
             end
    | _ => Stuck "enumerate"
    end
  else if is f "$fstring" then Ok (VStr "") st
  else env f args kw st.

(* ---- encodings of the model's values ---------------------------------------------------------------------------- *)
Definition row3 (r : Model.row) : list Z := let '(a, b, c) := r in [a; b; c].

(* a stored reference as a tensor.  RN nd (0 or >= 3 dimensions, no payload in the model): one element *)
Definition tens_of_rdata (cu : bool) (dt : Model.dtype) (d : Model.rdata) : tens :=
  match d with
  | Model.R1 t => T1 cu dt t
  | Model.R2 rows => T2 cu dt 3 (map row3 rows)
  | Model.R2w w rows => T2 cu dt w rows
  | Model.RN nd => mkT cu dt (repeat 1%nat nd) [0%Z]
  end.

Definition tens_of_ref (r : Model.ref) : tens := tens_of_rdata (Model.r_cuda r) (Model.r_dtype r) (Model.r_data r).

(* what a tensor is for the model (the inverse on well-formed tensors of rank 1 and 2) *)
Definition as_row3 (r : list Z) : Model.row :=
  match r with [a; b; c] => (a, b, c) | _ => (0, 0, 0)%Z end.

Definition rdata_of_tens (t : tens) : Model.rdata :=
  match t_shape t with
  | [n] => Model.R1 (t_data t)
  | [n; 3%nat] => Model.R2 (map as_row3 (chunks n 3 (t_data t)))
  | [n; w] => Model.R2w w (chunks n w (t_data t))
  | s => Model.RN (List.length s)
  end.

Definition ref_of_tens (t : tens) : Model.ref := Model.mkRef (t_cuda t) (t_dtype t) (rdata_of_tens t).

Definition oz (o : option Z) : val := match o with Some z => VInt z | None => VNone end.

Definition exn_of_name (n : string) : Model.exn :=
  if String.eqb n "ValueError" then Model.ValueErr
  else if String.eqb n "RuntimeError" then Model.RuntimeErr
  else if String.eqb n "IndexError" then Model.IndexErr
  else Model.OtherErr.

Definition name_of_exn (e : Model.exn) : string :=
  match e with
  | Model.ValueErr => "ValueError" | Model.RuntimeErr => "RuntimeError" | Model.IndexErr => "IndexError"
  | Model.OtherErr => "Exception"
  end.

(* ---- _load_ref(pth, tokens_only, sos, eos) ------------------------------------------------------------------------- *)
(* the world of `_load_ref`: torch.load(pth) returns the stored tensor *)
Definition env_file (t : tens) (f : string) (args : list val) (kw : list (string * val)) (st : state) : outcome val :=
  if is f "torch.load" then
    match args, kw with [_], [] => Ok (enc12 t) st | _, _ => Stuck "torch.load" end
  else Stuck ("ext12: " ++ f).

Definition load_vars (c : Model.cfg) : list (string * val) :=
  [("pth", VStr "ref"); ("tokens_only", VBool (Model.c_tokens_only c)); ("sos", oz (Model.c_sos c));
   ("eos", oz (Model.c_eos c)); ("torch", torch_module)].

Definition run_load_ref (c : Model.cfg) (t : tens) : outcome val :=
  Interp.run (ext12 (env_file t)) load_ref_body (load_vars c).

(* None: the interpreter got stuck (outside the modelled domain) or returned something that is not a tensor *)
Definition src_load_ref (c : Model.cfg) (t : tens) : option (Model.exn + tens) :=
  match run_load_ref c t with
  | Ok v _ => option_map inr (dec12 v)
  | Exc n _ => Some (inl (exn_of_name n))
  | Stuck _ => None
  end.

(* same interface as Model.check_load; [evaluated; agrees] *)
Definition src_check_load (c : Model.cfg) (r : Model.ref) (out : Model.exn + Model.ref) : list bool :=
  match src_load_ref c (tens_of_ref r), out with
  | Some (inl a), inl b => [true; Model.exn_beq a b]
  | Some (inr t), inr b => [true; Model.ref_beq (ref_of_tens t) b]
  | Some _, _ => [true; false]
  | None, _ => [false; false]
  end.

(* ---- _write_hyp(hyp, pth, sos, eos) --------------------------------------------------------------------------------- *)
Definition env_none (f : string) (args : list val) (kw : list (string * val)) (st : state) : outcome val :=
  Stuck ("ext12: " ++ f).

Definition hyp_path : val := VStr "hyp".

Definition hyp_vars (sos eos : option Z) (h : tens) : list (string * val) :=
  [("hyp", enc12 h); ("pth", hyp_path); ("sos", oz sos); ("eos", oz eos); ("torch", torch_module)].

Definition run_write_hyp (sos eos : option Z) (h : tens) : outcome val :=
  Interp.run (ext12 env_none) write_hyp_body (hyp_vars sos eos h).

(* the tensor the run stores: exactly one effect, torch.save(<tensor>, pth), and None returned *)
Definition src_write_hyp (sos eos : option Z) (h : tens) : option tens :=
  match run_write_hyp sos eos h with
  | Ok VNone st =>
      match events st with
      | [(name, [v; p])] => if (String.eqb name "torch.save" && val_eqb p hyp_path)%bool then dec12 v else None
      | _ => None
      end
  | _ => None
  end.

(* same interface as Model.check_write_hyp (the hypothesis comes with its device and dtype; what is stored must
   be a CPU long tensor); [evaluated; agrees] *)
Definition src_check_write_hyp (sos eos : option Z) (cu : bool) (dt : Model.dtype) (h out : Model.rdata) : list bool :=
  match src_write_hyp sos eos (tens_of_rdata cu dt h) with
  | Some t => [true; (negb (t_cuda t) && Model.dtype_beq (t_dtype t) Model.DI64 && Model.rdata_beq (rdata_of_tens t) out)%bool]
  | None => [false; false]
  end.
