(* C05 - the masses carried by the vectorised model never exceed the alignment sums. *)
From Coq Require Import List Arith Bool QArith Qcanon Lia.
From PV Require Import C05.Model C05.Spec C05.ProofsNum C05.ProofsSpec C05.ProofsModel C05.ProofsSearch.
Import ListNotations.
Local Open Scope nat_scope.

(* the frame handed to the step function is frame n of the specification, and its per-slot
   extension scores are the specification's scores of the slots' prefixes *)
Definition frame_agrees (V : nat) (fr : frame) (bm : beam) (frames : list sframe) (E : score)
  (n : nat) : Prop :=
  f_nonext fr = fst (fr_at frames n) /\ f_blank fr = snd (fr_at frames n) /\
  forall k v, valid bm k -> v < V -> extp fr k v = E n (pref bm k) v.

Definition mbound (V : nat) (frames : list sframe) (E : score) (bm : beam) : Prop :=
  forall k, valid bm k ->
    (0 <= nbq bm k)%Qc /\ (nbq bm k <= A_nb V frames E (b_t bm) (pref bm k))%Qc /\
    (0 <= bq bm k)%Qc /\ (bq bm k <= A_b V frames E (b_t bm) (pref bm k))%Qc.

Lemma last_opt_last : forall p, p <> [] -> last_opt p = Some (last p 0).
Proof. destruct p; intros; [congruence|reflexivity]. Qed.

Section MassStep.
  Variables (V width : nat) (fr : frame) (bm : beam) (choice : list nat).
  Variables (frames : list sframe) (E : score).
  Hypothesis Vpos : 1 <= V.
  Hypothesis Wpos : 1 <= width.
  Hypothesis I : inv V bm.
  Hypothesis Clen : length choice = Kout V bm width.
  Hypothesis Crange : forall i, In i choice -> i < ncand V bm.
  Hypothesis Cnodup : NoDup choice.
  Hypothesis NN : nonneg_frames frames E.
  Hypothesis FA : frame_agrees V fr bm frames E (b_t bm).
  Hypothesis MB : mbound V frames E bm.

  Let W := inv_wf V bm I.
  Let n := b_t bm.
  Let nx := fst (advance V fr bm width choice).

  (* extending the valid slot k by token v *)
  Lemma ext_term_le : forall k v, valid bm k -> v < V ->
    (0 <= nb_ext V fr bm k v)%Qc /\
    (nb_ext V fr bm k v
     <= (A_b V frames E n (pref bm k)
         + (if opt_is (last_opt (pref bm k)) v then 0 else A_nb V frames E n (pref bm k)))
        * E n (pref bm k) v)%Qc.
  Proof.
    intros k v Vk Hv. destruct NN as (N1 & N2 & N3). destruct FA as (F1 & F2 & F3).
    destruct (MB k Vk) as (M1 & M2 & M3 & M4). fold n in M2, M4.
    destruct (A_nonneg V frames E n (pref bm k) NN) as [AN AB].
    unfold nb_ext. rewrite (F3 k v Vk Hv). fold n.
    assert (X : (0 <= (if v =? lastc V bm k then 0 else nbq bm k))%Qc /\
                ((if v =? lastc V bm k then 0 else nbq bm k)
                 <= (if opt_is (last_opt (pref bm k)) v then 0 else A_nb V frames E n (pref bm k)))%Qc).
    { destruct (Nat.eq_dec (lens bm k) 0) as [L0|L0].
      - rewrite (inv_nb0 V bm I k Vk L0).
        assert (Z : (if v =? lastc V bm k then 0%Qc else 0%Qc) = 0%Qc) by (destruct (v =? lastc V bm k); auto).
        rewrite Z. split; [apply qle_00|]. destruct (opt_is (last_opt (pref bm k)) v); auto using qle_00.
      - assert (NE : pref bm k <> []).
        { intro C. apply (f_equal (@length nat)) in C. rewrite pref_length in C by (auto; apply Vk). cbn in C. lia. }
        rewrite (last_opt_last _ NE). cbn [opt_is].
        rewrite (inv_last V bm I k Vk) by lia. rewrite Nat.eqb_sym.
        destruct (last (pref bm k) 0 =? v); auto using qle_00. }
    destruct X as [X0 X1]. split.
    - apply qmul_nonneg; auto using qadd_nonneg.
    - apply qmul_le; auto using qadd_nonneg, qle_refl.
      replace (A_b V frames E n (pref bm k) + (if opt_is (last_opt (pref bm k)) v then 0 else A_nb V frames E n (pref bm k)))%Qc
        with ((if opt_is (last_opt (pref bm k)) v then 0 else A_nb V frames E n (pref bm k)) + A_b V frames E n (pref bm k))%Qc by ring.
      apply qadd_le; auto.
  Qed.

  (* an invalid slot contributes no mass *)
  Lemma invalid_ext_zero : forall k v, invalid bm k = true -> nb_ext V fr bm k v = 0%Qc.
  Proof.
    intros k v H. unfold nb_ext, nbq, bq. rewrite H. destruct (v =? lastc V bm k); ring.
  Qed.

  (* a slot that [ext_is_exact] relates to k' holds k' minus its last token, and the token to
     match is that last token *)
  Lemma exact_pre : forall k k', k < Kp bm -> valid bm k' -> ext_is_exact bm k k' = true ->
    pref bm k = removelast (pref bm k') /\ to_match V bm k k' = last (pref bm k') 0 /\
    pref bm k' <> [].
  Proof.
    intros k k' Lk Vk' H. unfold ext_is_exact in H. apply andb_true_iff in H. destruct H as [H1 H2].
    apply Nat.eqb_eq in H1. destruct Vk' as [Lk' IVk'].
    apply (inv_snd V bm I) in H2; auto. apply is_pre_exists in H2. destruct H2 as (s & Hs).
    assert (LS : length s = 1).
    { apply (f_equal (@length nat)) in Hs. rewrite app_length, !pref_length in Hs by auto. lia. }
    destruct s as [|x [|y s]]; cbn in LS; try lia.
    rewrite Hs, removelast_snoc, last_snoc. split; auto. split; [|destruct (pref bm k); discriminate].
    pose proof (wf_len bm W k') as LT.
    unfold to_match. replace (b_t bm =? 0) with false by (symmetry; apply Nat.eqb_neq; lia).
    replace (Nat.min (lens bm k) (b_t bm - 1)) with (lens bm k) by lia.
    rewrite <- pref_nth by lia. rewrite Hs, <- (pref_length bm k) by auto.
    rewrite app_nth2, Nat.sub_diag by lia. cbn [nth].
    assert (x < V).
    { pose proof (inv_lt V bm I k' (conj Lk' IVk')) as F. rewrite Hs in F. apply Forall_app in F.
      destruct F as [_ F]. inversion F; auto. }
    unfold clampV. lia.
  Qed.

  Lemma merged_le : forall k', valid bm k' -> 0 < lens bm k' ->
    let p := pref bm k' in let v := last p 0 in
    (0 <= merged V fr bm k')%Qc /\
    (merged V fr bm k'
     <= (A_b V frames E n (removelast p)
         + (if opt_is (last_opt (removelast p)) v then 0 else A_nb V frames E n (removelast p)))
        * E n (removelast p) v)%Qc.
  Proof.
    intros k' Vk' L p v. destruct NN as (N1 & N2 & N3).
    destruct (A_nonneg V frames E n (removelast p) NN) as [AN AB].
    assert (Hv : v < V).
    { pose proof (inv_lt V bm I k' Vk') as F. fold p in F.
      assert (NE : p <> []) by (intro C; apply (f_equal (@length nat)) in C; unfold p in C;
                                 rewrite pref_length in C by (auto; apply Vk'); cbn in C; lia).
      rewrite (snoc_decomp p 0 NE) in F. apply Forall_app in F. destruct F as [_ F]. inversion F; auto. }
    unfold merged. apply qsum_at_most_one.
    - apply qmul_nonneg; auto. destruct (opt_is _ _); auto using qadd_nonneg, qle_00.
    - intros k Hk. apply in_seq in Hk. destruct (ext_is_exact bm k k') eqn:EX.
      + destruct (exact_pre k k' (proj2 Hk) Vk' EX) as (P1 & P2 & _). fold p in P1, P2. fold v in P2.
        rewrite P2. destruct (invalid bm k) eqn:IV.
        * rewrite invalid_ext_zero by auto. split; [apply qle_00|].
          apply qmul_nonneg; auto. destruct (opt_is _ _); auto using qadd_nonneg, qle_00.
        * rewrite <- P1. apply ext_term_le; auto. split; [apply Hk|auto].
      + split; [apply qle_00|]. apply qmul_nonneg; auto.
        destruct (opt_is _ _); auto using qadd_nonneg, qle_00.
    - intros a b Ha Hb NZa NZb. apply in_seq in Ha, Hb.
      destruct (ext_is_exact bm a k') eqn:EXa; [|congruence].
      destruct (ext_is_exact bm b k') eqn:EXb; [|congruence].
      destruct (invalid bm a) eqn:IVa; [rewrite invalid_ext_zero in NZa by auto; congruence|].
      destruct (invalid bm b) eqn:IVb; [rewrite invalid_ext_zero in NZb by auto; congruence|].
      destruct (exact_pre a k' (proj2 Ha) Vk' EXa) as (Pa & _).
      destruct (exact_pre b k' (proj2 Hb) Vk' EXb) as (Pb & _).
      apply (inv_dist V bm I); [split; [apply Ha|auto]|split; [apply Hb|auto]|congruence].
    - apply seq_NoDup.
  Qed.

  Notation chj := (ch choice).

  Lemma mass_step : mbound V frames E nx.
  Proof.
    intros j Vj.
    destruct (valid_nx V width fr bm choice Vpos Wpos Clen Crange j Vj) as (Lj & R & VS & HM).
    destruct Vj as [Lnx IVj].
    assert (Tn : b_t nx = S n) by reflexivity. rewrite Tn.
    assert (PN := pref_nx V width fr bm choice Vpos Wpos I Clen Crange j Lj). fold nx in PN.
    unfold nbq, bq. rewrite IVj. unfold nx.
    rewrite (nx_nb V width fr bm choice Clen), (nx_b V width fr bm choice Clen).
    apply Nat.ltb_lt in Lj. rewrite Lj. apply Nat.ltb_lt in Lj. fold nx. rewrite PN.
    set (src := c_src V bm (chj j)) in *. set (p := pref bm src) in *.
    pose proof (inv_lt V bm I src VS) as PV. fold p in PV.
    destruct NN as (N1 & N2 & N3). destruct FA as (F1 & F2 & F3).
    destruct (MB src VS) as (M1 & M2 & M3 & M4). fold n in M2, M4. fold p in M2, M4.
    destruct (A_nonneg V frames E n p NN) as [AN AB].
    unfold c_nb, c_b. destruct (c_nonext V bm (chj j)) eqn:NEXT.
    - (* the slot keeps its prefix *)
      fold src. unfold nb_nonext_c. destruct VS as [VS1 VS2]. rewrite VS2. cbn [fin0].
      rewrite A_b_step, A_nb_step by auto.
      assert (Bq : (0 <= b_nonext fr bm src)%Qc /\
                   (b_nonext fr bm src <= (A_nb V frames E n p + A_b V frames E n p) * snd (fr_at frames n))%Qc).
      { unfold b_nonext. rewrite F2. fold n. split.
        - apply qmul_nonneg; auto using qadd_nonneg.
        - apply qmul_le; auto using qadd_nonneg, qadd_le, qle_refl. }
      destruct (Nat.eq_dec (lens bm src) 0) as [L0|L0].
      + (* the empty prefix carries no non-blank mass *)
        assert (PE : p = []).
        { apply length_zero_iff_nil. unfold p. rewrite pref_length; auto. }
        assert (LO : last_opt p = None) by (rewrite PE; reflexivity). rewrite LO.
        unfold nb_nonext1, nb_nonext0. rewrite (inv_nb0 V bm I src (conj VS1 VS2) L0).
        unfold merged. rewrite qsum_map_zero.
        * replace (0 * nth (lastc V bm src) (f_nonext fr) 0 + 0)%Qc with 0%Qc by ring.
          split; [apply qle_00|]. split; [apply qle_00|]. exact Bq.
        * intros k _. unfold ext_is_exact. rewrite L0.
          replace (lens bm k + 1 =? 0) with false by (symmetry; apply Nat.eqb_neq; lia). reflexivity.
      + assert (NE : p <> []).
        { intro C. apply (f_equal (@length nat)) in C. unfold p in C. rewrite pref_length in C by auto. cbn in C. lia. }
        rewrite (last_opt_last _ NE).
        destruct (merged_le src (conj VS1 VS2)) as [G0 G1]; [lia|]. fold p in G1.
        unfold nb_nonext1, nb_nonext0. rewrite (inv_last V bm I src (conj VS1 VS2)) by lia. fold p.
        rewrite F1. fold n.
        split; [apply qadd_nonneg; auto; apply qmul_nonneg; auto|].
        split; [|exact Bq].
        apply qadd_le; auto. apply qmul_le; auto using qle_refl.
    - (* the slot extends its source by one token *)
      fold src in HM. specialize (HM eq_refl). unfold c_src in src. unfold c_nonext in NEXT.
      apply Nat.leb_gt in NEXT.
      assert (ES : Nat.min (chj j) (Kp bm * V - 1) = chj j) by lia. rewrite ES.
      assert (SRC : chj j / V = src).
      { unfold src, c_nonext. replace (Kp bm * V <=? chj j) with false by (symmetry; apply Nat.leb_gt; lia). reflexivity. }
      rewrite SRC. fold (c_ext V (chj j)). set (v := c_ext V (chj j)) in *.
      assert (Hv : v < V) by (apply (ext_range V width bm choice Vpos Wpos Clen)).
      unfold nb_ext_c. rewrite HM. destruct VS as [VS1 VS2]. rewrite VS2. cbn [orb fin0].
      assert (PV' : Forall (fun x => x < V) (p ++ [v])) by (apply Forall_app; auto).
      rewrite A_nb_step by auto. rewrite last_opt_snoc, removelast_snoc.
      destruct (A_nonneg V frames E n (p ++ [v]) NN) as [AN' AB'].
      destruct (A_nonneg V frames E (S n) (p ++ [v]) NN) as [_ AB''].
      destruct (ext_term_le src v (conj VS1 VS2) Hv) as [X0 X1]. fold p in X1.
      split; auto. split; [|split; [apply qle_00|exact AB'']].
      eapply qle_trans; [exact X1|].
      match goal with |- (?b <= ?a + ?b)%Qc => replace b with (0 + b)%Qc at 1 by ring end.
      apply qadd_le; auto using qle_refl. apply qmul_nonneg; auto.
  Qed.
End MassStep.

Lemma mbound_init : forall V frames E, mbound V frames E init_beam.
Proof.
  intros V frames E k [L _]. cbn in L. assert (k = 0) by lia. subst k.
  destruct (A_0 V frames E []) as [Z1 Z2]. rewrite list_nat_eqb_refl in Z2.
  change (b_t init_beam) with 0. change (pref init_beam 0) with (@nil nat). rewrite Z1, Z2.
  change (nbq init_beam 0) with 0%Qc. change (bq init_beam 0) with 1%Qc.
  repeat split; auto using qle_00, qle_01, qle_refl.
Qed.

(* ---- along the loop ---------------------------------------------------------------------------- *)

Lemma mk_frame_agrees : forall V fus lm (L : list sframe) t nonext blank bm,
  nth t L ([], 0%Qc) = (nonext, blank) -> b_t bm = t ->
  frame_agrees V (mk_frame fus lm nonext blank bm) bm L (fused_score fus lm L) (b_t bm).
Proof.
  intros V fus lm L t nonext blank bm HN HT. unfold frame_agrees, fr_at. rewrite HT, HN.
  cbn [fst snd mk_frame f_nonext f_blank]. repeat split; auto.
  intros k v [Lk _] Hv. unfold extp, mk_frame, fused_score. cbn [f_ext]. rewrite HN. cbn [fst snd].
  rewrite nth_map_seq by exact Lk. reflexivity.
Qed.

Lemma live_mass : forall V width fus lm len (L : list sframe) rest done choices bm,
  1 <= V -> 1 <= width -> L = done ++ rest -> length L <= len ->
  choices_ok V width fus lm 0%Qc len (length done) rest choices bm = true ->
  inv V bm -> b_t bm = length done ->
  nonneg_frames L (fused_score fus lm L) ->
  mbound V L (fused_score fus lm L) bm ->
  mbound V L (fused_score fus lm L) (sloop V width fus lm len (length done) rest choices bm).
Proof.
  intros V width fus lm len L. induction rest as [|[nonext blank] rest];
    intros done choices bm Vpos Wpos EL LL C I T NN MB; auto.
  cbn [sloop choices_ok] in *.
  assert (LT : length done < len).
  { rewrite EL, app_length in LL. cbn [length] in LL. lia. }
  replace (len <=? length done) with false in * by (symmetry; apply Nat.leb_gt; lia).
  cbn [orb] in C. apply andb_true_iff in C. destruct C as [C1 C2].
  pose proof (topk_ok_facts _ _ _ _ _ C1) as F. destruct F as [F1 F2 F3 F4 F5].
  unfold sstep in *. set (fr := mk_frame fus lm nonext blank bm) in *.
  set (nx := fst (advance V fr bm width (hd [] choices))) in *.
  assert (HN : nth (length done) L ([], 0%Qc) = (nonext, blank)).
  { rewrite EL, app_nth2, Nat.sub_diag by lia. reflexivity. }
  assert (FA : frame_agrees V fr bm L (fused_score fus lm L) (b_t bm)).
  { apply mk_frame_agrees with (t := length done); auto. }
  assert (Inx : inv V nx) by (apply advance_inv; auto).
  assert (Mnx : mbound V L (fused_score fus lm L) nx).
  { apply (mass_step V width fr bm (hd [] choices) L (fused_score fus lm L)); auto. }
  assert (Tnx : b_t nx = length (done ++ [(nonext, blank)])).
  { rewrite app_length. cbn [length]. unfold nx, advance. cbn [fst b_t]. lia. }
  replace (S (length done)) with (length (done ++ [(nonext, blank)])) in * by (rewrite app_length; cbn; lia).
  apply IHrest; auto. rewrite <- app_assoc. exact EL.
Qed.

(* the property's "never more than that": every returned mass is at most the total mass of the
   alignments (of the element's own valid frames, under the scores the search uses) that
   collapse to the returned prefix *)
Lemma search_mass_le : forall V width fus lm len frames choices, 1 <= V -> 1 <= width ->
  choices_ok V width fus lm 0%Qc len 0 frames choices init_beam = true ->
  let L := firstn len frames in
  nonneg_frames L (fused_score fus lm L) ->
  let '(P, Ls, Ps) := observe (search V width fus lm len frames choices) in
  forall i q, nth i Ps NegInf = Fin q ->
    (0 <= q)%Qc /\ (q <= ctc_mass V L (fused_score fus lm L) (nth i P []))%Qc.
Proof.
  intros V width fus lm len frames choices Vpos Wpos C L NN.
  pose proof (out_slot V width fus lm len frames choices Vpos Wpos C) as O.
  destruct (observe (search V width fus lm len frames choices)) as [[P Ls] Ps].
  destruct O as (_ & _ & _ & _ & O).
  destruct (live_facts V width fus lm len frames choices Vpos Wpos C) as (I & T & _).
  pose proof (live_ok V width fus lm len frames choices C) as CL.
  assert (MB : mbound V L (fused_score fus lm L) (live_beam V width fus lm len frames choices)).
  { unfold live_beam. fold (live_frames len frames) in L.
    apply (live_mass V width fus lm len L (live_frames len frames) [] choices init_beam); auto.
    - unfold L. rewrite live_len. lia.
    - apply init_inv.
    - apply mbound_init. }
  set (bm := live_beam V width fus lm len frames choices) in *.
  intros i q Hq. destruct (O i q Hq) as (Vi & PQ & -> & _).
  destruct (MB i Vi) as (M1 & M2 & M3 & M4).
  rewrite T in M2, M4. fold L in M2, M4.
  rewrite ctc_mass_split.
  pose proof (inv_wf V bm I) as W.
  unfold probs_of in PQ.
  rewrite (map2_nth madd _ _ i NegInf NegInf) in PQ by (rewrite ?(wf_b bm W); auto; apply Vi).
  unfold nbq, bq in *. destruct Vi as [Li IVi]. rewrite IVi in *.
  destruct (nth i (b_nb bm) NegInf) as [|x]; [discriminate|].
  destruct (nth i (b_b bm) NegInf) as [|y]; [discriminate|].
  cbn [madd fin0] in *. inversion PQ; subst q.
  split; auto using qadd_nonneg, qadd_le.
Qed.

(* without a language model the scores are the frame probabilities themselves *)
Lemma nolm_nonneg : forall (L : list sframe),
  (forall t v, (0 <= nth v (fst (nth t L ([], 0%Qc))) 0)%Qc) ->
  (forall t, (0 <= snd (nth t L ([], 0%Qc)))%Qc) ->
  nonneg_frames L (fused_score NoLM no_lm L).
Proof.
  intros L H1 H2. repeat split; auto. intros t p v. unfold fused_score, ext_row. apply H1.
Qed.
