(* C12 — lemmas, part 3: concrete witnesses for the deviations the faithful model contains,
   and the command-line entry point. *)
From Coq Require Import List ZArith Bool Lia.
From Coq Require Import ZifyBool ZifyNat.
From PV Require Import C12.Model C12.Spec C12.Proofs C12.Proofs2.
Import ListNotations.
Local Open Scope Z_scope.

(* ---------------------------------------------------------------- F9: fix + configured symbols *)

Definition w_feat := mkFeat false DF32 [3%nat; 2%nat].
Definition w_f9_dir : dir := [mkUtt w_feat None (Some (mkRef false DI64 (R2 [(1, 0, 4)])))].
Definition w_f9_cfg := mkCfg (Some 7) None false false.
Definition w_f9_after : dir := [mkUtt w_feat None (Some (mkRef false DI64 (R2 [(7, -1, -1); (1, 0, 3)])))].

Lemma fix_with_symbols_refuted :
  exists c d d', plain_yield c /\ syms_nonneg c /\ tokens_nonneg d /\
    validate c (FInt 1) d = (d', None) /\ d' <> repair (Some 1) d /\
    (* the symbol is now on disk, and the next read doubles it *)
    (exists r lr, nth_error d' 0 = Some (mkUtt w_feat None (Some r)) /\ load_ref c r = inr lr /\
                  r_data lr = R2 [(7, -1, -1); (7, -1, -1); (1, 0, 3)]).
Proof.
  exists w_f9_cfg, w_f9_dir, w_f9_after.
  split; [split; reflexivity|]. split; [split; intros s H; inversion H; lia|].
  split; [constructor; [|constructor]; intros r H; inversion H; subst; cbn; constructor; [lia|constructor]|].
  split; [reflexivity|]. split; [discriminate|].
  eexists _, _. split; [reflexivity|]. split; reflexivity.
Qed.

(* ---------------------------------------------------------------- F11: tokens_only hides the boundaries *)

Definition w_f11_dir : dir := [mkUtt w_feat None (Some (mkRef false DI32 (R2 [(1, 3, 1)])))].
Definition w_f11_cfg := mkCfg None None true false.

Lemma tokens_only_refuted :
  exists c d d', c_tokens_only c = true /\ tokens_nonneg d /\
    ~ WellFormed (repair (Some 0) d) /\
    validate c (FInt 0) d = (d', None) /\
    d' = [mkUtt w_feat None (Some (mkRef false DI64 (R1 [1])))].
Proof.
  exists w_f11_cfg, w_f11_dir, [mkUtt w_feat None (Some (mkRef false DI64 (R1 [1])))].
  split; [reflexivity|].
  split; [constructor; [|constructor]; intros r H; inversion H; subst; cbn; constructor; [lia|constructor]|].
  split; [|split; reflexivity].
  intro H. apply wellformedb_iff in H. discriminate.
Qed.

(* ---------------------------------------------------------------- F12 (repaired in /repo 0bbdd7f):
   every --fix N validates, N = 0 included *)

Definition w_f12_dir : dir :=
  [mkUtt w_feat (Some (mkAli false DI32 (A1 [0; 0; 1]))) None].

Lemma cli_fix_validates strict k : cli_validates strict (Some k) = true.
Proof. unfold cli_validates. cbn. apply orb_true_r. Qed.

Lemma cli_fix0_repairs :
  exists p, ~ WellFormed w_f12_dir /\ WellFormed (repair (Some 0) w_f12_dir) /\
    cli_info false (Some 0) w_f12_dir = (repair (Some 0) w_f12_dir, inr p) /\
    validate cfg_plain (FInt 0) w_f12_dir = (repair (Some 0) w_f12_dir, None).
Proof.
  eexists.
  split; [intro H; apply wellformedb_iff in H; discriminate|].
  split; [apply wellformedb_iff; reflexivity|].
  split; reflexivity.
Qed.

(* ================================================================ the pass with info = True *)

Definition ali_upd (acc : iacc) (run : Z * Z) : iacc :=
  let '(cls, cnt) := run in
  mkAcc (i_frames acc) (i_nf acc) (Z.max cls (i_maxali acc)) (i_maxref acc) (i_ntok acc)
        (aset (i_counts acc) cls (aget (i_counts acc) cls 0 + cnt))
        (aset (i_segs acc) cls (aget (i_segs acc) cls 0 + 1))
        (i_rcounts acc) (i_rsegs acc).

Definition ref_upd (acc : iacc) (r : row) : iacc :=
  let '(tok, s, e) := r in
  let rc := aget (i_rcounts acc) tok 0 in
  let rc' := if (rc >=? 0) && (e >=? s) && (s >=? 0) then rc + e - s else -1 in
  mkAcc (i_frames acc) (i_nf acc) (i_maxali acc) (Z.max (i_maxref acc) tok) (Z.max 0 (i_ntok acc) + 1)
        (i_counts acc) (i_segs acc)
        (aset (i_rcounts acc) tok rc')
        (aset (i_rsegs acc) tok (aget (i_rsegs acc) tok 0 + 1)).

Lemma ali_info_fold runs : forall acc,
  ali_info_runs acc runs
  = if forallb (fun r => 0 <=? fst r) runs then inr (fold_left ali_upd runs acc) else inl ValueErr.
Proof.
  induction runs as [|[cls cnt] t IH]; intro acc; cbn [ali_info_runs forallb fold_left fst]; [reflexivity|].
  destruct (Z.ltb_spec cls 0), (Z.leb_spec 0 cls); try lia; cbn [andb]; [reflexivity|]. apply IH.
Qed.

Lemma ref_info_fold rows : forall acc,
  ref_info_rows true acc rows
  = if forallb (fun r => 0 <=? tok_of r) rows then inr (fold_left ref_upd rows acc) else inl ValueErr.
Proof.
  induction rows as [|[[tok s] e] t IH]; intro acc; cbn [ref_info_rows forallb fold_left tok_of fst]; [reflexivity|].
  destruct (Z.ltb_spec tok 0), (Z.leb_spec 0 tok); try lia; cbn [andb]; [reflexivity|]. apply IH.
Qed.

Lemma rle_fst (P : Z -> Prop) l : Forall P l -> Forall (fun r => P (fst r)) (rle l).
Proof.
  induction 1 as [|x t Hx _ IH]; cbn [rle]; [constructor|].
  destruct (rle t) as [|[y n] r]; [constructor; [assumption|constructor]|].
  inversion IH as [|? ? Hy Hr]; subst. destruct (x =? y).
  - constructor; assumption.
  - constructor; [assumption|]. constructor; assumption.
Qed.

Definition utt_classes_nonneg (u : utt) : Prop :=
  forall a, u_ali u = Some a -> Forall (fun x => 0 <= x) (ali_values a).

Lemma classes_nonneg_utts d : classes_nonneg d <-> Forall utt_classes_nonneg d.
Proof.
  unfold classes_nonneg, ali_lists, utt_classes_nonneg. induction d as [|u t IH]; cbn [flat_map].
  - split; constructor.
  - destruct (u_ali u) as [a|] eqn:Ea; cbn [app].
    + split; intro H; inversion H; subst; constructor.
      * intros a0 E. rewrite Ea in E. inversion E; subst. assumption.
      * apply IH. assumption.
      * apply (H2 _ Ea).
      * apply IH. assumption.
    + rewrite IH. split; intro H; [constructor; [|assumption]|inversion H; assumption].
      intros a0 E. rewrite Ea in E. discriminate.
Qed.

Lemma ali_part_values v fx T a a' : ali_part v fx T a = inr a' ->
  Forall (fun x => 0 <= x) (ali_values a) -> Forall (fun x => 0 <= x) (ali_values a').
Proof.
  destruct v; [|intro H; inversion H; trivial].
  intro H. apply ali_part_sound in H. destruct H as [-> _].
  destruct fx as [k|]; [|trivial]. destruct a as [cu dt da]. unfold repair_ali', repair_ali, ali_values. cbn.
  destruct da as [l|? ?]; [|trivial]. destruct (_ && _); [|trivial]. cbn. intro H.
  rewrite <- (firstn_skipn T l) in H. apply Forall_app in H. apply H.
Qed.

Lemma feat_part_shape v fx st f f' T F st1 :
  feat_part v fx st f = inr (f', T, F, st1) -> f_shape f' = [T; F].
Proof.
  unfold feat_part. destruct (v && negb _); [easy|]. destruct (v && f_cuda f && negb (is_some fx)); [easy|].
  destruct (f_shape f) as [|T0 [|F0 [|? ?]]] eqn:Es; try easy.
  destruct (s_nf st); [destruct (v && negb _); [easy|]|]; intro H; inversion H; subst;
    destruct (v && f_cuda f); cbn; first [assumption|reflexivity].
Qed.

Definition info_upd (acc : iacc) (u : utt) : iacc :=
  let acc1 := mkAcc (i_frames acc + Z.of_nat (frames (u_feat u))) (Some (nth 1 (f_shape (u_feat u)) 0%nat))
                    (i_maxali acc) (i_maxref acc)
                    (if is_some (u_ref u) then Z.max 0 (i_ntok acc) else i_ntok acc)
                    (i_counts acc) (i_segs acc) (i_rcounts acc) (i_rsegs acc) in
  let acc2 := match u_ali u with
              | Some a => fold_left ali_upd (rle (ali_values a)) acc1
              | None => acc1 end in
  match u_ref u with
  | Some r => match ref_rows (r_data r) with Some rows => fold_left ref_upd rows acc2 | None => acc2 end
  | None => acc2
  end.

Lemma load_plain r : load_ref cfg_plain r = inr r.
Proof. apply load_ref_nosyms; [reflexivity|split; reflexivity]. Qed.

(* what ref block + token loop do, for either value of [validate], on the plain data set *)
Lemma ref_block_written (v : bool) fx T st1 (r r' : ref) (wb : bool) (st2 : vstate) :
  (if v then ref_part fx T st1 r else inr (r, false, st1)) = inr (r', wb, st2) ->
  (if wb then Some r' else Some r) = Some r'.
Proof.
  destruct v.
  - intro H. apply ref_part_sound in H. destruct H as (_ & _ & _ & Hwb & _).
    destruct wb; [reflexivity|]. rewrite (Hwb eq_refl). reflexivity.
  - intro H; inversion H; subst. reflexivity.
Qed.

Lemma step_info v fx st acc accx u u' res :
  step_utt false v cfg_plain fx st accx u = (u', res) -> utt_classes_nonneg u ->
  step_utt true v cfg_plain fx st acc u
  = (u', match res with inl e => inl e | inr (st', _) => inr (st', info_upd acc u') end).
Proof.
  intros H Hcl. unfold step_utt in *. cbn [c_suppress_alis cfg_plain] in *.
  assert (Hld : match u_ref u with
                | Some r => match load_ref cfg_plain r with inl e => inl e | inr lr => inr (Some lr) end
                | None => inr None end = @inr exn _ (u_ref u)).
  { destruct (u_ref u); [rewrite load_plain|]; reflexivity. }
  rewrite Hld in *. clear Hld.
  destruct (feat_part v fx st (u_feat u)) as [e|[[[f' T] F] st1]] eqn:Ef.
  { inversion H; subst. reflexivity. }
  pose proof (feat_part_shape _ _ _ _ _ _ _ _ Ef) as Hsh.
  assert (Hfr : frames f' = T /\ nth 1 (f_shape f') 0%nat = F) by (unfold frames; rewrite Hsh; split; reflexivity).
  destruct Hfr as [HfT HfF].
  destruct (u_ali u) as [a|] eqn:Ea.
  - destruct (ali_part v fx T a) as [e|a'] eqn:Ea1.
    { inversion H; subst. reflexivity. }
    pose proof (ali_part_values _ _ _ _ _ Ea1 (Hcl _ Ea)) as Hv.
    rewrite ali_info_fold.
    assert (forallb (fun r => 0 <=? fst r) (rle (ali_values a')) = true) as ->.
    { apply forallb_forall. intros x Hx. pose proof (rle_fst _ _ Hv) as Hr. rewrite Forall_forall in Hr.
      specialize (Hr x Hx). cbn in Hr. lia. }
    destruct (u_ref u) as [r|] eqn:Er.
    + destruct (if v then ref_part fx T st1 r else inr (r, false, st1)) as [e|[[r' wb] st2]] eqn:Erp.
      { inversion H; subst. reflexivity. }
      pose proof (ref_block_written _ _ _ _ _ _ _ _ Erp) as Hw. rewrite Hw in *.
      destruct (ref_rows (r_data r')) as [rows|] eqn:Err.
      * rewrite ref_info_noinfo in H. rewrite ref_info_fold.
        destruct (forallb (fun r0 => 0 <=? tok_of r0) rows); inversion H; subst; [|reflexivity].
        unfold info_upd. cbn [u_feat u_ali u_ref]. rewrite Err. reflexivity.
      * inversion H; subst. reflexivity.
    + inversion H; subst. unfold info_upd. cbn [u_feat u_ali u_ref]. reflexivity.
  - destruct (u_ref u) as [r|] eqn:Er.
    + destruct (if v then ref_part fx T st1 r else inr (r, false, st1)) as [e|[[r' wb] st2]] eqn:Erp.
      { inversion H; subst. reflexivity. }
      pose proof (ref_block_written _ _ _ _ _ _ _ _ Erp) as Hw. rewrite Hw in *.
      destruct (ref_rows (r_data r')) as [rows|] eqn:Err.
      * rewrite ref_info_noinfo in H. rewrite ref_info_fold.
        destruct (forallb (fun r0 => 0 <=? tok_of r0) rows); inversion H; subst; [|reflexivity].
        unfold info_upd. cbn [u_feat u_ali u_ref]. rewrite Err. reflexivity.
      * inversion H; subst. reflexivity.
    + inversion H; subst. unfold info_upd. cbn [u_feat u_ali u_ref]. reflexivity.
Qed.

Lemma run_info v fx : forall d st acc accx d' res,
  run_pass false v cfg_plain fx st accx d = (d', res) -> Forall utt_classes_nonneg d ->
  run_pass true v cfg_plain fx st acc d
  = (d', match res with inl e => inl e | inr _ => inr (fold_left info_upd d' acc) end).
Proof.
  induction d as [|u t IH]; intros st acc accx d' res; cbn [run_pass].
  - intros H _. inversion H; subst. reflexivity.
  - intros H Hcl. inversion Hcl; subst.
    destruct (step_utt false v cfg_plain fx st accx u) as [u' r0] eqn:Es.
    rewrite (step_info v fx st acc accx u u' r0 Es H2).
    destruct r0 as [e|[st1 acc1]].
    + inversion H; subst. reflexivity.
    + destruct (run_pass false v cfg_plain fx st1 acc1 t) as [t' r1] eqn:Er.
      inversion H; subst. rewrite (IH st1 (info_upd acc u') acc1 t' res Er H3). reflexivity.
Qed.

Definition fixarg_of (fx : option Z) : fixarg := match fx with Some k => FInt k | None => FNone end.

(* --strict / --fix N (any N): same files afterwards and same raise/return as
   validate_spect_data_set on a plain data set; the report is the fold of [info_upd] over the result *)
Lemma cli_like_validate strict fx d :
  cli_validates strict fx = true -> classes_nonneg d ->
  cli_info strict fx d
  = (fst (validate cfg_plain (fixarg_of fx) d),
     match snd (validate cfg_plain (fixarg_of fx) d) with
     | Some e => inl e
     | None => inr (finish (length d) (fold_left info_upd (fst (validate cfg_plain (fixarg_of fx) d)) acc0))
     end).
Proof.
  intros Hv Hcl. unfold cli_info, validate. rewrite Hv.
  assert (norm_fix (fixarg_of fx) = fx) as -> by (destruct fx; reflexivity).
  destruct (run_pass false true cfg_plain fx st0 acc0 d) as [d' res] eqn:E.
  rewrite (run_info true fx d st0 acc0 acc0 d' res E (proj1 (classes_nonneg_utts d) Hcl)).
  destruct res; reflexivity.
Qed.

(* no flag, or --fix 0: nothing is validated, nothing is written *)
Lemma step_unvalidated_unchanged info c fx st acc u : fst (step_utt info false c fx st acc u) = u.
Proof.
  unfold step_utt.
  destruct (match u_ref u with
            | Some r => match load_ref c r with inl e => inl e | inr lr => inr (Some lr) end
            | None => inr None end) as [e|lref]; [reflexivity|].
  destruct (c_suppress_alis c); [reflexivity|].
  destruct (feat_part false fx st (u_feat u)) as [e|[[[f' T] F] st1]] eqn:Ef; [reflexivity|].
  assert (f' = u_feat u) as ->.
  { unfold feat_part in Ef. cbn [andb] in Ef. destruct (f_shape (u_feat u)) as [|? [|? [|? ?]]]; try easy.
    destruct (s_nf st); inversion Ef; reflexivity. }
  cbn [ali_part negb].
  destruct (u_ali u) as [a|] eqn:Ea; cbn [ali_part negb].
  - destruct info.
    + destruct (ali_info_runs _ _) as [e|acc2]; [cbn; rewrite <- Ea; apply utt_eta|].
      destruct lref as [lr|]; [|cbn; rewrite <- Ea; apply utt_eta].
      destruct (ref_rows (r_data lr)); [destruct (ref_info_rows _ _ _)|]; cbn; rewrite <- Ea; apply utt_eta.
    + destruct lref as [lr|]; [|cbn; rewrite <- Ea; apply utt_eta].
      destruct (ref_rows (r_data lr)); [destruct (ref_info_rows _ _ _)|]; cbn; rewrite <- Ea; apply utt_eta.
  - destruct lref as [lr|]; [|cbn; rewrite <- Ea; apply utt_eta].
    destruct (ref_rows (r_data lr)); [destruct (ref_info_rows _ _ _)|]; cbn; rewrite <- Ea; apply utt_eta.
Qed.

Lemma run_unvalidated_unchanged info c fx : forall d st acc, fst (run_pass info false c fx st acc d) = d.
Proof.
  induction d as [|u t IH]; intros st acc; cbn [run_pass]; [reflexivity|].
  pose proof (step_unvalidated_unchanged info c fx st acc u) as Hs.
  destruct (step_utt info false c fx st acc u) as [u' [e|[st1 acc1]]]; cbn in Hs; subst u'; [reflexivity|].
  specialize (IH st1 acc1). destruct (run_pass info false c fx st1 acc1 t) as [t' r]. cbn in *. subst. reflexivity.
Qed.

Lemma cli_unvalidated_never_writes strict fx d :
  cli_validates strict fx = false -> fst (cli_info strict fx d) = d.
Proof.
  intro Hv. unfold cli_info. rewrite Hv.
  pose proof (run_unvalidated_unchanged true cfg_plain fx d st0 acc0) as H.
  destruct (run_pass true false cfg_plain fx st0 acc0 d). cbn in *. assumption.
Qed.
