(* C03 — concrete instances: non-vacuity of the hypotheses of the property theorems, and the
   witness that positive costs are needed. *)
From Coq Require Import List ZArith Bool Arith Lia.
From PV Require Import C01.Obs C01.Spec C01.Model C01.LevFacts C01.Proofs.
From PV Require Import C03.Spec C03.Model C03.ProofsSpec C03.ProofsTop.
Import ListNotations.
Local Open Scope Z_scope.

(* the docstring example of OptimalCompletion: reference "foot", hypothesis "bot" (time-major) *)
Definition ex_cfg_foot := mkCfg None true false false 4 4 4 (-100) false.
Definition ex_ref_foot := [[102]; [111]; [111]; [116]].
Definition ex_hyp_foot := [[98]; [111]; [116]].

(* ragged batch-first batch: eos = 0 counted, garbage after it, a repeated reference token,
   costs (3/2, 1/2, 1), padding -1, exclude_last *)
Definition ex_cfg_rag := mkCfg (Some 0) true false true 6 2 4 (-1) true.
Definition ex_ref_rag := [[1; 2; 1; 0]; [3; 0; 5; 5]].
Definition ex_hyp_rag := [[5; 1; 0]; [3; 3; 0]].
Definition ex_out_rag := [[[1; -1]; [2; -1]; [0; 2]]; [[3; -1]; [0; -1]; [-1; -1]]].

Lemma nonvacuous :
  optimal_completion ex_cfg_foot 1 ex_ref_foot ex_hyp_foot
    = [[[102; -100]]; [[102; 111]]; [[111; -100]]; [[111; 116]]]
  /\ (0 < 1)%nat /\ wf_tensor (c_bf ex_cfg_foot) 1 ex_ref_foot /\ wf_tensor (c_bf ex_cfg_foot) 1 ex_hyp_foot
  /\ 0 < c_ins ex_cfg_foot /\ 0 < c_del ex_cfg_foot /\ 0 < c_sub ex_cfg_foot
  /\ (3 < length (denote (c_eos ex_cfg_foot) (c_incl ex_cfg_foot) (seq_of (c_bf ex_cfg_foot) 0 ex_hyp_foot)) + 1)%nat
  /\ optimal_completion ex_cfg_rag 2 ex_ref_rag ex_hyp_rag = ex_out_rag
  /\ (1 < 2)%nat /\ wf_tensor (c_bf ex_cfg_rag) 2 ex_ref_rag /\ wf_tensor (c_bf ex_cfg_rag) 2 ex_hyp_rag
  /\ 0 < c_ins ex_cfg_rag /\ 0 < c_del ex_cfg_rag /\ 0 < c_sub ex_cfg_rag
  /\ (1 < length (denote (c_eos ex_cfg_rag) (c_incl ex_cfg_rag) (seq_of (c_bf ex_cfg_rag) 1 ex_hyp_rag)) + 0)%nat.
Proof.
  assert (W4 : rect 4 ex_ref_rag) by (intros row [<-|[<-|[]]]; reflexivity).
  assert (W3 : rect 3 ex_hyp_rag) by (intros row [<-|[<-|[]]]; reflexivity).
  split; [vm_compute; reflexivity|]. split; [lia|]. split; [exact I|]. split; [exact I|].
  split; [reflexivity|]. split; [reflexivity|]. split; [reflexivity|].
  split; [vm_compute; lia|]. split; [vm_compute; reflexivity|]. split; [lia|].
  split; [split; [reflexivity|exists 4%nat; exact W4]|].
  split; [split; [reflexivity|exists 3%nat; exact W3]|].
  split; [reflexivity|]. split; [reflexivity|]. split; [reflexivity|]. vm_compute. lia.
Qed.

Lemma positive_costs_needed : exists c N ref hyp t,
  c_ins c = 0 /\
  preserving (c_ins c) (c_del c) (c_sub c)
    (denote (c_eos c) (c_incl c) (seq_of (c_bf c) 0 ref))
    (firstn 0 (denote (c_eos c) (c_incl c) (seq_of (c_bf c) 0 hyp))) t /\
  ~ In t (entry3 (c_bf c) 0 0 (optimal_completion c N ref hyp)).
Proof.
  exists (mkCfg None false false false 0 4 4 (-100) false), 1%nat, [[1]], [[1]], 5.
  split; [reflexivity|]. split.
  - apply (proj2 (preserving_iff_row_min 0 4 4 ltac:(lia) ltac:(lia) ltac:(lia) [1] [] 5)).
    vm_compute. reflexivity.
  - vm_compute. intros [H|[]]. discriminate H.
Qed.
