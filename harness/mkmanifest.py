#!/usr/bin/env python3
"""Regenerates /verif/MANIFEST.json from harness/manifest_table.json (keeps it valid by construction)."""
import json
from pathlib import Path

V = Path(__file__).resolve().parent.parent
tab = json.loads((V / "harness" / "manifest_table.json").read_text())
props = [json.loads(l)["id"] for l in (V / "properties.jsonl").read_text().splitlines() if l.strip()]
checks, na = [], []
for pid in props:
    t = tab["checks"].get(pid)
    if t is None:
        na.append({"property_id": pid, "reason": tab["not_applicable"].get(pid, "no check built yet (work in progress); see DESIGN.md section 6")})
        continue
    checks.append({
        "property_id": pid,
        "quick_cmd": f"/venv/bin/python harness/vcheck.py {pid} --tier quick",
        "thorough_cmd": f"/venv/bin/python harness/vcheck.py {pid} --tier thorough",
        "evidence_file": f"/verif/evidence/{pid}.json",
        "replay_cmd_template": f"/venv/bin/python harness/vcheck.py {pid} --replay {{path}}",
        "engine": "coq-model+corr-harness",
        "level_claimed": {"category": "proof", "text": t["text"], "design_ref": f"DESIGN.md section 6, {pid}"},
        "level_note": t["note"],
        "technique": t.get("technique", "Coq proof about a hand-written Gallina model + differential correspondence (model evaluated by vm_compute) against /repo"),
    })
m = {
    "version": 1,
    "setup_cmd": "cd /verif/coq && ./build.sh",
    "hooks": {
        "guard": "PYDROBERT_TORCH_VERIF",
        "enable": "no source hooks: the harness monkey-patches from outside (torch.distributed, torch.rand, os.replace, ...) and sets PYDROBERT_TORCH_VERIF=1, which no line of /repo reads",
        "baseline_off_cmd": "cd /repo && /venv/bin/python -m pytest -ra -q -p no:cacheprovider --timeout=900 --continue-on-collection-errors",
        "source_commits": [],
        "add_only": True,
    },
    "engines": [
        {"name": "coq-model+corr-harness", "path": "/verif/coq (theories/Cnn/{Model,Spec,Proofs,Properties}.v) + /verif/harness (vcheck.py, vlib.py, props/cnn.py)",
         "serves_properties": [c["property_id"] for c in checks],
         "kind_free_text": "Coq 8.16 theorems over hand-written executable Gallina models; each run re-checks Properties.v with coqc and ties the model to /repo by running implementation and model (vm_compute inside Coq) on the same generated cases"},
        {"name": "py2coq+MiniPy source ties", "path": "/verif/harness/py2coq (translate.py, units/*.json) + /verif/coq/theories/MiniPy (Syntax, Interp, Lemmas) + /verif/coq/theories/Cnn/{SrcRun,Tie}.v; generated terms in /verif/coq/theories/Gen (regenerated every run)",
         "serves_properties": sorted({json.loads(f.read_text())["property"] for f in (V / "harness" / "py2coq" / "units").glob("*.json")}),
         "kind_free_text": "fail-closed Python-ast -> MiniPy (deep embedding in Coq) translator re-run on /repo's working tree by every check; kernel-checked theorems that the interpreted source refines the hand-written model for all inputs; the interpreter itself is run (vm_compute) against CPython on the cases of each run"},
    ],
    "checks": checks,
    "not_applicable": na,
    "notes": tab.get("notes", ""),
}
(V / "MANIFEST.json").write_text(json.dumps(m, indent=1) + "\n")
print("checks:", [c["property_id"] for c in checks], "not claimed:", [n["property_id"] for n in na])
