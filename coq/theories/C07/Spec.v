(* C07 - declarative reading of the property, independent of how the code works, plus the
   boolean checkers the harness applies to implementation outputs. *)
From Coq Require Import List ZArith Bool Arith Sorted QArith.
From PV Require Import C07.Model.
Import ListNotations.
Local Close Scope Q_scope.
Local Open Scope nat_scope.

Definition in_vocab (V k : Z) : bool := (0 <=? k)%Z && (k <? V)%Z.

Section Spec.
  Context {A : Type} (op : A -> A -> A) (unit : A).

  (* "the sum of the log-softmax values of the chosen tokens up to and including the first
     end-of-sequence, ignoring out-of-vocabulary positions" *)
  Fixpoint spec_slp (V : Z) (eos : option Z) (lp : list (list A)) (toks : list Z) : A :=
    match toks, lp with
    | k :: toks', row :: lp' =>
        let rest := match eos with
                    | Some e => if (k =? e)%Z then unit else spec_slp V eos lp' toks'
                    | None => spec_slp V eos lp' toks'
                    end in
        if in_vocab V k then op (nth (Z.to_nat k) row unit) rest else rest
    | _, _ => unit
    end.

  (* the model's outputs along one path: the extension scores after each proper prefix *)
  Definition lm_rows (lm : nat -> list Z -> list A) (n : nat) (s : list Z) : list (list A) :=
    map (fun i => lm n (firstn i s)) (seq 0 (length s)).
End Spec.

(* position of the first end-of-sequence, if any *)
Fixpoint first_eos (e : Z) (s : list Z) : option nat :=
  match s with
  | [] => None
  | k :: t => if (k =? e)%Z then Some 0 else option_map S (first_eos e t)
  end.

(* "ends at its first end-of-sequence or at the step limit" *)
Definition path_len (eos : option Z) (s : list Z) : nat :=
  match eos with
  | None => length s
  | Some e => match first_eos e s with Some i => i + 1 | None => length s end
  end.

(* a member of the wrapper's support: T in-vocabulary tokens, only eos after the first eos *)
Fixpoint canonical (e : Z) (s : list Z) : bool :=
  match s with
  | [] => true
  | k :: t => if (k =? e)%Z then forallb (Z.eqb e) t else canonical e t
  end.

Definition in_support (eos : option Z) (T : nat) (V : Z) (s : list Z) : bool :=
  (length s =? T) && forallb (in_vocab V) s &&
  match eos with Some e => canonical e s | None => true end.

(* ---- greedy CTC --------------------------------------------------------------------- *)

(* remove repeats, then blanks *)
Fixpoint dedup (l : list nat) : list nat :=
  match l with
  | [] => []
  | x :: t => match t with
              | y :: _ => if x =? y then dedup t else x :: dedup t
              | [] => [x]
              end
  end.

Definition collapse (blank : nat) (l : list nat) : list nat :=
  filter (fun a => negb (a =? blank)) (dedup l).

(* i is the frame-wise best label of the row: maximal, and the first such *)
Definition is_best (row : list Z) (v : Z) (i : nat) : Prop :=
  i < length row /\ nth i row 0%Z = v /\
  (forall j, j < length row -> (nth j row 0 <= v)%Z) /\
  (forall j, j < i -> (nth j row 0 < v)%Z).

Definition valid_len (T : nat) (l : option Z) : nat :=
  match l with None => T | Some z => Nat.min T (Z.to_nat z) end.

(* the frame-wise best labels / their scores of one batch element (frames x classes) *)
Definition labels (fr : list (list Z)) : list nat := map snd (map argmax_first fr).
Definition maxima (fr : list (list Z)) : list Z := map fst (map argmax_first fr).

(* per element: T when in_lens is absent, else in_lens clipped to [0, T] *)
Definition eff_lens (T : nat) (in_lens : option (list Z)) (N : nat) : list nat :=
  match in_lens with
  | None => repeat T N
  | Some ls => map (fun z => Nat.min T (Z.to_nat z)) ls
  end.

Definition norm_blank (V blank : Z) : nat := Z.to_nat ((blank + V) mod V).

(* "the frame-wise best labels within the valid length with repeats and blanks removed" *)
Definition row_path (b T l : nat) (fr : list (list Z)) : list nat := collapse b (firstn l (labels fr)).

(* "together with their summed (or multiplied) frame scores"; [one] is the representation of 1.0
   (frames beyond the valid length are filled with it), 1 on the reals *)
Definition row_score (is_probs : bool) (one : Z) (T l : nat) (fr : list (list Z)) : Z :=
  if is_probs then (fold_right Z.mul 1 (firstn l (maxima fr)) * one ^ Z.of_nat (T - l))%Z
  else fold_right Z.add 0%Z (firstn l (maxima fr)).

(* ---- random walk: admissible draws, padded samples ----------------------------------------- *)

(* torch.multinomial returns one index in [0, V) per batch element *)
Definition draw_ok (V : Z) (N : nat) (d : list Z) : Prop :=
  length d = N /\ forallb (in_vocab V) d = true.

(* a sample as the wrapper stacks it / as the test pads it: eos up to the step limit *)
Definition pad_path (eos : option Z) (T : nat) (col : list Z) : list Z :=
  match eos with Some e => col ++ repeat e (T - length col) | None => col end.

Definition sumQ (l : list Q) : Q := fold_right Qplus 0%Q l.

(* ---- packed sequences: what pack_padded_sequence records ---------------------------------------- *)

(* number of sequences still running at time t = batch_sizes[t] *)
Definition cnt (t : nat) (ls : list nat) : nat := sumn (map (fun l => b2n (t <? l)) ls).

(* lengths in non-increasing order *)
Definition desc (ls : list nat) : Prop := StronglySorted (fun a b => b <= a) ls.

(* ---- boolean checkers for implementation outputs ----------------------------------------- *)

Definition spec_slp_okb (tol V : Z) (eos : option Z) (lp : list (list (list Z)))
  (hyp : list (list Z)) (impl : list Z) : bool :=
  (* one sequence per entry: lp[i] is T x V, hyp[i] the tokens *)
  list_closeb tol (map2 (spec_slp Z.add 0%Z V eos) lp hyp) impl.

(* walk outputs alone: path i (a column of y), its reported length and log-probability, and
   the model's rows along it *)
Definition spec_walk_okb (tol V : Z) (eos : option Z) (max_iters : option nat)
  (paths : list (list Z)) (rows : list (list (list Z))) (lens : list nat) (lps : list Z) : bool :=
  let S := match paths with p :: _ => length p | [] => 0 end in
  forallb (fun p => length p =? S) paths &&
  nlist_eqb (map (path_len eos) paths) lens &&
  list_closeb tol (map2 (spec_slp Z.add 0%Z V eos) rows paths) lps &&
  match max_iters with Some m => S <=? m | None => true end &&
  ((match max_iters with Some m => S =? m | None => false end)
   || forallb (fun p => match eos with
                        | Some e => match first_eos e p with Some _ => true | None => false end
                        | None => false
                        end) paths
   || (length paths =? 0)) &&
  forallb (fun p => forallb (in_vocab V) p &&
                    match eos with
                    | Some e => canonical e p
                    | None => true
                    end) paths.

Definition spec_greedy_okb (tol : Z) (is_probs : bool) (one : Z) (blank : nat) (T : nat)
  (in_lens : option (list Z)) (lp : list (list (list Z)))
  (sc : list Z) (paths : list (list nat)) (lens : list nat) : bool :=
  let ls := match in_lens with
            | None => map (fun _ => T) lp
            | Some l => map (fun z => Nat.min T (Z.to_nat z)) l
            end in
  let am := map (map argmax_first) lp in
  let want := map2 (fun l r => collapse blank (firstn l (map snd r))) ls am in
  let wsc := map2 (fun l r => if is_probs
                              then (fold_right Z.mul 1 (firstn l (map fst r)) * one ^ Z.of_nat (T - l))%Z
                              else fold_right Z.add 0%Z (firstn l (map fst r))) ls am in
  nlist_eqb (map (@length _) want) lens &&
  (length want =? length paths) &&
  forallb (fun p => nlist_eqb (fst p) (firstn (length (fst p)) (snd p))) (combine want paths) &&
  list_closeb tol wsc sc.
