(* C14 - lemmas.  The work is in ProofsSampler (the bucket sampler's loop and flush), ProofsSpec
   (consequences of the sampler specification: coverage counts, contiguity, len), ProofsOkb (the
   boolean checker is sound), ProofsParams (quantile bounds, length classes, bucket sizes, when the
   function raises), ProofsLoader (BatchSampler, loaders, epochs), ProofsCollate (pad_sequence and
   the three collate functions), ProofsWindow (extract_window), ProofsFull (composition, the
   LangDataLoader defect).  This file re-exports them and states the clause-level corollaries. *)
From Coq Require Import List Arith Bool ZArith Lia Sorting.Sorted Sorting.Permutation.
From PV Require Export C14.Model C14.Spec C14.ProofsSampler C14.ProofsSpec C14.ProofsOkb
  C14.ProofsParams C14.ProofsLoader C14.ProofsCollate C14.ProofsWindow C14.ProofsFull.
Import ListNotations.

Lemma batches_single_bucket_in_order : forall bk sz drop s out,
  bucket_iter bk sz drop s = Some out ->
  forall b, In b out ->
    b <> [] /\ (forall x, In x b -> bk x = bucket_of bk b) /\
    exists pre post, in_bucket bk (bucket_of bk b) s = pre ++ b ++ post.
Proof.
  intros bk sz drop s out H b Hb. pose proof (bucket_iter_spec _ _ _ _ _ H) as Hspec.
  destruct Hspec as (Hsb & Hrest). destruct (Hsb b Hb) as [Hne Hall].
  split; [exact Hne|]. split; [exact Hall|].
  eapply spec_batch_is_block; [split; eassumption|exact Hb].
Qed.

Lemma batch_sizes : forall bk sz drop s out,
  bucket_iter bk sz drop s = Some out -> sizes_ok bk sz drop out.
Proof. intros bk sz drop s out H. now destruct (bucket_iter_spec _ _ _ _ _ H) as (_ & _ & Hs). Qed.

Lemma every_index_once : forall bk sz s out,
  bucket_iter bk sz false s = Some out ->
  forall x, count_occ Nat.eq_dec (concat out) x = count_occ Nat.eq_dec s x.
Proof. intros bk sz s out H. apply (spec_every_index_once bk sz). now apply bucket_iter_spec. Qed.

Lemma every_index_once_nodup : forall bk sz s out x,
  bucket_iter bk sz false s = Some out -> NoDup s -> In x s ->
  count_occ Nat.eq_dec (concat out) x = 1.
Proof.
  intros bk sz s out x H Hnd Hin. rewrite (every_index_once _ _ _ _ H).
  now apply NoDup_count_occ'.
Qed.

Lemma every_index_once_or_dropped_incomplete : forall bk sz drop s out,
  bucket_iter bk sz drop s = Some out ->
  forall x, exists rest,
    count_occ Nat.eq_dec (concat out) x + count_occ Nat.eq_dec rest x = count_occ Nat.eq_dec s x
    /\ (exists pre, in_bucket bk (bk x) s = pre ++ rest)
    /\ (rest = [] \/ (drop = true /\ length rest < sz (bk x))).
Proof. intros bk sz drop s out H. apply spec_every_index_once_or_dropped. now apply bucket_iter_spec. Qed.

Lemma len_eq_number_of_batches : forall bk sz drop s out,
  bucket_iter bk sz drop s = Some out -> sampler_len bk sz drop s = length out.
Proof. intros bk sz drop s out H. apply spec_len_eq_number_of_batches. now apply bucket_iter_spec. Qed.

