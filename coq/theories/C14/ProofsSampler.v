(* C14 - lemmas about BucketBatchSampler.__iter__ ([iter_loop], [bucket_iter]) *)
From Coq Require Import List Arith Bool Lia Sorting.Sorted.
From PV Require Import C14.Model C14.Spec.
Import ListNotations.

Section Sampler.
  Variables bk sz : nat -> nat.

  (* ---------------------------------------------------------------------------------- *)
  (* the dictionary of open batches                                                     *)
  (* ---------------------------------------------------------------------------------- *)

  (* an entry is a non-empty, not yet full list of indices of its bucket *)
  Definition entry_ok (e : nat * list nat) : Prop :=
    snd e <> [] /\ Forall (fun x => bk x = fst e) (snd e) /\ length (snd e) < sz (fst e).

  Definition good (d : dict) : Prop := NoDup (map fst d) /\ Forall entry_ok d.

  Lemma dget_not_key : forall h d, ~ In h (map fst d) -> dget h d = [].
  Proof.
    induction d as [|[k v] t IH]; cbn; intros Hn; [reflexivity|].
    destruct (Nat.eqb k h) eqn:E.
    - apply Nat.eqb_eq in E. tauto.
    - apply IH. tauto.
  Qed.

  Lemma dget_in : forall h d, dget h d <> [] -> In (h, dget h d) d.
  Proof.
    induction d as [|[k v] t IH]; cbn; intros Hn; [congruence|].
    destruct (Nat.eqb k h) eqn:E.
    - apply Nat.eqb_eq in E. subst. now left.
    - right. now apply IH.
  Qed.

  Lemma in_dget : forall h v d, NoDup (map fst d) -> In (h, v) d -> dget h d = v.
  Proof.
    induction d as [|[k w] t IH]; cbn; intros Hnd Hin; [tauto|].
    inversion Hnd as [|? ? Hk Ht]; subst.
    destruct Hin as [Heq|Hin].
    - inversion Heq; subst. now rewrite Nat.eqb_refl.
    - destruct (Nat.eqb k h) eqn:E.
      + apply Nat.eqb_eq in E. subst. exfalso. apply Hk.
        change h with (fst (h, v)). now apply in_map.
      + now apply IH.
  Qed.

  Lemma good_dget : forall h d, good d ->
    Forall (fun x => bk x = h) (dget h d) /\ (dget h d <> [] -> length (dget h d) < sz h).
  Proof.
    intros h d [Hnd Hall].
    destruct (dget h d) eqn:E.
    - split; [constructor|congruence].
    - assert (Hin : In (h, dget h d) d) by (apply dget_in; rewrite E; discriminate).
      rewrite Forall_forall in Hall. destruct (Hall _ Hin) as (_ & H2 & H3).
      cbn in H2, H3. rewrite E in H2, H3. split; [exact H2|intros _; exact H3].
  Qed.

  Lemma keys_ddel : forall h d x, In x (map fst (ddel h d)) -> In x (map fst d).
  Proof.
    induction d as [|[k v] t IH]; cbn; intros x Hin; [tauto|].
    destruct (Nat.eqb k h); cbn in *; [now right|].
    destruct Hin; [now left|right; now apply IH].
  Qed.

  Lemma nodup_ddel : forall h d, NoDup (map fst d) -> NoDup (map fst (ddel h d)).
  Proof.
    induction d as [|[k v] t IH]; cbn; intros Hnd; [constructor|].
    inversion Hnd as [|? ? Hk Ht]; subst.
    destruct (Nat.eqb k h); cbn; [exact Ht|].
    constructor; [|now apply IH].
    intros Hin. apply Hk. eapply keys_ddel; eauto.
  Qed.

  Lemma in_ddel : forall h d e, In e (ddel h d) -> In e d.
  Proof.
    induction d as [|[k v] t IH]; cbn; intros e Hin; [tauto|].
    destruct (Nat.eqb k h); cbn in *; [now right|].
    destruct Hin; [now left|right; now apply IH].
  Qed.

  Lemma good_ddel : forall h d, good d -> good (ddel h d).
  Proof.
    intros h d [Hnd Hall]. split; [now apply nodup_ddel|].
    rewrite Forall_forall in *. intros e He. apply Hall. eapply in_ddel; eauto.
  Qed.

  Lemma dget_ddel_same : forall h d, NoDup (map fst d) -> dget h (ddel h d) = [].
  Proof.
    induction d as [|[k v] t IH]; cbn; intros Hnd; [reflexivity|].
    inversion Hnd as [|? ? Hk Ht]; subst.
    destruct (Nat.eqb k h) eqn:E.
    - apply Nat.eqb_eq in E. subst. now apply dget_not_key.
    - cbn. rewrite E. now apply IH.
  Qed.

  Lemma dget_ddel_other : forall h h' d, h' <> h -> dget h' (ddel h d) = dget h' d.
  Proof.
    induction d as [|[k v] t IH]; cbn; intros Hne; [reflexivity|].
    destruct (Nat.eqb k h) eqn:E.
    - apply Nat.eqb_eq in E. subst.
      destruct (Nat.eqb h h') eqn:E'; [apply Nat.eqb_eq in E'; congruence|reflexivity].
    - cbn. destruct (Nat.eqb k h'); [reflexivity|now apply IH].
  Qed.

  Lemma dget_dset_same : forall h v d, dget h (dset h v d) = v.
  Proof.
    induction d as [|[k w] t IH]; cbn.
    - now rewrite Nat.eqb_refl.
    - destruct (Nat.eqb k h) eqn:E; cbn; rewrite E; [reflexivity|exact IH].
  Qed.

  Lemma dget_dset_other : forall h h' v d, h' <> h -> dget h' (dset h v d) = dget h' d.
  Proof.
    induction d as [|[k w] t IH]; cbn; intros Hne.
    - destruct (Nat.eqb h h') eqn:E; [apply Nat.eqb_eq in E; congruence|reflexivity].
    - destruct (Nat.eqb k h) eqn:E; cbn.
      + apply Nat.eqb_eq in E. subst.
        destruct (Nat.eqb h h') eqn:E'; [apply Nat.eqb_eq in E'; congruence|reflexivity].
      + destruct (Nat.eqb k h'); [reflexivity|now apply IH].
  Qed.

  Lemma keys_dset : forall h v d x, In x (map fst (dset h v d)) -> x = h \/ In x (map fst d).
  Proof.
    induction d as [|[k w] t IH]; cbn; intros x Hin.
    - destruct Hin; [now left|tauto].
    - destruct (Nat.eqb k h) eqn:E; cbn in *.
      + destruct Hin; [right; now left|right; now right].
      + destruct Hin as [Hx|Hin]; [right; now left|].
        destruct (IH _ Hin); [now left|right; now right].
  Qed.

  Lemma nodup_dset : forall h v d, NoDup (map fst d) -> NoDup (map fst (dset h v d)).
  Proof.
    induction d as [|[k w] t IH]; cbn; intros Hnd.
    - constructor; [tauto|constructor].
    - inversion Hnd as [|? ? Hk Ht]; subst.
      destruct (Nat.eqb k h) eqn:E; cbn.
      + constructor; assumption.
      + constructor; [|now apply IH].
        intros Hin. destruct (keys_dset _ _ _ _ Hin) as [Hx|Hx].
        * apply Nat.eqb_neq in E. congruence.
        * tauto.
  Qed.

  Lemma in_dset : forall h v d e, In e (dset h v d) -> e = (h, v) \/ In e d.
  Proof.
    induction d as [|[k w] t IH]; cbn; intros e Hin.
    - destruct Hin; [now left|tauto].
    - destruct (Nat.eqb k h) eqn:E; cbn in *.
      + apply Nat.eqb_eq in E. subst. destruct Hin; [now left|right; now right].
      + destruct Hin as [Hx|Hin]; [right; now left|].
        destruct (IH _ Hin); [now left|right; now right].
  Qed.

  Lemma good_dset : forall h v d, good d -> entry_ok (h, v) -> good (dset h v d).
  Proof.
    intros h v d [Hnd Hall] Hok. split; [now apply nodup_dset|].
    rewrite Forall_forall in *. intros e He.
    destruct (in_dset _ _ _ _ He) as [->|Hin]; [exact Hok|now apply Hall].
  Qed.

  (* ---------------------------------------------------------------------------------- *)
  (* batches of one bucket                                                              *)
  (* ---------------------------------------------------------------------------------- *)

  Definition full_batch (b : list nat) : Prop :=
    b <> [] /\ Forall (fun x => bk x = bucket_of bk b) b /\ length b = sz (bucket_of bk b).

  Lemma batches_of_cons_same : forall h b out, bucket_of bk b = h ->
    batches_of bk h (b :: out) = b :: batches_of bk h out.
  Proof. intros h b out E. unfold batches_of. cbn. rewrite E, Nat.eqb_refl. reflexivity. Qed.

  Lemma batches_of_cons_other : forall h b out, bucket_of bk b <> h ->
    batches_of bk h (b :: out) = batches_of bk h out.
  Proof.
    intros h b out E. unfold batches_of. cbn.
    destruct (Nat.eqb (bucket_of bk b) h) eqn:E'; [apply Nat.eqb_eq in E'; congruence|reflexivity].
  Qed.

  Lemma batches_of_app : forall h a b,
    batches_of bk h (a ++ b) = batches_of bk h a ++ batches_of bk h b.
  Proof. intros. unfold batches_of. apply filter_app. Qed.

  Lemma in_bucket_cons_same : forall h i s, bk i = h -> in_bucket bk h (i :: s) = i :: in_bucket bk h s.
  Proof. intros h i s E. unfold in_bucket. cbn. rewrite E, Nat.eqb_refl. reflexivity. Qed.

  Lemma in_bucket_cons_other : forall h i s, bk i <> h -> in_bucket bk h (i :: s) = in_bucket bk h s.
  Proof.
    intros h i s E. unfold in_bucket. cbn.
    destruct (Nat.eqb (bk i) h) eqn:E'; [apply Nat.eqb_eq in E'; congruence|reflexivity].
  Qed.

  (* the batch formed by appending idx to the open batch of its bucket *)
  Lemma new_batch_bucket : forall d idx, good d ->
    let b := dget (bk idx) d ++ [idx] in
    b <> [] /\ Forall (fun x => bk x = bk idx) b /\ bucket_of bk b = bk idx.
  Proof.
    intros d idx Hg b.
    destruct (good_dget (bk idx) d Hg) as [Hall _].
    assert (Hb : Forall (fun x => bk x = bk idx) b).
    { unfold b. apply Forall_app. split; [exact Hall|]. constructor; [reflexivity|constructor]. }
    split; [unfold b; destruct (dget (bk idx) d); discriminate|].
    split; [exact Hb|].
    unfold bucket_of, b. destruct (dget (bk idx) d) as [|x l] eqn:E; cbn; [reflexivity|].
    inversion Hall; assumption.
  Qed.

  (* ---------------------------------------------------------------------------------- *)
  (* the main loop                                                                      *)
  (* ---------------------------------------------------------------------------------- *)

  Lemma iter_loop_spec : forall s d ys d',
    iter_loop bk sz d s = Some (ys, d') -> good d ->
    good d' /\ Forall full_batch ys /\
    forall h, dget h d ++ in_bucket bk h s = concat (batches_of bk h ys) ++ dget h d'.
  Proof.
    induction s as [|idx t IH]; intros d ys d' Hrun Hg.
    - cbn in Hrun. inversion Hrun; subst. split; [exact Hg|]. split; [constructor|].
      intros h. cbn. now rewrite app_nil_r.
    - cbn [iter_loop] in Hrun.
      pose proof (new_batch_bucket d idx Hg) as Hnb. cbv zeta in Hnb.
      set (h0 := bk idx) in *. set (b := dget h0 d ++ [idx]) in *.
      destruct Hnb as (Hne & Hall & Hbk).
      destruct (Nat.eqb (sz h0) (length b)) eqn:Efull.
      + (* the batch is full: yield, delete *)
        apply Nat.eqb_eq in Efull.
        destruct (iter_loop bk sz (ddel h0 d) t) as [[ys' o]|] eqn:Erec; [|discriminate].
        inversion Hrun; subst ys d'. clear Hrun.
        destruct (IH _ _ _ Erec (good_ddel h0 d Hg)) as (Hg' & Hfull & Hcov).
        split; [exact Hg'|]. split.
        * constructor; [|exact Hfull]. unfold full_batch. rewrite Hbk.
          split; [exact Hne|]. split; [exact Hall|now symmetry].
        * intros h. destruct (Nat.eq_dec h h0) as [->|Hneq].
          -- rewrite in_bucket_cons_same by reflexivity.
             rewrite batches_of_cons_same by exact Hbk. cbn [concat].
             specialize (Hcov h0). rewrite dget_ddel_same in Hcov by apply Hg. cbn in Hcov.
             rewrite <- app_assoc, <- Hcov. unfold b. now rewrite <- app_assoc.
          -- rewrite in_bucket_cons_other by (fold h0; congruence).
             rewrite batches_of_cons_other by congruence.
             specialize (Hcov h). rewrite dget_ddel_other in Hcov by exact Hneq. exact Hcov.
      + destruct (Nat.ltb (sz h0) (length b)) eqn:Eover; [discriminate|].
        apply Nat.eqb_neq in Efull. apply Nat.ltb_ge in Eover.
        assert (Hok : entry_ok (h0, b)).
        { unfold entry_ok. cbn. split; [exact Hne|]. split; [exact Hall|lia]. }
        destruct (IH _ _ _ Hrun (good_dset h0 b d Hg Hok)) as (Hg' & Hfull & Hcov).
        split; [exact Hg'|]. split; [exact Hfull|].
        intros h. destruct (Nat.eq_dec h h0) as [->|Hneq].
        * rewrite in_bucket_cons_same by reflexivity.
          specialize (Hcov h0). rewrite dget_dset_same in Hcov.
          rewrite <- Hcov. unfold b. now rewrite <- app_assoc.
        * rewrite in_bucket_cons_other by (fold h0; congruence).
          specialize (Hcov h). rewrite dget_dset_other in Hcov by exact Hneq. exact Hcov.
  Qed.

  (* sizes are positive for every bucket that occurs: otherwise RuntimeError *)
  Lemma iter_loop_some : forall s d, good d ->
    (forall i, In i s -> 0 < sz (bk i)) -> iter_loop bk sz d s <> None.
  Proof.
    induction s as [|idx t IH]; intros d Hg Hpos; [discriminate|].
    cbn [iter_loop].
    pose proof (new_batch_bucket d idx Hg) as Hnb. cbv zeta in Hnb.
    set (h0 := bk idx) in *. set (b := dget h0 d ++ [idx]) in *.
    destruct Hnb as (Hne & Hall & Hbk).
    destruct (Nat.eqb (sz h0) (length b)) eqn:Efull.
    - specialize (IH (ddel h0 d) (good_ddel h0 d Hg) (fun i Hi => Hpos i (or_intror Hi))).
      destruct (iter_loop bk sz (ddel h0 d) t) as [[? ?]|]; [discriminate|congruence].
    - apply Nat.eqb_neq in Efull.
      assert (Hlen : length b <= sz h0).
      { unfold b. rewrite app_length. cbn.
        destruct (good_dget h0 d Hg) as [_ Hlt].
        destruct (dget h0 d) eqn:E; cbn.
        - specialize (Hpos idx (or_introl eq_refl)). fold h0 in Hpos. lia.
        - specialize (Hlt ltac:(discriminate)). cbn in Hlt. lia. }
      destruct (Nat.ltb (sz h0) (length b)) eqn:Eover; [apply Nat.ltb_lt in Eover; lia|].
      apply IH.
      + apply good_dset; [exact Hg|]. unfold entry_ok. cbn. split; [exact Hne|]. split; [exact Hall|lia].
      + intros i Hi. apply Hpos. now right.
  Qed.

  (* ---------------------------------------------------------------------------------- *)
  (* the final flush                                                                    *)
  (* ---------------------------------------------------------------------------------- *)

  Lemma in_insert_item : forall e l x, In x (insert_item e l) <-> x = e \/ In x l.
  Proof.
    induction l as [|y t IH]; cbn [insert_item In]; intros x.
    - intuition.
    - destruct (Nat.ltb (fst e) (fst y)); cbn [In]; [intuition|].
      rewrite IH. intuition.
  Qed.

  Lemma in_sort_items : forall d x, In x (sort_items d) <-> In x d.
  Proof.
    induction d as [|e t IH]; cbn; intros x; [tauto|].
    rewrite in_insert_item, IH. intuition.
  Qed.

  Lemma sorted_insert_item : forall e l,
    StronglySorted lt (map fst l) -> ~ In (fst e) (map fst l) ->
    StronglySorted lt (map fst (insert_item e l)).
  Proof.
    induction l as [|y t IH]; cbn [insert_item map In]; intros Hs Hn.
    - constructor; constructor.
    - inversion Hs as [|? ? Ht Hall]; subst.
      destruct (Nat.ltb (fst e) (fst y)) eqn:E; cbn [map].
      + apply Nat.ltb_lt in E. constructor; [exact Hs|].
        constructor; [exact E|]. rewrite Forall_forall in *. intros z Hz.
        specialize (Hall z Hz). lia.
      + apply Nat.ltb_ge in E.
        constructor; [apply IH; [exact Ht|tauto]|].
        rewrite Forall_forall in *. intros z Hz.
        apply in_map_iff in Hz. destruct Hz as (x & <- & Hx).
        apply (proj1 (in_insert_item _ _ _)) in Hx. destruct Hx as [->|Hx].
        * assert (fst e <> fst y) by (intros Heq; apply Hn; left; now symmetry). lia.
        * apply Hall. now apply in_map.
  Qed.

  Lemma sorted_sort_items : forall d, NoDup (map fst d) -> StronglySorted lt (map fst (sort_items d)).
  Proof.
    induction d as [|e t IH]; cbn [sort_items fold_right map]; intros Hnd; [constructor|].
    inversion Hnd as [|? ? Hk Ht]; subst. fold (sort_items t).
    apply sorted_insert_item; [apply IH; exact Ht|].
    intros Hin. apply Hk. apply in_map_iff in Hin. destruct Hin as (x & Hx & Hin).
    apply (proj1 (in_sort_items _ _)) in Hin. rewrite <- Hx. now apply in_map.
  Qed.

  Lemma sorted_nodup : forall l, StronglySorted lt l -> NoDup l.
  Proof.
    induction l as [|x t IH]; intros Hs; [constructor|].
    inversion Hs as [|? ? Ht Hall]; subst. constructor; [|now apply IH].
    intros Hin. rewrite Forall_forall in Hall. specialize (Hall _ Hin). lia.
  Qed.

  Lemma good_sort_items : forall d, good d -> good (sort_items d).
  Proof.
    intros d [Hnd Hall]. split.
    - apply sorted_nodup. now apply sorted_sort_items.
    - rewrite Forall_forall in *. intros e He. apply Hall. now apply (proj1 (in_sort_items _ _)).
  Qed.

  Lemma dget_sort_items : forall h d, good d -> dget h (sort_items d) = dget h d.
  Proof.
    intros h d Hg. pose proof (good_sort_items d Hg) as Hg'.
    destruct (dget h d) eqn:E.
    - destruct (dget h (sort_items d)) eqn:E'; [reflexivity|].
      assert (Hin : In (h, dget h (sort_items d)) (sort_items d))
        by (apply dget_in; rewrite E'; discriminate).
      apply (proj1 (in_sort_items _ _)) in Hin. apply in_dget in Hin; [|apply Hg]. congruence.
    - assert (Hin : In (h, dget h d) d) by (apply dget_in; rewrite E; discriminate).
      apply (proj2 (in_sort_items _ _)) in Hin. apply in_dget in Hin; [|apply Hg']. congruence.
  Qed.

  Lemma entry_bucket : forall e, entry_ok e -> bucket_of bk (snd e) = fst e.
  Proof.
    intros [k v] (Hne & Hall & _). cbn in *. unfold bucket_of.
    destruct v as [|x l]; [congruence|]. cbn. now inversion Hall.
  Qed.

  Lemma flush_buckets : forall d, Forall entry_ok d -> map (bucket_of bk) (map snd d) = map fst d.
  Proof.
    induction d as [|e t IH]; cbn; intros Hall; [reflexivity|].
    inversion Hall; subst. rewrite entry_bucket by assumption. f_equal. now apply IH.
  Qed.

  Lemma flush_concat : forall h d, good d -> concat (batches_of bk h (map snd d)) = dget h d.
  Proof.
    induction d as [|[k v] t IH]; intros [Hnd Hall]; [reflexivity|].
    cbn [map snd fst] in *. inversion Hnd as [|? ? Hk Ht]; subst. inversion Hall as [|? ? He Hr]; subst.
    assert (Hgt : good t) by (split; assumption).
    pose proof (entry_bucket _ He) as Hb. cbn in Hb.
    cbn [dget]. destruct (Nat.eqb k h) eqn:E.
    - apply Nat.eqb_eq in E. subst h. rewrite batches_of_cons_same by exact Hb.
      cbn [concat]. rewrite IH by exact Hgt. rewrite dget_not_key by exact Hk. apply app_nil_r.
    - apply Nat.eqb_neq in E. rewrite batches_of_cons_other by congruence. now apply IH.
  Qed.

  Definition short_batch (b : list nat) : Prop :=
    b <> [] /\ Forall (fun x => bk x = bucket_of bk b) b /\ length b < sz (bucket_of bk b).

  Lemma flush_short : forall d, Forall entry_ok d -> Forall short_batch (map snd d).
  Proof.
    induction d as [|e t IH]; cbn; intros Hall; [constructor|].
    inversion Hall as [|? ? He Hr]; subst. constructor; [|now apply IH].
    unfold short_batch. rewrite (entry_bucket _ He). exact He.
  Qed.

  (* ---------------------------------------------------------------------------------- *)
  (* the sampler meets its specification                                                *)
  (* ---------------------------------------------------------------------------------- *)

  Lemma good_nil : good [].
  Proof. split; constructor. Qed.

  Theorem bucket_iter_spec : forall drop s out,
    bucket_iter bk sz drop s = Some out -> bbs_spec bk sz drop s out.
  Proof.
    intros drop s out Hrun. unfold bucket_iter in Hrun.
    destruct (iter_loop bk sz [] s) as [[ys d']|] eqn:Eloop; [|discriminate].
    inversion Hrun; subst out. clear Hrun.
    destruct (iter_loop_spec _ _ _ _ Eloop good_nil) as (Hg & Hfull & Hcov).
    pose proof (good_sort_items d' Hg) as Hgs.
    set (tr := if drop then [] else map snd (sort_items d')).
    assert (Hshort : Forall short_batch tr).
    { unfold tr. destruct drop; [constructor|]. apply flush_short. apply Hgs. }
    split; [|split].
    - (* single bucket *)
      intros b Hb. apply in_app_or in Hb. destruct Hb as [Hb|Hb].
      + rewrite Forall_forall in Hfull. destruct (Hfull b Hb) as (Hne & Hall & _).
        split; [exact Hne|]. now rewrite Forall_forall in Hall.
      + rewrite Forall_forall in Hshort. destruct (Hshort b Hb) as (Hne & Hall & _).
        split; [exact Hne|]. now rewrite Forall_forall in Hall.
    - (* coverage in order *)
      intros h. specialize (Hcov h). cbn in Hcov.
      rewrite batches_of_app, concat_app. fold tr.
      destruct drop.
      + exists (dget h d'). unfold tr. cbn. rewrite app_nil_r. split; [now symmetry|].
        destruct (dget h d') eqn:E; [now left|right]. split; [reflexivity|].
        destruct (good_dget h d' Hg) as [_ Hlt]. rewrite E in Hlt. apply Hlt. discriminate.
      + exists []. unfold tr. rewrite app_nil_r, flush_concat by exact Hgs.
        rewrite dget_sort_items by exact Hg. split; [now symmetry|now left].
    - (* sizes *)
      exists ys, tr. split; [reflexivity|]. split; [|split; [|split]].
      + eapply Forall_impl; [|exact Hfull]. intros b (_ & _ & H). exact H.
      + eapply Forall_impl; [|exact Hshort]. intros b (_ & _ & H). exact H.
      + intros ->. reflexivity.
      + unfold tr. destruct drop; [constructor|].
        rewrite flush_buckets by apply Hgs. apply sorted_sort_items. apply Hg.
  Qed.

  (* never a RuntimeError when every occurring bucket has a positive size *)
  Theorem bucket_iter_some : forall drop s,
    (forall i, In i s -> 0 < sz (bk i)) -> exists out, bucket_iter bk sz drop s = Some out.
  Proof.
    intros drop s Hpos. unfold bucket_iter.
    pose proof (iter_loop_some s [] good_nil Hpos) as Hn.
    destruct (iter_loop bk sz [] s) as [[ys d']|]; [eexists; reflexivity|congruence].
  Qed.
End Sampler.
