From Coq Require Import List ZArith QArith Bool.
From PV Require Import C15.Model C15.Spec C15.Proofs.
Local Open Scope Z_scope.
Theorem c15_below_fails : forall ref v thr, below ref v thr = fails ref v thr.
Proof. exact below_fails. Qed.
Print Assumptions c15_below_fails.
