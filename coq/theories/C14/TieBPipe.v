(* C14, second tie - the two interpreted functions of the context-window loader composed: the items the interpreted
   ContextWindowDataSet.get_windowed_utterance returns for the indices of a batch, handed to the interpreted
   context_window_seq_to_batch, give the batch Model.cw_loader delivers for that batch of indices.
   NOT translated (hand-written glue, hence `_partial` in Properties.v): torch's DataLoader, which fetches
   dataset[i] for the indices the batch sampler yields and calls collate_fn on the list of items;
   ContextWindowDataLoader.collate_fn (one line: context_window_seq_to_batch(seq, not suppress_uttids)). *)
From Coq Require Import ZArith List String Bool Arith Lia.
From PV Require Import C14.Model MiniPy.Syntax MiniPy.Interp Gen.C14BSrc Gen.C14BWinSrc C14.SrcRunB C14.TieBWinU C14.TieBCw.
Import ListNotations.
Local Open Scope string_scope.

Definition cw_item_of (ds : list utt) (left right : nat) (reverse : bool) (i : nat) : cw_item :=
  let u := nth i ds dflt_utt in (Model.windowed [] (u_feat u) left right reverse, u_ali u, u_id u).

Theorem cw_batch_pipeline junk W (ds : list utt) left right reverse suppress (b : list nat) :
  b <> [] -> Forall (fun i => (i < List.length ds)%nat /\ u_feat (nth i ds dflt_utt) <> []) b ->
  let items := map (cw_item_of ds left right reverse) b in
  Forall2 (fun i x => exists st', src_windowed junk W ds left right reverse suppress i = Ok (enc_cw_item suppress x) st')
          b items /\
  exists st', src_cw_collate (negb suppress) items = Ok (enc_cw_batch (negb suppress) (cw_collate items)) st'.
Proof.
  intros Hne Hall items. split.
  - unfold items. clear Hne. induction b as [|i r IH]; [constructor|].
    inversion Hall as [|? ? [Hi Hf] Hr]; subst. cbn [map]. constructor; [|exact (IH Hr)].
    exact (windowed_tie junk W ds left right reverse suppress i Hi Hf).
  - apply cw_tie. unfold items. destruct b; [contradiction|discriminate].
Qed.

(* the batches of the model's loader are exactly these collations *)
Lemma cw_loader_batches (ds : list utt) bs drop left right reverse order :
  Model.cw_loader ds bs drop left right reverse order
  = map (fun b => cw_collate (map (cw_item_of ds left right reverse) b)) (batch_sampler bs drop order).
Proof. reflexivity. Qed.
