"""C05 second source tie, harness side: the Python text of the loop body and the epilogue of `CTCPrefixSearch.forward`
(src/pydrobert/torch/_decoding.py), translated to MiniPy by py2coq on this run (PV.Gen.C05BSrc.fwd_frame / fwd_final) and
interpreted INSIDE Coq (PV.C05.SrcRunB.src_search: torch calls = PV.MiniTorch.OpsC05 / OpsC05B, the call of
ctc_prefix_search_advance = the interpreted translated source of the step function, the language model = the state machine
of C05.ModelB fed with the same oracle rows as Model.search, torch.topk = the answers recorded from the implementation), is
run on the search cases of the run, element by element, and compared with what the implementation returned - the literals
and the comparison of Model.check_search (prefixes exact, probabilities within the case's tolerance).  This validates
translator + interpreter + extB + op semantics + the LM abstraction against CPython/torch on every run and is independent of
whether C05/TieB*.v still compile."""
import time
from fractions import Fraction

from vlib import cb, cl, cln, cn, coq_eval_bools

IMPORTS_SRCB = ("From Coq Require Import QArith Qcanon.\nFrom PV Require Import C05.Model C05.Spec.\n"
                "From PV Require C05.SrcRunB.\nLocal Open Scope nat_scope.\n")
SRCB_THEOREMS = ["c05_source_frame_is_tensor_program", "c05_source_final_is_tensor_program", "c05_source_final_is_model",
                 "c05_source_frame_is_model_nolm", "c05_source_search_is_model_nolm_partial",
                 "c05_source_search_sorted_nolm_partial"]
MAX_ELEMS = 900          # elements interpreted per run (the cheapest first)
MAX_BITS = 160           # skip elements whose probabilities are rationals with larger denominators (extreme-magnitude stream)


def _q(x):
    x = Fraction(x)
    n = f"({x.numerator})" if x.numerator < 0 else str(x.numerator)
    return f"({n} # {x.denominator})%Q"


def _config(case):
    """(has_lm, beta, valid_mixture) of the module run_search builds"""
    has_lm = case["fusion"] != "none" and bool(case.get("lm"))
    if not has_lm:
        return False, Fraction(0.2), False        # CTCPrefixSearch(width): beta = 0.2, lm = None
    return True, Fraction(case["beta"]), case["fusion"] == "mix"


def src_search_terms(c05, case, out):
    """[(element, cost, term)] for the elements of a search case the interpreted source is run on"""
    if "exc" in out:
        return []
    probs = c05._probs_of(case)
    lmax = c05._lenmax(case)
    if out["S"] != lmax:
        return []
    has_lm, beta, vm = _config(case)
    len_min = case["T"] if case["lens"] is None else (min(case["lens"]) if case["lens"] else 0)
    res = []
    for n, e in enumerate(out["elems"]):
        if c05._elem_bad(e):
            continue
        fus, lmt = c05._fus_lm_terms(case, n)
        ln = c05._len_of(case, n)
        bits = c05._den_bits([float(v) for v in probs[:lmax, n, :].flatten()]) if lmax else 0
        if bits > MAX_BITS:
            continue
        cost = (lmax + 1) * (case["width"] + 2) * (case["V"] + 1) * (3 if has_lm else 1) * max(1, bits // 64)
        term = (f"SrcRunB.src_search_check {cn(case['V'])} {cn(case['width'])} {cb(has_lm)} {_q(beta)} {cb(vm)} {lmt} "
                f"{cn(len_min)} {cn(ln)} {c05._frames_term(probs, n, lmax, case['V'])} "
                f"{cl([cln(c) for c in e['choices']])} {c05.cqc(c05._eps(case))} "
                f"{cl([cln(c) for c in e['y']])} {cln(e['lens'])} {c05.clm(e['probs'])}")
        res.append((n, cost, term, dict(fused=fus, frozen=ln < lmax, masked=len_min < lmax, widened=case["width"] > 1,
                                       T=lmax, width=case["width"])))
    return res


def source_tieB(chk, cases, outs):
    import props.c05 as c05
    from vlib import CoqError
    chk.extra["source_tieB"] = {"unit": "C05BSrc", "functions": ["CTCPrefixSearch.forward: loop body, epilogue"],
                                "theorems": SRCB_THEOREMS}
    cand = []
    for i, (c, out) in enumerate(zip(cases, outs)):
        if c.get("kind") != "search":
            continue
        try:
            for n, cost, term, info in src_search_terms(c05, c, out):
                cand.append((cost, i, n, term, info))
        except Exception:  # noqa: BLE001  (a case the literal builders cannot express is not a tie matter)
            continue
    total = len(cand)
    cand.sort(key=lambda x: (x[0], x[1], x[2]))
    cand = cand[:MAX_ELEMS]
    if not cand:
        chk.extra["source_tieB_run"] = {"cases": 0, "disagreements": 0}
        return
    t0 = time.time()
    terms = [x[3] for x in cand]
    # deal the terms to the shards by decreasing cost
    order = sorted(range(len(terms)), key=lambda j: -cand[j][0])
    nsh = max(1, min(16, len(terms)))
    groups = [order[g::nsh] for g in range(nsh)]
    size = max(len(g) for g in groups)
    flat, back = [], []
    for g in groups:
        flat += [terms[j] for j in g] + ["true"] * (size - len(g))
        back += list(g) + [None] * (size - len(g))
    try:
        res = coq_eval_bools(chk.workdir, IMPORTS_SRCB, flat, shard=size, tag="srcfwd")
    except CoqError as e:
        chk.extra["source_tieB_run"] = "not evaluated: " + str(e)[-400:]
        return
    ok = [True] * len(terms)
    for r, j in zip(res, back):
        if j is not None:
            ok[j] = r
    bad = [j for j, v in enumerate(ok) if not v]
    infos = [x[4] for x in cand]
    chk.extra["source_tieB_run"] = {
        "cases": len(terms), "disagreements": len(bad), "wall_s": round(time.time() - t0, 1), "eligible_elements": total,
        "no_lm": sum(1 for f in infos if f["fused"] == "NoLM"), "plain": sum(1 for f in infos if f["fused"] == "Plain"),
        "valid_mixture": sum(1 for f in infos if f["fused"].startswith("(Mix")),
        "with_frozen_frames": sum(1 for f in infos if f["frozen"]), "masked_path": sum(1 for f in infos if f["masked"]),
        "frames>=2": sum(1 for f in infos if f["T"] >= 2), "no_frames": sum(1 for f in infos if f["T"] == 0)}
    chk.count("source_tieB_cases", len(terms))
    if bad:
        _, i, n, _, _ = cand[bad[0]]
        chk.report({"case": cases[i], "impl": outs[i], "element": n,
                    "what": "the Python source of CTCPrefixSearch.forward's loop body / epilogue as translated to MiniPy and "
                            "interpreted in Coq (PV.C05.SrcRunB.src_search: torch calls = PV.MiniTorch.OpsC05 / OpsC05B, step "
                            "function = its interpreted source, topk = the recorded answers) does not reproduce the "
                            "implementation's output: translator / interpreter / extB / MiniTorch no longer describe the code",
                    "disagreeing_cases": len(bad),
                    "correspondence": "tie:C05:py2coq+MiniPy.Interp+MiniTorch:CTCPrefixSearch.forward",
                    "theorems_at_stake": SRCB_THEOREMS}, no_failing_input=True)
