(* C02 - the arithmetic behind the source tie, free of the interpreter: the two tables of PV.C02.Model
   ([body] = candidates + [del_sweep], [step_rm]) by index.  [cx] / [cm] are entry i of the cost row / the
   mistakes row after the substitution-or-insertion choice (`pick_sub = row[1:] >= sub_row`: substitution wins
   ties), [sw] the in-place sequential deletion loop (`for ref_idx ..: del_ >= row[ref_idx]`: deletion only when
   strictly cheaper) as a recursion over the index. *)
From Coq Require Import ZArith QArith List Bool Arith Lia ZifyBool ZifyNat.
From PV Require Import MiniTorch.Ops MiniTorch.Lemmas MiniTorch.OpsC07 MiniTorch.LemmasC07 MiniTorch.OpsC01 MiniTorch.LemmasC01
  MiniTorch.OpsC02 MiniTorch.LemmasC02.
From PV Require Import C01.TieMath.
From PV Require C01.Model C01.Proofs C02.Model C02.ProofsModel.
Import ListNotations.
Local Open Scope Z_scope.

(* ---- the sequential deletion loop by index ------------------------------------------------------------------ *)
(* (row[i], mistakes[i]) after the loop has passed position i; x / m: the two rows before the loop *)
Fixpoint sw (cd : Z) (x m : nat -> Z) (i : nat) : Z * Z :=
  match i with
  | O => (x 0%nat, m 0%nat)
  | S i' =>
      let d := fst (sw cd x m i') + cd in
      if x (S i') <=? d then (x (S i'), m (S i')) else (d, snd (sw cd x m i') + 1)
  end.

Lemma sw_ext : forall cd x m x' m' i, (forall j, (j <= i)%nat -> x j = x' j) -> (forall j, (j <= i)%nat -> m j = m' j) ->
  sw cd x m i = sw cd x' m' i.
Proof.
  intros cd x m x' m' i. induction i as [|i IH]; intros Hx Hm; cbn [sw].
  - now rewrite Hx, Hm by lia.
  - rewrite IH by (intros; (apply Hx || apply Hm); lia). now rewrite (Hx (S i)), (Hm (S i)) by lia.
Qed.

Lemma del_loop_sw : forall cd x m n a,
  Model.del_loop cd (fst (sw cd x m a)) (snd (sw cd x m a)) (map x (seq (S a) n)) (map m (seq (S a) n)) =
  (map (fun i => fst (sw cd x m i)) (seq (S a) n), map (fun i => snd (sw cd x m i)) (seq (S a) n)).
Proof.
  intros cd x m n. induction n as [|n IH]; intros a; [reflexivity|].
  cbn [seq map Model.del_loop]. cbv zeta.
  assert (E1 : (if x (S a) <=? fst (sw cd x m a) + cd then x (S a) else fst (sw cd x m a) + cd) = fst (sw cd x m (S a))).
  { cbn [sw]. cbv zeta. destruct (x (S a) <=? fst (sw cd x m a) + cd); reflexivity. }
  assert (E2 : (if x (S a) <=? fst (sw cd x m a) + cd then m (S a) else snd (sw cd x m a) + 1) = snd (sw cd x m (S a))).
  { cbn [sw]. cbv zeta. destruct (x (S a) <=? fst (sw cd x m a) + cd); reflexivity. }
  rewrite E1, E2, IH. reflexivity.
Qed.

Lemma del_sweep_sw : forall cd x m n,
  Model.del_sweep cd (map x (seq 0 (S n))) (map m (seq 0 (S n))) =
  (map (fun i => fst (sw cd x m i)) (seq 0 (S n)), map (fun i => snd (sw cd x m i)) (seq 0 (S n))).
Proof.
  intros cd x m n. unfold Model.del_sweep. cbn [seq map].
  change (x 0%nat) with (fst (sw cd x m 0)). change (m 0%nat) with (snd (sw cd x m 0)).
  rewrite del_loop_sw. reflexivity.
Qed.

(* ---- floats: the cost row over the denominator s, the mistakes row over 1 ------------------------------------- *)
Lemma b2f_zf1 : forall b : bool, b2f b = zf 1 (if b then 1 else 0).
Proof. intros []; unfold b2f, zf; rewrite qz_1; reflexivity. Qed.

Lemma fge_zf : forall s a b, fge (zf s a) (zf s b) = (b <=? a).
Proof. intros. unfold zf. apply fge_qz. Qed.

Lemma fadd_zf_q : forall s a b, fadd (zf s a) (Fq (qz s b)) = zf s (a + b).
Proof. intros. apply fadd_zf. Qed.

Lemma one_qz : (1 # 1)%Q = qz 1 1.
Proof. reflexivity. Qed.

(* ---- one step of the two tables, by index ---------------------------------------------------------------- *)
Section Step.
  Variables (ci cd cs : Z) (R H : nat).
  Variables (rcol hcol lcol mcol : nat -> Z) (hlen k : nat).

  Let r := map rcol (seq 0 R).
  Let h := map hcol (seq 0 H).
  Let last := map lcol (seq 0 (S R)).
  Let lastm := map mcol (seq 0 (S R)).

  Definition im : Z := if (k <=? hlen)%nat then 1 else 0.                      (* ins_mask *)
  Definition ne (j : nat) : Z := if rcol j =? hcol (k - 1)%nat then 0 else 1.  (* neq_mask *)

  (* row / mistakes after `row[1:] = where(pick_sub, sub_row, row[1:])`, `mistakes[1:] = where(pick_sub, msub_row, ..)` *)
  Definition cx (i : nat) : Z :=
    match i with
    | O => lcol 0%nat + ci * im
    | S i' => if lcol i' + cs * ne i' <=? lcol (S i') + ci * im then lcol i' + cs * ne i' else lcol (S i') + ci * im
    end.
  Definition cm (i : nat) : Z :=
    match i with
    | O => mcol 0%nat + im
    | S i' => if lcol i' + cs * ne i' <=? lcol (S i') + ci * im then mcol i' + ne i' else mcol (S i') + im
    end.

  (* the float expressions the interpreted body leaves at entry i of the two tables before the deletion loop *)
  Lemma zf_if : forall s (b : bool) u v, (if b then zf s u else zf s v) = zf s (if b then u else v).
  Proof. intros s [] u v; reflexivity. Qed.

  Lemma cx_src : forall s i,
    match i with
    | O => fadd (zf s (lcol 0%nat)) (fmul (Fq (qz s ci)) (b2f (Z.of_nat hlen >=? Z.of_nat k)%Z))
    | S i' =>
        if fge (fadd (zf s (lcol (S i'))) (fmul (Fq (qz s ci)) (b2f (Z.of_nat hlen >=? Z.of_nat k)%Z)))
               (fadd (zf s (lcol i')) (fmul (Fq (qz s cs)) (b2f (negb (rcol i' =? hcol (k - 1)%nat)%Z))))
        then fadd (zf s (lcol i')) (fmul (Fq (qz s cs)) (b2f (negb (rcol i' =? hcol (k - 1)%nat)%Z)))
        else fadd (zf s (lcol (S i'))) (fmul (Fq (qz s ci)) (b2f (Z.of_nat hlen >=? Z.of_nat k)%Z))
    end = zf s (cx i).
  Proof.
    intros s i. unfold cx, im, ne.
    replace (Z.of_nat hlen >=? Z.of_nat k)%Z with (k <=? hlen)%nat by lia.
    destruct i as [|i']; rewrite !fmul_zf_b2f, !fadd_zf, ?fge_zf, ?zf_if; [reflexivity|].
    destruct (rcol i' =? hcol (k - 1)%nat); reflexivity.
  Qed.

  Lemma cm_src : forall s i,
    match i with
    | O => fadd (zf 1 (mcol 0%nat)) (b2f (Z.of_nat hlen >=? Z.of_nat k)%Z)
    | S i' =>
        if fge (fadd (zf s (lcol (S i'))) (fmul (Fq (qz s ci)) (b2f (Z.of_nat hlen >=? Z.of_nat k)%Z)))
               (fadd (zf s (lcol i')) (fmul (Fq (qz s cs)) (b2f (negb (rcol i' =? hcol (k - 1)%nat)%Z))))
        then fadd (zf 1 (mcol i')) (b2f (negb (rcol i' =? hcol (k - 1)%nat)%Z))
        else fadd (zf 1 (mcol (S i'))) (b2f (Z.of_nat hlen >=? Z.of_nat k)%Z)
    end = zf 1 (cm i).
  Proof.
    intros s i. unfold cm, im, ne.
    replace (Z.of_nat hlen >=? Z.of_nat k)%Z with (k <=? hlen)%nat by lia.
    destruct i as [|i']; rewrite ?fmul_zf_b2f, !b2f_zf1, !fadd_zf, ?fge_zf, ?zf_if; [reflexivity|].
    destruct (rcol i' =? hcol (k - 1)%nat); reflexivity.
  Qed.

  Hypothesis Hk : (1 <= k <= H)%nat.

  Lemma body_lists :
    Model.body ci cd cs r (nth (k - 1) h 0) im (last, lastm) =
    (map (fun i => fst (sw cd cx cm i)) (seq 0 (S R)), map (fun i => snd (sw cd cx cm i)) (seq 0 (S R))).
  Proof.
    unfold Model.body. cbv zeta.
    set (tok := nth (k - 1) h 0).
    set (neq_mask := map (fun a => if a =? tok then 0 else 1) r).
    set (row := map (fun x => x + ci * im) last).
    set (sub_row := Model.map2 (fun x m => x + cs * m) (removelast last) neq_mask).
    set (pick := Model.map2 (fun a b => b <=? a) (tl row) sub_row).
    set (mist := map (fun x => x + im) lastm).
    set (msub := Model.map2 (fun x m => x + m) (removelast lastm) neq_mask).
    assert (Htok : tok = hcol (k - 1)%nat) by (unfold tok, h; rewrite Proofs.nth_map_seq by lia; reflexivity).
    assert (Ll : length last = S R) by (unfold last; now rewrite map_length, seq_length).
    assert (Lm : length lastm = S R) by (unfold lastm; now rewrite map_length, seq_length).
    assert (Lr : length row = S R) by (unfold row; now rewrite map_length).
    assert (Lmi : length mist = S R) by (unfold mist; now rewrite map_length).
    assert (Ln : length neq_mask = R) by (unfold neq_mask, r; now rewrite !map_length, seq_length).
    assert (Ls : length sub_row = R).
    { unfold sub_row. rewrite Proofs.map2_length, Proofs.length_removelast, Ll, Ln. lia. }
    assert (Lms : length msub = R).
    { unfold msub. rewrite Proofs.map2_length, Proofs.length_removelast, Lm, Ln. lia. }
    assert (Lp : length pick = R).
    { unfold pick. rewrite Proofs.map2_length, Proofs.length_tl, Lr, Ls. lia. }
    assert (Nne : forall j, (j < R)%nat -> nth j neq_mask 0 = ne j).
    { intros j Hj. unfold neq_mask. rewrite (Proofs.nth_map_lt (fun a => if a =? tok then 0 else 1) r j 0 0)
        by (unfold r; rewrite map_length, seq_length; lia).
      unfold r. rewrite Proofs.nth_map_seq by lia. cbn [Nat.add]. rewrite Htok. reflexivity. }
    assert (Nrow : forall j, (j < S R)%nat -> nth j row 0 = lcol j + ci * im).
    { intros j Hj. unfold row. rewrite (Proofs.nth_map_lt (fun x => x + ci * im) last j 0 0) by lia.
      unfold last. rewrite Proofs.nth_map_seq by lia. reflexivity. }
    assert (Nmist : forall j, (j < S R)%nat -> nth j mist 0 = mcol j + im).
    { intros j Hj. unfold mist. rewrite (Proofs.nth_map_lt (fun x => x + im) lastm j 0 0) by lia.
      unfold lastm. rewrite Proofs.nth_map_seq by lia. reflexivity. }
    assert (Nsub : forall j, (j < R)%nat -> nth j sub_row 0 = lcol j + cs * ne j).
    { intros j Hj. unfold sub_row.
      rewrite (Proofs.nth_map2 (fun x m => x + cs * m) (removelast last) neq_mask j 0 0 0)
        by (rewrite ?Proofs.length_removelast, ?Ll, ?Ln; lia).
      rewrite Proofs.nth_removelast by (rewrite Ll; lia). rewrite Nne by exact Hj.
      unfold last. rewrite Proofs.nth_map_seq by lia. reflexivity. }
    assert (Nmsub : forall j, (j < R)%nat -> nth j msub 0 = mcol j + ne j).
    { intros j Hj. unfold msub.
      rewrite (Proofs.nth_map2 (fun x m => x + m) (removelast lastm) neq_mask j 0 0 0)
        by (rewrite ?Proofs.length_removelast, ?Lm, ?Ln; lia).
      rewrite Proofs.nth_removelast by (rewrite Lm; lia). rewrite Nne by exact Hj.
      unfold lastm. rewrite Proofs.nth_map_seq by lia. reflexivity. }
    assert (Npick : forall j, (j < R)%nat -> nth j pick false = (lcol j + cs * ne j <=? lcol (S j) + ci * im)).
    { intros j Hj. unfold pick.
      rewrite (Proofs.nth_map2 (fun a b => b <=? a) (tl row) sub_row j 0 0 false)
        by (rewrite ?Proofs.length_tl, ?Lr, ?Ls; lia).
      rewrite Proofs.nth_tl, Nrow, Nsub by lia. reflexivity. }
    assert (E1 : hd 0 row :: Model.where3 pick sub_row (tl row) = map cx (seq 0 (S R))).
    { apply (nth_ext _ _ 0 0).
      - cbn [length]. rewrite ProofsModel.where3_length, Lp, Ls, Proofs.length_tl, Lr, map_length, seq_length. lia.
      - intros i Hi. cbn [length] in Hi. rewrite ProofsModel.where3_length, Lp, Ls, Proofs.length_tl, Lr in Hi.
        rewrite (Proofs.nth_map_seq cx 0 (S R) i 0) by lia. cbn [Nat.add].
        destruct i as [|i']; cbn [nth cx].
        + rewrite Proofs.hd_nth0. apply Nrow. lia.
        + rewrite ProofsModel.nth_where3 by (rewrite ?Proofs.length_tl; lia).
          rewrite Npick, Nsub, Proofs.nth_tl, Nrow by lia. reflexivity. }
    assert (E2 : hd 0 mist :: Model.where3 pick msub (tl mist) = map cm (seq 0 (S R))).
    { apply (nth_ext _ _ 0 0).
      - cbn [length]. rewrite ProofsModel.where3_length, Lp, Lms, Proofs.length_tl, Lmi, map_length, seq_length. lia.
      - intros i Hi. cbn [length] in Hi. rewrite ProofsModel.where3_length, Lp, Lms, Proofs.length_tl, Lmi in Hi.
        rewrite (Proofs.nth_map_seq cm 0 (S R) i 0) by lia. cbn [Nat.add].
        destruct i as [|i']; cbn [nth cm].
        + rewrite Proofs.hd_nth0. apply Nmist. lia.
        + rewrite ProofsModel.nth_where3 by (rewrite ?Proofs.length_tl; lia).
          rewrite Npick, Nmsub, Proofs.nth_tl, Nmist by lia. reflexivity. }
    rewrite E1, E2. apply del_sweep_sw.
  Qed.

  (* one entry of each table after the step *)
  Lemma step_rm_fst : forall i, (i < S R)%nat ->
    nth i (fst (Model.step_rm ci cd cs r h hlen false k (last, lastm))) 0 =
    if (k - 1 <? hlen)%nat then fst (sw cd cx cm i) else lcol i.
  Proof.
    intros i Hi. unfold Model.step_rm. cbv zeta. fold im.
    destruct (k - 1 <? hlen)%nat.
    - rewrite body_lists. cbn [fst]. rewrite Proofs.nth_map_seq by exact Hi. reflexivity.
    - cbn [fst]. unfold last. rewrite Proofs.nth_map_seq by exact Hi. reflexivity.
  Qed.

  Lemma step_rm_snd : forall i, (i < S R)%nat ->
    nth i (snd (Model.step_rm ci cd cs r h hlen false k (last, lastm))) 0 =
    if (k - 1 <? hlen)%nat then snd (sw cd cx cm i) else mcol i.
  Proof.
    intros i Hi. unfold Model.step_rm. cbv zeta. fold im.
    destruct (k - 1 <? hlen)%nat.
    - rewrite body_lists. cbn [snd]. rewrite Proofs.nth_map_seq by exact Hi. reflexivity.
    - cbn [snd]. unfold lastm. rewrite Proofs.nth_map_seq by exact Hi. reflexivity.
  Qed.

  Lemma step_rm_lengths :
    length (fst (Model.step_rm ci cd cs r h hlen false k (last, lastm))) = S R /\
    length (snd (Model.step_rm ci cd cs r h hlen false k (last, lastm))) = S R.
  Proof.
    unfold Model.step_rm. cbv zeta. fold im. destruct (k - 1 <? hlen)%nat.
    - rewrite body_lists. cbn [fst snd]. now rewrite !map_length, seq_length.
    - cbn [fst snd]. unfold last, lastm. now rewrite !map_length, seq_length.
  Qed.
End Step.

(* ---- the tables of the model as an iteration -------------------------------------------------------------------- *)
Fixpoint iter_rm (ci cd cs : Z) (r h : list Z) (hlen : nat) (fuel k : nat) (st : list Z * list Z) : list Z * list Z :=
  match fuel with
  | O => st
  | S f => iter_rm ci cd cs r h hlen f (S k) (Model.step_rm ci cd cs r h hlen false k st)
  end.

Lemma iter_rm_loop : forall ci cd cs r h hlen fuel k st,
  iter_rm ci cd cs r h hlen fuel k st = List.last (Model.rm_loop ci cd cs r h hlen false fuel k st) st.
Proof.
  intros ci cd cs r h hlen fuel. induction fuel as [|f IH]; intros k st; [reflexivity|].
  cbn [iter_rm Model.rm_loop]. rewrite IH, last_cons. reflexivity.
Qed.

Lemma iter_rm_all : forall ci cd cs r h hlen steps,
  iter_rm ci cd cs r h hlen steps 1 (Model.state0 cd r) = List.last (Model.all_rm ci cd cs r h hlen false steps) ([], []).
Proof. intros. rewrite iter_rm_loop. unfold Model.all_rm. now rewrite last_cons. Qed.

(* ---- the deletion loop after it has passed position j: positions <= j updated, the others as before ------------ *)
Definition swp (cd : Z) (x m : nat -> Z) (j i : nat) : Z * Z :=
  if (i <=? j)%nat then sw cd x m i else (x i, m i).

Lemma swp_0 : forall cd x m i, swp cd x m 0 i = (x i, m i).
Proof. intros. unfold swp. destruct i; reflexivity. Qed.

Lemma swp_full : forall cd x m j i, (i <= j)%nat -> swp cd x m j i = sw cd x m i.
Proof. intros. unfold swp. now replace (i <=? j)%nat with true by lia. Qed.

Lemma swp_step_fst : forall cd x m j i,
  (if (i =? S j)%nat
   then (if fst (swp cd x m j (S j)) <=? fst (swp cd x m j j) + cd then fst (swp cd x m j (S j)) else fst (swp cd x m j j) + cd)
   else fst (swp cd x m j i)) = fst (swp cd x m (S j) i).
Proof.
  intros. unfold swp. rewrite Nat.leb_refl. replace (S j <=? j)%nat with false by lia. cbn [fst].
  destruct (Nat.eqb_spec i (S j)) as [->|Hne].
  - rewrite Nat.leb_refl. cbn [sw]. cbv zeta. destruct (x (S j) <=? fst (sw cd x m j) + cd); reflexivity.
  - destruct (i <=? j)%nat eqn:E1, (i <=? S j)%nat eqn:E2; try reflexivity; lia.
Qed.

Lemma swp_step_snd : forall cd x m j i,
  (if (i =? S j)%nat
   then (if fst (swp cd x m j (S j)) <=? fst (swp cd x m j j) + cd then snd (swp cd x m j (S j)) else snd (swp cd x m j j) + 1)
   else snd (swp cd x m j i)) = snd (swp cd x m (S j) i).
Proof.
  intros. unfold swp. rewrite Nat.leb_refl. replace (S j <=? j)%nat with false by lia. cbn [fst snd].
  destruct (Nat.eqb_spec i (S j)) as [->|Hne].
  - rewrite Nat.leb_refl. cbn [sw]. cbv zeta. destruct (x (S j) <=? fst (sw cd x m j) + cd); reflexivity.
  - destruct (i <=? j)%nat eqn:E1, (i <=? S j)%nat eqn:E2; try reflexivity; lia.
Qed.
