(* MiniTorch, unit C06BSrc — algebra of the operations the second C06 tie needs on TABULATED tensors (T1 / T2 of
   LemmasC06): transpose, masked_select, view of the per-element window selection; iteration over a 1-D tensor;
   concatenation of a list of pieces.  No new semantics here; no axioms. *)
From Coq Require Import List ZArith QArith Bool Arith Lia ZifyBool ZifyNat.
From PV Require Import MiniTorch.OpsC06 MiniTorch.LemmasC06 MiniTorch.OpsC06B.
Import ListNotations.

(* ---- rows of a flat_map ---- *)
Lemma chunk6_flat_map {X A} (f : X -> list A) (m : nat) : forall (l : list X),
  (forall e, In e l -> length (f e) = m) -> chunk6 (length l) m (flat_map f l) = map f l.
Proof.
  induction l as [|e l IH]; intros H; [reflexivity|]. cbn [length chunk6 flat_map map].
  rewrite firstn_app, firstn_all2 by (rewrite H; [lia|left; reflexivity]).
  rewrite H by (left; reflexivity). rewrite Nat.sub_diag, firstn_O, app_nil_r.
  rewrite skipn_app, skipn_all2 by (rewrite H; [lia|left; reflexivity]).
  rewrite H by (left; reflexivity). rewrite Nat.sub_diag, skipn_O. cbn [app].
  rewrite IH by (intros; apply H; right; assumption). reflexivity.
Qed.

Lemma flat_map_ext_in {X A} (f g : X -> list A) (l : list X) :
  (forall e, In e l -> f e = g e) -> flat_map f l = flat_map g l.
Proof.
  induction l as [|e l IH]; intros H; [reflexivity|]. cbn [flat_map].
  rewrite (H e) by (left; reflexivity). rewrite IH by (intros; apply H; right; assumption). reflexivity.
Qed.

Lemma flat_map_map {X W A} (g : W -> X) (f : X -> list A) (l : list W) :
  flat_map f (map g l) = flat_map (fun w => f (g w)) l.
Proof. induction l as [|w l IH]; [reflexivity|]. cbn. rewrite IH. reflexivity. Qed.

(* columns by position = columns by label *)
Lemma columns_by_index {X Y} (c0 : cell) (l : list X) : forall (ks : list Y) (F : X -> Y -> cell),
  flat_map (fun j => map (fun e => nth j (map (F e) ks) c0) l) (seq 0 (length ks))
  = flat_map (fun k => map (fun e => F e k) l) ks.
Proof.
  induction ks as [|k ks IH]; intros F; [reflexivity|].
  cbn [length seq flat_map]. f_equal.
  rewrite <- seq_shift, flat_map_map. cbn [map nth]. apply IH.
Qed.

(* Tensor.T of a tabulated 2-D tensor *)
Lemma transpose_T2 {X Y} (l : list X) (ks : list Y) (F : X -> Y -> cell) :
  transpose (T2 l ks F) = Some (T2 ks l (fun k e => F e k)).
Proof.
  unfold transpose, T2. cbn [sh6 dt6]. f_equal. f_equal.
  rewrite (chunk6_flat_map (fun e => map (F e) ks) (length ks)) by (intros; apply map_length).
  rewrite <- (columns_by_index (CI 0) l ks F). apply flat_map_ext_in. intros j _. rewrite map_map. reflexivity.
Qed.

(* ---- masked_select, row by row ---- *)
Lemma msel_map {Y} (F : Y -> cell) (m : Y -> bool) (ks : list Y) :
  msel (map F ks) (map (fun k => CB (m k)) ks) = Some (map F (filter m ks)).
Proof.
  induction ks as [|k ks IH]; [reflexivity|]. cbn [map msel filter]. rewrite IH. cbn [option_map].
  destruct (m k); reflexivity.
Qed.

Lemma msel_app (a1 a2 b1 b2 r1 r2 : list cell) :
  msel a1 b1 = Some r1 -> msel a2 b2 = Some r2 -> msel (a1 ++ a2) (b1 ++ b2) = Some (r1 ++ r2).
Proof.
  revert b1 r1. induction a1 as [|x a1 IH]; intros b1 r1 H1 H2.
  - destruct b1; [|discriminate H1]. injection H1 as <-. exact H2.
  - destruct b1 as [|[z|bb|f] b1]; try discriminate H1. cbn [msel app] in *.
    destruct (msel a1 b1) as [r|] eqn:E; [|discriminate H1]. cbn [option_map] in H1. injection H1 as <-.
    rewrite (IH b1 r E H2). cbn [option_map]. destruct bb; reflexivity.
Qed.

Lemma masked_select_T2 {X Y} (l : list X) (ks : list Y) (F : X -> Y -> cell) (m : X -> Y -> bool) :
  masked_select (T2 l ks F) (T2 l ks (fun e k => CB (m e k)))
  = Some (let d := flat_map (fun e => map (F e) (filter (m e) ks)) l in T6 [length d] d).
Proof.
  unfold masked_select, T2. cbn [sh6 dt6]. rewrite shape_eqb_refl.
  assert (H : msel (flat_map (fun e => map (F e) ks) l) (flat_map (fun e => map (fun k => CB (m e k)) ks) l)
              = Some (flat_map (fun e => map (F e) (filter (m e) ks)) l)).
  { induction l as [|e l IH]; [reflexivity|]. cbn [flat_map]. apply msel_app; [apply msel_map|exact IH]. }
  rewrite H. reflexivity.
Qed.

(* a flat tensor of B*m cells seen as (B, m) *)
Lemma view_T2 {X Y} (l : list X) (ks : list Y) (F : X -> Y -> cell) :
  let d := flat_map (fun e => map (F e) ks) l in
  view (T6 [length d] d) [Z.of_nat (length l); Z.of_nat (length ks)] = Some (T2 l ks F).
Proof.
  cbv zeta. unfold view, T2. cbn [nats_of]. replace (0 <=? Z.of_nat (length l))%Z with true by lia.
  replace (0 <=? Z.of_nat (length ks))%Z with true by lia. cbn [option_map numel sh6 dt6 prodn fold_right].
  rewrite !Nat2Z.id, T2_data_length.
  replace (length l * (length ks * 1) =? length l * length ks * 1)%nat with true by lia. reflexivity.
Qed.

(* ---- column vectors ---- *)
Lemma map_cells_TC {X} (l : list X) f (F G : X -> cell) :
  (forall e, In e l -> f (F e) = Some (G e)) -> map_cells f (TC l F) = Some (TC l G).
Proof.
  intros H. unfold map_cells, TC. cbn [sh6 dt6]. rewrite map_map.
  rewrite (sequence_map_ext (fun e => f (F e)) G l H). reflexivity.
Qed.

(* ---- a vector as a tabulation of its positions ---- *)
Lemma map_nth_positions {A C} (f : A -> C) (d : A) (xs : list A) :
  map f xs = map (fun i => f (nth i xs d)) (seq 0 (length xs)).
Proof.
  induction xs as [|x xs IH]; [reflexivity|]. cbn [length seq map nth]. f_equal.
  rewrite <- seq_shift, map_map. exact IH.
Qed.

Lemma T1_positions {A} (F : A -> cell) (d : A) (xs : list A) :
  T1 xs F = T1 (seq 0 (length xs)) (fun i => F (nth i xs d)).
Proof. unfold T1. rewrite seq_length, <- (map_nth_positions F d xs). reflexivity. Qed.

(* ---- `for x in t` over a 1-D tensor ---- *)
Lemma iter0_T1 {X} (l : list X) (F : X -> cell) : iter0 (T1 l F) = Some (map (fun e => T6 [] [F e]) l).
Proof.
  unfold iter0, T1. cbn [sh6].
  rewrite (sequence_map_ext _ (fun i => T6 [] [nth i (map F l) (CI 0)])).
  - f_equal. rewrite <- (map_length F l). rewrite <- (map_nth_positions (fun c => T6 [] [c]) (CI 0) (map F l)).
    rewrite map_map. reflexivity.
  - intros i Hi. apply in_seq in Hi. unfold select0. cbn [sh6 dt6 prodn fold_right].
    replace (Z.of_nat i <? 0)%Z with false by lia.
    replace ((0 <=? Z.of_nat i)%Z && (Z.of_nat i <? Z.of_nat (length l))%Z) with true by lia.
    rewrite Nat2Z.id, Nat.mul_1_r. f_equal. f_equal.
    assert (Hl : (i < length (map F l))%nat) by (rewrite map_length; lia).
    revert Hl. generalize (map F l). clear. intros d. revert i.
    induction d as [|x d IH]; intros i Hl; cbn [length] in Hl; [lia|].
    destruct i as [|i]; [reflexivity|]. cbn [skipn nth]. apply IH. lia.
Qed.

(* ---- concatenating a list of pieces along dimension 0 ---- *)
Lemma cat_rows_snoc (rest : list nat) : forall (ts : list tens6) (t : tens6) n d k,
  cat_rows rest ts = Some (n, d) -> sh6 t = k :: rest ->
  cat_rows rest (ts ++ [t]) = Some ((n + k)%nat, d ++ dt6 t).
Proof.
  induction ts as [|u ts IH]; intros t n d k H Ht.
  - cbn [cat_rows] in H. injection H as <- <-. cbn [app cat_rows]. rewrite Ht, shape_eqb_refl.
    cbn [option_map fst snd]. rewrite Nat.add_0_r, app_nil_r. reflexivity.
  - cbn [app cat_rows] in *. destruct (sh6 u) as [|nu ru]; [discriminate H|].
    destruct (shape_eqb rest ru); [|discriminate H].
    destruct (cat_rows rest ts) as [[n' d']|] eqn:E; [|discriminate H]. cbn [option_map fst snd] in H.
    injection H as <- <-. rewrite (IH t n' d' k eq_refl Ht). cbn [option_map fst snd].
    rewrite Nat.add_assoc, app_assoc. reflexivity.
Qed.

Lemma cat0_head (e : tens6) (ts : list tens6) k rest n d :
  sh6 e = k :: rest -> cat_rows rest (e :: ts) = Some (n, d) -> cat0 (e :: ts) = Some (T6 (n :: rest) d).
Proof. intros He H. unfold cat0. rewrite He, H. reflexivity. Qed.
