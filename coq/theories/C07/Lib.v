(* C07 - generic list lemmas used by the proofs. *)
From Coq Require Import List ZArith Bool Arith Lia.
From PV Require Import C07.Model.
Import ListNotations.

Lemma map2_length {X Y W} (f : X -> Y -> W) l1 l2 :
  length (map2 f l1 l2) = Nat.min (length l1) (length l2).
Proof.
  revert l2; induction l1 as [|x t IH]; intros [|y t2]; cbn; try reflexivity.
  now rewrite IH.
Qed.

Lemma map2_nth {X Y W} (f : X -> Y -> W) l1 l2 n dx dy dw :
  n < length l1 -> n < length l2 ->
  nth n (map2 f l1 l2) dw = f (nth n l1 dx) (nth n l2 dy).
Proof.
  revert l2 n; induction l1 as [|x t IH]; intros [|y t2] n H1 H2; cbn in *; try lia.
  destruct n; [reflexivity|]. apply IH; lia.
Qed.

Lemma map3_length {X Y U W} (f : X -> Y -> U -> W) l1 l2 l3 :
  length (map3 f l1 l2 l3) = Nat.min (length l1) (Nat.min (length l2) (length l3)).
Proof.
  revert l2 l3; induction l1 as [|x t IH]; intros [|y t2] [|u t3]; cbn; try reflexivity.
  now rewrite IH.
Qed.

Lemma map3_nth {X Y U W} (f : X -> Y -> U -> W) l1 l2 l3 n dx dy du dw :
  n < length l1 -> n < length l2 -> n < length l3 ->
  nth n (map3 f l1 l2 l3) dw = f (nth n l1 dx) (nth n l2 dy) (nth n l3 du).
Proof.
  revert l2 l3 n; induction l1 as [|x t IH]; intros [|y t2] [|u t3] n H1 H2 H3; cbn in *; try lia.
  destruct n; [reflexivity|]. apply IH; lia.
Qed.

Lemma map2_map_l {X X' Y W} (f : X' -> Y -> W) (g : X -> X') l1 l2 :
  map2 f (map g l1) l2 = map2 (fun x y => f (g x) y) l1 l2.
Proof.
  revert l2; induction l1 as [|x t IH]; intros [|y t2]; cbn; try reflexivity.
  now rewrite IH.
Qed.

Lemma map2_map_r {X Y Y' W} (f : X -> Y' -> W) (g : Y -> Y') l1 l2 :
  map2 f l1 (map g l2) = map2 (fun x y => f x (g y)) l1 l2.
Proof.
  revert l2; induction l1 as [|x t IH]; intros [|y t2]; cbn; try reflexivity.
  now rewrite IH.
Qed.

Lemma map2_ext_in {X Y W} (f g : X -> Y -> W) l1 l2 :
  (forall n dx dy, n < length l1 -> n < length l2 -> f (nth n l1 dx) (nth n l2 dy) = g (nth n l1 dx) (nth n l2 dy)) ->
  map2 f l1 l2 = map2 g l1 l2.
Proof.
  revert l2; induction l1 as [|x t IH]; intros [|y t2] H; cbn; try reflexivity.
  f_equal.
  - apply (H 0 x y); cbn; lia.
  - apply IH. intros n dx dy H1 H2. apply (H (S n) dx dy); cbn; lia.
Qed.

Lemma map2_same {X W} (f : X -> X -> W) l : map2 f l l = map (fun x => f x x) l.
Proof. induction l as [|x t IH]; cbn; [reflexivity|now rewrite IH]. Qed.

Lemma map2_app {X Y W} (f : X -> Y -> W) a1 b1 a2 b2 :
  length a1 = length a2 ->
  map2 f (a1 ++ b1) (a2 ++ b2) = map2 f a1 a2 ++ map2 f b1 b2.
Proof.
  revert a2; induction a1 as [|x t IH]; intros [|y t2] H; cbn in *; try lia; [reflexivity|].
  f_equal. apply IH. lia.
Qed.

Lemma nth_nil {X} n (d : X) : nth n [] d = d.
Proof. destruct n; reflexivity. Qed.

Lemma column_nth {X} (d : X) b m r : nth r (column d b m) d = nth b (nth r m []) d.
Proof.
  unfold column.
  rewrite <- (nth_nil b d) at 1.
  exact (map_nth (fun row => nth b row d) m [] r).
Qed.

Lemma column_length {X} (d : X) b m : length (column d b m) = length m.
Proof. apply map_length. Qed.

Lemma column_app {X} (d : X) b m1 m2 : column d b (m1 ++ m2) = column d b m1 ++ column d b m2.
Proof. apply map_app. Qed.

Lemma seq_snoc s n : seq s (S n) = seq s n ++ [s + n].
Proof. rewrite <- Nat.add_1_r at 1. rewrite seq_app. reflexivity. Qed.

Lemma firstn_app_exact {X} (a b : list X) : firstn (length a) (a ++ b) = a.
Proof. rewrite firstn_app, Nat.sub_diag, firstn_all; cbn. apply app_nil_r. Qed.

Lemma firstn_app_le {X} n (a b : list X) : n <= length a -> firstn n (a ++ b) = firstn n a.
Proof.
  intros H. rewrite firstn_app. replace (n - length a) with 0 by lia. cbn. apply app_nil_r.
Qed.

Lemma nth_map_seq {X} (f : nat -> X) N n d : n < N -> nth n (map f (seq 0 N)) d = f n.
Proof.
  intros H. rewrite (nth_indep _ d (f 0)) by (now rewrite map_length, seq_length).
  rewrite map_nth, seq_nth by exact H. reflexivity.
Qed.

Lemma nth_map' {X Y} (f : X -> Y) l n dx dy : n < length l -> nth n (map f l) dy = f (nth n l dx).
Proof.
  intros H. rewrite (nth_indep _ dy (f dx)) by (now rewrite map_length). apply map_nth.
Qed.

Lemma list_eq_map_nth {X} (d : X) l : l = map (fun n => nth n l d) (seq 0 (length l)).
Proof.
  apply (nth_ext _ _ d d); [now rewrite map_length, seq_length|].
  intros n Hn. rewrite nth_map_seq by exact Hn. reflexivity.
Qed.

Lemma nth_firstn_lt {X} (d : X) : forall l n j, j < n -> nth j (firstn n l) d = nth j l d.
Proof.
  induction l as [|x l IH]; intros n j H; [now rewrite firstn_nil|].
  destruct n; [lia|]. destruct j; [reflexivity|]. cbn. apply IH. lia.
Qed.
