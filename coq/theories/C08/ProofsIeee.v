(* C08 - the [ieee] arithmetic of the correspondence (round to nearest even, 24 / 53
   significant bits, unbounded exponent) satisfies the rounding laws of ProofsRound.v.
   Hence the mask bounds proved there hold of the very function that is compared bit for
   bit with torch: for every float32 variate u <= 1 - 2^-24, floor(RN(u * RN(M + RN(1-eps))))
   <= M, including eps = 2^-52 (float64 features), where RN(1 - eps) = 1. *)
From Coq Require Import List ZArith QArith Qround Qabs Qpower Bool Lia Lqa.
From PV Require Import C08.Model C08.Spec C08.ProofsDraw C08.ProofsRound.
Import ListNotations.
Local Open Scope Q_scope.

(* ---- powers of two -------------------------------------------------------------- *)
Lemma pow2_Qpower : forall e, pow2 e == 2 ^ e.
Proof.
  intros [|p|p]; unfold pow2.
  - reflexivity.
  - change (Z.pow_pos 2 p) with (2 ^ Z.pos p)%Z. rewrite Zpower_Qpower by lia. reflexivity.
  - change (2 ^ Z.neg p) with (/ (2 ^ Z.pos p)).
    assert (E : 2 ^ Z.pos p == inject_Z (Z.pos (2 ^ p))).
    { rewrite Pos2Z.inj_pow. rewrite Zpower_Qpower by lia. reflexivity. }
    rewrite E. reflexivity.
Qed.

Lemma two_nz : ~ 2 == 0.
Proof. intro H. discriminate H. Qed.

Lemma pow2_pos : forall e, 0 < pow2 e.
Proof. intro e. rewrite pow2_Qpower. apply Qpower_0_lt. reflexivity. Qed.

Lemma pow2_add : forall a b, pow2 (a + b) == pow2 a * pow2 b.
Proof. intros. rewrite !pow2_Qpower. apply Qpower_plus, two_nz. Qed.

Lemma pow2_le : forall a b, (a <= b)%Z -> pow2 a <= pow2 b.
Proof. intros. rewrite !pow2_Qpower. apply Qpower_le_compat_l; [assumption|discriminate]. Qed.

Lemma pow2_lt : forall a b, (a < b)%Z -> pow2 a < pow2 b.
Proof. intros. rewrite !pow2_Qpower. apply Qpower_lt_compat_l; [assumption|reflexivity]. Qed.

Lemma pow2_lt_inv : forall a b, pow2 a < pow2 b -> (a < b)%Z.
Proof. intros a b H. rewrite !pow2_Qpower in H. apply (Qpower_lt_compat_l_inv 2); [exact H|reflexivity]. Qed.

Lemma pow2_int : forall e, (0 <= e)%Z -> pow2 e == inject_Z (2 ^ e).
Proof. intros e H. rewrite pow2_Qpower, Zpower_Qpower by exact H. reflexivity. Qed.

Lemma pow2_0 : pow2 0 == 1.
Proof. reflexivity. Qed.

Lemma pow2_succ : forall e, pow2 (e + 1) == 2 * pow2 e.
Proof. intro e. rewrite pow2_add. change (pow2 1) with 2. ring. Qed.

(* ---- floor(log2 x) ------------------------------------------------------------------ *)
Lemma qlog2_spec : forall x, 0 < x -> pow2 (qlog2 x) <= x /\ x < pow2 (qlog2 x + 1).
Proof.
  intros [n d] Hx.
  assert (Hn : (0 < n)%Z) by (unfold Qlt in Hx; cbn in Hx; lia).
  set (x := n # d) in *.
  set (a := Z.log2 n). set (b := Z.log2 (Z.pos d)).
  destruct (Z.log2_spec n Hn) as [A1 A2]. destruct (Z.log2_spec (Z.pos d) (Pos2Z.is_pos d)) as [B1 B2].
  fold a in A1, A2. fold b in B1, B2.
  pose proof (Z.log2_nonneg n) as A0. pose proof (Z.log2_nonneg (Z.pos d)) as B0. fold a in A0. fold b in B0.
  set (N := inject_Z n). set (D := inject_Z (Z.pos d)).
  assert (XD : x * D == N) by (unfold x, D, N, Qeq, Qmult, inject_Z; cbn; lia).
  assert (Dpos : 0 < D) by (unfold D; change 0 with (inject_Z 0); rewrite <- Zlt_Qlt; lia).
  assert (NA1 : pow2 a <= N) by (rewrite pow2_int by lia; unfold N; rewrite <- Zle_Qle; exact A1).
  assert (NA2 : N < pow2 (a + 1)) by (rewrite pow2_int by lia; unfold N; rewrite <- Zlt_Qlt; exact A2).
  assert (DB1 : pow2 b <= D) by (rewrite pow2_int by lia; unfold D; rewrite <- Zle_Qle; exact B1).
  assert (DB2 : D < pow2 (b + 1)) by (rewrite pow2_int by lia; unfold D; rewrite <- Zlt_Qlt; exact B2).
  set (e := (a - b)%Z).
  assert (U : x < pow2 (e + 1)).
  { apply (Qmult_lt_r _ _ D Dpos). rewrite XD.
    assert (E : pow2 (a + 1) == pow2 (e + 1) * pow2 b) by (rewrite <- pow2_add; replace (e + 1 + b)%Z with (a + 1)%Z by (unfold e; lia); reflexivity).
    pose proof (pow2_pos (e + 1)). nra. }
  assert (L : pow2 (e - 1) < x).
  { apply (Qmult_lt_r _ _ D Dpos). rewrite XD.
    assert (E : pow2 a == pow2 (e - 1) * pow2 (b + 1)) by (rewrite <- pow2_add; replace (e - 1 + (b + 1))%Z with a by (unfold e; lia); reflexivity).
    pose proof (pow2_pos (e - 1)). nra. }
  unfold qlog2. change (Qnum x) with n. change (Qden x) with d. fold a b e.
  destruct (Qle_bool (pow2 e) x) eqn:C.
  - apply Qle_bool_iff in C. split; assumption.
  - split; [apply Qlt_le_weak; exact L|]. replace (e - 1 + 1)%Z with e by lia.
    apply Qnot_le_lt. intro H. apply Qle_bool_iff in H. congruence.
Qed.

Lemma qlog2_unique : forall x e, 0 < x -> pow2 e <= x -> x < pow2 (e + 1) -> qlog2 x = e.
Proof.
  intros x e Hx H1 H2. destruct (qlog2_spec x Hx) as [S1 S2].
  assert (A : (e < qlog2 x + 1)%Z) by (apply pow2_lt_inv; lra).
  assert (B : (qlog2 x < e + 1)%Z) by (apply pow2_lt_inv; lra).
  lia.
Qed.

Lemma qlog2_mono : forall x y, 0 < x -> x <= y -> (qlog2 x <= qlog2 y)%Z.
Proof.
  intros x y Hx Hxy. destruct (qlog2_spec x Hx) as [S1 _].
  destruct (qlog2_spec y ltac:(lra)) as [_ T2].
  assert (A : (qlog2 x < qlog2 y + 1)%Z) by (apply pow2_lt_inv; lra). lia.
Qed.

(* ---- nearest integer, ties to even ------------------------------------------------- *)
Lemma rne_bounds : forall x, x - (1 # 2) <= inject_Z (rne x) /\ inject_Z (rne x) <= x + (1 # 2).
Proof.
  intro x. unfold rne. pose proof (Qfloor_le x) as F1. pose proof (Qlt_floor x) as F2.
  rewrite inject_Z_plus in F2. change (inject_Z 1) with 1 in F2.
  set (f := Qfloor x) in *.
  destruct (Qcompare_spec (x - inject_Z f) (1 # 2)) as [E|E|E].
  - destruct (Z.even f); [|rewrite inject_Z_plus; change (inject_Z 1) with 1]; lra.
  - lra.
  - rewrite inject_Z_plus. change (inject_Z 1) with 1. lra.
Qed.

Lemma rne_int : forall n, rne (inject_Z n) = n.
Proof.
  intro n. unfold rne. rewrite Qfloor_Z.
  destruct (Qcompare_spec (inject_Z n - inject_Z n) (1 # 2)) as [E|E|E]; [lra|reflexivity|lra].
Qed.

Lemma rne_comp : forall x y, x == y -> rne x = rne y.
Proof.
  intros x y H. unfold rne. rewrite (Qfloor_comp x y H).
  assert (C : x - inject_Z (Qfloor y) == y - inject_Z (Qfloor y)) by (rewrite H; reflexivity).
  rewrite (Qcompare_comp _ _ C (1 # 2) (1 # 2) (Qeq_refl _)). reflexivity.
Qed.

Lemma rne_mono : forall x y, x <= y -> (rne x <= rne y)%Z.
Proof.
  intros x y H. pose proof (Qfloor_resp_le x y H) as Fm.
  pose proof (Qfloor_le x) as X1. pose proof (Qlt_floor x) as X2.
  pose proof (Qfloor_le y) as Y1. pose proof (Qlt_floor y) as Y2.
  rewrite inject_Z_plus in X2, Y2. change (inject_Z 1) with 1 in X2, Y2.
  unfold rne. set (fx := Qfloor x) in *. set (fy := Qfloor y) in *.
  destruct (Z.eq_dec fx fy) as [E|E].
  - rewrite E in *.
    destruct (Qcompare_spec (x - inject_Z fy) (1 # 2)) as [A|A|A];
    destruct (Qcompare_spec (y - inject_Z fy) (1 # 2)) as [B|B|B];
    try lia; try lra; destruct (Z.even fy); lia.
  - assert (fx + 1 <= fy)%Z by lia.
    destruct (Qcompare (x - inject_Z fx) (1 # 2)); destruct (Qcompare (y - inject_Z fy) (1 # 2));
      destruct (Z.even fx); destruct (Z.even fy); lia.
Qed.

(* ---- rounding a positive rational to p significant bits ---------------------------- *)
Section RnPos.
  Variable p : Z.
  Hypothesis p_pos : (1 <= p)%Z.

  Lemma scaled_range : forall x, 0 < x ->
    let k := (qlog2 x - p + 1)%Z in
    pow2 (p - 1) <= x / pow2 k /\ x / pow2 k < pow2 p /\ x / pow2 k * pow2 k == x.
  Proof.
    intros x Hx k. destruct (qlog2_spec x Hx) as [S1 S2]. pose proof (pow2_pos k) as Kp.
    assert (E : x / pow2 k * pow2 k == x) by (field; lra).
    assert (E1 : pow2 (qlog2 x) == pow2 (p - 1) * pow2 k)
      by (rewrite <- pow2_add; replace (p - 1 + k)%Z with (qlog2 x) by (unfold k; lia); reflexivity).
    assert (E2 : pow2 (qlog2 x + 1) == pow2 p * pow2 k)
      by (rewrite <- pow2_add; replace (p + k)%Z with (qlog2 x + 1)%Z by (unfold k; lia); reflexivity).
    repeat split; [| |exact E].
    - apply (Qmult_le_r _ _ (pow2 k) Kp). rewrite E, <- E1. exact S1.
    - apply (Qmult_lt_r _ _ (pow2 k) Kp). rewrite E, <- E2. exact S2.
  Qed.

  Lemma rn_pos_range : forall x, 0 < x ->
    pow2 (qlog2 x) <= rn_pos p x /\ rn_pos p x <= pow2 (qlog2 x + 1).
  Proof.
    intros x Hx. unfold rn_pos. set (k := (qlog2 x - p + 1)%Z).
    destruct (scaled_range x Hx) as [Q1 [Q2 _]]. fold k in Q1, Q2. pose proof (pow2_pos k) as Kp.
    assert (E1 : pow2 (qlog2 x) == pow2 (p - 1) * pow2 k)
      by (rewrite <- pow2_add; replace (p - 1 + k)%Z with (qlog2 x) by (unfold k; lia); reflexivity).
    assert (E2 : pow2 (qlog2 x + 1) == pow2 p * pow2 k)
      by (rewrite <- pow2_add; replace (p + k)%Z with (qlog2 x + 1)%Z by (unfold k; lia); reflexivity).
    rewrite (pow2_int (p - 1)) in Q1, E1 by lia. rewrite (pow2_int p) in Q2, E2 by lia.
    pose proof (rne_mono _ _ Q1) as R1. rewrite rne_int in R1.
    pose proof (rne_mono _ _ (Qlt_le_weak _ _ Q2)) as R2. rewrite rne_int in R2.
    rewrite Zle_Qle in R1, R2. rewrite E1, E2. split; apply Qmult_le_compat_r; lra.
  Qed.

  Lemma rn_pos_positive : forall x, 0 < x -> 0 < rn_pos p x.
  Proof. intros x Hx. destruct (rn_pos_range x Hx) as [A _]. pose proof (pow2_pos (qlog2 x)). lra. Qed.

  (* half an ulp of absolute error *)
  Lemma rn_pos_err : forall x, 0 < x ->
    let k := (qlog2 x - p + 1)%Z in
    x - pow2 k * (1 # 2) <= rn_pos p x /\ rn_pos p x <= x + pow2 k * (1 # 2).
  Proof.
    intros x Hx k. unfold rn_pos. fold k. destruct (scaled_range x Hx) as [_ [_ E]]. fold k in E.
    pose proof (pow2_pos k) as Kp. destruct (rne_bounds (x / pow2 k)) as [B1 B2].
    set (q := x / pow2 k) in *. set (r := inject_Z (rne q)) in *.
    split; nra.
  Qed.

  Lemma rn_pos_mono : forall x y, 0 < x -> x <= y -> rn_pos p x <= rn_pos p y.
  Proof.
    intros x y Hx Hxy. assert (Hy : 0 < y) by lra.
    pose proof (qlog2_mono x y Hx Hxy) as Lm.
    destruct (Z.eq_dec (qlog2 x) (qlog2 y)) as [E|E].
    - unfold rn_pos. rewrite E. set (k := (qlog2 y - p + 1)%Z). pose proof (pow2_pos k) as Kp.
      assert (Q : x / pow2 k <= y / pow2 k).
      { unfold Qdiv. apply Qmult_le_compat_r; [exact Hxy|]. apply Qlt_le_weak, Qinv_lt_0_compat, Kp. }
      pose proof (rne_mono _ _ Q) as R. rewrite Zle_Qle in R. apply Qmult_le_compat_r; lra.
    - destruct (rn_pos_range x Hx) as [_ A]. destruct (rn_pos_range y Hy) as [B _].
      pose proof (pow2_le (qlog2 x + 1) (qlog2 y) ltac:(lia)). lra.
  Qed.

  (* integers up to 2^p are representable *)
  Lemma rn_pos_int : forall z, (0 < z)%Z -> (z <= 2 ^ p)%Z -> rn_pos p (inject_Z z) == inject_Z z.
  Proof.
    intros z Hz Hzp.
    assert (Hx : 0 < inject_Z z) by (change 0 with (inject_Z 0); rewrite <- Zlt_Qlt; exact Hz).
    destruct (qlog2_spec _ Hx) as [S1 S2].
    set (e := qlog2 (inject_Z z)) in *.
    assert (Ep : (e <= p)%Z).
    { assert (A : (e < p + 1)%Z); [|lia]. apply pow2_lt_inv.
      assert (B : inject_Z z <= pow2 p) by (rewrite pow2_int by lia; rewrite <- Zle_Qle; exact Hzp).
      pose proof (pow2_lt p (p + 1) ltac:(lia)). lra. }
    assert (E0 : (0 <= e)%Z).
    { assert (A : (0 < e + 1)%Z); [|lia]. apply pow2_lt_inv.
      assert (B : 1 <= inject_Z z) by (change 1 with (inject_Z 1); rewrite <- Zle_Qle; lia).
      change (pow2 0) with 1. lra. }
    unfold rn_pos. fold e. set (k := (e - p + 1)%Z). pose proof (pow2_pos k) as Kp.
    destruct (Z_le_gt_dec k 0) as [K|K].
    - (* scaling by 2^(-k) keeps an integer *)
      assert (Q : inject_Z z / pow2 k == inject_Z (z * 2 ^ (- k))).
      { rewrite inject_Z_mult, <- (pow2_int (- k)) by lia.
        assert (I : pow2 k * pow2 (- k) == 1) by (rewrite <- pow2_add; replace (k + - k)%Z with 0%Z by lia; reflexivity).
        transitivity (inject_Z z * (pow2 k * pow2 (- k)) / pow2 k); [rewrite I; field; lra|field; lra]. }
      assert (R : rne (inject_Z z / pow2 k) = (z * 2 ^ (- k))%Z).
      { rewrite (rne_comp _ _ Q). apply rne_int. }
      rewrite R, <- Q. field. lra.
    - (* k = 1: z = 2^p *)
      assert (K1 : k = 1%Z) by (unfold k; lia). assert (Ee : e = p) by (unfold k in K1; lia).
      assert (Zp : z = (2 ^ p)%Z).
      { rewrite Ee in S1. rewrite pow2_int in S1 by lia. rewrite <- Zle_Qle in S1. lia. }
      rewrite K1. change (pow2 1) with 2.
      assert (Q : inject_Z z / 2 == inject_Z (2 ^ (p - 1))).
      { rewrite Zp. replace p with (p - 1 + 1)%Z at 1 by lia. rewrite Z.pow_add_r by lia.
        rewrite inject_Z_mult. change (inject_Z (2 ^ 1)) with 2. field. }
      assert (R : rne (inject_Z z / 2) = (2 ^ (p - 1))%Z).
      { rewrite (rne_comp _ _ Q). apply rne_int. }
      rewrite R, <- Q. field.
  Qed.
End RnPos.

(* ---- the signed rounding function ---------------------------------------------------- *)
Lemma rn_pos_case : forall p x, 0 < x -> rn p x == rn_pos p x.
Proof. intros p x H. unfold rn. destruct (Qcompare_spec x 0) as [E|E|E]; [lra|lra|apply Qred_correct]. Qed.
Lemma rn_neg_case : forall p x, x < 0 -> rn p x == - rn_pos p (- x).
Proof. intros p x H. unfold rn. destruct (Qcompare_spec x 0) as [E|E|E]; [lra|apply Qred_correct|lra]. Qed.
Lemma rn_zero_case : forall p x, x == 0 -> rn p x == 0.
Proof. intros p x H. unfold rn. destruct (Qcompare_spec x 0) as [E|E|E]; [reflexivity|lra|lra]. Qed.

Lemma rn_mono : forall p x y, (1 <= p)%Z -> x <= y -> rn p x <= rn p y.
Proof.
  intros p x y Hp H.
  destruct (Q_dec x 0) as [[X|X]|X]; destruct (Q_dec y 0) as [[Y|Y]|Y]; try lra.
  - rewrite (rn_neg_case p x X), (rn_neg_case p y Y).
    pose proof (rn_pos_mono p Hp (- y) (- x) ltac:(lra) ltac:(lra)). lra.
  - rewrite (rn_neg_case p x X), (rn_pos_case p y Y).
    pose proof (rn_pos_positive p Hp (- x) ltac:(lra)). pose proof (rn_pos_positive p Hp y Y). lra.
  - rewrite (rn_neg_case p x X), (rn_zero_case p y Y).
    pose proof (rn_pos_positive p Hp (- x) ltac:(lra)). lra.
  - rewrite (rn_pos_case p x X), (rn_pos_case p y Y). apply rn_pos_mono; assumption.
  - rewrite (rn_zero_case p x X), (rn_pos_case p y Y).
    pose proof (rn_pos_positive p Hp y Y). lra.
  - rewrite (rn_zero_case p x X), (rn_zero_case p y Y). lra.
Qed.

Lemma rn_int : forall p z, (1 <= p)%Z -> (Z.abs z <= 2 ^ p)%Z -> rn p (z2q z) == z2q z.
Proof.
  intros p z Hp Hz. unfold z2q. destruct (Z.lt_trichotomy z 0) as [N|[N|N]].
  - assert (X : inject_Z z < 0) by (change 0 with (inject_Z 0); rewrite <- Zlt_Qlt; exact N).
    rewrite (rn_neg_case p _ X).
    assert (E : - inject_Z z == inject_Z (- z)) by (rewrite inject_Z_opp; reflexivity).
    assert (R : rn_pos p (inject_Z (- z)) == inject_Z (- z)) by (apply rn_pos_int; lia).
    assert (C : rn_pos p (- inject_Z z) == rn_pos p (inject_Z (- z))).
    { rewrite inject_Z_opp. reflexivity. }
    rewrite C, R, inject_Z_opp. ring.
  - subst z. apply rn_zero_case. reflexivity.
  - assert (X : 0 < inject_Z z) by (change 0 with (inject_Z 0); rewrite <- Zlt_Qlt; exact N).
    rewrite (rn_pos_case p _ X). apply rn_pos_int; lia.
Qed.

(* relative error 2^-p: a product with u <= 1 - 2^-24 cannot round up to the bound *)
Lemma rn24_strict : forall (R : Z) x, (0 < R)%Z -> x <= u_top * z2q R -> rn 24 x < z2q R.
Proof.
  intros R x HR Hx.
  assert (Rq : 0 < z2q R) by (unfold z2q; change 0 with (inject_Z 0); rewrite <- Zlt_Qlt; exact HR).
  destruct (Q_dec x 0) as [[X|X]|X].
  - rewrite (rn_neg_case 24 x X). pose proof (rn_pos_positive 24 ltac:(lia) (- x) ltac:(lra)). lra.
  - rewrite (rn_pos_case 24 x X).
    destruct (rn_pos_err 24 x X) as [_ E]. cbv zeta in E.
    destruct (qlog2_spec x X) as [S1 _].
    assert (P : pow2 (qlog2 x - 24 + 1) == pow2 (qlog2 x) * pow2 (-23))
      by (rewrite <- pow2_add; replace (qlog2 x + -23)%Z with (qlog2 x - 24 + 1)%Z by lia; reflexivity).
    rewrite P in E. change (pow2 (-23)) with (1 # 8388608) in E.
    unfold u_top in Hx. nra.
  - rewrite (rn_zero_case 24 x X). exact Rq.
Qed.

Lemma ieee_laws : rounding_laws ieee.
Proof.
  constructor; cbn [r32 r64 ieee].
  - intros; apply rn_mono; [lia|assumption].
  - intros z H. apply rn_int; [lia|]. unfold two24 in H. change (2 ^ 24)%Z with 16777216%Z. exact H.
  - intros R x [H1 _] H. apply rn24_strict; assumption.
  - intros; apply rn_mono; [lia|assumption].
  - intros z H. apply rn_int; [lia|]. unfold two24 in H.
    assert (16777216 <= 2 ^ 53)%Z by (change (2 ^ 53)%Z with 9007199254740992%Z; lia). lia.
Qed.
