(* MiniTorch, unit C17Src - the torch operations used by the per-file workers of
   src/pydrobert/torch/command_line.py (ali <-> token conversions, length moments), on the tensors those
   workers see: dtype long or bool, rank 1 or 2.  DEFINITIONS ONLY (trusted like an [ext]; every run of
   the C17 check executes the interpreted source with these meanings against torch, see
   harness/props/c17_tie.py).

   A rank-1 tensor is the list of its elements; a rank-2 tensor of shape (R, w) is the list of its R rows
   together with w (needed when R = 0).  WELL-FORMED = every row has w elements ([wf]); the operations are
   total functions on lists, their results on ill-formed values mean nothing.  Rank-0 results (x.sum(),
   x.any(), x[i, j]) are Python scalars at the value level (a 0-dimensional tensor and the number it holds
   are not distinguished: truth value, ==, arithmetic and .item() agree on them).  Integers are UNBOUNDED
   (no int64 wrap-around), devices / strides / memory layout are not modelled.  [None] = outside the modelled
   domain (the interpreter is then Stuck). *)
From Coq Require Import List ZArith Bool Arith.
Import ListNotations.
Local Open Scope Z_scope.

Inductive lten :=
| L1 (v : list Z)                          (* dtype long, shape (length v,) *)
| L2 (w : nat) (rows : list (list Z))      (* dtype long, shape (length rows, w) *)
| B1 (v : list bool)                       (* dtype bool, shape (length v,) *)
| B2 (w : nat) (rows : list (list bool)).  (* dtype bool, shape (length rows, w) *)

Definition wf (t : lten) : Prop :=
  match t with
  | L2 w rows => Forall (fun r => length r = w) rows
  | B2 w rows => Forall (fun r => length r = w) rows
  | _ => True
  end.

(* Tensor.ndim: "Alias for dim()": "Returns the number of dimensions of self tensor." *)
Definition ndim (t : lten) : nat := match t with L1 _ | B1 _ => 1 | L2 _ _ | B2 _ _ => 2 end.

(* Tensor.shape / Tensor.size(): "Returns the size of the self tensor." *)
Definition shape (t : lten) : list nat :=
  match t with
  | L1 v => [length v] | B1 v => [length v]
  | L2 w rows => [length rows; w] | B2 w rows => [length rows; w]
  end.

(* Tensor.size(dim): "If dim is specified, returns an int holding the size of that dimension."  Only
   0 <= dim < ndim (a negative dim counts from the end in torch: not used, not modelled). *)
Definition size (t : lten) (d : Z) : option nat :=
  if d <? 0 then None else nth_error (shape t) (Z.to_nat d).

(* Tensor.numel(): "Returns the total number of elements in the input tensor." *)
Definition numel (t : lten) : nat := fold_right Nat.mul 1%nat (shape t).

(* torch.zeros(n, dtype=torch.long): "Returns a tensor filled with the scalar value 0, with the shape defined
   by the variable argument size." *)
Definition zeros1 (n : Z) : option lten := if n <? 0 then None else Some (L1 (repeat 0 (Z.to_nat n))).

(* Tensor.unique_consecutive(return_counts=True) on a rank-1 tensor: "Eliminates all but the first element
   from every consecutive group of equivalent elements." / "return_counts (bool): Whether to also return the
   counts for each unique element."  The list of (element, count) pairs, in order. *)
Fixpoint runs (l : list Z) : list (Z * Z) :=
  match l with
  | [] => []
  | x :: t => match runs t with
              | (y, c) :: r => if x =? y then (y, c + 1) :: r else (x, 1) :: (y, c) :: r
              | [] => [(x, 1)]
              end
  end.

Definition unique_consecutive_counts (t : lten) : option (lten * lten) :=
  match t with
  | L1 v => Some (L1 (map fst (runs v)), L1 (map snd (runs v)))
  | _ => None       (* higher ranks are flattened by torch; not used *)
  end.

(* torch.cat(tensors) (dim = 0) of rank-1 long tensors: "Concatenates the given sequence of tensors in
   tensors in the given dimension." *)
Fixpoint cat1 (l : list lten) : option (list Z) :=
  match l with
  | [] => Some []
  | L1 v :: r => option_map (app v) (cat1 r)
  | _ => None
  end.

(* Tensor.cumsum(0) of a rank-1 tensor: "Returns the cumulative sum of elements of input in the dimension
   dim ... y_i = x_1 + x_2 + x_3 + ... + x_i" *)
Fixpoint cumsum_from (acc : Z) (l : list Z) : list Z :=
  match l with [] => [] | x :: t => (acc + x) :: cumsum_from (acc + x) t end.

Definition cumsum (t : lten) (d : Z) : option lten :=
  match t with L1 v => if d =? 0 then Some (L1 (cumsum_from 0 v)) else None | _ => None end.

(* ---- basic indexing ("Tensor Indexing API" / Python's sequence protocol) ------------------------------
   an index is an int (negative counts from the end, out of range is an IndexError - outside the domain
   here) or a slice a:b without step (bounds clipped as Python's slice.indices does) *)
Inductive ix := IInt (z : Z) | ISlice (a b : option Z).

Definition clip (n z : Z) : Z := if z <? 0 then Z.max (z + n) 0 else Z.min z n.

Definition slice_lo (n : nat) (a : option Z) : nat :=
  match a with None => 0%nat | Some z => Z.to_nat (clip (Z.of_nat n) z) end.
Definition slice_hi (n : nat) (b : option Z) : nat :=
  match b with None => n | Some z => Z.to_nat (clip (Z.of_nat n) z) end.

Definition slice_list {A} (a b : option Z) (l : list A) : list A :=
  let n := length l in firstn (slice_hi n b - slice_lo n a) (skipn (slice_lo n a) l).

Definition slice_len (a b : option Z) (n : nat) : nat := Nat.min (slice_hi n b - slice_lo n a) (n - slice_lo n a).

Definition norm_index (n : nat) (z : Z) : option nat :=
  let j := if z <? 0 then z + Z.of_nat n else z in
  if (0 <=? j) && (j <? Z.of_nat n) then Some (Z.to_nat j) else None.

(* x[a:b] on rank 1 *)
Definition get_slice1 (t : lten) (a b : option Z) : option lten :=
  match t with
  | L1 v => Some (L1 (slice_list a b v))
  | B1 v => Some (B1 (slice_list a b v))
  | _ => None
  end.

(* x[a:b, c:d] on rank 2 (long) *)
Definition get_block (t : lten) (a b c d : option Z) : option lten :=
  match t with
  | L2 w rows => Some (L2 (slice_len c d w) (map (slice_list c d) (slice_list a b rows)))
  | _ => None
  end.

(* x[a:b, j] on rank 2 (long): column j of the selected rows *)
Definition get_col (t : lten) (a b : option Z) (j : Z) : option lten :=
  match t with
  | L2 w rows => match norm_index w j with
                 | Some k => Some (L1 (map (fun r => nth k r 0) (slice_list a b rows)))
                 | None => None
                 end
  | _ => None
  end.

(* x[i, j] on rank 2 (long): the element (a Python scalar here) *)
Definition get_cell (t : lten) (i j : Z) : option Z :=
  match t with
  | L2 w rows => match norm_index (length rows) i, norm_index w j with
                 | Some r, Some k => Some (nth k (nth r rows []) 0)
                 | _, _ => None
                 end
  | _ => None
  end.

(* x[mask], mask a bool tensor of x's shape (rank 1): as torch.masked_select, "Returns a new 1-D tensor
   which indexes the input tensor according to the boolean mask" *)
Fixpoint select {A} (l : list A) (m : list bool) : list A :=
  match l, m with
  | x :: l', b :: m' => if b then x :: select l' m' else select l' m'
  | _, _ => []
  end.

Definition masked (t m : lten) : option lten :=
  match t, m with
  | L1 v, B1 k => if Nat.eqb (length v) (length k) then Some (L1 (select v k)) else None
  | _, _ => None
  end.

(* ---- element-wise operations ------------------------------------------------------------------------ *)
Inductive cmpk := KEq | KNe | KLt | KLe | KGt | KGe.

Definition zcmp (k : cmpk) (x y : Z) : bool :=
  match k with
  | KEq => x =? y | KNe => negb (x =? y) | KLt => x <? y | KLe => x <=? y | KGt => y <? x | KGe => y <=? x
  end.

Fixpoint map2 {A B C} (f : A -> B -> C) (a : list A) (b : list B) : list C :=
  match a, b with x :: a', y :: b' => f x y :: map2 f a' b' | _, _ => [] end.

(* an operand of a comparison: a tensor or a Python int ("the second argument can be a number or a tensor whose
   shape is broadcastable with the first argument").  Modelled shapes: equal rank-1 shapes; a tensor with a
   number; (R, 1) with (k,) -> (R, k) (general broadcasting semantics: "When iterating over the dimension
   sizes, starting at the trailing dimension, the dimension sizes must either be equal, one of them is 1, or one
   of them does not exist"); the other broadcastable pairs are outside the domain. *)
Inductive opd := OT (t : lten) | OZ (z : Z).

Definition compare (k : cmpk) (a b : opd) : option lten :=
  match a, b with
  | OT (L1 x), OT (L1 y) => if Nat.eqb (length x) (length y) then Some (B1 (map2 (zcmp k) x y)) else None
  | OT (L1 x), OZ z => Some (B1 (map (fun e => zcmp k e z) x))
  | OZ z, OT (L1 y) => Some (B1 (map (zcmp k z) y))
  | OT (L2 w rows), OZ z => Some (B2 w (map (map (fun e => zcmp k e z)) rows))
  | OT (L2 1 rows), OT (L1 y) => Some (B2 (length y) (map (fun r => map (zcmp k (hd 0 r)) y) rows))
  | _, _ => None
  end.

(* a - b on long tensors of equal rank-1 shape *)
Definition sub (a b : lten) : option lten :=
  match a, b with
  | L1 x, L1 y => if Nat.eqb (length x) (length y) then Some (L1 (map2 Z.sub x y)) else None
  | _, _ => None
  end.

(* a & b on bool tensors of equal rank-1 shape: "Computes the bitwise AND ... For bool tensors, it computes the
   logical AND." *)
Definition logical_and (a b : lten) : option lten :=
  match a, b with
  | B1 x, B1 y => if Nat.eqb (length x) (length y) then Some (B1 (map2 andb x y)) else None
  | _, _ => None
  end.

(* ~a on a bool tensor: "Computes the bitwise NOT ... For bool tensors, it computes the logical NOT." *)
Definition invert (a : lten) : option lten := match a with B1 x => Some (B1 (map negb x)) | _ => None end.

(* torch.ones_like(a) for a bool tensor: "Returns a tensor filled with the scalar value 1, with the same size as
   input" (and the same dtype: True) *)
Definition ones_like (a : lten) : option lten :=
  match a with B1 x => Some (B1 (map (fun _ => true) x)) | _ => None end.

(* Tensor.long() of a bool tensor: False -> 0, True -> 1 *)
Definition long (a : lten) : option lten :=
  match a with B1 x => Some (L1 (map (fun b : bool => if b then 1 else 0) x)) | L1 x => Some (L1 x) | _ => None end.

(* Tensor.square(): "Returns a new tensor with the square of the elements of input." *)
Definition square (a : lten) : option lten := match a with L1 x => Some (L1 (map (fun z => z * z) x)) | _ => None end.

(* Tensor.unsqueeze(1) of a rank-1 tensor: "Returns a new tensor with a dimension of size one inserted at the
   specified position." *)
Definition unsqueeze1 (a : lten) : option lten := match a with L1 x => Some (L2 1 (map (fun z => [z]) x)) | _ => None end.

(* ---- reductions -------------------------------------------------------------------------------------- *)
(* Tensor.sum(): "Returns the sum of all elements in the input tensor." (rank 1, long) *)
Definition sum (a : lten) : option Z := match a with L1 x => Some (fold_right Z.add 0 x) | _ => None end.

(* Tensor.any(): "Tests if any element in input evaluates to True." *)
Definition any (a : lten) : option bool :=
  match a with
  | B1 x => Some (existsb (fun b => b) x)
  | B2 _ rows => Some (existsb (existsb (fun b => b)) rows)
  | _ => None
  end.

(* Tensor.all(1) of a rank-2 bool tensor: "For each row of input in the given dimension dim, returns True if all
   elements in the row evaluate to True and False otherwise." *)
Definition all_dim1 (a : lten) : option lten :=
  match a with B2 _ rows => Some (B1 (map (forallb (fun b => b)) rows)) | _ => None end.

(* Tensor.nonzero() of a rank-1 bool tensor: "Returns a tensor containing the indices of all non-zero elements of
   input.  Each row in the result contains the indices of a non-zero element in input." -> shape (z, 1) *)
Fixpoint true_positions (i : Z) (l : list bool) : list Z :=
  match l with [] => [] | b :: t => if b then i :: true_positions (i + 1) t else true_positions (i + 1) t end.

Definition nonzero (a : lten) : option lten :=
  match a with B1 x => Some (L2 1 (map (fun i => [i]) (true_positions 0 x))) | _ => None end.

(* Tensor.flatten(): "Flattens input by reshaping it into a one-dimensional tensor." *)
Definition flatten (a : lten) : option lten :=
  match a with L1 x => Some (L1 x) | L2 _ rows => Some (L1 (concat rows)) | _ => None end.

(* Tensor.tolist() of a rank-1 long tensor *)
Definition tolist (a : lten) : option (list Z) := match a with L1 x => Some x | _ => None end.

(* ---- the two constructions of the conversions ----------------------------------------------------------- *)
(* torch.stack(tensors, -1) of rank-1 long tensors of the same size n: "Concatenates a sequence of tensors along a
   new dimension.  All tensors need to be of the same size." -> shape (n, number of tensors), element [i, j] =
   tensors[j][i] *)
Fixpoint transpose (n : nat) (cols : list (list Z)) : list (list Z) :=
  match n with
  | O => []
  | S n' => map (hd 0) cols :: transpose n' (map (@tl Z) cols)
  end.

Fixpoint vectors (l : list lten) : option (list (list Z)) :=
  match l with
  | [] => Some []
  | L1 v :: r => option_map (cons v) (vectors r)
  | _ => None
  end.

Definition stack_last (l : list lten) : option lten :=
  match vectors l with
  | Some (c :: cols) =>
      if forallb (fun c' => Nat.eqb (length c') (length c)) cols
      then Some (L2 (S (length cols)) (transpose (length c) (c :: cols))) else None
  | _ => None
  end.

(* torch.repeat_interleave(input, repeats), both rank 1 of the same size: "Repeat elements of a tensor ...
   repeats: The number of repetitions for each element."  A negative count is an error of the call (torch raises
   RuntimeError "repeats can not be negative"): inner None. *)
Definition repeat_interleave (a r : lten) : option (option lten) :=
  match a, r with
  | L1 x, L1 c =>
      if Nat.eqb (length x) (length c) then
        Some (if existsb (fun n => n <? 0) c then None
              else Some (L1 (concat (map2 (fun v n => repeat v (Z.to_nat n)) x c))))
      else None
  | _, _ => None
  end.
