(* MiniTorch, unit C03Src — the algebra of OpsC03.v needed by the C03 tie (no new definitions of meaning):
   broadcasting on the shapes the mask path of `_string_matching` meets, the reduction with keepdim, the row
   assignment, torch.stack of tabulated matrices, comparisons of floats that are integers. *)
From Coq Require Import List ZArith QArith Bool Arith Lia ZifyBool ZifyNat.
From Coq Require String.
From PV Require Import MiniPy.Syntax MiniTorch.Ops MiniTorch.Lemmas MiniTorch.OpsC07 MiniTorch.LemmasC07 MiniTorch.OpsC01
  MiniTorch.LemmasC01 MiniTorch.OpsC03.
Import ListNotations.
Local Open Scope nat_scope.

(* ---- broadcasting ------------------------------------------------------------------------------------------- *)
(* (A x 1) against (B): the outer combination (i, j) -> f (g i) (h j) *)
Lemma broadcast_col1_row : forall {X Y W} (f : X -> Y -> W) dx dy A B g h,
  broadcast f dx dy (mkTn [A; 1] (map g (seq 0 A))) (mkTn [B] (map h (seq 0 B))) =
  Some (mkTn [A; B] (tab2 A B (fun i j => f (g i) (h j)))).
Proof.
  intros. unfold broadcast. cbn [rank shp dat length Nat.max pad_shape Nat.sub repeat app bc_shape].
  rewrite bdim_1_r, bdim_1_l. rewrite (bc_data_2 f dx dy A 1 1 B A B) by (apply bdim_1_r || apply bdim_1_l).
  do 2 f_equal. apply tab2_ext. intros i j Hi Hj. change (bidx 1 i) with 0. change (bidx 1 j) with 0.
  rewrite (bidx_same A i), (bidx_same B j) by assumption. cbn [Nat.mul Nat.add].
  replace (i * 1 + 0) with i by lia. now rewrite !nth_map_seq.
Qed.

(* (A x B) against (1 x B) *)
Lemma broadcast_mat_row1 : forall {X Y W} (f : X -> Y -> W) dx dy A B g h,
  broadcast f dx dy (mkTn [A; B] (tab2 A B g)) (mkTn [1; B] (map h (seq 0 B))) =
  Some (mkTn [A; B] (tab2 A B (fun i j => f (g i j) (h j)))).
Proof.
  intros. unfold broadcast. cbn [rank shp dat length Nat.max pad_shape Nat.sub repeat app bc_shape].
  rewrite bdim_1_r, bdim_refl. rewrite (bc_data_2 f dx dy A B 1 B A B) by (apply bdim_1_r || apply bdim_refl).
  do 2 f_equal. apply tab2_ext. intros i j Hi Hj. change (bidx 1 i) with 0.
  rewrite (bidx_same A i), (bidx_same B j) by assumption. cbn [Nat.mul Nat.add].
  now rewrite nth_tab2, nth_map_seq.
Qed.

(* (K x A x B) against (1 x A x B) *)
Lemma broadcast_3_plane : forall {X Y W} (f : X -> Y -> W) dx dy K A B g h,
  broadcast f dx dy (mkTn [K; A; B] (tab3 K A B g)) (mkTn [1; A; B] (tab2 A B h)) =
  Some (mkTn [K; A; B] (tab3 K A B (fun k i j => f (g k i j) (h i j)))).
Proof.
  intros. unfold broadcast. cbn [rank shp dat length Nat.max pad_shape Nat.sub repeat app bc_shape].
  rewrite bdim_1_r, !bdim_refl.
  rewrite (bc_data_3 f dx dy K A B 1 A B K A B) by (apply bdim_1_r || apply bdim_refl).
  do 2 f_equal. apply tab3_ext. intros k i j Hk Hi Hj. change (bidx 1 k) with 0.
  rewrite (bidx_same K k), (bidx_same A i), (bidx_same B j) by assumption. cbn [Nat.mul Nat.add].
  now rewrite nth_tab3, nth_tab2.
Qed.

Lemma unsqueeze_2_0 : forall {X} A B (d : list X), unsqueeze (mkTn [A; B] d) 0 = Some (mkTn [1; A; B] d).
Proof. reflexivity. Qed.

Lemma arange_nat : forall n, arange (Z.of_nat n) = Some (mkTn [n] (map Z.of_nat (seq 0 n))).
Proof. intros. unfold arange. replace (Z.of_nat n <? 0)%Z with false by lia. now rewrite Nat2Z.id. Qed.

(* ---- the minimum along dimension 0 of (A x B), keepdim ---------------------------------------------------------- *)
Definition argmin_2 (A B : nat) (g : nat -> nat -> fx) : list Z :=
  map (fun j => let f := map (fun i => g i j) (seq 0 A) in Z.of_nat (first_at (fmin_list f) f)) (seq 0 B).

Lemma min_dim_keep_2 : forall A B (g : nat -> nat -> fx), A <> 0 ->
  min_dim_keep (mkTn [A; B] (tab2 A B g)) 0 =
    Some (Some (mkTn [1; B] (map (fun j => fmin_list (map (fun i => g i j) (seq 0 A))) (seq 0 B)),
                mkTn [1; B] (argmin_2 A B g))).
Proof.
  intros A B g HA. unfold min_dim_keep, min_dim, argmin_2. cbn [rank shp dat length]. change (wrap_dim 2 0) with (Some 0).
  cbv beta iota zeta. cbn [outer extent inner drop_dim keep_dim firstn skipn nth numel app].
  replace (A =? 0) with false by (symmetry; now apply Nat.eqb_neq).
  cbn [dat]. rewrite !tab2_1.
  do 3 f_equal; f_equal; apply map_ext_seq; intros j Hj; now rewrite fibre_tab2_0.
Qed.

(* ---- x[0] = v on a tabulated matrix ------------------------------------------------------------------------------- *)
Lemma set_row0_first : forall {X} R N (f : nat -> nat -> X) (g : nat -> X), R <> 0 ->
  set_row0 (mkTn [R; N] (tab2 R N f)) 0 (mkTn [N] (map g (seq 0 N))) =
  Some (Some (mkTn [R; N] (tab2 R N (fun i n => match i with O => g n | S _ => f i n end)))).
Proof.
  intros X R N f g HR. destruct R as [|R]; [contradiction|]. unfold set_row0. cbn [shp dat numel].
  change (0 <? 0)%Z with false. cbv iota.
  replace ((0 <=? 0) && (0 <? Z.of_nat (S R)))%Z with true by lia.
  rewrite nats_eqb_refl, length_row, Nat.eqb_refl. cbn [andb]. do 3 f_equal.
  change (Z.to_nat 0) with 0. cbn [Nat.mul Nat.add firstn app]. rewrite Nat.add_0_r.
  rewrite skipn_tab2_1, (tab2_S R N (fun i n => match i with O => g n | S _ => f i n end)). reflexivity.
Qed.

(* ---- torch.stack of tabulated matrices ------------------------------------------------------------------------------ *)
Lemma concat_tab2_tab3 : forall {X} K A B (mf : nat -> nat -> nat -> X),
  List.concat (map (fun k => tab2 A B (mf k)) (seq 0 K)) = tab3 K A B mf.
Proof. intros. unfold tab3, tab2. now rewrite flat_map_concat_map. Qed.

Lemma stack0_tabs : forall {X} K A B (mf : nat -> nat -> nat -> X), K <> 0 ->
  stack0 (map (fun k => mkTn [A; B] (tab2 A B (mf k))) (seq 0 K)) = Some (mkTn [K; A; B] (tab3 K A B mf)).
Proof.
  intros X K A B mf HK. destruct K as [|K]; [contradiction|]. unfold stack0.
  set (F := fun k => mkTn [A; B] (tab2 A B (mf k))).
  change (map F (seq 0 (S K))) with (F 0 :: map F (seq 1 K)). cbv iota.
  assert (Hall : forallb (fun u => nats_eqb (shp u) (shp (F 0))) (map F (seq 1 K)) = true).
  { apply forallb_forall. intros u Hu. apply in_map_iff in Hu. destruct Hu as [k [<- _]]. cbn [shp F]. apply nats_eqb_refl. }
  rewrite Hall. change (F 0 :: map F (seq 1 K)) with (map F (seq 0 (S K))).
  rewrite map_length, seq_length, map_map. unfold F. cbn [dat shp]. now rewrite concat_tab2_tab3.
Qed.

(* ---- comparisons of floats that are integers ---------------------------------------------------------------------- *)
Lemma fx_gtb_z2f : forall a b, fx_gtb (z2f a) (z2f b) = (a >? b)%Z.
Proof.
  intros. unfold fx_gtb, z2f. apply eq_true_iff_eq. rewrite negb_true_iff, <- not_true_iff_false, Qle_bool_iff.
  unfold Qle, inject_Z. cbn [Qnum Qden]. lia.
Qed.
