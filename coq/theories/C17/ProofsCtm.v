(* C17 - lemma: timed transcripts (ctm, TextGrid intervals) -> token directory -> timed transcripts:
   same utterances, same tokens, every time within one frame shift.  Composition of the directory
   layer with C11's seconds <-> frames lemma. *)
From Coq Require Import List ZArith Bool Arith Lia Permutation QArith.
From PV Require Import C11.Model C11.Spec C11.ProofsTok C17.Model C17.Spec C17.ProofsSel C17.ProofsPool
  C17.ProofsDir C17.ProofsTrn.
Import ListNotations.
Local Open Scope Z_scope.

Lemma rows_of_full (rs : list row3) : rows_of (tok_tensor false false rs) = Done rs.
Proof.
  unfold tok_tensor. cbn [rows_of]. induction rs as [|[[i s] e] t IH]; [reflexivity|].
  cbn [map map_out]. rewrite IH. reflexivity.
Qed.

Definition timed_ok (t2i : list (tk * Z)) (x : str * Q * Q) : Prop :=
  (exists i, assoc tk_eqb (TStr (fst (fst x))) t2i = Some i)
  /\ (0 <= snd (fst x))%Q /\ (snd (fst x) <= snd x)%Q.

Lemma close_no_int d tr : forall tr', Forall2 (C11.Spec.item_close d) (map timed_item tr) tr' ->
  existsb (fun a => is_int (item_tk a)) tr' = false.
Proof.
  induction tr as [|[[t s] e] r IH]; intros tr' H; inversion H as [|a b l l' Hab Hl]; subst; [reflexivity|].
  cbn [existsb]. rewrite (IH _ Hl). cbn [timed_item] in Hab. destruct b as [y|y s' e']; cbn [item_close] in Hab; [contradiction|].
  destruct Hab as [<- _]. reflexivity.
Qed.

Lemma timed_dir_roundtrip pre suf t2i d unk workers order (ts : list (str * list (str * Q * Q))) :
  (0 < d)%Q -> NoDup (map fst ts) -> NoDup (map snd t2i) ->
  (forall ut, In ut ts -> Forall (timed_ok t2i) (snd ut)) ->
  Permutation order (seq 0 (length ts)) ->
  exists dd, ctm_to_dir pre suf t2i (Some d) unk false false workers order ts [] = Done dd
    /\ exists res, dir_to_ctm (swap_pairs t2i) pre suf (Some d) dd = Done res
         /\ map fst res = sort_by str_leb (map fst ts)
         /\ forall ut, In ut ts -> exists tr', In (fst ut, tr') res
                                            /\ Forall2 (C11.Spec.item_close d) (map timed_item (snd ut)) tr'.
Proof.
  intros Hd N Ni V P.
  set (its := map (fun ut : str * list (str * Q * Q) => (fst ut, map timed_item (snd ut))) ts).
  assert (Eits : map fst its = map fst ts) by (unfold its; rewrite map_map; reflexivity).
  set (rows := fun ut : str * list item =>
                 match transcript_to_token (snd ut) (Some t2i) (Some d) unk false with Ok r => r | Raise _ => [] end).
  set (backf := fun ut : str * list item => token_to_transcript (rows ut) (Some (swap_pairs t2i)) (Some d)).
  assert (Hrt : forall ut, In ut its ->
            transcript_to_token (snd ut) (Some t2i) (Some d) unk false = Ok (rows ut)
            /\ Forall2 (C11.Spec.item_close d) (snd ut) (backf ut)).
  { intros ut Hut. unfold its in Hut. apply in_map_iff in Hut. destruct Hut as [x [<- Hx]].
    destruct (tokens_roundtrip_vocab t2i d unk (map timed_item (snd x)) Hd Ni) as [r [Hr Hf]].
    - specialize (V x Hx). rewrite Forall_forall in *. intros a Ha. apply in_map_iff in Ha.
      destruct Ha as [[[t s] e] [<- Hy]]. destruct (V _ Hy) as (Hv & Hs & He). cbn [fst snd] in *.
      cbn [timed_item item_tok item_times_ok]. split; [exact Hv|split; assumption].
    - unfold backf, rows. cbn [fst snd]. rewrite Hr. split; [reflexivity|exact Hf]. }
  destruct (dir_roundtrip_generic pre suf t2i (Some d) unk false false (Some (swap_pairs t2i)) (Some d) false its
              rows backf) with (workers := workers) (order := order) as (dd & Hdd & res & Hres & Hfst & Hin).
  - rewrite Eits. exact N.
  - intros ut Hut. cbn [orb]. apply Hrt. exact Hut.
  - intros ut Hut. unfold load_transcript. rewrite rows_of_full. fold (backf ut).
    destruct (Hrt ut Hut) as [_ Hf]. unfold its in Hut. apply in_map_iff in Hut. destruct Hut as [x [<- Hx]].
    cbn [snd] in Hf. rewrite (close_no_int d (snd x) _ Hf). reflexivity.
  - unfold its. rewrite map_length. exact P.
  - exists dd. split.
    + unfold ctm_to_dir. unfold its in Hdd. rewrite map_map in Hdd. cbn [fst snd] in Hdd. exact Hdd.
    + exists res. split; [exact Hres|]. split; [rewrite Hfst, Eits; reflexivity|].
      intros ut Hut.
      assert (Hi : In (fst ut, map timed_item (snd ut)) its) by (unfold its; apply in_map_iff; exists ut; split; [reflexivity|exact Hut]).
      exists (backf (fst ut, map timed_item (snd ut))). split; [apply (Hin _ Hi)|]. apply (Hrt _ Hi).
Qed.
