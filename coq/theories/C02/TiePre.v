(* C02 - the preamble of `_string_matching` (PV.Gen.C02Src.er_pre) for the call `error_rate` makes
   (return_mistakes = True): argument checks, the uniform-cost shortcut (costs reset to 1.0 and return_mistakes
   CLEARED when ins_cost == del_cost == sub_cost > 0; mult stays 1.0), transposition of batch-first input, sizes, and
   the lengths - torch.full without eos, `_lens_from_eos` (TieLens) and the include_eos fix-up with eos - leave the
   state TieBlocks.stageA describes, with return_mistakes = not uniform and the lengths Model.eff_len. *)
From Coq Require Import ZArith QArith List String Bool Arith Lia ZifyBool ZifyNat.
From PV Require Import MiniPy.Syntax MiniPy.Interp MiniPy.Lemmas MiniTorch.Ops MiniTorch.Lemmas MiniTorch.OpsC07 MiniTorch.LemmasC07
  MiniTorch.OpsC01 MiniTorch.LemmasC01 MiniTorch.OpsC02 MiniTorch.LemmasC02.
From PV Require Import Gen.C02Src C01.SrcRun C01.TieLib C01.TieMath C02.SrcRun C02.TieLib C02.TieMath C02.TieInner C02.TieLoop C02.TieLoopU C02.TieBlocks C02.TieWhole C02.TieLens.
From PV Require C07.SrcRun C01.Obs C01.Model C01.Proofs C02.Model.
Import ListNotations.
Local Open Scope string_scope.

#[local] Arguments dec01 : simpl never.
#[local] Arguments enc_b : simpl never.
#[local] Arguments enc_i : simpl never.
#[local] Arguments enc_x : simpl never.
#[local] Arguments tab2 : simpl never.
#[local] Arguments tab3 : simpl never.
#[local] Arguments qz : simpl never.
#[local] Arguments Z.add : simpl never.
#[local] Arguments Z.sub : simpl never.
#[local] Arguments Z.of_nat : simpl nomatch.
#[local] Arguments select0 : simpl never.
#[local] Arguments set_select0 : simpl never.
#[local] Arguments slice0 : simpl never.
#[local] Arguments set_slice0 : simpl never.
#[local] Arguments broadcast : simpl never.
#[local] Arguments where_f : simpl never.
#[local] Arguments min_dim : simpl never.
#[local] Arguments gather0 : simpl never.
#[local] Arguments unsqueeze : simpl never.
#[local] Arguments squeeze_dim : simpl never.
#[local] Arguments expand2 : simpl never.
#[local] Arguments triu_f : simpl never.
#[local] Arguments transpose2 : simpl never.
#[local] Arguments arange_f : simpl never.
#[local] Arguments full : simpl never.
#[local] Arguments fadd : simpl never.
#[local] Arguments fsub : simpl never.
#[local] Arguments fmul : simpl never.
#[local] Arguments fdiv : simpl never.
#[local] Arguments fmin : simpl never.
#[local] Arguments fge : simpl never.
#[local] Arguments b2f : simpl never.
#[local] Arguments z2f : simpl never.
#[local] Arguments ext01 : simpl never.
#[local] Arguments ext02 : simpl never.
#[local] Arguments zf : simpl never.
#[local] Arguments ofx : simpl never.
#[local] Arguments argmin_3 : simpl never.
#[local] Arguments seq : simpl never.
#[local] Arguments fmin_list : simpl never.
#[local] Arguments zrange : simpl never.
#[local] Arguments sw : simpl never.
#[local] Arguments swp : simpl never.

#[local] Arguments Qeq_bool : simpl never.
#[local] Arguments Qcompare : simpl never.
#[local] Arguments Z.eqb : simpl nomatch.
#[local] Arguments any_b : simpl never.

Definition in_tensor (bf : bool) (T N : nat) (f : nat -> nat -> Z) : tn Z :=
  if bf then mkTn [N; T] (tab2 N T (fun n t => f t n)) else mkTn [T; N] (tab2 T N f).

Lemma in_tensor_rank bf T N f : List.length (shp (in_tensor bf T N f)) = 2%nat.
Proof. destruct bf; reflexivity. Qed.

(* the arguments of the call made by error_rate (padding is not read on this path) *)
Definition params (s : positive) (c : C01.Model.cfg) (R N H : nat) (rf hf : nat -> nat -> Z) (w : bool) : list (string * val) :=
  [("ref", enc_i (in_tensor (C01.Model.c_bf c) R N rf)); ("hyp", enc_i (in_tensor (C01.Model.c_bf c) H N hf));
   ("eos", opt_int (C01.Model.c_eos c)); ("include_eos", VBool (C01.Model.c_incl c));
   ("batch_first", VBool (C01.Model.c_bf c));
   ("ins_cost", VQ (qz s (C01.Model.c_ins c))); ("del_cost", VQ (qz s (C01.Model.c_del c)));
   ("sub_cost", VQ (qz s (C01.Model.c_sub c)));
   ("warn", VBool w); ("norm", VBool (C01.Model.c_norm c)); ("return_mask", VBool false);
   ("return_prf_dsts", VBool false); ("exclude_last", VBool false); ("return_mistakes", VBool true);
   ("torch", torch_module)].

Definition pre_a : stmt := seq_take 5 er_pre.
Definition pre_b : stmt := seq_take 9 (seq_drop 5 er_pre).
Definition pre_c : stmt := seq_drop 14 er_pre.

Lemma er_pre_split : forall st, exec ext02 er_pre st = exec ext02 (SSeq pre_a (SSeq pre_b pre_c)) st.
Proof.
  intros st. unfold pre_a, pre_b, pre_c. rewrite <- (exec_take_drop 5 er_pre st).
  cbn [exec]. destruct (exec ext02 (seq_take 5 er_pre) st) as [[|v] st1|n st1|q]; cbn [bind]; try reflexivity.
  change (seq_drop 14 er_pre) with (seq_drop 9 (seq_drop 5 er_pre)).
  symmetry. apply (exec_take_drop 9 (seq_drop 5 er_pre) st1).
Qed.

Section Pre.
  Variables (s : positive) (c : C01.Model.cfg) (R N H : nat) (rf hf : nat -> nat -> Z) (w : bool).

  (* after the argument checks and the uniform-cost shortcut *)
  Definition stageP1 : list (string * val) :=
    [("ref", enc_i (in_tensor (C01.Model.c_bf c) R N rf)); ("hyp", enc_i (in_tensor (C01.Model.c_bf c) H N hf));
     ("eos", opt_int (C01.Model.c_eos c)); ("include_eos", VBool (C01.Model.c_incl c));
     ("batch_first", VBool (C01.Model.c_bf c));
     ("ins_cost", VQ (qz (eff_scale s c) (eff_ci c))); ("del_cost", VQ (qz (eff_scale s c) (eff_cd c)));
     ("sub_cost", VQ (qz (eff_scale s c) (eff_cs c))); ("mult", VQ 1);
     ("warn", VBool w); ("norm", VBool (C01.Model.c_norm c)); ("return_mask", VBool false);
     ("return_prf_dsts", VBool false); ("exclude_last", VBool false); ("return_mistakes", VBool (negb (uniform c)));
     ("torch", torch_module)].

  Lemma cost_cond : forall st,
    lookup "ins_cost" (vars st) = Some (VQ (qz s (C01.Model.c_ins c))) ->
    lookup "del_cost" (vars st) = Some (VQ (qz s (C01.Model.c_del c))) ->
    lookup "sub_cost" (vars st) = Some (VQ (qz s (C01.Model.c_sub c))) ->
    exists v, eval ext02 (EAnd (ECmp Eq (EName "ins_cost") (EName "del_cost"))
                           (EAnd (ECmp Eq (EName "del_cost") (EName "sub_cost"))
                                 (ECmp Gt (EName "sub_cost") (EConst (VQ (0 # 1)%Q))))) st = Ok v st /\
              truthy v = uniform c.
  Proof.
    intros st Hi Hd Hs. unfold uniform, C02.Model.uniform_costs.
    destruct (C01.Model.c_ins c =? C01.Model.c_del c)%Z eqn:E1;
    destruct (C01.Model.c_del c =? C01.Model.c_sub c)%Z eqn:E2;
    destruct (0 <? C01.Model.c_sub c)%Z eqn:E3;
    (eexists; split;
     [ repeat (progress (cbn; look; rewrite ?qz_eqb, ?qz_gt0, ?E1, ?E2, ?E3)); reflexivity | reflexivity ]).
  Qed.

  Lemma pre_a_run : forall st, known st (params s c R N H rf hf w) ->
    runs_to (fun st' => known st' stageP1) (exec ext02 pre_a st).
  Proof.
    intros st K. unfold params in K. open_known K. unfold pre_a, er_pre. cbn [seq_take].
    assertstep. assertstep.
    ifstep_t ltac:(repeat (progress (evn; rewrite ?in_tensor_rank)); reflexivity).
    asg. seqnorm.
    match goal with
    | Hi : lookup "ins_cost" (vars ?st0) = _, Hd : lookup "del_cost" (vars ?st0) = _, Hs : lookup "sub_cost" (vars ?st0) = _
      |- context [exec ext02 (SSeq (SIf ?cc ?t ?f) ?b) ?st0] =>
        destruct (cost_cond st0 Hi Hd Hs) as [v [Hv Ht]]; rewrite (exec_seq_if cc t f b st0 v st0 Hv), Ht; clear Hv Ht v
    end.
    unfold stageP1, eff_scale, eff_ci, eff_cd, eff_cs.
    destruct (uniform c); cbn [negb].
    - ifstep. assign3. asg. seqnorm. apply runs_to_ok. close_known.
    - destruct w; ifstep; seqnorm; apply runs_to_ok; close_known.
  Qed.

  (* after the transposition and the size queries: time-major tensors *)
  Definition stageP2 : list (string * val) :=
    [("ref", enc_i (mkTn [R; N] (tab2 R N rf))); ("hyp", enc_i (mkTn [H; N] (tab2 H N hf)));
     ("eos", opt_int (C01.Model.c_eos c)); ("include_eos", VBool (C01.Model.c_incl c));
     ("ins_cost", VQ (qz (eff_scale s c) (eff_ci c))); ("del_cost", VQ (qz (eff_scale s c) (eff_cd c)));
     ("sub_cost", VQ (qz (eff_scale s c) (eff_cs c))); ("mult", VQ 1);
     ("warn", VBool w); ("norm", VBool (C01.Model.c_norm c)); ("return_mask", VBool false);
     ("return_prf_dsts", VBool false); ("exclude_last", VBool false); ("return_mistakes", VBool (negb (uniform c)));
     ("torch", torch_module);
     ("max_ref_steps", VInt (Z.of_nat R)); ("batch_size", VInt (Z.of_nat N)); ("max_hyp_steps", VInt (Z.of_nat H));
     ("device", device_token)].

  Ltac asg_t tac := assign ltac:(repeat (progress (evn; tac)); reflexivity).

  Lemma pre_b_run : forall st, known st stageP1 -> runs_to (fun st' => known st' stageP2) (exec ext02 pre_b st).
  Proof.
    intros st K. unfold stageP1 in K. open_known K. unfold pre_b, er_pre. cbn [seq_take seq_drop].
    destruct (C01.Model.c_bf c); unfold in_tensor in *.
    - ifstep. asg_t ltac:(rewrite ?transpose2_mat). asg_t ltac:(rewrite ?transpose2_mat).
      assign3. asg. asg. asg. asg. asg. asg. asg. asg. asg. asg.
      ifstep_t ltac:(repeat (progress (evn; rewrite ?Z.eqb_refl)); reflexivity).
      seqnorm. apply runs_to_ok. unfold stageP2. close_known.
    - ifstep.
      assign3. asg. asg. asg. asg. asg. asg. asg. asg. asg. asg.
      ifstep_t ltac:(repeat (progress (evn; rewrite ?Z.eqb_refl)); reflexivity).
      seqnorm. apply runs_to_ok. unfold stageP2. close_known.
  Qed.

  (* ---- the lengths ---------------------------------------------------------------------------------------- *)
  Definition ref_len (n : nat) : nat := C01.Model.eff_len (C01.Model.c_eos c) (C01.Model.c_incl c) (colf R rf n).
  Definition hyp_len (n : nat) : nat := C01.Model.eff_len (C01.Model.c_eos c) (C01.Model.c_incl c) (colf H hf n).

  Lemma colf_length : forall T f n, List.length (colf T f n) = T.
  Proof. intros. unfold colf. now rewrite map_length, seq_length. Qed.

  (* the include_eos fix-up on one length, when some / no sequence of the batch lacks the eos *)
  Lemma fixup_any : forall e T f n,
    (Z.of_nat (C01.Model.first_eos e (colf T f n)) + 1
     - b2z (Z.of_nat (C01.Model.first_eos e (colf T f n)) =? Z.of_nat T))%Z
    = Z.of_nat (C01.Model.eff_len (Some e) true (colf T f n)).
  Proof.
    intros. unfold C01.Model.eff_len. rewrite colf_length.
    replace (Z.of_nat (C01.Model.first_eos e (colf T f n)) =? Z.of_nat T)%Z
      with (Nat.eqb (C01.Model.first_eos e (colf T f n)) T) by lia.
    destruct (Nat.eqb (C01.Model.first_eos e (colf T f n)) T); cbn [b2z]; lia.
  Qed.

  Lemma fixup_none : forall e T f n,
    (Z.of_nat (C01.Model.first_eos e (colf T f n)) =? Z.of_nat T)%Z = false ->
    (Z.of_nat (C01.Model.first_eos e (colf T f n)) + 1)%Z = Z.of_nat (C01.Model.eff_len (Some e) true (colf T f n)).
  Proof.
    intros e T f n E. unfold C01.Model.eff_len. rewrite colf_length.
    replace (Nat.eqb (C01.Model.first_eos e (colf T f n)) T) with false by lia. lia.
  Qed.

  Lemma any_false_at : forall (g : nat -> bool) M n, (n < M)%nat ->
    any_b (mkTn [M] (map g (seq 0 M))) = false -> g n = false.
  Proof.
    intros g M n Hn Hany. unfold any_b in Hany. cbn [dat] in Hany.
    destruct (g n) eqn:E; [|reflexivity]. rewrite <- Hany. symmetry.
    apply existsb_exists. exists true. split; [|reflexivity]. apply in_map_iff. exists n. split; [exact E|apply in_seq; lia].
  Qed.

  Notation A := (stageA (negb (uniform c)) (eff_scale s c) (eff_ci c) (eff_cd c) (eff_cs c) 1 R N H rf hf ref_len hyp_len
                   (C01.Model.c_norm c) w).

  (* close a goal about one of the two length tensors *)
  Ltac close_lens :=
    match goal with
    | L : lookup ?x (vars ?st) = Some _ |- lookup ?x (vars ?st) = Some _ =>
        rewrite L; unfold lens_tensor, ref_len, hyp_len; do 3 f_equal; apply map_ext_seq; intros n Hn;
        first [ apply fixup_any
              | apply fixup_none;
                match goal with Hany : any_b _ = false |- _ => exact (any_false_at _ _ n Hn Hany) end
              | reflexivity ]
    end.

  Lemma pre_c_run : forall st, (C01.Model.c_eos c <> None -> R <> 0%nat /\ H <> 0%nat) ->
    known st stageP2 -> runs_to (fun st' => known st' A) (exec ext02 pre_c st).
  Proof.
    intros st Hnz K. unfold stageP2 in K. open_known K. unfold pre_c, er_pre. cbn [seq_drop].
    unfold ref_len, hyp_len. destruct (C01.Model.c_eos c) as [e|]; cbn [opt_int] in *.
    - destruct (Hnz ltac:(discriminate)) as [HR HH].
      destruct (lens_run_2 (fun x => x) R N rf e HR) as [sr Hr].
      destruct (lens_run_2 (fun x => x) H N hf e HH) as [sh Hh].
      ifstep.
      assign ltac:(ev; rewrite ext_lens; unfold C07.SrcRun.call_body; rewrite Hr; reflexivity).
      assign ltac:(ev; rewrite ext_lens; unfold C07.SrcRun.call_body; rewrite Hh; reflexivity).
      clear Hr Hh sr sh.
      destruct (C01.Model.c_incl c).
      + destruct w.
        * ifstep. asg. asg. ifstep.
          match goal with |- context [if any_b ?m then _ else _] => destruct (any_b m) eqn:? end;
          [ ifstep; asg | idtac ];
          (asg; asg; ifstep;
           match goal with |- context [if any_b ?m then _ else _] => destruct (any_b m) eqn:? end;
           [ ifstep; asg | idtac ];
           seqnorm; apply runs_to_ok; unfold stageA; close_known; close_lens).
        * ifstep. asg. asg. ifstep.
          match goal with |- context [if any_b ?m then _ else _] => destruct (any_b m) eqn:? end;
          [ ifstep; asg | idtac ];
          (asg; asg; ifstep;
           match goal with |- context [if any_b ?m then _ else _] => destruct (any_b m) eqn:? end;
           [ ifstep; asg | idtac ];
           seqnorm; apply runs_to_ok; unfold stageA; close_known; close_lens).
      + ifstep. seqnorm. apply runs_to_ok. unfold stageA. close_known; close_lens.
    - ifstep.
      asg_t ltac:(replace (Z.of_nat N <? 0)%Z with false by lia; rewrite ?Nat2Z.id, ?full_vec).
      asg_t ltac:(replace (Z.of_nat N <? 0)%Z with false by lia; rewrite ?Nat2Z.id, ?full_vec).
      apply runs_to_ok. unfold stageA. close_known;
      match goal with
      | L : lookup ?x (vars ?st) = Some _ |- lookup ?x (vars ?st) = Some _ =>
          rewrite L; unfold lens_tensor; do 3 f_equal; apply map_ext_seq; intros n Hn;
          cbn [C01.Model.eff_len]; now rewrite colf_length
      end.
  Qed.

  Theorem pre_run : forall st, (C01.Model.c_eos c <> None -> R <> 0%nat /\ H <> 0%nat) ->
    known st (params s c R N H rf hf w) -> runs_to (fun st' => known st' A) (exec ext02 er_pre st).
  Proof.
    intros st Hnz K. rewrite er_pre_split.
    eapply runs_to_seq; [apply pre_a_run; exact K|]. intros st1 K1.
    eapply runs_to_seq; [apply pre_b_run; exact K1|]. intros st2 K2.
    apply pre_c_run; assumption.
  Qed.
End Pre.
