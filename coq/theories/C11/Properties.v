(* C11 - Transcript files read back exactly what was written.  Theorems only. *)
From Coq Require Import List ZArith Bool QArith.
From PV Require Import C11.Model C11.Spec C11.Proofs.
Import ListNotations.
Local Open Scope Z_scope.

(* "Giving a path or an already open file produces byte-identical output under every option":
   FALSE for write_textgrid as coded (known finding K5) ... *)
Theorem c11_path_eq_file_refuted :
  exists tr st en name pt p,
    write_textgrid_path tr st en name pt p <> write_textgrid_file tr st en name pt p.
Proof. exact path_eq_file_refuted. Qed.
Print Assumptions c11_path_eq_file_refuted.

(* ... the deviation, for all inputs: the two options are replaced by their defaults ... *)
Theorem c11_path_is_file_with_defaults : forall tr st en name pt p,
  write_textgrid_path tr st en name pt p = write_textgrid_file tr st en name None 3.
Proof. exact path_is_file_with_defaults. Qed.
Print Assumptions c11_path_is_file_with_defaults.

(* ... so the entry points agree when the options are left alone *)
Theorem c11_path_eq_file_when_defaults : forall tr st en name,
  write_textgrid_path tr st en name None 3 = write_textgrid_file tr st en name None 3.
Proof. exact path_eq_file_when_defaults. Qed.
Print Assumptions c11_path_eq_file_when_defaults.
