(* C18 — mean-variance normalisation: accumulate / store / mean_var_norm against the pooled
   population statistics of the frames. *)
From Coq Require Import List ZArith QArith Qabs Bool Arith Lia Permutation.
From PV Require Import C18.Model C18.Spec C18.QLemmas C18.Tensor C18.Stats.
Import ListNotations.
Local Open Scope Q_scope.

Lemma map_flat_map : forall {A B C} (f : B -> C) (g : A -> list B) l,
  map f (flat_map g l) = flat_map (fun a => map f (g a)) l.
Proof. induction l as [|a l IH]; cbn [flat_map map]; [reflexivity|]. now rewrite map_app, IH. Qed.

Lemma NoDup_map_inj_in : forall {A B} (f : A -> B) l,
  (forall a b, In a l -> In b l -> f a = f b -> a = b) -> NoDup l -> NoDup (map f l).
Proof.
  induction l as [|a l IH]; intros Hinj ND; cbn [map]; [constructor|].
  inversion ND as [|? ? Ha ND']; subst. constructor.
  - intros Hin. apply in_map_iff in Hin. destruct Hin as [b [E Hb]].
    assert (b = a) by (apply Hinj; [now right|now left|assumption]). subst. contradiction.
  - apply IH; [|assumption]. intros x y Hx Hy. apply Hinj; now right.
Qed.

(* ------------------------------------------------------------------------------ *)
(* the (X, M) matrix of the code versus the coefficient values of the spec         *)
(* ------------------------------------------------------------------------------ *)
Lemma swapl_hd : forall sh d, (d < length sh)%nat ->
  swapl sh 0 d = nth d sh 0%nat :: tl (swapl sh 0 d).
Proof.
  intros sh d Hd. pose proof (length_swapl sh 0 d) as HL.
  pose proof (nth_swapl sh 0 d 0 ltac:(lia)) as H0.
  destruct (swapl sh 0 d) as [|h t]; cbn [length] in HL; [lia|].
  cbn [nth tl] in *. rewrite H0. reflexivity.
Qed.

Lemma length_rows_of : forall x d, (d < length (shape x))%nat ->
  length (rows_of x d) = nth d (shape x) 0%nat.
Proof.
  intros x d Hd. unfold rows_of. rewrite map_length, seq_length, shape_transpose.
  rewrite (swapl_hd _ _ Hd). reflexivity.
Qed.

Lemma rows_of_nth : forall x d i, (d < length (shape x))%nat -> (i < nth d (shape x) 0)%nat ->
  nth i (rows_of x d) [] =
  map (fun t => get x (swapl (i :: t) 0 d)) (indices (tl (swapl (shape x) 0 d))).
Proof.
  intros x d i Hd Hi. unfold rows_of. cbv zeta. rewrite shape_transpose, data_transpose.
  rewrite (swapl_hd _ _ Hd). cbn [hd tl].
  rewrite nth_map_seq by assumption.
  rewrite indices_cons, map_flat_map.
  rewrite (chunk_flat_map_const _ _ _ i 0%nat).
  - rewrite seq_nth by assumption. cbn [Nat.add]. rewrite map_map. reflexivity.
  - intros a _. rewrite !map_length. apply length_indices.
  - now rewrite seq_length.
Qed.

Lemma row_perm : forall x d i, (d < length (shape x))%nat -> (i < nth d (shape x) 0)%nat ->
  Permutation (nth i (rows_of x d) []) (coeff_vals x d i).
Proof.
  intros x d i Hd Hi. rewrite rows_of_nth by assumption. unfold coeff_vals.
  set (sh := shape x) in *. set (rest := tl (swapl sh 0 d)).
  rewrite <- (map_map (fun t => swapl (i :: t) 0 d) (get x)).
  apply Permutation_map.
  assert (Hsh' : swapl sh 0 d = nth d sh 0%nat :: rest) by (now apply swapl_hd).
  assert (Hlen : forall t, valid rest t -> length (i :: t) = length sh).
  { intros t Ht. cbn [length]. rewrite (valid_length _ _ Ht). unfold rest.
    pose proof (length_swapl sh 0 d) as HL. rewrite Hsh' in HL. cbn [length] in HL. unfold rest in HL. lia. }
  apply NoDup_Permutation.
  - apply NoDup_map_inj_in; [|apply NoDup_indices].
    intros a b Ha Hb E. apply in_indices in Ha, Hb.
    assert (E' : swapl (swapl (i :: a) 0 d) 0 d = swapl (swapl (i :: b) 0 d) 0 d) by now rewrite E.
    rewrite !swapl_invol in E' by (rewrite ?Hlen; assumption || lia). now inversion E'.
  - apply NoDup_filter, NoDup_indices.
  - intros idx. rewrite filter_In, in_indices, in_map_iff. split.
    + intros [t [<- Ht]]. apply in_indices in Ht. split.
      * apply valid_swapl_inv; try lia. fold sh. rewrite Hsh'. constructor; assumption.
      * apply Nat.eqb_eq. rewrite nth_swapl by (rewrite Hlen; assumption).
        unfold tau. destruct (Nat.eqb_spec d 0); [subst; reflexivity|]. rewrite Nat.eqb_refl. reflexivity.
    + intros [Hv Hi']. apply Nat.eqb_eq in Hi'.
      pose proof (valid_length _ _ Hv) as HL.
      assert (Hv' : valid (swapl sh 0 d) (swapl idx 0 d)) by (apply valid_swapl; lia || assumption).
      rewrite Hsh' in Hv'. inversion Hv' as [|a s t r Ha Ht E1 E2]. subst s r.
      assert (a = i).
      { assert (E : nth 0 (swapl idx 0 d) 0%nat = a) by (rewrite <- E1; reflexivity).
        rewrite nth_swapl in E by lia. unfold tau in E. cbn [Nat.eqb] in E. lia. }
      subst a. exists t. split; [|now apply in_indices].
      rewrite E1. apply swapl_invol; lia.
Qed.

Lemma length_coeff_vals : forall x d i, (d < length (shape x))%nat -> (i < nth d (shape x) 0)%nat ->
  length (coeff_vals x d i) = rows_width x d.
Proof.
  intros x d i Hd Hi. rewrite <- (Permutation_length (row_perm x d i Hd Hi)).
  rewrite rows_of_nth by assumption. rewrite map_length, length_indices. reflexivity.
Qed.

(* ------------------------------------------------------------------------------ *)
(* accumulate                                                                     *)
(* ------------------------------------------------------------------------------ *)
Record rep (s : stats) (X : nat) (c : Q) (S1 S2 : nat -> Q) : Prop := mkRep {
  rep_len1 : length (ssum s) = X;
  rep_len2 : length (ssq s) = X;
  rep_cnt : cnt s == c;
  rep_sum : forall i, (i < X)%nat -> nth i (ssum s) 0 == S1 i;
  rep_sq : forall i, (i < X)%nat -> nth i (ssq s) 0 == S2 i }.

Lemma length_zipw : forall {A B C} (f : A -> B -> C) a b, length a = length b -> length (zipw f a b) = length a.
Proof.
  induction a as [|x a IH]; intros [|y b] H; cbn in *; try discriminate; [reflexivity|].
  f_equal. apply IH. lia.
Qed.

Lemma nth_zipw : forall {A B C} (f : A -> B -> C) a b i da db dc, length a = length b -> (i < length a)%nat ->
  nth i (zipw f a b) dc = f (nth i a da) (nth i b db).
Proof.
  induction a as [|x a IH]; intros [|y b] i da db dc H Hi; cbn in *; try discriminate; try lia.
  destruct i; [reflexivity|]. apply IH; lia.
Qed.

Lemma iadd_same : forall a b, length a = length b -> iadd a b = Ok (zipw Qplus a b).
Proof. intros a b H. unfold iadd. now rewrite H, Nat.eqb_refl. Qed.

Lemma rep_init : forall X, rep (mkStats 0 (repeat 0 X) (repeat 0 X)) X 0 (fun _ => 0) (fun _ => 0).
Proof.
  intros X. constructor; cbn [ssum ssq cnt]; try apply repeat_length; try reflexivity;
    intros; now rewrite nth_repeat0.
Qed.

Lemma accumulate_step : forall dim st st0 x d X c S1 S2,
  norm_dim (length (shape x)) dim = Some d -> nth d (shape x) 0%nat = X ->
  st0 = match st with None => mkStats 0 (repeat 0 X) (repeat 0 X) | Some s => s end ->
  rep st0 X c S1 S2 ->
  exists s, accumulate dim st x = Ok s /\
    rep s X (c + qofnat (rows_width x d))
        (fun i => S1 i + Qsum (coeff_vals x d i))
        (fun i => S2 i + Qsum (map qsq (coeff_vals x d i))).
Proof.
  intros dim st st0 x d X c S1 S2 Hd HX Hst0 [L1 L2 Hc Hs Hq].
  pose proof (norm_dim_lt _ _ _ Hd) as Hlt.
  unfold accumulate. rewrite Hd, HX, <- Hst0.
  pose proof (length_rows_of x d Hlt) as HR. rewrite HX in HR.
  rewrite iadd_same by (now rewrite map_length, HR).
  cbn [bind]. rewrite iadd_same by (now rewrite map_length, HR). cbn [bind].
  eexists. split; [reflexivity|].
  constructor; cbn [ssum ssq cnt].
  - rewrite length_zipw; [assumption|now rewrite map_length, HR].
  - rewrite length_zipw; [assumption|now rewrite map_length, HR].
  - rewrite Hc. reflexivity.
  - intros i Hi. rewrite (nth_zipw Qplus _ _ i 0 0 0) by (rewrite ?map_length, ?HR; lia).
    rewrite Hs by assumption. apply Qplus_comp; [reflexivity|].
    change 0 with (qsum []). rewrite map_nth, qsum_Qsum.
    apply Qsum_perm, row_perm; [assumption|now rewrite HX].
  - intros i Hi. rewrite (nth_zipw Qplus _ _ i 0 0 0) by (rewrite ?map_length, ?HR; lia).
    rewrite Hq by assumption. apply Qplus_comp; [reflexivity|].
    change 0 with ((fun r => qsum (map qsq r)) []). rewrite map_nth. cbv beta. rewrite qsum_Qsum.
    apply Qsum_perm, Permutation_map, row_perm; [assumption|now rewrite HX].
Qed.

Lemma frames_cons : forall dim x xs,
  frames dim (x :: xs) =
  (match norm_dim (length (shape x)) dim with Some d => rows_width x d | None => 0 end + frames dim xs)%nat.
Proof. reflexivity. Qed.

Lemma pooled_cons : forall dim x xs i,
  pooled dim (x :: xs) i =
  match norm_dim (length (shape x)) dim with Some d => coeff_vals x d i | None => [] end ++ pooled dim xs i.
Proof. reflexivity. Qed.

Lemma length_pooled : forall dim X xs i, uniform dim X xs -> (i < X)%nat ->
  length (pooled dim xs i) = frames dim xs.
Proof.
  intros dim X xs i H Hi. induction H as [|x xs [d [Hd HX]] H IH]; [reflexivity|].
  rewrite pooled_cons, app_length, IH, frames_cons, Hd.
  rewrite length_coeff_vals; [reflexivity|now apply norm_dim_lt in Hd|now rewrite HX].
Qed.

Lemma accumulate_all_some : forall dim X xs s0 c S1 S2,
  uniform dim X xs -> rep s0 X c S1 S2 ->
  exists s, accumulate_all dim (Some s0) xs = Ok (Some s) /\
    rep s X (c + qofnat (frames dim xs))
        (fun i => S1 i + Qsum (pooled dim xs i))
        (fun i => S2 i + Qsum (map qsq (pooled dim xs i))).
Proof.
  intros dim X xs. induction xs as [|x xs IH]; intros s0 c S1 S2 HU HR.
  - exists s0. split; [reflexivity|]. destruct HR as [L1 L2 Hc Hs Hq].
    constructor; try assumption.
    + rewrite Hc. cbn [frames fold_right]. change (qofnat 0) with 0. now rewrite Qplus_0_r.
    + intros i Hi. rewrite Hs by assumption. cbn [pooled flat_map]. rewrite Qsum_nil. ring.
    + intros i Hi. rewrite Hq by assumption. cbn [pooled flat_map map]. rewrite Qsum_nil. ring.
  - inversion HU as [|? ? [d [Hd HX]] HU']; subst.
    destruct (accumulate_step dim (Some s0) s0 x d _ c S1 S2 Hd eq_refl eq_refl HR) as [s1 [E1 R1]].
    destruct (IH s1 _ _ _ HU' R1) as [s [E R]].
    exists s. cbn [accumulate_all]. rewrite E1. cbn [bind]. split; [exact E|].
    destruct R as [L1 L2 Hc Hs Hq]. constructor; try assumption.
    + rewrite Hc, frames_cons, Hd, qofnat_plus. ring.
    + intros i Hi. rewrite Hs by assumption. rewrite pooled_cons, Hd, Qsum_app. ring.
    + intros i Hi. rewrite Hq by assumption. rewrite pooled_cons, Hd, map_app, Qsum_app. ring.
Qed.

(* accumulating any non-empty list of tensors that agree on the coefficient count X yields
   exactly the frame count, the per-coefficient sums and sums of squares of the pooled data *)
Lemma accumulate_pooled_sums : forall dim X xs,
  xs <> [] -> uniform dim X xs ->
  exists s, accumulate_all dim None xs = Ok (Some s) /\
    length (ssum s) = X /\ length (ssq s) = X /\
    cnt s == qofnat (frames dim xs) /\
    forall i, (i < X)%nat ->
      nth i (ssum s) 0 == Qsum (pooled dim xs i) /\
      nth i (ssq s) 0 == Qsum (map qsq (pooled dim xs i)).
Proof.
  intros dim X [|x xs] Hne HU; [contradiction|].
  inversion HU as [|? ? [d [Hd HX]] HU']; subst.
  destruct (accumulate_step dim None _ x d _ 0 _ _ Hd eq_refl eq_refl (rep_init _)) as [s1 [E1 R1]].
  destruct (accumulate_all_some dim _ xs s1 _ _ _ HU' R1) as [s [E [L1 L2 Hc Hs Hq]]].
  exists s. cbn [accumulate_all]. rewrite E1. cbn [bind]. split; [exact E|].
  repeat split; try assumption.
  - rewrite Hc, frames_cons, Hd, qofnat_plus. ring.
  - rewrite Hs by assumption. rewrite pooled_cons, Hd, Qsum_app. ring.
  - rewrite Hq by assumption. rewrite pooled_cons, Hd, map_app, Qsum_app. ring.
Qed.

(* ------------------------------------------------------------------------------ *)
(* store                                                                          *)
(* ------------------------------------------------------------------------------ *)
Lemma qmax_clamp : forall a a', a == a' -> 0 <= a' -> qmax a 0 == a'.
Proof.
  intros a a' E H. unfold qmax. destruct (Qle_bool a 0) eqn:B; [|exact E].
  apply Qle_bool_iff in B. rewrite E in B. now apply Qle_antisym.
Qed.

Lemma nth_map_Q : forall (f : Q -> Q) l i, (i < length l)%nat -> nth i (map f l) 0 = f (nth i l 0).
Proof.
  intros f l i H. rewrite (nth_indep _ 0 (f 0)) by now rewrite map_length. apply map_nth.
Qed.

Lemma store_stats : forall s X b (ls : nat -> list Q) n,
  length (ssum s) = X -> length (ssq s) = X -> cnt s == qofnat n ->
  (forall i, (i < X)%nat -> length (ls i) = n /\ nth i (ssum s) 0 == Qsum (ls i) /\
                            nth i (ssq s) 0 == Qsum (map qsq (ls i))) ->
  (2 <= n)%nat ->
  exists mean var, store (Some s) b = Ok (mean, var) /\ length mean = X /\ length var = X /\
    forall i, (i < X)%nat -> nth i mean 0 == pop_mean (ls i) /\ nth i var 0 == pop_var b (ls i).
Proof.
  intros s X b ls n L1 L2 Hc H Hn. unfold store.
  assert (B : Qle_bool 2 (cnt s) = true).
  { apply Qle_bool_iff. rewrite Hc. change 2 with (qofnat 2). now apply qofnat_le. }
  rewrite B.
  set (mean := map (fun v => v / cnt s) (ssum s)).
  set (var0 := zipw (fun q m => qmax (q / cnt s - qsq m) 0) (ssq s) mean).
  assert (Lm : length mean = X) by (unfold mean; now rewrite map_length).
  assert (Lv : length var0 = X) by (unfold var0; rewrite length_zipw; lia).
  assert (Hm : forall i, (i < X)%nat -> nth i mean 0 == pop_mean (ls i)).
  { intros i Hi. destruct (H i Hi) as [Hl [Hs _]]. unfold mean.
    rewrite nth_map_Q by lia. unfold pop_mean. rewrite Hs, Hc, Hl. reflexivity. }
  assert (Hv : forall i, (i < X)%nat -> nth i var0 0 == pop_var false (ls i)).
  { intros i Hi. destruct (H i Hi) as [Hl [Hs Hq]]. unfold var0.
    rewrite (nth_zipw _ _ _ i 0 0 0) by lia.
    apply qmax_clamp; [|apply pop_var_nonneg_biased; lia].
    rewrite <- var_from_sums by lia. unfold mean. rewrite nth_map_Q by lia.
    unfold qsq. rewrite Hs, Hq, Hc, Hl. reflexivity. }
  eexists. eexists. split; [reflexivity|]. split; [exact Lm|].
  destruct b.
  - split; [now rewrite map_length|]. intros i Hi. split; [now apply Hm|].
    rewrite nth_map_Q by lia. rewrite (Hv i Hi), Hc.
    destruct (H i Hi) as [Hl _]. rewrite <- Hl. apply bessel_scale. lia.
  - split; [exact Lv|]. intros i Hi. split; [now apply Hm|now apply Hv].
Qed.

Lemma store_too_few : forall s b n, cnt s == qofnat n -> (n < 2)%nat -> store (Some s) b = Err ERuntime.
Proof.
  intros s b n Hc Hn. unfold store. destruct (Qle_bool 2 (cnt s)) eqn:B; [|reflexivity].
  apply Qle_bool_iff in B. rewrite Hc in B. apply qofnat_ge2 in B. lia.
Qed.

(* accumulate over any partition, then store: the pooled population statistics *)
Lemma store_is_pooled_mean_var : forall dim X xs b,
  xs <> [] -> uniform dim X xs -> (2 <= frames dim xs)%nat ->
  exists mean var,
    bind (accumulate_all dim None xs) (fun s => store s b) = Ok (mean, var) /\
    length mean = X /\ length var = X /\
    forall i, (i < X)%nat ->
      nth i mean 0 == pop_mean (pooled dim xs i) /\ nth i var 0 == pop_var b (pooled dim xs i).
Proof.
  intros dim X xs b Hne HU Hn.
  destruct (accumulate_pooled_sums dim X xs Hne HU) as [s [E [L1 [L2 [Hc Hs]]]]].
  rewrite E. cbn [bind].
  apply (store_stats s X b (pooled dim xs) (frames dim xs)); try assumption.
  intros i Hi. split; [now apply (length_pooled dim X)|now apply Hs].
Qed.

Lemma store_too_few_frames : forall dim X xs b,
  xs <> [] -> uniform dim X xs -> (frames dim xs < 2)%nat ->
  bind (accumulate_all dim None xs) (fun s => store s b) = Err ERuntime.
Proof.
  intros dim X xs b Hne HU Hn.
  destruct (accumulate_pooled_sums dim X xs Hne HU) as [s [E [_ [_ [Hc _]]]]].
  rewrite E. cbn [bind]. now apply (store_too_few s b (frames dim xs)).
Qed.

(* "over any partition of the data, in any order": two histories whose pooled coefficient
   values are permutations of each other (different chunking, order, tensor shapes, even a
   different dim argument) store the same statistics *)
Lemma Forall2_nth_Qeq : forall a b, length a = length b ->
  (forall i, (i < length a)%nat -> nth i a 0 == nth i b 0) -> Forall2 Qeq a b.
Proof.
  induction a as [|x a IH]; intros [|y b] HL H; cbn in HL; try discriminate; constructor.
  - apply (H 0%nat). cbn. lia.
  - apply IH; [lia|]. intros i Hi. apply (H (S i)). cbn. lia.
Qed.

Lemma stats_partition_order_invariant : forall dim dim' X xs xs' b,
  (0 < X)%nat -> xs <> [] -> xs' <> [] -> uniform dim X xs -> uniform dim' X xs' ->
  (forall i, (i < X)%nat -> Permutation (pooled dim xs i) (pooled dim' xs' i)) ->
  same_result (bind (accumulate_all dim None xs) (fun s => store s b))
              (bind (accumulate_all dim' None xs') (fun s => store s b)).
Proof.
  intros dim dim' X xs xs' b HX Hne Hne' HU HU' HP.
  assert (HF : frames dim xs = frames dim' xs').
  { rewrite <- (length_pooled dim X xs 0 HU HX), <- (length_pooled dim' X xs' 0 HU' HX).
    apply Permutation_length, HP, HX. }
  destruct (le_lt_dec 2 (frames dim xs)) as [Hn|Hn].
  - destruct (store_is_pooled_mean_var dim X xs b Hne HU Hn) as [m [v [E [Lm [Lv H]]]]].
    destruct (store_is_pooled_mean_var dim' X xs' b Hne' HU' ltac:(lia)) as [m' [v' [E' [Lm' [Lv' H']]]]].
    rewrite E, E'. constructor; apply Forall2_nth_Qeq; try lia.
    + intros i Hi. rewrite Lm in Hi. destruct (H i Hi) as [-> _]. destruct (H' i Hi) as [-> _].
      apply pop_mean_perm, HP, Hi.
    + intros i Hi. rewrite Lv in Hi. destruct (H i Hi) as [_ ->]. destruct (H' i Hi) as [_ ->].
      apply pop_var_perm, HP, Hi.
  - rewrite (store_too_few_frames dim X xs b Hne HU Hn).
    rewrite (store_too_few_frames dim' X xs' b Hne' HU' ltac:(lia)). constructor.
Qed.

(* ------------------------------------------------------------------------------ *)
(* mean_var_norm                                                                  *)
(* ------------------------------------------------------------------------------ *)
Lemma shape_bcast : forall x d v f, shape (bcast x d v f) = shape x.
Proof. reflexivity. Qed.

Lemma coeff_vals_bcast : forall x d v f i,
  coeff_vals (bcast x d v f) d i = map (fun q => f q (nth i v 0)) (coeff_vals x d i).
Proof.
  intros x d v f i. unfold coeff_vals. rewrite shape_bcast, map_map.
  apply map_ext_in. intros idx Hin. apply filter_In in Hin. destruct Hin as [Hv Hi].
  apply in_indices in Hv. apply Nat.eqb_eq in Hi. unfold bcast.
  rewrite get_tabulate by assumption. now rewrite Hi.
Qed.

Lemma norm_given : forall x dim d mean std eps sigma,
  norm_dim (length (shape x)) dim = Some d ->
  length mean = nth d (shape x) 0%nat -> length std = nth d (shape x) 0%nat ->
  mean_var_norm x dim (Some mean) (Some std) eps sigma =
  Ok (bcast (bcast x d mean Qminus) d (map (fun s => qmax s eps) std) Qdiv, []).
Proof.
  intros x dim d mean std eps sigma Hd Lm Ls. unfold mean_var_norm.
  rewrite Hd, Lm, Ls, Nat.eqb_refl. reflexivity.
Qed.

Lemma coeff_vals_norm_given : forall x dim d mean std eps sigma y ov i,
  norm_dim (length (shape x)) dim = Some d ->
  length mean = nth d (shape x) 0%nat -> length std = nth d (shape x) 0%nat ->
  mean_var_norm x dim (Some mean) (Some std) eps sigma = Ok (y, ov) ->
  (i < nth d (shape x) 0)%nat ->
  shape y = shape x /\
  coeff_vals y d i = map (fun q => (q - nth i mean 0) / qmax (nth i std 0) eps) (coeff_vals x d i).
Proof.
  intros x dim d mean std eps sigma y ov i Hd Lm Ls H Hi.
  rewrite (norm_given x dim d mean std eps sigma Hd Lm Ls) in H. inversion H; subst; clear H.
  split; [reflexivity|].
  rewrite !coeff_vals_bcast, map_map.
  rewrite (nth_map_gen (fun s => qmax s eps) std i 0 0) by lia. reflexivity.
Qed.

Lemma pooled_norm_given : forall dim X mean std eps xs ys i,
  uniform dim X xs -> length mean = X -> length std = X -> (i < X)%nat ->
  Forall2 (fun x y => exists sg ov, mean_var_norm x dim (Some mean) (Some std) eps sg = Ok (y, ov)) xs ys ->
  pooled dim ys i = map (fun q => (q - nth i mean 0) / qmax (nth i std 0) eps) (pooled dim xs i).
Proof.
  intros dim X mean std eps xs ys i HU Lm Ls Hi HF.
  induction HF as [|x y xs ys [sg [ov Hxy]] HF IH]; [reflexivity|].
  destruct (Forall_inv HU) as [d [Hd HX]]. pose proof (Forall_inv_tail HU) as HU'.
  rewrite <- HX in Lm, Ls, Hi.
  destruct (coeff_vals_norm_given x dim d mean std eps sg y ov i Hd Lm Ls Hxy Hi) as [Hs Hc].
  rewrite !pooled_cons, Hs, Hd, map_app, Hc, (IH HU'). reflexivity.
Qed.

(* normalising the pooled data with a mean and a standard deviation that ARE the pooled
   statistics gives zero mean and unit variance, coefficient by coefficient *)
Lemma normalised_zero_mean_unit_var : forall dim X mean std eps b xs ys i,
  uniform dim X xs -> length mean = X -> length std = X -> (i < X)%nat ->
  Forall2 (fun x y => exists sg ov, mean_var_norm x dim (Some mean) (Some std) eps sg = Ok (y, ov)) xs ys ->
  (0 < frames dim xs)%nat ->
  nth i mean 0 == pop_mean (pooled dim xs i) ->
  nth i std 0 * nth i std 0 == pop_var b (pooled dim xs i) ->
  0 < nth i std 0 -> eps <= nth i std 0 ->
  pop_mean (pooled dim ys i) == 0 /\ pop_var b (pooled dim ys i) == 1.
Proof.
  intros dim X mean std eps b xs ys i HU Lm Ls Hi HF Hn Hm Hv Hpos Heps.
  rewrite (pooled_norm_given dim X mean std eps xs ys i HU Lm Ls Hi HF).
  assert (E : qmax (nth i std 0) eps == nth i std 0) by now apply qmax_ge_r.
  apply normalise_list.
  - now rewrite (length_pooled dim X xs i HU Hi).
  - exact Hm.
  - rewrite E. exact Hv.
  - rewrite E. intros Z. rewrite Z in Hpos. now apply Qlt_irrefl in Hpos.
Qed.

(* the whole sentence of the property: accumulate over any partition, store, normalise *)
Lemma accumulate_store_normalise : forall dim X xs ys b mean var std eps i,
  xs <> [] -> uniform dim X xs -> (2 <= frames dim xs)%nat ->
  bind (accumulate_all dim None xs) (fun s => store s b) = Ok (mean, var) ->
  length std = X -> (i < X)%nat ->
  nth i std 0 * nth i std 0 == nth i var 0 ->        (* std = sqrt(var), the oracle *)
  0 < nth i std 0 -> eps <= nth i std 0 ->
  Forall2 (fun x y => exists sg ov, mean_var_norm x dim (Some mean) (Some std) eps sg = Ok (y, ov)) xs ys ->
  pop_mean (pooled dim ys i) == 0 /\ pop_var b (pooled dim ys i) == 1.
Proof.
  intros dim X xs ys b mean var std eps i Hne HU Hn Hst Ls Hi Hsq Hpos Heps HF.
  destruct (store_is_pooled_mean_var dim X xs b Hne HU Hn) as [m [v [E [Lm [Lv H]]]]].
  rewrite E in Hst. inversion Hst; subst m v; clear Hst.
  destruct (H i Hi) as [Hm Hv].
  apply (normalised_zero_mean_unit_var dim X mean std eps b xs ys i); try assumption; try lia.
  rewrite Hsq. exact Hv.
Qed.

(* "without stored statistics the input's own statistics are used" *)
Lemma row_mean_pop : forall r, row_mean r == pop_mean r.
Proof. intros r. unfold row_mean, pop_mean. now rewrite qsum_Qsum. Qed.

Lemma row_var_pop : forall r, row_var r == pop_var false r.
Proof.
  intros r. unfold row_var, pop_var, sq_dev. rewrite qsum_Qsum.
  apply Qdiv_comp; [|reflexivity]. apply Qsum_map_ext. intros v. unfold qsq.
  rewrite row_mean_pop. reflexivity.
Qed.

Lemma own_stats_when_none : forall x dim d eps sigma y ov i,
  norm_dim (length (shape x)) dim = Some d ->
  mean_var_norm x dim None None eps sigma = Ok (y, ov) ->
  (i < nth d (shape x) 0)%nat -> (0 < rows_width x d)%nat ->
  exists mu,
    mu == pop_mean (coeff_vals x d i) /\
    nth i ov 0 == pop_var false (coeff_vals x d i) /\
    shape y = shape x /\
    coeff_vals y d i = map (fun q => (q - mu) / qmax (nth i sigma 0) eps) (coeff_vals x d i).
Proof.
  intros x dim d eps sigma y ov i Hd H Hi HM.
  pose proof (norm_dim_lt _ _ _ Hd) as Hlt.
  unfold mean_var_norm in H. rewrite Hd in H.
  rewrite map_length, (length_rows_of x d Hlt), Nat.eqb_refl in H. cbn [negb] in H.
  destruct (negb (length sigma =? nth d (shape x) 0)%nat) eqn:Ls; [discriminate|].
  inversion H; subst y ov; clear H.
  apply negb_false_iff, Nat.eqb_eq in Ls.
  set (mean' := map row_mean (rows_of x d)).
  assert (Hmu : nth i mean' 0 = row_mean (nth i (rows_of x d) [])).
  { unfold mean'. apply nth_map_gen. now rewrite length_rows_of. }
  exists (nth i mean' 0). split; [|split; [|split]].
  - rewrite Hmu, row_mean_pop. apply pop_mean_perm, row_perm; assumption.
  - rewrite (nth_map_gen row_var _ i [] 0) by (rewrite length_rows_of; rewrite ?shape_bcast; assumption).
    rewrite row_var_pop.
    rewrite (pop_var_perm false _ _ (row_perm (bcast x d mean' Qminus) d i Hlt Hi)).
    rewrite coeff_vals_bcast. apply pop_var_shift.
    rewrite length_coeff_vals; assumption.
  - reflexivity.
  - rewrite !coeff_vals_bcast, map_map.
    rewrite (nth_map_gen (fun s => qmax s eps) sigma i 0 0) by lia. reflexivity.
Qed.

(* ... and if the oracle sigma is the square root of the own variance, the result has zero
   mean and unit variance *)
Lemma own_stats_normalised : forall x dim d eps sigma y ov i,
  norm_dim (length (shape x)) dim = Some d ->
  mean_var_norm x dim None None eps sigma = Ok (y, ov) ->
  (i < nth d (shape x) 0)%nat -> (0 < rows_width x d)%nat ->
  nth i sigma 0 * nth i sigma 0 == nth i ov 0 -> 0 < nth i sigma 0 -> eps <= nth i sigma 0 ->
  pop_mean (coeff_vals y d i) == 0 /\ pop_var false (coeff_vals y d i) == 1.
Proof.
  intros x dim d eps sigma y ov i Hd H Hi HM Hsq Hpos Heps.
  destruct (own_stats_when_none x dim d eps sigma y ov i Hd H Hi HM) as [mu [Hmu [Hov [_ Hy]]]].
  rewrite Hy.
  assert (E : qmax (nth i sigma 0) eps == nth i sigma 0) by now apply qmax_ge_r.
  apply normalise_list.
  - rewrite length_coeff_vals; [assumption|now apply norm_dim_lt in Hd|assumption].
  - exact Hmu.
  - rewrite E, Hsq. exact Hov.
  - rewrite E. intros Z. rewrite Z in Hpos. now apply Qlt_irrefl in Hpos.
Qed.

(* ------------------------------------------------------------------------------ *)
(* compute-mvn-stats-for-torch-feat-data-dir without --id2gid: directory-level       *)
(* accumulation is accumulate_all over the files, then store                        *)
(* ------------------------------------------------------------------------------ *)
Lemma cmd_loop_anonymous : forall dim files st,
  cmd_loop dim None files [(0%nat, st)] =
  match accumulate_all dim st (map snd files) with
  | Ok st' => Ok (Some [(0%nat, st')])
  | Err e => Err e
  end.
Proof.
  intros dim files. induction files as [|[i x] files IH]; intros st; [reflexivity|].
  cbn [cmd_loop map snd accumulate_all assoc Nat.eqb].
  destruct (accumulate dim st x) as [s|e]; cbn [bind]; [|reflexivity].
  cbn [set_assoc Nat.eqb]. apply IH.
Qed.

Lemma cmd_anonymous : forall files dim bessel,
  files <> [] ->
  compute_mvn_stats files None dim bessel =
  match bind (accumulate_all dim None (map snd files)) (fun s => store s bessel) with
  | Ok mv => CmdOk [(0%nat, mv)]
  | Err e => CmdExc e
  end.
Proof.
  intros files dim bessel Hne. unfold compute_mvn_stats.
  rewrite cmd_loop_anonymous.
  destruct files as [|[i x] files]; [contradiction|].
  cbn [map snd accumulate_all].
  destruct (accumulate dim None x) as [s1|e]; cbn [bind]; [|reflexivity].
  destruct (accumulate_all dim (Some s1) (map snd files)) as [[s|]|e] eqn:E; cbn [bind].
  - cbn [cmd_store]. destruct (store (Some s) bessel) as [ms|e]; reflexivity.
  - exfalso. clear - E. revert s1 E. induction (map snd files) as [|y ys IH]; intros s1 E; [discriminate|].
    cbn [accumulate_all] in E. destruct (accumulate dim (Some s1) y); cbn [bind] in E; [eauto|discriminate].
  - reflexivity.
Qed.

Lemma cmd_no_files : forall dim bessel, compute_mvn_stats [] None dim bessel = CmdRet1.
Proof. reflexivity. Qed.

(* the statistics file of a directory holds the pooled statistics of all its frames *)
Lemma cmd_directory_stats : forall files dim X bessel,
  files <> [] -> uniform dim X (map snd files) -> (2 <= frames dim (map snd files))%nat ->
  exists mean var,
    compute_mvn_stats files None dim bessel = CmdOk [(0%nat, (mean, var))] /\
    length mean = X /\ length var = X /\
    forall i, (i < X)%nat ->
      nth i mean 0 == pop_mean (pooled dim (map snd files) i) /\
      nth i var 0 == pop_var bessel (pooled dim (map snd files) i).
Proof.
  intros files dim X bessel Hne HU Hn.
  assert (Hne' : map snd files <> []) by (destruct files; [contradiction|discriminate]).
  destruct (store_is_pooled_mean_var dim X (map snd files) bessel Hne' HU Hn) as [m [v [E H]]].
  exists m, v. split; [|exact H]. rewrite cmd_anonymous by assumption. now rewrite E.
Qed.

(* ------------------------------------------------------------------------------ *)
(* histories                                                                      *)
(* ------------------------------------------------------------------------------ *)
Lemma accumulate_all_app : forall dim a b st,
  accumulate_all dim st (a ++ b) = bind (accumulate_all dim st a) (fun st' => accumulate_all dim st' b).
Proof.
  intros dim a b. induction a as [|x a IH]; intros st; [reflexivity|].
  cbn [app accumulate_all]. destruct (accumulate dim st x); cbn [bind]; [apply IH|reflexivity].
Qed.

Lemma run_ops_history : forall dim ops live st outs,
  accumulate_all dim None live = Ok st ->
  run_ops dim st ops outs = history_ref dim live ops outs.
Proof.
  intros dim ops. induction ops as [|[x|del b] ops IH]; intros live st outs H.
  - cbn [run_ops history_ref]. now rewrite H.
  - cbn [run_ops history_ref]. rewrite accumulate_all_app, H. cbn [bind accumulate_all].
    destruct (accumulate dim st x) as [s|e] eqn:E; cbn [bind]; [|reflexivity].
    apply IH. rewrite accumulate_all_app, H. cbn [bind accumulate_all]. now rewrite E.
  - cbn [run_ops history_ref]. rewrite H. cbn [bind].
    destruct (store st b) as [mv|e]; [destruct del|]; apply IH; try assumption. reflexivity.
Qed.

Lemma run_ops_history0 : forall dim ops, run_ops dim None ops [] = history_ref dim [] ops [].
Proof. intros. now apply run_ops_history. Qed.
