(* C02 — placeholder while the correspondence is being brought up; replaced by the theorems. *)
From PV Require Import C02.Spec C02.Model.
