(* C09, second tie — `chunk_by_slices` (PV.Gen.C09BSrc.chunk_body) under SrcRunB.ext09b: the two EARLY EXITS of the
   function, for all inputs - the empty batch (N = 0: returns x.new_empty(x.shape), slices.new_zeros((0,))) and a `lens`
   of the wrong length (RuntimeError) - as the model has them.  The main path (padding buffers, masks, scatters) is
   executed against torch on every run (SrcRunB.src_chunk_check) but NOT proved: see TieBChunk.v.wip and
   notes/C09_tie_report.md, "Second tie". *)
From Coq Require Import ZArith List String Bool Arith Lia ZifyBool ZifyNat.
From PV Require Import MiniPy.Syntax MiniPy.Interp MiniTorch.Ops MiniTorch.OpsC09 MiniTorch.LemmasC09 MiniTorch.OpsC09B
  MiniTorch.LemmasC09B Gen.C09Src Gen.C09BSrc.
From PV Require Import C09.SrcRun C09.SrcRunB C09.TieSrc C09.TieBSrc C09.TieTac C09.TieBTac C09.TieGpb.
From PV Require C09.Model.
Import ListNotations.
Local Open Scope string_scope.

Lemma new_empty_0 {X} T F : @new_empty X [0%nat; T; F] = Some (mkTn [0%nat; T; F] []).
Proof. reflexivity. Qed.

(* N = 0: whatever slices (an integer tensor), lens, mode and value are *)
Lemma chunk_run_empty T F (sl : tn Z) lensV md value :
  exists st,
    Interp.run ext09b chunk_body (chunk_vars (enc_p (mkTn [0%nat; T; F] [])) (enc_i sl) lensV (mode_val md) value)
    = Ok (VTuple [enc_p (mkTn [0%nat; T; F] []); enc_i (mkTn [0%nat] [])]) st.
Proof.
  unfold Interp.run, chunk_body, chunk_vars, globalsB. cbn [app].
  stmtB.
  close_stmt.
  stmtB.
  close_stmt.
  open_seq. open_if. goB. take_true. goB.
  repeat (change (as_size (VInt 0)) with (Some 0%nat); goB). rewrite new_empty_0. goB.
  repeat (change (as_size (VInt 0)) with (Some 0%nat); goB).
  change (full [0%nat] 0%Z) with (mkTn [0%nat] (@nil Z)).
  unfold then_. eexists. reflexivity.
Qed.

(* N > 0 and a lens vector whose length is not N: RuntimeError (slices is not looked at before) *)
Lemma chunk_run_bad_lens N Nl T F xf lf (sl : tn Z) md value :
  N <> 0%nat -> Nl <> N ->
  exists st,
    Interp.run ext09b chunk_body
      (chunk_vars (enc_p (xT N T F xf)) (enc_i sl) (enc_i (lensT Nl lf)) (mode_val md) value)
    = Exc runtime_error st.
Proof.
  intros HN HNl.
  unfold Interp.run, chunk_body, chunk_vars, globalsB, xT, lensT. cbn [app].
  stmtB.
  close_stmt.
  stmtB.
  close_stmt.
  stmtB.
  replace (Z.of_nat N =? 0)%Z with false by lia. goB.
  close_stmt.
  stmtB.
  close_stmt.
  stmtB.
  close_stmt.
  stmtB.
  close_stmt.
  open_seq. open_if. goB. take_false.
  open_if. goB.
  replace (Z.of_nat Nl =? Z.of_nat N)%Z with false by lia. goB. take_true. goB.
  eexists. reflexivity.
Qed.
