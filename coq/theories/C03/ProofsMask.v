(* C03 — the mask returned by _string_matching(return_mask=True), one column.
   The rows with +inf agree with the Levenshtein table of C01 on positions <= ref_len
   ([row_ok], by the lemmas of C01.Proofs: cand_row_0/S, tri_prefix, sweep_cand_lrow), the
   +inf fill makes the row minimum the minimum over positions <= ref_len, and so
   [pair_masks_spec]: mask[k][i] holds iff i < ref_len, the prefix k is live, and position i
   is a minimum of the table row of prefix k restricted to 0..ref_len. *)
From Coq Require Import List ZArith Bool Arith Lia.
From PV Require Import C01.Obs C01.Spec C01.Model C01.LevFacts C01.Proofs C03.Model.
Import ListNotations.
Local Open Scope Z_scope.

(* ---- minima of lists with +inf --------------------------------------------------------- *)
Lemma omin_list_cons a l : omin_list (a :: l) = omin a (omin_list l).
Proof. reflexivity. Qed.

Lemma omin_list_le l m : omin_list l = Some m -> forall v, In (Some v) l -> m <= v.
Proof.
  revert m. induction l as [|a l IH]; intros m E v Hin; [destruct Hin|].
  rewrite omin_list_cons in E. destruct Hin as [->|Hin].
  - destruct (omin_list l) as [y|]; cbn [omin] in E; inversion E; lia.
  - destruct (omin_list l) as [y|] eqn:El.
    + specialize (IH y eq_refl v Hin). destruct a as [x|]; cbn [omin] in E; inversion E; lia.
    + exfalso. clear IH E. revert El Hin. clear. induction l as [|b l IH]; intros El Hin; [destruct Hin|].
      rewrite omin_list_cons in El. destruct Hin as [->|Hin].
      * destruct (omin_list l); cbn [omin] in El; discriminate El.
      * destruct b; [destruct (omin_list l); cbn [omin] in El; discriminate El|].
        cbn [omin] in El. exact (IH El Hin).
Qed.

Lemma omin_list_in l m : omin_list l = Some m -> In (Some m) l.
Proof.
  revert m. induction l as [|a l IH]; intros m E; [discriminate E|].
  rewrite omin_list_cons in E. destruct a as [x|], (omin_list l) as [y|]; cbn [omin] in E.
  - inversion E. destruct (Z.min_spec x y) as [[_ Em]|[_ Em]]; rewrite Em.
    + left. reflexivity.
    + right. apply IH. reflexivity.
  - inversion E. left. reflexivity.
  - right. apply IH. exact E.
  - discriminate E.
Qed.

Lemma omin_list_has l v : In (Some v) l -> exists m, omin_list l = Some m.
Proof.
  induction l as [|a l IH]; intros Hin; [destruct Hin|].
  rewrite omin_list_cons. destruct Hin as [->|Hin].
  - destruct (omin_list l); cbn [omin]; eexists; reflexivity.
  - destruct (IH Hin) as [m ->]. destruct a; cbn [omin]; eexists; reflexivity.
Qed.

(* ---- the deletion fold on rows with +inf ------------------------------------------------- *)
Lemma odel_fold_length cd v : length (odel_fold cd v) = length v.
Proof. unfold odel_fold. rewrite map_length, seq_length. reflexivity. Qed.

(* entry i only looks at entries <= i; where those are finite it is the sequential sweep *)
Lemma odel_fold_nth cd v z i : (i < length v)%nat ->
  (forall j, (j <= i)%nat -> nth j v None = Some (nth j z 0)) ->
  nth i (odel_fold cd v) None = Some (sweep_at cd z i).
Proof.
  intros Hi Hag. unfold odel_fold. rewrite nth_map_seq by exact Hi. cbn [Nat.add].
  replace (length v) with (S i + (length v - S i))%nat at 1 by lia.
  rewrite seq_app, map_app, omin_list_app.
  rewrite (map_ext_in _ (fun _ => None) (seq (0 + S i) (length v - S i))).
  2:{ intros j Hj. apply in_seq in Hj. unfold del_entry.
      destruct (j <=? i)%nat eqn:E; [apply Nat.leb_le in E; lia|reflexivity]. }
  rewrite omin_list_none.
  rewrite (map_ext_in _ (fun j => Some (Z.of_nat i * cd - Z.of_nat j * cd + nth j z 0)) (seq 0 (S i))).
  2:{ intros j Hj. apply in_seq in Hj. unfold del_entry.
      destruct (j <=? i)%nat eqn:E; [|apply Nat.leb_gt in E; lia].
      rewrite Hag by lia. reflexivity. }
  rewrite tri_prefix by lia. cbn [omin]. f_equal. lia.
Qed.

Section Mask.
  Variables ci cd cs : Z.
  Variables r h : list Z.
  Variables rlen hlen : nat.
  Variable excl : bool.
  Hypothesis Hr : (rlen <= length r)%nat.
  Hypothesis Hh : (hlen <= length h)%nat.
  Notation lev := (lev ci cd cs).
  Notation fz := (frozen hlen excl).
  Notation nd := (not_done_at hlen excl).

  (* entry i of the table row of hypothesis prefix k *)
  Definition tab (k i : nat) : Z := lev (firstn i r) (firstn k h).

  (* position i is a minimum of row k among positions 0..ref_len *)
  Definition row_argmin (k i : nat) : Prop := forall i', (i' <= rlen)%nat -> tab k i <= tab k i'.

  Definition row_ok (k : nat) (row : list (option Z)) : Prop :=
    length row = S (length r) /\
    forall i, (i <= rlen)%nat -> nth i row None = Some (tab (Nat.min k fz) i).

  Lemma orow0_ok : row_ok 0 (orow0 cd r).
  Proof.
    split; [unfold orow0; rewrite map_length, seq_length; reflexivity|].
    intros i Hi. unfold orow0. rewrite nth_map_seq by lia. cbn [Nat.add Nat.min]. unfold tab.
    cbn [firstn]. rewrite lev_nil_r, firstn_length, Nat.min_l by lia. reflexivity.
  Qed.

  (* ---- the candidate row (insertions, substitutions) -------------------------------------- *)
  Definition ocand (tok m : Z) (last : list (option Z)) : list (option Z) :=
    let neq_mask := map (fun a => if a =? tok then 0 else 1) r in
    let row := map (fun x => oadd x (ci * m)) last in
    let sub_row := map2 (fun x m => oadd x (cs * m)) (removelast last) neq_mask in
    hd None row :: map2 omin (tl row) sub_row.

  Lemma ostep_row_unfold idx last :
    ostep_row ci cd cs r h hlen excl idx last =
    if nd idx
    then odel_fold cd (ocand (nth (idx - 1) h 0) (if (idx <=? hlen)%nat then 1 else 0) last)
    else last.
  Proof. reflexivity. Qed.

  Lemma ocand_length tok m last : length last = S (length r) ->
    length (ocand tok m last) = S (length r).
  Proof.
    intros HL. unfold ocand. cbn [length].
    rewrite !map2_length, length_tl, length_removelast, !map_length, HL. lia.
  Qed.

  Lemma ocand_0 tok m last : length last = S (length r) ->
    nth 0 (ocand tok m last) None = oadd (nth 0 last None) (ci * m).
  Proof.
    intros HL. unfold ocand. cbn [nth]. rewrite hd_nth0.
    rewrite (nth_map_lt _ last 0%nat None) by lia. reflexivity.
  Qed.

  Lemma ocand_S tok m last i : length last = S (length r) -> (i < length r)%nat ->
    nth (S i) (ocand tok m last) None =
    omin (oadd (nth (S i) last None) (ci * m))
         (oadd (nth i last None) (cs * (if nth i r 0 =? tok then 0 else 1))).
  Proof.
    intros HL Hi. unfold ocand. cbn [nth].
    rewrite (nth_map2 omin _ _ i None None None).
    2:{ rewrite length_tl, map_length, HL. lia. }
    2:{ rewrite map2_length, length_removelast, map_length, HL. lia. }
    rewrite nth_tl, (nth_map_lt _ last (S i) None) by lia.
    rewrite (nth_map2 _ _ _ i None 0 None).
    2:{ rewrite length_removelast, HL. lia. }
    2:{ rewrite map_length. exact Hi. }
    rewrite nth_removelast by lia.
    rewrite (nth_map_lt _ r i 0) by exact Hi. reflexivity.
  Qed.

  (* where the previous row is finite and equals z, the candidates are C01's candidates *)
  Lemma ocand_agree tok m last z :
    length last = S (length r) -> length z = S (length r) ->
    (forall i, (i <= rlen)%nat -> nth i last None = Some (nth i z 0)) ->
    forall i, (i <= rlen)%nat ->
      nth i (ocand tok m last) None = Some (nth i (cand_row ci cs r tok m z) 0).
  Proof.
    intros HL Hz Hag i Hi. destruct i as [|i].
    - rewrite ocand_0, cand_row_0, Hag by (assumption || lia). reflexivity.
    - rewrite ocand_S, cand_row_S by (assumption || lia).
      rewrite !Hag by lia. reflexivity.
  Qed.

  (* ---- one step keeps the invariant ------------------------------------------------------- *)
  Lemma nd_live k : (1 <= k)%nat -> nd k = true -> (k <= fz)%nat /\ (k <= hlen)%nat.
  Proof.
    intros H1 E. unfold not_done_at in E. apply Nat.ltb_lt in E. unfold frozen.
    destruct excl; lia.
  Qed.

  Lemma nd_dead k : (1 <= k)%nat -> nd k = false -> (fz < k)%nat.
  Proof.
    intros H1 E. unfold not_done_at in E. apply Nat.ltb_ge in E. unfold frozen.
    destruct excl; lia.
  Qed.

  Lemma ostep_row_ok k last : (1 <= k)%nat -> row_ok (k - 1) last ->
    row_ok k (ostep_row ci cd cs r h hlen excl k last).
  Proof.
    intros H1 [HL Hag]. rewrite ostep_row_unfold. destruct (nd k) eqn:End.
    - destruct (nd_live k H1 End) as [Hfz Hk].
      replace (k <=? hlen)%nat with true by (symmetry; apply Nat.leb_le; exact Hk).
      split; [rewrite odel_fold_length; apply ocand_length; exact HL|].
      intros i Hi. rewrite Nat.min_l by exact Hfz.
      rewrite (odel_fold_nth cd _ (cand_row ci cs r (nth (k - 1) h 0) 1 (lrow ci cd cs r h (k - 1)))).
      + rewrite sweep_cand_lrow by lia. unfold tab. replace (S (k - 1)) with k by lia. reflexivity.
      + rewrite ocand_length by exact HL. lia.
      + intros j Hj. apply ocand_agree; [exact HL|apply lrow_length| |lia].
        intros i' Hi'. rewrite Hag by exact Hi'. rewrite Nat.min_l by lia.
        rewrite lrow_nth by lia. reflexivity.
    - pose proof (nd_dead k H1 End) as Hfz. split; [exact HL|].
      intros i Hi. rewrite Hag by exact Hi. rewrite !Nat.min_r by lia. reflexivity.
  Qed.

  (* ---- the +inf fill --------------------------------------------------------------------- *)
  Lemma inf_past_length row : length (inf_past rlen row) = length row.
  Proof. unfold inf_past. rewrite map2_length, seq_length. lia. Qed.

  Lemma inf_past_nth row i : (i < length row)%nat ->
    nth i (inf_past rlen row) None = if (rlen <? i)%nat then None else nth i row None.
  Proof.
    intros Hi. unfold inf_past.
    rewrite (nth_map2 _ _ _ i 0%nat None None) by (rewrite ?seq_length; exact Hi).
    rewrite seq_nth by exact Hi. reflexivity.
  Qed.

  Lemma inf_past_ok k row : row_ok k row -> row_ok k (inf_past rlen row).
  Proof.
    intros [HL Hag]. split; [rewrite inf_past_length; exact HL|].
    intros i Hi. rewrite inf_past_nth by lia.
    replace (rlen <? i)%nat with false by (symmetry; apply Nat.ltb_ge; exact Hi). apply Hag. exact Hi.
  Qed.

  (* the minimum of the filled row is the minimum of the table row over 0..ref_len *)
  Lemma mins_spec k row : row_ok k row ->
    exists m, omin_list (inf_past rlen row) = Some m /\
              (forall i, (i <= rlen)%nat -> m <= tab (Nat.min k fz) i) /\
              (exists i, (i <= rlen)%nat /\ m = tab (Nat.min k fz) i).
  Proof.
    intros Hok. pose proof (inf_past_ok k row Hok) as [HL Hag]. destruct Hok as [HL0 Hag0].
    assert (Hin : forall i, (i <= rlen)%nat -> In (Some (tab (Nat.min k fz) i)) (inf_past rlen row)).
    { intros i Hi. rewrite <- Hag by exact Hi. apply nth_In. lia. }
    destruct (omin_list_has _ _ (Hin 0%nat ltac:(lia))) as [m Em]. exists m.
    split; [exact Em|]. split.
    - intros i Hi. apply (omin_list_le _ _ Em). apply Hin. exact Hi.
    - apply omin_list_in in Em. apply (In_nth _ _ None) in Em as [i [Hi Ei]].
      rewrite inf_past_length in Hi. rewrite inf_past_nth in Ei by exact Hi.
      destruct (rlen <? i)%nat eqn:E; [discriminate Ei|]. apply Nat.ltb_ge in E.
      exists i. split; [exact E|]. rewrite Hag0 in Ei by exact E. inversion Ei. reflexivity.
  Qed.

  (* ---- the mask bits of one step ---------------------------------------------------------- *)
  Notation mstep := (mask_step ci cd cs r h rlen hlen excl).

  Lemma mask_step_fst_ok k last : (1 <= k)%nat -> row_ok (k - 1) last -> row_ok k (fst (mstep k last)).
  Proof. intros H1 Hok. unfold mask_step. cbn [fst]. apply inf_past_ok, ostep_row_ok; assumption. Qed.

  Lemma mask_step_snd_length k last : (1 <= k)%nat -> row_ok (k - 1) last ->
    length (snd (mstep k last)) = length r.
  Proof.
    intros H1 Hok. unfold mask_step. cbn [snd].
    rewrite map_length, length_removelast, inf_past_length.
    destruct (ostep_row_ok k last H1 Hok) as [HL _]. rewrite HL. lia.
  Qed.

  Lemma mask_step_bit k last i : (1 <= k)%nat -> row_ok (k - 1) last -> (i < length r)%nat ->
    nth i (snd (mstep k last)) false = true <->
    nd k = true /\ (i <= rlen)%nat /\ row_argmin k i.
  Proof.
    intros H1 Hok0 Hi. pose proof (ostep_row_ok k last H1 Hok0) as Hok.
    unfold mask_step. cbn [snd]. set (row := ostep_row ci cd cs r h hlen excl k last) in *.
    destruct (mins_spec k row Hok) as [m [Em [Hle [i0 [Hi0 Ei0]]]]]. destruct Hok as [HL Hag].
    rewrite (nth_map_lt _ _ i None) by (rewrite length_removelast, inf_past_length, HL; lia).
    rewrite nth_removelast by (rewrite inf_past_length, HL; lia).
    rewrite inf_past_nth by lia. rewrite Em.
    destruct (nd k) eqn:End.
    2:{ rewrite andb_false_r. split; [discriminate|]. intros [H _]. discriminate H. }
    destruct (nd_live k H1 End) as [Hfz _]. rewrite Nat.min_l in * by exact Hfz.
    rewrite andb_true_r.
    destruct (rlen <? i)%nat eqn:E.
    - apply Nat.ltb_lt in E. cbn [oeqb]. split; [discriminate|]. intros [_ [H _]]. lia.
    - apply Nat.ltb_ge in E. rewrite Hag by exact E. cbn [oeqb]. rewrite Z.eqb_eq. split.
      + intros Et. split; [reflexivity|]. split; [exact E|]. intros i' Hi'. rewrite Et. apply Hle. exact Hi'.
      + intros [_ [_ Harg]]. specialize (Harg i0 Hi0). specialize (Hle i E). lia.
  Qed.

  (* ---- the loop --------------------------------------------------------------------------- *)
  Notation mloop := (masks_loop ci cd cs r h rlen hlen excl).

  Lemma masks_loop_length fuel : forall idx last, length (mloop fuel idx last) = fuel.
  Proof. induction fuel as [|f IH]; intros; cbn [masks_loop length]; [reflexivity|]. rewrite IH. reflexivity. Qed.

  Lemma masks_loop_nth fuel : forall idx last j,
    (1 <= idx)%nat -> row_ok (idx - 1) last -> (j < fuel)%nat ->
    exists row, row_ok (idx + j - 1) row /\ nth j (mloop fuel idx last) [] = snd (mstep (idx + j) row).
  Proof.
    induction fuel as [|f IH]; intros idx last j H1 Hok Hj; [lia|].
    cbn [masks_loop]. destruct j as [|j]; cbn [nth].
    - exists last. rewrite Nat.add_0_r. split; [exact Hok|reflexivity].
    - destruct (IH (S idx) (fst (mstep idx last)) j) as [row [Hrow En]]; [lia| |lia|].
      + replace (S idx - 1)%nat with idx by lia. apply mask_step_fst_ok; assumption.
      + exists row. replace (idx + S j)%nat with (S idx + j)%nat by lia. split; assumption.
  Qed.

  Notation pmasks := (pair_masks ci cd cs r h rlen hlen excl).

  Lemma pair_masks_length steps : length (pmasks steps) = S steps.
  Proof. unfold pair_masks. rewrite map_length. cbn [length]. rewrite masks_loop_length. reflexivity. Qed.

  (* the raw mask rows before the "< ref_len" restriction *)
  Lemma raw_mask_length steps k : (k <= steps)%nat ->
    length (nth k (first_mask r rlen :: mloop steps 1%nat (orow0 cd r)) []) = length r.
  Proof.
    intros Hk. destruct k as [|j]; cbn [nth].
    - unfold first_mask. rewrite map_length, seq_length. reflexivity.
    - destruct (masks_loop_nth steps 1 (orow0 cd r) j) as [row [Hrow En]]; [lia|apply orow0_ok|lia|].
      rewrite En. apply mask_step_snd_length; [lia|exact Hrow].
  Qed.

  Lemma pair_masks_nth steps k : (k <= steps)%nat ->
    nth k (pmasks steps) [] =
    map2 andb (nth k (first_mask r rlen :: mloop steps 1%nat (orow0 cd r)) [])
         (map (fun i => (i <? rlen)%nat) (seq 0 (length r))).
  Proof.
    intros Hk. unfold pair_masks.
    rewrite (nth_map_lt _ _ k []) by (cbn [length]; rewrite masks_loop_length; lia). reflexivity.
  Qed.

  Lemma pair_masks_row_length steps k : (k <= steps)%nat -> length (nth k (pmasks steps) []) = length r.
  Proof.
    intros Hk. rewrite pair_masks_nth by exact Hk.
    rewrite map2_length, raw_mask_length, map_length, seq_length by exact Hk. lia.
  Qed.

  Lemma tab_0 i : (i <= length r)%nat -> tab 0 i = Z.of_nat i * cd.
  Proof. intros Hi. unfold tab. cbn [firstn]. rewrite lev_nil_r, firstn_length, Nat.min_l by lia. reflexivity. Qed.

  (* mechanism 1 of the property: the mask of row minima restricted to the reference length *)
  Theorem pair_masks_spec steps k i : 0 < cd -> (k <= steps)%nat -> (i < length r)%nat ->
    nth i (nth k (pmasks steps) []) false = true <->
    (i < rlen)%nat /\ (k = 0%nat \/ nd k = true) /\ row_argmin k i.
  Proof.
    intros Hcd Hk Hi. rewrite pair_masks_nth by exact Hk.
    rewrite (nth_map2 andb _ _ i false false false)
      by (rewrite ?raw_mask_length, ?map_length, ?seq_length; assumption).
    rewrite nth_map_seq by exact Hi. cbn [Nat.add].
    rewrite andb_true_iff, Nat.ltb_lt. destruct k as [|j]; cbn [nth].
    - unfold first_mask. rewrite nth_map_seq by exact Hi. cbn [Nat.add].
      rewrite andb_true_iff, Nat.eqb_eq, Nat.ltb_lt. split.
      + intros [[E0 Hpos] Hlt]. split; [exact Hlt|]. split; [left; reflexivity|].
        intros i' Hi'. subst i. rewrite !tab_0 by lia. nia.
      + intros [Hlt [_ Harg]]. split; [|exact Hlt]. split; [|lia].
        specialize (Harg 0%nat ltac:(lia)). rewrite !tab_0 in Harg by lia. nia.
    - destruct (masks_loop_nth steps 1 (orow0 cd r) j) as [row [Hrow En]]; [lia|apply orow0_ok|lia|].
      rewrite En. rewrite mask_step_bit by (assumption || lia).
      replace (1 + j)%nat with (S j) by lia. split.
      + intros [[End [_ Harg]] Hlt]. split; [exact Hlt|]. split; [right; exact End|exact Harg].
      + intros [Hlt [[E|End] Harg]]; [discriminate E|]. split; [|exact Hlt].
        split; [exact End|]. split; [lia|exact Harg].
  Qed.

  (* no cost hypothesis: a marked position is always a counted reference position *)
  Lemma pair_masks_lt steps k i : (k <= steps)%nat -> (i < length r)%nat ->
    nth i (nth k (pmasks steps) []) false = true -> (i < rlen)%nat.
  Proof.
    intros Hk Hi. rewrite pair_masks_nth by exact Hk.
    rewrite (nth_map2 andb _ _ i false false false)
      by (rewrite ?raw_mask_length, ?map_length, ?seq_length; assumption).
    rewrite nth_map_seq by exact Hi. cbn [Nat.add].
    rewrite andb_true_iff, Nat.ltb_lt. intros [_ H]. exact H.
  Qed.

  (* ... and a finished pair marks nothing ("& not_done") *)
  Lemma pair_masks_dead steps k i : (1 <= k)%nat -> (k <= steps)%nat -> (i < length r)%nat ->
    nd k = false -> nth i (nth k (pmasks steps) []) false = false.
  Proof.
    intros H1 Hk Hi End. rewrite pair_masks_nth by exact Hk.
    rewrite (nth_map2 andb _ _ i false false false)
      by (rewrite ?raw_mask_length, ?map_length, ?seq_length; assumption).
    destruct k as [|j]; [lia|]. cbn [nth].
    destruct (masks_loop_nth steps 1 (orow0 cd r) j) as [row [Hrow En]]; [lia|apply orow0_ok|lia|].
    rewrite En. replace (1 + j)%nat with (S j) in * by lia.
    destruct (nth i (snd (mstep (S j) row)) false) eqn:Eb; [|reflexivity].
    apply mask_step_bit in Eb as [End' _]; [congruence|lia|exact Hrow|exact Hi].
  Qed.
End Mask.
